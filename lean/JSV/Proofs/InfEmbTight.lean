/-
  C09 (embedded fields): what the schema `forTypeE` builds for a type of the domain accepts, the strict decoder
  `decodableE` accepts (`tightE`), from `Go.Models` for the flattened type (JSV/Proofs/InfEmbFlat.lean) and the pieces
  of `Models.tight` (JSV/Proofs/InfTight.lean).

  The struct case: a member `(k, v)` of an accepted object is a property of the schema (`additionalProperties` is the
  false schema), the properties are the JSON names of the live visible fields, a live visible field is a dominant
  candidate of `typeFields` (`visible_eq_dominant`), so the exact-match search of the decoder finds a field
  (`findE_isSome`); and whatever field it finds under the name `k` is a live visible one, whose schema is the property
  `k` (`findE_true`), against which `v` is valid: induction.
-/
import JSV.Proofs.InfEmbSound
import JSV.Proofs.InfTight
namespace JSV
namespace EncJsonEmb
open Go Spec EncJson

/-! ## the decoder through an embedded struct -/

theorem embViewD (t : GoTypeE) :
    (∃ fs, (∀ idx, embFields idx t = allFields idx 0 fs) ∧
        (∀ all m idx k v, decodableEmbFindE all m idx t k v = decodableFindE all m idx 0 fs k v) ∧
        (inDomainEmbE t = true → inDomainFieldsE fs = true) ∧ wtFs fs < wt t) ∨
    ((∀ idx, embFields idx t = []) ∧ inDomainEmbE t = false) := by
  cases t with
  | ptr e =>
    cases e with
    | named nm u =>
      cases u with
      | struct fs =>
        exact Or.inl ⟨fs, fun _ => rfl, fun _ _ _ _ _ => by simp only [decodableEmbFindE], fun h => h, by simp only [wt]; omega⟩
      | _ => exact Or.inr ⟨fun _ => rfl, rfl⟩
    | struct fs =>
      exact Or.inl ⟨fs, fun _ => rfl, fun _ _ _ _ _ => by simp only [decodableEmbFindE],
        fun h => (by simp [inDomainEmbE] at h), by simp only [wt]; omega⟩
    | _ => exact Or.inr ⟨fun _ => rfl, rfl⟩
  | named nm u =>
    cases u with
    | struct fs =>
      exact Or.inl ⟨fs, fun _ => rfl, fun _ _ _ _ _ => by simp only [decodableEmbFindE], fun h => h, by simp only [wt]; omega⟩
    | _ => exact Or.inr ⟨fun _ => rfl, rfl⟩
  | struct fs =>
    exact Or.inl ⟨fs, fun _ => rfl, fun _ _ _ _ _ => by simp only [decodableEmbFindE],
      fun h => (by simp [inDomainEmbE] at h), by simp only [wt]; omega⟩
  | _ => exact Or.inr ⟨fun _ => rfl, rfl⟩

/-- the exact-match search of the decoder -/
abbrev exactM : String → String → Bool := fun n k => n == k

section Find
variable {nfs : Bool} {st : Store} {re : String → String → Bool} {all : List VField} {cands : List TField}
  {props : List (String × NodeId)}

/-- whatever field the exact-match search finds for the key `k`: it is a live visible field, the property `k` of the
    schema is its schema, so a member that is valid against the property decodes into the field -/
theorem findE_true (hok : namesOk all = true) (hc : cands = (all.filter live).map toT)
    (hmf : ModelsFields nfs st (plainOf (all.filter (isVisible all))) props)
    (N f : Nat) (scope : List NodeId) (k : String) (v : Json)
    (hval : ∀ t, Json.lookup k props = some t → Valid (evalFuel (specEnvNoRefs st re) f scope t v))
    (IH : ∀ T, wt T < N → InDomainE T = true → ∀ id, Models nfs st (flatten T) false id →
      Valid (evalFuel (specEnvNoRefs st re) f scope id v) → decodableE T v = true) :
    ∀ (n : Nat) (fs : List (FieldE GoTypeE)) (pre : List Nat) (i : Nat), wtFs fs ≤ n → inDomainFieldsE fs = true →
      (∀ g, g ∈ allFields pre i fs → g ∈ all ∧ wt g.type < N) →
      ∀ b, decodableFindE cands exactM pre i fs k v = some b → b = true := by
  intro n
  induction n with
  | zero =>
    intro fs pre i hw _ _ b hb
    cases fs with
    | nil => simp only [decodableFindE] at hb; cases hb
    | cons g rest => simp only [wtFs] at hw; omega
  | succ n ihn =>
    intro fs pre i hw hd hsub b hb
    cases fs with
    | nil => simp only [decodableFindE] at hb; cases hb
    | cons g rest =>
      simp only [wtFs] at hw
      simp only [inDomainFieldsE, Bool.and_eq_true] at hd
      simp only [decodableFindE] at hb
      have hsub_rest : ∀ g', g' ∈ allFields pre (i + 1) rest → g' ∈ all ∧ wt g'.type < N :=
        fun g' hg' => hsub g' (by simp only [allFields, List.mem_cons, List.mem_append]; exact Or.inr (Or.inr hg'))
      rcases classify_domain hd.1 with ⟨he, hcl, hde⟩ | ⟨he, hcl, _⟩ | ⟨he, hcl, hx, ho, hdt⟩
      · -- an embedded struct
        rw [hcl] at hb
        simp only at hb
        cases hin : decodableEmbFindE cands exactM (pre ++ [i]) g.type k v with
        | some b' =>
          rw [hin] at hb
          simp only [Option.some.injEq] at hb
          subst hb
          rcases embViewD g.type with ⟨fs', hfe, hdec, hdom, hlt⟩ | ⟨_, hfalse⟩
          · rw [hdec] at hin
            refine ihn fs' (pre ++ [i]) 0 (by omega) (hdom hde) (fun g' hg' => hsub g' ?_) b' hin
            simp only [allFields, List.mem_cons, List.mem_append, he, if_true, hfe]
            exact Or.inr (Or.inl hg')
          · rw [hfalse] at hde; cases hde
        | none =>
          rw [hin] at hb
          exact ihn rest pre (i + 1) (by omega) hd.2 hsub_rest b hb
      · rw [hcl] at hb
        exact ihn rest pre (i + 1) (by omega) hd.2 hsub_rest b hb
      · -- a field of its own
        rw [hcl] at hb
        simp only at hb
        by_cases hcond : (isDominant cands (mkTField (pre ++ [i]) g) && exactM (fieldJSONInfo g.goName g.tag).name k) = true
        · rw [if_pos hcond] at hb
          simp only [Option.some.injEq] at hb
          subst hb
          simp only [Bool.and_eq_true, beq_iff_eq] at hcond
          have hmem := hsub (headV pre i g) (headV_mem pre i g rest)
          have hlive : live (headV pre i g) = true := live_headV he hx ho
          have hdomv : isDominant cands (toT (headV pre i g)) = true := hcond.1
          rw [hc, ← visible_eq_dominant hok hmem.1 hlive] at hdomv
          have hin : flatV (headV pre i g) ∈ plainOf (all.filter (isVisible all)) := by
            unfold plainOf
            exact List.mem_map.2 ⟨_, List.mem_filter.2 ⟨List.mem_filter.2 ⟨hmem.1, hdomv⟩, hlive⟩, rfl⟩
          rcases modelsFields_mem hmf _ hin with hom | ⟨fid, hl, hmod⟩
          · have hom' : (fieldJSONInfo g.goName g.tag).omitted = true := hom
            rw [ho] at hom'
            cases hom'
          · have hl' : Json.lookup k props = some fid := by rw [← hcond.2]; exact hl
            exact IH g.type hmem.2 hdt fid hmod (hval fid hl')
        · rw [if_neg hcond] at hb
          exact ihn rest pre (i + 1) (by omega) hd.2 hsub_rest b hb

/-- the exact-match search finds a field for the JSON name of every live visible field -/
theorem findE_isSome (hok : namesOk all = true) (hc : cands = (all.filter live).map toT) (v : Json) :
    ∀ (n : Nat) (fs : List (FieldE GoTypeE)) (pre : List Nat) (i : Nat), wtFs fs ≤ n → inDomainFieldsE fs = true →
      (∀ g, g ∈ allFields pre i fs → g ∈ all) →
      ∀ vf, vf ∈ allFields pre i fs → live vf = true → isVisible all vf = true →
      (decodableFindE cands exactM pre i fs (jsonNameOf vf) v).isSome = true := by
  intro n
  induction n with
  | zero =>
    intro fs pre i hw _ _ vf hvf
    cases fs with
    | nil => simp only [allFields] at hvf; cases hvf
    | cons g rest => simp only [wtFs] at hw; omega
  | succ n ihn =>
    intro fs pre i hw hd hsub vf hvf hlive hvis
    cases fs with
    | nil => simp only [allFields] at hvf; cases hvf
    | cons g rest =>
      simp only [wtFs] at hw
      simp only [inDomainFieldsE, Bool.and_eq_true] at hd
      simp only [decodableFindE]
      have hsub_rest : ∀ g', g' ∈ allFields pre (i + 1) rest → g' ∈ all :=
        fun g' hg' => hsub g' (by simp only [allFields, List.mem_cons, List.mem_append]; exact Or.inr (Or.inr hg'))
      simp only [allFields, List.mem_cons, List.mem_append] at hvf
      rcases hvf with rfl | hvf | hvf
      · -- the field itself
        have hl := hlive
        rw [live_mk] at hl
        simp only [Bool.and_eq_true, Bool.not_eq_true'] at hl
        rcases classify_domain hd.1 with ⟨he, _, _⟩ | ⟨he, _, hbad⟩ | ⟨he, hcl, hx, ho, _⟩
        · rw [he] at hl; simp at hl
        · rcases hbad with h | h
          · rw [h] at hl; simp at hl
          · rw [h] at hl; simp at hl
        · rw [hcl]
          simp only
          have hdomv : isVisible all (headV pre i g) = true := hvis
          rw [visible_eq_dominant hok (hsub _ (headV_mem pre i g rest)) (live_headV he hx ho), ← hc] at hdomv
          have hdomv' : isDominant cands (mkTField (pre ++ [i]) g) = true := hdomv
          rw [if_pos (by rw [hdomv']; simp only [jsonNameOf, exactM, beq_self_eq_true, Bool.and_self])]
          rfl
      · -- a field of an embedded struct
        cases he : g.embedded with
        | false => rw [he] at hvf; simp at hvf
        | true =>
          rw [he] at hvf
          simp only [if_true] at hvf
          rcases classify_domain hd.1 with ⟨_, hcl, hde⟩ | ⟨he', _, _⟩ | ⟨he', _, _⟩
          · rw [hcl]
            simp only
            rcases embViewD g.type with ⟨fs', hfe, hdec, hdom, hlt⟩ | ⟨hfe, _⟩
            · rw [hfe] at hvf
              have hih := ihn fs' (pre ++ [i]) 0 (by omega) (hdom hde) (fun g' hg' => hsub g' (by
                simp only [allFields, List.mem_cons, List.mem_append, he, if_true, hfe]
                exact Or.inr (Or.inl hg'))) vf hvf hlive hvis
              rw [hdec]
              cases hin : decodableFindE cands exactM (pre ++ [i]) 0 fs' (jsonNameOf vf) v with
              | some b' => rfl
              | none => rw [hin] at hih; cases hih
            · rw [hfe] at hvf
              cases hvf
          · rw [he] at he'; cases he'
          · rw [he] at he'; cases he'
      · have hih := ihn rest pre (i + 1) (by omega) hd.2 hsub_rest vf hvf hlive hvis
        split
        · rfl
        · exact hih

end Find

/-! ## the induction -/

/-- **what the schema accepts decodes** -/
theorem tightE {nfs : Bool} {st : Store} {re : String → String → Bool} : ∀ (n : Nat) (T : GoTypeE), wt T ≤ n →
    InDomainE T = true → ∀ (an : Bool) (id : NodeId), Models nfs st (flatten T) an id →
    ∀ (f : Nat) (scope : List NodeId) (j : Json), PlainInts j = true →
    Valid (evalFuel (specEnvNoRefs st re) f scope id j) → decodableE T j = true := by
  intro n
  induction n using Nat.strongRecOn with
  | _ n ihn =>
    intro T hw hdom an id hm f scope j hp hv
    cases T with
    | named nm u => simp [InDomainE] at hdom
    | ref nm => simp [InDomainE] at hdom
    | basic kind =>
      simp only [flatten, Models] at hm
      obtain ⟨ty, mn, mx, hk, hn⟩ := hm
      simp only [InDomainE] at hdom
      simp only [decodableE]
      exact basic_tight hdom hk hn hp hv
    | ptr e =>
      simp only [flatten, Models] at hm
      simp only [InDomainE] at hdom
      simp only [wt] at hw
      simp only [decodableE]
      exact ihn (n - 1) (by omega) e (by omega) hdom true id hm f scope j hp hv
    | slice e =>
      simp only [flatten, Models] at hm
      obtain ⟨eid, he, hn⟩ := hm
      simp only [InDomainE] at hdom
      simp only [wt] at hw
      cases f with
      | zero => obtain ⟨e', he'⟩ := hv; cases he'
      | succ f =>
        have PA := plain_sliceNode nfs eid
        obtain ⟨_, hi, _, ha⟩ := (evalFuel_frag hn (PA.1.addNull an) f scope j).1 hv
        rw [asserts_plain rfl (PA.2.addNull an)] at ha
        rw [(kw_addNull _ _ an _ j).2.1] at hi
        have harr : j = .null ∨ ∃ xs, j = .arr xs := by
          rcases typeOk_addNull_inv ha.1 with h | h
          · exact Or.inl h
          · cases nfs with
            | true =>
              simp only [typeOk, sliceNode, if_true, bne_self_eq_false, Bool.false_eq_true, if_false, List.any_cons,
                List.any_nil, Bool.or_false, Bool.or_eq_true] at h
              rcases h with h | h
              · exact Or.inl (typeMatches_null h)
              · exact Or.inr (typeMatches_array h)
            | false =>
              exact Or.inr (typeMatches_array (by simpa [typeOk, sliceNode] using h))
        rcases harr with rfl | ⟨xs, rfl⟩
        · simp [decodableE]
        · simp only [decodableE, List.all_eq_true]
          intro x hx
          have hvx := kwItems_arr_inv rfl PA.2.prefixItems (eid := eid) (by cases nfs <;> rfl) hi x hx
          exact ihn (n - 1) (by omega) e (by omega) hdom false eid he f _ x
            (plainInts_mem (by simpa [PlainInts] using hp) x hx) hvx
    | array len e =>
      simp only [flatten, Models] at hm
      obtain ⟨eid, he, hn⟩ := hm
      simp only [InDomainE] at hdom
      simp only [wt] at hw
      cases f with
      | zero => obtain ⟨e', he'⟩ := hv; cases he'
      | succ f =>
        have PA := plain_arrayNode len eid
        obtain ⟨_, hi, _, ha⟩ := (evalFuel_frag hn (PA.1.addNull an) f scope j).1 hv
        rw [asserts_plain rfl (PA.2.addNull an)] at ha
        rw [(kw_addNull _ _ an _ j).2.1] at hi
        have harr : j = .null ∨ ∃ xs, j = .arr xs := by
          rcases typeOk_addNull_inv ha.1 with h | h
          · exact Or.inl h
          · exact Or.inr (typeMatches_array (by simpa [typeOk, arrayNode] using h))
        rcases harr with rfl | ⟨xs, rfl⟩
        · simp [decodableE]
        · simp only [decodableE, List.all_eq_true]
          intro x hx
          have hvx := kwItems_arr_inv rfl PA.2.prefixItems (eid := eid) rfl hi x hx
          exact ihn (n - 1) (by omega) e (by omega) hdom false eid he f _ x
            (plainInts_mem (by simpa [PlainInts] using hp) x hx) hvx
    | map kk e =>
      simp only [flatten, Models] at hm
      obtain ⟨eid, he, hn⟩ := hm
      simp only [InDomainE, Bool.and_eq_true] at hdom
      simp only [wt] at hw
      cases f with
      | zero => obtain ⟨e', he'⟩ := hv; cases he'
      | succ f =>
        have PA := plain_mapNode eid
        obtain ⟨_, _, hpr, ha⟩ := (evalFuel_frag hn (PA.1.addNull an) f scope j).1 hv
        rw [asserts_plain rfl (PA.2.addNull an)] at ha
        rw [(kw_addNull _ _ an _ j).2.2] at hpr
        have hobj : j = .null ∨ ∃ kvs, j = .obj kvs := by
          rcases typeOk_addNull_inv ha.1 with h | h
          · exact Or.inl h
          · exact Or.inr (typeMatches_object (by simpa [typeOk, mapNode] using h))
        rcases hobj with rfl | ⟨kvs, rfl⟩
        · simp [decodableE]
        · simp only [decodableE, hdom.1, Bool.true_and, List.all_eq_true]
          intro p hpm
          have hpv := (kwProps_obj_inv PA.2.patternProperties hpr p hpm).2 rfl eid rfl
          exact ihn (n - 1) (by omega) e (by omega) hdom.2 false eid he f _ p.2
            (plainInts_memObj (by simpa [PlainInts] using hp) p hpm) hpv
    | struct fields =>
      rw [flatten_struct] at hm
      simp only [Models] at hm
      obtain ⟨notId, falseId, props, po, rq, hnot, hfalse, hn, _, hkeys, hmf⟩ := hm
      simp only [InDomainE, Bool.and_eq_true] at hdom
      obtain ⟨hok, hdf⟩ := hdom
      simp only [wt] at hw
      cases f with
      | zero => obtain ⟨e', he'⟩ := hv; cases he'
      | succ f =>
        have PA := plain_structNode falseId props po rq
        obtain ⟨_, _, hpr, ha⟩ := (evalFuel_frag hn (PA.1.addNull an) f scope j).1 hv
        rw [asserts_plain rfl (PA.2.addNull an)] at ha
        rw [(kw_addNull _ _ an _ j).2.2] at hpr
        have hobj : j = .null ∨ ∃ kvs, j = .obj kvs := by
          rcases typeOk_addNull_inv ha.1 with h | h
          · exact Or.inl h
          · exact Or.inr (typeMatches_object (by simpa [typeOk, structNode] using h))
        rcases hobj with rfl | ⟨kvs, rfl⟩
        · simp [decodableE]
        · simp only [decodableE, List.all_eq_true]
          intro p hpm
          obtain ⟨hnamed, hadd⟩ := kwProps_obj_inv PA.2.patternProperties hpr p hpm
          have hprops : (structNode falseId props po rq).properties.getD [] = props.getD [] := rfl
          rw [hprops] at hnamed hadd
          cases hl : Json.lookup p.1 (props.getD []) with
          | none =>
            exact absurd (hadd hl falseId rfl) (false_not_valid hnot hfalse f _ p.2)
          | some t =>
            -- the key is the JSON name of a live visible field
            have hk : p.1 ∈ loopNames (visibleFields fields) := by
              rw [← jsonNames_plainOf]
              exact hkeys _ (mem_keys_of_lookup hl)
            unfold loopNames at hk
            obtain ⟨vf, hvf, hname⟩ := List.mem_map.1 hk
            obtain ⟨hvis, hlive⟩ := List.mem_filter.1 hvf
            obtain ⟨hin, hvis'⟩ := List.mem_filter.1 hvis
            have hcands := candidates_eq _ fields [] 0 (Nat.le_refl _) hdf
            have hbounds := allFields_bounds _ fields [] 0 (Nat.le_refl _)
            have hsome := findE_isSome hok hcands p.2 _ fields [] 0 (Nat.le_refl _) hdf (fun g hg => hg) vf hin hlive hvis'
            rw [hname] at hsome
            cases hfind : decodableFindE (candidates [] 0 fields) exactM [] 0 fields p.1 p.2 with
            | none => rw [hfind] at hsome; cases hsome
            | some b =>
              have hb := findE_true (re := re) hok hcands hmf (wtFs fields + 1) f (scope ++ [id]) p.1 p.2
                (fun t ht => hnamed t ht)
                (fun T hT hTd id' hm' hv' => ihn (wt T) (by omega) T (Nat.le_refl _) hTd false id' hm' f _ p.2
                  (plainInts_memObj (by simpa [PlainInts] using hp) p hpm) hv')
                _ fields [] 0 (Nat.le_refl _) hdf
                (fun g hg => ⟨hg, by have := (hbounds g hg).1; omega⟩) b hfind
              subst hb
              rfl

/-! ## assertions that the decoder does not make -/

/-- a struct schema requires the always-written fields of `typeFields` -/
theorem requiredE {nfs : Bool} {st : Store} {re : String → String → Bool} {fields : List (FieldE GoTypeE)}
    (hdom : InDomainE (.struct fields) = true) {an : Bool} {id : NodeId}
    (hm : Models nfs st (flatten (.struct fields)) an id) {f : Nat} {scope : List NodeId}
    {kvs : List (String × Json)} (hv : Valid (evalFuel (specEnvNoRefs st re) f scope id (.obj kvs))) :
    ∀ k, k ∈ alwaysFieldNames fields → (Json.lookup k kvs).isSome = true := by
  simp only [InDomainE, Bool.and_eq_true] at hdom
  rw [flatten_struct] at hm
  intro k hk
  refine Models.required hm hv k ?_
  rw [alwaysNames_plainOf, ← alwaysFieldNames_eq hdom.1 hdom.2]
  exact hk

end EncJsonEmb
end JSV
