/-
  Refinement proof, part 3: loops over child instances (generic `callLoop`), and the array block
  (items / prefixItems / additionalItems, contains, limits, uniqueItems, unevaluatedItems).
-/
import JSV.Proofs.RefineInPlace
namespace JSV
namespace Refine
open Go GoVal
set_option linter.unusedSimpArgs false

/-- a child instance as `encoding/json` hands it over: inside an interface -/
def wrap (x : Json) : GoVal := .iface (ofJson x)

theorem strip_wrap (x : Json) : strip (wrap x) = ofJson x := strip_iface_ofJson x

theorem ofJsonList_eq_wrap (xs : List Json) : ofJsonList xs = xs.map wrap := ofJsonList_eq_map xs

theorem ofJsonObj_eq_wrap (kvs : List (String × Json)) : ofJsonObj kvs = kvs.map (fun p => (p.1, wrap p.2)) :=
  ofJsonObj_eq_map kvs

/-- a list of must-hold calls on child instances, in order, stopping at the first failure -/
def callLoop (rec : Go.Rec) (stack : List NodeId) : List (NodeId × GoVal) → Res Unit
  | [] => .ok ()
  | c :: rest => Res.bind (mustValidChild rec stack c.2 c.1) fun _ => callLoop rec stack rest

theorem callLoop_append (rec : Go.Rec) (stack : List NodeId) : ∀ (l1 l2 : List (NodeId × GoVal)),
    callLoop rec stack (l1 ++ l2) = Res.bind (callLoop rec stack l1) fun _ => callLoop rec stack l2
  | [], l2 => by simp [callLoop]
  | c :: l1, l2 => by
    simp only [List.cons_append, callLoop, callLoop_append rec stack l1 l2]
    cases mustValidChild rec stack c.2 c.1 <;> simp

theorem indices_contains (n i : Nat) : (Spec.indices n).contains i = decide (i < n) := by
  simp [Spec.indices]

def hitsOf (rs : List Spec.R) (i : Nat) : List Nat :=
  (rs.zip (List.range' i rs.length)).filterMap fun p => if p.1.isSome then some p.2 else none

theorem hitsOf_nil (i : Nat) : hitsOf [] i = [] := rfl
theorem hitsOf_cons_none (rs : List Spec.R) (i : Nat) : hitsOf (none :: rs) i = hitsOf rs (i + 1) := by
  simp [hitsOf, List.range'_succ]
theorem hitsOf_cons_some (e : Spec.Ev) (rs : List Spec.R) (i : Nat) :
    hitsOf (some e :: rs) i = i :: hitsOf rs (i + 1) := by
  simp [hitsOf, List.range'_succ]

theorem bind_ite_err {α β} (c : Bool) (m : Res α) (f : α → Res β) :
    Res.bind (if c = true then .err else m) f = if c = true then .err else Res.bind m f := by
  cases c <;> simp

theorem ite_chain5 {α} (c0 c1 c2 c3 c4 : Bool) (x : Res α) :
    (if c0 = true then Res.err else if c1 = true then .err else if c2 = true then .err else if c3 = true then .err
      else if c4 = true then .err else x) = if (!c0 && !c1 && !c2 && !c3 && !c4) = true then x else .err := by
  cases c0 <;> cases c1 <;> cases c2 <;> cases c3 <;> cases c4 <;> rfl

theorem ite_congr_bool {α} {b1 b2 : Bool} (x y : α) (h : b1 = b2) :
    (if b1 = true then x else y) = (if b2 = true then x else y) := by rw [h]

theorem isSome_ite_some {α} (c : Bool) (x : α) : (if c = true then some x else none).isSome = c := by
  cases c <;> rfl

/-- minItems / maxItems -/
def itemsLimOk (n : Node) (len : Nat) : Bool :=
  (match n.minItems with | some m => decide (m ≤ (len : Int)) | none => true) &&
  (match n.maxItems with | some m => decide ((len : Int) ≤ m) | none => true)

theorem arrayLimitsOk_arr (n : Node) (xs : List Json) :
    Spec.arrayLimitsOk n (.arr xs) = (itemsLimOk n xs.length && (!n.uniqueItems || Spec.distinct xs)) := by
  simp only [Spec.arrayLimitsOk, itemsLimOk]
  cases n.minItems <;> cases n.maxItems <;> rfl

theorem Blk_of_Ext {j : Json} {a a1 : Anns} {e : Spec.Ev} {r : Spec.R} {m : Res Anns}
    (hx : Ext j a a1 e) (hb : Blk j a1 r m) : Blk j a (conj2 (some e) r) m := by
  cases r with
  | none => exact hb
  | some e2 => obtain ⟨a2, hm, hx2⟩ := hb; exact ⟨a2, hm, Ext_trans hx hx2⟩

theorem bUnique_eq (env : VEnv) (hwf : EnvWF env) (n : Node) (xs : List Json) (hxs : Json.wfList xs = true) :
    bUnique env n (ofJsonList xs) = okIf (!n.uniqueItems || Spec.distinct xs) := by
  unfold bUnique
  cases n.uniqueItems with
  | false => rfl
  | true =>
    simp only [if_true, Bool.not_true, Bool.false_or]
    exact C12.unique_correct env.hash (ofJsonList xs) xs
      (denoteList_ofJsonList xs (fun x _ => denote_ofJson x)) hxs (fun x y _ _ he => hwf.hash_respects x y he)

theorem mem_zip_range'_lt {α} {xs : List α} {p : α × Nat} (hp : p ∈ xs.zip (List.range' 0 xs.length)) :
    p.1 ∈ xs ∧ p.2 < xs.length := by
  have := List.of_mem_zip (a := p.1) (b := p.2) hp
  refine ⟨this.1, ?_⟩
  have h2 := this.2
  rw [List.mem_range'_1] at h2
  omega

section
variable {sub : NodeId → Json → Spec.Out} {rec : Go.Rec} {stack : List NodeId}
variable (H : SubRel sub rec stack)
include H

theorem callLoop_spec (w : Json → GoVal) (hw : ∀ x, strip (w x) = ofJson x) :
    ∀ (C : List (NodeId × Json)), (∀ c, c ∈ C → Json.WF c.2 = true) →
    (∀ c, c ∈ C → ∃ r, sub c.1 c.2 = some r) →
    callLoop rec stack (C.map fun c => (c.1, w c.2)) = okIf (C.all fun c => okOut (sub c.1 c.2))
  | [], _, _ => rfl
  | c :: C, hwf, hdef => by
    obtain ⟨r, hr⟩ := hdef c (by simp)
    have hrel := H c.1 c.2 (w c.2) (hwf c (by simp)) (hw c.2)
    rw [hr] at hrel
    have ih := callLoop_spec w hw C (fun c' h => hwf c' (by simp [h])) (fun c' h => hdef c' (by simp [h]))
    simp only [List.map_cons, callLoop, mustValidChild, List.all_cons, hr]
    cases r with
    | none => simp only [Rel] at hrel; rw [hrel]; simp [okOut]
    | some ev => obtain ⟨a, ha, _⟩ := hrel; rw [ha]; simp [okOut, ih]

/-- the same with the Spec's list of sub-results -/
theorem callLoop_spec' (w : Json → GoVal) (hw : ∀ x, strip (w x) = ofJson x)
    (C : List (NodeId × Json)) (hwf : ∀ c, c ∈ C → Json.WF c.2 = true)
    (hdef : ∀ o, o ∈ C.map (fun c => sub c.1 c.2) → ∃ r, o = some r) :
    callLoop rec stack (C.map fun c => (c.1, w c.2)) = okIf ((C.map fun c => sub c.1 c.2).all okOut) := by
  rw [callLoop_spec H w hw C hwf, List.all_map]
  · rfl
  · intro c hc; exact hdef _ (List.mem_map.2 ⟨c, hc, rfl⟩)

omit H in
theorem eachItem_eq (s : NodeId) : ∀ xs : List Json,
    eachItem rec stack s (xs.map wrap)
      = callLoop rec stack ((xs.map fun x => (s, x)).map fun c => (c.1, wrap c.2))
  | [] => rfl
  | x :: xs => by simp only [List.map_cons, eachItem, callLoop, eachItem_eq s xs]

omit H in
theorem prefixLoop_eq : ∀ (ss : List NodeId) (xs : List Json),
    prefixLoop rec stack ss (xs.map wrap) = callLoop rec stack ((ss.zip xs).map fun c => (c.1, wrap c.2))
  | [], xs => by simp [prefixLoop, callLoop]
  | s :: ss, [] => by simp [prefixLoop, callLoop]
  | s :: ss, x :: xs => by
    simp only [List.map_cons, prefixLoop, List.zip_cons_cons, callLoop, prefixLoop_eq ss xs]

omit H in
theorem unevalItemsLoop_eq (s : NodeId) (anns : Anns) : ∀ (xs : List Json) (i : Nat),
    unevalItemsLoop rec stack s anns (xs.map wrap) i
      = callLoop rec stack ((((xs.zip (List.range' i xs.length)).filter fun p =>
            !(decide (p.2 < anns.endIndex) || anns.evaluatedIndexes.contains p.2)).map
          fun p => (s, p.1)).map fun c => (c.1, wrap c.2))
  | [], i => by simp [unevalItemsLoop, callLoop]
  | x :: xs, i => by
    simp only [List.map_cons, List.length_cons, List.range'_succ, List.zip_cons_cons, unevalItemsLoop]
    by_cases h : (decide (i < anns.endIndex) || anns.evaluatedIndexes.contains i) = true
    · rw [if_pos h, List.filter_cons_of_neg (by
        show ¬ (!(decide (i < anns.endIndex) || anns.evaluatedIndexes.contains i)) = true
        rw [h]; simp), unevalItemsLoop_eq s anns xs (i + 1)]
    · rw [if_neg h, List.filter_cons_of_pos (by
        show (!(decide (i < anns.endIndex) || anns.evaluatedIndexes.contains i)) = true
        rw [(Bool.not_eq_true _).mp h]; rfl), unevalItemsLoop_eq s anns xs (i + 1)]
      simp only [List.map_cons, callLoop]

/-! ### items -/

omit H in
theorem WF_of_mem_zip {xs : List Json} (hxs : ∀ x, x ∈ xs → Json.WF x = true) {α} {ss : List α} :
    ∀ c, c ∈ ss.zip xs → Json.WF c.2 = true := by
  intro c hc
  exact hxs c.2 (List.of_mem_zip (a := c.1) (b := c.2) hc).2

omit H in
theorem Ext_items_all (xs : List Json) (anns : Anns) (e : Nat) :
    Ext (.arr xs) anns { anns.noteEndIndex e with allItems := true } { items := Spec.indices xs.length } := by
  constructor
  · intro k _; rw [γprop_allItems, γprop_noteEndIndex]; simp
  · intro i hi
    rw [γitem_allItems, indices_contains]
    have : i < xs.length := hi
    simp [this]

omit H in
theorem Ext_items_prefix (xs : List Json) (anns : Anns) (e : Nat) :
    Ext (.arr xs) anns (anns.noteEndIndex e) { items := Spec.indices e } := by
  constructor
  · intro k _; rw [γprop_noteEndIndex]; simp
  · intro i _; rw [γitem_noteEndIndex, indices_contains]

theorem items_core_some (pre : List NodeId) (t : NodeId) (xs : List Json)
    (hxs : ∀ x, x ∈ xs → Json.WF x = true) (anns : Anns) {rs : List Spec.R}
    (h : Spec.sequence (((pre.zip xs).map fun c => sub c.1 c.2) ++ ((xs.drop pre.length).map fun x => sub t x))
        = some rs) :
    Blk (.arr xs) anns
      (if Spec.allHold rs then some { items := Spec.indices xs.length } else none)
      (Res.bind (prefixLoop rec stack pre (ofJsonList xs)) fun _ =>
        Res.bind (eachItem rec stack t ((ofJsonList xs).drop pre.length)) fun _ =>
          .ok { anns.noteEndIndex (min pre.length (ofJsonList xs).length) with allItems := true }) := by
  obtain ⟨hdef, hall⟩ := sequence_allHold h
  rw [hall, List.all_append]
  rw [ofJsonList_eq_wrap, ← List.map_drop, prefixLoop_eq, eachItem_eq]
  rw [callLoop_spec' H wrap strip_wrap (pre.zip xs) (WF_of_mem_zip hxs)
    (fun o ho => hdef o (List.mem_append_left _ ho))]
  have e2 : (xs.drop pre.length).map (fun x => sub t x)
      = ((xs.drop pre.length).map fun x => (t, x)).map fun c => sub c.1 c.2 := by
    rw [List.map_map]; rfl
  rw [callLoop_spec' H wrap strip_wrap ((xs.drop pre.length).map fun x => (t, x))
    (by
      intro c hc
      obtain ⟨x, hx, rfl⟩ := List.mem_map.1 hc
      exact hxs x (List.mem_of_mem_drop hx))
    (fun o ho => hdef o (List.mem_append_right _ (by rw [e2]; exact ho)))]
  rw [← e2]
  cases h1 : ((pre.zip xs).map fun c => sub c.1 c.2).all okOut
  · simp [Blk]
  · cases h2 : ((xs.drop pre.length).map fun x => sub t x).all okOut
    · simp [Blk]
    · simp only [okIf_true, Res.bind_ok, Bool.and_self, if_true]
      exact ⟨_, rfl, Ext_items_all xs anns _⟩

theorem items_core_none (pre : List NodeId) (xs : List Json)
    (hxs : ∀ x, x ∈ xs → Json.WF x = true) (anns : Anns) {rs : List Spec.R}
    (h : Spec.sequence (((pre.zip xs).map fun c => sub c.1 c.2) ++ []) = some rs) :
    Blk (.arr xs) anns
      (if Spec.allHold rs then some { items := Spec.indices (min pre.length xs.length) } else none)
      (Res.bind (prefixLoop rec stack pre (ofJsonList xs)) fun _ =>
          .ok (anns.noteEndIndex (min pre.length (ofJsonList xs).length))) := by
  obtain ⟨hdef, hall⟩ := sequence_allHold h
  rw [hall, List.append_nil]
  rw [ofJsonList_eq_wrap, prefixLoop_eq]
  rw [callLoop_spec' H wrap strip_wrap (pre.zip xs) (WF_of_mem_zip hxs)
    (fun o ho => hdef o (List.mem_append_left _ ho))]
  cases h1 : ((pre.zip xs).map fun c => sub c.1 c.2).all okOut
  · simp [Blk]
  · simp only [okIf_true, Res.bind_ok, if_true, List.length_map]
    exact ⟨_, rfl, Ext_items_prefix xs anns _⟩

theorem bItems_blk (env : VEnv) (n : Node) (xs : List Json) (hxs : ∀ x, x ∈ xs → Json.WF x = true) (anns : Anns)
    {r : Spec.R} (h : Spec.kwItems (specEnvOf env) sub n (.arr xs) = some r) :
    Blk (.arr xs) anns r (bItems env rec stack n (ofJsonList xs) anns) := by
  unfold bItems
  cases hdr : env.draft with
  | d2020 =>
    simp only [Spec.kwItems, Spec.arrayShape, specEnvOf, hdr] at h
    cases hit : n.items with
    | some it =>
      simp only [hit, Option.map_eq_some_iff, Option.isSome_some, if_true] at h
      obtain ⟨rs, hs, rfl⟩ := h
      exact items_core_some H _ it xs hxs anns hs
    | none =>
      simp only [hit, Option.map_eq_some_iff, Option.isSome_none, Bool.false_eq_true, if_false] at h
      obtain ⟨rs, hs, rfl⟩ := h
      exact items_core_none H _ xs hxs anns hs
  | d7 =>
    simp only [Spec.kwItems, Spec.arrayShape, specEnvOf, hdr] at h
    cases hia : n.itemsArray with
    | some ia =>
      simp only [hia] at h ⊢
      cases hit : n.additionalItems with
      | some it =>
        simp only [hit, Option.map_eq_some_iff, Option.isSome_some, if_true] at h
        obtain ⟨rs, hs, rfl⟩ := h
        exact items_core_some H _ it xs hxs anns hs
      | none =>
        simp only [hit, Option.map_eq_some_iff, Option.isSome_none, Bool.false_eq_true, if_false] at h
        obtain ⟨rs, hs, rfl⟩ := h
        exact items_core_none H _ xs hxs anns hs
    | none =>
      simp only [hia] at h ⊢
      cases hit : n.items with
      | some it =>
        simp only [hit, Option.map_eq_some_iff, Option.isSome_some, if_true] at h
        obtain ⟨rs, hs, rfl⟩ := h
        have := items_core_some H [] it xs hxs anns hs
        simpa [prefixLoop, Anns.noteEndIndex] using this
      | none =>
        simp only [hit, Option.map_eq_some_iff, Option.isSome_none, Bool.false_eq_true, if_false] at h
        obtain ⟨rs, hs, rfl⟩ := h
        have := items_core_none H [] xs hxs anns hs
        simpa [prefixLoop, Anns.noteEndIndex] using this

/-! ### contains, minContains, maxContains, minItems, maxItems -/

theorem containsLoop_spec (s : NodeId) : ∀ (xs : List Json) (rs : List Spec.R) (i : Nat) (anns : Anns) (cnt : Nat),
    (∀ x, x ∈ xs → Json.WF x = true) → Spec.sequence (xs.map fun x => sub s x) = some rs →
    ∃ a', containsLoop rec stack s (xs.map wrap) i anns cnt = .ok (a', cnt + (hitsOf rs i).length) ∧
      (∀ k, γprop a' k = γprop anns k) ∧ (∀ m, γitem a' m = (γitem anns m || (hitsOf rs i).contains m))
  | [], rs, i, anns, cnt, _, h => by
    have : rs = [] := by simpa [Spec.sequence] using h.symm
    subst this
    exact ⟨anns, by simp [containsLoop, hitsOf_nil], fun _ => rfl, fun m => by simp [hitsOf_nil]⟩
  | x :: xs, rs, i, anns, cnt, hxs, h => by
    obtain ⟨r, rs', h1, h2, rfl⟩ := sequence_cons_eq_some h
    replace h1 : sub s x = some r := h1
    have hrel := H s x (wrap x) (hxs x (by simp)) (strip_wrap x)
    rw [h1] at hrel
    have hxs' : ∀ y, y ∈ xs → Json.WF y = true := fun y hy => hxs y (by simp [hy])
    simp only [List.map_cons, containsLoop]
    cases r with
    | none =>
      simp only [Rel] at hrel
      rw [hrel, hitsOf_cons_none]
      exact containsLoop_spec s xs rs' (i + 1) anns cnt hxs' h2
    | some e =>
      obtain ⟨a, ha, _⟩ := hrel
      rw [ha, hitsOf_cons_some]
      obtain ⟨a', hl, hp, hi⟩ := containsLoop_spec s xs rs' (i + 1) (anns.noteIndex i) (cnt + 1) hxs' h2
      refine ⟨a', ?_, ?_, ?_⟩
      · rw [hl]; simp only [List.length_cons]; congr 2; omega
      · intro k; rw [hp k, γprop_noteIndex]
      · intro m; rw [hi m, γitem_noteIndex, List.contains_cons, Bool.or_assoc]
        congr 1

theorem contains_limits_spec (n : Node) (xs : List Json) (hxs : ∀ x, x ∈ xs → Json.WF x = true) (anns : Anns)
    {r9 : Spec.R} (h9 : Spec.kwContains sub n (.arr xs) = some r9) :
    ∃ a' : Anns, (∀ e9, r9 = some e9 → Ext (.arr xs) anns a' e9) ∧
      ∀ (K : Anns → Res Anns),
        Res.bind (bContains .d2020 rec stack n (ofJsonList xs) anns)
            (fun p => Res.bind (bArrayLimits .d2020 n (ofJsonList xs) p.2) fun _ => K p.1)
          = if (r9.isSome && itemsLimOk n xs.length) = true then K a' else .err := by
  unfold Spec.kwContains at h9
  unfold bContains bArrayLimits itemsLimOk
  simp only [beq_d2020_d7, beq_d2020_d2020, Bool.false_or, Bool.true_and]
  have hlen : (ofJsonList xs).length = xs.length := by rw [ofJsonList_eq_wrap, List.length_map]
  rw [hlen]
  cases hc : n.contains with
  | none =>
    simp only [hc, Option.some.injEq] at h9
    subst h9
    refine ⟨anns, fun e9 he => by cases he; exact Ext_refl _ anns, fun K => ?_⟩
    simp only [Res.bind_ok]
    cases n.minContains <;> cases n.maxContains <;> cases n.minItems <;> cases n.maxItems <;>
      simp only [Bool.false_eq_true, if_false, Option.isSome_some, Bool.true_and, Bool.and_true, int_le,
        Bool.not_eq_true', decide_eq_false_iff_not, decide_eq_true_eq, Bool.and_eq_true] <;>
      (repeat' split) <;> simp_all
  | some c =>
    simp only [hc, Option.map_eq_some_iff] at h9
    obtain ⟨rs, hs, hr⟩ := h9
    have hlen2 : rs.length = xs.length := by rw [sequence_length hs, List.length_map]
    generalize hH : (List.filterMap _ (rs.zip (Spec.indices xs.length))) = hits at hr
    have hhits : hits = hitsOf rs 0 := by
      rw [← hH, hitsOf, hlen2, Spec.indices, List.range_eq_range']
    obtain ⟨a', hl, hp, hi⟩ := containsLoop_spec H c xs rs 0 anns 0 hxs hs
    rw [← hhits, Nat.zero_add] at hl
    rw [← hhits] at hi
    rw [← ofJsonList_eq_wrap] at hl
    refine ⟨a', ?_, fun K => ?_⟩
    · intro e9 he
      rw [he] at hr
      simp only [Option.ite_none_right_eq_some, Option.some.injEq] at hr
      obtain ⟨_, rfl⟩ := hr
      constructor
      · intro k _; rw [hp k]; simp
      · intro m _; rw [hi m]
    · simp only [hc]
      rw [hl, ← hr]
      simp only [Res.bind_ok, bind_ite_err, isSome_ite_some]
      rw [ite_chain5]
      apply ite_congr_bool
      generalize hits.length = cnt
      cases n.minContains <;> cases n.maxContains <;> cases n.minItems <;> cases n.maxItems <;>
        rw [Bool.eq_iff_iff] <;>
        simp only [Bool.and_eq_true, Bool.not_eq_true', decide_eq_true_eq, decide_eq_false_iff_not, beq_iff_eq,
          Bool.and_true, Bool.true_and, Bool.not_false, Bool.not_true, Bool.false_eq_true, and_true, true_and,
          beq_eq_false_iff_ne, Bool.and_eq_false_imp, ne_eq, Bool.and_false, Bool.false_and, Bool.not_and,
          Bool.or_eq_true, Bool.decide_eq_true, not_and, not_true_eq_false, not_false_eq_true, GT.gt] <;>
        omega

/-! ### unevaluatedItems, and the array block -/

theorem bUnevaluatedItems_blk (n : Node) (xs : List Json) (hxs : ∀ x, x ∈ xs → Json.WF x = true) (anns : Anns)
    (ev : Spec.Ev) (hm : ∀ i, i < xs.length → γitem anns i = ev.items.contains i) {r : Spec.R}
    (h : Spec.kwUnevaluatedItems sub n (.arr xs) ev = some r) :
    Blk (.arr xs) anns r (bUnevaluatedItems .d2020 rec stack n (ofJsonList xs) anns) := by
  unfold Spec.kwUnevaluatedItems at h
  unfold bUnevaluatedItems
  simp only [beq_d2020_d2020, if_true]
  cases hu : n.unevaluatedItems with
  | none => simp only [hu, Option.some.injEq] at h; subst h; exact Blk_ok _ anns
  | some t =>
    simp only [hu, Spec.indices, List.range_eq_range'] at h
    change (Spec.sequence (List.map (fun p => sub t p.1)
      (List.filter (fun p => !ev.items.contains p.2) (xs.zip (List.range' 0 xs.length))))).map _ = some r at h
    simp only [Option.map_eq_some_iff] at h
    obtain ⟨rs, hs, rfl⟩ := h
    obtain ⟨hdef, hall⟩ := sequence_allHold hs
    rw [hall]
    simp only
    by_cases hai : anns.allItems = true
    · rw [if_pos hai]
      have hnil : List.filter (fun p : Json × Nat => !ev.items.contains p.2) (xs.zip (List.range' 0 xs.length)) = [] := by
        rw [List.filter_eq_nil_iff]
        intro p hp
        have hlt := (mem_zip_range'_lt hp).2
        have := hm p.2 hlt
        rw [← this]
        simp [γitem, hai]
      rw [hnil]
      simp only [List.map_nil, List.all_nil, if_true]
      refine ⟨anns, rfl, ?_, ?_⟩
      · intro k _; simp
      · intro i hi
        have : γitem anns i = true := by simp [γitem, hai]
        rw [this]; rfl
    · rw [if_neg hai, ofJsonList_eq_wrap, unevalItemsLoop_eq]
      have hfil : List.filter (fun p : Json × Nat => !(decide (p.2 < anns.endIndex) || anns.evaluatedIndexes.contains p.2))
            (xs.zip (List.range' 0 xs.length))
          = List.filter (fun p : Json × Nat => !ev.items.contains p.2) (xs.zip (List.range' 0 xs.length)) := by
        apply List.filter_congr
        intro p hp
        have hlt := (mem_zip_range'_lt hp).2
        have := hm p.2 hlt
        rw [← this]
        simp [γitem, hai]
      rw [hfil]
      have e2 : List.map (fun p : Json × Nat => sub t p.1)
            (List.filter (fun p : Json × Nat => !ev.items.contains p.2) (xs.zip (List.range' 0 xs.length)))
          = ((List.filter (fun p : Json × Nat => !ev.items.contains p.2) (xs.zip (List.range' 0 xs.length))).map
              fun p => (t, p.1)).map fun c => sub c.1 c.2 := by
        rw [List.map_map]; rfl
      rw [e2] at hdef ⊢
      rw [callLoop_spec' H wrap strip_wrap _ (by
        intro c hc
        obtain ⟨p, hp, rfl⟩ := List.mem_map.1 hc
        exact hxs p.1 (mem_zip_range'_lt (List.mem_filter.1 hp).1).1) hdef]
      generalize (List.map (fun c : NodeId × Json => sub c.1 c.2) _).all okOut = b
      cases b
      · simp [Blk]
      · simp only [okIf_true, Res.bind_ok, if_true]
        refine ⟨_, rfl, ?_, ?_⟩
        · intro k _; rw [γprop_allItems]; simp
        · intro i hi; rw [γitem_allItems]
          have : i < xs.length := hi
          simp [List.mem_range'_1, this]

theorem bArray_spec (env : VEnv) (hwf : EnvWF env) (n : Node) (xs : List Json)
    (hxs : Json.WF (.arr xs) = true) (anns : Anns)
    {r8 r9 : Spec.R} (h8 : Spec.kwItems (specEnvOf env) sub n (.arr xs) = some r8)
    (h9 : Spec.kwContains sub (Spec.vocab env.draft n) (.arr xs) = some r9) :
    (conj2 r8 r9 = none ∨ Spec.arrayLimitsOk n (.arr xs) = false →
      bArray env rec stack n (ofJson (.arr xs)) anns = .err) ∧
    (∀ e89, conj2 r8 r9 = some e89 → Spec.arrayLimitsOk n (.arr xs) = true →
      ∀ ev, AnnsMatch (.arr xs) anns ev →
      ∀ ev' ru, (∀ i, i < xs.length → ev'.items.contains i = (ev.union e89).items.contains i) →
        Spec.kwUnevaluatedItems sub (Spec.vocab env.draft n) (.arr xs) ev' = some ru →
        Blk (.arr xs) anns (conj2 (some e89) ru) (bArray env rec stack n (ofJson (.arr xs)) anns)) := by
  have hxs' : ∀ x, x ∈ xs → Json.WF x = true := Json.WF_arr hxs
  have hwl : Json.wfList xs = true := by simpa [Json.WF] using hxs
  have hform : bArray env rec stack n (ofJson (.arr xs)) anns =
      Res.bind (bItems env rec stack n (ofJsonList xs) anns) fun a1 =>
      Res.bind (bContains .d2020 rec stack (Spec.vocab env.draft n) (ofJsonList xs) a1) fun p =>
      Res.bind (bArrayLimits .d2020 (Spec.vocab env.draft n) (ofJsonList xs) p.2) fun _ =>
      Res.bind (bUnique env n (ofJsonList xs)) fun _ =>
      bUnevaluatedItems .d2020 rec stack (Spec.vocab env.draft n) (ofJsonList xs) p.1 := by
    simp only [ofJson, bArray, ← bContains_vocab, ← bArrayLimits_vocab, ← bUnevaluatedItems_vocab]
  rw [hform, arrayLimitsOk_arr]
  have b8 := bItems_blk H env n xs hxs' anns h8
  cases r8 with
  | none =>
    simp only [Blk] at b8
    rw [b8]
    simp
  | some e8 =>
    obtain ⟨a1, hb, hx1⟩ := b8
    obtain ⟨a2, hx2, hK⟩ := contains_limits_spec H (Spec.vocab env.draft n) xs hxs' a1 h9
    replace hK : ∀ K : Anns → Res Anns, _ = if (r9.isSome && itemsLimOk n xs.length) = true then K a2 else .err := hK
    rw [hb, Res.bind_ok]
    rw [hK (fun a => Res.bind (bUnique env n (ofJsonList xs)) fun _ =>
      bUnevaluatedItems .d2020 rec stack (Spec.vocab env.draft n) (ofJsonList xs) a)]
    rw [bUnique_eq env hwf n xs hwl]
    cases r9 with
    | none => simp
    | some e9 =>
      have hx2' := hx2 e9 rfl
      cases hl : itemsLimOk n xs.length
      · simp
      · cases hun : (!n.uniqueItems || Spec.distinct xs)
        · simp
        · simp only [Option.isSome_some, Bool.and_self, if_true, okIf_true, Res.bind_ok, conj2_some,
            Option.some.injEq, Bool.true_and, reduceCtorEq, false_or, Bool.true_eq_false, or_self, false_imp_iff,
            forall_const, true_and]
          intro e89 he ev hm ev' ru hev hru
          subst he
          have hx12 := Ext_trans hx1 hx2'
          apply Blk_of_Ext hx12
          apply bUnevaluatedItems_blk H (Spec.vocab env.draft n) xs hxs' a2 ev' _ hru
          intro i hi
          rw [hev i hi, hx12.2 i hi, hm.2 i hi]
          simp only [Spec.Ev.union, List.contains_append]


end

end Refine
end JSV
