/-
  Decidable checkers that establish the hypotheses `EnvWF` / `StoreWF` of the refinement theorem
  for a concrete environment.
-/
import JSV.Proofs.Refine
namespace JSV
namespace Refine
open Go GoVal

/-- every schema object of the store has an info record -/
def infoTotalB (env : VEnv) : Bool := (List.range env.st.size).all fun s => (env.info? s).isSome

/-- every info record names a base that has an info record -/
def baseTotalB (env : VEnv) : Bool :=
  env.infos.all fun p =>
    match p.2.base with
    | some b => (env.info? b).isSome
    | none => false

/-- the `properties` maps have distinct keys -/
def storeWFB (st : Store) : Bool :=
  st.toList.all fun n => Json.nodupKeys ((n.properties.getD []).map (·.1))

theorem lookupNat_mem {α} {k : Nat} {v : α} : ∀ {l : List (Nat × α)}, lookupNat k l = some v → (k, v) ∈ l
  | [], h => by simp [lookupNat] at h
  | (k', v') :: rest, h => by
    simp only [lookupNat] at h
    by_cases hk : k' = k
    · simp only [hk, if_true, Option.some.injEq] at h
      subst hk; subst h; simp
    · simp only [hk, if_false] at h
      exact List.mem_cons_of_mem _ (lookupNat_mem h)

theorem EnvWF_of_checks (env : VEnv) (h1 : infoTotalB env = true) (h2 : baseTotalB env = true)
    (h3 : ∀ x y, equalValue x y = .ok true → env.hash x = env.hash y) : EnvWF env where
  info_total := by
    intro s n hn
    have hlt : s < env.st.size := by
      obtain ⟨h, _⟩ := Array.getElem?_eq_some_iff.1 hn
      exact h
    exact List.all_eq_true.1 h1 s (List.mem_range.2 hlt)
  base_total := by
    intro s i hi
    have hmem := lookupNat_mem hi
    have := List.all_eq_true.1 h2 (s, i) hmem
    simp only at this
    cases hb : i.base with
    | none => rw [hb] at this; simp at this
    | some b =>
      rw [hb] at this
      obtain ⟨bi, hbi⟩ := Option.isSome_iff_exists.1 this
      exact ⟨b, bi, rfl, hbi⟩
  hash_respects := h3

theorem StoreWF_of_check (st : Store) (h : storeWFB st = true) : StoreWF st := by
  intro s n hn
  have hmem : n ∈ st.toList := Array.mem_toList_iff.2 (Array.mem_of_getElem? hn)
  exact List.all_eq_true.1 h n hmem

end Refine
end JSV
