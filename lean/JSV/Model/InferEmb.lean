/-
  Model of infer.go `forType` WITH embedded struct fields (`JSV/Model/Infer.lean` is the fragment without them and
  stays as it is; `forTypeE_conservative` in JSV/Props/C16.lean says the two agree there).

  What is new with respect to `Infer.lean`, all of it in the `reflect.Struct` case of `forType`:

  * the loop ranges over `reflect.VisibleFields(t)` (`visibleFields`): the declared fields in order, every anonymous
    struct field (by value or by pointer) followed by the fields of its struct, recursively (`allFields`: index
    preorder); a field is visible iff no other field of the same Go name sits at the same or a shallower depth
    (Go's selector rule: the shallowest occurrence, and only if it is unique at its depth).  Anonymous fields are
    listed as well, they take part in the hiding under their own name (the type name), and the fields below an
    anonymous field are listed whether or not the anonymous field itself is visible;
  * an anonymous field is `continue`d after the TypeSchemas-override handling: `schemas[field.Type]` (the field's
    type itself: a pointer type is never a key of the table), the checks `Type == "object"` and "only Type and
    Properties" (`overrideOnlyTypeProps`: every field of schemaFieldInfos, i.e. every Schema field but Type, Types,
    Extra and PropertyOrder, is zero), `skipPath = field.Index`, and the override's properties in sorted key order,
    cloned, entered where no property of that name exists yet;
  * `skipPath`: a non-anonymous field whose index has `skipPath` as a prefix is skipped; the first one that has
    not resets `skipPath` to nil.  (Anonymous fields are handled *before* this test, as in the code: an override
    nested below another override moves `skipPath` down, and the outer struct's later fields are then no longer
    skipped.  The model follows the code.)
  * unexported fields are omitted (`fieldJSONInfo`: `!f.IsExported()`).

  Type recursion uses fuel as in `forType`.  Everything else (kinds, pointers, slices, arrays, maps, named types
  and the type table, the cycle check) is the code of `Infer.lean` over the extended type language.

  Not expressible in the type language: an embedded field whose type is a back reference `.ref` (a recursive type
  embedding itself, `type T struct { *T }`): `allFields` does not descend into it (reflect's walker stops at a type
  it is visiting, which is this case only when the reference points into the current chain of embeddings).  The
  driver answers `unmodelled` for such descriptors.
-/
import JSV.Model.Infer
namespace JSV
namespace Go

/-- a declared struct field: `reflect.StructField` of `t.Field(i)` -/
structure FieldE (τ : Type) where
  goName : String
  tag : String            -- the raw struct tag
  exported : Bool
  embedded : Bool         -- `Anonymous`; the Go name of an embedded field is the name of its type
  type : τ
  deriving Inhabited

inductive GoTypeE where
  | basic (kind : String)
  | named (name : String) (underlying : GoTypeE)
  | ref (name : String)
  | ptr (e : GoTypeE)
  | slice (e : GoTypeE)
  | array (n : Nat) (e : GoTypeE)
  | map (keyKind : String) (e : GoTypeE)
  | struct (fields : List (FieldE GoTypeE))
  deriving Inhabited

/-! ### the embedding of the fragment without embedded fields -/

mutual
  def GoType.toE : GoType → GoTypeE
    | .basic k => .basic k
    | .named n u => .named n u.toE
    | .ref n => .ref n
    | .ptr e => .ptr e.toE
    | .slice e => .slice e.toE
    | .array n e => .array n e.toE
    | .map k e => .map k e.toE
    | .struct fs => .struct (fieldsToE fs)
  /-- every field exported, none embedded -/
  def fieldsToE : List (String × String × GoType) → List (FieldE GoTypeE)
    | [] => []
    | f :: rest => { goName := f.1, tag := f.2.1, exported := true, embedded := false, type := f.2.2.toE } :: fieldsToE rest
end

/-! ### reflect.VisibleFields -/

/-- a `reflect.StructField` as `VisibleFields` returns it: `Index` is the index sequence from the outer struct -/
structure VField where
  index : List Nat
  goName : String
  tag : String
  exported : Bool
  anonymous : Bool
  type : GoTypeE
  deriving Inhabited

mutual
  /-- reflect's `visibleFieldsWalker.walk` without the hiding: all fields in index preorder; `pre` is the index of
      the struct being walked, `i` the position of the next field -/
  def allFields (pre : List Nat) : Nat → List (FieldE GoTypeE) → List VField
    | _, [] => []
    | i, f :: rest =>
      { index := pre ++ [i], goName := f.goName, tag := f.tag, exported := f.exported, anonymous := f.embedded, type := f.type } ::
        ((if f.embedded then embFields (pre ++ [i]) f.type else []) ++ allFields pre (i + 1) rest)
  /-- `if f.Type.Kind() == Pointer { f.Type = f.Type.Elem() }; if f.Type.Kind() == Struct { w.walk(f.Type) }` -/
  def embFields (idx : List Nat) : GoTypeE → List VField
    | .ptr (.named _ (.struct fs)) => allFields idx 0 fs
    | .ptr (.struct fs) => allFields idx 0 fs
    | .named _ (.struct fs) => allFields idx 0 fs
    | .struct fs => allFields idx 0 fs
    | _ => []
end

/-- Go's selector rule: among the fields of one name the shallowest is selected, and only if it is alone at its
    depth (`visibleFieldsWalker`: "fields with the same name at the same depth cancel one another out", "the old
    field loses because it's deeper than the new one").  `all` is the whole walk. -/
def isVisible (all : List VField) (f : VField) : Bool :=
  all.all fun o => o.index == f.index || o.goName != f.goName || decide (f.index.length < o.index.length)

/-- `reflect.VisibleFields(t)` for a struct type with the given declared fields -/
def visibleFields (fields : List (FieldE GoTypeE)) : List VField :=
  (allFields [] 0 fields).filter (isVisible (allFields [] 0 fields))

/-! #### reflect's own algorithm, for comparison

  `reflect.VisibleFields` is implemented by a walker that keeps, per name, the index of the entry that currently wins
  (`byName`), clears the name of an entry that loses and finally drops the cleared entries.  `visibleFieldsWalk` is that
  algorithm over the same walk; `visibleFields` above is its specification ("accessible directly with FieldByName").
  C16 compares the two on examples with shadowing, equal-depth ambiguity and three-way conflicts. -/

/-- one step of `visibleFieldsWalker.walk` for the field `f`: the state is the list of entries appended so far, each
    with its "name cleared" flag -/
def walkStep (acc : List (VField × Bool)) (f : VField) : List (VField × Bool) :=
  -- oldIndex, ok := w.byName[f.Name]: the entry appended last under that name
  match (acc.zipIdx.filter fun e => e.1.1.goName == f.goName).getLast? with
  | none => acc ++ [(f, false)]
  | some (old, k) =>
    if f.index.length == old.1.index.length then
      acc.set k (old.1, true)                       -- same depth: cancel one another out, do not add
    else if f.index.length < old.1.index.length then
      acc.set k (old.1, true) ++ [(f, false)]       -- the old field loses because it's deeper
    else acc                                        -- the old field wins because it's shallower

/-- `reflect.VisibleFields` as implemented: walk, then remove the hidden fields -/
def visibleFieldsWalk (fields : List (FieldE GoTypeE)) : List VField :=
  (((allFields [] 0 fields).foldl walkStep []).filter fun e => !e.2).map (·.1)

/-! ### the struct case of `forType` -/

abbrev IRecE := GoTypeE → List String → Store → Res (Option NodeId × Store)

def stripPtrsE : GoTypeE → GoTypeE × Bool
  | .ptr e => ((stripPtrsE e).1, true)
  | t => (t, false)

def typeNameE : GoTypeE → Option String
  | .named n _ => some n
  | .ref n => some n
  | _ => none

/-- util.go fieldJSONInfo: `if !f.IsExported() { return jsonInfo{omit: true} }` -/
def fieldJSONInfoE (goName tag : String) (exported : Bool) : JsonInfo :=
  if exported then fieldJSONInfo goName tag else { omitted := true }

/-- "overrides for embedded fields can have only Type and Properties": every field of `schemaFieldInfos` other
    than Properties is zero.  (`schemaFieldInfos` has every Schema field except those tagged `json:"-"` — Type, Types,
    Extra, PropertyOrder — plus Items/ItemsArray and DependencySchemas/DependencyStrings.  `IsZero` of a map or slice
    is `nil`, not "empty".) -/
def overrideOnlyTypeProps (n : Node) : Bool :=
  n.id == "" && n.schema == "" && n.ref == "" && n.comment == "" && n.defs.isNone && n.definitions.isNone &&
  n.dependencySchemas.isNone && n.dependencyStrings.isNone && n.anchor == "" && n.dynamicAnchor == "" &&
  n.dynamicRef == "" && n.vocabulary.isNone &&
  n.title == "" && n.description == "" && n.default.isNone && !n.deprecated && !n.readOnly && !n.writeOnly &&
  n.examples.isNone &&
  n.enum.isNone && n.const.isNone && n.multipleOf.isNone && n.minimum.isNone && n.maximum.isNone &&
  n.exclusiveMinimum.isNone && n.exclusiveMaximum.isNone && n.minLength.isNone && n.maxLength.isNone && n.pattern == "" &&
  n.prefixItems.isNone && n.items.isNone && n.itemsArray.isNone && n.minItems.isNone && n.maxItems.isNone &&
  n.additionalItems.isNone && !n.uniqueItems && n.contains.isNone && n.minContains.isNone && n.maxContains.isNone &&
  n.unevaluatedItems.isNone &&
  n.minProperties.isNone && n.maxProperties.isNone && n.required.isNone && n.dependentRequired.isNone &&
  n.patternProperties.isNone && n.additionalProperties.isNone && n.propertyNames.isNone &&
  n.unevaluatedProperties.isNone &&
  n.allOf.isNone && n.anyOf.isNone && n.oneOf.isNone && n.not.isNone &&
  n.if_.isNone && n.then_.isNone && n.else_.isNone && n.dependentSchemas.isNone &&
  n.contentEncoding == "" && n.contentMediaType == "" && n.contentSchema.isNone && n.format == ""

/-- `for _, name := range keys { if _, ok := s.Properties[name]; !ok { s.Properties[name] = override.Properties[name].CloneSchemas();
    s.PropertyOrder = append(s.PropertyOrder, name) } }` over the sorted keys -/
def insertOverrideProps : List (String × NodeId) → Node → Store → Res (Node × Store)
  | [], n, st => .ok (n, st)
  | (name, pid) :: rest, n, st =>
    if (Json.lookup name (n.properties.getD [])).isSome then insertOverrideProps rest n st
    else
      Res.bind (clone st pid) fun (cid, st) =>
        insertOverrideProps rest
          { n with properties := some ((n.properties.getD []) ++ [(name, cid)]),
                   propertyOrder := some ((n.propertyOrder.getD []) ++ [name]) } st

/-- `s.Properties[info.name] = fs; s.PropertyOrder = append(s.PropertyOrder, info.name);
    if !info.settings["omitempty"] && !info.settings["omitzero"] { s.Required = append(s.Required, info.name) }` -/
def addFieldE (n : Node) (info : JsonInfo) (fid : NodeId) : Node :=
  { n with properties := some ((n.properties.getD []).filter (·.1 != info.name) ++ [(info.name, fid)]),
           propertyOrder := some ((n.propertyOrder.getD []) ++ [info.name]),
           required := if !info.omitempty && !info.omitzero then some ((n.required.getD []) ++ [info.name]) else n.required }

/-- `fs.Description = tag` -/
def setDescriptionE (st : Store) (fid : NodeId) (d : String) : Store :=
  match st.get? fid with
  | some fn => st.set! fid { fn with description := d }
  | none => st

/-- disallowedPrefixRegexp `^[^ \t\n]*=` : a description must not start with WORD= -/
def badDescription (d : String) : Bool :=
  (d.splitOn "=").length > 1 && !(((d.splitOn "=").headD "").toList.any fun c => c == ' ' || c == '\t' || c == '\n')

/-- one iteration of the loop for a field that is neither anonymous nor skipped: from `info := fieldJSONInfo(field)` on -/
def fieldStepE (rec : IRecE) (seen : List String) (goName tag : String) (exported : Bool) (ft : GoTypeE)
    (n : Node) (st : Store) : Res (Node × Store) :=
  let info := fieldJSONInfoE goName tag exported
  if info.omitted then .ok (n, st)
  else
    Res.bind (rec ft seen st) fun (fs, st) =>
      match fs with
      | none => .ok (n, st)          -- ignore && fs == nil: skip fields of invalid type
      | some fid =>
        match tagLookup "jsonschema" tag with
        | some d =>
          if d = "" then .err                       -- empty jsonschema tag on struct field
          else if badDescription d then .err        -- tag must not begin with 'WORD='
          else .ok (addFieldE n info fid, setDescriptionE st fid d)
        | none => .ok (addFieldE n info fid, st)

/-- `override := schemas[field.Type]` for an anonymous field (none: no entry, or a nil one) -/
def overrideOf (opts : IOpts) (st : Store) (t : GoTypeE) : Option Node :=
  ((typeNameE t).bind fun nm => Json.lookup nm opts.schemas).bind fun oid => st.get? oid

/-- `skipPath != nil && len(field.Index) >= len(skipPath) && field.Index[:len(skipPath)] == skipPath` -/
def underSkip (skipPath : Option (List Nat)) (index : List Nat) : Bool :=
  match skipPath with
  | some sp => sp.isPrefixOf index
  | none => false

/-- `for _, field := range reflect.VisibleFields(t) { … }`; the second argument is `skipPath` (none = nil) -/
def structLoopE (opts : IOpts) (rec : IRecE) (seen : List String) :
    List VField → Option (List Nat) → Node → Store → Res (Node × Store)
  | [], _, n, st => .ok (n, st)
  | f :: rest, skipPath, n, st =>
    let n := if n.properties.isNone then { n with properties := some [] } else n
    if f.anonymous then
      -- override := schemas[field.Type]
      match overrideOf opts st f.type with
      | some on =>
        if on.type != "object" then .err            -- custom schema for embedded struct must have type "object"
        else if !overrideOnlyTypeProps on then .err  -- overrides for embedded fields can have only "Type" and "Properties"
        else
          Res.bind (insertOverrideProps (sortByKey (on.properties.getD [])) n st) fun (n, st) =>
            structLoopE opts rec seen rest (some f.index) n st
      | none => structLoopE opts rec seen rest skipPath n st
    else
      -- promoted from a replaced anonymous type?
      if underSkip skipPath f.index then structLoopE opts rec seen rest skipPath n st
      else
        Res.bind (fieldStepE rec seen f.goName f.tag f.exported f.type n st) fun (n, st) =>
          structLoopE opts rec seen rest none n st

def inferStepE (opts : IOpts) (rec : IRecE) (t0 : GoTypeE) (seen : List String) (st : Store) : Res (Option NodeId × Store) :=
  let (t, allowNull) := stripPtrsE t0
  -- cycle check on named types
  match (match typeNameE t with
         | some nm => if seen.contains nm then none else some (nm :: seen)
         | none => some seen) with
  | none => .err
  | some seen' =>
    -- the type table
    match (typeNameE t).bind fun nm => Json.lookup nm opts.schemas with
    | some sid =>
      Res.bind (clone st sid) fun (cid, st) =>
        match st.get? cid with
        | none => .panic
        | some cn =>
          let cn := if opts.nullForSlices && allowNull then
              (if cn.type != "" then { cn with types := some ["null", cn.type], type := "" }
               else if !(cn.types.getD []).contains "null" then { cn with types := some ("null" :: (cn.types.getD [])) } else cn)
            else cn
          .ok (some cid, st.set! cid cn)
    | none =>
      let under : GoTypeE := match t with
        | .named _ u => u
        | u => u
      match under with
      | .ref _ => .err
      | .ptr _ => .panic
      | .named _ _ => .panic
      | .basic kind =>
        match kindEntry kind with
        | some (ty, mn, mx) =>
          let n : Node := { type := ty, minimum := mn.map fun i => (i : Rat), maximum := mx.map fun i => (i : Rat) }
          let (id, st) := st.alloc (addNull allowNull n)
          .ok (some id, st)
        | none => if opts.ignore then .ok (none, st) else .err
      | .map keyKind e =>
        if keyKind != "String" then (if opts.ignore then .ok (none, st) else .err)
        else
          Res.bind (rec e seen' st) fun (es, st) =>
            match es with
            | none => .ok (none, st)
            | some eid =>
              let (id, st) := st.alloc (addNull allowNull { type := "object", additionalProperties := some eid })
              .ok (some id, st)
      | .slice e =>
        Res.bind (rec e seen' st) fun (es, st) =>
          match es with
          | none => .ok (none, st)
          | some eid =>
            let n : Node := if opts.nullForSlices then { types := some ["null", "array"], items := some eid }
                            else { type := "array", items := some eid }
            let (id, st) := st.alloc (addNull allowNull n)
            .ok (some id, st)
      | .array len e =>
        Res.bind (rec e seen' st) fun (es, st) =>
          match es with
          | none => .ok (none, st)
          | some eid =>
            let n : Node := { type := "array", items := some eid, minItems := some len, maxItems := some len }
            let (id, st) := st.alloc (addNull allowNull n)
            .ok (some id, st)
      | .struct fields =>
        let (notId, st) := st.alloc emptyNode
        let (falseId, st) := st.alloc { emptyNode with not := some notId }
        Res.bind (structLoopE opts rec seen' (visibleFields fields) none
            { type := "object", additionalProperties := some falseId } st) fun (n, st) =>
          let n := match n.propertyOrder with
            | some po => if po.length > 1 then { n with propertyOrder := some (dedupKeepLast po) } else n
            | none => n
          let (id, st) := st.alloc (addNull allowNull n)
          .ok (some id, st)

def inferFuelE (opts : IOpts) : Nat → IRecE
  | 0 => fun _ _ _ => .fuel
  | fuel + 1 => inferStepE opts (inferFuelE opts fuel)

/-- ForType(t, opts) for types with embedded fields -/
def forTypeE (opts : IOpts) (fuel : Nat) (t : GoTypeE) (st : Store) : Res (Option NodeId × Store) :=
  inferFuelE opts fuel t [] st

end Go
end JSV
