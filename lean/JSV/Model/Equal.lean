/-
  Model of util.go `equalValue` (as repaired: representation-independent), block for block:
    1. step through pointers and interfaces on both sides
    2. invalid (nil) only equals invalid
    3. numbers first, through exact rationals; a number never equals a non-number
    4. arrays and slices element-wise (length first), maps as key sets (length first,
       then every entry of x looked up in y), strings, bools
    5. anything else: panic (unsupported kind) when both sides have such a kind
-/
import JSV.Model.GoVal
namespace JSV
namespace Go
open GoVal

/-- the comparison after both sides were stripped, for the leaf kinds -/
def eqLeaf (x y : GoVal) : Res Bool :=
  match x, y with
  | .invalid, .invalid => .ok true
  | .invalid, _ => .ok false
  | _, .invalid => .ok false
  | .bool a, .bool b => .ok (a == b)
  | .str a, .str b => .ok (a == b)
  | .jnum none a, .jnum none b => .ok (a == b)   -- unparsable json.Number: compared as strings
  | .jnum none a, .str b => .ok (a == b)
  | .str a, .jnum none b => .ok (a == b)
  | .other .opaque, .other .opaque => .panic   -- "unsupported kind" / "cannot compare functions"
  | _, _ => .ok false

mutual
  def equalValue : GoVal → GoVal → Res Bool
    | .ptr x, y => equalValue x y
    | .iface x, y => equalValue x y
    | .list xs, y =>
      match strip y with
      | .list ys => if xs.length != ys.length then .ok false else equalList xs ys
      | y' => eqLeaf (.list xs) y'
    | .map kx, y =>
      match strip y with
      | .map ky => if kx.length != ky.length then .ok false else equalMap kx ky
      | y' => eqLeaf (.map kx) y'
    | x, y =>
      let y' := strip y
      match jsonNumber x, jsonNumber y' with
      | some a, some b => .ok (a == b)
      | some _, none => .ok false
      | none, some _ => .ok false
      | none, none => eqLeaf x y'
  def equalList : List GoVal → List GoVal → Res Bool
    | [], _ => .ok true
    | _ :: _, [] => .ok true
    | x :: xs, y :: ys =>
      Res.bind (equalValue x y) fun b => if b then equalList xs ys else .ok false
  /-- `for k, vx := range x { vy := y[k]; if !vy.IsValid() || !equalValue(vx, vy) {return false} }` -/
  def equalMap : List (String × GoVal) → List (String × GoVal) → Res Bool
    | [], _ => .ok true
    | (k, vx) :: rest, ky =>
      match Json.lookup k ky with
      | none => .ok false
      | some vy => Res.bind (equalValue vx vy) fun b => if b then equalMap rest ky else .ok false
end

/-- exported `Equal(x, y any)` -/
def equal (x y : GoVal) : Res Bool := equalValue x y

end Go
end JSV
