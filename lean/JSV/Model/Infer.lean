/-
  Model of infer.go `forType` for the plain-data fragment: basic kinds (table regenerated from the
  source), pointers (null added), slices, arrays, string-keyed maps, interfaces, structs with
  json tags (no embedded fields: those are tied behaviourally only), named types with the
  initial / caller-supplied type table (cloned on use) and the cycle check.
  Every `new(Schema)` allocates a fresh node in the store.
-/
import JSV.Model.Clone
import JSV.Model.Unmarshal
import JSV.Generated.Facts
namespace JSV
namespace Go

inductive GoType where
  | basic (kind : String)                        -- reflect kind name: "Bool", "Int8", …, "String", "Interface", "Func", "Chan", "Complex128"
  | named (name : String) (underlying : GoType)  -- a declared type; `name` is its identity
  | ref (name : String)                          -- a back reference to an enclosing named type (recursive types)
  | ptr (e : GoType)
  | slice (e : GoType)
  | array (n : Nat) (e : GoType)
  | map (keyKind : String) (e : GoType)
  | struct (fields : List (String × String × GoType))   -- (Go name, raw struct tag, type); exported, not embedded
  deriving Inhabited

/-- reflect.StructTag.Lookup(key) for the conventional `key:"value"` syntax (no escapes inside values) -/
def tagLookup (key : String) (tag : String) : Option String :=
  let parts := tag.splitOn "\""
  -- parts = [k1:, v1, " k2:", v2, …]
  let rec go : List String → Option String
    | k :: v :: rest => if k.trimAscii.toString == key ++ ":" then some v else go rest
    | _ => none
  go parts

structure JsonInfo where
  omitted : Bool := false
  name : String := ""
  omitempty : Bool := false
  omitzero : Bool := false

/-- util.go fieldJSONInfo for an exported field -/
def fieldJSONInfo (goName tag : String) : JsonInfo :=
  match tagLookup "json" tag with
  | none => { name := goName }
  | some t =>
    let parts := t.splitOn ","
    let name := parts.headD ""
    let rest := parts.drop 1
    if name == "-" && rest.isEmpty then { omitted := true }
    else { name := if name != "" then name else goName,
           omitempty := rest.contains "omitempty", omitzero := rest.contains "omitzero" }

/-- the kind table of forType, regenerated from the source: (type keyword, minimum, maximum) -/
def kindEntry (kind : String) : Option (String × Option Int × Option Int) :=
  (Generated.inferKinds.find? fun e => e.1.contains kind).map fun e => e.2

structure IOpts where
  ignore : Bool := false
  nullForSlices : Bool := true         -- JSONSCHEMAGODEBUG typeschemasnull != 1
  schemas : List (String × NodeId) := []   -- type table: named type ↦ schema (initial entries + TypeSchemas)

/-- remove PropertyOrder duplicates keeping the last occurrence -/
def dedupKeepLast (l : List String) : List String :=
  (l.reverse.foldl (fun acc x => if acc.contains x then acc else acc ++ [x]) []).reverse

abbrev IRec := GoType → List String → Store → Res (Option NodeId × Store)

/-- `if allowNull && s.Type != "" { s.Types = ["null", s.Type]; s.Type = "" }` -/
def addNull (allowNull : Bool) (n : Node) : Node :=
  if allowNull && n.type != "" then { n with types := some ["null", n.type], type := "" } else n

def stripPtrs : GoType → GoType × Bool
  | .ptr e => ((stripPtrs e).1, true)
  | t => (t, false)

def typeName : GoType → Option String
  | .named n _ => some n
  | .ref n => some n
  | _ => none

/-- the struct-field loop -/
def structLoop (rec : IRec) (seen : List String) :
    List (String × String × GoType) → Node → Store → Res (Node × Store)
  | [], n, st => .ok (n, st)
  | (goName, tag, ft) :: rest, n, st =>
    let n := if n.properties.isNone then { n with properties := some [] } else n
    let info := fieldJSONInfo goName tag
    if info.omitted then structLoop rec seen rest n st
    else
      Res.bind (rec ft seen st) fun (fs, st) =>
        match fs with
        | none => structLoop rec seen rest n st          -- ignore && fs == nil: skip fields of invalid type
        | some fid =>
          match tagLookup "jsonschema" tag with
          | some "" => .err
          | some d =>
            -- disallowedPrefixRegexp ^[^ \t\n]*= : a description must not start with WORD=
            let pre := (d.splitOn "=").headD ""
            if (d.splitOn "=").length > 1 && !(pre.toList.any fun c => c == ' ' || c == '\t' || c == '\n') then .err
            else
              let st := match st.get? fid with
                | some fn => st.set! fid { fn with description := d }
                | none => st
              let props := (n.properties.getD []).filter (·.1 != info.name) ++ [(info.name, fid)]
              let n := { n with properties := some props, propertyOrder := some ((n.propertyOrder.getD []) ++ [info.name]),
                                required := if !info.omitempty && !info.omitzero then some ((n.required.getD []) ++ [info.name]) else n.required }
              structLoop rec seen rest n st
          | none =>
            let props := (n.properties.getD []).filter (·.1 != info.name) ++ [(info.name, fid)]
            let n := { n with properties := some props, propertyOrder := some ((n.propertyOrder.getD []) ++ [info.name]),
                              required := if !info.omitempty && !info.omitzero then some ((n.required.getD []) ++ [info.name]) else n.required }
            structLoop rec seen rest n st

def inferStep (opts : IOpts) (rec : IRec) (t0 : GoType) (seen : List String) (st : Store) : Res (Option NodeId × Store) :=
  let (t, allowNull) := stripPtrs t0
  -- cycle check on named types
  match (match typeName t with
         | some nm => if seen.contains nm then none else some (nm :: seen)
         | none => some seen) with
  | none => .err
  | some seen' =>
    -- the type table
    match (typeName t).bind fun nm => Json.lookup nm opts.schemas with
    | some sid =>
      Res.bind (clone st sid) fun (cid, st) =>
        match st.get? cid with
        | none => .panic
        | some cn =>
          let cn := if opts.nullForSlices && allowNull then
              (if cn.type != "" then { cn with types := some ["null", cn.type], type := "" }
               else if !(cn.types.getD []).contains "null" then { cn with types := some ("null" :: (cn.types.getD [])) } else cn)
            else cn
          .ok (some cid, st.set! cid cn)
    | none =>
      let under : GoType := match t with
        | .named _ u => u
        | u => u
      match under with
      | .ref _ => .err      -- a recursive reference that the cycle check did not stop: cannot happen for declared types
      | .ptr _ => .panic    -- stripped above
      | .named _ _ => .panic
      | .basic kind =>
        match kindEntry kind with
        | some (ty, mn, mx) =>
          let n : Node := { type := ty, minimum := mn.map fun i => (i : Rat), maximum := mx.map fun i => (i : Rat) }
          let (id, st) := st.alloc (addNull allowNull n)
          .ok (some id, st)
        | none => if opts.ignore then .ok (none, st) else .err
      | .map keyKind e =>
        if keyKind != "String" then (if opts.ignore then .ok (none, st) else .err)
        else
          Res.bind (rec e seen' st) fun (es, st) =>
            match es with
            | none => .ok (none, st)
            | some eid =>
              let (id, st) := st.alloc (addNull allowNull { type := "object", additionalProperties := some eid })
              .ok (some id, st)
      | .slice e =>
        Res.bind (rec e seen' st) fun (es, st) =>
          match es with
          | none => .ok (none, st)
          | some eid =>
            let n : Node := if opts.nullForSlices then { types := some ["null", "array"], items := some eid }
                            else { type := "array", items := some eid }
            let (id, st) := st.alloc (addNull allowNull n)
            .ok (some id, st)
      | .array len e =>
        Res.bind (rec e seen' st) fun (es, st) =>
          match es with
          | none => .ok (none, st)
          | some eid =>
            let n : Node := { type := "array", items := some eid, minItems := some len, maxItems := some len }
            let (id, st) := st.alloc (addNull allowNull n)
            .ok (some id, st)
      | .struct fields =>
        let (notId, st) := st.alloc emptyNode
        let (falseId, st) := st.alloc { emptyNode with not := some notId }
        Res.bind (structLoop rec seen' fields { type := "object", additionalProperties := some falseId } st) fun (n, st) =>
          let n := match n.propertyOrder with
            | some po => if po.length > 1 then { n with propertyOrder := some (dedupKeepLast po) } else n
            | none => n
          let (id, st) := st.alloc (addNull allowNull n)
          .ok (some id, st)

def inferFuel (opts : IOpts) : Nat → IRec
  | 0 => fun _ _ _ => .fuel
  | fuel + 1 => inferStep opts (inferFuel opts fuel)

/-- ForType(t, opts) -/
def forType (opts : IOpts) (fuel : Nat) (t : GoType) (st : Store) : Res (Option NodeId × Store) :=
  inferFuel opts fuel t [] st

end Go
end JSV
