/-
  Model of (*Schema).CloneSchemas (schema.go:169-204) on the heap: a shallow copy of the node whose
  schema-valued, schema-slice-valued and schema-map-valued fields are cloned recursively; every clone is
  a freshly allocated node.  nil stays nil; nil slices / maps stay nil (slices.Clone / maps.Clone).
-/
import JSV.Model.Schema
namespace JSV
namespace Go

abbrev CRec := NodeId → Store → Res (NodeId × Store)

def cloneOpt (rec : CRec) (c : Option NodeId) (st : Store) : Res (Option NodeId × Store) :=
  match c with
  | none => .ok (none, st)
  | some id => Res.bind (rec id st) fun (id', st) => .ok (some id', st)

def cloneIds (rec : CRec) : List NodeId → Store → Res (List NodeId × Store)
  | [], st => .ok ([], st)
  | x :: xs, st =>
    Res.bind (rec x st) fun (x', st) => Res.bind (cloneIds rec xs st) fun (xs', st) => .ok (x' :: xs', st)

def cloneList (rec : CRec) (cs : Option (List NodeId)) (st : Store) : Res (Option (List NodeId) × Store) :=
  match cs with
  | none => .ok (none, st)
  | some l => Res.bind (cloneIds rec l st) fun (l', st) => .ok (some l', st)

def cloneEntries (rec : CRec) : List (String × NodeId) → Store → Res (List (String × NodeId) × Store)
  | [], st => .ok ([], st)
  | (k, x) :: xs, st =>
    Res.bind (rec x st) fun (x', st) => Res.bind (cloneEntries rec xs st) fun (xs', st) => .ok ((k, x') :: xs', st)

def cloneMap (rec : CRec) (cs : Option (List (String × NodeId))) (st : Store) :
    Res (Option (List (String × NodeId)) × Store) :=
  match cs with
  | none => .ok (none, st)
  | some l => Res.bind (cloneEntries rec l st) fun (l', st) => .ok (some l', st)

def cloneStep (rec : CRec) (id : NodeId) (st : Store) : Res (NodeId × Store) :=
  match st.get? id with
  | none => .ok (id, st)                 -- nil.CloneSchemas() = nil
  | some n =>
    Res.bind (cloneMap rec n.defs st) fun (defs, st) =>
    Res.bind (cloneOpt rec n.additionalItems st) fun (additionalItems, st) =>
    Res.bind (cloneOpt rec n.additionalProperties st) fun (additionalProperties, st) =>
    Res.bind (cloneList rec n.allOf st) fun (allOf, st) =>
    Res.bind (cloneList rec n.anyOf st) fun (anyOf, st) =>
    Res.bind (cloneOpt rec n.contains st) fun (contains, st) =>
    Res.bind (cloneOpt rec n.contentSchema st) fun (contentSchema, st) =>
    Res.bind (cloneMap rec n.definitions st) fun (definitions, st) =>
    Res.bind (cloneMap rec n.dependencySchemas st) fun (dependencySchemas, st) =>
    Res.bind (cloneMap rec n.dependentSchemas st) fun (dependentSchemas, st) =>
    Res.bind (cloneOpt rec n.else_ st) fun (else_, st) =>
    Res.bind (cloneOpt rec n.if_ st) fun (if_, st) =>
    Res.bind (cloneOpt rec n.items st) fun (items, st) =>
    Res.bind (cloneList rec n.itemsArray st) fun (itemsArray, st) =>
    Res.bind (cloneOpt rec n.not st) fun (not, st) =>
    Res.bind (cloneList rec n.oneOf st) fun (oneOf, st) =>
    Res.bind (cloneMap rec n.patternProperties st) fun (patternProperties, st) =>
    Res.bind (cloneList rec n.prefixItems st) fun (prefixItems, st) =>
    Res.bind (cloneMap rec n.properties st) fun (properties, st) =>
    Res.bind (cloneOpt rec n.propertyNames st) fun (propertyNames, st) =>
    Res.bind (cloneOpt rec n.then_ st) fun (then_, st) =>
    Res.bind (cloneOpt rec n.unevaluatedItems st) fun (unevaluatedItems, st) =>
    Res.bind (cloneOpt rec n.unevaluatedProperties st) fun (unevaluatedProperties, st) =>
    .ok (st.alloc { n with
      defs := defs, additionalItems := additionalItems, additionalProperties := additionalProperties,
      allOf := allOf, anyOf := anyOf, contains := contains, contentSchema := contentSchema,
      definitions := definitions, dependencySchemas := dependencySchemas, dependentSchemas := dependentSchemas,
      else_ := else_, if_ := if_, items := items, itemsArray := itemsArray, not := not, oneOf := oneOf,
      patternProperties := patternProperties, prefixItems := prefixItems, properties := properties,
      propertyNames := propertyNames, then_ := then_, unevaluatedItems := unevaluatedItems,
      unevaluatedProperties := unevaluatedProperties })

def cloneFuel : Nat → CRec
  | 0 => fun _ _ => .fuel
  | fuel + 1 => cloneStep (cloneFuel fuel)

/-- s.CloneSchemas() -/
def clone (st : Store) (root : NodeId) : Res (NodeId × Store) := cloneFuel (st.size + 2) root st

/-- all node ids reachable from a root (with repetitions), by bounded traversal -/
def reachable (st : Store) : Nat → List NodeId → List NodeId
  | 0, _ => []
  | _ + 1, [] => []
  | fuel + 1, id :: work =>
    match st.get? id with
    | some n => id :: reachable st fuel (n.children ++ work)
    | none => reachable st fuel work

end Go
end JSV
