/-
  Model of resolve.go: Resolve, resolver.resolve (loader cache), check (checkStructure + checkLocal),
  resolveURIs, resolveRefs, resolveRef.  Schema objects are NodeIds of one shared store; every
  loader document has been unmarshalled into that store beforehand (fresh nodes per document).
  Go keeps one *resolvedInfo object per schema and shares the pointers between the per-document
  maps; the model keeps the info objects in one table and, per Resolved, the set of schemas its
  map knows (`known`): a lookup outside that set is Go's nil map entry.
-/
import JSV.Model.Schema
import JSV.Model.Uri
import JSV.Model.Pointer
namespace JSV
namespace Go
open Uri

inductive Draft | d7 | d2020
  deriving DecidableEq, Repr, Inhabited

structure AnchorInfo where
  schema : NodeId
  dynamic : Bool
  deriving Repr, Inhabited

structure Info where
  path : String := ""
  base : Option NodeId := none
  uri : Option Url := none
  resolvedRef : Option NodeId := none
  resolvedDynamicRef : Option NodeId := none
  dynamicRefAnchor : String := ""
  anchors : List (String × AnchorInfo) := []
  deriving Inhabited

/-- one *Resolved -/
structure DocRes where
  root : NodeId
  draft : Draft
  uris : List (String × NodeId) := []      -- resolvedURIs
  known : List NodeId := []                 -- domain of resolvedInfos
  deriving Inhabited

inductive LoaderResult where
  | fail                    -- the Loader returns an error
  | nilDoc                  -- the Loader returns (nil, nil)
  | doc (root : NodeId)     -- a freshly unmarshalled document
  deriving Inhabited

structure Env where
  st : Store
  reOk : String → Bool                          -- regexp.Compile succeeds
  loader : Option (List (String × LoaderResult)) -- none = no Loader option; absent uri = error
  supported : List String := Generated.supportedVersions
  draft7URIs : List String := Generated.detectDraft7

structure RState where
  infos : List (NodeId × Info) := []
  docs : List DocRes := []
  loaded : List (String × NodeId) := []      -- r.loaded: uri ↦ root of its Resolved
  log : List String := []                     -- URIs the Loader was called with, in order

def lookupNat {α : Type} (k : Nat) : List (Nat × α) → Option α
  | [] => none
  | (k', v) :: rest => if k' = k then some v else lookupNat k rest

def setNat {α : Type} (k : Nat) (v : α) : List (Nat × α) → List (Nat × α)
  | [] => [(k, v)]
  | (k', v') :: rest => if k' = k then (k, v) :: rest else (k', v') :: setNat k v rest

def RState.doc? (s : RState) (root : NodeId) : Option DocRes := s.docs.find? (·.root == root)

def RState.setDoc (s : RState) (d : DocRes) : RState :=
  { s with docs := if s.docs.any (·.root == d.root) then s.docs.map (fun x => if x.root == d.root then d else x)
                   else s.docs ++ [d] }

/-- rs.resolvedInfos[id] for the Resolved rooted at `root` -/
def RState.info? (s : RState) (root id : NodeId) : Option Info :=
  match s.doc? root with
  | some d => if d.known.contains id then lookupNat id s.infos else none
  | none => none

/-- `rs.draft` of the Resolved rooted at `root` (2020-12, the default, when there is no such Resolved) -/
def RState.draftOf (s : RState) (root : NodeId) : Draft :=
  match s.doc? root with
  | some d => d.draft
  | none => .d2020

def RState.updInfo (s : RState) (id : NodeId) (f : Info → Info) : RState :=
  match lookupNat id s.infos with
  | some i => { s with infos := setNat id (f i) s.infos }
  | none => s

def detectDraft (env : Env) (schemaField : String) : Draft :=
  if env.draft7URIs.contains schemaField then .d7 else .d2020

/-! ### check -/

def childEntries (n : Node) (path : String) : List (NodeId × String) :=
  n.childFields.flatMap fun f =>
    match f with
    | .one j (some c) => [(c, path ++ "/" ++ j)]
    | .one _ none => []
    | .many j cs => (cs.getD []).zipIdx.map fun (c, i) => (c, path ++ "/" ++ j ++ "/" ++ toString i)
    | .keyed j cs => (cs.getD []).map fun (k, c) => (c, path ++ "/" ++ j ++ "/" ++ Pointer.escapeSegment k)

/-- checkStructure as a worklist DFS: every reachable pointer is non-nil and is met once. -/
def checkStructure (st : Store) : Nat → List (NodeId × String) → List (NodeId × Info) → Res (List (NodeId × Info))
  | 0, _, _ => .fuel
  | _ + 1, [], acc => .ok acc
  | fuel + 1, (id, path) :: work, acc =>
    match st.get? id with
    | none => .err                                   -- "schema at … is nil"
    | some n =>
      if (lookupNat id acc).isSome then .err          -- "do not form a tree"
      else
        let p := if path == "" then "root" else path
        checkStructure st fuel (childEntries n path ++ work) (acc ++ [(id, { path := p })])

def hasDup : List String → Bool
  | [] => false
  | x :: xs => xs.contains x || hasDup xs

/-- basicChecks -/
def basicChecksOk (n : Node) : Bool :=
  !(n.type != "" && n.types.isSome) &&
  !(n.defs.isSome && n.definitions.isSome) &&
  !(n.items.isSome && n.itemsArray.isSome) &&
  !hasDup (n.propertyOrder.getD []) &&
  !((n.dependencySchemas.getD []).any fun (k, _) => ((n.dependencyStrings.getD []).any fun (k', _) => k' == k))

/-- checkLocal reports no error -/
def checkLocalOk (env : Env) (n : Node) : Bool :=
  basicChecksOk n &&
  !(n.vocabulary.isSome && n.schema != "https://json-schema.org/draft/2020-12/schema") &&
  (n.pattern == "" || env.reOk n.pattern) &&
  ((n.patternProperties.getD []).all fun (k, _) => env.reOk k)

/-! ### resolveURIs -/

def setAnchor (s : RState) (baseId : NodeId) (target : NodeId) (anchor : String) (dynamic : Bool) : RState :=
  if anchor == "" then s else
  s.updInfo baseId fun bi =>
    if (Json.lookup anchor bi.anchors).isSome then bi     -- "duplicate anchor" error is dropped by every caller
    else { bi with anchors := bi.anchors ++ [(anchor, { schema := target, dynamic := dynamic })] }

def stripHashPrefix (s : String) : String :=
  match s.toList with
  | '#' :: r => String.ofList r
  | _ => s

/-- the recursive `resolve(s, base)` of resolveURIs as a preorder worklist -/
def resolveURIsLoop (env : Env) (draft : Draft) (root : NodeId) :
    Nat → List (NodeId × NodeId) → RState → Res RState
  | 0, _, _ => .fuel
  | _ + 1, [], s => .ok s
  | fuel + 1, (id, base) :: work, s =>
    match env.st.get? id, lookupNat id s.infos, lookupNat base s.infos with
    | some n, some _, some baseInfo =>
      let ignore := draft == .d7 && n.ref != ""
      let step : Res (RState × NodeId) :=
        if n.id != "" && !ignore then
          Res.bind (Uri.parse n.id) fun idURI =>
            if draft == .d2020 && idURI.fragment != "" then .err
            else if draft == .d7 && idURI.fragment != "" then
              .ok (setAnchor s base id (stripHashPrefix n.id) false, base)
            else
              match baseInfo.uri with
              | none => .panic
              | some bu =>
                let u := Uri.resolveReference bu idURI
                if !Uri.isAbs u then .err
                else
                  let s := s.updInfo id fun i => { i with uri := some u }
                  let s := match s.doc? root with
                    | some d => s.setDoc { d with uris := (d.uris.filter (·.1 != Uri.toString u)) ++ [(Uri.toString u, id)] }
                    | none => s
                  .ok (s, id)
        else .ok (s, base)
      Res.bind step fun (s, base) =>
        let s := s.updInfo id fun i => { i with base := some base }
        let s := if draft == .d2020 then
            setAnchor (setAnchor s base id n.anchor false) base id n.dynamicAnchor true
          else s
        resolveURIsLoop env draft root fuel ((n.children.map fun c => (c, base)) ++ work) s
    | _, _, _ => .panic

/-! ### traversal -/

/-- Schema.all(): preorder -/
def allNodes (st : Store) : Nat → List NodeId → List NodeId
  | 0, _ => []
  | _ + 1, [] => []
  | fuel + 1, id :: work =>
    match st.get? id with
    | some n => id :: allNodes st fuel (n.children ++ work)
    | none => allNodes st fuel work

/-! ### resolveRef / resolveRefs / resolve (mutually recursive through the Loader: fuel) -/

def mergeKnown (s : RState) (into from_ : NodeId) : RState :=
  match s.doc? into, s.doc? from_ with
  | some d, some l => s.setDoc { d with known := d.known ++ l.known.filter (fun x => !d.known.contains x) }
  | _, _ => s

structure RefOut where
  target : NodeId
  dynFrag : String

abbrev ResolveDoc := NodeId → Url → Draft → RState → Res RState

/-- resolveRef(rs, s, ref) -/
def resolveRef (env : Env) (recDoc : ResolveDoc) (root : NodeId) (s : RState) (id : NodeId) (ref : String) :
    Res (RefOut × RState) :=
  Res.bind (Uri.parse ref) fun refURI0 =>
  match s.info? root id with
  | none => .panic
  | some info =>
  match info.base with
  | none => .panic
  | some base =>
  match s.info? root base with
  | none => .panic
  | some bInfo =>
  match bInfo.uri, s.doc? root with
  | some bu, some d =>
    let refURI := Uri.resolveReference bu refURI0
    let fragless := Uri.dropFragment refURI
    let key := Uri.toString fragless
    let found : Res (NodeId × RState) :=
      match Json.lookup key d.uris with
      | some t => .ok (t, s)
      | none =>
        match Json.lookup key s.loaded with
        | some lroot => .ok (lroot, mergeKnown s root lroot)
        | none =>
          let s := { s with log := s.log ++ [key] }
          match env.loader with
          | none => .err
          | some tbl =>
            match Json.lookup key tbl with
            | none => .err
            | some .fail => .err
            | some .nilDoc => .err
            | some (.doc lroot) =>
              Res.bind (recDoc lroot fragless d.draft s) fun s => .ok (lroot, mergeKnown s root lroot)
    Res.bind found fun (referenced, s) =>
      let frag := refURI.fragment
      if frag != "" && frag.toList.head? != some '/' then
        match s.info? root referenced with
        | none => .panic
        | some rInfo =>
          match Json.lookup frag rInfo.anchors with
          | none => .err
          | some a => .ok ({ target := a.schema, dynFrag := if a.dynamic then frag else "" }, s)
      else
        Res.bind (Pointer.dereference env.st true true referenced frag) fun t =>
          .ok ({ target := t, dynFrag := "" }, s)
  | _, _ => .panic

/-- resolveRefs(rs) over rs.root.all() -/
def resolveRefsLoop (env : Env) (recDoc : ResolveDoc) (root : NodeId) : List NodeId → RState → Res RState
  | [], s => .ok s
  | id :: rest, s =>
    match env.st.get? id with
    | none => .panic
    | some n =>
      let r1 : Res RState :=
        if n.ref != "" then
          Res.bind (resolveRef env recDoc root s id n.ref) fun (o, s) =>
            .ok (s.updInfo id fun i => { i with resolvedRef := some o.target })
        else .ok s
      Res.bind r1 fun s =>
        let r2 : Res RState :=
          -- $dynamicRef is an unknown keyword in a draft-07 document (`rs.draft`): left unresolved there
          if n.dynamicRef != "" && s.draftOf root == .d2020 then
            Res.bind (resolveRef env recDoc root s id n.dynamicRef) fun (o, s) =>
              -- the initial (lexical) target is always remembered; the anchor name only when the
              -- target anchor is dynamic, in which case validation searches the dynamic scope first
              .ok (s.updInfo id fun i => { i with resolvedDynamicRef := some o.target, dynamicRefAnchor := o.dynFrag })
          else .ok s
        Res.bind r2 fun s => resolveRefsLoop env recDoc root rest s

/-- resolver.resolve(s, baseURI); `inherit` = the draft of the referring document, used when the
    document declares no $schema -/
def resolveDocStep (env : Env) (recDoc : ResolveDoc) (root : NodeId) (baseURI : Url) (inherit : Draft)
    (s : RState) : Res RState :=
  if baseURI.fragment != "" then .err else
  match env.st.get? root with
  | none => .err                       -- nil root: checkStructure reports it
  | some rn =>
  let draft := if rn.schema == "" then inherit else detectDraft env rn.schema
  let n := env.st.size
  Res.bind (checkStructure env.st (n + 2) [(root, "")] []) fun fresh =>
    let nodes := fresh.map (·.1)
    if !(nodes.all fun id => match env.st.get? id with
          | some nd => checkLocalOk env nd
          | none => false) then .err else
    let s := { s with infos := s.infos ++ fresh }
    let s := s.setDoc { root := root, draft := draft, uris := [(Uri.toString baseURI, root)], known := nodes }
    let s := s.updInfo root fun i => { i with uri := some baseURI }
    Res.bind (resolveURIsLoop env draft root (n + 2) [(root, root)] s) fun s =>
      let rootUri := match lookupNat root s.infos with
        | some i => (i.uri.map Uri.toString).getD ""
        | none => ""
      let s := { s with loaded := (s.loaded.filter fun e => e.1 != Uri.toString baseURI && e.1 != rootUri)
                          ++ [(Uri.toString baseURI, root), (rootUri, root)] }
      resolveRefsLoop env recDoc root (allNodes env.st (n + 2) [root]) s

def resolveDoc (env : Env) : Nat → ResolveDoc
  | 0 => fun _ _ _ _ => .fuel
  | fuel + 1 => resolveDocStep env (resolveDoc env fuel)

structure Resolved where
  root : NodeId
  draft : Draft
  infos : List (NodeId × Info)      -- restricted to what the root's Resolved knows
  log : List String
  deriving Inhabited

/-- Schema.Resolve(opts) without ValidateDefaults -/
def resolve (env : Env) (fuel : Nat) (root : NodeId) (baseURI : String) : Res Resolved :=
  let base : Res Url := if baseURI == "" then .ok {} else Uri.parse baseURI
  Res.bind base fun b =>
    Res.bind (resolveDoc env fuel root b .d2020 {}) fun s =>
      match s.doc? root with
      | none => .panic
      | some d => .ok { root := root, draft := d.draft, infos := s.infos.filter (fun e => d.known.contains e.1), log := s.log }

end Go
end JSV
