/-
  The Go `Schema` struct (schema.go) as a heap of nodes.  A `*Schema` is a `NodeId`; a NodeId with no
  node in the store is the nil pointer.  One field per Go field, same nil-vs-empty distinctions:
  `Option (List …)` for slices and maps (none = nil), "" for absent strings, `Option` for pointers.
  Maps are association lists; their order is the (arbitrary) iteration order.
-/
import JSV.Basic.Json
namespace JSV

abbrev NodeId := Nat

structure Node where
  -- core
  id : String := ""
  schema : String := ""
  ref : String := ""
  comment : String := ""
  defs : Option (List (String × NodeId)) := none
  definitions : Option (List (String × NodeId)) := none
  dependencySchemas : Option (List (String × NodeId)) := none
  dependencyStrings : Option (List (String × Option (List String))) := none
  anchor : String := ""
  dynamicAnchor : String := ""
  dynamicRef : String := ""
  vocabulary : Option (List (String × Bool)) := none
  -- metadata
  title : String := ""
  description : String := ""
  default : Option Json := none
  deprecated : Bool := false
  readOnly : Bool := false
  writeOnly : Bool := false
  examples : Option (List Json) := none
  -- validation
  type : String := ""
  types : Option (List String) := none
  enum : Option (List Json) := none
  const : Option Json := none
  multipleOf : Option Rat := none
  minimum : Option Rat := none
  maximum : Option Rat := none
  exclusiveMinimum : Option Rat := none
  exclusiveMaximum : Option Rat := none
  minLength : Option Int := none
  maxLength : Option Int := none
  pattern : String := ""
  -- arrays
  prefixItems : Option (List NodeId) := none
  items : Option NodeId := none
  itemsArray : Option (List NodeId) := none
  minItems : Option Int := none
  maxItems : Option Int := none
  additionalItems : Option NodeId := none
  uniqueItems : Bool := false
  contains : Option NodeId := none
  minContains : Option Int := none
  maxContains : Option Int := none
  unevaluatedItems : Option NodeId := none
  -- objects
  minProperties : Option Int := none
  maxProperties : Option Int := none
  required : Option (List String) := none
  dependentRequired : Option (List (String × Option (List String))) := none
  properties : Option (List (String × NodeId)) := none
  patternProperties : Option (List (String × NodeId)) := none
  additionalProperties : Option NodeId := none
  propertyNames : Option NodeId := none
  unevaluatedProperties : Option NodeId := none
  -- logic
  allOf : Option (List NodeId) := none
  anyOf : Option (List NodeId) := none
  oneOf : Option (List NodeId) := none
  not : Option NodeId := none
  -- conditional
  if_ : Option NodeId := none
  then_ : Option NodeId := none
  else_ : Option NodeId := none
  dependentSchemas : Option (List (String × NodeId)) := none
  -- other
  contentEncoding : String := ""
  contentMediaType : String := ""
  contentSchema : Option NodeId := none
  format : String := ""
  extra : Option (List (String × Json)) := none
  propertyOrder : Option (List String) := none
  deriving Inhabited

abbrev Store := Array Node

namespace Store
def get? (st : Store) (i : NodeId) : Option Node := st[i]?
def alloc (st : Store) (n : Node) : NodeId × Store := (st.size, st.push n)
end Store

/-- shape of a schema-bearing field, as in schema.go's schemaType / schemaSliceType / schemaMapType -/
inductive ChildField where
  | one (jsonName : String) (c : Option NodeId)
  | many (jsonName : String) (cs : Option (List NodeId))
  | keyed (jsonName : String) (cs : Option (List (String × NodeId)))

/-- The schema-bearing fields in the order of `schemaFieldInfos` (sorted by JSON name; for the two pairs
    that share a name — items, dependencies — in declaration order, which the stable outcome of the
    unstable sort happens to be; nothing observable depends on it beyond path strings). -/
def Node.childFields (n : Node) : List ChildField := [
  .keyed "$defs" n.defs,
  .one "additionalItems" n.additionalItems,
  .one "additionalProperties" n.additionalProperties,
  .many "allOf" n.allOf,
  .many "anyOf" n.anyOf,
  .one "contains" n.contains,
  .one "contentSchema" n.contentSchema,
  .keyed "definitions" n.definitions,
  .keyed "dependencies" n.dependencySchemas,
  .keyed "dependentSchemas" n.dependentSchemas,
  .one "else" n.else_,
  .one "if" n.if_,
  .one "items" n.items,
  .many "items" n.itemsArray,
  .one "not" n.not,
  .many "oneOf" n.oneOf,
  .keyed "patternProperties" n.patternProperties,
  .many "prefixItems" n.prefixItems,
  .keyed "properties" n.properties,
  .one "propertyNames" n.propertyNames,
  .one "then" n.then_,
  .one "unevaluatedItems" n.unevaluatedItems,
  .one "unevaluatedProperties" n.unevaluatedProperties]

def insertSorted (e : String × NodeId) : List (String × NodeId) → List (String × NodeId)
  | [] => [e]
  | x :: xs => if e.1 ≤ x.1 then e :: x :: xs else x :: insertSorted e xs

/-- `slices.Sorted(maps.Keys(m))` carrying the values -/
def sortByKey (kvs : List (String × NodeId)) : List (String × NodeId) := kvs.foldr insertSorted []

/-- schema.go everyChild: the immediate children in traversal order (maps by sorted key).
    Includes nil children of slices and maps (as ids without a node), not nil single fields. -/
def Node.children (n : Node) : List NodeId :=
  n.childFields.flatMap fun f =>
    match f with
    | .one _ c => c.toList
    | .many _ cs => cs.getD []
    | .keyed _ cs => (sortByKey (cs.getD [])).map (·.2)

end JSV
