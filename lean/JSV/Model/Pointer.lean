/-
  Model of json_pointer.go: escape / unescape (strings.NewReplacer semantics over the regenerated
  argument lists), parseJSONPointer, dereferenceJSONPointer over the store.
-/
import JSV.Model.Schema
import JSV.Generated.Facts
namespace JSV
namespace Pointer

abbrev Cs := List Char

/-- pairs (old, new) from a NewReplacer argument list -/
def pairsOf : List String → List (Cs × Cs)
  | a :: b :: rest => (a.toList, b.toList) :: pairsOf rest
  | _ => []

/-- the first pair (argument order) whose `old` is a prefix of the input -/
def firstMatch : List (Cs × Cs) → Cs → Option (Cs × Cs)
  | [], _ => none
  | (o, n) :: rest, s => if !o.isEmpty && o.isPrefixOf s then some (o, n) else firstMatch rest s

/-- strings.Replacer.Replace for non-empty old strings: leftmost match, earlier pair wins.
    `fuel` bounds the number of steps (input length suffices). -/
def replaceAux (pairs : List (Cs × Cs)) : Nat → Cs → Cs
  | 0, s => s
  | _, [] => []
  | fuel + 1, c :: rest =>
    match firstMatch pairs (c :: rest) with
    | some (o, n) => n ++ replaceAux pairs fuel ((c :: rest).drop o.length)
    | none => c :: replaceAux pairs fuel rest

def replaceAll (pairs : List (Cs × Cs)) (s : Cs) : Cs := replaceAux pairs (s.length + 1) s

def escapePairs : List (Cs × Cs) := pairsOf Generated.jsonPointerEscaper
def unescapePairs : List (Cs × Cs) := pairsOf Generated.jsonPointerUnescaper

def escapeSegment (s : String) : String := String.ofList (replaceAll escapePairs s.toList)
def unescapeSegment (s : String) : String := String.ofList (replaceAll unescapePairs s.toList)

def splitOn (c : Char) (s : Cs) : List Cs :=
  let r := s.foldr (fun x (st : Cs × List Cs) => if x == c then ([], st.1 :: st.2) else (x :: st.1, st.2)) ([], [])
  r.1 :: r.2

/-- parseJSONPointer -/
def parse (ptr : String) : Res (List String) :=
  match ptr.toList with
  | [] => .ok []
  | '/' :: rest =>
    let segs := (splitOn '/' rest).map String.ofList
    .ok (if ptr.toList.contains '~' then segs.map unescapeSegment else segs)
  | _ => .err

/-- render a list of segments as a pointer (the inverse used in theorems and by generators) -/
def render (segs : List String) : String :=
  String.join (segs.map fun s => "/" ++ escapeSegment s)

/-- what the walk of dereferenceJSONPointer currently stands on -/
inductive Cursor where
  | node (id : NodeId)                          -- a *Schema (possibly nil: no node in the store)
  | nodes (ids : List NodeId)                   -- a []*Schema
  | nodeMap (kvs : List (String × NodeId))      -- a map[string]*Schema
  | dead                                        -- any non-schema value: every continuation is an error

/-- lookupSchemaField: the field named by a JSON keyword. `none` = no such field (invalid Value). -/
def lookupField (n : Node) (name : String) : Option Cursor :=
  if name == "type" then some .dead
  else if name == "items" then
    match n.items with
    | some c => some (.node c)
    | none => some (.nodes (n.itemsArray.getD []))
  else if name == "dependencies" then some (.nodeMap (n.dependencySchemas.getD []))
  else
    match n.childFields.find? (fun f => match f with
        | .one j _ => j == name | .many j _ => j == name | .keyed j _ => j == name) with
    | some (.one _ (some c)) => some (.node c)
    | some (.one _ none) => some (.node 1000000000)   -- nil *Schema field: a pointer without a node
    | some (.many _ cs) => some (.nodes (cs.getD []))
    | some (.keyed _ cs) => some (.nodeMap (cs.getD []))
    | none =>
      -- fields of other types that have a JSON name are reachable but never lead to a schema
      if (Generated.schemaFields.any fun f => f.2.2.1 == name) then some .dead else none

def allDigits (s : Cs) : Bool := !s.isEmpty && s.all fun c => '0' ≤ c && c ≤ '9'

/-- strconv.Atoi: optional sign, decimal digits (no overflow in the modelled range) -/
def atoi (s : Cs) : Option Int :=
  match s with
  | '+' :: r => if allDigits r then some (r.foldl (fun a c => a * 10 + (c.toNat - '0'.toNat)) 0 : Nat) else none
  | '-' :: r => if allDigits r then some (-((r.foldl (fun a c => a * 10 + (c.toNat - '0'.toNat)) 0 : Nat) : Int)) else none
  | r => if allDigits r then some (r.foldl (fun a c => a * 10 + (c.toNat - '0'.toNat)) 0 : Nat) else none

/-- the array-index rule of the Go code (strict = repaired code: digits only, RFC 6901) -/
def arrayIndex (strict : Bool) (seg : String) (len : Nat) : Option Nat :=
  let cs := seg.toList
  if seg == "-" then none
  else if cs.length > 1 && cs.head? == some '0' then none
  else if strict && !allDigits cs then none
  else match atoi cs with
    | some n => if 0 ≤ n ∧ n < (len : Int) then some n.toNat else none
    | none => none

def step (st : Store) (strict : Bool) (cur : Cursor) (seg : String) : Res Cursor :=
  match cur with
  | .node id =>
    match st.get? id with
    | none => .err     -- navigated to nil reference
    | some n =>
      match lookupField n seg with
      | some c => .ok c
      | none => .err   -- no schema field
  | .nodes ids =>
    match arrayIndex strict seg ids.length with
    | some i => match ids[i]? with
      | some c => .ok (.node c)
      | none => .err
    | none => .err
  | .nodeMap kvs =>
    match Json.lookup seg kvs with
    | some c => .ok (.node c)
    | none => .err
  | .dead => .err

def walk (st : Store) (strict : Bool) : Cursor → List String → Res Cursor
  | cur, [] => .ok cur
  | cur, seg :: rest => Res.bind (step st strict cur seg) fun c => walk st strict c rest

/-- dereferenceJSONPointer(s, sptr).  `nilIsError` = the repaired behaviour: a nil *Schema at the
    end of the walk is not a schema location. -/
def dereference (st : Store) (strict nilIsError : Bool) (root : NodeId) (sptr : String) : Res NodeId :=
  Res.bind (parse sptr) fun segs =>
    Res.bind (walk st strict (.node root) segs) fun cur =>
      match cur with
      | .node id => if nilIsError && (st.get? id).isNone then .err else .ok id
      | _ => .err

end Pointer
end JSV
