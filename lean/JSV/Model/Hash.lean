/-
  Model of util.go `hashValue`: the byte stream written into the maphash.Hash.
  The seeded hash itself (hash/maphash) is an arbitrary function of this byte stream.
-/
import JSV.Model.Equal
namespace JSV
namespace Go
open GoVal

/-- big-endian bytes of a natural number, minimal length ([] for 0): big.Int.Bytes -/
def natBytesAux : Nat → Nat → List UInt8 → List UInt8
  | 0, _, acc => acc
  | fuel + 1, n, acc => if n = 0 then acc else natBytesAux fuel (n / 256) (UInt8.ofNat (n % 256) :: acc)

def natBytes (n : Nat) : List UInt8 := natBytesAux (n + 1) n []

/-- binary.BigEndian.PutUint64 -/
def be64 (n : Nat) : List UInt8 :=
  [56, 48, 40, 32, 24, 16, 8, 0].map fun s => UInt8.ofNat ((n >>> s) % 256)

/-- `writeUint(uint64(r.Sign()+1)); h.Write(r.Num().Bytes()); h.Write(r.Denom().Bytes())` -/
def hashNum (q : Rat) : List UInt8 :=
  let sign : Nat := if q.num < 0 then 0 else if q.num = 0 then 1 else 2
  be64 sign ++ natBytes q.num.natAbs ++ natBytes q.den

def insertEntry {α : Type} (e : String × α) : List (String × α) → List (String × α)
  | [] => [e]
  | x :: xs => if e.1 ≤ x.1 then e :: x :: xs else x :: insertEntry e xs

/-- `slices.SortFunc(keys, cmp.Compare)` on the map's keys, carrying the values along -/
def sortEntries {α : Type} (kvs : List (String × α)) : List (String × α) :=
  kvs.foldr insertEntry []

/-- `write(k); write(v.MapIndex(k))` for the sorted keys -/
def flattenEntries : List (String × List UInt8) → List UInt8
  | [] => []
  | (k, a) :: rest => k.toUTF8.toList ++ a ++ flattenEntries rest

mutual
  def hashEnc : GoVal → Res (List UInt8)
    | .invalid => .ok [0]
    | .bool b => .ok [if b then 1 else 0]
    | .int v => .ok (hashNum (v : Rat))
    | .uint v => .ok (hashNum ((v : Int) : Rat))
    | .float v => .ok (hashNum v)
    | .jnum (some q) _ => .ok (hashNum q)
    | .jnum none t => .ok t.toUTF8.toList
    | .str s => .ok s.toUTF8.toList
    | .list xs => Res.bind (hashList xs) fun bs => .ok (be64 xs.length ++ bs)
    | .map kvs => Res.bind (hashEntries kvs) fun es => .ok (be64 kvs.length ++ flattenEntries (sortEntries es))
    | .ptr v => hashEnc v
    | .iface v => hashEnc v
    | .other .struct => .ok []
    | .other _ => .panic
  def hashList : List GoVal → Res (List UInt8)
    | [] => .ok []
    | x :: xs => Res.bind (hashEnc x) fun a => Res.bind (hashList xs) fun b => .ok (a ++ b)
  /-- the bytes of every value, keyed; sorted by key afterwards (the Go code sorts the keys first and
      hashes the values in that order: same stream) -/
  def hashEntries : List (String × GoVal) → Res (List (String × List UInt8))
    | [] => .ok []
    | (k, v) :: rest =>
      Res.bind (hashEnc v) fun a => Res.bind (hashEntries rest) fun b => .ok ((k, a) :: b)
end

end Go
end JSV
