/-
  Model of ApplyDefaults / applyDefaults / schemaHasDefaultsInProperties (validate.go:697-802) on
  instances decoded into `any` (objects are map[string]any), and of validateDefaults (validate.go:50-72).
-/
import JSV.Model.Validate
import JSV.Model.Guarded
namespace JSV
namespace Go

/-- schemaHasDefaultsInProperties (defaults on required properties do not count: they are never applied) -/
def hasDefaultsFuel (st : Store) : Nat → NodeId → Bool
  | 0, _ => false
  | fuel + 1, id =>
    match st.get? id with
    | none => false
    | some n => n.default.isSome ||
        ((n.properties.getD []).any fun (p, c) => !(n.required.getD []).contains p && hasDefaultsFuel st fuel c)

def hasDefaults (st : Store) (id : NodeId) : Bool := hasDefaultsFuel st (st.size + 1) id

/-- SetMapIndex on an association list: replace in place or append -/
def setKey (k : String) (v : Json) : List (String × Json) → List (String × Json)
  | [] => [(k, v)]
  | (k', v') :: rest => if k' = k then (k, v) :: rest else (k', v') :: setKey k v rest

abbrev DRec := NodeId → Json → Res Json

/-- the loop over schema.Properties of one applyDefaults call on an object -/
def defaultsLoop (st : Store) (rec : DRec) (required : List String) :
    List (String × NodeId) → List (String × Json) → Res (List (String × Json))
  | [], kvs => .ok kvs
  | (prop, sub) :: rest, kvs =>
    if required.contains prop then defaultsLoop st rec required rest kvs
    else
      match st.get? sub with
      | none => .panic                           -- nil subschema: subschema.Default dereferences it
      | some sn =>
        match Json.lookup prop kvs, sn.default with
        | none, some d =>
          -- the default is decoded, completed recursively, then stored
          Res.bind (rec sub d) fun v => defaultsLoop st rec required rest (setKey prop v kvs)
        | some cur, _ =>
          Res.bind (rec sub cur) fun v => defaultsLoop st rec required rest (setKey prop v kvs)
        | none, none =>
          if hasDefaults st sub then
            Res.bind (rec sub (.obj [])) fun v => defaultsLoop st rec required rest (setKey prop v kvs)
          else defaultsLoop st rec required rest kvs

def applyDefaultsStep (env : VEnv) (rec : DRec) (id : NodeId) (inst : Json) : Res Json :=
  match env.st.get? id with
  | none => .panic
  | some n =>
    match env.info? id with
    | none => .panic                             -- schemaInfo.isRequired on a nil info (also schemaString in the deferred wrapf)
    | some _ =>
      match inst with
      | .obj kvs =>
        Res.bind (defaultsLoop env.st rec (n.required.getD []) (n.properties.getD []) kvs) fun kvs' => .ok (.obj kvs')
      | other => .ok other

def applyDefaultsFuel (env : VEnv) : Nat → DRec
  | 0 => fun _ _ => .fuel
  | fuel + 1 => applyDefaultsStep env (applyDefaultsFuel env fuel)

/-- (*Resolved).ApplyDefaults(&instance) -/
def applyDefaults (env : VEnv) (root : NodeId) (inst : Json) : Res Json :=
  applyDefaultsFuel env (inst.size + env.st.size + 2) root inst

/-- validateDefaults: every schema of the tree; refuses $dynamicRef (2020-12); validates each default against its schema -/
def validateDefaultsLoop (env : VEnv) (fuel : Nat) : List NodeId → Res Unit
  | [] => .ok ()
  | id :: rest =>
    match env.st.get? id with
    | none => .panic
    | some n =>
      if n.dynamicRef != "" && env.draft == .d2020 then .err      -- draft-07: an unknown keyword, ignored
      else
        match n.default with
        | some d =>
          Res.bind (validateFuel env fuel [] (GoVal.ofJson d) id) fun _ => validateDefaultsLoop env fuel rest
        | none => validateDefaultsLoop env fuel rest

def validateDefaults (env : VEnv) (supported : List String) (fuel : Nat) (root : NodeId) : Res Unit :=
  match env.st.get? root with
  | none => .panic
  | some rn =>
    if !supported.contains rn.schema then .err
    else validateDefaultsLoop env fuel (allNodes env.st (env.st.size + 2) [root])

end Go
end JSV
