/-
  "recursion only through instance-descending keywords": the in-place reference graph of a
  resolved schema (edges = the subschema applications that keep the instance location:
  $ref, $dynamicRef, allOf, anyOf, oneOf, not, if/then/else, dependentSchemas / schema-form
  dependencies) has no cycle.  Decidable; the correspondence runs only send guarded universes to the
  real code (an unguarded one overflows the Go stack, which the properties exclude).
-/
import JSV.Model.Validate
namespace JSV
namespace Go

/-- every schema that declares $dynamicAnchor `name` in some resource -/
def dynAnchorTargets (infos : List (NodeId × Info)) (name : String) : List NodeId :=
  infos.flatMap fun (_, i) => i.anchors.filterMap fun (a, ai) => if a == name && ai.dynamic then some ai.schema else none

/-- the schemas `validate` may call itself on with the same instance -/
def inPlaceEdges (env : VEnv) (s : NodeId) : List NodeId :=
  match env.st.get? s with
  | none => []
  | some n =>
    let info := env.info? s
    let refE := if n.ref != "" then ((info.bind (·.resolvedRef)).toList) else []
    let dynE := if n.dynamicRef != "" then
        ((info.bind (·.resolvedDynamicRef)).toList) ++
        (match info with
         | some i => if i.dynamicRefAnchor != "" then dynAnchorTargets env.infos i.dynamicRefAnchor else []
         | none => [])
      else []
    refE ++ dynE ++ (n.allOf.getD []) ++ (n.anyOf.getD []) ++ (n.oneOf.getD []) ++ n.not.toList ++
      n.if_.toList ++ n.then_.toList ++ n.else_.toList ++
      ((n.dependentSchemas.getD []).map (·.2)) ++ ((n.dependencySchemas.getD []).map (·.2))

/-- nodes reachable in ≥ 1 in-place step, by bounded breadth-first search -/
def reachFrom (env : VEnv) : Nat → List NodeId → List NodeId → List NodeId
  | 0, _, seen => seen
  | fuel + 1, frontier, seen =>
    let next := (frontier.flatMap (inPlaceEdges env)).eraseDups.filter fun x => !seen.contains x
    if next.isEmpty then seen else reachFrom env fuel next (seen ++ next)

/-- no schema reaches itself in place -/
def guarded (env : VEnv) : Bool :=
  (List.range env.st.size).all fun s =>
    !(reachFrom env (env.st.size + 1) [s] []).contains s

/-! ### the rank certificate

`guarded` searches for a cycle; `ranked` checks a *certificate* of acyclicity instead: a function
`rankOf env : NodeId → Nat` that strictly decreases along every in-place edge.  The function is
computed (longest-path relaxation), but `ranked env = true` IS the statement that it decreases, so
nothing has to be proved about the computation.  JSV/Proofs/Defined.lean derives from it that the
Spec (hence the evaluator) is defined with fuel `(depth of the instance + 1) * (maxRank env + 1)`.
The certificate is complete: under `closed`, `guarded env = ranked env` (JSV/Proofs/DefinedGuarded.lean,
`C01.guarded_iff_ranked`). -/

/-- the schemas `validate` may call itself on with a CHILD of the instance (array items, member
    values, property names): the instance-descending applicators of both drafts -/
def descEdges (n : Node) : List NodeId :=
  (n.prefixItems.getD []) ++ n.items.toList ++ (n.itemsArray.getD []) ++ n.additionalItems.toList ++
    n.contains.toList ++ ((n.properties.getD []).map (·.2)) ++ ((n.patternProperties.getD []).map (·.2)) ++
    n.additionalProperties.toList ++ n.propertyNames.toList ++ n.unevaluatedItems.toList ++
    n.unevaluatedProperties.toList

/-- the in-place successors of every schema of the store, computed once -/
def inPlaceTable (env : VEnv) : List (List NodeId) := (List.range env.st.size).map (inPlaceEdges env)

/-- one round of longest-path relaxation: rank s := max over the edges s → t of (rank t + 1) -/
def relaxRanks (edges : List (List NodeId)) (r : Array Nat) : Array Nat :=
  (edges.map fun ts => ts.foldl (fun m t => max m (r.getD t 0 + 1)) 0).toArray

def iterRanks (edges : List (List NodeId)) : Nat → Array Nat → Array Nat
  | 0, r => r
  | k + 1, r => iterRanks edges k (relaxRanks edges r)

/-- `env.st.size + 1` rounds from the everywhere-0 table: on an acyclic graph the table is then the length
    of the longest in-place path from each schema -/
def rankTable (env : VEnv) : Array Nat := iterRanks (inPlaceTable env) (env.st.size + 1) #[]

def rankOf (env : VEnv) (s : NodeId) : Nat := (rankTable env).getD s 0

/-- the largest rank of the table -/
def maxRank (env : VEnv) : Nat := (rankTable env).toList.foldl max 0

/-- `r` strictly decreases along every in-place edge -/
def rankedBy (env : VEnv) (r : Array Nat) : Bool :=
  (List.range env.st.size).all fun s => (inPlaceEdges env s).all fun t => decide (r.getD t 0 < r.getD s 0)

/-- the rank table is a certificate that in-place recursion is well founded
    (`∀ s < size, ∀ t ∈ inPlaceEdges env s, rankOf env t < rankOf env s`, see `Refine.ranked_spec`) -/
def ranked (env : VEnv) : Bool := rankedBy env (rankTable env)

/-- the tables the evaluator dereferences are complete: every `$ref` / (under 2020-12: under draft-07 it is an unknown
    keyword, which Resolve leaves unresolved) `$dynamicRef` has a recorded target, and
    every schema a keyword applies (in place or to a child of the instance) is a node of the store -/
def closed (env : VEnv) : Bool :=
  (List.range env.st.size).all fun s =>
    match env.st.get? s with
    | none => true
    | some n =>
      (n.ref == "" || ((env.info? s).bind (·.resolvedRef)).isSome) &&
      (n.dynamicRef == "" || env.draft != .d2020 || ((env.info? s).bind (·.resolvedDynamicRef)).isSome) &&
      (inPlaceEdges env s ++ descEdges n).all fun t => decide (t < env.st.size)

end Go

namespace Json
mutual
  /-- nesting depth: scalars 0, an array / object one more than its deepest element / member value -/
  def depth : Json → Nat
    | .arr xs => 1 + depthList xs
    | .obj kvs => 1 + depthObj kvs
    | _ => 0
  def depthList : List Json → Nat
    | [] => 0
    | x :: xs => max (depth x) (depthList xs)
  def depthObj : List (String × Json) → Nat
    | [] => 0
    | (_, v) :: rest => max (depth v) (depthObj rest)
end
end Json
end JSV
