/-
  "recursion only through instance-descending keywords": the in-place reference graph of a
  resolved schema (edges = the subschema applications that keep the instance location:
  $ref, $dynamicRef, allOf, anyOf, oneOf, not, if/then/else, dependentSchemas / schema-form
  dependencies) has no cycle.  Decidable; the correspondence runs only send guarded universes to the
  real code (an unguarded one overflows the Go stack, which the properties exclude).
-/
import JSV.Model.Validate
namespace JSV
namespace Go

/-- every schema that declares $dynamicAnchor `name` in some resource -/
def dynAnchorTargets (infos : List (NodeId × Info)) (name : String) : List NodeId :=
  infos.flatMap fun (_, i) => i.anchors.filterMap fun (a, ai) => if a == name && ai.dynamic then some ai.schema else none

/-- the schemas `validate` may call itself on with the same instance -/
def inPlaceEdges (env : VEnv) (s : NodeId) : List NodeId :=
  match env.st.get? s with
  | none => []
  | some n =>
    let info := env.info? s
    let refE := if n.ref != "" then ((info.bind (·.resolvedRef)).toList) else []
    let dynE := if n.dynamicRef != "" then
        ((info.bind (·.resolvedDynamicRef)).toList) ++
        (match info with
         | some i => if i.dynamicRefAnchor != "" then dynAnchorTargets env.infos i.dynamicRefAnchor else []
         | none => [])
      else []
    refE ++ dynE ++ (n.allOf.getD []) ++ (n.anyOf.getD []) ++ (n.oneOf.getD []) ++ n.not.toList ++
      n.if_.toList ++ n.then_.toList ++ n.else_.toList ++
      ((n.dependentSchemas.getD []).map (·.2)) ++ ((n.dependencySchemas.getD []).map (·.2))

/-- nodes reachable in ≥ 1 in-place step, by bounded breadth-first search -/
def reachFrom (env : VEnv) : Nat → List NodeId → List NodeId → List NodeId
  | 0, _, seen => seen
  | fuel + 1, frontier, seen =>
    let next := (frontier.flatMap (inPlaceEdges env)).eraseDups.filter fun x => !seen.contains x
    if next.isEmpty then seen else reachFrom env fuel next (seen ++ next)

/-- no schema reaches itself in place -/
def guarded (env : VEnv) : Bool :=
  (List.range env.st.size).all fun s =>
    !(reachFrom env (env.st.size + 1) [s] []).contains s

end Go
end JSV
