/-
  Model of the part of net/url the package uses: Parse, (*URL).ResolveReference, (*URL).String,
  IsAbs, the Fragment field.  A port of the Go code for URLs without userinfo.
  Strings are handled as `List Char`.
-/
import JSV.Basic.Res
namespace JSV
namespace Uri

structure Url where
  scheme : String := ""
  opq : String := ""
  host : String := ""
  path : String := ""       -- decoded
  rawPath : String := ""    -- the original encoding when it is not the default one
  rawQuery : String := ""
  forceQuery : Bool := false
  omitHost : Bool := false  -- set by Parse for "scheme:/path" (no authority): String() then writes no "//"
  fragment : String := ""   -- decoded
  rawFragment : String := ""
  deriving Repr, DecidableEq, Inhabited

abbrev Cs := List Char

def isAlpha (c : Char) : Bool := ('a' ≤ c && c ≤ 'z') || ('A' ≤ c && c ≤ 'Z')
def isDigit (c : Char) : Bool := '0' ≤ c && c ≤ '9'

def hexVal (c : Char) : Option Nat :=
  if isDigit c then some (c.toNat - '0'.toNat)
  else if 'a' ≤ c && c ≤ 'f' then some (c.toNat - 'a'.toNat + 10)
  else if 'A' ≤ c && c ≤ 'F' then some (c.toNat - 'A'.toNat + 10)
  else none

/-- strings.Cut on a character -/
def cut (c : Char) (s : Cs) : Cs × Cs × Bool :=
  match s.span (· != c) with
  | (a, []) => (a, [], false)
  | (a, _ :: b) => (a, b, true)

/-- strings.LastIndex(s, "/") as a split: (s[:i+1], s[i+1:]) ; none if no slash -/
def cutLast (c : Char) (s : Cs) : Option (Cs × Cs) :=
  let r := s.reverse
  match r.span (· != c) with
  | (_, []) => none
  | (b, rest) => some (rest.reverse, b.reverse)

inductive Mode | path | fragment | host
  deriving DecidableEq

/-- net/url shouldEscape for the modes used here -/
def shouldEscape (c : Char) (m : Mode) : Bool :=
  if isAlpha c || isDigit c then false
  else if m = .host && "!$&'()*+,;=:[]<>\"".toList.contains c then false
  else if "-_.~".toList.contains c then false
  else if "$&+,/:;=?@".toList.contains c then
    match m with
    | .path => c == '?'
    | .fragment => false
    | .host => true
  else if m = .fragment && "!()*".toList.contains c then false
  else true

def utf8Decode (bs : List UInt8) : Option String :=
  String.fromUTF8? (ByteArray.mk bs.toArray)

/-- net/url unescape: %XX decoding with validation.  `none` = EscapeError. -/
def unescapeBytes : Cs → Option (List UInt8)
  | [] => some []
  | '%' :: a :: b :: rest =>
    match hexVal a, hexVal b, unescapeBytes rest with
    | some x, some y, some r => some (UInt8.ofNat (x * 16 + y) :: r)
    | _, _, _ => none
  | '%' :: _ => none
  | c :: rest =>
    match unescapeBytes rest with
    | some r => some ((String.singleton c).toUTF8.toList ++ r)
    | none => none

def unescape (s : Cs) : Option String :=
  match unescapeBytes s with
  | some bs => utf8Decode bs
  | none => none

def hexDigit (n : Nat) : Char := "0123456789ABCDEF".toList.getD n '0'

def escape (s : String) (m : Mode) : String :=
  String.ofList (s.toList.flatMap fun c =>
    if shouldEscape c m then
      (String.singleton c).toUTF8.toList.flatMap fun b => ['%', hexDigit (b.toNat / 16), hexDigit (b.toNat % 16)]
    else [c])

/-- validEncoded: the raw form only contains characters that need no escaping, or %, etc.
    (simplified: we keep rawPath only when it differs from the default escaping and decodes) -/
def setPath (u : Url) (p : Cs) : Option Url :=
  match unescape p with
  | none => none
  | some path =>
    let esc := escape path .path
    some { u with path := path, rawPath := if esc == String.ofList p then "" else String.ofList p }

def setFragment (u : Url) (f : Cs) : Option Url :=
  match unescape f with
  | none => none
  | some frag =>
    let esc := escape frag .fragment
    some { u with fragment := frag, rawFragment := if esc == String.ofList f then "" else String.ofList f }

/-- net/url validEncoded -/
def validEncoded (s : String) (m : Mode) : Bool :=
  s.toList.all fun c =>
    "!$&'()*+,;=:@[]%".toList.contains c || (c.toNat < 128 && !shouldEscape c m)

def escapedPath (u : Url) : String :=
  if u.rawPath != "" && validEncoded u.rawPath .path then u.rawPath else escape u.path .path
def escapedFragment (u : Url) : String :=
  if u.rawFragment != "" && validEncoded u.rawFragment .fragment then u.rawFragment else escape u.fragment .fragment

/-- getScheme -/
def getSchemeAux : Nat → Cs → Cs → Res (Cs × Cs)
  | _, _, [] => .ok ([], [])     -- handled by caller: no scheme
  | i, acc, c :: rest =>
    if isAlpha c then getSchemeAux (i + 1) (c :: acc) rest
    else if isDigit c || c == '+' || c == '-' || c == '.' then
      if i == 0 then .ok ([], []) else getSchemeAux (i + 1) (c :: acc) rest
    else if c == ':' then
      if i == 0 then .err else .ok (acc.reverse, rest)
    else .ok ([], [])

/-- returns (scheme, rest); scheme = [] when there is none (rest = whole input) -/
def getScheme (s : Cs) : Res (Cs × Cs) :=
  match getSchemeAux 0 [] s with
  | .ok ([], _) => .ok ([], s)
  | r => r

def hasCTL (s : Cs) : Bool := s.any fun c => c.toNat < 0x20 || c.toNat == 0x7f

/-- net/url validOptionalPort: "" or ":" followed by digits -/
def validOptionalPort (p : Cs) : Bool :=
  p.isEmpty || (p.head? == some ':' && (p.drop 1).all isDigit)

/-- the %XY escapes net/url's unescape accepts in host mode: valid hex, and either %25 or a byte >= 0x80 -/
def hostEscapesOk : Cs → Bool
  | [] => true
  | '%' :: a :: b :: rest =>
    match hexVal a, hexVal b with
    | some x, some _ => (x ≥ 8 || (a == '2' && b == '5')) && hostEscapesOk rest
    | _, _ => false
  | '%' :: _ => false
  | _ :: rest => hostEscapesOk rest

/-- net/url parseHost (validation part): a bracketed literal needs its `]` and a valid optional port after it, otherwise
    whatever follows the last colon must be a valid port; every ASCII character must be one that needs no escaping in a host. -/
def validHost (h : Cs) : Bool :=
  (if h.head? == some '[' then
     match cutLast ']' h with
     | none => false
     | some (_, after) => validOptionalPort after
   else
     match cutLast ':' h with
     | none => true
     | some (_, after) => validOptionalPort (':' :: after)) &&
  h.all (fun c => c == '%' || c.toNat ≥ 0x80 || !shouldEscape c .host) && hostEscapesOk h

def isPrefix (p s : Cs) : Bool := p.isPrefixOf s

/-- net/url parse (viaRequest = false) on the part before '#' -/
def parseNoFrag (raw : Cs) : Res Url :=
  if hasCTL raw then .err else
  if raw == ['*'] then .ok { path := "*" } else
  Res.bind (getScheme raw) fun (sch, rest) =>
    let u : Url := { scheme := (String.ofList sch).toLower }
    let nq := rest.count '?'
    let (rest, u) :=
      if rest.getLast? == some '?' && nq == 1 then (rest.dropLast, { u with forceQuery := true })
      else
        let (a, b, _) := cut '?' rest
        (a, { u with rawQuery := String.ofList b })
    if !isPrefix ['/'] rest && u.scheme != "" then
      .ok { u with opq := String.ofList rest }
    else if !isPrefix ['/'] rest && ((cut '/' rest).1.contains ':') then
      .err   -- first path segment in URL cannot contain colon
    else if isPrefix ['/', '/'] rest && (u.scheme != "" || !isPrefix ['/', '/', '/'] rest) then
      let auth := rest.drop 2
      let (host, p) := match auth.span (· != '/') with
        | (h, p) => (h, p)
      if host.contains '@' then .err   -- userinfo: outside the modelled subset
      else if !validHost host then .err
      else
        match unescape host with
        | none => .err
        | some h =>
          match setPath { u with host := h } p with
          | some u' => .ok u'
          | none => .err
    else
      let u := if u.scheme != "" && isPrefix ['/'] rest then { u with omitHost := true } else u
      match setPath u rest with
      | some u' => .ok u'
      | none => .err

/-- url.Parse -/
def parse (raw : String) : Res Url :=
  let (u, frag, _) := cut '#' raw.toList
  Res.bind (parseNoFrag u) fun url =>
    if frag.isEmpty then .ok url
    else match setFragment url frag with
      | some url' => .ok url'
      | none => .err

/-- one iteration of the loop of net/url resolvePath; state = (dst without its leading '/', first) -/
def resolveStep (st : Cs × Bool) (elem : Cs) : Cs × Bool :=
  let (str, first) := st
  if elem == ['.'] then (str, false)
  else if elem == ['.', '.'] then
    match cutLast '/' str with
    | none => ([], true)
    | some (pre, _) => (pre.dropLast, first)
  else ((if first then str else str ++ ['/']) ++ elem, false)

/-- strings.Split(s, "/") -/
def splitSlash (s : Cs) : List Cs :=
  let r := s.foldr (fun c (st : Cs × List Cs) => if c == '/' then ([], st.1 :: st.2) else (c :: st.1, st.2)) ([], [])
  r.1 :: r.2

def joinSlash : List Cs → Cs
  | [] => []
  | [a] => a
  | a :: rest => a ++ '/' :: joinSlash rest

/-- net/url resolvePath(base, ref) on escaped paths -/
def resolvePath (base ref : Cs) : Cs :=
  let full : Cs :=
    if ref.isEmpty then base
    else if ref.head? != some '/' then
      match cutLast '/' base with
      | some (pre, _) => pre ++ ref
      | none => ref
    else ref
  if full.isEmpty then [] else
  let elems := splitSlash full
  let (str, _) := elems.foldl resolveStep ([], true)
  let last := elems.getLast?.getD []
  let r := '/' :: str
  let r := if last == ['.'] || last == ['.', '.'] then r ++ ['/'] else r
  match r with
  | '/' :: '/' :: rest => '/' :: rest
  | r => r

/-- (*URL).ResolveReference -/
def resolveReference (u ref : Url) : Url :=
  let url : Url := { ref with scheme := if ref.scheme == "" then u.scheme else ref.scheme }
  if ref.scheme != "" || ref.host != "" then
    match setPath url (resolvePath (escapedPath ref).toList []) with
    | some r => r
    | none => url
  else if ref.opq != "" then { url with host := "", path := "", rawPath := "" }
  else
    let url :=
      if ref.path == "" && !ref.forceQuery && ref.rawQuery == "" then
        let url := { url with rawQuery := u.rawQuery }
        if ref.fragment == "" then { url with fragment := u.fragment, rawFragment := u.rawFragment } else url
      else url
    if ref.path == "" && u.opq != "" then
      { url with opq := u.opq, host := "", path := "", rawPath := "" }
    else
      let url := { url with host := u.host }
      match setPath url (resolvePath (escapedPath u).toList (escapedPath ref).toList) with
      | some r => r
      | none => url

/-- (*URL).String -/
def toString (u : Url) : String :=
  let s := if u.scheme != "" then u.scheme ++ ":" else ""
  let s :=
    if u.opq != "" then s ++ u.opq
    else
      let s :=
        if u.scheme != "" || u.host != "" then
          if u.omitHost && u.host == "" then s
          else if u.host != "" || u.path != "" then s ++ "//" ++ escape u.host .host else s
        else s
      let p := escapedPath u
      let s := if p != "" && p.toList.head? != some '/' && u.host != "" then s ++ "/" else s
      let s := if s == "" && ((cut '/' p.toList).1.contains ':') then s ++ "./" else s
      s ++ p
  let s := if u.forceQuery || u.rawQuery != "" then s ++ "?" ++ u.rawQuery else s
  if u.fragment != "" then s ++ "#" ++ escapedFragment u else s

def isAbs (u : Url) : Bool := u.scheme != ""

def dropFragment (u : Url) : Url := { u with fragment := "", rawFragment := "" }

end Uri
end JSV
