/-
  Model of (*Schema).UnmarshalJSON (schema.go:380-538) + unmarshalStructWithMap (util.go) on parsed
  JSON: boolean schemas, the type / items / dependencies / const unions, the `integer` helper with
  its int32 window, unknown keys collected into Extra.  Keys are matched exactly, else case-insensitively
  like encoding/json does (`canonKey`, `setMember`): a key that is no keyword but equals one up to letter
  case is decoded into that keyword's field (with its failure modes) AND kept in Extra, because
  unmarshalStructWithMap collects every key that is not *exactly* a JSON name of the struct.  This is known
  finding D4, now behaviour of the model; `isFoldedKey` / `hasFoldedKey` are the decidable class of such
  keys (hypothesis H_D4 of the theorems about unknown keys is `isFoldedKey k = false`).  An exact key and a
  case variant of it in the same object are assigned in document order (encoding/json's merging into an
  existing map / pointer value is not modelled).
-/
import JSV.Model.Schema
namespace JSV
namespace Go

/-- names handled by the wrapper struct or by a tagged Schema field -/
def knownKeys : List String := [
  "$id", "$schema", "$ref", "$comment", "$defs", "definitions", "$anchor", "$dynamicAnchor", "$dynamicRef",
  "$vocabulary", "title", "description", "default", "deprecated", "readOnly", "writeOnly", "examples",
  "enum", "const", "multipleOf", "minimum", "maximum", "exclusiveMinimum", "exclusiveMaximum",
  "minLength", "maxLength", "pattern", "prefixItems", "minItems", "maxItems", "additionalItems",
  "uniqueItems", "contains", "minContains", "maxContains", "unevaluatedItems", "minProperties",
  "maxProperties", "required", "dependentRequired", "properties", "patternProperties",
  "additionalProperties", "propertyNames", "unevaluatedProperties", "allOf", "anyOf", "oneOf", "not",
  "if", "then", "else", "dependentSchemas", "contentEncoding", "contentMediaType", "contentSchema",
  "format", "type", "items", "dependencies"]

/-- Go field names of the wrapper struct and of Schema, which encoding/json also matches
    case-insensitively when a field has json:"-"?  No: "-" fields are never matched.
    Equality up to ASCII letter case, `a.toLower == b.toLower` (`Inv.foldEq_eq_toLower`), written on the character
    lists so that it reduces on literals (`decide`). -/
def foldEq (a b : String) : Bool := a.toList.map Char.toLower == b.toList.map Char.toLower

/-- a key that is not a keyword but that encoding/json would still route to a keyword's field -/
def isFoldedKey (k : String) : Bool := !knownKeys.contains k && knownKeys.any (foldEq k)

def decStr (v : Json) (cur : String) : Res String :=
  match v with
  | .str s => .ok s
  | .null => .ok cur
  | _ => .err

def decBool (v : Json) (cur : Bool) : Res Bool :=
  match v with
  | .bool b => .ok b
  | .null => .ok cur
  | _ => .err

def decFloat (v : Json) : Res (Option Rat) :=
  match v with
  | .num q => .ok (some q)
  | .null => .ok none
  | _ => .err

/-- the `integer` helper: integral value inside the int32 window -/
def decInteger (v : Json) : Res (Option Int) :=
  match v with
  | .num q => if q.den == 1 && (-2147483648 : Int) ≤ q.num && q.num ≤ 2147483647 then .ok (some q.num) else .err
  | .null => .ok none
  | _ => .err

def decStrList (v : Json) : Res (Option (List String)) :=
  match v with
  | .null => .ok none
  | .arr xs =>
    (xs.foldr (fun x acc => Res.bind acc fun l => match x with
        | .str s => .ok (s :: l)
        | .null => .ok ("" :: l)
        | _ => .err) (.ok [])).bind fun l => .ok (some l)
  | _ => .err

def decAnyList (v : Json) : Res (Option (List Json)) :=
  match v with
  | .null => .ok none
  | .arr xs => .ok (some xs)
  | _ => .err

def decBoolMap (v : Json) : Res (Option (List (String × Bool))) :=
  match v with
  | .null => .ok none
  | .obj kvs =>
    (kvs.foldr (fun (kv : String × Json) acc => Res.bind acc fun l => match kv.2 with
        | .bool b => .ok ((kv.1, b) :: l)
        | .null => .ok ((kv.1, false) :: l)
        | _ => .err) (.ok [])).bind fun l => .ok (some l)
  | _ => .err

def decStrListMap (v : Json) : Res (Option (List (String × Option (List String)))) :=
  match v with
  | .null => .ok none
  | .obj kvs =>
    (kvs.foldr (fun (kv : String × Json) acc => Res.bind acc fun l =>
        Res.bind (decStrList kv.2) fun sl => .ok ((kv.1, sl) :: l)) (.ok [])).bind fun l => .ok (some l)
  | _ => .err

def emptyNode : Node := {}

/-- falseSchema(): &Schema{Not: &Schema{}} -/
def allocFalse (st : Store) : NodeId × Store :=
  let (inner, st) := st.alloc emptyNode
  st.alloc { emptyNode with not := some inner }

abbrev URec := Json → Store → Res (NodeId × Store)

/-- a `*Schema` field: null leaves the pointer nil -/
def decSchemaPtr (rec : URec) (v : Json) (st : Store) : Res (Option NodeId × Store) :=
  match v with
  | .null => .ok (none, st)
  | _ => Res.bind (rec v st) fun (id, st) => .ok (some id, st)

def nilId : NodeId := 1000000000

/-- elements of a `[]*Schema`: a null element is a nil pointer -/
def decSchemaElems (rec : URec) : List Json → Store → Res (List NodeId × Store)
  | [], st => .ok ([], st)
  | .null :: rest, st => Res.bind (decSchemaElems rec rest st) fun (ids, st) => .ok (nilId :: ids, st)
  | x :: rest, st =>
    Res.bind (rec x st) fun (id, st) =>
      Res.bind (decSchemaElems rec rest st) fun (ids, st) => .ok (id :: ids, st)

def decSchemaList (rec : URec) (v : Json) (st : Store) : Res (Option (List NodeId) × Store) :=
  match v with
  | .null => .ok (none, st)
  | .arr xs => Res.bind (decSchemaElems rec xs st) fun (ids, st) => .ok (some ids, st)
  | _ => .err

def decSchemaEntries (rec : URec) : List (String × Json) → Store → Res (List (String × NodeId) × Store)
  | [], st => .ok ([], st)
  | (k, .null) :: rest, st =>
    Res.bind (decSchemaEntries rec rest st) fun (es, st) => .ok ((k, nilId) :: es, st)
  | (k, x) :: rest, st =>
    Res.bind (rec x st) fun (id, st) =>
      Res.bind (decSchemaEntries rec rest st) fun (es, st) => .ok ((k, id) :: es, st)

def decSchemaMap (rec : URec) (v : Json) (st : Store) : Res (Option (List (String × NodeId)) × Store) :=
  match v with
  | .null => .ok (none, st)
  | .obj kvs => Res.bind (decSchemaEntries rec kvs st) fun (es, st) => .ok (some es, st)
  | _ => .err

/-- "dependencies": each value is a string array or a schema -/
def decDependencies (rec : URec) : List (String × Json) → Node → Store → Res (Node × Store)
  | [], n, st => .ok (n, st)
  | (k, .arr xs) :: rest, n, st =>
    Res.bind (decStrList (.arr xs)) fun sl =>
      decDependencies rec rest { n with dependencyStrings := some ((n.dependencyStrings.getD []) ++ [(k, sl)]) } st
  | (k, x) :: rest, n, st =>
    Res.bind (rec x st) fun (id, st) =>
      decDependencies rec rest { n with dependencySchemas := some ((n.dependencySchemas.getD []) ++ [(k, id)]) } st

/-- one object member -/
def setField (rec : URec) (n : Node) (st : Store) (k : String) (v : Json) : Res (Node × Store) :=
  let str (upd : String → Node) (cur : String) : Res (Node × Store) := Res.bind (decStr v cur) fun s => .ok (upd s, st)
  let bool (upd : Bool → Node) (cur : Bool) : Res (Node × Store) := Res.bind (decBool v cur) fun b => .ok (upd b, st)
  let flt (upd : Option Rat → Node) : Res (Node × Store) := Res.bind (decFloat v) fun q => .ok (upd q, st)
  let int (upd : Option Int → Node) : Res (Node × Store) := Res.bind (decInteger v) fun q => .ok (upd q, st)
  let sch (upd : Option NodeId → Node) : Res (Node × Store) :=
    Res.bind (decSchemaPtr rec v st) fun (c, st) => .ok (upd c, st)
  let schs (upd : Option (List NodeId) → Node) : Res (Node × Store) :=
    Res.bind (decSchemaList rec v st) fun (c, st) => .ok (upd c, st)
  let schm (upd : Option (List (String × NodeId)) → Node) : Res (Node × Store) :=
    Res.bind (decSchemaMap rec v st) fun (c, st) => .ok (upd c, st)
  match k with
  | "$id" => str (fun s => { n with id := s }) n.id
  | "$schema" => str (fun s => { n with schema := s }) n.schema
  | "$ref" => str (fun s => { n with ref := s }) n.ref
  | "$comment" => str (fun s => { n with comment := s }) n.comment
  | "$defs" => schm fun c => { n with defs := c }
  | "definitions" => schm fun c => { n with definitions := c }
  | "$anchor" => str (fun s => { n with anchor := s }) n.anchor
  | "$dynamicAnchor" => str (fun s => { n with dynamicAnchor := s }) n.dynamicAnchor
  | "$dynamicRef" => str (fun s => { n with dynamicRef := s }) n.dynamicRef
  | "$vocabulary" => Res.bind (decBoolMap v) fun m => .ok ({ n with vocabulary := m }, st)
  | "title" => str (fun s => { n with title := s }) n.title
  | "description" => str (fun s => { n with description := s }) n.description
  | "default" => .ok ({ n with default := some v }, st)
  | "deprecated" => bool (fun b => { n with deprecated := b }) n.deprecated
  | "readOnly" => bool (fun b => { n with readOnly := b }) n.readOnly
  | "writeOnly" => bool (fun b => { n with writeOnly := b }) n.writeOnly
  | "examples" => Res.bind (decAnyList v) fun l => .ok ({ n with examples := l }, st)
  | "enum" => Res.bind (decAnyList v) fun l => .ok ({ n with enum := l }, st)
  | "const" => .ok ({ n with const := some v }, st)
  | "multipleOf" => flt fun q => { n with multipleOf := q }
  | "minimum" => flt fun q => { n with minimum := q }
  | "maximum" => flt fun q => { n with maximum := q }
  | "exclusiveMinimum" => flt fun q => { n with exclusiveMinimum := q }
  | "exclusiveMaximum" => flt fun q => { n with exclusiveMaximum := q }
  | "minLength" => int fun q => { n with minLength := q }
  | "maxLength" => int fun q => { n with maxLength := q }
  | "pattern" => str (fun s => { n with pattern := s }) n.pattern
  | "prefixItems" => schs fun c => { n with prefixItems := c }
  | "minItems" => int fun q => { n with minItems := q }
  | "maxItems" => int fun q => { n with maxItems := q }
  | "additionalItems" => sch fun c => { n with additionalItems := c }
  | "uniqueItems" => bool (fun b => { n with uniqueItems := b }) n.uniqueItems
  | "contains" => sch fun c => { n with contains := c }
  | "minContains" => int fun q => { n with minContains := q }
  | "maxContains" => int fun q => { n with maxContains := q }
  | "unevaluatedItems" => sch fun c => { n with unevaluatedItems := c }
  | "minProperties" => int fun q => { n with minProperties := q }
  | "maxProperties" => int fun q => { n with maxProperties := q }
  | "required" => Res.bind (decStrList v) fun l => .ok ({ n with required := l }, st)
  | "dependentRequired" => Res.bind (decStrListMap v) fun m => .ok ({ n with dependentRequired := m }, st)
  | "properties" => schm fun c => { n with properties := c }
  | "patternProperties" => schm fun c => { n with patternProperties := c }
  | "additionalProperties" => sch fun c => { n with additionalProperties := c }
  | "propertyNames" => sch fun c => { n with propertyNames := c }
  | "unevaluatedProperties" => sch fun c => { n with unevaluatedProperties := c }
  | "allOf" => schs fun c => { n with allOf := c }
  | "anyOf" => schs fun c => { n with anyOf := c }
  | "oneOf" => schs fun c => { n with oneOf := c }
  | "not" => sch fun c => { n with not := c }
  | "if" => sch fun c => { n with if_ := c }
  | "then" => sch fun c => { n with then_ := c }
  | "else" => sch fun c => { n with else_ := c }
  | "dependentSchemas" => schm fun c => { n with dependentSchemas := c }
  | "contentEncoding" => str (fun s => { n with contentEncoding := s }) n.contentEncoding
  | "contentMediaType" => str (fun s => { n with contentMediaType := s }) n.contentMediaType
  | "contentSchema" => sch fun c => { n with contentSchema := c }
  | "format" => str (fun s => { n with format := s }) n.format
  | "type" =>
    match v with
    -- the wrapper struct holds ONE json.RawMessage for "type": whatever was decoded last (an exact key or a case variant of it)
    -- decides between the string form and the array form; the other form stays unset
    | .str s => .ok ({ n with type := s, types := none }, st)
    | .arr _ => Res.bind (decStrList v) fun l => .ok ({ n with types := l, type := "" }, st)
    | _ => .err
  | "items" =>
    match v with
    -- likewise one json.RawMessage for "items": the last spelling decides between schema form and array form
    | .arr xs => Res.bind (decSchemaElems rec xs st) fun (ids, st) => .ok ({ n with itemsArray := some ids, items := none }, st)
    | _ => Res.bind (rec v st) fun (id, st) => .ok ({ n with items := some id, itemsArray := none }, st)
  | "dependencies" =>
    match v with
    | .null => .ok (n, st)
    | .obj kvs => decDependencies rec kvs n st
    | _ => .err
  | _ => .ok ({ n with extra := some ((n.extra.getD []) ++ [(k, v)]) }, st)

/-- the keyword whose struct field encoding/json routes key `k` to: `k` itself when it is a keyword, otherwise the first keyword
    equal to it up to letter case, otherwise `k` (no field: the member only lands in Extra) -/
def canonKey (k : String) : String :=
  if knownKeys.contains k then k else (knownKeys.find? (foldEq k)).getD k

/-- one object member as json.Unmarshal + unmarshalStructWithMap treat it: the value goes to the field of `canonKey k`
    (with that field's failure modes), and a key that is not exactly a JSON name of the struct is also kept in Extra -/
def setMember (rec : URec) (n : Node) (st : Store) (k : String) (v : Json) : Res (Node × Store) :=
  if canonKey k == k then setField rec n st k v
  else Res.bind (setField rec n st (canonKey k) v) fun (n, st) =>
    .ok ({ n with extra := some ((n.extra.getD []) ++ [(k, v)]) }, st)

def setFields (rec : URec) : List (String × Json) → Node → Store → Res (Node × Store)
  | [], n, st => .ok (n, st)
  | (k, v) :: rest, n, st => Res.bind (setMember rec n st k v) fun (n, st) => setFields rec rest n st

/-- one level of UnmarshalJSON (open recursion) -/
def unmarshalStep (rec : URec) (j : Json) (st : Store) : Res (NodeId × Store) :=
  match j with
  | .bool true => .ok (st.alloc emptyNode)
  | .bool false => .ok (allocFalse st)
  | .null => .ok (allocFalse st)          -- json.Unmarshal("null", &b) succeeds with b = false
  | .obj kvs => Res.bind (setFields rec kvs emptyNode st) fun (n, st) => .ok (st.alloc n)
  | _ => .err

def unmarshalFuel : Nat → Json → Store → Res (NodeId × Store)
  | 0 => fun _ _ => .fuel
  | n + 1 => unmarshalStep (unmarshalFuel n)

/-- json.Unmarshal(doc, &schema) on a parsed document -/
def unmarshal (j : Json) (st : Store) : Res (NodeId × Store) := unmarshalFuel (j.size + 1) j st

mutual
  /-- some object of the document has a key that encoding/json would match case-insensitively -/
  def hasFoldedKey : Json → Bool
    | .obj kvs => hasFoldedKeyObj kvs
    | .arr xs => hasFoldedKeyList xs
    | _ => false
  def hasFoldedKeyList : List Json → Bool
    | [] => false
    | x :: xs => hasFoldedKey x || hasFoldedKeyList xs
  def hasFoldedKeyObj : List (String × Json) → Bool
    | [] => false
    | (k, v) :: rest => isFoldedKey k || hasFoldedKey v || hasFoldedKeyObj rest
end

end Go
end JSV
