/-
  Model of the uniqueItems block of validate.go (lines 404-429): bucket by a seeded hash,
  confirm by equalValue.  `hash` is an arbitrary function: every per-call seed is covered.
-/
import JSV.Model.Hash
namespace JSV
namespace Go
open GoVal

/-- `for _, j := range sames { if equalValue(item, instance.Index(j)) { return error } }` -/
def checkSames (x : GoVal) : List (UInt64 × GoVal) → Res Bool
  | [] => .ok false
  | (_, y) :: rest => Res.bind (equalValue x y) fun b => if b then .ok true else checkSames x rest

/-- the loop over the items; `earlier` = the items already entered in `hashes`, in index order -/
def uniqueLoop (hash : GoVal → UInt64) : List GoVal → List (UInt64 × GoVal) → Res Unit
  | [], _ => .ok ()
  | x :: xs, earlier =>
    let hv := hash x
    Res.bind (checkSames x (earlier.filter fun p => p.1 == hv)) fun dup =>
      if dup then .err else uniqueLoop hash xs (earlier ++ [(hv, x)])

def uniqueItems (hash : GoVal → UInt64) (items : List GoVal) : Res Unit :=
  if items.length > 1 then uniqueLoop hash items [] else .ok ()

end Go

namespace Spec
/-- no two elements are equal JSON values -/
def distinct : List Json → Bool
  | [] => true
  | x :: xs => xs.all (fun y => !Json.eqv x y) && distinct xs
end Spec
end JSV
