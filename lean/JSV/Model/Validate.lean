/-
  Model of validate.go `(*state).validate` — one definition per keyword block, in the order of
  the Go code, with the same early exits and the same compressed annotation record
  (annotations.go).  Open recursion: `validateStep rec` contains no recursive call.
-/
import JSV.Model.Resolve
import JSV.Model.Unique
namespace JSV
namespace Go
open GoVal

/-- annotations.go -/
structure Anns where
  allItems : Bool := false
  endIndex : Nat := 0
  evaluatedIndexes : List Nat := []
  allProperties : Bool := false
  evaluatedProperties : List String := []
  deriving Repr, Inhabited

namespace Anns
/-- (*annotations).merge -/
def merge (a b : Anns) : Anns :=
  { allItems := a.allItems || b.allItems
    endIndex := if b.endIndex > a.endIndex then b.endIndex else a.endIndex
    evaluatedIndexes := a.evaluatedIndexes ++ b.evaluatedIndexes
    allProperties := a.allProperties || b.allProperties
    evaluatedProperties := a.evaluatedProperties ++ b.evaluatedProperties }
def noteEndIndex (a : Anns) (e : Nat) : Anns := if e > a.endIndex then { a with endIndex := e } else a
def noteIndex (a : Anns) (i : Nat) : Anns := { a with evaluatedIndexes := a.evaluatedIndexes ++ [i] }
def noteProperties (a : Anns) (ps : List String) : Anns :=
  { a with evaluatedProperties := a.evaluatedProperties ++ ps }
end Anns

structure VEnv where
  st : Store
  draft : Draft
  infos : List (NodeId × Info)
  reMatch : String → String → Bool       -- compiled pattern ↦ MatchString
  hash : GoVal → UInt64                  -- the per-call seeded hash of uniqueItems

def VEnv.info? (env : VEnv) (id : NodeId) : Option Info := lookupNat id env.infos

/-- `st.validate(instance, schema, callerAnns)`; the stack is the caller's -/
abbrev Rec := List NodeId → GoVal → NodeId → Res Anns

/-- `valid := func(s, anns) bool { return st.validate(instance, s, anns) == nil }`:
    merges on success, reports the verdict; panic / fuel propagate. -/
def tryValid (rec : Rec) (stack : List NodeId) (inst : GoVal) (s : NodeId) (anns : Anns) (collect : Bool) :
    Res (Bool × Anns) :=
  match rec stack inst s with
  | .ok a => .ok (true, if collect then anns.merge a else anns)
  | .err => .ok (false, anns)
  | .panic => .panic
  | .fuel => .fuel

/-- `if err := st.validate(instance, s, &anns); err != nil { return err }` -/
def mustValid (rec : Rec) (stack : List NodeId) (inst : GoVal) (s : NodeId) (anns : Anns) : Res Anns :=
  Res.bind (rec stack inst s) fun a => .ok (anns.merge a)

/-- the same without annotation collection (child instance locations) -/
def mustValidChild (rec : Rec) (stack : List NodeId) (inst : GoVal) (s : NodeId) : Res Unit :=
  Res.bind (rec stack inst s) fun _ => .ok ()

/-! ### type, enum, const, numbers, strings -/

def bType (n : Node) (inst : GoVal) : Res Unit :=
  if n.type != "" || n.types.isSome then
    match jsonType inst with
    | none => .err
    | some got =>
      if n.type != "" then
        if got == n.type || (got == "integer" && n.type == "number") then .ok () else .err
      else
        let ts := n.types.getD []
        if ts.contains got || (got == "integer" && ts.contains "number") then .ok () else .err
  else .ok ()

def enumLoop (inst : GoVal) : List Json → Res Bool
  | [] => .ok false
  | e :: rest => Res.bind (equalValue (ofJson e) inst) fun b => if b then .ok true else enumLoop inst rest

def bEnum (n : Node) (inst : GoVal) : Res Unit :=
  match n.enum with
  | none => .ok ()
  | some es => Res.bind (enumLoop inst es) fun ok => if ok then .ok () else .err

def bConst (n : Node) (inst : GoVal) : Res Unit :=
  match n.const with
  | none => .ok ()
  | some c => Res.bind (equalValue (ofJson c) inst) fun ok => if ok then .ok () else .err

/-- multipleOf through exact division (the float quotient of the code is exact on the domain) -/
def multipleOk (q m : Rat) : Bool := m != 0 && (q / m).den == 1

def bNumeric (n : Node) (inst : GoVal) : Res Unit :=
  if n.multipleOf.isSome || n.minimum.isSome || n.maximum.isSome || n.exclusiveMinimum.isSome || n.exclusiveMaximum.isSome then
    match jsonNumber inst with
    | none => .ok ()
    | some q =>
      if (match n.multipleOf with | some m => !multipleOk q m | none => false) then .err
      else if (match n.minimum with | some m => decide (q < m) | none => false) then .err
      else if (match n.maximum with | some m => decide (q > m) | none => false) then .err
      else if (match n.exclusiveMinimum with | some m => decide (q ≤ m) | none => false) then .err
      else if (match n.exclusiveMaximum with | some m => decide (q ≥ m) | none => false) then .err
      else .ok ()
  else .ok ()

/-- the string an instance of string kind holds (json.Number is a number, not a string) -/
def stringOf : GoVal → Option String
  | .str s => some s
  | .jnum none t => some t
  | _ => none

def bString (env : VEnv) (n : Node) (info : Option Info) (inst : GoVal) : Res Unit :=
  match stringOf inst with
  | none => .ok ()
  | some s =>
    if n.minLength.isSome || n.maxLength.isSome || n.pattern != "" then
      let len : Int := s.length
      if (match n.minLength with | some m => decide (len < m) | none => false) then .err
      else if (match n.maxLength with | some m => decide (len > m) | none => false) then .err
      else if n.pattern != "" then
        match info with
        | none => .panic
        | some _ => if env.reMatch n.pattern s then .ok () else .err
      else .ok ()
    else .ok ()

/-! ### $ref, $dynamicRef -/

/-- returns the annotations and whether validation of this schema object is finished (draft-07) -/
def bRef (env : VEnv) (rec : Rec) (stack : List NodeId) (n : Node) (info : Option Info) (inst : GoVal) :
    Res (Anns × Bool) :=
  if n.ref != "" then
    match info with
    | none => .panic
    | some i =>
      match i.resolvedRef with
      | none => .panic                -- nil schema: the callee's prologue dereferences it
      | some t =>
        Res.bind (mustValid rec stack inst t {}) fun anns =>
          if env.draft == .d7 then .ok ({}, true) else .ok (anns, false)
  else .ok ({}, false)

/-- the outermost stack entry whose base resource declares the dynamic anchor -/
def dynLookup (env : VEnv) (anchor : String) : List NodeId → Res (Option NodeId)
  | [] => .ok none
  | s :: rest =>
    match env.info? s with
    | none => .panic
    | some si =>
      match si.base with
      | none => .panic
      | some b =>
        match env.info? b with
        | none => .panic
        | some bi =>
          match Json.lookup anchor bi.anchors with
          | some a => if a.dynamic then .ok (some a.schema) else dynLookup env anchor rest
          | none => dynLookup env anchor rest

/-- `$dynamicRef` is an unknown keyword under draft-07 (`st.rs.draft`), and resolveRefs leaves it unresolved in a
    draft-07 document (a loaded document may declare a draft of its own): in both cases it is ignored.  (The
    record keeps the initial target whichever way the reference behaves: `dynamicRefResolved()` is
    `resolvedDynamicRef.isSome` here.) -/
def bDynamicRef (env : VEnv) (rec : Rec) (stack : List NodeId) (n : Node) (info : Option Info) (inst : GoVal)
    (anns : Anns) : Res Anns :=
  if n.dynamicRef != "" && env.draft == .d2020 then
    match info with
    | none => .panic
    | some i =>
      match i.resolvedDynamicRef with
      | none => .ok anns            -- not resolved: a draft-07 document under a 2020-12 root
      | some initial =>
        if i.dynamicRefAnchor == "" then mustValid rec stack inst initial anns
        else
          Res.bind (dynLookup env i.dynamicRefAnchor stack) fun found =>
            mustValid rec stack inst (found.getD initial) anns
  else .ok anns

/-! ### allOf, anyOf, oneOf, not, if/then/else -/

def allOfLoop (rec : Rec) (stack : List NodeId) (inst : GoVal) : List NodeId → Anns → Res Anns
  | [], anns => .ok anns
  | s :: rest, anns => Res.bind (mustValid rec stack inst s anns) fun anns => allOfLoop rec stack inst rest anns

def bAllOf (rec : Rec) (stack : List NodeId) (n : Node) (inst : GoVal) (anns : Anns) : Res Anns :=
  match n.allOf with
  | none => .ok anns
  | some ss => allOfLoop rec stack inst ss anns

/-- visits every branch; returns the number of failed branches -/
def anyOfLoop (rec : Rec) (stack : List NodeId) (inst : GoVal) : List NodeId → Anns → Nat → Res (Anns × Nat)
  | [], anns, nerr => .ok (anns, nerr)
  | s :: rest, anns, nerr =>
    Res.bind (tryValid rec stack inst s anns true) fun (ok, anns) =>
      anyOfLoop rec stack inst rest anns (if ok then nerr else nerr + 1)

def bAnyOf (rec : Rec) (stack : List NodeId) (n : Node) (inst : GoVal) (anns : Anns) : Res Anns :=
  match n.anyOf with
  | none => .ok anns
  | some ss =>
    Res.bind (anyOfLoop rec stack inst ss anns 0) fun (anns, nerr) =>
      if nerr == ss.length then .err else .ok anns

/-- `found` = a branch already validated; a second one is an error at once -/
def oneOfLoop (rec : Rec) (stack : List NodeId) (inst : GoVal) : List NodeId → Anns → Bool → Res (Anns × Bool)
  | [], anns, found => .ok (anns, found)
  | s :: rest, anns, found =>
    Res.bind (tryValid rec stack inst s anns true) fun (ok, anns) =>
      if ok then (if found then .err else oneOfLoop rec stack inst rest anns true)
      else oneOfLoop rec stack inst rest anns found

def bOneOf (rec : Rec) (stack : List NodeId) (n : Node) (inst : GoVal) (anns : Anns) : Res Anns :=
  match n.oneOf with
  | none => .ok anns
  | some ss =>
    Res.bind (oneOfLoop rec stack inst ss anns false) fun (anns, found) =>
      if found then .ok anns else .err

def bNot (rec : Rec) (stack : List NodeId) (n : Node) (inst : GoVal) (anns : Anns) : Res Anns :=
  match n.not with
  | none => .ok anns
  | some s =>
    Res.bind (tryValid rec stack inst s anns false) fun (ok, _) => if ok then .err else .ok anns

def bIf (rec : Rec) (stack : List NodeId) (n : Node) (inst : GoVal) (anns : Anns) : Res Anns :=
  match n.if_ with
  | none => .ok anns
  | some c =>
    Res.bind (tryValid rec stack inst c anns true) fun (ok, anns) =>
      match (if ok then n.then_ else n.else_) with
      | none => .ok anns
      | some s => mustValid rec stack inst s anns

/-! ### arrays -/

/-- `for i, ischema := range schemas { if i >= len { break }; validate(instance.Index(i), ischema, nil) }` -/
def prefixLoop (rec : Rec) (stack : List NodeId) : List NodeId → List GoVal → Res Unit
  | [], _ => .ok ()
  | _ :: _, [] => .ok ()
  | s :: ss, x :: xs => Res.bind (mustValidChild rec stack x s) fun _ => prefixLoop rec stack ss xs

/-- every element against one schema -/
def eachItem (rec : Rec) (stack : List NodeId) (s : NodeId) : List GoVal → Res Unit
  | [] => .ok ()
  | x :: xs => Res.bind (mustValidChild rec stack x s) fun _ => eachItem rec stack s xs

/-- contains: count the matching items and note their indexes (errors are swallowed) -/
def containsLoop (rec : Rec) (stack : List NodeId) (s : NodeId) : List GoVal → Nat → Anns → Nat → Res (Anns × Nat)
  | [], _, anns, cnt => .ok (anns, cnt)
  | x :: xs, i, anns, cnt =>
    match rec stack x s with
    | .ok _ => containsLoop rec stack s xs (i + 1) (anns.noteIndex i) (cnt + 1)
    | .err => containsLoop rec stack s xs (i + 1) anns cnt
    | .panic => .panic
    | .fuel => .fuel

/-- unevaluatedItems: `for i := anns.endIndex; i < len; i++ { if !anns.evaluatedIndexes[i] {…} }` -/
def unevalItemsLoop (rec : Rec) (stack : List NodeId) (s : NodeId) (anns : Anns) : List GoVal → Nat → Res Unit
  | [], _ => .ok ()
  | x :: xs, i =>
    if i < anns.endIndex || anns.evaluatedIndexes.contains i then unevalItemsLoop rec stack s anns xs (i + 1)
    else Res.bind (mustValidChild rec stack x s) fun _ => unevalItemsLoop rec stack s anns xs (i + 1)

def bItems (env : VEnv) (rec : Rec) (stack : List NodeId) (n : Node) (xs : List GoVal) (anns : Anns) : Res Anns :=
  match env.draft with
  | .d7 =>
    match n.itemsArray with
    | some ia =>
      Res.bind (prefixLoop rec stack ia xs) fun _ =>
        let anns := anns.noteEndIndex (min ia.length xs.length)
        match n.additionalItems with
        | some ai => Res.bind (eachItem rec stack ai (xs.drop ia.length)) fun _ => .ok { anns with allItems := true }
        | none => .ok anns
    | none =>
      match n.items with
      | some it => Res.bind (eachItem rec stack it xs) fun _ => .ok { anns with allItems := true }
      | none => .ok anns
  | .d2020 =>
    let pi := n.prefixItems.getD []
    Res.bind (prefixLoop rec stack pi xs) fun _ =>
      let anns := anns.noteEndIndex (min pi.length xs.length)
      match n.items with
      | some it => Res.bind (eachItem rec stack it (xs.drop pi.length)) fun _ => .ok { anns with allItems := true }
      | none => .ok anns

/-- `d` is `st.rs.draft`: minContains, maxContains, unevaluatedItems and unevaluatedProperties are unknown keywords
    under draft-07 and are read under 2020-12 only (here and in the three blocks below that take the draft) -/
def bContains (d : Draft) (rec : Rec) (stack : List NodeId) (n : Node) (xs : List GoVal) (anns : Anns) :
    Res (Anns × Nat) :=
  match n.contains with
  | none => .ok (anns, 0)
  | some c =>
    Res.bind (containsLoop rec stack c xs 0 anns 0) fun (anns, cnt) =>
      if cnt == 0 && (d == .d7 || match n.minContains with | none => true | some m => decide (m > 0)) then .err
      else .ok (anns, cnt)

def bArrayLimits (d : Draft) (n : Node) (xs : List GoVal) (cnt : Nat) : Res Unit :=
  if (d == .d2020 &&
      match n.minContains, n.contains with | some m, some _ => decide ((cnt : Int) < m) | _, _ => false) then .err
  else if (d == .d2020 &&
      match n.maxContains, n.contains with | some m, some _ => decide ((cnt : Int) > m) | _, _ => false) then .err
  else if (match n.minItems with | some m => decide ((xs.length : Int) < m) | none => false) then .err
  else if (match n.maxItems with | some m => decide ((xs.length : Int) > m) | none => false) then .err
  else .ok ()

def bUnique (env : VEnv) (n : Node) (xs : List GoVal) : Res Unit :=
  if n.uniqueItems then uniqueItems env.hash xs else .ok ()

def bUnevaluatedItems (d : Draft) (rec : Rec) (stack : List NodeId) (n : Node) (xs : List GoVal) (anns : Anns) :
    Res Anns :=
  if d == .d2020 then
    match n.unevaluatedItems with
    | some u =>
      if anns.allItems then .ok anns
      else Res.bind (unevalItemsLoop rec stack u anns xs 0) fun _ => .ok { anns with allItems := true }
    | none => .ok anns
  else .ok anns

def bArray (env : VEnv) (rec : Rec) (stack : List NodeId) (n : Node) (inst : GoVal) (anns : Anns) : Res Anns :=
  match inst with
  | .list xs =>
    Res.bind (bItems env rec stack n xs anns) fun anns =>
    Res.bind (bContains env.draft rec stack n xs anns) fun (anns, cnt) =>
    Res.bind (bArrayLimits env.draft n xs cnt) fun _ =>
    Res.bind (bUnique env n xs) fun _ =>
    bUnevaluatedItems env.draft rec stack n xs anns
  | _ => .ok anns

/-! ### objects -/

/-- `for prop, subschema := range schema.Properties` -/
def propertiesLoop (rec : Rec) (stack : List NodeId) (kvs : List (String × GoVal)) :
    List (String × NodeId) → List String → Res (List String)
  | [], ev => .ok ev
  | (prop, sub) :: rest, ev =>
    match Json.lookup prop kvs with
    | none => propertiesLoop rec stack kvs rest ev
    | some val => Res.bind (mustValidChild rec stack val sub) fun _ => propertiesLoop rec stack kvs rest (ev ++ [prop])

/-- one instance property against every matching pattern -/
def patternsLoop (env : VEnv) (rec : Rec) (stack : List NodeId) (prop : String) (val : GoVal) :
    List (String × NodeId) → Bool → Res Bool
  | [], hit => .ok hit
  | (re, sub) :: rest, hit =>
    if env.reMatch re prop then
      Res.bind (mustValidChild rec stack val sub) fun _ => patternsLoop env rec stack prop val rest true
    else patternsLoop env rec stack prop val rest hit

def patternPropsLoop (env : VEnv) (rec : Rec) (stack : List NodeId) (pats : List (String × NodeId)) :
    List (String × GoVal) → List String → Res (List String)
  | [], ev => .ok ev
  | (prop, val) :: rest, ev =>
    Res.bind (patternsLoop env rec stack prop val pats false) fun hit =>
      patternPropsLoop env rec stack pats rest (if hit then ev ++ [prop] else ev)

/-- additionalProperties applied to every property not in evalProps -/
def additionalLoop (rec : Rec) (stack : List NodeId) (ap : NodeId) :
    List (String × GoVal) → List String → Res (List String)
  | [], ev => .ok ev
  | (prop, val) :: rest, ev =>
    if ev.contains prop then additionalLoop rec stack ap rest ev
    else Res.bind (mustValidChild rec stack val ap) fun _ => additionalLoop rec stack ap rest (ev ++ [prop])

def propertyNamesLoop (rec : Rec) (stack : List NodeId) (pn : NodeId) : List (String × GoVal) → Res Unit
  | [] => .ok ()
  | (prop, _) :: rest => Res.bind (mustValidChild rec stack (.str prop) pn) fun _ => propertyNamesLoop rec stack pn rest

def hasProperty (kvs : List (String × GoVal)) (p : String) : Bool := (Json.lookup p kvs).isSome

/-- missingProperties(props) is empty -/
def allPresent (kvs : List (String × GoVal)) (props : List String) : Bool := props.all (hasProperty kvs)

/-- dependentRequired / draft-07 string-form dependencies -/
def depRequiredLoop (kvs : List (String × GoVal)) : List (String × Option (List String)) → Res Unit
  | [] => .ok ()
  | (dprop, reqs) :: rest =>
    if hasProperty kvs dprop && !allPresent kvs (reqs.getD []) then .err else depRequiredLoop kvs rest

/-- dependentSchemas / draft-07 schema-form dependencies: in place, collecting annotations -/
def depSchemasLoop (rec : Rec) (stack : List NodeId) (inst : GoVal) (kvs : List (String × GoVal)) :
    List (String × NodeId) → Anns → Res Anns
  | [], anns => .ok anns
  | (dprop, ds) :: rest, anns =>
    if hasProperty kvs dprop then
      Res.bind (mustValid rec stack inst ds anns) fun anns => depSchemasLoop rec stack inst kvs rest anns
    else depSchemasLoop rec stack inst kvs rest anns

def unevalPropsLoop (rec : Rec) (stack : List NodeId) (u : NodeId) (anns : Anns) : List (String × GoVal) → Res Unit
  | [] => .ok ()
  | (prop, val) :: rest =>
    if anns.evaluatedProperties.contains prop then unevalPropsLoop rec stack u anns rest
    else Res.bind (mustValidChild rec stack val u) fun _ => unevalPropsLoop rec stack u anns rest

/-- properties, patternProperties, additionalProperties: the local evalProps set -/
def bProps (env : VEnv) (rec : Rec) (stack : List NodeId) (n : Node) (info : Option Info)
    (kvs : List (String × GoVal)) : Res (List String) :=
  Res.bind (propertiesLoop rec stack kvs (n.properties.getD []) []) fun ev =>
  Res.bind (if (n.patternProperties.getD []).length > 0 then
              match info with
              | none => .panic
              | some _ => patternPropsLoop env rec stack (n.patternProperties.getD []) kvs ev
            else .ok ev) fun ev =>
  match n.additionalProperties with
  | some ap => additionalLoop rec stack ap kvs ev
  | none => .ok ev

def bObjectLimits (n : Node) (info : Option Info) (kvs : List (String × GoVal)) : Res Unit :=
  if (n.minProperties.isSome || n.maxProperties.isSome) && info.isNone then .panic
  else if (match n.minProperties with | some m => decide ((kvs.length : Int) < m) | none => false) then .err
  else if (match n.maxProperties with | some m => decide ((kvs.length : Int) > m) | none => false) then .err
  else if (match n.required with | some r => !allPresent kvs r | none => false) then .err
  else .ok ()

def bDependencies (env : VEnv) (rec : Rec) (stack : List NodeId) (n : Node) (inst : GoVal)
    (kvs : List (String × GoVal)) (anns : Anns) : Res Anns :=
  match env.draft with
  | .d7 =>
    Res.bind (depRequiredLoop kvs (n.dependencyStrings.getD [])) fun _ =>
      depSchemasLoop rec stack inst kvs (n.dependencySchemas.getD []) anns
  | .d2020 =>
    Res.bind (depRequiredLoop kvs (n.dependentRequired.getD [])) fun _ =>
      depSchemasLoop rec stack inst kvs (n.dependentSchemas.getD []) anns

def bUnevaluatedProps (d : Draft) (rec : Rec) (stack : List NodeId) (n : Node) (kvs : List (String × GoVal))
    (anns : Anns) : Res Anns :=
  if d == .d2020 then
    match n.unevaluatedProperties with
    | some u =>
      if anns.allProperties then .ok anns
      else Res.bind (unevalPropsLoop rec stack u anns kvs) fun _ => .ok { anns with allProperties := true }
    | none => .ok anns
  else .ok anns

def bObject (env : VEnv) (rec : Rec) (stack : List NodeId) (n : Node) (info : Option Info) (inst : GoVal)
    (anns : Anns) : Res Anns :=
  match inst with
  | .other .struct => .err          -- "cannot validate against a struct"
  | .other .badmap => .err          -- "map key type … is not a string"
  | .map kvs =>
    Res.bind (bProps env rec stack n info kvs) fun ev =>
    let anns := anns.noteProperties ev
    Res.bind (match n.propertyNames with
              | some pn => propertyNamesLoop rec stack pn kvs
              | none => .ok ()) fun _ =>
    Res.bind (bObjectLimits n info kvs) fun _ =>
    Res.bind (bDependencies env rec stack n inst kvs anns) fun anns =>
    bUnevaluatedProps env.draft rec stack n kvs anns
  | _ => .ok anns

/-! ### one call of validate -/

def validateStep (env : VEnv) (rec : Rec) (stack0 : List NodeId) (inst0 : GoVal) (sid : NodeId) : Res Anns :=
  match env.st.get? sid with
  | none => .panic                                 -- assert(schema != nil)
  | some n =>
    let stack := stack0 ++ [sid]                   -- push
    let inst := strip inst0
    let info := env.info? sid
    -- `defer wrapf(&err, "validating %s", st.rs.schemaString(schema))`: the argument is evaluated at
    -- once and dereferences the schema's info unless the schema has an $id
    if n.id == "" && info.isNone then .panic else
    Res.bind (bRef env rec stack n info inst) fun (anns, done) =>
    if done then .ok anns else
    Res.bind (bType n inst) fun _ =>
    Res.bind (bEnum n inst) fun _ =>
    Res.bind (bConst n inst) fun _ =>
    Res.bind (bNumeric n inst) fun _ =>
    Res.bind (bString env n info inst) fun _ =>
    Res.bind (bDynamicRef env rec stack n info inst anns) fun anns =>
    Res.bind (bAllOf rec stack n inst anns) fun anns =>
    Res.bind (bAnyOf rec stack n inst anns) fun anns =>
    Res.bind (bOneOf rec stack n inst anns) fun anns =>
    Res.bind (bNot rec stack n inst anns) fun anns =>
    Res.bind (bIf rec stack n inst anns) fun anns =>
    Res.bind (bArray env rec stack n inst anns) fun anns =>
    bObject env rec stack n info inst anns

def validateFuel (env : VEnv) : Nat → Rec
  | 0 => fun _ _ _ => .fuel
  | fuel + 1 => validateStep env (validateFuel env fuel)

/-- (*Resolved).Validate(instance) -/
def validate (env : VEnv) (supported : List String) (fuel : Nat) (root : NodeId) (inst : GoVal) : Res Unit :=
  match env.st.get? root with
  | none => .panic
  | some rn =>
    if !supported.contains rn.schema then .err
    else Res.bind (validateFuel env fuel [] inst root) fun _ => .ok ()

end Go
end JSV
