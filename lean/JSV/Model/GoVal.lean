/-
  GoVal: a Go value as `reflect` shows it to the package (util.go, validate.go).
  Only what the code inspects is kept: the kind class, the exact numeric value, nil-ness,
  pointer / interface wrapping.  `denote` is the JSON value a representation carries.
-/
import JSV.Basic.Json
namespace JSV

/-- kinds that carry no JSON value -/
inductive OtherKind where
  | struct    -- jsonType says "object"; validate refuses it explicitly
  | badmap    -- map whose key kind is not string
  | opaque    -- func, chan, complex, unsafe pointer
  deriving Repr, DecidableEq, Inhabited

inductive GoVal where
  | invalid                                   -- reflect.Value{}: untyped nil / Elem() of a nil pointer or interface
  | bool (b : Bool)
  | int (v : Int)                             -- CanInt  (int, int8 … int64, named ints)
  | uint (v : Nat)                            -- CanUint (uint … uint64, uintptr)
  | float (v : Rat)                           -- CanFloat (float32/float64; finite, exact value)
  | jnum (q : Option Rat) (text : String)     -- json.Number; q = result of big.Rat.SetString
  | str (s : String)                          -- any other string kind (named or not)
  | list (xs : List GoVal)                    -- non-nil slice, or array; xs = what Index(i) returns
  | map (kvs : List (String × GoVal))         -- non-nil map with string-kind keys
  | ptr (v : GoVal)                           -- pointer; `invalid` inside = nil pointer
  | iface (v : GoVal)                         -- interface; `invalid` inside = nil interface
  | other (k : OtherKind)                     -- not a JSON value
  deriving Repr, Inhabited

namespace GoVal

/-- validate.go:97 / the stripping loop: step through pointers and interfaces. -/
def strip : GoVal → GoVal
  | .ptr v => strip v
  | .iface v => strip v
  | v => v

/-- util.go jsonNumber: the exact rational of every numeric kind and of json.Number. -/
def jsonNumber : GoVal → Option Rat
  | .int v => some (v : Rat)
  | .uint v => some ((v : Int) : Rat)
  | .float v => some v
  | .jnum q _ => q
  | _ => none

mutual
  /-- the JSON value carried by a representation (`none`: not a JSON value) -/
  def denote : GoVal → Option Json
    | .invalid => some .null
    | .bool b => some (.bool b)
    | .int v => some (.num v)
    | .uint v => some (.num ((v : Int) : Rat))
    | .float v => some (.num v)
    | .jnum (some q) _ => some (.num q)
    | .jnum none _ => none
    | .str s => some (.str s)
    | .list xs => (denoteList xs).map .arr
    | .map kvs => (denoteObj kvs).map .obj
    | .ptr v => denote v
    | .iface v => denote v
    | .other _ => none
  def denoteList : List GoVal → Option (List Json)
    | [] => some []
    | x :: xs =>
      match denote x, denoteList xs with
      | some j, some js => some (j :: js)
      | _, _ => none
  def denoteObj : List (String × GoVal) → Option (List (String × Json))
    | [] => some []
    | (k, v) :: rest =>
      match denote v, denoteObj rest with
      | some j, some js => some ((k, j) :: js)
      | _, _ => none
end

mutual
  /-- The canonical representation produced by encoding/json decoding into `any`. -/
  def ofJson : Json → GoVal
    | .null => .invalid
    | .bool b => .bool b
    | .num q => .float q
    | .str s => .str s
    | .arr xs => .list (ofJsonList xs)
    | .obj kvs => .map (ofJsonObj kvs)
  def ofJsonList : List Json → List GoVal
    | [] => []
    | x :: xs => .iface (ofJson x) :: ofJsonList xs
  def ofJsonObj : List (String × Json) → List (String × GoVal)
    | [] => []
    | (k, v) :: rest => (k, .iface (ofJson v)) :: ofJsonObj rest
end

/-- util.go jsonType (with json.Number recognised as a number). `none`: not a JSON value. -/
def jsonType (v : GoVal) : Option String :=
  match v with
  | .invalid => some "null"
  | .int _ => some "integer"
  | .uint _ => some "integer"
  | .float q => some (if q.den = 1 then "integer" else "number")
  | .jnum (some q) _ => some (if q.den = 1 then "integer" else "number")
  | .jnum none _ => some "string"
  | .bool _ => some "boolean"
  | .str _ => some "string"
  | .list _ => some "array"
  | .map _ => some "object"
  | .other .struct => some "object"
  | .other .badmap => some "object"
  | _ => none

end GoVal
end JSV
