/-
  Model of (Schema).MarshalJSON, orderedProperties.MarshalJSON (schema.go:236-378) and
  marshalStructWithMap (util.go:320-357) on the store: the ordered JSON value whose text
  encoding/json writes.  Emission order = wrapper-struct fields (type, properties, dependencies,
  items, enum, anyOf, oneOf, $vocabulary) then the remaining tagged Schema fields in declaration order,
  then Extra with sorted keys.
  `omitempty` exactly as encoding/json defines emptiness per Go type.
-/
import JSV.Model.Schema
import JSV.Model.Resolve
namespace JSV
namespace Go

def insertStr (k : String) : List String → List String
  | [] => [k]
  | x :: xs => if k ≤ x then k :: x :: xs else x :: insertStr k xs

/-- slices.Sort on strings -/
def sortStrings (ks : List String) : List String := ks.foldr insertStr []

def insertKV {α : Type} (e : String × α) : List (String × α) → List (String × α)
  | [] => [e]
  | x :: xs => if e.1 ≤ x.1 then e :: x :: xs else x :: insertKV e xs

/-- encoding/json writes map keys in sorted order -/
def sortKV {α : Type} (kvs : List (String × α)) : List (String × α) := kvs.foldr insertKV []

/-- orderedProperties: the key sequence — names listed in PropertyOrder that are properties, in that
    order, then the remaining names in ascending order -/
def orderedKeys {α : Type} (props : List (String × α)) (order : List String) : List String :=
  let listed := order.filter fun k => (Json.lookup k props).isSome
  let remaining := (props.map (·.1)).filter fun k => !listed.contains k
  listed ++ sortStrings remaining

/-- JSON names that the wrapper struct or a tagged Schema field marshals to (jsonNames of the wrapper) -/
def structNames : List String := [
  "type", "properties", "dependencies", "items", "enum", "anyOf", "oneOf", "$vocabulary",
  "$id", "$schema", "$ref", "$comment", "$defs", "definitions", "$anchor", "$dynamicAnchor", "$dynamicRef",
  "$vocabulary", "title", "description", "default", "deprecated", "readOnly", "writeOnly", "examples",
  "enum", "const", "multipleOf", "minimum", "maximum", "exclusiveMinimum", "exclusiveMaximum",
  "minLength", "maxLength", "pattern", "prefixItems", "minItems", "maxItems", "additionalItems",
  "uniqueItems", "contains", "minContains", "maxContains", "unevaluatedItems", "minProperties",
  "maxProperties", "required", "dependentRequired", "patternProperties",
  "additionalProperties", "propertyNames", "unevaluatedProperties", "allOf", "anyOf", "oneOf", "not",
  "if", "then", "else", "dependentSchemas", "contentEncoding", "contentMediaType", "contentSchema", "format"]

mutual
  /-- values of type `any` (enum, const, examples, Extra) were decoded into Go maps: encoding/json
      writes their keys in sorted order, at every depth -/
  def sortJson : Json → Json
    | .arr xs => .arr (sortJsonList xs)
    | .obj kvs => .obj (sortKV (sortJsonObj kvs))
    | j => j
  def sortJsonList : List Json → List Json
    | [] => []
    | x :: xs => sortJson x :: sortJsonList xs
  def sortJsonObj : List (String × Json) → List (String × Json)
    | [] => []
    | (k, v) :: rest => (k, sortJson v) :: sortJsonObj rest
end

abbrev MRec := NodeId → Res Json

def strs (l : List String) : Json := .arr (l.map .str)

def optStrs (l : Option (List String)) : Json :=
  match l with
  | some l => strs l
  | none => .null

/-- a `*Schema` value: nil pointer = JSON null -/
def mSchema (st : Store) (rec : MRec) (id : NodeId) : Res Json :=
  match st.get? id with
  | none => .ok .null
  | some _ => rec id

def mSchemaList (st : Store) (rec : MRec) : List NodeId → Res (List Json)
  | [] => .ok []
  | x :: xs => Res.bind (mSchema st rec x) fun j => Res.bind (mSchemaList st rec xs) fun js => .ok (j :: js)

def mSchemaEntries (st : Store) (rec : MRec) : List (String × NodeId) → Res (List (String × Json))
  | [] => .ok []
  | (k, x) :: xs => Res.bind (mSchema st rec x) fun j => Res.bind (mSchemaEntries st rec xs) fun js => .ok ((k, j) :: js)

/-- a map[string]*Schema field (keys sorted by encoding/json) -/
def mSchemaMap (st : Store) (rec : MRec) (kvs : List (String × NodeId)) : Res Json :=
  Res.bind (mSchemaEntries st rec (sortKV kvs)) fun es => .ok (.obj es)

/-- the "properties" member through orderedProperties -/
def mProperties (st : Store) (rec : MRec) (props : List (String × NodeId)) (order : List String) : Res Json :=
  let keys := orderedKeys props order
  let entries := keys.filterMap fun k => (Json.lookup k props).map fun v => (k, v)
  Res.bind (mSchemaEntries st rec entries) fun es => .ok (.obj es)

/-- the synthetic "dependencies" map: schema-form and string-form entries merged, keys sorted -/
def mDependencies (st : Store) (rec : MRec) (n : Node) : Res (Option Json) :=
  let ds := n.dependencySchemas.getD []
  let dstr := n.dependencyStrings.getD []
  if ds.length + dstr.length == 0 then .ok none
  else
    Res.bind (mSchemaEntries st rec ds) fun es =>
      -- `for k, v := range DependencyStrings { dep[k] = v }` overwrites schema entries of the same key
      let merged := (es.filter fun e => !(dstr.any fun d => d.1 == e.1)) ++ dstr.map fun (k, l) => (k, strs (l.getD []))   -- a nil list is written as []
      .ok (some (.obj (sortKV merged)))

/-- one optional member -/
def mem (k : String) (v : Option Json) : List (String × Json) :=
  match v with
  | some j => [(k, j)]
  | none => []

def mStr (k s : String) : List (String × Json) := if s == "" then [] else [(k, .str s)]
def mBool (k : String) (b : Bool) : List (String × Json) := if b then [(k, .bool true)] else []
def mNum (k : String) (q : Option Rat) : List (String × Json) := mem k (q.map .num)
def mInt (k : String) (q : Option Int) : List (String × Json) := mem k (q.map fun i => .num i)

/-- basicChecks (shared with Resolve's checkLocal) -/
def marshalChecksOk (n : Node) : Bool := basicChecksOk n

/-- one level of MarshalJSON -/
def marshalStep (st : Store) (rec : MRec) (id : NodeId) : Res Json :=
  match st.get? id with
  | none => .ok .null
  | some n =>
    if !marshalChecksOk n then .err else
    if ((n.extra.getD []).any fun e => structNames.contains e.1) then .err else
    let one (k : String) (c : Option NodeId) : Res (List (String × Json)) :=
      match c with
      | none => .ok []
      | some id => Res.bind (mSchema st rec id) fun j => .ok [(k, j)]
    let many (k : String) (cs : Option (List NodeId)) : Res (List (String × Json)) :=
      match cs with
      | none => .ok []
      | some [] => .ok []
      | some l => Res.bind (mSchemaList st rec l) fun js => .ok [(k, .arr js)]
    let manyNonNil (k : String) (cs : Option (List NodeId)) : Res (List (String × Json)) :=
      match cs with
      | none => .ok []
      | some l => Res.bind (mSchemaList st rec l) fun js => .ok [(k, .arr js)]
    let keyed (k : String) (cs : Option (List (String × NodeId))) : Res (List (String × Json)) :=
      match cs with
      | none => .ok []
      | some [] => .ok []
      | some l => Res.bind (mSchemaMap st rec l) fun j => .ok [(k, j)]
    -- wrapper fields
    let typ : List (String × Json) :=
      if n.type != "" then [("type", .str n.type)]
      else match n.types with
        | some ts => [("type", strs ts)]
        | none => []
    Res.bind (match n.properties with
              | some ps => Res.bind (mProperties st rec ps (n.propertyOrder.getD [])) fun j => .ok [("properties", j)]
              | none => .ok []) fun props =>
    Res.bind (mDependencies st rec n) fun deps =>
    Res.bind (match n.items, n.itemsArray with
              | some it, _ => one "items" (some it)
              | none, some ia => Res.bind (mSchemaList st rec ia) fun js => .ok [("items", .arr js)]
              | none, none => .ok []) fun items =>
    -- tagged Schema fields in declaration order
    Res.bind (keyed "$defs" n.defs) fun defs =>
    Res.bind (keyed "definitions" n.definitions) fun definitions =>
    Res.bind (many "prefixItems" n.prefixItems) fun prefixItems =>
    Res.bind (one "additionalItems" n.additionalItems) fun additionalItems =>
    Res.bind (one "contains" n.contains) fun contains =>
    Res.bind (one "unevaluatedItems" n.unevaluatedItems) fun unevaluatedItems =>
    Res.bind (keyed "patternProperties" n.patternProperties) fun patternProperties =>
    Res.bind (one "additionalProperties" n.additionalProperties) fun additionalProperties =>
    Res.bind (one "propertyNames" n.propertyNames) fun propertyNames =>
    Res.bind (one "unevaluatedProperties" n.unevaluatedProperties) fun unevaluatedProperties =>
    Res.bind (many "allOf" n.allOf) fun allOf =>
    Res.bind (manyNonNil "anyOf" n.anyOf) fun anyOf =>
    Res.bind (manyNonNil "oneOf" n.oneOf) fun oneOf =>
    Res.bind (one "not" n.not) fun not_ =>
    Res.bind (one "if" n.if_) fun if_ =>
    Res.bind (one "then" n.then_) fun then_ =>
    Res.bind (one "else" n.else_) fun else_ =>
    Res.bind (keyed "dependentSchemas" n.dependentSchemas) fun dependentSchemas =>
    Res.bind (one "contentSchema" n.contentSchema) fun contentSchema =>
    -- routed through the wrapper struct (`Vocabulary any`): only nil is omitted, an empty map is written as {}
    let vocab := match n.vocabulary with
      | some vs => [("$vocabulary", Json.obj (sortKV (vs.map fun (k, b) => (k, Json.bool b))))]
      | none => []
    let depReq := match n.dependentRequired with
      | some (v :: vs) => [("dependentRequired", Json.obj (sortKV ((v :: vs).map fun (k, l) => (k, optStrs l))))]
      | _ => []
    let nonEmptyList (k : String) (l : Option (List Json)) : List (String × Json) :=
      match l with
      | some (x :: xs) => [(k, sortJson (.arr (x :: xs)))]
      | _ => []
    let required := match n.required with
      | some (x :: xs) => [("required", strs (x :: xs))]
      | _ => []
    let members :=
      typ ++ props ++ mem "dependencies" deps ++ items ++
      -- enum / anyOf / oneOf / $vocabulary go through the wrapper struct: only nil is omitted
      mem "enum" (n.enum.map fun l => sortJson (.arr l)) ++ anyOf ++ oneOf ++ vocab ++
      mStr "$id" n.id ++ mStr "$schema" n.schema ++ mStr "$ref" n.ref ++ mStr "$comment" n.comment ++
      defs ++ definitions ++
      mStr "$anchor" n.anchor ++ mStr "$dynamicAnchor" n.dynamicAnchor ++ mStr "$dynamicRef" n.dynamicRef ++
      mStr "title" n.title ++ mStr "description" n.description ++ mem "default" n.default ++
      mBool "deprecated" n.deprecated ++ mBool "readOnly" n.readOnly ++ mBool "writeOnly" n.writeOnly ++
      nonEmptyList "examples" n.examples ++
      mem "const" (n.const.map sortJson) ++
      mNum "multipleOf" n.multipleOf ++ mNum "minimum" n.minimum ++ mNum "maximum" n.maximum ++
      mNum "exclusiveMinimum" n.exclusiveMinimum ++ mNum "exclusiveMaximum" n.exclusiveMaximum ++
      mInt "minLength" n.minLength ++ mInt "maxLength" n.maxLength ++ mStr "pattern" n.pattern ++
      prefixItems ++ mInt "minItems" n.minItems ++ mInt "maxItems" n.maxItems ++ additionalItems ++
      mBool "uniqueItems" n.uniqueItems ++ contains ++ mInt "minContains" n.minContains ++
      mInt "maxContains" n.maxContains ++ unevaluatedItems ++
      mInt "minProperties" n.minProperties ++ mInt "maxProperties" n.maxProperties ++ required ++ depReq ++
      patternProperties ++ additionalProperties ++ propertyNames ++ unevaluatedProperties ++
      allOf ++ not_ ++ if_ ++ then_ ++ else_ ++ dependentSchemas ++
      mStr "contentEncoding" n.contentEncoding ++ mStr "contentMediaType" n.contentMediaType ++ contentSchema ++
      mStr "format" n.format ++
      sortKV ((n.extra.getD []).map fun (k, v) => (k, sortJson v))
    -- `{}` is written as true and `{"not":true}` as false
    match members with
    | [] => .ok (.bool true)
    | [("not", .bool true)] => .ok (.bool false)
    | ms => .ok (.obj ms)

def marshalFuel (st : Store) : Nat → MRec
  | 0 => fun _ => .fuel
  | fuel + 1 => marshalStep st (marshalFuel st fuel)

/-- json.Marshal(schema) as an ordered JSON value -/
def marshal (st : Store) (root : NodeId) : Res Json := marshalFuel st (st.size + 2) root

end Go
end JSV
