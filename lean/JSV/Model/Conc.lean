/-
  C13: the sharing protocol of the package, as an abstract machine.

  * an immutable store (the Resolved, the Schema trees, the type table) — a parameter, never written;
  * private per-call state (the `state` struct of validate.go with its stack and annotations) — lives
    inside a thread, invisible to the others;
  * memo cells with the protocol Load → compute `f key` → Store (`structProperties`, `jsonNamesMap`:
    sync.Map caches whose stored value depends on the key only; "at worst we'll recompute the same
    value").

  A thread runs a list of calls.  A call on (key, arg) needs the memoised value for `key` and returns
  `g (value) arg`.  One machine step = one atomic action of one thread (a Load, a Store, or the
  private computation).  `run` executes a schedule (any list of thread ids).
-/
namespace JSV
namespace Conc

variable {K V A R : Type} [DecidableEq K]

/-- what a thread is doing -/
inductive Phase (K V A : Type) where
  | idle                                   -- between calls
  | loaded (k : K) (a : A) (hit : Option V) -- after the Load
  | computed (k : K) (a : A) (v : V)        -- after computing f k, before the Store
  deriving Inhabited

structure Thread (K V A R : Type) where
  todo : List (K × A)          -- calls still to make
  phase : Phase K V A := .idle
  results : List R := []       -- results of the calls made so far, oldest first

structure Machine (K V A R : Type) where
  memo : K → Option V          -- the shared cache (sync.Map)
  threads : List (Thread K V A R)

/-- one atomic action of a thread -/
def stepThread (f : K → V) (g : V → A → R) (memo : K → Option V) (t : Thread K V A R) :
    (K → Option V) × Thread K V A R :=
  match t.phase with
  | .idle =>
    match t.todo with
    | [] => (memo, t)
    | (k, a) :: rest => (memo, { t with todo := rest, phase := .loaded k a (memo k) })      -- Load
  | .loaded k a (some v) => (memo, { t with phase := .idle, results := t.results ++ [g v a] })   -- hit: use it
  | .loaded k a none => (memo, { t with phase := .computed k a (f k) })                          -- miss: compute privately
  | .computed k a v =>
    (fun k' => if k' = k then some v else memo k',                                               -- Store
     { t with phase := .idle, results := t.results ++ [g v a] })

def setAt {α : Type} : List α → Nat → α → List α
  | [], _, _ => []
  | _ :: xs, 0, y => y :: xs
  | x :: xs, n + 1, y => x :: setAt xs n y

/-- one machine step: thread `tid` moves (a bad id is a no-op) -/
def step (f : K → V) (g : V → A → R) (m : Machine K V A R) (tid : Nat) : Machine K V A R :=
  match m.threads[tid]? with
  | none => m
  | some t =>
    let (memo', t') := stepThread f g m.memo t
    { memo := memo', threads := setAt m.threads tid t' }

/-- run a schedule -/
def run (f : K → V) (g : V → A → R) (m : Machine K V A R) (sched : List Nat) : Machine K V A R :=
  sched.foldl (step f g) m

/-- the sequential meaning of a list of calls -/
def sequential (f : K → V) (g : V → A → R) (calls : List (K × A)) : List R :=
  calls.map fun (k, a) => g (f k) a

def Thread.done (t : Thread K V A R) : Prop := t.todo = [] ∧ (match t.phase with | .idle => True | _ => False)

/-- initial machine: empty cache, every thread idle with its calls -/
def init (callss : List (List (K × A))) : Machine K V A R :=
  { memo := fun _ => none, threads := callss.map fun cs => { todo := cs } }

end Conc
end JSV
