/-
  C19 — Marshal order: the key sequence written by orderedProperties.MarshalJSON and by
  encoding/json for map-valued keywords.  Property theorems only (helper lemmas: JSV/Proofs/MshSort.lean).
-/
import JSV.Proofs.MshSort
namespace JSV.C19
open JSV Go

/-! ## slices.Sort on strings -/

theorem sortStrings_perm (ks : List String) : (Go.sortStrings ks).Perm ks :=
  Go.sortStrings_perm' ks

theorem sortStrings_sorted (ks : List String) : (Go.sortStrings ks).Pairwise (· ≤ ·) :=
  Go.sortStrings_sorted' ks

theorem sortStrings_perm_invariant {ks1 ks2 : List String} :
    ks1.Perm ks2 → Go.sortStrings ks1 = Go.sortStrings ks2 :=
  Go.sortStrings_eq_of_perm

/-! ## orderedProperties -/

/-- the listed names come first, in PropertyOrder's order; then the remaining names in ascending order -/
theorem orderedKeys_eq {α : Type} (props : List (String × α)) (order : List String) :
    Go.orderedKeys props order =
      order.filter (fun k => (Json.lookup k props).isSome) ++
      Go.sortStrings ((props.map (·.1)).filter fun k =>
        !(order.filter (fun k => (Json.lookup k props).isSome)).contains k) := by
  rfl

/-- first block: every element is listed in `order` and is a property; the block keeps `order`'s
    order (it is a sublist of `order`) and it is a prefix of the emitted key sequence -/
theorem orderedKeys_listed_prefix {α : Type} (props : List (String × α)) (order : List String) :
    (∀ k, k ∈ order.filter (fun k => (Json.lookup k props).isSome) →
        k ∈ order ∧ k ∈ props.map (·.1) ∧ (Json.lookup k props).isSome) ∧
    (order.filter (fun k => (Json.lookup k props).isSome)).Sublist order ∧
    order.filter (fun k => (Json.lookup k props).isSome) <+: Go.orderedKeys props order := by
  refine ⟨?_, List.filter_sublist, ?_⟩
  · intro k hk
    have h := List.mem_filter.1 hk
    exact ⟨h.1, Go.lookup_isSome_iff_mem_keys.1 h.2, h.2⟩
  · rw [orderedKeys_eq]
    exact List.prefix_append _ _

/-- second block: ascending, every element is a property that `order` does not mention -/
theorem orderedKeys_rest_sorted {α : Type} (props : List (String × α)) (order : List String) :
    ∃ rest, Go.orderedKeys props order = order.filter (fun k => (Json.lookup k props).isSome) ++ rest ∧
      rest.Pairwise (· ≤ ·) ∧
      ∀ k, k ∈ rest → k ∉ order ∧ k ∈ props.map (·.1) := by
  refine ⟨Go.sortStrings (Go.restKeys props order), rfl, Go.sortStrings_sorted' _, ?_⟩
  intro k hk
  have h := Go.mem_restKeys.1 ((Go.sortStrings_perm' _).mem_iff.1 hk)
  exact ⟨h.2, h.1⟩

/-- every property is written exactly once -/
theorem orderedKeys_complete {α : Type} (props : List (String × α)) (order : List String)
    (hp : (props.map (·.1)).Nodup) (ho : order.Nodup) :
    (Go.orderedKeys props order).Perm (props.map (·.1)) :=
  Go.orderedKeys_perm_keys hp ho

/-- … hence, when the map has distinct keys (every Go map) and PropertyOrder has no duplicate
    (basicChecks), no key is written twice -/
theorem orderedKeys_nodup {α : Type} (props : List (String × α)) (order : List String)
    (hp : (props.map (·.1)).Nodup) (ho : order.Nodup) : (Go.orderedKeys props order).Nodup :=
  (orderedKeys_complete props order hp ho).nodup_iff.2 hp

/-- names in PropertyOrder that are not properties have no effect -/
theorem orderedKeys_ignores_absent {α : Type} (props : List (String × α)) (o1 o2 : List String) (x : String)
    (hx : (Json.lookup x props).isNone) :
    Go.orderedKeys props (o1 ++ x :: o2) = Go.orderedKeys props (o1 ++ o2) := by
  have hx' : (Json.lookup x props).isSome = false := by
    cases h : Json.lookup x props with
    | none => rfl
    | some v => rw [h] at hx; cases hx
  have hl : (o1 ++ x :: o2).filter (fun k => (Json.lookup k props).isSome)
      = (o1 ++ o2).filter (fun k => (Json.lookup k props).isSome) := by
    rw [List.filter_append, List.filter_append, List.filter_cons, hx']
    rfl
  rw [orderedKeys_eq, orderedKeys_eq, hl]

/-- the emitted key sequence is independent of Go's map iteration order -/
theorem orderedKeys_map_order_invariant {α : Type} (props1 props2 : List (String × α)) (order : List String)
    (hperm : props1.Perm props2) (hn : (props1.map (·.1)).Nodup) :
    Go.orderedKeys props1 order = Go.orderedKeys props2 order :=
  Go.orderedKeys_eq_of_perm hperm hn order

/-! ## PropertyOrder with a repeated name is rejected (basicChecks) -/

theorem dup_order_rejected (st : Store) (rec : Go.MRec) (id : NodeId) (n : Node)
    (hn : st.get? id = some n) (hd : Go.hasDup (n.propertyOrder.getD []) = true) :
    Go.marshalStep st rec id = .err := by
  have hc : Go.marshalChecksOk n = false := by
    simp only [Go.marshalChecksOk, Go.basicChecksOk, hd]
    simp
  unfold Go.marshalStep
  rw [hn]
  show (if (!Go.marshalChecksOk n) = true then Res.err else _) = Res.err
  rw [if_pos (by rw [hc]; rfl)]

/-- stated with `Nodup`: a successful marshal implies PropertyOrder is duplicate-free -/
theorem marshal_ok_order_nodup (st : Store) (rec : Go.MRec) (id : NodeId) (n : Node) (j : Json)
    (hn : st.get? id = some n) (h : Go.marshalStep st rec id = .ok j) :
    (n.propertyOrder.getD []).Nodup := by
  apply Classical.byContradiction
  intro hnd
  rw [dup_order_rejected st rec id n hn (Go.hasDup_iff.2 hnd)] at h
  cases h

/-! ## map-valued keywords ($defs, definitions, patternProperties, dependentSchemas, dependencies,
    $vocabulary, dependentRequired, Extra, and every object inside enum / const / examples) -/

theorem sortKV_perm {α : Type} (kvs : List (String × α)) : (Go.sortKV kvs).Perm kvs :=
  Go.sortKV_perm kvs

theorem sortKV_sorted {α : Type} (kvs : List (String × α)) :
    (Go.sortKV kvs).Pairwise (fun a b => a.1 ≤ b.1) :=
  Go.sortKV_sorted kvs

/-- the emitted order of every map-valued keyword is independent of map iteration order -/
theorem sortKV_perm_invariant {α : Type} (kvs1 kvs2 : List (String × α))
    (hperm : kvs1.Perm kvs2) (hn : (kvs1.map (·.1)).Nodup) : Go.sortKV kvs1 = Go.sortKV kvs2 :=
  Go.sortKV_eq_of_perm hperm hn

/-- the "properties" member as MarshalJSON writes it: an object whose key sequence is `orderedKeys`
    (so everything above speaks about the emitted JSON text) -/
theorem properties_emitted_in_order (st : Store) (rec : Go.MRec) (props : List (String × NodeId))
    (order : List String) (j : Json) (h : Go.mProperties st rec props order = .ok j) :
    ∃ es, j = .obj es ∧ es.map (·.1) = Go.orderedKeys props order :=
  Go.mProperties_keys h

/-- a `map[string]*Schema` keyword ($defs, definitions, patternProperties, dependentSchemas) is an object
    whose keys are the map's keys in ascending order -/
theorem schema_map_emitted_sorted (st : Store) (rec : Go.MRec) (kvs : List (String × NodeId)) (j : Json)
    (h : Go.mSchemaMap st rec kvs = .ok j) :
    ∃ es, j = .obj es ∧ (es.map (·.1)).Pairwise (· ≤ ·) ∧ (es.map (·.1)).Perm (kvs.map (·.1)) := by
  obtain ⟨es, rfl, hk⟩ := Go.mSchemaMap_keys h
  refine ⟨es, rfl, ?_, ?_⟩
  · rw [hk]; exact Go.sortKV_keys_sorted kvs
  · rw [hk]; exact (Go.sortKV_perm kvs).map _

/-- Marshal is a function of the store and the root: there is no other input (no iteration order,
    no clock, no randomness) in the model, and the two theorems above say that the association-list
    order standing for Go's map iteration order does not matter either. -/
theorem marshal_deterministic (st : Store) (root : NodeId) (r1 r2 : Res Json)
    (h1 : Go.marshal st root = r1) (h2 : Go.marshal st root = r2) : r1 = r2 := by
  rw [← h1, ← h2]

/-! ## The hypotheses are satisfiable on non-trivial data -/

def exProps : List (String × Nat) := [("zeta", 1), ("alpha", 2), ("mid", 3), ("beta", 4)]
def exProps' : List (String × Nat) := [("beta", 4), ("mid", 3), ("zeta", 1), ("alpha", 2)]
def exOrder : List String := ["mid", "ghost", "zeta"]

example : Go.orderedKeys exProps exOrder = ["mid", "zeta", "alpha", "beta"] := by decide
example : Go.orderedKeys exProps' exOrder = ["mid", "zeta", "alpha", "beta"] := by decide
example : (exProps.map (·.1)).Nodup := by decide
example : exOrder.Nodup := by decide
example : exProps.Perm exProps' := by decide
/-- `orderedKeys_map_order_invariant` applied -/
example : Go.orderedKeys exProps exOrder = Go.orderedKeys exProps' exOrder :=
  orderedKeys_map_order_invariant exProps exProps' exOrder (by decide) (by decide)
/-- `orderedKeys_complete` applied -/
example : (Go.orderedKeys exProps exOrder).Perm ["zeta", "alpha", "mid", "beta"] :=
  orderedKeys_complete exProps exOrder (by decide) (by decide)
/-- `orderedKeys_ignores_absent` applied: "ghost" is not a property -/
example : Go.orderedKeys exProps (["mid"] ++ "ghost" :: ["zeta"]) = Go.orderedKeys exProps (["mid"] ++ ["zeta"]) :=
  orderedKeys_ignores_absent exProps ["mid"] ["zeta"] "ghost" (by decide)
example : Go.sortStrings ["b", "a", "c", "a"] = ["a", "a", "b", "c"] := by decide
example : Go.sortKV [("b", 1), ("a", 2), ("c", 3)] = [("a", 2), ("b", 1), ("c", 3)] := by decide

/-- `dup_order_rejected` applied: PropertyOrder ["a","b","a"] -/
example (rec : Go.MRec) :
    Go.marshalStep #[{ properties := some [("a", 7), ("b", 8)], propertyOrder := some ["a", "b", "a"] }] rec 0 = .err :=
  dup_order_rejected _ rec 0 _ rfl (by decide)

/-- a complete marshal with PropertyOrder: listed keys first, the rest sorted -/
example :
    Go.marshal #[{ properties := some [("zeta", 1), ("alpha", 2), ("mid", 1), ("beta", 2)],
                   propertyOrder := some ["mid", "ghost", "zeta"] },
                 { type := "string" }, {}] 0
      = .ok (.obj [("properties", .obj [("mid", .obj [("type", .str "string")]),
                                         ("zeta", .obj [("type", .str "string")]),
                                         ("alpha", .bool true), ("beta", .bool true)])]) := by
  rfl

end JSV.C19
