/-
  C06 — `$dynamicRef` goes to the OUTERMOST schema resource of the dynamic scope that declares the dynamic anchor,
  falls back to the initial (lexical) target, behaves like `$ref` when that target carries no dynamic anchor;
  the evaluator's stack walk computes exactly that; a `Validate` call has no memory of earlier calls.
  Property theorems only (helper lemmas: JSV/Proofs/InvDyn.lean).
-/
import JSV.Proofs.InvDyn
import JSV.Props.C01
namespace JSV.C06
open JSV Go GoVal Refine

/-- the schema bearing `$dynamicAnchor: name` in the schema resource scope entry `x` belongs to (if any) -/
abbrev decl (env : Spec.Env) (name : String) (x : NodeId) : Option NodeId :=
  (env.resource x).bind (env.dynDecl · name)

/-! ## the Spec's dynamic-scope rule -/

/-- `Spec.dynTarget` returns the declaration of the OUTERMOST scope entry whose resource declares the name -/
theorem dynamicRef_outermost (env : Spec.Env) (name : String) (scope pre post : List NodeId) (s t : NodeId)
    (hsc : scope = pre ++ s :: post) (hpre : ∀ x ∈ pre, decl env name x = none) (hs : decl env name s = some t) :
    Spec.dynTarget env scope name = some t := by
  rw [Inv.dynTarget_eq_findSome]
  exact List.findSome?_eq_some_iff.2 ⟨pre, s, post, hsc, hs, hpre⟩

/-- … and conversely: a target found is the declaration of an entry with no declaring entry outside it -/
theorem dynamicRef_outermost_conv (env : Spec.Env) (name : String) (scope : List NodeId) (t : NodeId)
    (h : Spec.dynTarget env scope name = some t) :
    ∃ pre s post, scope = pre ++ s :: post ∧ decl env name s = some t ∧ ∀ x ∈ pre, decl env name x = none := by
  rw [Inv.dynTarget_eq_findSome] at h
  exact List.findSome?_eq_some_iff.1 h

theorem dynamicRef_none_iff (env : Spec.Env) (name : String) (scope : List NodeId) :
    Spec.dynTarget env scope name = none ↔ ∀ x ∈ scope, decl env name x = none := by
  rw [Inv.dynTarget_eq_findSome]
  exact List.findSome?_eq_none_iff

/-- entering more schemas (a longer scope on the inside) never changes a target already determined -/
theorem dynamicRef_inner_irrelevant (env : Spec.Env) (name : String) (scope inner : List NodeId) (t : NodeId)
    (h : Spec.dynTarget env scope name = some t) : Spec.dynTarget env (scope ++ inner) name = some t := by
  obtain ⟨pre, s, post, hsc, hs, hpre⟩ := dynamicRef_outermost_conv env name scope t h
  exact dynamicRef_outermost env name _ pre (post ++ inner) s t (by simp [hsc]) hpre hs

/-- no scope entry declares the name ⇒ `$dynamicRef` evaluates the initial target -/
theorem dynamicRef_fallback (env : Spec.Env) (sub : NodeId → Json → Spec.Out) (scope : List NodeId) (s : NodeId)
    (n : Node) (j : Json) (initial : NodeId) (hdr : n.dynamicRef ≠ "") (hi : env.dynInitial s = some initial)
    (hno : ∀ x ∈ scope, decl env (env.dynName s) x = none) :
    Spec.kwDynamicRef env sub scope s n j = sub initial j := by
  have h0 : Spec.dynTarget env scope (env.dynName s) = none := (dynamicRef_none_iff env _ scope).2 hno
  unfold Spec.kwDynamicRef
  have h1 : (n.dynamicRef != "") = true := by simp [hdr]
  simp only [h1, if_true, hi, h0, Option.getD_none, ite_self]

/-- some scope entry declares the name ⇒ `$dynamicRef` evaluates the outermost declaration -/
theorem dynamicRef_dynamic (env : Spec.Env) (sub : NodeId → Json → Spec.Out) (scope pre post : List NodeId)
    (s x t : NodeId) (n : Node) (j : Json) (initial : NodeId) (hdr : n.dynamicRef ≠ "")
    (hi : env.dynInitial s = some initial) (hname : env.dynName s ≠ "")
    (hsc : scope = pre ++ x :: post) (hpre : ∀ y ∈ pre, decl env (env.dynName s) y = none)
    (hx : decl env (env.dynName s) x = some t) :
    Spec.kwDynamicRef env sub scope s n j = sub t j := by
  have h0 := dynamicRef_outermost env (env.dynName s) scope pre post x t hsc hpre hx
  unfold Spec.kwDynamicRef
  have h1 : (n.dynamicRef != "") = true := by simp [hdr]
  have h2 : (env.dynName s == "") = false := by simp [hname]
  simp only [h1, if_true, hi, h0, h2, Bool.false_eq_true, if_false, Option.getD_some]

/-- the initial target carries no matching `$dynamicAnchor` ⇒ `$dynamicRef` behaves like `$ref` to that target -/
theorem dynamicRef_lexical (env : Spec.Env) (sub : NodeId → Json → Spec.Out) (scope : List NodeId) (s : NodeId)
    (n : Node) (j : Json) (h : env.dynName s = "") :
    Spec.kwDynamicRef env sub scope s n j = Spec.inPlace sub (n.dynamicRef != "") (env.dynInitial s) j := by
  unfold Spec.kwDynamicRef Spec.inPlace
  simp only [h, beq_self_eq_true, if_true]
  split
  · cases env.dynInitial s <;> rfl
  · rfl

/-! ## the evaluator's stack walk -/

/-- the stack walk of `(*state).resolveDynamicRef` computes the Spec's `dynTarget` of the stack (under the invariants
    Resolve establishes, and for stacks whose entries have resolution records) -/
theorem model_dynLookup_eq_spec (env : VEnv) (hwf : EnvWF env) (name : String) (stack : List NodeId)
    (hstack : ∀ x, x ∈ stack → (env.info? x).isSome = true) :
    Go.dynLookup env name stack = .ok (Spec.dynTarget (specEnvOf env) stack name) :=
  Refine.dynLookup_eq env hwf name stack hstack

/-- hence: it returns the declaration of the outermost stack entry whose base resource declares the anchor -/
theorem model_dynLookup_outermost (env : VEnv) (hwf : EnvWF env) (name : String) (stack pre post : List NodeId)
    (s t : NodeId) (hstack : ∀ x, x ∈ stack → (env.info? x).isSome = true)
    (hsc : stack = pre ++ s :: post) (hpre : ∀ x ∈ pre, decl (specEnvOf env) name x = none)
    (hs : decl (specEnvOf env) name s = some t) :
    Go.dynLookup env name stack = .ok (some t) := by
  rw [model_dynLookup_eq_spec env hwf name stack hstack,
      dynamicRef_outermost (specEnvOf env) name stack pre post s t hsc hpre hs]

/-- the `$dynamicRef` block is one in-place application, to the Spec's target — under 2020-12 (`hd20`), where the keyword
    exists; under draft-07 it is an unknown keyword and the block does nothing (`model_dynamicRef_draft7`) -/
theorem model_dynamicRef_target (env : VEnv) (hd20 : env.draft = .d2020) (hwf : EnvWF env) (rec : Go.Rec)
    (stack : List NodeId)
    (hstack : ∀ x, x ∈ stack → (env.info? x).isSome = true) (n : Node) (i : Info) (initial : NodeId)
    (hdr : n.dynamicRef ≠ "") (hres : i.resolvedDynamicRef = some initial) (inst : GoVal) (anns : Anns) :
    Go.bDynamicRef env rec stack n (some i) inst anns =
      Go.mustValid rec stack inst
        (if i.dynamicRefAnchor = "" then initial
         else (Spec.dynTarget (specEnvOf env) stack i.dynamicRefAnchor).getD initial) anns :=
  Inv.bDynamicRef_target env hd20 hwf rec stack hstack n i initial hdr hres inst anns

/-- draft-07: `$dynamicRef` is an unknown keyword — the block applies nothing, whatever the resolution tables hold -/
theorem model_dynamicRef_draft7 (env : VEnv) (hd7 : env.draft = .d7) (rec : Go.Rec) (stack : List NodeId) (n : Node)
    (info : Option Info) (inst : GoVal) (anns : Anns) :
    Go.bDynamicRef env rec stack n info inst anns = .ok anns :=
  Refine.bDynamicRef_d7 env hd7 rec stack n info inst anns

/-! ## no history -/

/-- the result of `Validate` is a function of (resolved schema, supported versions, fuel, root, instance) only:
    the model threads no state from one call to the next (the Go `state` is allocated per call; `st.stack` is the
    only field written, `Generated.writes`) -/
theorem validate_history_free (env : VEnv) (supported : List String) (fuel : Nat) (root : NodeId) (i1 i2 : GoVal)
    (h : i1 = i2) : Go.validate env supported fuel root i1 = Go.validate env supported fuel root i2 := by
  rw [h]

/-- a sequence of calls: splitting the sequence anywhere gives the same results … -/
theorem validate_seq_append (env : VEnv) (supported : List String) (fuel : Nat) (root : NodeId) (xs ys : List GoVal) :
    List.map (Go.validate env supported fuel root) (xs ++ ys)
      = List.map (Go.validate env supported fuel root) xs ++ List.map (Go.validate env supported fuel root) ys :=
  List.map_append

/-- … each result equals that of the single call, whatever was validated before or after … -/
theorem validate_seq_get (env : VEnv) (supported : List String) (fuel : Nat) (root : NodeId) (insts : List GoVal)
    (k : Nat) (hk : k < insts.length) :
    (List.map (Go.validate env supported fuel root) insts)[k]'(by simpa using hk)
      = Go.validate env supported fuel root insts[k] := by
  simp

theorem validate_seq_mid (env : VEnv) (supported : List String) (fuel : Nat) (root : NodeId)
    (before after : List GoVal) (x : GoVal) :
    (List.map (Go.validate env supported fuel root) (before ++ x :: after))[before.length]? =
      some (Go.validate env supported fuel root x) := by
  simp

/-- … and reordering the calls reorders the results the same way -/
theorem validate_seq_perm (env : VEnv) (supported : List String) (fuel : Nat) (root : NodeId) (xs ys : List GoVal)
    (h : xs.Perm ys) :
    (List.map (fun x => (x, Go.validate env supported fuel root x)) xs).Perm
      (List.map (fun x => (x, Go.validate env supported fuel root x)) ys) :=
  h.map _

/-- the same instance validated twice gets the same result twice (no caching effect, no leftover stack) -/
theorem validate_twice (env : VEnv) (supported : List String) (fuel : Nat) (root : NodeId) (x : GoVal)
    (between : List GoVal) :
    (List.map (Go.validate env supported fuel root) (x :: between ++ [x])).head? =
      (List.map (Go.validate env supported fuel root) (x :: between ++ [x])).getLast? := by
  rw [List.map_append, List.map_cons, List.map_cons, List.map_nil, List.getLast?_concat]
  rfl

/-! ## The statements are not vacuous: the "generic list" pattern

Resource `root` (node 0): `{"$id":"root","$ref":"list","$defs":{"elem":{"$dynamicAnchor":"itemType","type":"string"}}}`
Resource `list` (node 2): `{"$id":"list","items":{"$dynamicRef":"#itemType"},"$defs":{"any":{"$dynamicAnchor":"itemType"}}}`
Entered through `root`, the items must be strings; entered through `list` directly, anything goes. -/

def exStore : Store := #[
  { id := "root", ref := "list", defs := some [("elem", 1)] },
  { dynamicAnchor := "itemType", type := "string" },
  { id := "list", items := some 3, defs := some [("any", 4)] },
  { dynamicRef := "#itemType" },
  { dynamicAnchor := "itemType" } ]

def exInfos : List (NodeId × Info) :=
  [(0, { path := "root", base := some 0, resolvedRef := some 2,
         anchors := [("itemType", { schema := 1, dynamic := true })] }),
   (1, { base := some 0 }),
   (2, { base := some 2, anchors := [("itemType", { schema := 4, dynamic := true })] }),
   (3, { base := some 2, resolvedDynamicRef := some 4, dynamicRefAnchor := "itemType" }),
   (4, { base := some 2 })]

def exEnv : VEnv :=
  { st := exStore, draft := .d2020, infos := exInfos, reMatch := fun _ _ => false, hash := fun _ => 0 }

theorem exEnv_wf : EnvWF exEnv := EnvWF_of_checks exEnv (by decide) (by decide) (fun _ _ _ => rfl)
theorem exEnv_store : StoreWF exEnv.st := StoreWF_of_check _ (by decide)

/-- the scope when the `$dynamicRef` at node 3 is evaluated, coming from `root`: both resources declare the anchor,
    the outermost one (`root`, entry 0) wins -/
example : Spec.dynTarget (specEnvOf exEnv) [0, 2, 3] "itemType" = some 1 :=
  dynamicRef_outermost (specEnvOf exEnv) "itemType" [0, 2, 3] [] [2, 3] 0 1 rfl (fun _ h => nomatch h) (by decide)
/-- coming from `list` directly, only `list` declares it -/
example : Spec.dynTarget (specEnvOf exEnv) [2, 3] "itemType" = some 4 :=
  dynamicRef_outermost (specEnvOf exEnv) "itemType" [2, 3] [] [3] 2 4 rfl (fun _ h => nomatch h) (by decide)
/-- a name nobody declares -/
example : Spec.dynTarget (specEnvOf exEnv) [0, 2, 3] "other" = none :=
  (dynamicRef_none_iff _ _ _).2 (by decide)
/-- `model_dynLookup_eq_spec` applied, and the same by running the model -/
example : Go.dynLookup exEnv "itemType" [0, 2, 3] = .ok (Spec.dynTarget (specEnvOf exEnv) [0, 2, 3] "itemType") :=
  model_dynLookup_eq_spec exEnv exEnv_wf "itemType" [0, 2, 3] (by decide)
example : Go.dynLookup exEnv "itemType" [0, 2, 3] = .ok (some 1) := by decide
example : Go.dynLookup exEnv "itemType" [2, 3] = .ok (some 4) := by decide

/-- the verdicts: `[1]` is rejected through `root` (items must be strings), accepted through `list` -/
example : Spec.valid (specEnvOf exEnv) 4 0 (.arr [.num 1]) = some false := by decide
example : Spec.valid (specEnvOf exEnv) 4 0 (.arr [.str "a"]) = some true := by decide
example : Spec.valid (specEnvOf exEnv) 4 2 (.arr [.num 1]) = some true := by decide
example : Go.validate exEnv [""] 4 0 (GoVal.ofJson (.arr [.num 1])) = .err := by decide
example : Go.validate exEnv [""] 4 0 (GoVal.ofJson (.arr [.str "a"])) = .ok () := by decide
example : Go.validate exEnv [""] 4 2 (GoVal.ofJson (.arr [.num 1])) = .ok () := by decide

/-- no history: validating through `root` in between does not make the later direct call stricter -/
example : List.map (Go.validate exEnv [""] 4 2) [GoVal.ofJson (.arr [.num 1]), GoVal.ofJson (.arr [.str "a"]),
    GoVal.ofJson (.arr [.num 1])] = [.ok (), .ok (), .ok ()] := by decide

/-- `dynamicRef_lexical`: with the anchor name cleared in the resolution record the keyword is a plain reference -/
example (sub : NodeId → Json → Spec.Out) (j : Json) :
    Spec.kwDynamicRef { specEnvOf exEnv with dynName := fun _ => "" } sub [0, 2, 3] 3 { dynamicRef := "#itemType" } j
      = sub 4 j := by
  rw [dynamicRef_lexical _ _ _ _ _ _ rfl]; rfl

end JSV.C06
