/-
  C05 — Marshal / Unmarshal round trip.  Property theorems only
  (helper lemmas: JSV/Proofs/MshNode.lean, MshRound.lean, MshFacts.lean).

  Proved here: boolean schemas round-trip; the emitted object never repeats a key; Extra round-trips;
  a non-nil `$vocabulary` is always written, the empty map as `{}` (`marshal_keeps_empty_vocabulary`);
  the table obligations over the generated struct description.  The scalar fragment of the full round
  trip is `roundtrip_scalar_fragment`; the round trip of whole schema trees (every keyword; no nil child) is
  `roundtrip_tree` (helper lemmas: JSV/Proofs/MshTree.lean); what is missing for the full statement is listed
  after it.  The tree read back accepts the same instances: `roundtrip_tree_meaning_partial` (reference-free trees, any
  tables; helper lemmas: JSV/Proofs/IsoValid.lean) and `roundtrip_tree_meaning_resolved` (trees with references, both sides
  resolved; helper lemmas: JSV/Proofs/ResIso*.lean, ResIsoNorm.lean — Resolve commutes with a renaming of node ids and
  does not see the normal forms; JSV/Proofs/MshIsTree.lean — what UnmarshalJSON allocates is a tree, `unmarshal_is_tree`).
-/
import JSV.Proofs.MshRound
import JSV.Proofs.MshScalar
import JSV.Proofs.MshFacts
import JSV.Proofs.MshTree
import JSV.Proofs.IsoValid
import JSV.Proofs.RefineCheck
import JSV.Proofs.ResIsoNorm
import JSV.Proofs.MshIsTree
import JSV.Proofs.ResIsoNormDocs
namespace JSV.C05
open JSV Go

/-! ## boolean schemas -/

/-- `&Schema{}` is written as `true`, `&Schema{Not: &Schema{}}` as `false` -/
theorem marshal_empty :
    (∀ (st : Store) (rec : Go.MRec) (id : NodeId), st.get? id = some Go.emptyNode →
      Go.marshalStep st rec id = .ok (.bool true)) ∧
    (∀ (st : Store) (f : Nat) (id inner : NodeId),
      st.get? id = some { Go.emptyNode with not := some inner } → st.get? inner = some Go.emptyNode →
      Go.marshalFuel st (f + 2) id = .ok (.bool false)) ∧
    (∀ st : Store, Go.marshal (st.alloc Go.emptyNode).2 (st.alloc Go.emptyNode).1 = .ok (.bool true)) ∧
    (∀ st : Store, Go.marshal (Go.allocFalse st).2 (Go.allocFalse st).1 = .ok (.bool false)) := by
  refine ⟨Go.marshalStep_empty, ?_, Go.marshal_alloc_empty, Go.marshal_allocFalse⟩
  intro st f id inner h hi
  exact Go.marshalStep_false st _ id inner h hi (Go.marshalStep_empty st _ inner hi)

/-- `true` allocates the zero Schema, `false` the falseSchema() pair; marshal ∘ unmarshal is the identity
    on boolean schemas -/
theorem unmarshal_bool :
    (∀ st : Store, Go.unmarshal (.bool true) st = .ok (st.alloc Go.emptyNode)) ∧
    (∀ st : Store, Go.unmarshal (.bool false) st = .ok (Go.allocFalse st)) ∧
    (∀ (b : Bool) (st : Store) (id : NodeId) (st' : Store),
      Go.unmarshal (.bool b) st = .ok (id, st') → Go.marshal st' id = .ok (.bool b)) := by
  refine ⟨Go.unmarshal_true, Go.unmarshal_false, ?_⟩
  intro b st id st' h
  cases b with
  | true =>
    rw [Go.unmarshal_true] at h
    cases h
    exact Go.marshal_alloc_empty st
  | false =>
    rw [Go.unmarshal_false] at h
    have h' : Go.allocFalse st = (id, st') := Res.ok.inj h
    have := Go.marshal_allocFalse st
    rw [h'] at this
    exact this

/-! ## no key is written twice -/

/-- the keys of the emitted object are pairwise distinct (top level): the struct names are distinct, the
    Extra keys are distinct (a Go map) and marshalStructWithMap's check keeps the two apart -/
theorem marshal_no_duplicate_keys (st : Store) (rec : Go.MRec) (id : NodeId) (n : Node)
    (ms : List (String × Json)) (hn : st.get? id = some n)
    (hx : ((n.extra.getD []).map (·.1)).Nodup)
    (h : Go.marshalStep st rec id = .ok (.obj ms)) : (ms.map (·.1)).Nodup :=
  Go.marshalStep_obj_keys_nodup hn h hx

/-- … and they come in the fixed order of the wrapper struct followed by Schema's declaration order,
    then the Extra keys (ascending) -/
theorem marshal_key_order (st : Store) (rec : Go.MRec) (id : NodeId) (n : Node)
    (ms : List (String × Json)) (hn : st.get? id = some n)
    (h : Go.marshalStep st rec id = .ok (.obj ms)) :
    (ms.map (·.1)).Sublist (Go.emittedNames ++ (Go.sortKV ((n.extra.getD []).map fun (k, v) => (k, Go.sortJson v))).map (·.1)) := by
  rw [Go.marshalStep_eq, hn] at h
  dsimp only at h
  by_cases h1 : (!Go.marshalChecksOk n) = true
  · rw [if_pos h1] at h; cases h
  · rw [if_neg h1] at h
    by_cases h2 : ((n.extra.getD []).any fun e => Go.structNames.contains e.1) = true
    · rw [if_pos h2] at h; cases h
    · rw [if_neg h2] at h
      exact Go.marshalNode_obj_keys h

/-- an Extra key that collides with a struct name is an error (marshalStructWithMap) -/
theorem marshal_extra_collision_rejected (st : Store) (rec : Go.MRec) (id : NodeId) (n : Node)
    (hn : st.get? id = some n) (e : String × Json) (he : e ∈ n.extra.getD [])
    (hk : e.1 ∈ Go.structNames) : ∃ r, Go.marshalStep st rec id = r ∧ (r = .err) := by
  refine ⟨_, rfl, ?_⟩
  rw [Go.marshalStep_eq, hn]
  dsimp only
  by_cases h1 : (!Go.marshalChecksOk n) = true
  · rw [if_pos h1]
  · rw [if_neg h1, if_pos]
    rw [List.any_eq_true]
    exact ⟨e, he, by simpa using hk⟩

/-! ## `$vocabulary`: only nil is omitted

  `Vocabulary map[string]bool` carries `omitempty`, which drops the EMPTY map as well as nil; but Resolve looks at the
  PRESENCE of the keyword (a schema with `$vocabulary` is refused unless `$schema` is the 2020-12 meta-schema), so a
  schema with an empty non-nil Vocabulary used to be written as a document that, read back, resolved although the
  original is refused (finding D26).  Since /repo c50c33e MarshalJSON routes the field through its wrapper struct as an
  `any`, like `enum` / `anyOf` / `oneOf`: only nil is omitted.  The table fact that pins the wrapper field is
  `marshal_shadow_nil_only` below; the position of the member (after "oneOf", before "$id") is part of
  `name_tables_agree` / `marshal_key_order`. -/

/-- a non-nil Vocabulary is written, whatever its size: the output of MarshalJSON is an object with the member
    `"$vocabulary"`, whose value is the map with its keys in ascending order -/
theorem marshal_keeps_vocabulary (st : Store) (rec : Go.MRec) (id : NodeId) (n : Node) (vs : List (String × Bool))
    (j : Json) (hn : st.get? id = some n) (hv : n.vocabulary = some vs) (h : Go.marshalStep st rec id = .ok j) :
    ∃ ms, j = .obj ms ∧ ("$vocabulary", Json.obj (Go.sortKV (vs.map fun (k, b) => (k, Json.bool b)))) ∈ ms := by
  rw [Go.marshalStep_eq, hn] at h
  dsimp only at h
  by_cases h1 : (!Go.marshalChecksOk n) = true
  · rw [if_pos h1] at h; cases h
  · rw [if_neg h1] at h
    by_cases h2 : ((n.extra.getD []).any fun e => Go.structNames.contains e.1) = true
    · rw [if_pos h2] at h; cases h
    · rw [if_neg h2] at h
      exact Go.marshalNode_vocab hv h

/-- **`marshal_keeps_empty_vocabulary`**: for every node with a non-nil EMPTY Vocabulary, whatever else it contains,
    MarshalJSON — one level (`Go.marshalStep`, any recursion) and the whole function (`Go.marshal`) — writes an object
    that has the member `"$vocabulary": {}` -/
theorem marshal_keeps_empty_vocabulary (st : Store) (id : NodeId) (n : Node) (j : Json)
    (hn : st.get? id = some n) (hv : n.vocabulary = some []) :
    (∀ rec : Go.MRec, Go.marshalStep st rec id = .ok j → ∃ ms, j = .obj ms ∧ ("$vocabulary", Json.obj []) ∈ ms) ∧
    (Go.marshal st id = .ok j → ∃ ms, j = .obj ms ∧ ("$vocabulary", Json.obj []) ∈ ms) :=
  ⟨fun rec h => marshal_keeps_vocabulary st rec id n [] j hn hv h,
   fun h => marshal_keeps_vocabulary st _ id n [] j hn hv h⟩

/-! ## Extra -/

/-- a Schema whose only non-zero field is Extra (at least one entry; keys that are no keyword; values
    already in the form encoding/json writes, i.e. object keys sorted at every depth) is written as the
    object of its entries in ascending key order, and reading that object back gives a Schema whose only
    non-zero field is Extra with the same entries (as a map: up to order).
    H_D4 (`hf`): no Extra key is a case variant of a keyword — encoding/json would decode such a member into
    the keyword's field as well (known finding D4, which the model reproduces). -/
theorem extra_roundtrip (st : Store) (mrec : Go.MRec) (urec : Go.URec) (id : NodeId)
    (es : List (String × Json)) (st2 : Store)
    (hn : st.get? id = some { extra := some es }) (hne : es ≠ [])
    (hk : ∀ e, e ∈ es → e.1 ∉ Go.knownKeys) (hf : ∀ e, e ∈ es → Go.isFoldedKey e.1 = false)
    (hs : ∀ e, e ∈ es → Go.sortJson e.2 = e.2) :
    Go.marshalStep st mrec id = .ok (.obj (Go.sortKV es)) ∧
    Go.unmarshalStep urec (.obj (Go.sortKV es)) st2 = .ok (st2.alloc { extra := some (Go.sortKV es) }) ∧
    (Go.sortKV es).Perm es := by
  have hp := Go.sortKV_perm es
  refine ⟨?_, ?_, hp⟩
  · exact Go.marshalStep_extra st mrec id es hn hne
      (fun e he hc => hk e he ((Go.structNames_iff_knownKeys _).1 hc)) hs
  · apply Go.unmarshalStep_extra
    · intro h0
      rw [h0] at hp
      exact hne hp.symm.eq_nil
    · intro e he
      exact hk e (hp.mem_iff.1 he)
    · intro e he
      exact hf e (hp.mem_iff.1 he)

/-! ## the scalar fragment of the round trip -/

/-- `roundtrip_scalar_fragment` — the `…_partial` of the full round trip `Unmarshal (Marshal s) ≅ s`.
    For a Schema that populates only string / bool / number / integer / string-list keywords
    ($id $schema $ref $comment $anchor $dynamicAnchor $dynamicRef title description deprecated readOnly
    writeOnly type(string or list) multipleOf minimum maximum exclusiveMinimum exclusiveMaximum minLength
    maxLength pattern minItems maxItems uniqueItems minContains maxContains minProperties maxProperties
    required contentEncoding contentMediaType format) and Extra — every other field zero (first
    hypothesis) —, with `type` and `types` not both set (basicChecks), the integer keywords inside the
    int32 window of the `integer` helper, Extra keys that are no keyword and Extra values in the form
    encoding/json writes: whatever MarshalJSON writes, UnmarshalJSON reads back as the same Schema, except
    that `required: []` (non-nil, empty: omitted by omitempty) comes back as nil (`Go.normReq`) and Extra
    comes back with its entries in ascending key order — the same map — or nil if empty (`Go.normExtra`).
    `urec` / `mrec` are arbitrary: no subschema is visited.
    H_D4 (`hf`): no Extra key is a case variant of a keyword (e.g. "Title") — encoding/json would decode such
    a member into the keyword's field as well (known finding D4, which the model reproduces). -/
theorem roundtrip_scalar_fragment (st : Store) (mrec : Go.MRec) (urec : Go.URec) (id : NodeId) (st2 : Store)
    (j : Json) (n : Node)
    (hs : { n with defs := none, definitions := none, dependencySchemas := none, dependencyStrings := none,
                   vocabulary := none, default := none, examples := none, enum := none, const := none,
                   prefixItems := none, items := none, itemsArray := none, additionalItems := none,
                   contains := none, unevaluatedItems := none, dependentRequired := none, properties := none,
                   patternProperties := none, additionalProperties := none, propertyNames := none,
                   unevaluatedProperties := none, allOf := none, anyOf := none, oneOf := none, not := none,
                   if_ := none, then_ := none, else_ := none, dependentSchemas := none, contentSchema := none,
                   propertyOrder := none } = n)
    (hT : (n.type != "" && n.types.isSome) = false)
    (h1 : Go.InInt32 n.minLength) (h2 : Go.InInt32 n.maxLength) (h3 : Go.InInt32 n.minItems)
    (h4 : Go.InInt32 n.maxItems) (h5 : Go.InInt32 n.minContains) (h6 : Go.InInt32 n.maxContains)
    (h7 : Go.InInt32 n.minProperties) (h8 : Go.InInt32 n.maxProperties)
    (hk : ∀ e, e ∈ n.extra.getD [] → e.1 ∉ Go.knownKeys)
    (hf : ∀ e, e ∈ n.extra.getD [] → Go.isFoldedKey e.1 = false)
    (hsj : ∀ e, e ∈ n.extra.getD [] → Go.sortJson e.2 = e.2)
    (hn : st.get? id = some n) (hj : Go.marshalStep st mrec id = .ok j) :
    Go.unmarshalStep urec j st2 =
      .ok (st2.alloc { n with required := Go.normReq n.required, extra := Go.normExtra n.extra }) :=
  Go.scalarOnly_roundtrip st mrec urec id st2 j n hs hT h1 h2 h3 h4 h5 h6 h7 h8 hk hf hsj hn hj

/-- `normReq` only changes the non-nil empty slice -/
theorem normReq_eq (r : Option (List String)) (h : r ≠ some []) : Go.normReq r = r := by
  unfold Go.normReq
  split
  · rfl
  · next hx =>
    cases r with
    | none => rfl
    | some l =>
      cases l with
      | nil => exact absurd rfl h
      | cons x xs => exact absurd rfl (hx x xs)

/-- `normExtra` keeps the map: nil or empty ↦ nil, otherwise a permutation (the key-sorted one) -/
theorem normExtra_perm (ex : Option (List (String × Json))) :
    ((Go.normExtra ex).getD []).Perm (ex.getD []) := by
  unfold Go.normExtra
  split
  · exact Go.sortKV_perm _
  · next hx =>
    cases ex with
    | none => exact List.Perm.refl _
    | some l =>
      cases l with
      | nil => exact List.Perm.refl _
      | cons e es => exact absurd rfl (hx e es)

/-- … so with `required` nil or non-empty and no Extra the Schema comes back exactly -/
theorem roundtrip_scalar_exact (st : Store) (mrec : Go.MRec) (urec : Go.URec) (id : NodeId) (st2 : Store)
    (j : Json) (n : Node) (hs : Go.ScalarOnly n)
    (hT : (n.type != "" && n.types.isSome) = false)
    (h1 : Go.InInt32 n.minLength) (h2 : Go.InInt32 n.maxLength) (h3 : Go.InInt32 n.minItems)
    (h4 : Go.InInt32 n.maxItems) (h5 : Go.InInt32 n.minContains) (h6 : Go.InInt32 n.maxContains)
    (h7 : Go.InInt32 n.minProperties) (h8 : Go.InInt32 n.maxProperties)
    (hr : n.required ≠ some []) (hx : n.extra = none)
    (hn : st.get? id = some n) (hj : Go.marshalStep st mrec id = .ok j) :
    Go.unmarshalStep urec j st2 = .ok (st2.alloc n) := by
  have h := Go.scalarOnly_roundtrip st mrec urec id st2 j n hs hT h1 h2 h3 h4 h5 h6 h7 h8
    (by rw [hx]; intro e he; cases he) (by rw [hx]; intro e he; cases he) (by rw [hx]; intro e he; cases he) hn hj
  rw [normReq_eq _ hr, hx] at h
  have e : ({ n with required := n.required, extra := Go.normExtra none } : Node) = n := by
    have : Go.normExtra none = n.extra := by rw [hx]; rfl
    rw [this]
  rw [e] at h
  exact h

/-- the int32 window is needed: MarshalJSON writes any `*int`, the `integer` helper of UnmarshalJSON
    rejects values outside int32 (so Marshal's output is not always accepted by Unmarshal) -/
example (mrec : Go.MRec) (urec : Go.URec) :
    Go.marshalStep #[{ minLength := some 2147483648 }] mrec 0 = .ok (.obj [("minLength", .num 2147483648)]) ∧
    Go.unmarshalStep urec (.obj [("minLength", .num 2147483648)]) #[] = .err :=
  ⟨by rfl, by rfl⟩

/-! ## the round trip of whole schema trees -/

/-- `TreeWF st id`: the tree below `id` — through the schema-valued keywords (`Node.children`: not, if / then / else,
    items / itemsArray / prefixItems / additionalItems, contains, additionalProperties, propertyNames, unevaluated*,
    contentSchema, allOf / anyOf / oneOf, properties / patternProperties / $defs / definitions / dependentSchemas /
    dependencySchemas) — is finite and acyclic (at most `st.size` deep), has no nil child, and every node of it
    satisfies `Go.nodeOK` and `Go.nodeOrd`:
    * MarshalJSON's own checks pass (not both `type` and `types`, not both `$defs` and `definitions`, not both `items`
      and `itemsArray`, no duplicate in PropertyOrder, DependencySchemas and DependencyStrings disjoint), no Extra key
      is a struct name;
    * H_D4: no Extra key is a case variant of a keyword;
    * the values of Extra, `enum`, `const`, `examples` are in the form encoding/json writes a decoded `any`
      (`Go.jsonSorted`: object keys ascending at every depth) — `default` is raw bytes, no condition;
    * the eight integer keywords are inside the int32 window of the `integer` helper (`Go.int32B`);
    * (`Go.nodeOrd`, only needed for "marshals again to the same JSON") "properties" is written in ascending key
      order, i.e. PropertyOrder — `json:"-"`, never read back — does not reorder it, and DependencySchemas is
      enumerated in ascending key order (a representation choice: the list order of a map field is its iteration
      order, which does not influence what is written).
    Decidable: `by decide` on concrete stores. -/
def TreeWF (st : Store) (id : NodeId) : Prop := Go.treeAll Go.nodeWF st st.size id = true

instance (st : Store) (id : NodeId) : Decidable (TreeWF st id) :=
  inferInstanceAs (Decidable (Go.treeAll Go.nodeWF st st.size id = true))

/-- `roundtrip_tree`.  For a well-formed tree: whatever MarshalJSON writes for it, UnmarshalJSON reads back — into any
    store `st₂` — as a tree that is equal to the original up to the documented normal forms (`Go.TreeEq`, i.e.
    `Go.normNode` at every node: every keyword and every Extra entry kept;
    `required: []` ↦ nil (`Go.normReq`); Extra in ascending key order or nil if empty (`Go.normExtra`);
    `examples: []`, `prefixItems: []`, `allOf: []` and every empty map other than `$vocabulary` ↦ nil (omitempty;
    `Go.normJL`, `Go.normList`, `Go.normMap`, `Go.normKV`), while `anyOf: []` / `oneOf: []` / `enum: []` /
    `itemsArray: []` / `properties: {}` / `$vocabulary: {}` are kept (`Go.normVocab`: a non-nil Vocabulary comes back
    non-nil); every map in ascending key order; a nil list in DependencyStrings ↦ `[]` (`Go.normDepStrs`);
    "properties" in the order orderedProperties wrote it (`Go.propEntries`), PropertyOrder nil; every schema-valued
    keyword pointing to the rebuilt copy of its subtree — the boolean schemas `true` / `false` come back as
    `&Schema{}` / `&Schema{Not: &Schema{}}` whatever node was written as `true` / `false`),
    and marshaling the rebuilt tree gives the same JSON value again.
    Member kinds covered: all of them — the single-schema, schema-list and schema-map members including "properties"
    (orderedProperties), the "items" union and the draft-07 "dependencies" union; the scalar members, `type` (string
    or list), `required`, the `any`-typed members (enum, const, default, examples), `$vocabulary`,
    `dependentRequired` and Extra.  Excluded by `TreeWF`: nil children (a `null` in a schema position). -/
theorem roundtrip_tree (st : Store) (id : NodeId) (j : Json) (st₂ : Store)
    (hwf : TreeWF st id) (hj : Go.marshal st id = .ok j) :
    ∃ id' st₂', Go.unmarshal j st₂ = .ok (id', st₂') ∧ Go.TreeEq st st₂' (st.size + 2) id id' ∧
      Go.marshal st₂' id' = .ok j :=
  Go.roundtrip_tree_core st st.size id j st₂ hwf hj

/-- the first half without the condition on the order of "properties": any depth bound `d`, only `Go.nodeOK` at
    every node; the old store is untouched (`Go.Ext`) -/
theorem roundtrip_tree_eq (st : Store) (d : Nat) (id : NodeId) (j : Json) (st₂ : Store)
    (hwf : Go.treeAll Go.nodeOK st d id = true) (hj : Go.marshal st id = .ok j) :
    ∃ id' st₂', Go.unmarshal j st₂ = .ok (id', st₂') ∧ Go.Ext st₂ st₂' ∧ Go.TreeEq st st₂' (st.size + 2) id id' := by
  obtain ⟨id', st₂', h1, h2, h3, -⟩ := Go.roundtrip_tree_eq_core st d id j st₂ hwf hj
  exact ⟨id', st₂', h1, h2, h3⟩

/-- what `Go.TreeEq` says at the root: both nodes exist and agree — up to `Go.normNode` — on every keyword that is
    not schema-valued (`setChildFields · []` erases the schema-valued ones) … -/
theorem treeEq_root {st st' : Store} {d : Nat} {a b : NodeId} (h : Go.TreeEq st st' d a b) :
    ∃ n n', st.get? a = some n ∧ st'.get? b = some n' ∧
      Go.setChildFields n' [] = Go.setChildFields (Go.normNode n) [] := by
  cases d with
  | zero => exact h.elim
  | succ d =>
    obtain ⟨n, n', ha, hb, fs', -, rfl⟩ := h
    exact ⟨n, _, ha, hb, rfl⟩

/-- … and the schema-valued keywords have the same shape and keys, with equal subtrees below them (`Go.NodeRel`) -/
theorem treeEq_children {st st' : Store} {d : Nat} {a b : NodeId} (h : Go.TreeEq st st' (d + 1) a b) :
    ∃ n n', st.get? a = some n ∧ st'.get? b = some n' ∧ Go.NodeRel (Go.TreeEq st st' d) (Go.normNode n) n' := h

/-- `$vocabulary` has no nil-vs-empty normal form: the node read back has a Vocabulary exactly when the original has
    one (the empty map comes back as the empty map), with the same entries in ascending key order -/
theorem treeEq_vocabulary {st st' : Store} {d : Nat} {a b : NodeId} (h : Go.TreeEq st st' d a b) :
    ∃ n n', st.get? a = some n ∧ st'.get? b = some n' ∧ n'.vocabulary = n.vocabulary.map Go.sortKV ∧
      n'.vocabulary.isSome = n.vocabulary.isSome ∧ (n.vocabulary = some [] → n'.vocabulary = some []) := by
  obtain ⟨n, n', ha, hb, e⟩ := treeEq_root h
  have ev : n'.vocabulary = n.vocabulary.map Go.sortKV := congrArg (·.vocabulary) e
  refine ⟨n, n', ha, hb, ev, ?_, fun h0 => ?_⟩
  · rw [ev]; cases n.vocabulary <;> rfl
  · rw [ev, h0]; rfl

/-- equal trees marshal identically, whatever the fuel (the second half of `roundtrip_tree`) -/
theorem treeEq_marshal {st st' : Store} (f d d' : Nat) (a b : NodeId)
    (hwf : Go.treeAll Go.nodeWF st d a = true) (h : Go.TreeEq st st' d' a b) :
    Go.marshalFuel st f a = Go.marshalFuel st' f b :=
  Go.TreeEq.marshal_eq f d d' a b hwf h

/-! ## the tree read back means the same (reference-free trees) -/

/-- every normal form of the round trip is invisible to the Spec (`Spec.evalStep`).  `Go.normNode` applied to EVERY schema
    object of a store — ids, resolution tables, dynamic scope unchanged — changes no result, except for the order in which
    evaluated property names are listed (`Inv.OutSim`: undefined together, invalid together, valid together with the same
    evaluated properties and items as sets).  Normal form by normal form (JSV/Proofs/IsoValid.lean):
    * `required: []` ↦ nil, `allOf: []` / `prefixItems: []` ↦ nil, every empty map ↦ nil, a nil list in DependencyStrings
      ↦ `[]`, and the fields `evalStep` does not read (Extra, PropertyOrder, `examples`, `$vocabulary`, `$defs`,
      `definitions`): no result changes at all (`Iso.preNorm_invisible`, `Iso.evalFuel_map`);
    * "properties" in emission order: `evalStep` only looks properties up by name and orderedProperties keeps every
      lookup (`Iso.lookup_propEntries`): no result changes at all;
    * the other maps in ascending key order: this can change the ORDER of the evaluated-property list (`dependentSchemas`:
      example at the end of the file), never its members, never the verdict (`Inv.evalFuel_sim`, the lemma behind C14);
    * `true` / `false` coming back as `&Schema{}` / `&Schema{Not: &Schema{}}`: `Go.TreeEq` describes such a node like any
      other — what comes back is its `normNode` with the rebuilt children — so nothing separate is to be shown.
    So no normal form is observable by validation; there is no counterexample.
    `Refine.StoreWF st`: "properties" maps have distinct keys (Go maps); `Json.WF inst`: the instance has no duplicate key. -/
theorem normal_forms_invisible (env : Spec.Env) (st : Store) (hst : Refine.StoreWF st) (fuel : Nat) (scope : List NodeId)
    (s : NodeId) (inst : Json) (hinst : Json.WF inst = true) :
    Inv.OutSim (Spec.evalFuel { env with st := st } fuel scope s inst)
      (Spec.evalFuel { env with st := st.map Go.normNode } fuel scope s inst) :=
  Iso.normNode_invisible env st hst fuel scope s inst hinst

/-- `treeEq_meaning_partial`.  Two trees equal up to the normal forms (`Go.TreeEq`), the left one REFERENCE-FREE
    (`Go.treeAll Iso.noRefs st d a`: every schema object of the tree exists and has no `$ref` and no `$dynamicRef`;
    decidable), mean the same: with ANY resolution tables on either side (never consulted — hence nothing is asked about
    `$id` / `$anchor` / `$dynamicAnchor`), the same draft and regexp matcher, every instance gets Spec results that agree
    up to the order of the evaluated-property list, in particular the same verdict, with every amount of fuel.
    Proof: the normal forms are invisible (`normal_forms_invisible`), and validity is invariant under the renaming of node
    ids that `Go.TreeEq` describes (`Iso.evalFuel_sim`).
    PARTIAL: trees containing `$ref` / `$dynamicRef` are not covered by THIS statement (arbitrary, unrelated tables) —
    their meaning depends on what `Resolve` computes for each of the two trees; for them see `treeEq_meaning_resolved_partial` /
    `roundtrip_tree_meaning_resolved_partial` below (`Resolve` on both sides; the two resolutions are related, `Go.RIso.treeEq_resolves`). -/
theorem treeEq_meaning_partial {st st' : Store} {d : Nat} {a b : NodeId} (hte : Go.TreeEq st st' d a b)
    (hfree : Go.treeAll Iso.noRefs st d a = true) (hst : Refine.StoreWF st) (env env' : Spec.Env)
    (hd : env.draft = env'.draft) (hre : env.reMatch = env'.reMatch) (fuel : Nat) (inst : Json)
    (hinst : Json.WF inst = true) :
    Inv.OutSim (Spec.evalFuel { env with st := st } fuel [] a inst)
        (Spec.evalFuel { env' with st := st' } fuel [] b inst) ∧
      Spec.valid { env with st := st } fuel a inst = Spec.valid { env' with st := st' } fuel b inst := by
  have h := Iso.treeEq_meaning hte hfree hst env env' hd hre fuel inst hinst
  exact ⟨h, Iso.valid_of_outSim h⟩


/-- `roundtrip_tree_meaning_partial`.  The tree `UnmarshalJSON` reads back from what `MarshalJSON` wrote accepts exactly
    the instances the original accepts — for a well-formed (`TreeWF`), REFERENCE-FREE tree (no `$ref`, no `$dynamicRef`
    below `id`; see `treeEq_meaning_partial`, also for what PARTIAL excludes: trees with references need `Resolve` on both
    sides). -/
theorem roundtrip_tree_meaning_partial (st : Store) (id : NodeId) (j : Json) (st₂ : Store)
    (hwf : TreeWF st id) (hj : Go.marshal st id = .ok j)
    (hfree : Go.treeAll Iso.noRefs st st.size id = true) (hst : Refine.StoreWF st)
    (env env' : Spec.Env) (hd : env.draft = env'.draft) (hre : env.reMatch = env'.reMatch) :
    ∃ id' st₂', Go.unmarshal j st₂ = .ok (id', st₂') ∧ ∀ fuel inst, Json.WF inst = true →
      Inv.OutSim (Spec.evalFuel { env with st := st } fuel [] id inst)
        (Spec.evalFuel { env' with st := st₂' } fuel [] id' inst) ∧
      Spec.valid { env with st := st } fuel id inst = Spec.valid { env' with st := st₂' } fuel id' inst := by
  obtain ⟨id', st₂', hu, hte, -⟩ := roundtrip_tree st id j st₂ hwf hj
  exact ⟨id', st₂', hu, fun fuel inst hinst =>
    treeEq_meaning_partial hte (Go.treeAll_mono (Go.treeAll_mono hfree)) hst env env' hd hre fuel inst hinst⟩


/-- … and for the evaluator itself (`Go.validateFuel`, through `C01.validate_refines_spec`): on two resolved environments
    over the two stores — well formed as `Resolve` leaves them, same draft and regexp matcher, otherwise unrelated —
    wherever the Spec decides, validating against the original and against the tree read back both fail or both succeed.
    PARTIAL: reference-free trees only. -/
theorem treeEq_validate_same_partial {d : Nat} {a b : NodeId} (env₁ env₂ : Go.VEnv)
    (hte : Go.TreeEq env₁.st env₂.st d a b) (hfree : Go.treeAll Iso.noRefs env₁.st d a = true)
    (hwf₁ : Refine.EnvWF env₁) (hwf₂ : Refine.EnvWF env₂) (hst₁ : Refine.StoreWF env₁.st)
    (hst₂ : Refine.StoreWF env₂.st) (hd : env₁.draft = env₂.draft) (hre : env₁.reMatch = env₂.reMatch)
    (fuel : Nat) (inst : Json) (hinst : Json.WF inst = true)
    (hdec : (Spec.evalFuel (Refine.specEnvOf env₁) fuel [] a inst).isSome = true) :
    (Go.validateFuel env₁ fuel [] (GoVal.ofJson inst) a = .err ∧
        Go.validateFuel env₂ fuel [] (GoVal.ofJson inst) b = .err) ∨
      ∃ a₁ a₂, Go.validateFuel env₁ fuel [] (GoVal.ofJson inst) a = .ok a₁ ∧
        Go.validateFuel env₂ fuel [] (GoVal.ofJson inst) b = .ok a₂ := by
  have h : Inv.OutSim (Spec.evalFuel (Refine.specEnvOf env₁) fuel [] a inst)
      (Spec.evalFuel (Refine.specEnvOf env₂) fuel [] b inst) :=
    Iso.treeEq_meaning hte hfree hst₁ (Refine.specEnvOf env₁) (Refine.specEnvOf env₂) hd hre fuel inst hinst
  exact Iso.same_verdict_of_outSim h (Refine.validate_refines_spec_root env₁ hwf₁ hst₁ fuel a inst hinst)
    (Refine.validate_refines_spec_root env₂ hwf₂ hst₂ fuel b inst hinst) hdec

/-! ## the tree read back means the same (trees WITH references: both sides resolved) -/

/-- `treeEq_resolves_partial`: **Resolve commutes with the JSON round trip** (self-contained resolution: no Loader, or
    a Loader that hands out no document — `Go.RIso.NoDocs`).  `b` in `st'` is the tree read back from the well-formed
    tree below `a` in `st` (`Go.TreeEq`); the maps of `st` have distinct keys (`Go.RPerm.StoreKeysNodup`: they are Go
    maps; decidable, `Go.RPerm.keysNodupB`); both stores are smaller than the model's nil id 10^9.  If `Resolve` of `a`
    returns normally and checkStructure accepts `b`, then `Resolve` of `b` — same options, same base URI, same fuel —
    returns normally, with the same draft and the same Loader log, and every instance (without duplicate keys) gets Spec
    results from the two that agree up to the order in which evaluated property names are listed — in particular the same
    verdict — with every amount of fuel, whatever `$ref` / `$dynamicRef` / `$id` / `$anchor` / `$dynamicAnchor` the tree
    contains.  Every normal form of `Go.normNode` is invisible to Resolve: the nil-vs-empty ones and the fields it does
    not read (`Go.RIso.rnode_preNorm`; an empty `$defs` coming back as nil only REMOVES a reason for checkLocal to
    fail), the order of the maps (`resolve_perm_invariant`, C14), the rebuilt children (`Go.RIso.resolve_rel`, the
    simulation of the resolver along a renaming of node ids).
    DIRECTION.  The statement is directional (original resolves ⇒ tree read back resolves).  Before /repo c50c33e the
    converse was FALSE because of one normal form: an empty non-nil `$vocabulary` was dropped by `omitempty`, so the
    tree read back lost a reason for checkLocal to fail (finding D26).  With the fix `$vocabulary` has no nil-vs-empty
    normal form any more (`Go.normVocab`, `treeEq_vocabulary`, `marshal_keeps_empty_vocabulary`), and under the
    hypothesis `hwf` (MarshalJSON's basicChecks pass at every node, so not both `$defs` and `definitions`) checkLocal
    gives the same answer on a node and on its normal form.  What is left of the restriction does not come from a
    normal form: (a) the original may share a schema object between two positions (a DAG: refused by checkStructure,
    "do not form a tree") while the tree read back never does — the converse would need "checkStructure accepts `a`"
    as the mirror image of `hcs`; (b) the simulation lemma `Go.RIso.resolve_rel` is itself directional (`DirRel`,
    `RNode.localOk` is an implication), so the converse — expected to hold under (a) — is not proved here.
    PARTIAL in one respect: "checkStructure accepts `b`" — i.e. the tree read back is a tree, every JSON object having
    been decoded into a fresh `Schema` — is assumed here, for an arbitrary `st'` (for CloneSchemas the corresponding
    fact is `C20.clone_is_tree`).  When `b` does come out of UnmarshalJSON it is a theorem, `unmarshal_is_tree`, and
    the hypothesis is gone: `treeEq_resolves_unmarshal`, `roundtrip_tree_resolves`, `roundtrip_tree_meaning_resolved`. -/
theorem treeEq_resolves_partial (st st' : Store) (env : Go.Env) (hnd : Go.RIso.NoDocs env)
    (hk : Go.RPerm.StoreKeysNodup st) (hs : st.size ≤ 1000000000) (hs' : st'.size ≤ 1000000000) {a b : NodeId} {d : Nat}
    (hte : Go.TreeEq st st' d a b) (hwf : Go.treeAll Go.nodeOK st d a = true) (fuel : Nat) (base : String)
    (rs : Go.Resolved) (h₁ : Go.resolve { env with st := st } fuel a base = .ok rs) (f' : Nat)
    (fresh' : List (NodeId × Go.Info)) (hcs : Go.checkStructure st' f' [(b, "")] [] = .ok fresh') :
    ∃ rs', Go.resolve { env with st := st' } fuel b base = .ok rs' ∧ rs.draft = rs'.draft ∧ rs.log = rs'.log ∧
      ∀ (reMatch : String → String → Bool) (vfuel : Nat) (inst : Json), Json.WF inst = true →
        Inv.OutSim (Spec.evalFuel (Go.RIso.specOf st rs reMatch) vfuel [] a inst)
            (Spec.evalFuel (Go.RIso.specOf st' rs' reMatch) vfuel [] b inst) ∧
          Spec.valid (Go.RIso.specOf st rs reMatch) vfuel a inst =
            Spec.valid (Go.RIso.specOf st' rs' reMatch) vfuel b inst := by
  obtain ⟨rs', h₂, e1, e2, e3⟩ := Go.RIso.treeEq_resolves st st' env hnd hk hs hs' hte
    (Go.treeAll_imp Go.RIso.orderOK_of_nodeOK hwf) fuel base h₁ hcs
  exact ⟨rs', h₂, e1, e2, fun reMatch vfuel inst hinst =>
    ⟨e3 reMatch vfuel inst hinst, Iso.valid_of_outSim (e3 reMatch vfuel inst hinst)⟩⟩

/-- `treeEq_meaning_resolved_partial`: two trees equal up to the normal forms of the round trip (`Go.TreeEq`), EACH
    RESOLVED ON ITS OWN (same options, base URI and fuel), have the same draft and Loader log and accept the same
    instances: Spec results that agree up to the order of the evaluated-property list, the same verdict, with every
    amount of fuel.  No hypothesis on `$ref` / `$dynamicRef`.
    PARTIAL: (i) the resolution is self-contained (`NoDocs`; with documents fetched through a Loader:
    `roundtrip_tree_meaning_resolved_docs`, as `C20.clone_validates_same_docs` for CloneSchemas); (ii) that
    `Resolve` of the second tree returns normally is a hypothesis here (`h₂`); it follows from `Resolve` of the first one returning normally when checkStructure accepts
    the second tree (`treeEq_resolves_partial`). -/
theorem treeEq_meaning_resolved_partial (st st' : Store) (env : Go.Env) (hnd : Go.RIso.NoDocs env)
    (hk : Go.RPerm.StoreKeysNodup st) (hs : st.size ≤ 1000000000) (hs' : st'.size ≤ 1000000000) {a b : NodeId} {d : Nat}
    (hte : Go.TreeEq st st' d a b) (hwf : Go.treeAll Go.nodeOK st d a = true) (fuel : Nat) (base : String)
    (rs rs' : Go.Resolved) (h₁ : Go.resolve { env with st := st } fuel a base = .ok rs)
    (h₂ : Go.resolve { env with st := st' } fuel b base = .ok rs') :
    rs.draft = rs'.draft ∧ rs.log = rs'.log ∧
      ∀ (reMatch : String → String → Bool) (vfuel : Nat) (inst : Json), Json.WF inst = true →
        Inv.OutSim (Spec.evalFuel (Go.RIso.specOf st rs reMatch) vfuel [] a inst)
            (Spec.evalFuel (Go.RIso.specOf st' rs' reMatch) vfuel [] b inst) ∧
          Spec.valid (Go.RIso.specOf st rs reMatch) vfuel a inst =
            Spec.valid (Go.RIso.specOf st' rs' reMatch) vfuel b inst := by
  obtain ⟨fresh', hcs⟩ := Go.RIso.resolve_ok_cs { env with st := st' } fuel b base rs' h₂
  obtain ⟨rs'', h₂', e1, e2, e3⟩ := treeEq_resolves_partial st st' env hnd hk hs hs' hte hwf fuel base rs h₁ _ fresh' hcs
  rw [h₂] at h₂'
  cases h₂'
  exact ⟨e1, e2, e3⟩

/-- **`roundtrip_tree_meaning_resolved_partial`** (C05, no carve-out on references).  For a well-formed tree (`TreeWF`)
    in a store whose maps have distinct keys: whatever MarshalJSON writes, UnmarshalJSON reads back — into any store
    `st₂` — as a tree `id'` such that, whenever the original and the tree read back are EACH RESOLVED ON ITS OWN (same
    options, same base URI, stores below the nil id), they have the same draft and Loader log and accept exactly the same
    instances (the same verdict; Spec results equal up to the order of the evaluated-property list), with every amount
    of fuel — trees with `$ref` / `$dynamicRef` / `$id` / `$anchor` / `$dynamicAnchor` included.
    PARTIAL: (i) self-contained resolution only (`NoDocs`); (ii) that `Resolve` of the tree read back does return
    normally when `Resolve` of the original does is a hypothesis here (`treeEq_resolves_partial` derives it from
    "checkStructure accepts the tree read back").  Superseded by `roundtrip_tree_meaning_resolved`, where (ii) is
    proved (`unmarshal_is_tree`: UnmarshalJSON decodes every JSON object into a fresh `Schema`). -/
theorem roundtrip_tree_meaning_resolved_partial (st : Store) (id : NodeId) (j : Json) (st₂ : Store)
    (hwf : TreeWF st id) (hj : Go.marshal st id = .ok j) (hk : Go.RPerm.StoreKeysNodup st)
    (hs : st.size ≤ 1000000000) (env : Go.Env) (hnd : Go.RIso.NoDocs env) :
    ∃ id' st₂', Go.unmarshal j st₂ = .ok (id', st₂') ∧
      ∀ (fuel : Nat) (base : String) (rs rs' : Go.Resolved), st₂'.size ≤ 1000000000 →
        Go.resolve { env with st := st } fuel id base = .ok rs →
        Go.resolve { env with st := st₂' } fuel id' base = .ok rs' →
        rs.draft = rs'.draft ∧ rs.log = rs'.log ∧
          ∀ (reMatch : String → String → Bool) (vfuel : Nat) (inst : Json), Json.WF inst = true →
            Inv.OutSim (Spec.evalFuel (Go.RIso.specOf st rs reMatch) vfuel [] id inst)
                (Spec.evalFuel (Go.RIso.specOf st₂' rs' reMatch) vfuel [] id' inst) ∧
              Spec.valid (Go.RIso.specOf st rs reMatch) vfuel id inst =
                Spec.valid (Go.RIso.specOf st₂' rs' reMatch) vfuel id' inst := by
  obtain ⟨id', st₂', hu, hte, -⟩ := roundtrip_tree st id j st₂ hwf hj
  have hok : Go.treeAll Go.nodeOK st (st.size + 2) id = true :=
    Go.treeAll_mono (Go.treeAll_mono (Go.treeAll_imp
      (fun n hn => by simp only [Go.nodeWF, Bool.and_eq_true] at hn; exact hn.1) hwf))
  exact ⟨id', st₂', hu, fun fuel base rs rs' hs' h₁ h₂ =>
    treeEq_meaning_resolved_partial st st₂' env hnd hk hs hs' hte hok fuel base rs rs' h₁ h₂⟩

/-! ## the tree read back IS a tree: no hypothesis on checkStructure left -/

/-- `unmarshal_tree_upto_nil`.  What UnmarshalJSON allocates is a tree, for EVERY JSON value `j` and every store: in the
    store where the nil elements of schema lists and schema maps are dropped (`Go.UTree.patch`: a `null` ELEMENT of
    `allOf`, `properties`, … is decoded into a nil pointer — the only thing checkStructure can object to), checkStructure
    accepts the schema read back, and every schema it registers is a node allocated by the call.  Covered: duplicate
    keys; a case variant of a keyword overwriting the field an earlier member has set (`Go.canonKey` / `Go.setMember`:
    the earlier subtree becomes unreachable); the "items" union (each form clears the other); "dependencies" (schema
    entries appended one by one, over several members too); boolean schemas (`false` is two nodes).
    Proof (JSV/Proofs/MshIsTree.lean): every call of the recursion returns a node whose subtree lies in the interval of
    ids `[size before, size after)`; the subtrees of two members occupy disjoint intervals. -/
theorem unmarshal_tree_upto_nil (j : Json) (st : Store) (id : NodeId) (st' : Store)
    (h : Go.unmarshal j st = .ok (id, st')) :
    Go.Ext st st' ∧ ∃ f' fresh', Go.checkStructure (Go.UTree.patch st') f' [(id, "")] [] = .ok fresh' ∧
      ∀ k, k ∈ fresh'.map (·.1) → st.size ≤ k ∧ k < st'.size := by
  obtain ⟨e, D, ⟨f, hf⟩, hi⟩ := Go.UTree.unmarshalFuel_tree (j.size + 1) j st id st' "" h
  exact ⟨e, f, D, hf, hi⟩

/-- **`unmarshal_is_tree`**.  If every schema below the one read back exists (`Go.Full`: no `null` element of a schema
    list or schema map was decoded into a nil pointer; `d` is any bound on the depth) and the store stays below the
    model's nil id 10^9, checkStructure accepts the schema read back — it is a tree: every schema below it is met
    once —, and every schema it registers is a node allocated by the call.  Any JSON value, any store (see
    `unmarshal_tree_upto_nil` for what that covers).  The counterpart of `C20.clone_is_tree`. -/
theorem unmarshal_is_tree (j : Json) (st : Store) (id : NodeId) (st' : Store) (d : Nat)
    (h : Go.unmarshal j st = .ok (id, st')) (hfull : Go.Full st' d id) (hsz : st'.size ≤ 1000000000) :
    ∃ f' fresh', Go.checkStructure st' f' [(id, "")] [] = .ok fresh' ∧
      ∀ k, k ∈ fresh'.map (·.1) → st.size ≤ k ∧ k < st'.size :=
  Go.UTree.unmarshal_checkStructure j st id st' "" d h hfull hsz

/-- the tree read back from what MarshalJSON wrote for a well-formed tree is a tree: checkStructure accepts it -/
theorem roundtrip_tree_is_tree (st : Store) (id : NodeId) (j : Json) (st₂ : Store) (id' : NodeId) (st₂' : Store)
    (hwf : TreeWF st id) (hj : Go.marshal st id = .ok j) (hu : Go.unmarshal j st₂ = .ok (id', st₂'))
    (hs' : st₂'.size ≤ 1000000000) :
    ∃ f' fresh', Go.checkStructure st₂' f' [(id', "")] [] = .ok fresh' ∧
      ∀ k, k ∈ fresh'.map (·.1) → st₂.size ≤ k ∧ k < st₂'.size := by
  obtain ⟨id'', st₂'', hu', hte, -⟩ := roundtrip_tree st id j st₂ hwf hj
  rw [hu] at hu'
  cases hu'
  exact unmarshal_is_tree j st₂ id' st₂' _ hu hte.full hs'

/-- `treeEq_resolves_unmarshal`: `treeEq_resolves_partial` when the second tree comes out of UnmarshalJSON (of any JSON
    value `j`, into any store `st₂`): that checkStructure accepts it is no hypothesis any more (`unmarshal_is_tree`;
    `Go.TreeEq` says that every schema below `b` exists). -/
theorem treeEq_resolves_unmarshal (st st₂ st' : Store) (j : Json) (env : Go.Env) (hnd : Go.RIso.NoDocs env)
    (hk : Go.RPerm.StoreKeysNodup st) (hs : st.size ≤ 1000000000) (hs' : st'.size ≤ 1000000000) {a b : NodeId} {d : Nat}
    (hu : Go.unmarshal j st₂ = .ok (b, st'))
    (hte : Go.TreeEq st st' d a b) (hwf : Go.treeAll Go.nodeOK st d a = true) (fuel : Nat) (base : String)
    (rs : Go.Resolved) (h₁ : Go.resolve { env with st := st } fuel a base = .ok rs) :
    ∃ rs', Go.resolve { env with st := st' } fuel b base = .ok rs' ∧ rs.draft = rs'.draft ∧ rs.log = rs'.log ∧
      ∀ (reMatch : String → String → Bool) (vfuel : Nat) (inst : Json), Json.WF inst = true →
        Inv.OutSim (Spec.evalFuel (Go.RIso.specOf st rs reMatch) vfuel [] a inst)
            (Spec.evalFuel (Go.RIso.specOf st' rs' reMatch) vfuel [] b inst) ∧
          Spec.valid (Go.RIso.specOf st rs reMatch) vfuel a inst =
            Spec.valid (Go.RIso.specOf st' rs' reMatch) vfuel b inst := by
  obtain ⟨f', fresh', hcs, -⟩ := unmarshal_is_tree j st₂ b st' d hu hte.full hs'
  exact treeEq_resolves_partial st st' env hnd hk hs hs' hte hwf fuel base rs h₁ f' fresh' hcs

/-- **`roundtrip_tree_resolves`** (C05): Resolve commutes with the JSON round trip.  For a well-formed tree (`TreeWF`)
    in a store whose maps have distinct keys: if `Resolve` of the original returns normally, then `Resolve` of the
    tree UnmarshalJSON reads back from what MarshalJSON wrote — same options, same base URI, same fuel; read back into
    any store `st₂`; stores below the nil id 10^9 — returns normally as well, with the same draft and the same Loader
    log.  No hypothesis on the tree read back: that it is a tree is `roundtrip_tree_is_tree`.
    Restriction left: self-contained resolution (`Go.RIso.NoDocs`: no Loader, or a Loader that hands out no document);
    with documents fetched through a Loader: `roundtrip_tree_meaning_resolved_docs` below. -/
theorem roundtrip_tree_resolves (st : Store) (id : NodeId) (j : Json) (st₂ : Store) (id' : NodeId) (st₂' : Store)
    (hwf : TreeWF st id) (hj : Go.marshal st id = .ok j) (hu : Go.unmarshal j st₂ = .ok (id', st₂'))
    (hk : Go.RPerm.StoreKeysNodup st) (hs : st.size ≤ 1000000000) (hs' : st₂'.size ≤ 1000000000)
    (env : Go.Env) (hnd : Go.RIso.NoDocs env) (fuel : Nat) (base : String) (rs : Go.Resolved)
    (h₁ : Go.resolve { env with st := st } fuel id base = .ok rs) :
    ∃ rs', Go.resolve { env with st := st₂' } fuel id' base = .ok rs' ∧ rs.draft = rs'.draft ∧ rs.log = rs'.log := by
  obtain ⟨id'', st₂'', hu', hte, -⟩ := roundtrip_tree st id j st₂ hwf hj
  rw [hu] at hu'
  cases hu'
  have hok : Go.treeAll Go.nodeOK st (st.size + 2) id = true :=
    Go.treeAll_mono (Go.treeAll_mono (Go.treeAll_imp
      (fun n hn => by simp only [Go.nodeWF, Bool.and_eq_true] at hn; exact hn.1) hwf))
  obtain ⟨rs', h₂, e1, e2, -⟩ := treeEq_resolves_unmarshal st st₂ st₂' j env hnd hk hs hs' hu hte hok fuel base rs h₁
  exact ⟨rs', h₂, e1, e2⟩

/-- **`roundtrip_tree_meaning_resolved`** (C05, no carve-out on references, no hypothesis on the tree read back).  For a
    well-formed tree (`TreeWF`) in a store whose maps have distinct keys: if `Resolve` of the original returns normally,
    `Resolve` of the tree read back returns normally, and the two — EACH RESOLVED ON ITS OWN — accept exactly the same
    instances: for every instance without duplicate keys, with every amount of fuel, Spec results that agree up to the
    order of the evaluated-property list, in particular the same verdict; trees with `$ref` / `$dynamicRef` / `$id` /
    `$anchor` / `$dynamicAnchor` included.
    Hypotheses: `TreeWF`; MarshalJSON wrote `j`; UnmarshalJSON read `j` back (into any store); `Resolve` of the original
    returns normally; the maps of the original store have distinct keys (they are Go maps); both stores below the
    model's nil id; self-contained resolution (`NoDocs`; lifted in `roundtrip_tree_meaning_resolved_docs`). -/
theorem roundtrip_tree_meaning_resolved (st : Store) (id : NodeId) (j : Json) (st₂ : Store) (id' : NodeId) (st₂' : Store)
    (hwf : TreeWF st id) (hj : Go.marshal st id = .ok j) (hu : Go.unmarshal j st₂ = .ok (id', st₂'))
    (hk : Go.RPerm.StoreKeysNodup st) (hs : st.size ≤ 1000000000) (hs' : st₂'.size ≤ 1000000000)
    (env : Go.Env) (hnd : Go.RIso.NoDocs env) (fuel : Nat) (base : String) (rs : Go.Resolved)
    (h₁ : Go.resolve { env with st := st } fuel id base = .ok rs) :
    ∃ rs', Go.resolve { env with st := st₂' } fuel id' base = .ok rs' ∧ rs.draft = rs'.draft ∧ rs.log = rs'.log ∧
      ∀ (reMatch : String → String → Bool) (vfuel : Nat) (inst : Json), Json.WF inst = true →
        Inv.OutSim (Spec.evalFuel (Go.RIso.specOf st rs reMatch) vfuel [] id inst)
            (Spec.evalFuel (Go.RIso.specOf st₂' rs' reMatch) vfuel [] id' inst) ∧
          Spec.valid (Go.RIso.specOf st rs reMatch) vfuel id inst =
            Spec.valid (Go.RIso.specOf st₂' rs' reMatch) vfuel id' inst := by
  obtain ⟨id'', st₂'', hu', hte, -⟩ := roundtrip_tree st id j st₂ hwf hj
  rw [hu] at hu'
  cases hu'
  have hok : Go.treeAll Go.nodeOK st (st.size + 2) id = true :=
    Go.treeAll_mono (Go.treeAll_mono (Go.treeAll_imp
      (fun n hn => by simp only [Go.nodeWF, Bool.and_eq_true] at hn; exact hn.1) hwf))
  exact treeEq_resolves_unmarshal st st₂ st₂' j env hnd hk hs hs' hu hte hok fuel base rs h₁

/-- **`roundtrip_tree_meaning_resolved_docs`**: the same WITH documents fetched through a Loader (no `NoDocs`).  The
    Loader universe is shared by both sides: `L` is a set of schemas (ids, nil ones included) that contains the root of
    every document the Loader hands out, is closed under the schema-valued fields, is disjoint from the tree of `id`
    (`hLdis`, as in `C20.clone_validates_same_docs`), and is also present, unchanged, in the store `st₂` the schema is
    read back into (`hLst₂`, `hLeq`: e.g. `st₂ = st`, the schema is read back into the heap it was written from, next
    to the Loader documents).  If `Resolve` of the original returns normally — references into Loader documents, and
    from Loader documents back into the root document, included — then `Resolve` of the tree read back against the same
    Loader returns normally with the same draft and the same Loader log (the same URIs fetched in the same order), and
    the two accept exactly the same instances.
    How the store-wide normalisation of `treeEq_resolves_partial` is avoided: the normal forms are applied to every schema
    OUTSIDE `L` only (`Go.RIso.mapOff`; JSV/Proofs/ResIsoNormDocs.lean), so the two sides still agree on the Loader
    universe; the tree of `id` lies outside `L`, in the set of schemas checkStructure registers for it. -/
theorem roundtrip_tree_meaning_resolved_docs (st : Store) (id : NodeId) (j : Json) (st₂ : Store) (id' : NodeId)
    (st₂' : Store) (hwf : TreeWF st id) (hj : Go.marshal st id = .ok j) (hu : Go.unmarshal j st₂ = .ok (id', st₂'))
    (hk : Go.RPerm.StoreKeysNodup st) (hs : st.size ≤ 1000000000) (hs' : st₂'.size ≤ 1000000000)
    (env : Go.Env) (L : NodeId → Prop)
    (hLst₂ : ∀ a, L a → a < st₂.size ∨ 1000000000 ≤ a) (hLeq : ∀ a, L a → st₂.get? a = st.get? a)
    (hLcl : ∀ a n, L a → st.get? a = some n → ∀ f, f ∈ n.childFields → ∀ x, x ∈ f.ids → L x)
    (hLroots : ∀ t key l, env.loader = some t → Json.lookup key t = some (.doc l) → L l)
    (hLdis : ∀ fresh, Go.checkStructure st (st.size + 2) [(id, "")] [] = .ok fresh → ∀ a, L a → a ∉ fresh.map (·.1))
    (fuel : Nat) (base : String) (rs : Go.Resolved)
    (h₁ : Go.resolve { env with st := st } fuel id base = .ok rs) :
    ∃ rs', Go.resolve { env with st := st₂' } fuel id' base = .ok rs' ∧ rs.draft = rs'.draft ∧ rs.log = rs'.log ∧
      ∀ (reMatch : String → String → Bool) (vfuel : Nat) (inst : Json), Json.WF inst = true →
        Inv.OutSim (Spec.evalFuel (Go.RIso.specOf st rs reMatch) vfuel [] id inst)
            (Spec.evalFuel (Go.RIso.specOf st₂' rs' reMatch) vfuel [] id' inst) ∧
          Spec.valid (Go.RIso.specOf st rs reMatch) vfuel id inst =
            Spec.valid (Go.RIso.specOf st₂' rs' reMatch) vfuel id' inst := by
  obtain ⟨id'', st₂'', hu', hte, -⟩ := roundtrip_tree st id j st₂ hwf hj
  rw [hu] at hu'
  cases hu'
  have hok : Go.treeAll Go.RIso.orderOK st (st.size + 2) id = true :=
    Go.treeAll_mono (Go.treeAll_mono (Go.treeAll_imp
      (fun n hn => by
        simp only [Go.nodeWF, Bool.and_eq_true] at hn
        exact Go.RIso.orderOK_of_nodeOK n hn.1) hwf))
  obtain ⟨hext, -⟩ := unmarshal_tree_upto_nil j st₂ id' st₂' hu
  obtain ⟨f', fresh', hcs', hiv⟩ := unmarshal_is_tree j st₂ id' st₂' _ hu hte.full hs'
  obtain ⟨fresh₀, hcs₀⟩ := Go.RIso.resolve_ok_cs { env with st := st } fuel id base rs h₁
  obtain ⟨rs', h₂, e1, e2, e3⟩ := Go.RIso.treeEq_resolves_docs st st₂' env L (fun x => x ∈ Go.RInv.ids fresh₀) hk hs hs'
    hte hok (Go.RInv.checkStructure_root_mem st _ id fresh₀ hcs₀)
    (fun x n hx hn c hc => Go.RInv.checkStructure_closed st _ _ _ _ hcs₀
      (fun _ hid => absurd hid (by simp [Go.RInv.ids])) x hx n hn c hc)
    (fun x hL hx => hLdis fresh₀ hcs₀ x hL hx)
    (fun x hL => by
      rcases hLst₂ x hL with hlt | hge
      · rw [hext.2 x hlt, hLeq x hL]
      · rw [Go.get?_eq_none_iff.2 (Nat.le_trans hs hge), Go.get?_eq_none_iff.2 (Nat.le_trans hs' hge)])
    hLcl hLroots fuel base h₁ hcs'
    (fun x hL hm => by
      have := hiv x hm
      rcases hLst₂ x hL with hlt | hge
      · exact absurd hlt (Nat.not_lt.2 this.1)
      · exact absurd (Nat.lt_of_lt_of_le this.2 hs') (Nat.not_lt.2 hge))
  exact ⟨rs', h₂, e1, e2, fun reMatch vfuel inst hinst =>
    ⟨e3 reMatch vfuel inst hinst, Iso.valid_of_outSim (e3 reMatch vfuel inst hinst)⟩⟩

/-! ### What is missing for the full round trip
  * `roundtrip_tree_meaning_resolved` (the two trees accept the same instances, references included) is proved for the two trees
    EACH RESOLVED ON ITS OWN: `Resolve` of the tree read back returns normally whenever `Resolve` of the original does
    (`roundtrip_tree_resolves`; that checkStructure accepts the tree read back is `unmarshal_is_tree` /
    `roundtrip_tree_is_tree`, derived from the model of UnmarshalJSON — the counterpart of `C20.clone_is_tree`);
    with documents fetched through a Loader: `roundtrip_tree_meaning_resolved_docs` (a Loader universe shared by both
    sides, present unchanged in the store the schema is read back into, disjoint from the tree); the statement is
    directional (original resolves ⇒ tree read back resolves; see `treeEq_resolves_partial`, DIRECTION);
    the evaluator-level corollary (`Go.validateFuel`) is stated for reference-free trees
    only (`treeEq_validate_same_partial`); `treeEq_marshal` is the corresponding statement for MarshalJSON;
  * nil children (`null` elements of schema lists / maps come back as nil pointers, a nil `*Schema` field that is
    set explicitly cannot be told from an absent one);
  * `any`-typed values (enum, const, examples, Extra) are covered in the form encoding/json writes (`Go.jsonSorted`);
    for other values the statement would be "equal up to the key order of nested objects" (`sortJson` idempotent);
  * PropertyOrder is not written at all (`json:"-"`), it never round-trips except through the order of
    "properties", which UnmarshalJSON does not read back: see the example below (`Go.nodeOrd`).
-/

/-! ## table obligations over the generated description of the Schema struct -/

/-- the JSON names given by struct tags are pairwise distinct -/
theorem tagged_names_distinct : Go.taggedNames.Nodup := by decide

/-- every tagged name is a key UnmarshalJSON knows and a name marshalStructWithMap protects -/
theorem tagged_names_known :
    (∀ k, k ∈ Go.taggedNames → k ∈ Go.knownKeys) ∧ (∀ k, k ∈ Go.taggedNames → k ∈ Go.structNames) := by
  constructor <;> decide

/-- the two name tables of the model agree as sets, and the model's emission order is exactly the
    wrapper-struct names followed by the tagged names in declaration order -/
theorem name_tables_agree :
    (∀ k, k ∈ Go.structNames ↔ k ∈ Go.knownKeys) ∧
    Go.emittedNames =
      (Generated.marshalShadow.map Go.shadowName) ++
      Go.taggedNames.filter (fun k => !(Generated.marshalShadow.map Go.shadowName).contains k) := by
  refine ⟨Go.structNames_iff_knownKeys, ?_⟩
  rw [Go.emittedNames_eq]
  decide

/-- the wrapper struct of MarshalJSON shadows four tagged `omitempty` fields by an `any` — Enum, AnyOf, OneOf and (since
    /repo c50c33e) Vocabulary — so that for these only nil is omitted, not the empty slice / map; this is what
    `marshal_keeps_empty_vocabulary` and the `manyNonNil` / `enum` cases of the model rest on.  A revert of the fix
    removes "Vocabulary:$vocabulary:any" from the generated table and breaks this obligation (and `name_tables_agree`). -/
theorem marshal_shadow_nil_only :
    "Vocabulary:$vocabulary:any" ∈ Generated.marshalShadow ∧
    "Enum:enum:any" ∈ Generated.marshalShadow ∧ "AnyOf:anyOf:any" ∈ Generated.marshalShadow ∧
    "OneOf:oneOf:any" ∈ Generated.marshalShadow ∧
    (Generated.marshalShadow.filter fun s =>
        Go.taggedNames.contains (Go.shadowName s) && Go.shadowType s == "any").map Go.shadowGo
      = ["Enum", "AnyOf", "OneOf", "Vocabulary"] ∧
    (Generated.schemaFields.filter fun f => f.1 == "Vocabulary") = [("Vocabulary", "map[string]bool", "$vocabulary", true)] := by
  decide

/-- the `-`-tagged fields are the three union pairs plus Extra and PropertyOrder; the names they are
    written under (type, items, dependencies) are exactly the untagged names of the wrapper structs of
    MarshalJSON and UnmarshalJSON, and exactly the known keys that are no tag -/
theorem dash_fields_are_wrapper_fields :
    (Generated.schemaFields.filter fun f => f.2.2.1 == "-").map (·.1)
      = ["DependencySchemas", "DependencyStrings", "Type", "Types", "Items", "ItemsArray", "Extra", "PropertyOrder"] ∧
    Go.knownKeys.filter (fun k => !Go.taggedNames.contains k) = ["type", "items", "dependencies"] ∧
    (Generated.marshalShadow.filter fun s => !Go.taggedNames.contains (Go.shadowName s)).map Go.shadowGo
      = ["Type", "Dependencies", "Items"] ∧
    (Generated.marshalShadow.filter fun s => !Go.taggedNames.contains (Go.shadowName s)).map Go.shadowName
      = ["type", "dependencies", "items"] ∧
    (Generated.unmarshalShadow.filter fun s => !Go.taggedNames.contains (Go.shadowName s)).map Go.shadowName
      = ["type", "dependencies", "items"] := by
  decide

/-- the `*integer` fields of UnmarshalJSON's wrapper struct are the eight `*int` keywords of Schema … -/
theorem integer_shadow_fields :
    (Generated.unmarshalShadow.filter fun s => Go.shadowType s == "*integer").map Go.shadowName
      = ["minLength", "maxLength", "minItems", "maxItems", "minProperties", "maxProperties",
         "minContains", "maxContains"] ∧
    (∀ k, k ∈ (Generated.unmarshalShadow.filter fun s => Go.shadowType s == "*integer").map Go.shadowName →
          k ∈ (Generated.schemaFields.filter fun f => f.2.1 == "*int").map (·.2.2.1)) ∧
    (∀ k, k ∈ (Generated.schemaFields.filter fun f => f.2.1 == "*int").map (·.2.2.1) →
          k ∈ (Generated.unmarshalShadow.filter fun s => Go.shadowType s == "*integer").map Go.shadowName) := by
  decide

/-- … and these eight are the keys the model decodes with `decInteger` (the int32 window) -/
theorem integer_keywords_use_decInteger (rec : Go.URec) (n : Node) (st : Store) (v : Json) :
    Go.setField rec n st "minLength" v = Res.bind (Go.decInteger v) (fun q => .ok ({ n with minLength := q }, st)) ∧
    Go.setField rec n st "maxLength" v = Res.bind (Go.decInteger v) (fun q => .ok ({ n with maxLength := q }, st)) ∧
    Go.setField rec n st "minItems" v = Res.bind (Go.decInteger v) (fun q => .ok ({ n with minItems := q }, st)) ∧
    Go.setField rec n st "maxItems" v = Res.bind (Go.decInteger v) (fun q => .ok ({ n with maxItems := q }, st)) ∧
    Go.setField rec n st "minProperties" v = Res.bind (Go.decInteger v) (fun q => .ok ({ n with minProperties := q }, st)) ∧
    Go.setField rec n st "maxProperties" v = Res.bind (Go.decInteger v) (fun q => .ok ({ n with maxProperties := q }, st)) ∧
    Go.setField rec n st "minContains" v = Res.bind (Go.decInteger v) (fun q => .ok ({ n with minContains := q }, st)) ∧
    Go.setField rec n st "maxContains" v = Res.bind (Go.decInteger v) (fun q => .ok ({ n with maxContains := q }, st)) :=
  ⟨rfl, rfl, rfl, rfl, rfl, rfl, rfl, rfl⟩

/-! ## The hypotheses are satisfiable on non-trivial data -/

def exExtra : List (String × Json) :=
  [("x-b", .obj [("a", .num 1), ("b", .arr [.null])]), ("x-a", .str "v"), ("examplesX", .bool false)]

example : exExtra ≠ [] := by decide
example : ∀ e, e ∈ exExtra → e.1 ∉ Go.knownKeys := by decide
/-- H_D4 holds of them: none is a case variant of a keyword ("examplesX" is not one of "examples") -/
example : ∀ e, e ∈ exExtra → Go.isFoldedKey e.1 = false := by decide
/-- … and it is a real restriction: "Examples" is no keyword but a case variant of one -/
example : "Examples" ∉ Go.knownKeys ∧ Go.isFoldedKey "Examples" = true := by decide
example : ∀ e, e ∈ exExtra → Go.sortJson e.2 = e.2 := by
  intro e he
  simp only [exExtra, List.mem_cons, List.not_mem_nil, or_false] at he
  rcases he with rfl | rfl | rfl <;> rfl
/-- `extra_roundtrip` applied (marshal side) -/
example (rec : Go.MRec) :
    Go.marshalStep #[{ extra := some exExtra }] rec 0 =
      .ok (.obj [("examplesX", .bool false), ("x-a", .str "v"), ("x-b", .obj [("a", .num 1), ("b", .arr [.null])])]) :=
  (extra_roundtrip #[{ extra := some exExtra }] rec (fun _ _ => .fuel) 0 exExtra #[] rfl (by decide) (by decide)
    (by decide)
    (by intro e he
        simp only [exExtra, List.mem_cons, List.not_mem_nil, or_false] at he
        rcases he with rfl | rfl | rfl <;> rfl)).1

/-- `marshal_no_duplicate_keys` on a node that uses struct fields, wrapper fields and Extra -/
example :
    Go.marshal #[{ type := "object", title := "t", required := some ["a"], properties := some [("a", 1)],
                   extra := some [("x-z", .num 1), ("x-a", .num 2)] }, {}] 0
      = .ok (.obj [("type", .str "object"), ("properties", .obj [("a", .bool true)]), ("title", .str "t"),
                   ("required", .arr [.str "a"]), ("x-a", .num 2), ("x-z", .num 1)]) := by rfl

def exScalar : Node :=
  { schema := "https://json-schema.org/draft/2020-12/schema", type := "string", title := "T",
    deprecated := true, multipleOf := some (mkRat 3 2), minLength := some 3, maxLength := some 2147483647,
    uniqueItems := true, required := some ["b", "a"], format := "date" }

example : Go.ScalarOnly exScalar := rfl
example : (exScalar.type != "" && exScalar.types.isSome) = false := by decide
example : Go.InInt32 exScalar.minLength := by intro i h; cases h; decide
example : Go.InInt32 exScalar.maxLength := by intro i h; cases h; decide
example : Go.InInt32 exScalar.minItems := by intro i h; cases h
/-- `roundtrip_scalar_exact` applied: what `exScalar` marshals to is read back as `exScalar` -/
example (mrec : Go.MRec) (urec : Go.URec) (st2 : Store) (j : Json)
    (hj : Go.marshalStep #[exScalar] mrec 0 = .ok j) :
    Go.unmarshalStep urec j st2 = .ok (st2.alloc exScalar) :=
  roundtrip_scalar_exact #[exScalar] mrec urec 0 st2 j exScalar rfl (by decide)
    (by intro i h; cases h; decide) (by intro i h; cases h; decide) (by intro i h; cases h)
    (by intro i h; cases h) (by intro i h; cases h) (by intro i h; cases h) (by intro i h; cases h)
    (by intro i h; cases h) (by decide) rfl rfl hj
/-- … and the hypothesis `hj` is inhabited: this is what it marshals to -/
example (mrec : Go.MRec) :
    Go.marshalStep #[exScalar] mrec 0 = .ok (.obj [("type", .str "string"),
      ("$schema", .str "https://json-schema.org/draft/2020-12/schema"), ("title", .str "T"),
      ("deprecated", .bool true), ("multipleOf", .num (mkRat 3 2)), ("minLength", .num 3),
      ("maxLength", .num 2147483647), ("uniqueItems", .bool true),
      ("required", .arr [.str "b", .str "a"]), ("format", .str "date")]) := by rfl
/-- `roundtrip_scalar_fragment` applied with Extra: the entries come back key-sorted -/
example (mrec : Go.MRec) (urec : Go.URec) (st2 : Store) (j : Json)
    (hj : Go.marshalStep #[{ exScalar with extra := some exExtra }] mrec 0 = .ok j) :
    Go.unmarshalStep urec j st2 = .ok (st2.alloc { exScalar with extra := some (Go.sortKV exExtra) }) :=
  roundtrip_scalar_fragment #[{ exScalar with extra := some exExtra }] mrec urec 0 st2 j
    { exScalar with extra := some exExtra } rfl (by decide)
    (by intro i h; cases h; decide) (by intro i h; cases h; decide) (by intro i h; cases h)
    (by intro i h; cases h) (by intro i h; cases h) (by intro i h; cases h) (by intro i h; cases h)
    (by intro i h; cases h) (by decide) (by decide)
    (by intro e he
        simp only [exExtra, Option.getD_some, List.mem_cons, List.not_mem_nil, or_false] at he
        rcases he with rfl | rfl | rfl <;> rfl) rfl hj

/-- nil-vs-empty: `required: []` is omitted, the Schema is written as `true` and read back as `&Schema{}` -/
example (mrec : Go.MRec) (urec : Go.URec) (st2 : Store) :
    Go.marshalStep #[{ required := some [] }] mrec 0 = .ok (.bool true) ∧
    Go.unmarshalStep urec (.bool true) st2 = .ok (st2.alloc {}) := ⟨by rfl, by rfl⟩

/-! ### `roundtrip_tree` is not vacuous -/

/-- a tree with "properties" (two entries, listed out of order), "items", "allOf" (two members), the boolean
    subschema `false` (node 6 over node 7), an integer keyword and an Extra key -/
def exTree : Store := #[
  { type := "object", title := "T", minProperties := some 1, required := some ["b"],
    properties := some [("b", 1), ("a", 2)], items := some 3, allOf := some [4, 5],
    additionalProperties := some 6, extra := some [("x-note", .str "hi")] },
  { type := "string", minLength := some 2 },
  { types := some ["integer", "null"] },
  { type := "number" },
  { required := some ["a"] },
  { maxProperties := some 10 },
  { not := some 7 },
  {} ]

def exTreeJson : Json :=
  .obj [("type", .str "object"),
        ("properties", .obj [("a", .obj [("type", .arr [.str "integer", .str "null"])]),
                             ("b", .obj [("type", .str "string"), ("minLength", .num 2)])]),
        ("items", .obj [("type", .str "number")]),
        ("title", .str "T"), ("minProperties", .num 1), ("required", .arr [.str "b"]),
        ("additionalProperties", .bool false),
        ("allOf", .arr [.obj [("required", .arr [.str "a"])], .obj [("maxProperties", .num 10)]]),
        ("x-note", .str "hi")]

set_option maxRecDepth 4000 in
/-- `TreeWF` holds of it, by evaluation -/
theorem exTree_wf : TreeWF exTree 0 := by decide

/-- the hypothesis `hj` is inhabited … -/
example : Go.marshal exTree 0 = .ok exTreeJson := by rfl

/-- … and the theorem applies -/
example (st₂ : Store) :
    ∃ id' st₂', Go.unmarshal exTreeJson st₂ = .ok (id', st₂') ∧ Go.TreeEq exTree st₂' (exTree.size + 2) 0 id' ∧
      Go.marshal st₂' id' = .ok exTreeJson :=
  roundtrip_tree exTree 0 exTreeJson st₂ exTree_wf (by rfl)

/-- the rebuilt tree, read into the empty store: children before parents, "properties" in ascending key order,
    `false` as `&Schema{Not: &Schema{}}` -/
example : Go.unmarshal exTreeJson #[] = .ok (7, #[
    { types := some ["integer", "null"] },
    { type := "string", minLength := some 2 },
    { type := "number" },
    {},
    { not := some 3 },
    { required := some ["a"] },
    { maxProperties := some 10 },
    { type := "object", title := "T", minProperties := some 1, required := some ["b"],
      properties := some [("a", 0), ("b", 1)], items := some 2, allOf := some [5, 6],
      additionalProperties := some 4, extra := some [("x-note", .str "hi")] }]) := by rfl

/-- `Go.nodeOrd` is needed for the second half: with PropertyOrder = ["b"] the members of "properties" are written
    b, a; PropertyOrder does not come back, so the rebuilt schema writes them a, b — the same JSON object, but not
    the same member order -/
example :
    Go.marshal #[{ properties := some [("a", 1), ("b", 2)], propertyOrder := some ["b"] }, {}, {}] 0 =
      .ok (.obj [("properties", .obj [("b", .bool true), ("a", .bool true)])]) ∧
    Go.unmarshal (.obj [("properties", .obj [("b", .bool true), ("a", .bool true)])]) #[] =
      .ok (2, #[{}, {}, { properties := some [("b", 0), ("a", 1)] }]) ∧
    Go.marshal #[{}, {}, { properties := some [("b", 0), ("a", 1)] }] 2 =
      .ok (.obj [("properties", .obj [("a", .bool true), ("b", .bool true)])]) := ⟨by rfl, by rfl, by rfl⟩

/-- a second tree: the draft-07 "dependencies" union (a schema and two string lists, one of them nil), the "items"
    array form, `$defs` listed out of order, `anyOf: []`, `prefixItems`, the `any`-typed keywords, `$vocabulary` and
    `dependentRequired` -/
def exTree2 : Store := #[
  { dependencySchemas := some [("z", 1)], dependencyStrings := some [("y", some ["a"]), ("x", none)],
    itemsArray := some [2, 3], defs := some [("q", 1), ("p", 2)], anyOf := some [], prefixItems := some [3],
    enum := some [.num 1, .obj [("a", .null), ("b", .arr [])]], const := some .null, default := some (.obj [("z", .num 0), ("a", .num 1)]),
    examples := some [.str "e"], vocabulary := some [("v2", false), ("v1", true)],
    dependentRequired := some [("k", some ["r"]), ("j", none)] },
  { type := "null" },
  { minimum := some 0 },
  {} ]

set_option maxRecDepth 4000 in
theorem exTree2_wf : TreeWF exTree2 0 := by decide

example : Go.marshal exTree2 0 = .ok (.obj [
    ("dependencies", .obj [("x", .arr []), ("y", .arr [.str "a"]), ("z", .obj [("type", .str "null")])]),
    ("items", .arr [.obj [("minimum", .num 0)], .bool true]),
    ("enum", .arr [.num 1, .obj [("a", .null), ("b", .arr [])]]),
    ("anyOf", .arr []),
    ("$vocabulary", .obj [("v1", .bool true), ("v2", .bool false)]),
    ("$defs", .obj [("p", .obj [("minimum", .num 0)]), ("q", .obj [("type", .str "null")])]),
    ("default", .obj [("z", .num 0), ("a", .num 1)]),
    ("examples", .arr [.str "e"]),
    ("const", .null),
    ("prefixItems", .arr [.bool true]),
    ("dependentRequired", .obj [("j", .null), ("k", .arr [.str "r"])])]) := by rfl

example (st₂ : Store) (j : Json) (hj : Go.marshal exTree2 0 = .ok j) :
    ∃ id' st₂', Go.unmarshal j st₂ = .ok (id', st₂') ∧ Go.TreeEq exTree2 st₂' (exTree2.size + 2) 0 id' ∧
      Go.marshal st₂' id' = .ok j :=
  roundtrip_tree exTree2 0 j st₂ exTree2_wf hj

/-! ### `roundtrip_tree_meaning_partial` is not vacuous -/

def exSpecEnv (st : Store) : Spec.Env :=
  { st := st, draft := .d2020, refTarget := fun _ => none, dynInitial := fun _ => none, dynName := fun _ => "",
    resource := fun _ => none, dynDecl := fun _ _ => none, reMatch := fun _ _ => false }

/-- `exTree` is reference-free and its "properties" maps have distinct keys -/
example : Go.treeAll Iso.noRefs exTree exTree.size 0 = true := by decide
example : Refine.StoreWF exTree := Refine.StoreWF_of_check _ (by decide)

/-- `roundtrip_tree_meaning_partial` applied to `exTree`, whatever the resolution tables -/
example (st₂ : Store) (env : Spec.Env) :
    ∃ id' st₂', Go.unmarshal exTreeJson st₂ = .ok (id', st₂') ∧ ∀ fuel inst, Json.WF inst = true →
      Inv.OutSim (Spec.evalFuel { env with st := exTree } fuel [] 0 inst)
        (Spec.evalFuel { env with st := st₂' } fuel [] id' inst) ∧
      Spec.valid { env with st := exTree } fuel 0 inst = Spec.valid { env with st := st₂' } fuel id' inst :=
  roundtrip_tree_meaning_partial exTree 0 exTreeJson st₂ exTree_wf (by rfl) (by decide)
    (Refine.StoreWF_of_check _ (by decide)) env env rfl rfl

/-- … and these verdicts are defined and not all the same -/
example : Spec.valid (exSpecEnv exTree) 4 0 (.obj [("a", .num 1), ("b", .str "xy")]) = some true := by decide
example : Spec.valid (exSpecEnv exTree) 4 0 (.obj [("a", .num 1), ("b", .str "xy"), ("c", .null)]) = some false := by decide

/-! ### `roundtrip_tree_meaning_resolved_partial` is not vacuous: a tree WITH `$ref` (by pointer and by `$anchor`), `$dynamicRef`,
  `$dynamicAnchor`, `$id`; `$defs` is listed in descending key order, so it comes back reordered -/

def exRT : Store := #[
  { id := "http://a/root.json", type := "object", ref := "#/$defs/len", dynamicRef := "#d", allOf := some [4],
    properties := some [("a", 1)], defs := some [("pos", 3), ("len", 2)], required := some ["a"] },   -- 0
  { type := "string" },                                                                              -- 1
  { minProperties := some 1, dynamicAnchor := "d" },                                                  -- 2
  { anchor := "pos", maxProperties := some 2 },                                                       -- 3
  { ref := "#pos" }]                                                                                  -- 4
def exRTEnv : Go.Env := { st := exRT, reOk := fun _ => true, loader := none }

theorem exRT_wf : TreeWF exRT 0 := by decide
theorem exRT_keys : Go.RPerm.StoreKeysNodup exRT := Go.RPerm.storeKeysNodup_of_check _ (by decide)
theorem exRTEnv_noDocs : Go.RIso.NoDocs exRTEnv := fun _ _ _ h => nomatch h

/-- the theorem applies … -/
example : ∃ j id' st₂', Go.marshal exRT 0 = .ok j ∧ Go.unmarshal j #[] = .ok (id', st₂') ∧
    ∀ (fuel : Nat) (base : String) (rs rs' : Go.Resolved), st₂'.size ≤ 1000000000 →
      Go.resolve exRTEnv fuel 0 base = .ok rs → Go.resolve { exRTEnv with st := st₂' } fuel id' base = .ok rs' →
      rs.draft = rs'.draft ∧ rs.log = rs'.log ∧
        ∀ (reMatch : String → String → Bool) (vfuel : Nat) (inst : Json), Json.WF inst = true →
          Inv.OutSim (Spec.evalFuel (Go.RIso.specOf exRT rs reMatch) vfuel [] 0 inst)
              (Spec.evalFuel (Go.RIso.specOf st₂' rs' reMatch) vfuel [] id' inst) ∧
            Spec.valid (Go.RIso.specOf exRT rs reMatch) vfuel 0 inst =
              Spec.valid (Go.RIso.specOf st₂' rs' reMatch) vfuel id' inst := by
  have hok : (Go.marshal exRT 0).isOk = true := by decide +kernel
  cases hj : Go.marshal exRT 0 with
  | ok j =>
    obtain ⟨id', st₂', hu, h⟩ := roundtrip_tree_meaning_resolved_partial exRT 0 j #[] exRT_wf hj exRT_keys (by decide) exRTEnv
      exRTEnv_noDocs
    exact ⟨j, id', st₂', rfl, hu, h⟩
  | fuel => rw [hj] at hok; cases hok
  | panic => rw [hj] at hok; cases hok
  | err => rw [hj] at hok; cases hok

/-- `roundtrip_tree_meaning_resolved` applies to it — no hypothesis on the tree read back is left: `Resolve` of the
    original returns normally (computed), hence `Resolve` of the tree read back does, and the two accept the same
    instances -/
example : ∃ j id' st₂' rs rs', Go.marshal exRT 0 = .ok j ∧ Go.unmarshal j #[] = .ok (id', st₂') ∧
    Go.resolve exRTEnv 1 0 "" = .ok rs ∧ Go.resolve { exRTEnv with st := st₂' } 1 id' "" = .ok rs' ∧
    rs.draft = rs'.draft ∧ rs.log = rs'.log ∧
      ∀ (reMatch : String → String → Bool) (vfuel : Nat) (inst : Json), Json.WF inst = true →
        Spec.valid (Go.RIso.specOf exRT rs reMatch) vfuel 0 inst =
          Spec.valid (Go.RIso.specOf st₂' rs' reMatch) vfuel id' inst := by
  have hall : (match Go.marshal exRT 0 with
      | .ok j => match Go.unmarshal j #[] with
        | .ok r => decide (r.2.size ≤ 1000000000)
        | _ => false
      | _ => false) = true := by decide +kernel
  have hres : (Go.resolve exRTEnv 1 0 "").isOk = true := by decide +kernel
  cases hj : Go.marshal exRT 0 with
  | ok j =>
    rw [hj] at hall
    dsimp only at hall
    cases hu : Go.unmarshal j #[] with
    | ok r =>
      obtain ⟨id', st₂'⟩ := r
      rw [hu] at hall
      dsimp only at hall
      have hs' : st₂'.size ≤ 1000000000 := of_decide_eq_true hall
      cases h₁ : Go.resolve exRTEnv 1 0 "" with
      | ok rs =>
        obtain ⟨rs', h₂, e1, e2, e3⟩ := roundtrip_tree_meaning_resolved exRT 0 j #[] id' st₂' exRT_wf hj hu exRT_keys
          (by decide) hs' exRTEnv exRTEnv_noDocs 1 "" rs h₁
        exact ⟨j, id', st₂', rs, rs', rfl, hu, rfl, h₂, e1, e2, fun reMatch vfuel inst hinst =>
          (e3 reMatch vfuel inst hinst).2⟩
      | fuel => rw [h₁] at hres; cases hres
      | panic => rw [h₁] at hres; cases hres
      | err => rw [h₁] at hres; cases hres
    | fuel => rw [hu] at hall; cases hall
    | panic => rw [hu] at hall; cases hall
    | err => rw [hu] at hall; cases hall
  | fuel => rw [hj] at hall; cases hall
  | panic => rw [hj] at hall; cases hall
  | err => rw [hj] at hall; cases hall

/-- checkStructure does accept the tree read back (`roundtrip_tree_is_tree`), and registers its five schemas, all new -/
example : (match Go.marshal exRT 0 with
    | .ok j => match Go.unmarshal j #[] with
      | .ok (id', st') => (Go.checkStructure st' (st'.size + 2) [(id', "")] []).bind fun fresh =>
            .ok (fresh.map fun (e : NodeId × Go.Info) => e.1)
      | _ => .err
    | _ => .err) = .ok [4, 1, 2, 3, 0] := by
  decide +kernel

/-- `unmarshal_tree_upto_nil` on a document no MarshalJSON writes: "Not" overwrites the field "not" has set (the first
    subtree, node 0, becomes garbage), "items" is given twice (the array form clears the schema form: node 1 becomes
    garbage), a `null` element of "allOf" is a nil pointer.  The schema read back (node 5) is a tree of the nodes
    2, 3, 4 — up to the nil element, which checkStructure refuses -/
example : Go.unmarshal (.obj [("not", .bool true), ("items", .obj []), ("Not", .bool true),
      ("items", .arr [.bool true, .obj []]), ("allOf", .arr [.null])]) #[] =
    .ok (5, #[{}, {}, {}, {}, {},
      { not := some 2, itemsArray := some [3, 4], allOf := some [1000000000], extra := some [("Not", .bool true)] }]) := by
  rfl

/-- … checkStructure refuses it because of the nil element only: without it (`Go.UTree.patch`) the four schemas are
    registered, each once (`unmarshal_tree_upto_nil`) -/
example : (match Go.unmarshal (.obj [("not", .bool true), ("items", .obj []), ("Not", .bool true),
      ("items", .arr [.bool true, .obj []]), ("allOf", .arr [.null])]) #[] with
    | .ok (id', st') =>
      ((Go.checkStructure st' (st'.size + 2) [(id', "")] []).isOk,
       (Go.checkStructure (Go.UTree.patch st') (st'.size + 2) [(id', "")] []).bind fun fresh =>
            .ok (fresh.map fun (e : NodeId × Go.Info) => e.1))
    | _ => (true, .err)) = (false, .ok [5, 3, 4, 2]) := by
  decide +kernel

/-- … both Resolve calls do return normally: the original records (schema, `$ref` target, `$dynamicRef` target) … -/
example : ((Go.resolve exRTEnv 1 0 "").bind fun rs => .ok (rs.infos.map fun (e : NodeId × Go.Info) =>
      (e.1, e.2.resolvedRef, e.2.resolvedDynamicRef))) =
    .ok [(0, some 2, some 2), (3, none, none), (2, none, none), (4, some 3, none), (1, none, none)] := by
  decide +kernel

/-- … and the tree read back (root 4; "a" ↦ 0, len ↦ 1, pos ↦ 2, allOf[0] ↦ 3): the same tables up to the renaming -/
example : (match Go.marshal exRT 0 with
    | .ok j => match Go.unmarshal j #[] with
      | .ok (id', st') => (Go.resolve { exRTEnv with st := st' } 1 id' "").bind fun rs =>
          .ok (rs.infos.map fun (e : NodeId × Go.Info) => (e.1, e.2.resolvedRef, e.2.resolvedDynamicRef))
      | _ => .err
    | _ => .err) =
    .ok [(4, some 1, some 1), (1, none, none), (2, none, none), (3, some 2, none), (0, none, none)] := by
  decide +kernel

/-- … and the verdicts are defined, use the references, and are not all the same -/
example : (match Go.resolve exRTEnv 1 0 "" with
    | .ok rs =>
      [Spec.valid (Go.RIso.specOf exRT rs fun _ _ => false) 4 0 (.obj [("a", .str "x")]),
       Spec.valid (Go.RIso.specOf exRT rs fun _ _ => false) 4 0 (.obj [("a", .str "x"), ("b", .null), ("c", .null)]),
       Spec.valid (Go.RIso.specOf exRT rs fun _ _ => false) 4 0 (.obj [("a", .num 1)])]
    | _ => []) = [some true, some false, some false] := by
  decide +kernel

/-! ### `roundtrip_tree_meaning_resolved_docs` is not vacuous: a root document with two references INTO a Loader
  document (by pointer and by `$anchor`), read back into the heap it was written from, next to the Loader document -/

def exDocRT : Store := #[
  { id := "http://a/root.json", allOf := some [1], properties := some [("p", 2)] },   -- 0
  { ref := "other.json#/$defs/x" },                                                    -- 1
  { ref := "other.json#tag" },                                                         -- 2
  { defs := some [("x", 4), ("y", 5)] },                                               -- 3: http://a/other.json
  { type := "string" },                                                                -- 4
  { anchor := "tag", minLength := some 2 }]                                            -- 5
def exDocRTEnv : Go.Env :=
  { st := exDocRT, reOk := fun _ => true, loader := some [("http://a/other.json", .doc 3)] }
/-- the schemas of the Loader universe -/
def exDocRTL (a : NodeId) : Prop := a ∈ [3, 4, 5]

theorem exDocRT_wf : TreeWF exDocRT 0 := by decide

example : ∃ j id' st₂' rs rs', Go.marshal exDocRT 0 = .ok j ∧ Go.unmarshal j exDocRT = .ok (id', st₂') ∧
    Go.resolve exDocRTEnv 2 0 "" = .ok rs ∧ Go.resolve { exDocRTEnv with st := st₂' } 2 id' "" = .ok rs' ∧
    rs.log = rs'.log ∧
      ∀ (reMatch : String → String → Bool) (vfuel : Nat) (inst : Json), Json.WF inst = true →
        Spec.valid (Go.RIso.specOf exDocRT rs reMatch) vfuel 0 inst =
          Spec.valid (Go.RIso.specOf st₂' rs' reMatch) vfuel id' inst := by
  have hall : (match Go.marshal exDocRT 0 with
      | .ok j => match Go.unmarshal j exDocRT with
        | .ok r => decide (r.2.size ≤ 1000000000)
        | _ => false
      | _ => false) = true := by decide +kernel
  have hres : (Go.resolve exDocRTEnv 2 0 "").isOk = true := by decide +kernel
  have hfresh : (match Go.checkStructure exDocRT (exDocRT.size + 2) [(0, "")] [] with
      | .ok fresh => fresh.map (·.1) == [0, 1, 2]
      | _ => false) = true := by decide
  cases hj : Go.marshal exDocRT 0 with
  | ok j =>
    rw [hj] at hall
    dsimp only at hall
    cases hu : Go.unmarshal j exDocRT with
    | ok r =>
      obtain ⟨id', st₂'⟩ := r
      rw [hu] at hall
      dsimp only at hall
      have hs' : st₂'.size ≤ 1000000000 := of_decide_eq_true hall
      cases h₁ : Go.resolve exDocRTEnv 2 0 "" with
      | ok rs =>
        obtain ⟨rs', h₂, -, e2, e3⟩ := roundtrip_tree_meaning_resolved_docs exDocRT 0 j exDocRT id' st₂' exDocRT_wf hj hu
          (Go.RPerm.storeKeysNodup_of_check _ (by decide)) (by decide) hs' exDocRTEnv exDocRTL
          (fun a ha => Or.inl (by
            have : ∀ x ∈ [3, 4, 5], x < exDocRT.size := by decide
            exact this a ha))
          (fun _ _ => rfl)
          (fun a n ha hn f hf x hx => by
            have hcl : ∀ a ∈ [3, 4, 5], ∀ n, exDocRT.get? a = some n → ∀ f ∈ n.childFields, ∀ x ∈ f.ids, x ∈ [3, 4, 5] := by
              intro a ha
              simp only [List.mem_cons, List.not_mem_nil, or_false] at ha
              rcases ha with rfl | rfl | rfl <;> intro n hn <;> cases hn <;> decide
            exact hcl a ha n hn f hf x hx)
          (fun t key l ht hk => by
            cases ht
            simp only [Json.lookup_cons, Json.lookup_nil] at hk
            split at hk
            · cases hk; show 3 ∈ [3, 4, 5]; decide
            · cases hk)
          (fun fresh hf a ha hm => by
            rw [hf] at hfresh
            have he : fresh.map (·.1) = [0, 1, 2] := by simpa using hfresh
            rw [he] at hm
            have : ∀ x ∈ [3, 4, 5], x ∉ [0, 1, 2] := by decide
            exact this a ha hm)
          2 "" rs h₁
        exact ⟨j, id', st₂', rs, rs', rfl, hu, rfl, h₂, e2, fun reMatch vfuel inst hinst =>
          (e3 reMatch vfuel inst hinst).2⟩
      | fuel => rw [h₁] at hres; cases hres
      | panic => rw [h₁] at hres; cases hres
      | err => rw [h₁] at hres; cases hres
    | fuel => rw [hu] at hall; cases hall
    | panic => rw [hu] at hall; cases hall
    | err => rw [hu] at hall; cases hall
  | fuel => rw [hj] at hall; cases hall
  | panic => rw [hj] at hall; cases hall
  | err => rw [hj] at hall; cases hall

/-- … the Loader is called once on either side, and the references of the tree read back (root 8; "p" ↦ 6,
    allOf[0] ↦ 7: "properties" is written first) land in the Loader document … -/
example : (match Go.marshal exDocRT 0 with
    | .ok j => match Go.unmarshal j exDocRT with
      | .ok (id', st') => (Go.resolve { exDocRTEnv with st := st' } 2 id' "").bind fun rs =>
          .ok (rs.log, rs.infos.map fun (e : NodeId × Go.Info) => (e.1, e.2.resolvedRef))
      | _ => .err
    | _ => .err) =
    .ok (["http://a/other.json"], [(8, none), (7, some 4), (6, some 5), (3, none), (4, none), (5, none)]) := by
  decide +kernel

/-- … and the verdicts go through it: a string of length 2 is valid, a number is not -/
example : (match Go.marshal exDocRT 0 with
    | .ok j => match Go.unmarshal j exDocRT with
      | .ok (id', st') => match Go.resolve { exDocRTEnv with st := st' } 2 id' "" with
        | .ok rs =>
          [Spec.valid (Go.RIso.specOf st' rs fun _ _ => false) 4 id' (.str "xy"),
           Spec.valid (Go.RIso.specOf st' rs fun _ _ => false) 4 id' (.num 1)]
        | _ => []
      | _ => []
    | _ => []) = [some true, some false] := by
  decide +kernel

/-- an EMPTY non-nil `Vocabulary` map (finding D26, repaired in /repo c50c33e).  Beside a `$schema` other than 2020-12
    it is refused by checkLocal.  `omitempty` used not to write it, so the tree read back — a well-formed tree — resolved
    although the original is refused: this was the counterexample to the converse of `treeEq_resolves_partial`.  Now
    MarshalJSON writes `"$vocabulary": {}` (`marshal_keeps_empty_vocabulary`), UnmarshalJSON reads it back as the
    non-nil empty map — the round trip gives back `some []` exactly —, and Resolve refuses the tree read back as well -/
example : TreeWF #[{ vocabulary := some [], type := "string" }] 0 ∧
    Go.marshal #[{ vocabulary := some [], type := "string" }] 0 =
      .ok (.obj [("type", .str "string"), ("$vocabulary", .obj [])]) ∧
    Go.unmarshal (.obj [("type", .str "string"), ("$vocabulary", .obj [])]) #[] =
      .ok (0, #[{ vocabulary := some [], type := "string" }]) ∧
    (Go.resolve { exRTEnv with st := #[{ vocabulary := some [], type := "string" }] } 1 0 "").verdict = some false ∧
    (match Go.marshal #[{ vocabulary := some [], type := "string" }] 0 with
      | .ok j => match Go.unmarshal j #[] with
        | .ok (id', st') => (Go.resolve { exRTEnv with st := st' } 1 id' "").verdict
        | _ => none
      | _ => none) = some false := by
  refine ⟨by decide, by rfl, by rfl, by decide +kernel, by decide +kernel⟩

/-- `marshal_keeps_empty_vocabulary` applied to that node … -/
example (j : Json) (hj : Go.marshal #[{ vocabulary := some [], type := "string" }] 0 = .ok j) :
    ∃ ms, j = .obj ms ∧ ("$vocabulary", Json.obj []) ∈ ms :=
  (marshal_keeps_empty_vocabulary #[{ vocabulary := some [], type := "string" }] 0 _ j rfl rfl).2 hj

/-- … and to a node that has nothing else: it is no longer written as `true` -/
example : Go.marshal #[{ vocabulary := some [] }] 0 = .ok (.obj [("$vocabulary", .obj [])]) ∧
    Go.unmarshal (.obj [("$vocabulary", .obj [])]) #[] = .ok (0, #[{ vocabulary := some [] }]) ∧
    Go.marshal #[{ vocabulary := none }] 0 = .ok (.bool true) := ⟨by rfl, by rfl, by rfl⟩

/-- `treeEq_vocabulary` through `roundtrip_tree`: the root read back has `some []` -/
example (st₂ : Store) (j : Json) (hj : Go.marshal #[{ vocabulary := some [], type := "string" }] 0 = .ok j) :
    ∃ id' st₂' n', Go.unmarshal j st₂ = .ok (id', st₂') ∧ st₂'.get? id' = some n' ∧ n'.vocabulary = some [] := by
  obtain ⟨id', st₂', hu, hte, -⟩ := roundtrip_tree _ 0 j st₂ (by decide) hj
  obtain ⟨n, n', ha, hb, -, -, h0⟩ := treeEq_vocabulary hte
  cases ha
  exact ⟨id', st₂', n', hu, hb, h0 rfl⟩

/-! why the results are compared up to the ORDER of the evaluated-property list (`Inv.OutSim`) and not by equality: the
    Spec lists evaluated property names in the order the keywords produce them, and `dependentSchemas` — a Go map, written
    in ascending key order — comes back sorted.  Below b ↦ {properties: {x}}, a ↦ {properties: {y}}: the original lists
    x, y; the tree read back lists y, x.  The same set, the same verdict. -/

def exDep : Store := #[
  { dependentSchemas := some [("b", 1), ("a", 2)] },
  { properties := some [("x", 3)] },
  { properties := some [("y", 3)] },
  {}]
def exDepBack : Store := #[
  {}, { properties := some [("y", 0)] }, {}, { properties := some [("x", 2)] },
  { dependentSchemas := some [("a", 1), ("b", 3)] }]
def exDepInst : Json := .obj [("a", .null), ("b", .null), ("x", .null), ("y", .null)]

/-- what `exDep` is written as, what is read back, and the two evaluated-property lists -/
example :
    Go.marshal exDep 0 = .ok (.obj [("dependentSchemas", .obj [
      ("a", .obj [("properties", .obj [("y", .bool true)])]),
      ("b", .obj [("properties", .obj [("x", .bool true)])])])]) ∧
    Go.unmarshal (.obj [("dependentSchemas", .obj [
      ("a", .obj [("properties", .obj [("y", .bool true)])]),
      ("b", .obj [("properties", .obj [("x", .bool true)])])])]) #[] = .ok (4, exDepBack) ∧
    (Spec.evalFuel (exSpecEnv exDep) 3 [] 0 exDepInst).map (·.map (·.props)) = some (some ["x", "y"]) ∧
    (Spec.evalFuel (exSpecEnv exDepBack) 3 [] 4 exDepInst).map (·.map (·.props)) = some (some ["y", "x"]) :=
  ⟨by rfl, by rfl, by decide, by decide⟩

end JSV.C05
