/-
  C16 — `For` is deterministic and isolating.  Property theorems only
  (helper lemmas: JSV/Proofs/InfStore.lean, InfStruct.lean, InfEqns.lean; the encoding/json side of the
  statements — JSON names, always-written names — is JSV/Spec/EncJson.lean).

  `Go.forType opts fuel T st` is the model of `ForType`: every `new(Schema)` and every `CloneSchemas`
  allocates in the store `st`; the result is the id of the schema and the new store.
  `opts.schemas` is the type table (initial entries and `ForOptions.TypeSchemas`), whose schemas live in `st`.
-/
import JSV.Proofs.InfEqns
import JSV.Proofs.InfNamed
import JSV.Proofs.InfEmbCons
import JSV.Proofs.InfEmbDom
import JSV.Proofs.InfEmbWalk
import JSV.Proofs.InfEmbNamed
namespace JSV.C16
open JSV Go EncJson

/-! ## determinism -/

/-- the result is a function of `(opts, fuel, T, st)`: there is no other input (no map iteration, no
    global state; the GODEBUG setting is the field `opts.nullForSlices`) -/
theorem forType_deterministic (opts : IOpts) (fuel : Nat) (T : GoType) (st : Store)
    (r₁ r₂ : Res (Option NodeId × Store))
    (h₁ : forType opts fuel T st = r₁) (h₂ : forType opts fuel T st = r₂) : r₁ = r₂ :=
  h₁.symm.trans h₂

/-! ## isolation -/

/-- nothing that exists is modified: the type table (`TypeSchemas`) and every earlier result are untouched -/
theorem forType_store_extends (opts : IOpts) (fuel : Nat) (T : GoType) (st : Store) (r : Option NodeId) (st' : Store)
    (h : forType opts fuel T st = .ok (r, st')) :
    st.size ≤ st'.size ∧ ∀ i, i < st.size → st'.get? i = st.get? i :=
  (inferFuel_inv opts fuel _ _ _ _ _ h).1

/-- the result is fresh: its root is a new `*Schema` and so is every `*Schema` reachable from it; no Schema
    object is shared with an earlier result or with the type table (table entries are cloned) -/
theorem forType_fresh (opts : IOpts) (fuel : Nat) (T : GoType) (st : Store) (id : NodeId) (st' : Store)
    (h : forType opts fuel T st = .ok (some id, st')) :
    st.size ≤ id ∧ ∀ b, Go.Reach st' id b → st.size ≤ b ∧ st.get? b = none := by
  obtain ⟨_, hid, hf⟩ := inferFuel_inv opts fuel _ _ _ _ _ h
  have hf0 : FreshAbove st.size st := by
    intro i n hi hn
    exact absurd (lt_size_of_get? hn) (Nat.not_lt_of_le hi)
  have hf' := hf st.size (Nat.le_refl _) hf0
  refine ⟨(hid id rfl).1, fun b hb => ?_⟩
  have hb' := Reach.fresh hf' hb (hid id rfl).1
  exact ⟨hb', get?_eq_none_iff.2 hb'⟩

/-- the same for the model's own traversal `Go.reachable` -/
theorem forType_fresh_reachable (opts : IOpts) (fuel : Nat) (T : GoType) (st : Store) (id : NodeId) (st' : Store)
    (h : forType opts fuel T st = .ok (some id, st')) (f : Nat) :
    ∀ b, b ∈ Go.reachable st' f [id] → st.size ≤ b ∧ st.get? b = none := by
  intro b hb
  obtain ⟨a, ha, hr⟩ := reachable_sound st' f [id] b hb
  cases List.mem_singleton.1 ha
  exact (forType_fresh opts fuel T st id st' h).2 b hr

/-- in particular no schema of the type table is part of the result -/
theorem forType_disjoint_from_table (opts : IOpts) (fuel : Nat) (T : GoType) (st : Store) (id : NodeId) (st' : Store)
    (h : forType opts fuel T st = .ok (some id, st')) (nm : String) (sid : NodeId) (n : Node)
    (_hs : Json.lookup nm opts.schemas = some sid) (hn : st.get? sid = some n) :
    ¬ Go.Reach st' id sid := by
  intro hr
  have := ((forType_fresh opts fuel T st id st' h).2 sid hr).2
  rw [hn] at this
  cases this

/-- two successive calls give disjoint results: no node of the second result existed when the first call
    returned (so none is a node of the first result), the first result's nodes are unchanged -/
theorem forType_twice_disjoint (opts₁ opts₂ : IOpts) (f₁ f₂ : Nat) (T₁ T₂ : GoType) (st : Store)
    (id₁ id₂ : NodeId) (st₁ st₂ : Store)
    (h₁ : forType opts₁ f₁ T₁ st = .ok (some id₁, st₁)) (h₂ : forType opts₂ f₂ T₂ st₁ = .ok (some id₂, st₂)) :
    id₁ < id₂ ∧ (∀ b, Go.Reach st₂ id₂ b → st₁.get? b = none) ∧ ∀ i, i < st₁.size → st₂.get? i = st₁.get? i := by
  obtain ⟨_, hid, _⟩ := inferFuel_inv opts₁ f₁ _ _ _ _ _ h₁
  have h2 := forType_fresh _ _ _ _ _ _ h₂
  exact ⟨Nat.lt_of_lt_of_le (hid id₁ rfl).2 h2.1, fun b hb => (h2.2 b hb).2, (forType_store_extends _ _ _ _ _ _ h₂).2⟩


/-! ## pointers and slices add `null` -/

/-- `if allowNull && s.Type != "" { s.Types = ["null", s.Type]; s.Type = "" }` -/
theorem pointer_adds_null (n : Node) (h : n.type ≠ "") :
    addNull true n = { n with types := some ["null", n.type], type := "" } := by
  unfold addNull
  simp [h]

/-- no `null` without a pointer -/
theorem no_pointer_no_null (n : Node) : addNull false n = n := addNull_false n

/-- … for a pointer to a basic kind with a type keyword: the schema is the kind's schema with
    `types = ["null", t]` -/
theorem pointer_adds_null_basic (opts : IOpts) (fuel : Nat) (kind ty : String) (mn mx : Option Int) (st : Store)
    (hk : kindEntry kind = some (ty, mn, mx)) (hty : ty ≠ "") :
    forType opts (fuel + 1) (.ptr (.basic kind)) st =
      .ok (some st.size, st.push { basicNode ty mn mx with types := some ["null", ty], type := "" }) := by
  show inferStep opts (inferFuel opts fuel) (.ptr (.basic kind)) [] st = _
  rw [inferStep_basic (kind := kind) (an := true) rfl, hk]
  simp only
  rw [pointer_adds_null _ (by exact hty)]
  rfl

/-- `**T` is treated as `*T` -/
theorem pointer_depth_irrelevant (opts : IOpts) (fuel : Nat) (T : GoType) (st : Store) :
    forType opts fuel (.ptr (.ptr T)) st = forType opts fuel (.ptr T) st := by
  cases fuel with
  | zero => rfl
  | succ fuel => rfl

/-- slices get `["null","array"]` unless the GODEBUG setting says otherwise -/
theorem slice_adds_null (opts : IOpts) (fuel : Nat) (e : GoType) (st : Store) (id : NodeId) (st' : Store)
    (h : forType opts (fuel + 1) (.slice e) st = .ok (some id, st')) :
    ∃ eid, st'.get? id = some (if opts.nullForSlices then { types := some ["null", "array"], items := some eid }
                               else { type := "array", items := some eid }) := by
  change inferStep opts (inferFuel opts fuel) (.slice e) [] st = _ at h
  rw [inferStep_slice (e := e) (an := false) rfl] at h
  obtain ⟨⟨es, st1⟩, _, h⟩ := Res.bind_eq_ok h
  cases es with
  | none => cases h
  | some eid =>
    cases h
    exact ⟨eid, by rw [addNull_false]; exact get?_push_size _ _⟩

/-! ## structs: `required`, `propertyOrder`, `properties` -/

/-- the struct-field loop: `propertyOrder` receives the JSON names of the fields that are not `json:"-"`, in
    declaration order; `required` those among them whose tag has neither omitempty nor omitzero; the keys
    of `properties` are these names.  (`NeverDrops`: no field is skipped for an invalid type, which is the
    case without IgnoreInvalidTypes.) -/
theorem structLoop_spec (rec : IRec) (seen : List String) (fields : List (String × String × GoType))
    (n : Node) (st : Store) (n' : Node) (st' : Store)
    (hnd : NeverDrops rec seen fields) (h : structLoop rec seen fields n st = .ok (n', st')) :
    n'.propertyOrder.getD [] = n.propertyOrder.getD [] ++ jsonNames fields ∧
    n'.required.getD [] = n.required.getD [] ++ alwaysNames fields ∧
    ∀ k, k ∈ (n'.properties.getD []).map (·.1) ↔ (k ∈ (n.properties.getD []).map (·.1) ∨ k ∈ jsonNames fields) :=
  structLoop_lists fields hnd h

/-- the schema of a struct type -/
theorem struct_schema (opts : IOpts) (fuel : Nat) (fields : List (String × String × GoType)) (st : Store)
    (id : NodeId) (st' : Store) (hi : opts.ignore = false)
    (h : forType opts (fuel + 1) (.struct fields) st = .ok (some id, st')) :
    ∃ n, st'.get? id = some n ∧ n.type = "object" ∧
      n.required.getD [] = alwaysNames fields ∧
      (∀ k, k ∈ (n.properties.getD []).map (·.1) ↔ k ∈ jsonNames fields) ∧
      (nodup (jsonNames fields) = true → n.propertyOrder.getD [] = jsonNames fields) := by
  change inferStep opts (inferFuel opts fuel) (.struct fields) [] st = _ at h
  obtain ⟨n, st1, hl, hr, rfl⟩ := inferStep_struct_ok (t0 := .struct fields) (fields := fields) (an := false) rfl h
  cases hr
  have hnd : NeverDrops (inferFuel opts fuel) [] fields :=
    fun f _ _ s s1 hf => inferFuel_never_none hi fuel _ _ _ _ hf
  obtain ⟨h1, h2, h3⟩ := structLoop_lists fields hnd hl
  refine ⟨_, get?_push_size _ _, ?_, ?_, ?_, ?_⟩
  · rw [addNull_false, finalOrder_type, coreOf_type (structLoop_core fields hl)]
    rfl
  · rw [addNull_false, finalOrder_required, h2]
    rfl
  · intro k
    rw [addNull_false, finalOrder_properties, h3]
    simp [structNode0]
  · intro hnd
    have h1' : n.propertyOrder.getD [] = jsonNames fields := by rw [h1]; rfl
    rw [addNull_false, finalOrder_order_of_nodup n (by rw [h1']; exact hnd), h1']

/-- a field's JSON name is required iff its tag has neither omitempty nor omitzero (distinct JSON names) -/
theorem required_iff_not_omit (opts : IOpts) (fuel : Nat) (fields : List (String × String × GoType)) (st : Store)
    (id : NodeId) (st' : Store) (hi : opts.ignore = false) (hd : nodup (jsonNames fields) = true)
    (h : forType opts (fuel + 1) (.struct fields) st = .ok (some id, st'))
    (f : String × String × GoType) (hf : f ∈ fields) (ho : (fieldJSONInfo f.1 f.2.1).omitted = false) :
    ∃ n, st'.get? id = some n ∧
      ((fieldJSONInfo f.1 f.2.1).name ∈ n.required.getD [] ↔
        ((fieldJSONInfo f.1 f.2.1).omitempty = false ∧ (fieldJSONInfo f.1 f.2.1).omitzero = false)) := by
  obtain ⟨n, hn, _, hr, _⟩ := struct_schema opts fuel fields st id st' hi h
  exact ⟨n, hn, by rw [hr]; exact mem_alwaysNames_iff hd hf ho⟩

/-- for distinct JSON names `propertyOrder` is the list of JSON names of the non-omitted fields in
    declaration order, and the keys of `properties` are the same names -/
theorem propertyOrder_is_field_order (opts : IOpts) (fuel : Nat) (fields : List (String × String × GoType))
    (st : Store) (id : NodeId) (st' : Store) (hi : opts.ignore = false) (hd : nodup (jsonNames fields) = true)
    (h : forType opts (fuel + 1) (.struct fields) st = .ok (some id, st')) :
    ∃ n, st'.get? id = some n ∧ n.propertyOrder.getD [] = jsonNames fields ∧
      ∀ k, k ∈ (n.properties.getD []).map (·.1) ↔ k ∈ jsonNames fields := by
  obtain ⟨n, hn, _, _, hp, hpo⟩ := struct_schema opts fuel fields st id st' hi h
  exact ⟨n, hn, hpo hd, hp⟩

/-! ## recursive types, invalid kinds -/

/-- the cycle check: a named type that is being expanded is an error -/
theorem recursive_type_errors (opts : IOpts) (rec : IRec) (nm : String) (u : GoType) (seen : List String) (st : Store)
    (h : seen.contains nm = true) :
    inferStep opts rec (.named nm u) seen st = .err ∧ inferStep opts rec (.ref nm) seen st = .err ∧
    inferStep opts rec (.ptr (.named nm u)) seen st = .err ∧ inferStep opts rec (.ptr (.ref nm)) seen st = .err :=
  ⟨inferStep_seen (t := .named nm u) (an := false) rfl rfl h, inferStep_seen (t := .ref nm) (an := false) rfl rfl h,
   inferStep_seen (t := .named nm u) (an := true) rfl rfl h, inferStep_seen (t := .ref nm) (an := true) rfl rfl h⟩

/-- `type T []T` (not in the type table) is an error -/
theorem recursive_slice_errors (opts : IOpts) (fuel : Nat) (nm : String) (st : Store)
    (hs : Json.lookup nm opts.schemas = none) :
    forType opts (fuel + 2) (.named nm (.slice (.ref nm))) st = .err ∧
    forType opts (fuel + 2) (.named nm (.slice (.ptr (.ref nm)))) st = .err := by
  constructor
  · show inferStep opts (inferFuel opts (fuel + 1)) (.named nm (.slice (.ref nm))) [] st = _
    rw [inferStep_named_slice (nm := nm) (e := .ref nm) (an := false) rfl rfl hs]
    show Res.bind (inferStep opts (inferFuel opts fuel) (.ref nm) [nm] st) _ = _
    rw [inferStep_seen (t := .ref nm) (nm := nm) (an := false) rfl rfl (by simp)]
    rfl
  · show inferStep opts (inferFuel opts (fuel + 1)) (.named nm (.slice (.ptr (.ref nm)))) [] st = _
    rw [inferStep_named_slice (nm := nm) (e := .ptr (.ref nm)) (an := false) rfl rfl hs]
    show Res.bind (inferStep opts (inferFuel opts fuel) (.ptr (.ref nm)) [nm] st) _ = _
    rw [inferStep_seen (t := .ref nm) (nm := nm) (an := true) rfl rfl (by simp)]
    rfl

/-- `type T struct { F *T; … }` (not in the type table, `F` not `json:"-"`) is an error -/
theorem recursive_struct_errors (opts : IOpts) (fuel : Nat) (nm goName tag : String)
    (rest : List (String × String × GoType)) (st : Store)
    (hs : Json.lookup nm opts.schemas = none) (ho : (fieldJSONInfo goName tag).omitted = false) :
    forType opts (fuel + 2) (.named nm (.struct ((goName, tag, .ptr (.ref nm)) :: rest))) st = .err ∧
    forType opts (fuel + 2) (.ptr (.named nm (.struct ((goName, tag, .ptr (.ref nm)) :: rest)))) st = .err := by
  have key : ∀ s n, structLoop (inferFuel opts (fuel + 1)) [nm] ((goName, tag, .ptr (.ref nm)) :: rest) n s = .err := by
    intro s n
    simp only [structLoop, ho, Bool.false_eq_true, if_false]
    show Res.bind (inferStep opts (inferFuel opts fuel) (.ptr (.ref nm)) [nm] s) _ = _
    rw [inferStep_seen (t := .ref nm) (nm := nm) (an := true) rfl rfl (by simp)]
    rfl
  constructor
  · show inferStep opts (inferFuel opts (fuel + 1)) (.named nm (.struct _)) [] st = _
    rw [inferStep_named_struct (nm := nm) (an := false) rfl rfl hs, key]
    rfl
  · show inferStep opts (inferFuel opts (fuel + 1)) (.ptr (.named nm (.struct _))) [] st = _
    rw [inferStep_named_struct (nm := nm) (an := true) rfl rfl hs, key]
    rfl

/-- a kind without a table entry (func, chan, complex, …): an error, or dropped with IgnoreInvalidTypes -/
theorem invalid_kind_errors_or_dropped (opts : IOpts) (fuel : Nat) (kind : String) (st : Store)
    (hk : kindEntry kind = none) :
    forType opts (fuel + 1) (.basic kind) st = (if opts.ignore then .ok (none, st) else .err) ∧
    forType opts (fuel + 1) (.ptr (.basic kind)) st = (if opts.ignore then .ok (none, st) else .err) := by
  constructor
  · show inferStep opts (inferFuel opts fuel) (.basic kind) [] st = _
    rw [inferStep_basic (kind := kind) (an := false) rfl, hk]
  · show inferStep opts (inferFuel opts fuel) (.ptr (.basic kind)) [] st = _
    rw [inferStep_basic (kind := kind) (an := true) rfl, hk]

/-- … which is the case of these kinds -/
theorem invalid_kinds :
    kindEntry "Func" = none ∧ kindEntry "Chan" = none ∧ kindEntry "Complex64" = none ∧
    kindEntry "Complex128" = none ∧ kindEntry "UnsafePointer" = none ∧ kindEntry "Invalid" = none := by
  decide

/-- a map whose key kind is not string likewise -/
theorem invalid_map_key_errors_or_dropped (opts : IOpts) (fuel : Nat) (keyKind : String) (e : GoType) (st : Store)
    (hk : keyKind ≠ "String") :
    forType opts (fuel + 1) (.map keyKind e) st = (if opts.ignore then .ok (none, st) else .err) := by
  show inferStep opts (inferFuel opts fuel) (.map keyKind e) [] st = _
  rw [inferStep_map (keyKind := keyKind) (e := e) (an := false) rfl]
  simp [hk]

/-- a struct field of invalid type is skipped with IgnoreInvalidTypes (and an error without) -/
theorem invalid_field_dropped (rec : IRec) (seen : List String) (goName tag : String) (ft : GoType)
    (rest : List (String × String × GoType)) (n : Node) (st st1 : Store)
    (ho : (fieldJSONInfo goName tag).omitted = false) (hr : rec ft seen st = .ok (none, st1)) :
    structLoop rec seen ((goName, tag, ft) :: rest) n st = structLoop rec seen rest (ensureProps n) st1 := by
  simp only [structLoop, ho, Bool.false_eq_true, if_false, hr, Res.bind_ok]
  rfl

/-! ## the type table -/

/-- a named type with an entry in the type table yields a clone of the entry, whatever its underlying
    type; for a pointer to it `null` is added to the clone (never to the entry) -/
theorem typeTable_substituted (opts : IOpts) (fuel : Nat) (nm : String) (u : GoType) (seen : List String) (st : Store)
    (sid : NodeId) (hs : Json.lookup nm opts.schemas = some sid) (hseen : seen.contains nm = false) :
    inferFuel opts (fuel + 1) (.named nm u) seen st =
      (Res.bind (clone st sid) fun r =>
        match r.2.get? r.1 with
        | none => .panic
        | some cn => .ok (some r.1, r.2.set! r.1 cn)) ∧
    inferFuel opts (fuel + 1) (.ptr (.named nm u)) seen st =
      (Res.bind (clone st sid) fun r =>
        match r.2.get? r.1 with
        | none => .panic
        | some cn => .ok (some r.1, r.2.set! r.1 (tableNull opts.nullForSlices cn))) := by
  constructor
  · show inferStep opts (inferFuel opts fuel) (.named nm u) seen st = _
    rw [inferStep_table (t := .named nm u) (an := false) rfl rfl hseen hs]
    simp only [Bool.and_false]
    rfl
  · show inferStep opts (inferFuel opts fuel) (.ptr (.named nm u)) seen st = _
    rw [inferStep_table (t := .named nm u) (an := true) rfl rfl hseen hs]
    simp only [Bool.and_true]
    rfl

/-- … hence independent of the underlying structure -/
theorem typeTable_ignores_structure (opts : IOpts) (fuel : Nat) (nm : String) (u u' : GoType) (seen : List String)
    (st : Store) (sid : NodeId) (hs : Json.lookup nm opts.schemas = some sid) (hseen : seen.contains nm = false) :
    inferFuel opts (fuel + 1) (.named nm u) seen st = inferFuel opts (fuel + 1) (.named nm u') seen st := by
  rw [(typeTable_substituted opts fuel nm u seen st sid hs hseen).1,
      (typeTable_substituted opts fuel nm u' seen st sid hs hseen).1]

/-- … and the clone is fresh: its root is a new id, the entry itself is unchanged -/
theorem typeTable_clone_fresh (opts : IOpts) (fuel : Nat) (nm : String) (u : GoType) (st : Store)
    (sid : NodeId) (hs : Json.lookup nm opts.schemas = some sid) (id : NodeId) (st' : Store)
    (h : forType opts (fuel + 1) (.named nm u) st = .ok (some id, st')) :
    ∃ stc cn, clone st sid = .ok (id, stc) ∧ stc.get? id = some cn ∧ st'.get? id = some cn ∧
      st.size ≤ id ∧ st'.get? sid = st.get? sid := by
  have hext := forType_store_extends _ _ _ _ _ _ h
  have hfr := forType_fresh _ _ _ _ _ _ h
  change inferFuel opts (fuel + 1) (.named nm u) [] st = _ at h
  rw [(typeTable_substituted opts fuel nm u [] st sid hs rfl).1] at h
  obtain ⟨⟨cid, stc⟩, hc, h⟩ := Res.bind_eq_ok h
  simp only at h
  split at h
  · cases h
  · rename_i cn hcn
    cases h
    refine ⟨stc, cn, hc, hcn, get?_set!_self _ (lt_size_of_get? hcn), hfr.1, ?_⟩
    by_cases hlt : sid < st.size
    · exact hext.2 sid hlt
    · -- a nil entry: clone returns it unchanged, and it is no node
      have hnone : st.get? sid = none := get?_eq_none_iff.2 (Nat.le_of_not_lt hlt)
      have := cloneStep_none (rec := cloneFuel (st.size + 1)) hnone
      have hc' : clone st sid = .ok (sid, st) := this
      rw [hc'] at hc
      cases hc
      rw [hnone] at hcn
      cases hcn

/-! ## declared (named) types without a type-table entry

  `EncJson.erase T`: `T` with every declared type replaced by its underlying type; `EncJson.NamedOk opts strs [] T`
  (decidable): every declared type of `T` that is not one of the marshaler types `strs` has no entry in the type table,
  an underlying type that is a basic kind, slice, array, map or struct, and no name occurs twice along a root-to-leaf
  path; the marshaler types `strs` have the entry `{"type":"string"}` (`EncJson.StrEntries`) and are written
  `.named n (.basic "String")`.  Helper lemmas: JSV/Proofs/InfNamed.lean. -/

/-- a declared type that is not in the type table and not being expanded is treated like its underlying type: the
    only effect is that its name is entered into `seen` (for a pointer to it `null` is added as for the underlying
    type) -/
theorem named_pushes_seen (opts : IOpts) (fuel : Nat) (nm : String) (u : GoType) (seen : List String) (st : Store)
    (hs : Json.lookup nm opts.schemas = none) (hseen : seen.contains nm = false) (hsh : namedShape u = true) :
    inferFuel opts (fuel + 1) (.named nm u) seen st = inferFuel opts (fuel + 1) u (nm :: seen) st ∧
    inferFuel opts (fuel + 1) (.ptr (.named nm u)) seen st = inferFuel opts (fuel + 1) (.ptr u) (nm :: seen) st :=
  ⟨inferStep_named_transparent (t0 := .named nm u) (an := false) rfl hseen hs hsh,
   inferStep_named_transparent (t0 := .ptr (.named nm u)) (an := true) rfl hseen hs hsh⟩

/-- **declared types are transparent**: on a type whose declared types are transparent (`NamedOk`) `ForType` is
    `ForType` on the erased type — the same outcome, the same schema, the same store; for a marshaler type of the table
    (entry `{"type":"string"}`) the clone of the entry is the schema of the kind `string` -/
theorem forType_named_transparent (opts : IOpts) (strs : List String) (fuel : Nat) (T : GoType) (st : Store)
    (hst : StrEntries opts.schemas strs st) (hok : NamedOk opts strs [] T = true) :
    forType opts fuel T st = forType opts fuel (erase T) st :=
  forType_erase opts strs fuel T st hst hok

/-- the schema of a declared struct type `type N struct {…}` without a type-table entry (whatever the field types) -/
theorem struct_schema_named (opts : IOpts) (fuel : Nat) (nm : String) (fields : List (String × String × GoType))
    (st : Store) (id : NodeId) (st' : Store) (hi : opts.ignore = false) (hs : Json.lookup nm opts.schemas = none)
    (h : forType opts (fuel + 1) (.named nm (.struct fields)) st = .ok (some id, st')) :
    ∃ n, st'.get? id = some n ∧ n.type = "object" ∧
      n.required.getD [] = alwaysNames fields ∧
      (∀ k, k ∈ (n.properties.getD []).map (·.1) ↔ k ∈ jsonNames fields) ∧
      (nodup (jsonNames fields) = true → n.propertyOrder.getD [] = jsonNames fields) := by
  change inferFuel opts (fuel + 1) (.named nm (.struct fields)) [] st = _ at h
  rw [(named_pushes_seen opts fuel nm (.struct fields) [] st hs rfl rfl).1] at h
  exact inferStep_struct_schema hi h

/-- … a field's JSON name is required iff its tag has neither omitempty nor omitzero (distinct JSON names) -/
theorem required_iff_not_omit_named (opts : IOpts) (fuel : Nat) (nm : String) (fields : List (String × String × GoType))
    (st : Store) (id : NodeId) (st' : Store) (hi : opts.ignore = false) (hs : Json.lookup nm opts.schemas = none)
    (hd : nodup (jsonNames fields) = true)
    (h : forType opts (fuel + 1) (.named nm (.struct fields)) st = .ok (some id, st'))
    (f : String × String × GoType) (hf : f ∈ fields) (ho : (fieldJSONInfo f.1 f.2.1).omitted = false) :
    ∃ n, st'.get? id = some n ∧
      ((fieldJSONInfo f.1 f.2.1).name ∈ n.required.getD [] ↔
        ((fieldJSONInfo f.1 f.2.1).omitempty = false ∧ (fieldJSONInfo f.1 f.2.1).omitzero = false)) := by
  obtain ⟨n, hn, _, hr, _⟩ := struct_schema_named opts fuel nm fields st id st' hi hs h
  exact ⟨n, hn, by rw [hr]; exact mem_alwaysNames_iff hd hf ho⟩

/-- … `propertyOrder` is the list of JSON names of the non-omitted fields in declaration order, and the keys of
    `properties` are the same names (distinct JSON names) -/
theorem propertyOrder_is_field_order_named (opts : IOpts) (fuel : Nat) (nm : String)
    (fields : List (String × String × GoType)) (st : Store) (id : NodeId) (st' : Store) (hi : opts.ignore = false)
    (hs : Json.lookup nm opts.schemas = none) (hd : nodup (jsonNames fields) = true)
    (h : forType opts (fuel + 1) (.named nm (.struct fields)) st = .ok (some id, st')) :
    ∃ n, st'.get? id = some n ∧ n.propertyOrder.getD [] = jsonNames fields ∧
      ∀ k, k ∈ (n.properties.getD []).map (·.1) ↔ k ∈ jsonNames fields := by
  obtain ⟨n, hn, _, _, hp, hpo⟩ := struct_schema_named opts fuel nm fields st id st' hi hs h
  exact ⟨n, hn, hpo hd, hp⟩

/-! ## the tag parser -/

/-- no `json` key in the tag: the Go field name, nothing omitted -/
theorem fieldJSONInfo_no_tag (goName tag : String) (h : tagLookup "json" tag = none) :
    (fieldJSONInfo goName tag).name = goName ∧ (fieldJSONInfo goName tag).omitted = false ∧
    (fieldJSONInfo goName tag).omitempty = false ∧ (fieldJSONInfo goName tag).omitzero = false := by
  unfold fieldJSONInfo
  rw [h]
  exact ⟨rfl, rfl, rfl, rfl⟩

/-- `json:"-"` : omitted -/
theorem fieldJSONInfo_dash (goName tag t : String) (h : tagLookup "json" tag = some t) (hp : t.splitOn "," = ["-"]) :
    (fieldJSONInfo goName tag).omitted = true := by
  unfold fieldJSONInfo
  rw [h]
  simp [hp]

/-- `json:"-,"` : the field is named "-" -/
theorem fieldJSONInfo_dash_comma (goName tag t : String) (h : tagLookup "json" tag = some t)
    (hp : t.splitOn "," = ["-", ""]) :
    (fieldJSONInfo goName tag).name = "-" ∧ (fieldJSONInfo goName tag).omitted = false ∧
    (fieldJSONInfo goName tag).omitempty = false ∧ (fieldJSONInfo goName tag).omitzero = false := by
  unfold fieldJSONInfo
  rw [h]
  simp [hp]

/-- `json:"n"`, `json:"n,omitempty"`, `json:"n,omitzero"`, `json:"n,omitempty,omitzero"`, … -/
theorem fieldJSONInfo_named (goName tag t nm : String) (opts : List String) (h : tagLookup "json" tag = some t)
    (hp : t.splitOn "," = nm :: opts) (hn : nm ≠ "") (hd : nm ≠ "-") :
    (fieldJSONInfo goName tag).name = nm ∧ (fieldJSONInfo goName tag).omitted = false ∧
    (fieldJSONInfo goName tag).omitempty = opts.contains "omitempty" ∧
    (fieldJSONInfo goName tag).omitzero = opts.contains "omitzero" := by
  unfold fieldJSONInfo
  rw [h]
  simp [hp, hn, hd]

/-- `json:",omitempty"` : the Go field name with the options -/
theorem fieldJSONInfo_unnamed (goName tag t : String) (opts : List String) (h : tagLookup "json" tag = some t)
    (hp : t.splitOn "," = "" :: opts) :
    (fieldJSONInfo goName tag).name = goName ∧ (fieldJSONInfo goName tag).omitted = false ∧
    (fieldJSONInfo goName tag).omitempty = opts.contains "omitempty" ∧
    (fieldJSONInfo goName tag).omitzero = opts.contains "omitzero" := by
  unfold fieldJSONInfo
  rw [h]
  simp [hp]


/-! ## The hypotheses are satisfiable on non-trivial data (labelled tests) -/

/-- `*[]int8`: two fresh nodes, the root is the last one; `null` comes from the slice rule -/
example : (match forType {} 3 (.ptr (.slice (.basic "Int8"))) #[] with
    | .ok (some id, st') => (id, st'.size) | _ => (0, 0)) = (1, 2) := by decide

example : (match forType {} 3 (.ptr (.slice (.basic "Int8"))) #[] with
    | .ok (some id, st') => (st'.get? id).map (·.types) | _ => none) = some (some ["null", "array"]) := by decide

/-- `*string`: `types = ["null","string"]` (an instance of `pointer_adds_null_basic`) -/
example : (match forType {} 2 (.ptr (.basic "String")) #[] with
    | .ok (some id, st') => (st'.get? id).map (fun n => (n.type, n.types)) | _ => none)
      = some ("", some ["null", "string"]) := by decide

/-- `func()` : an error, or dropped -/
example : forType {} 3 (.basic "Func") #[] = .err := by rfl
example : (forType { ignore := true } 3 (.slice (.basic "Chan")) #[]).isOk = true := by decide

/-- the type table: `time.Time` ↦ schema 0; the result is the clone 1, whatever the struct looks like, and
    schema 0 is still there (`typeTable_substituted`, `typeTable_clone_fresh`) -/
example : (match forType { schemas := [("time.Time", 0)] } 2
      (.named "time.Time" (.struct [("wall", "", .basic "Uint64")])) #[{ type := "string", format := "date-time" }] with
    | .ok (some id, st') => (id, st'.size, (st'.get? id).map (·.format), (st'.get? 0).map (·.format))
    | _ => (0, 0, none, none)) = (1, 2, some "date-time", some "date-time") := by decide

/-- `type L []L` -/
example : forType {} 5 (.named "L" (.slice (.ref "L"))) #[] = .err :=
  (recursive_slice_errors {} 3 "L" #[] rfl).1


/-- `type Level int8; type IDs []Level`: the schema of `[]int8` (`forType_named_transparent` applied) -/
example : forType {} 3 (.named "IDs" (.slice (.named "Level" (.basic "Int8")))) #[] =
    forType {} 3 (.slice (.basic "Int8")) #[] :=
  forType_named_transparent {} [] 3 _ #[] (fun _ h => nomatch h) (by decide)

/-- … evaluated: two nodes, `null` from the slice rule, integer items -/
example : (match forType {} 3 (.named "IDs" (.slice (.named "Level" (.basic "Int8")))) #[] with
    | .ok (some id, st') => (id, st'.size, (st'.get? id).map (·.types), (st'.get? 0).map (·.type))
    | _ => (0, 0, none, none)) = (1, 2, some (some ["null", "array"]), some "integer") := by decide

/-- the same declared type at two sibling positions is fine (`seen` is path-local) … -/
example : NamedOk {} [] [] (.struct [("A", "", .named "P" (.basic "Int")), ("B", "", .slice (.named "P" (.basic "Int")))])
    = true := by decide

/-- … twice along one path it is the cycle check's business -/
example : NamedOk {} [] [] (.named "P" (.slice (.named "P" (.basic "Int")))) = false := by decide

/-! ## embedded struct fields (`forTypeE`, JSV/Model/InferEmb.lean; encoding/json side: JSV/Spec/EncJsonEmb.lean)

  `Go.forTypeE opts fuel T st` is the model of `ForType` on the type language with embedded fields `GoTypeE`
  (helper lemmas: JSV/Proofs/InfEmbStore.lean, InfEmbCons.lean, InfEmbNames.lean, InfEmbDom.lean). -/

open EncJsonEmb in
/-- determinism: the result is a function of `(opts, fuel, T, st)` -/
theorem forTypeE_deterministic (opts : IOpts) (fuel : Nat) (T : GoTypeE) (st : Store)
    (r₁ r₂ : Res (Option NodeId × Store))
    (h₁ : forTypeE opts fuel T st = r₁) (h₂ : forTypeE opts fuel T st = r₂) : r₁ = r₂ :=
  h₁.symm.trans h₂

/-- nothing that exists is modified: the type table (`TypeSchemas`, including the overrides of embedded types, whose
    properties are cloned) and every earlier result are untouched -/
theorem forTypeE_store_extends (opts : IOpts) (fuel : Nat) (T : GoTypeE) (st : Store) (r : Option NodeId) (st' : Store)
    (h : forTypeE opts fuel T st = .ok (r, st')) :
    st.size ≤ st'.size ∧ ∀ i, i < st.size → st'.get? i = st.get? i :=
  (inferFuelE_inv opts fuel _ _ _ _ _ h).1

/-- the result is fresh: every `*Schema` reachable from it was allocated after the call started; none is shared with
    an earlier result or with the type table -/
theorem forTypeE_fresh (opts : IOpts) (fuel : Nat) (T : GoTypeE) (st : Store) (id : NodeId) (st' : Store)
    (h : forTypeE opts fuel T st = .ok (some id, st')) :
    st.size ≤ id ∧ ∀ b, Go.Reach st' id b → st.size ≤ b ∧ st.get? b = none := by
  obtain ⟨_, hid, hf⟩ := inferFuelE_inv opts fuel _ _ _ _ _ h
  have hf0 : FreshAbove st.size st := by
    intro i n hi hn
    exact absurd (lt_size_of_get? hn) (Nat.not_lt_of_le hi)
  have hf' := hf st.size (Nat.le_refl _) hf0
  refine ⟨(hid id rfl).1, fun b hb => ?_⟩
  have hb' := Reach.fresh hf' hb (hid id rfl).1
  exact ⟨hb', get?_eq_none_iff.2 hb'⟩

/-- the same for the model's own traversal `Go.reachable` -/
theorem forTypeE_fresh_reachable (opts : IOpts) (fuel : Nat) (T : GoTypeE) (st : Store) (id : NodeId) (st' : Store)
    (h : forTypeE opts fuel T st = .ok (some id, st')) (f : Nat) :
    ∀ b, b ∈ Go.reachable st' f [id] → st.size ≤ b ∧ st.get? b = none := by
  intro b hb
  obtain ⟨a, ha, hr⟩ := reachable_sound st' f [id] b hb
  cases List.mem_singleton.1 ha
  exact (forTypeE_fresh opts fuel T st id st' h).2 b hr

/-- no schema of the type table — in particular no override of an embedded type and none of its properties — is
    part of the result -/
theorem forTypeE_disjoint_from_table (opts : IOpts) (fuel : Nat) (T : GoTypeE) (st : Store) (id : NodeId) (st' : Store)
    (h : forTypeE opts fuel T st = .ok (some id, st')) (sid : NodeId) (n : Node) (hn : st.get? sid = some n) :
    ¬ Go.Reach st' id sid := by
  intro hr
  have := ((forTypeE_fresh opts fuel T st id st' h).2 sid hr).2
  rw [hn] at this
  cases this

/-- two successive calls give disjoint results -/
theorem forTypeE_twice_disjoint (opts₁ opts₂ : IOpts) (f₁ f₂ : Nat) (T₁ T₂ : GoTypeE) (st : Store)
    (id₁ id₂ : NodeId) (st₁ st₂ : Store)
    (h₁ : forTypeE opts₁ f₁ T₁ st = .ok (some id₁, st₁)) (h₂ : forTypeE opts₂ f₂ T₂ st₁ = .ok (some id₂, st₂)) :
    id₁ < id₂ ∧ (∀ b, Go.Reach st₂ id₂ b → st₁.get? b = none) ∧ ∀ i, i < st₁.size → st₂.get? i = st₁.get? i := by
  obtain ⟨_, hid, _⟩ := inferFuelE_inv opts₁ f₁ _ _ _ _ _ h₁
  have h2 := forTypeE_fresh _ _ _ _ _ _ h₂
  exact ⟨Nat.lt_of_lt_of_le (hid id₁ rfl).2 h2.1, fun b hb => (h2.2 b hb).2, (forTypeE_store_extends _ _ _ _ _ _ h₂).2⟩

/-- **conservativity**: on a type without embedded fields (`GoType.toE`: every field exported, none embedded) whose
    structs have pairwise distinct Go field names (`DistinctNames`; the compiler and reflect.StructOf refuse anything
    else) `forTypeE` is `forType`: the same outcome, the same schema, the same store -/
theorem forTypeE_conservative (opts : IOpts) (fuel : Nat) (T : GoType) (st : Store) (hd : DistinctNames T = true) :
    forTypeE opts fuel T.toE st = forType opts fuel T st :=
  inferFuelE_toE opts fuel T [] st hd

open EncJsonEmb in
/-- **declared types in non-embedded positions are transparent** for `forTypeE` as well: on a type whose declared types
    are transparent (`NamedOkE`: no entry in the type table, no name twice along a path; the declared types of embedded
    fields are not constrained) `ForType` is `ForType` on the type with these declared types replaced by their underlying
    types (`eraseE`; the types of embedded fields keep their names) — the same outcome, the same schema, the same store -/
theorem forTypeE_named_transparent (opts : IOpts) (fuel : Nat) (T : GoTypeE) (st : Store)
    (hok : NamedOkE opts [] T = true) : forTypeE opts fuel T st = forTypeE opts fuel (eraseE T) st :=
  forTypeE_erase opts fuel T st hok

/-- … the hypothesis is needed: two fields of one Go name at one depth hide each other in reflect.VisibleFields -/
example : (visibleFields (fieldsToE [("A", "", .basic "Int"), ("A", "", .basic "Int")])).length = 0 := by decide

open EncJsonEmb in
/-- **properties = encoding/json's fields (partial)**.  For a struct type of the domain `InDomainE` — embedded fields
    are untagged exported declared struct types, by value or by pointer; within the whole tree of embedded structs the
    JSON name of a field is determined by its Go name and vice versa, and no Go name occurs twice at one depth
    (`namesOk`), so that Go's selector shadowing and encoding/json's dominance coincide; field types as in
    `EncJson.InDomain` — none of whose embedded types has a TypeSchemas entry (`NoOverride`):
    `propertyOrder` is the list of JSON names of `EncJsonEmb.typeFields`, in the same order (the order json.Marshal
    emits), the keys of `properties` are the same names, and `required` lists, in order, those without omitempty /
    omitzero.

    Partial, what is missing: (1) types outside `InDomainE` — a JSON name shared by two Go names is the known
    finding D14 (see the witness below), tagged or non-struct or unexported embedded fields are D16; (2) declared
    types in non-embedded positions: these are in `properties_eq_encjson_named_partial`; (3) overrides of embedded types: the full statement would add the override's property
    names (sorted, where absent) at the position of the embedded field and drop the promoted fields below it:
      propertyOrder = dedupKeepLast (the names entered by `structLoopE` field by field)
    which `structLoopE` computes but no theorem here states. -/
theorem properties_eq_encjson_partial (opts : IOpts) (fuel : Nat) (fields : List (FieldE GoTypeE)) (st : Store)
    (id : NodeId) (st' : Store) (hdom : InDomainE (.struct fields) = true)
    (hno : NoOverride opts (visibleFields fields))
    (h : forTypeE opts (fuel + 1) (.struct fields) st = .ok (some id, st')) :
    ∃ n, st'.get? id = some n ∧ n.type = "object" ∧
      n.propertyOrder.getD [] = fieldNames fields ∧
      (∀ k, k ∈ (n.properties.getD []).map (·.1) ↔ k ∈ fieldNames fields) ∧
      n.required.getD [] = alwaysFieldNames fields := by
  change inferStepE opts (inferFuelE opts fuel) (.struct fields) [] st = _ at h
  obtain ⟨id', n, hid, hn, h1, h2, h3, h4⟩ :=
    inferStepE_struct_names (inferFuelE_some opts fuel) (t0 := .struct fields) (an := false) rfl hdom hno h
  cases hid
  rw [addNull_false] at hn
  exact ⟨n, hn, h1, h2, h3, h4⟩

open EncJsonEmb in
/-- **properties = encoding/json's fields, with declared types in non-embedded positions (partial)**: as
    `properties_eq_encjson_partial`, for a struct whose field types (at any depth, those of the fields of embedded structs
    included) may be declared types without a type-table entry (`InDomainEN`, `NamedOkE`, see
    `C04.infer_soundE_named_partial`): the names, their order and `required` are those of `typeFields` of the struct
    itself — encoding/json's field list does not depend on whether a field's type is declared.  Partial in the same sense
    as `properties_eq_encjson_partial`. -/
theorem properties_eq_encjson_named_partial (opts : IOpts) (fuel : Nat) (fields : List (FieldE GoTypeE)) (st : Store)
    (id : NodeId) (st' : Store) (hdom : InDomainEN (.struct fields) = true)
    (hok : NamedOkE opts [] (.struct fields) = true) (hno : NoOverride opts (visibleFields fields))
    (h : forTypeE opts (fuel + 1) (.struct fields) st = .ok (some id, st')) :
    ∃ n, st'.get? id = some n ∧ n.type = "object" ∧
      n.propertyOrder.getD [] = fieldNames fields ∧
      (∀ k, k ∈ (n.properties.getD []).map (·.1) ↔ k ∈ fieldNames fields) ∧
      n.required.getD [] = alwaysFieldNames fields := by
  rw [forTypeE_erase opts (fuel + 1) _ st hok] at h
  have hdom' : InDomainE (.struct (eraseFieldsE fields)) = true := hdom
  obtain ⟨n, hn, h1, h2, h3, h4⟩ := properties_eq_encjson_partial opts fuel (eraseFieldsE fields) st id st' hdom'
    (noOverride_erase hno) h
  rw [(fieldNames_erase fields).1] at h2 h3
  rw [(fieldNames_erase fields).2] at h4
  exact ⟨n, hn, h1, h2, h3, h4⟩

open EncJsonEmb in
/-- … in particular `required`, as a set, is the set of fields without omitempty / omitzero -/
theorem required_iff_not_omit_partial (opts : IOpts) (fuel : Nat) (fields : List (FieldE GoTypeE)) (st : Store)
    (id : NodeId) (st' : Store) (hdom : InDomainE (.struct fields) = true)
    (hno : NoOverride opts (visibleFields fields))
    (h : forTypeE opts (fuel + 1) (.struct fields) st = .ok (some id, st')) :
    ∃ n, st'.get? id = some n ∧
      ∀ k, k ∈ n.required.getD [] ↔ ∃ f, f ∈ typeFields fields ∧ f.name = k ∧ f.omitempty = false ∧ f.omitzero = false := by
  obtain ⟨n, hn, _, _, _, hr⟩ := properties_eq_encjson_partial opts fuel fields st id st' hdom hno h
  refine ⟨n, hn, fun k => ?_⟩
  rw [hr]
  unfold alwaysFieldNames
  simp only [List.mem_map, List.mem_filter, Bool.and_eq_true, Bool.not_eq_true']
  constructor
  · rintro ⟨f, ⟨hf, he, hz⟩, rfl⟩
    exact ⟨f, hf, rfl, he, hz⟩
  · rintro ⟨f, hf, rfl, he, hz⟩
    exact ⟨f, ⟨hf, he, hz⟩, rfl⟩

/-! ### witnesses for embedded fields

  `tagLookup` splits the tag with `String.splitOn`, which the kernel does not evaluate (well-founded recursion): a
  witness over concrete tags takes what the tag parser returns for each tag as a hypothesis (`Parses`; the parser
  itself is specified above: `fieldJSONInfo_named`, `fieldJSONInfo_no_tag`, …) and evaluates everything else. -/

/-- what the tag parser says about one field tag: `fieldJSONInfo`, no `jsonschema` key, the name part of the `json` tag -/
structure Parses (goName tag : String) (info : JsonInfo) (tagName : String) : Prop where
  info : fieldJSONInfo goName tag = info
  desc : tagLookup "jsonschema" tag = none
  tagName : EncJsonEmb.jsonTagName tag = tagName

theorem kindEntry_Int : kindEntry "Int" = some ("integer", none, none) := by decide
theorem kindEntry_String : kindEntry "String" = some ("string", none, none) := by decide

/-- an exported, non-embedded field -/
def fld (g tag : String) (t : GoTypeE) : FieldE GoTypeE :=
  { goName := g, tag := tag, exported := true, embedded := false, type := t }
/-- an exported embedded field -/
def emb (g tag : String) (t : GoTypeE) : FieldE GoTypeE :=
  { goName := g, tag := tag, exported := true, embedded := true, type := t }

/-- `PropertyOrder`, `Required`, and `Properties` as (name, type keyword) of a result -/
def summary (r : Res (Option NodeId × Store)) : Option (List String × List String × List (String × String)) :=
  match r with
  | .ok (some id, st') => (st'.get? id).map fun n =>
      (n.propertyOrder.getD [], n.required.getD [],
       (n.properties.getD []).map fun p => (p.1, ((st'.get? p.2).map (·.type)).getD "?"))
  | _ => none

section Witnesses
open EncJsonEmb
variable (tI tX tY tA tM : String)
  (hI : Parses "Inner" tI { name := "Inner" } "")                            -- the embedded field: no tag
  (hX : Parses "X" tX { name := "x" } "x")                                   -- X int `json:"x"`
  (hY : Parses "Y" tY { name := "y", omitempty := true } "y")                -- Y string `json:"y,omitempty"`
  (hA : Parses "A" tA { name := "a" } "a")                                   -- A int `json:"a"`
include hI hX hY hA

/-- `type Inner struct { X int "json:\"x\""; Y string "json:\"y,omitempty\"" }` -/
def innerT (tX tY : String) : GoTypeE := .named "Inner" (.struct [fld "X" tX (.basic "Int"), fld "Y" tY (.basic "String")])

/-- (i) `struct{ Inner; A int "json:\"a\"" }`: properties x, y, a in that order, required [x, a] -/
example : summary (forTypeE {} 3 (.struct [emb "Inner" tI (innerT tX tY), fld "A" tA (.basic "Int")]) #[]) =
    some (["x", "y", "a"], ["x", "a"], [("x", "integer"), ("y", "string"), ("a", "integer")]) := by
  simp [summary, innerT, fld, emb, forTypeE, inferFuelE, inferStepE, stripPtrsE, typeNameE, visibleFields, allFields, embFields,
    isVisible, structLoopE, fieldStepE, fieldJSONInfoE, underSkip, overrideOf, addFieldE, hX.info, hY.info, hA.info, hX.desc,
    hY.desc, hA.desc, Res.bind_ok, kindEntry_Int, kindEntry_String, Store.alloc, Store.get?, addNull, dedupKeepLast]

/-- … which is what encoding/json emits -/
example : fieldNames [emb "Inner" tI (innerT tX tY), fld "A" tA (.basic "Int")] = ["x", "y", "a"] ∧
    alwaysFieldNames [emb "Inner" tI (innerT tX tY), fld "A" tA (.basic "Int")] = ["x", "a"] := by
  simp [innerT, fld, emb, fieldNames, alwaysFieldNames, typeFields, candidates, embCandidates, classify, mkTField, isDominant,
    dominates, isStructE, derefE, hI.info, hI.tagName, hX.info, hX.tagName, hY.info, hY.tagName, hA.info, hA.tagName]

/-- (ii) shadowing: `struct{ X string "json:\"x\""; Inner }` — the outer `X`, declared before the embedded struct,
    hides `Inner.X`: `x` is the string -/
example : summary (forTypeE {} 3 (.struct [fld "X" tX (.basic "String"), emb "Inner" tI (innerT tX tY)]) #[]) =
    some (["x", "y"], ["x"], [("x", "string"), ("y", "string")]) := by
  simp [summary, innerT, fld, emb, forTypeE, inferFuelE, inferStepE, stripPtrsE, typeNameE, visibleFields, allFields, embFields,
    isVisible, structLoopE, fieldStepE, fieldJSONInfoE, underSkip, overrideOf, addFieldE, hX.info, hY.info, hX.desc,
    hY.desc, Res.bind_ok, kindEntry_String, Store.alloc, Store.get?, addNull, dedupKeepLast]

example : (typeFields [fld "X" tX (.basic "String"), emb "Inner" tI (innerT tX tY)]).map (fun f => (f.name, f.index)) =
    [("x", [0]), ("y", [1, 1])] := by
  simp [innerT, fld, emb, typeFields, candidates, embCandidates, classify, mkTField, isDominant,
    dominates, isStructE, derefE, hI.info, hI.tagName, hX.info, hX.tagName, hY.info, hY.tagName]

/-- (iii) the known finding D14, as the model (= the code) behaves: `struct{ Y string "json:\"x\""; Inner }`.  The Go
    name `Y` hides `Inner.Y`; `Inner.X` is visible (no other `X`) and is entered under the JSON name `x` after the
    outer field: `x` becomes the integer of `Inner.X`, and `x` is listed twice in `required` … -/
example (tY' : String) (hY' : Parses "Y" tY' { name := "x" } "x") :
    summary (forTypeE {} 3 (.struct [fld "Y" tY' (.basic "String"), emb "Inner" tI (innerT tX tY)]) #[]) =
    some (["x"], ["x", "x"], [("x", "integer")]) := by
  simp [summary, innerT, fld, emb, forTypeE, inferFuelE, inferStepE, stripPtrsE, typeNameE, visibleFields, allFields, embFields,
    isVisible, structLoopE, fieldStepE, fieldJSONInfoE, underSkip, overrideOf, addFieldE, hX.info, hY'.info, hX.desc,
    hY'.desc, Res.bind_ok, kindEntry_Int, kindEntry_String, Store.alloc, Store.get?, addNull, dedupKeepLast]

/-- … while encoding/json keeps the shallower field, the string `Y`, under `x`, and `Inner.Y` under `y` -/
example (tY' : String) (hY' : Parses "Y" tY' { name := "x" } "x") :
    (typeFields [fld "Y" tY' (.basic "String"), emb "Inner" tI (innerT tX tY)]).map (fun f => (f.name, f.index)) =
    [("x", [0]), ("y", [1, 1])] := by
  simp [innerT, fld, emb, typeFields, candidates, embCandidates, classify, mkTField, isDominant,
    dominates, isStructE, derefE, hI.info, hI.tagName, hX.info, hX.tagName, hY.info, hY.tagName, hY'.info, hY'.tagName]

end Witnesses

/-- the clone of the override's property `q` (made when the store already holds the two nodes of
    `additionalProperties: false`) -/
theorem clone_override_q :
    clone #[{ type := "object", properties := some [("q", 1)] }, { type := "boolean" }, emptyNode,
        { emptyNode with not := some 2 }] 1 =
      .ok (4, #[{ type := "object", properties := some [("q", 1)] }, { type := "boolean" }, emptyNode,
        { emptyNode with not := some 2 }, { type := "boolean" }]) := by rfl

/-- (iv) a TypeSchemas override of an embedded type two levels down: `Outer{ Mid; O int "json:\"o\"" }`,
    `Mid{ Inner; M int "json:\"m\"" }`, TypeSchemas[Inner] = `{"type":"object","properties":{"q":{"type":"boolean"}}}`
    (schema 0; its property is schema 1).  The override's property `q` (a clone: a new schema) replaces `Inner`'s
    promoted fields `x`, `y`, whatever their tags; the intermediate struct's own field `m` and the outer `o` stay. -/
example (tI tMid tX tY tM tO : String)
    (hM : Parses "M" tM { name := "m" } "m") (hO : Parses "O" tO { name := "o" } "o") :
    summary (forTypeE { schemas := [("Inner", 0)] } 3
      (.struct [emb "Mid" tMid (.named "Mid" (.struct [emb "Inner" tI (innerT tX tY), fld "M" tM (.basic "Int")])),
                fld "O" tO (.basic "Int")])
      #[{ type := "object", properties := some [("q", 1)] }, { type := "boolean" }]) =
    some (["q", "m", "o"], ["m", "o"], [("q", "boolean"), ("m", "integer"), ("o", "integer")]) := by
  have hov : overrideOnlyTypeProps { type := "object", properties := some [("q", 1)] } = true := by decide
  simp [summary, innerT, fld, emb, forTypeE, inferFuelE, inferStepE, stripPtrsE, typeNameE, visibleFields, allFields, embFields,
    isVisible, structLoopE, fieldStepE, fieldJSONInfoE, underSkip, overrideOf, addFieldE, hM.info, hO.info, hM.desc,
    hO.desc, Res.bind_ok, kindEntry_Int, Store.alloc, Store.get?, addNull, dedupKeepLast, insertOverrideProps, sortByKey,
    insertSorted, hov, clone_override_q]

/-- … an override that is not of type "object", or that has a keyword other than `type` and `properties`, is an error -/
example (tI tX tY : String) :
    forTypeE { schemas := [("Inner", 0)] } 3 (.struct [emb "Inner" tI (innerT tX tY)]) #[{ type := "string" }] = .err ∧
    forTypeE { schemas := [("Inner", 0)] } 3 (.struct [emb "Inner" tI (innerT tX tY)])
      #[{ type := "object", required := some ["q"] }] = .err := by
  have hov : overrideOnlyTypeProps { type := "object", required := some ["q"] } = false := by decide
  constructor <;>
  simp [innerT, fld, emb, forTypeE, inferFuelE, inferStepE, stripPtrsE, typeNameE, visibleFields, allFields, embFields,
    isVisible, structLoopE, overrideOf, Store.alloc, Store.get?, hov]

/-- … and a pointer type is never a key of the table: for an embedded `*Inner` the entry of `Inner` is not consulted -/
example (tI tX tY : String) (hX : Parses "X" tX { name := "x" } "x") (hY : Parses "Y" tY { name := "y", omitempty := true } "y") :
    summary (forTypeE { schemas := [("Inner", 0)] } 3 (.struct [emb "Inner" tI (.ptr (innerT tX tY))]) #[{ type := "string" }]) =
    some (["x", "y"], ["x"], [("x", "integer"), ("y", "string")]) := by
  simp [summary, innerT, fld, emb, forTypeE, inferFuelE, inferStepE, stripPtrsE, typeNameE, visibleFields, allFields, embFields,
    isVisible, structLoopE, fieldStepE, fieldJSONInfoE, underSkip, overrideOf, addFieldE, hX.info, hY.info, hX.desc,
    hY.desc, Res.bind_ok, kindEntry_Int, kindEntry_String, Store.alloc, Store.get?, addNull, dedupKeepLast]

/-! ### `visibleFields` against reflect's walker

  `visibleFields` (the specification: the shallowest field of a name, if it is alone at its depth) and
  `visibleFieldsWalk` (reflect's implementation: `byName`, cleared names) give the same fields in the same order
  (`visibleFieldsWalk_eq` below, for every tree); evaluated on
  trees with promotion, shadowing, equal-depth ambiguity, three-way conflicts, a deeper field met before a shallower
  one, a cancelled pair followed by deeper and shallower fields, and a hidden anonymous field whose fields are still
  walked.  (No tag is parsed here, so the examples are closed terms.) -/

/-- an exported field `g int` -/
def wf (g : String) : FieldE GoTypeE := { goName := g, tag := "", exported := true, embedded := false, type := .basic "Int" }
/-- an embedded struct `g`, by value or by pointer -/
def we (g : String) (fs : List (FieldE GoTypeE)) (ptr : Bool := false) : FieldE GoTypeE :=
  { goName := g, tag := "", exported := true, embedded := true,
    type := if ptr then .ptr (.named g (.struct fs)) else .named g (.struct fs) }

def walkExamples : List (List (FieldE GoTypeE)) :=
  [[we "Inner" [wf "X", wf "Y"], wf "A"],
   [wf "X", we "Inner" [wf "X", wf "Y"] true],
   [we "A" [wf "X", wf "P"], we "B" [wf "X", wf "Q"]],
   [we "A" [wf "X"], we "B" [wf "X"] true, we "C" [wf "X"]],
   [we "A" [we "D" [wf "X", wf "Z"]], we "B" [wf "X"], wf "Z"],
   [we "A" [wf "X"], we "B" [wf "X"], we "C" [we "D" [wf "X"]], wf "X"],
   [we "A" [we "B" [wf "Y"]], we "B" [wf "Z"]]]

example : walkExamples.all (fun fs => (visibleFields fs).map (·.index) == (visibleFieldsWalk fs).map (·.index)) = true := by
  decide

/-- **reflect's walker computes the visible fields**: the algorithm of `reflect.VisibleFields` (`visibleFieldsWalk`:
    per name the entry that currently wins, `byName`; an entry that loses, or that meets another field of its name at
    its own depth, has its name cleared; the cleared entries are dropped at the end) returns exactly the fields that the
    declarative `visibleFields` keeps (the shallowest field of a name, if it is alone at its depth), in the same order —
    on every struct tree: no hypothesis on the names is needed.  (Helper lemmas: JSV/Proofs/InfEmbWalk.lean; what makes
    the walker right although it only ever looks at the *last* entry of a name: the entries of one name are strictly
    decreasing in depth and all but the last are cleared; the indices of the walk are pairwise distinct.)  The type
    language has no recursive embedding (`type T struct { *T }`), so the walker's `visiting` set has no counterpart. -/
theorem visibleFieldsWalk_eq (fields : List (FieldE GoTypeE)) : visibleFieldsWalk fields = visibleFields fields :=
  visibleFieldsWalk_eq_visibleFields fields

/-- e.g. the last one: the anonymous `B` of depth 2 is hidden by the `B` of depth 1, its field `Y` is promoted all the same -/
example : (visibleFields [we "A" [we "B" [wf "Y"]], we "B" [wf "Z"]]).map (fun f => (f.goName, f.index)) =
    [("A", [0]), ("Y", [0, 0, 0]), ("B", [1]), ("Z", [1, 0])] := by decide

end JSV.C16
