/-
  C02 — draft selection: which `$schema` values select draft-07, which are refused, and what changes under draft-07
  (`$ref` siblings ignored, array-form `items` / `additionalItems`, `dependencies`; `minContains`, `maxContains`,
  `unevaluatedItems`, `unevaluatedProperties` unknown — finding D27, repaired; `$dynamicRef` unknown, to Resolve too —
  finding D28, repaired).
  Property theorems only (helper lemmas: JSV/Proofs/InvDraft.lean, JSV/Proofs/InvLater.lean, JSV/Proofs/ResDraft.lean,
  JSV/Proofs/ResLater.lean; "each draft sees only its own vocabulary": JSV/Proofs/InvVocab.lean, JSV/Proofs/ResVocab.lean;
  section "algebraic laws":
  JSV/Proofs/SpecLaws*.lean).
-/
import JSV.Proofs.InvDraft
import JSV.Proofs.InvLater
import JSV.Proofs.InvVocab
import JSV.Proofs.ResDraft
import JSV.Proofs.ResLater
import JSV.Proofs.ResVocab
import JSV.Proofs.DflVal
import JSV.Props.C01
import JSV.Proofs.SpecLawsScope
namespace JSV.C02
open JSV Go GoVal Refine

/-! ## detection -/

/-- draft-07 semantics are selected exactly by the two draft-07 meta-schema URIs -/
theorem detectDraft_spec (env : Go.Env) (hd : env.draft7URIs = Generated.detectDraft7) (str : String) :
    Go.detectDraft env str = .d7 ↔ str ∈ Generated.detectDraft7 := by
  unfold Go.detectDraft
  rw [hd]
  by_cases h : str ∈ Generated.detectDraft7
  · simp [h]
  · simp [h]

/-- everything else (including the empty string and unknown URIs) gets draft 2020-12 semantics -/
theorem detectDraft_2020 (env : Go.Env) (hd : env.draft7URIs = Generated.detectDraft7) (str : String) :
    Go.detectDraft env str = .d2020 ↔ str ∉ Generated.detectDraft7 := by
  rw [← detectDraft_spec env hd str]
  cases Go.detectDraft env str <;> simp

/-- ties the model to the source: the list `detectDraft` compares against, regenerated from the Go code -/
theorem draft7_uris_fact :
    Generated.detectDraft7 = ["http://json-schema.org/draft-07/schema#", "https://json-schema.org/draft-07/schema#"] :=
  rfl

/-- … which are the two draft-07 constants of the package -/
theorem draft7_uris_are_consts :
    Generated.detectDraft7.map some =
      [Json.lookup "draft7SchemaVersion" (Generated.stringConsts.map fun p => (p.1, p.2)),
       Json.lookup "draft7SecSchemaVersion" (Generated.stringConsts.map fun p => (p.1, p.2))] := by
  decide

theorem supported_versions_fact :
    Generated.supportedVersions = ["", "http://json-schema.org/draft-07/schema#",
      "https://json-schema.org/draft-07/schema#", "https://json-schema.org/draft/2020-12/schema"] :=
  rfl

/-- every URI that selects draft-07 is a supported version, and so are the 2020-12 URI and "no $schema" -/
theorem detected_are_supported :
    (Generated.detectDraft7 ++ Generated.detectDraft2020 ++ [""]).all (Generated.supportedVersions.contains ·) = true := by
  decide

/-- the defaults of the model's resolver environment are the regenerated lists -/
theorem env_defaults (st : Store) (reOk : String → Bool) (loader : Option (List (String × LoaderResult))) :
    ({ st := st, reOk := reOk, loader := loader } : Go.Env).draft7URIs = Generated.detectDraft7 ∧
    ({ st := st, reOk := reOk, loader := loader } : Go.Env).supported = Generated.supportedVersions :=
  ⟨rfl, rfl⟩

/-! ## refusal -/

/-- a root whose `$schema` is not a supported version is refused, for every instance, before any evaluation -/
theorem unsupported_refused (env : VEnv) (supported : List String) (fuel : Nat) (root : NodeId) (rn : Node)
    (hroot : env.st.get? root = some rn) (hsup : rn.schema ∉ supported) :
    ∀ inst, Go.validate env supported fuel root inst = .err := by
  intro inst
  exact C01.unsupported_schema env supported fuel root inst rn hroot (by simpa using hsup)

/-- a supported `$schema` is never the reason of a refusal: the result is that of the evaluation -/
theorem supported_not_refused (env : VEnv) (supported : List String) (fuel : Nat) (root : NodeId) (rn : Node)
    (hroot : env.st.get? root = some rn) (hsup : rn.schema ∈ supported) (inst : GoVal) :
    Go.validate env supported fuel root inst = Res.bind (Go.validateFuel env fuel [] inst root) fun _ => .ok () := by
  unfold Go.validate
  rw [hroot]
  have : supported.contains rn.schema = true := by simpa using hsup
  simp only [this, Bool.not_true, Bool.false_eq_true, if_false]

/-- with the package's list: exactly "", the two draft-07 URIs and the 2020-12 URI pass -/
theorem supported_iff (s : String) :
    s ∈ Generated.supportedVersions ↔
      s = "" ∨ s = "http://json-schema.org/draft-07/schema#" ∨ s = "https://json-schema.org/draft-07/schema#" ∨
      s = "https://json-schema.org/draft/2020-12/schema" := by
  simp [Generated.supportedVersions]

/-! ## draft-07: `$ref` siblings are ignored -/

/-- Spec: under draft-07 a schema object with `$ref` is valid iff its target is; nothing else of the object is looked
    at and no annotation comes back -/
theorem ref_siblings_ignored7 (env : Spec.Env) (rec : Spec.Rec) (scope : List NodeId) (s : NodeId) (n : Node) (j : Json)
    (hd : env.draft = .d7) (hn : env.st.get? s = some n) (hr : n.ref ≠ "") :
    Spec.evalStep env rec scope s j = (Spec.kwRef env (rec (scope ++ [s])) s n j).map (·.map fun _ => {}) := by
  unfold Spec.evalStep
  have h1 : (n.ref != "") = true := by simp [hr]
  simp only [hn, hd, h1, beq_self_eq_true, Bool.and_self, if_true]

/-- … which depends on the target only: any two objects with a `$ref` at this place get the same result -/
theorem ref_siblings_ignored7_target (env : Spec.Env) (rec : Spec.Rec) (scope : List NodeId) (s : NodeId) (n : Node)
    (j : Json) (hd : env.draft = .d7) (hn : env.st.get? s = some n) (hr : n.ref ≠ "") :
    Spec.evalStep env rec scope s j =
      Option.map (fun (r : Spec.R) => r.map fun _ => ({} : Spec.Ev))
        (match env.refTarget s with
         | some t => rec (scope ++ [s]) t j
         | none => none) := by
  rw [ref_siblings_ignored7 env rec scope s n j hd hn hr]
  unfold Spec.kwRef Spec.inPlace
  have h1 : (n.ref != "") = true := by simp [hr]
  simp only [h1, if_true]
  cases env.refTarget s <;> rfl

/-- the same for the evaluator: with draft-07, a `$ref` and the resolution record present, one call is exactly the
    call on the target, with empty annotations (hypotheses = the prologue's panic conditions excluded) -/
theorem ref_siblings_ignored7_model (env : VEnv) (hd : env.draft = .d7) (rec : Go.Rec) (stack : List NodeId)
    (inst : GoVal) (s : NodeId) (n : Node) (i : Info) (t : NodeId) (hn : env.st.get? s = some n) (hr : n.ref ≠ "")
    (hi : env.info? s = some i) (ht : i.resolvedRef = some t) :
    Go.validateStep env rec stack inst s = (rec (stack ++ [s]) (GoVal.strip inst) t).bind fun _ => .ok {} :=
  Inv.validateStep_ref7 env hd rec stack inst s n i t hn hr hi ht

/-- hence replacing the object by the bare `{"$ref": …}` changes nothing -/
theorem ref_siblings_ignored7_model_bare (env : VEnv) (hd : env.draft = .d7) (rec : Go.Rec) (stack : List NodeId)
    (inst : GoVal) (s : NodeId) (n : Node) (i : Info) (t : NodeId) (hn : env.st.get? s = some n) (hr : n.ref ≠ "")
    (hi : env.info? s = some i) (ht : i.resolvedRef = some t) (st' : Store)
    (hn' : st'.get? s = some { ref := n.ref }) :
    Go.validateStep { env with st := st' } rec stack inst s = Go.validateStep env rec stack inst s := by
  rw [ref_siblings_ignored7_model env hd rec stack inst s n i t hn hr hi ht,
      ref_siblings_ignored7_model { env with st := st' } hd rec stack inst s { ref := n.ref } i t hn' hr hi ht]

/-! ## draft-07: arrays and dependencies -/

/-- draft-07 arrays: array-form `items` with `additionalItems`, else single-schema `items`; `prefixItems` is not read -/
theorem draft7_array_shape (env : Spec.Env) (n : Node) (hd : env.draft = .d7) :
    Spec.arrayShape env n = (match n.itemsArray with
      | some ia => (ia, n.additionalItems)
      | none => ([], n.items)) ∧
    ∀ p, Spec.arrayShape env { n with prefixItems := p } = Spec.arrayShape env n := by
  unfold Spec.arrayShape
  rw [hd]
  exact ⟨rfl, fun _ => rfl⟩

/-- 2020-12 arrays: `prefixItems` then `items`; array-form `items` and `additionalItems` are not read -/
theorem draft2020_array_shape (env : Spec.Env) (n : Node) (hd : env.draft = .d2020) :
    Spec.arrayShape env n = (n.prefixItems.getD [], n.items) ∧
    ∀ ia ai, Spec.arrayShape env { n with itemsArray := ia, additionalItems := ai } = Spec.arrayShape env n := by
  unfold Spec.arrayShape
  rw [hd]
  exact ⟨rfl, fun _ _ => rfl⟩

/-- draft-07 `dependencies`: the string form feeds the required-check, the schema form the in-place applicator;
    dependentRequired / dependentSchemas are not read -/
theorem draft7_dependencies (env : Spec.Env) (sub : NodeId → Json → Spec.Out) (n : Node) (j : Json) (hd : env.draft = .d7) :
    (∀ dr, Spec.objectLimitsOk env { n with dependentRequired := dr } j = Spec.objectLimitsOk env n j) ∧
    (∀ ds, Spec.kwDependentSchemas env sub { n with dependentSchemas := ds } j = Spec.kwDependentSchemas env sub n j) ∧
    (∀ kvs, j = .obj kvs → Spec.kwDependentSchemas env sub n j =
      (Spec.sequence (((n.dependencySchemas.getD []).filter fun (k, _) => (Json.lookup k kvs).isSome).map
        fun (_, t) => sub t j)).map Spec.conj) := by
  refine ⟨fun dr => ?_, fun ds => ?_, fun kvs hj => ?_⟩
  · unfold Spec.objectLimitsOk; rw [hd]
  · unfold Spec.kwDependentSchemas; rw [hd]
  · subst hj; unfold Spec.kwDependentSchemas; rw [hd]

theorem draft2020_dependencies (env : Spec.Env) (sub : NodeId → Json → Spec.Out) (n : Node) (j : Json)
    (hd : env.draft = .d2020) :
    (∀ dr, Spec.objectLimitsOk env { n with dependencyStrings := dr } j = Spec.objectLimitsOk env n j) ∧
    (∀ ds, Spec.kwDependentSchemas env sub { n with dependencySchemas := ds } j = Spec.kwDependentSchemas env sub n j) := by
  refine ⟨fun dr => ?_, fun ds => ?_⟩
  · unfold Spec.objectLimitsOk; rw [hd]
  · unfold Spec.kwDependentSchemas; rw [hd]

/-- the evaluator under draft-07 never reads prefixItems, dependentRequired, dependentSchemas … -/
theorem draft7_model_ignores (env : VEnv) (hd : env.draft = .d7) : ∀ fuel stack i s,
    Go.validateFuel { env with st := env.st.map Inv.erase2020only } fuel stack i s = Go.validateFuel env fuel stack i s :=
  Inv.validateFuel_d7_ignores env hd

/-- … and under 2020-12 never reads array-form items, additionalItems, dependencies -/
theorem draft2020_model_ignores (env : VEnv) (hd : env.draft = .d2020) : ∀ fuel stack i s,
    Go.validateFuel { env with st := env.st.map Inv.erase7only } fuel stack i s = Go.validateFuel env fuel stack i s :=
  Inv.validateFuel_d2020_ignores env hd

/-! ## draft-07: the keywords of later drafts are unknown keywords (finding D27, repaired)

`minContains`, `maxContains`, `unevaluatedItems`, `unevaluatedProperties` (all introduced by 2019-09) do not exist in
draft-07: a draft-07 validator ignores them as it ignores any unknown keyword.  The evaluator used to apply them
whatever the draft; `(*state).validate` now tests `st.rs.draft` before reading each of the four, and the Spec evaluates
the schema object restricted to the vocabulary of the draft (`Spec.vocab`).  `contains` itself is draft-07: at least
one item matches. -/

/-- the draft-07 vocabulary has none of the four (nor `$dynamicRef`, finding D28 below); the 2020-12 vocabulary is the
    whole schema object -/
theorem vocab_spec (n : Node) :
    (Spec.vocab .d7 n).minContains = none ∧ (Spec.vocab .d7 n).maxContains = none ∧
    (Spec.vocab .d7 n).unevaluatedItems = none ∧ (Spec.vocab .d7 n).unevaluatedProperties = none ∧
    (Spec.vocab .d7 n).dynamicRef = "" ∧
    Spec.vocab .d7 n = Inv.eraseLater n ∧ Spec.vocab .d2020 n = n :=
  ⟨rfl, rfl, rfl, rfl, rfl, rfl, rfl⟩

/-- Spec, draft-07: `contains` asks for at least one matching item and evaluates the matching ones — whatever
    `minContains` / `maxContains` say -/
theorem draft7_contains (sub : NodeId → Json → Spec.Out) (n : Node) (xs : List Json) (c : NodeId)
    (hc : n.contains = some c) :
    Spec.kwContains sub (Spec.vocab .d7 n) (.arr xs) =
      (Spec.sequence (xs.map fun x => sub c x)).map fun rs =>
        if 1 ≤ ((rs.zip (Spec.indices xs.length)).filterMap fun (r, i) => if r.isSome then some i else none).length
        then some { items := (rs.zip (Spec.indices xs.length)).filterMap fun (r, i) => if r.isSome then some i else none }
        else none := by
  unfold Spec.kwContains
  simp only [vocab_contains, hc, vocab_d7_minContains, vocab_d7_maxContains, Bool.and_true, decide_eq_true_eq]
  congr 1
  funext rs
  congr 1
  apply propext
  omega

/-- Spec, draft-07: `unevaluatedItems` / `unevaluatedProperties` assert nothing and evaluate nothing -/
theorem draft7_unevaluated (sub : NodeId → Json → Spec.Out) (n : Node) (j : Json) (ev : Spec.Ev) :
    Spec.kwUnevaluatedItems sub (Spec.vocab .d7 n) j ev = some (some {}) ∧
    Spec.kwUnevaluatedProps sub (Spec.vocab .d7 n) j ev = some (some {}) := by
  unfold Spec.kwUnevaluatedItems Spec.kwUnevaluatedProps
  cases j <;> simp

/-- the evaluator, draft-07: the two `unevaluated*` blocks return at once, `bArrayLimits` checks `minItems` /
    `maxItems` only, `bContains` does not look at `minContains` -/
theorem draft7_model_blocks (rec : Go.Rec) (stack : List NodeId) (n : Node) (xs : List GoVal)
    (kvs : List (String × GoVal)) (anns : Anns) (cnt : Nat) :
    bUnevaluatedItems .d7 rec stack n xs anns = .ok anns ∧
    bUnevaluatedProps .d7 rec stack n kvs anns = .ok anns ∧
    bArrayLimits .d7 n xs cnt = bArrayLimits .d7 { n with minContains := none, maxContains := none } xs cnt ∧
    bContains .d7 rec stack n xs anns = bContains .d7 rec stack { n with minContains := none } xs anns := by
  refine ⟨rfl, rfl, ?_, ?_⟩
  · unfold bArrayLimits; simp
  · unfold bContains; simp

/-- **Draft-07 ignores the keywords of later drafts.**  With the draft-07 `$schema`, erasing `minContains`,
    `maxContains`, `unevaluatedItems`, `unevaluatedProperties` and `$dynamicRef` (`Inv.eraseLater` clears the five; for
    Schema.Resolve see `draft7_ignores_dynamicRef`) from every schema object of the store changes no
    outcome — of the Spec (definedness, verdict, evaluated sets; every fuel, scope, schema, instance) nor of the
    evaluator (verdict, annotations, panic, fuel; every stack, Go value, schema). -/
theorem draft7_ignores_later_keywords (env : VEnv) (hd : env.draft = .d7) :
    (∀ fuel scope s j,
      Spec.evalFuel (specEnvOf { env with st := env.st.map Inv.eraseLater }) fuel scope s j
        = Spec.evalFuel (specEnvOf env) fuel scope s j) ∧
    (∀ fuel stack i s,
      Go.validateFuel { env with st := env.st.map Inv.eraseLater } fuel stack i s
        = Go.validateFuel env fuel stack i s) :=
  ⟨Inv.evalFuel_later7 (specEnvOf env) hd, Inv.validateFuel_later7 env hd⟩

/-- the Spec half for an arbitrary Spec environment -/
theorem draft7_ignores_later_keywords_spec (env : Spec.Env) (hd : env.draft = .d7) : ∀ fuel scope s j,
    Spec.evalFuel { env with st := env.st.map Inv.eraseLater } fuel scope s j = Spec.evalFuel env fuel scope s j :=
  Inv.evalFuel_later7 env hd

/-- … and at the entry point `(*Resolved).Validate` (the `$schema` test reads none of the four) -/
theorem draft7_ignores_later_keywords_entry (env : VEnv) (hd : env.draft = .d7) (supported : List String) (fuel : Nat)
    (root : NodeId) (inst : GoVal) :
    Go.validate { env with st := env.st.map Inv.eraseLater } supported fuel root inst
      = Go.validate env supported fuel root inst := by
  unfold Go.validate
  show (match Store.get? (env.st.map Inv.eraseLater) root with
        | none => Res.panic
        | some rn => if (!supported.contains rn.schema) = true then Res.err
                     else Res.bind (validateFuel { env with st := env.st.map Inv.eraseLater } fuel [] inst root)
                       fun _ => .ok ()) = _
  rw [Inv.get?_map]
  cases Store.get? env.st root with
  | none => rfl
  | some n =>
    show (if (!supported.contains n.schema) = true then Res.err
          else Res.bind (validateFuel { env with st := env.st.map Inv.eraseLater } fuel [] inst root)
            fun _ => .ok ()) = _
    rw [Inv.validateFuel_later7 env hd]

/-! ## draft-07: `$dynamicRef` is an unknown keyword, to Resolve too (finding D28, repaired)

`$dynamicRef` / `$dynamicAnchor` were introduced by 2020-12.  resolveURIs registered `$dynamicAnchor` under 2020-12 only,
but resolveRefs resolved every `$dynamicRef` (loading documents, failing on dangling ones) and `(*state).validate`
applied it whatever the draft: `{"$schema": draft-07, "$dynamicRef": "#/definitions/x", "definitions": {"x": {"type":
"string"}}}` rejected `1`, and `{"$schema": draft-07, "$dynamicRef": "#nosuch"}` did not resolve.  Now resolveRefs tests
`rs.draft` (the draft of the document the schema belongs to), `(*state).validate` tests `st.rs.draft` and that the
reference was resolved (a draft-07 document loaded by a 2020-12 one), validateDefaults refuses it under 2020-12 only; the
Spec blanks it in the draft-07 vocabulary (`Spec.vocab`). -/

/-- the evaluator and validateDefaults, draft-07: the `$dynamicRef` block applies nothing, whatever the tables hold -/
theorem draft7_dynamicRef_block (env : VEnv) (hd : env.draft = .d7) (rec : Go.Rec) (stack : List NodeId) (n : Node)
    (info : Option Info) (inst : GoVal) (anns : Anns) :
    bDynamicRef env rec stack n info inst anns = .ok anns :=
  bDynamicRef_d7 env hd rec stack n info inst anns

/-- the evaluator, 2020-12: a `$dynamicRef` that Resolve left unresolved (its document is a draft-07 document loaded by
    this 2020-12 one) is skipped — it used to trip the assertion "DynamicRef not resolved properly" -/
theorem unresolved_dynamicRef_skipped (env : VEnv) (rec : Go.Rec) (stack : List NodeId) (n : Node) (i : Info)
    (hi : i.resolvedDynamicRef = none) (inst : GoVal) (anns : Anns) :
    bDynamicRef env rec stack n (some i) inst anns = .ok anns := by
  unfold bDynamicRef
  split
  · simp only [hi]
  · rfl

/-- **Draft-07 ignores `$dynamicRef`.**  Erasing `$dynamicRef` from every schema object of the store changes
    * no outcome of Schema.Resolve (`Go.resolve`: the same success / error / panic / fuel, the same tables — none of which
      holds an entry for a `$dynamicRef` — and the same Loader calls), when the top document is read under draft-07 and
      every Loader document declares no `$schema` or a draft-07 one (`LoaderDeclares`: a loaded 2020-12 document keeps its
      `$dynamicRef`s, which Resolve resolves);
    * no outcome of the Spec, nor of the evaluator, under the draft-07 `$schema` (every fuel, scope / stack, schema,
      instance). -/
theorem draft7_ignores_dynamicRef :
    (∀ (renv : Go.Env), RDraft.LoaderDeclares renv .d7 → ∀ fuel root base, Spec.topDraft renv root = .d7 →
      Go.resolve { renv with st := renv.st.map Inv.eraseDynRef } fuel root base = Go.resolve renv fuel root base) ∧
    (∀ (env : VEnv), env.draft = .d7 →
      (∀ fuel scope s j,
        Spec.evalFuel (specEnvOf { env with st := env.st.map Inv.eraseDynRef }) fuel scope s j
          = Spec.evalFuel (specEnvOf env) fuel scope s j) ∧
      (∀ fuel stack i s,
        Go.validateFuel { env with st := env.st.map Inv.eraseDynRef } fuel stack i s
          = Go.validateFuel env fuel stack i s)) :=
  ⟨fun renv hload fuel root base htop => RLater.resolve_erase renv hload fuel root base htop,
   fun env hd => ⟨Inv.evalFuel_dyn7 (specEnvOf env) hd, Inv.validateFuel_dyn7 env hd⟩⟩

/-- a self-contained document (no Loader): the hypothesis on the Loader is void -/
theorem draft7_ignores_dynamicRef_noloader (renv : Go.Env) (hl : renv.loader = none) (fuel : Nat) (root : NodeId)
    (base : String) (htop : Spec.topDraft renv root = .d7) :
    Go.resolve { renv with st := renv.st.map Inv.eraseDynRef } fuel root base = Go.resolve renv fuel root base :=
  draft7_ignores_dynamicRef.1 renv (by intro tbl k r h; rw [hl] at h; cases h) fuel root base htop

/-- … hence under draft-07 Resolve records nothing for `$dynamicRef`: after a successful Resolve of a self-contained
    draft-07 document, whether a `$dynamicRef` designates anything is immaterial (`C03.dangling_ref_is_error` asks for
    `topDraft = .d2020`), and validateDefaults does not refuse it (`C15.validateDefaults_iff`). -/
theorem draft7_validateDefaults_ignores_dynamicRef (env : VEnv) (hd : env.draft = .d7) (fuel : Nat) (ids : List NodeId) :
    Go.validateDefaultsLoop env fuel ids = .ok () ↔
      ∀ id ∈ ids, ∃ n, env.st.get? id = some n ∧
        ∀ d, n.default = some d → (validateFuel env fuel [] (GoVal.ofJson d) id).isOk = true := by
  rw [C15.validateDefaultsLoop_iff]
  constructor
  · intro h id hid
    obtain ⟨n, hn, _, h2⟩ := h id hid
    exact ⟨n, hn, h2⟩
  · intro h id hid
    obtain ⟨n, hn, h2⟩ := h id hid
    exact ⟨n, hn, (fun h20 => by rw [hd] at h20; cases h20), h2⟩

/-- under 2020-12 nothing changed: the Spec reads the whole schema object -/
theorem draft2020_vocab (env : Spec.Env) (hd : env.draft = .d2020) (n : Node) : Spec.vocab env.draft n = n := by
  rw [hd]; rfl

/-! ## each draft sees only its own vocabulary

The two statements above (`draft7_model_ignores` / `draft7_ignores_later_keywords`) put together and completed: to a
validation under draft-07 EVERY keyword that only 2020-12 defines is an unknown keyword, and to a validation under 2020-12
every draft-07-only keyword is.  What the code does, keyword by keyword (`vocabulary_table` below classifies every field
of the Go struct):

* evaluator and Spec, draft-07: `prefixItems`, `dependentRequired`, `dependentSchemas`, `minContains`, `maxContains`,
  `unevaluatedItems`, `unevaluatedProperties`, `$dynamicRef` are not read (`st.rs.draft` is tested before each);
  `$anchor` and `$dynamicAnchor` are read by no evaluation under either draft (the evaluator reads the `anchors` table
  Resolve built, which has entries for them under 2020-12 only: `draft7_resolve_ignores_anchors`);
* evaluator and Spec, 2020-12: `dependencies` (both forms), array-form `items`, `additionalItems` are not read;
* Schema.Resolve is another matter for the keywords that hold SUBSCHEMAS (`prefixItems`, `dependentSchemas`,
  `unevaluatedItems`, `unevaluatedProperties`; `dependencies`, array-form `items`, `additionalItems`): whatever the draft,
  checkStructure walks them (a nil or shared subschema is an error), checkLocal compiles their patterns, resolveURIs gives
  their `$id`s a base URI and registers them, resolveRefs resolves their `$ref`s (loading documents), and they are
  addressable by JSON Pointer.  Erasing them is therefore visible to Resolve (`resolve_sees_ignored_subschemas` below) and
  no such claim is made; the subschemas under an ignored keyword are resolved and never applied.
* `$vocabulary` is not ignored under draft-07: checkLocal refuses it in every schema object whose own `$schema` is not
  the 2020-12 URI (`draft7_vocabulary_keyword_refused`). -/

/-- **Draft-07 sees only the draft-07 vocabulary.**  With the draft-07 `$schema`, erasing from every schema object of
    the store ALL the keywords that only 2020-12 defines and that hold no `$defs`-like container — `prefixItems`,
    `dependentRequired`, `dependentSchemas`, `minContains`, `maxContains`, `unevaluatedItems`, `unevaluatedProperties`,
    `$dynamicRef`, `$anchor`, `$dynamicAnchor` (`Inv.eraseNon7`) — changes no outcome of the Spec (definedness, verdict,
    evaluated sets; every fuel, scope, schema, instance), nor of the evaluator (verdict, annotations, panic, fuel; every
    stack, Go value, schema), nor of the entry point `(*Resolved).Validate`. -/
theorem draft7_vocabulary (env : VEnv) (hd : env.draft = .d7) :
    (∀ fuel scope s j,
      Spec.evalFuel (specEnvOf { env with st := env.st.map Inv.eraseNon7 }) fuel scope s j
        = Spec.evalFuel (specEnvOf env) fuel scope s j) ∧
    (∀ fuel stack i s,
      Go.validateFuel { env with st := env.st.map Inv.eraseNon7 } fuel stack i s
        = Go.validateFuel env fuel stack i s) ∧
    (∀ supported fuel root inst,
      Go.validate { env with st := env.st.map Inv.eraseNon7 } supported fuel root inst
        = Go.validate env supported fuel root inst) :=
  ⟨Inv.evalFuel_non7 (specEnvOf env) hd, Inv.validateFuel_non7 env hd,
   Inv.validate_map_of env Inv.eraseNon7 (fun _ => rfl) (Inv.validateFuel_non7 env hd)⟩

/-- **2020-12 sees only the 2020-12 vocabulary.**  With no `$schema` or the 2020-12 one, erasing from every schema object
    the draft-07-only keywords — `dependencies` in both forms, array-form `items`, `additionalItems`
    (`Inv.eraseNon2020`) — changes no outcome of the Spec, nor of the evaluator, nor of `(*Resolved).Validate`.
    (A fragment-only `$id`, the draft-07 spelling of an anchor, is not ignored under 2020-12: Resolve refuses it.) -/
theorem draft2020_vocabulary (env : VEnv) (hd : env.draft = .d2020) :
    (∀ fuel scope s j,
      Spec.evalFuel (specEnvOf { env with st := env.st.map Inv.eraseNon2020 }) fuel scope s j
        = Spec.evalFuel (specEnvOf env) fuel scope s j) ∧
    (∀ fuel stack i s,
      Go.validateFuel { env with st := env.st.map Inv.eraseNon2020 } fuel stack i s
        = Go.validateFuel env fuel stack i s) ∧
    (∀ supported fuel root inst,
      Go.validate { env with st := env.st.map Inv.eraseNon2020 } supported fuel root inst
        = Go.validate env supported fuel root inst) :=
  ⟨Inv.evalFuel_non2020 (specEnvOf env) hd, Inv.validateFuel_non2020 env hd,
   Inv.validate_map_of env Inv.eraseNon2020 (fun _ => rfl) (Inv.validateFuel_non2020 env hd)⟩

/-- the Spec halves for an arbitrary Spec environment (any `refTarget`, `dynDecl` …, not only those of Resolve) -/
theorem draft7_vocabulary_spec (env : Spec.Env) (hd : env.draft = .d7) : ∀ fuel scope s j,
    Spec.evalFuel { env with st := env.st.map Inv.eraseNon7 } fuel scope s j = Spec.evalFuel env fuel scope s j :=
  Inv.evalFuel_non7 env hd

theorem draft2020_vocabulary_spec (env : Spec.Env) (hd : env.draft = .d2020) : ∀ fuel scope s j,
    Spec.evalFuel { env with st := env.st.map Inv.eraseNon2020 } fuel scope s j = Spec.evalFuel env fuel scope s j :=
  Inv.evalFuel_non2020 env hd

/-- **Draft-07 Resolve ignores `$anchor` and `$dynamicAnchor`.**  resolveURIs registers the two under 2020-12 only
    (draft-07 spells a plain-name anchor `"$id": "#name"`).  Erasing both from every schema object of the store changes no
    outcome of Schema.Resolve (`Go.resolve`: the same success / error / panic / fuel, the same tables — in particular the
    same `anchors` — and the same Loader calls), when the top document is read under draft-07 and every Loader document
    declares no `$schema` or a draft-07 one (`LoaderDeclares`: a loaded 2020-12 document keeps its anchors).  With
    `draft7_ignores_dynamicRef` this covers the three 2020-12-only keywords of `Inv.eraseNon7` that hold no subschema and
    that Resolve could read; the others either hold subschemas, which Resolve walks whatever the draft (see the section
    header), or are read by the evaluation alone (`minContains`, `maxContains`, `dependentRequired`). -/
theorem draft7_resolve_ignores_anchors (renv : Go.Env) (hload : RDraft.LoaderDeclares renv .d7) (fuel : Nat)
    (root : NodeId) (base : String) (htop : Spec.topDraft renv root = .d7) :
    Go.resolve { renv with st := renv.st.map Inv.eraseAnchors } fuel root base = Go.resolve renv fuel root base :=
  RVocab.resolve_erase renv hload fuel root base htop

/-- a self-contained document (no Loader): the hypothesis on the Loader is void -/
theorem draft7_resolve_ignores_anchors_noloader (renv : Go.Env) (hl : renv.loader = none) (fuel : Nat) (root : NodeId)
    (base : String) (htop : Spec.topDraft renv root = .d7) :
    Go.resolve { renv with st := renv.st.map Inv.eraseAnchors } fuel root base = Go.resolve renv fuel root base :=
  draft7_resolve_ignores_anchors renv (by intro tbl k r h; rw [hl] at h; cases h) fuel root base htop

/-! ### the vocabulary table

Every field of the Go `Schema` struct (`Generated.schemaFields`, regenerated from schema.go) is put in exactly one class.
A field ADDED to the struct breaks `vocabulary_table_complete` until it is classified, and if it is classified as a
keyword of one draft only, `vocabulary_only2020` / `vocabulary_only7` break until the erasure (hence
`draft7_vocabulary` / `draft2020_vocabulary`) covers it. -/

inductive Voc where
  /-- a keyword of both drafts, read by the evaluation under both -/
  | both
  /-- a keyword 2020-12 defines and draft-07 does not: unknown, hence ignored, under draft-07 -/
  | only2020
  /-- a draft-07 form that 2020-12 dropped: ignored under 2020-12 -/
  | only7
  /-- annotations, declarations, Go-side bookkeeping: no evaluation reads them under either draft -/
  | annotation
  /-- identifies a schema or contains schemas without applying them (`$id`, `$schema`, `$defs`, `definitions`): read by
      Schema.Resolve under both drafts, addressable by JSON Pointer under both, applied by no evaluation -/
  | structural
  deriving DecidableEq, Repr

/-- the hand-written classification, by Go field name, in the order of the struct declaration -/
def vocabularyOf : List (String × Voc) := [
  ("ID", .structural), ("Schema", .structural), ("Ref", .both), ("Comment", .annotation), ("Defs", .structural),
  ("Definitions", .structural), ("DependencySchemas", .only7), ("DependencyStrings", .only7), ("Anchor", .only2020),
  ("DynamicAnchor", .only2020), ("DynamicRef", .only2020), ("Vocabulary", .annotation),
  ("Title", .annotation), ("Description", .annotation), ("Default", .annotation), ("Deprecated", .annotation), ("ReadOnly", .annotation),
  ("WriteOnly", .annotation), ("Examples", .annotation),
  ("Type", .both), ("Types", .both), ("Enum", .both), ("Const", .both), ("MultipleOf", .both), ("Minimum", .both),
  ("Maximum", .both), ("ExclusiveMinimum", .both), ("ExclusiveMaximum", .both), ("MinLength", .both),
  ("MaxLength", .both), ("Pattern", .both),
  ("PrefixItems", .only2020), ("Items", .both), ("ItemsArray", .only7), ("MinItems", .both), ("MaxItems", .both),
  ("AdditionalItems", .only7), ("UniqueItems", .both), ("Contains", .both), ("MinContains", .only2020),
  ("MaxContains", .only2020), ("UnevaluatedItems", .only2020),
  ("MinProperties", .both), ("MaxProperties", .both), ("Required", .both), ("DependentRequired", .only2020),
  ("Properties", .both), ("PatternProperties", .both), ("AdditionalProperties", .both), ("PropertyNames", .both),
  ("UnevaluatedProperties", .only2020),
  ("AllOf", .both), ("AnyOf", .both), ("OneOf", .both), ("Not", .both), ("If", .both), ("Then", .both), ("Else", .both),
  ("DependentSchemas", .only2020),
  ("ContentEncoding", .annotation), ("ContentMediaType", .annotation), ("ContentSchema", .annotation), ("Format", .annotation), ("Extra", .annotation),
  ("PropertyOrder", .annotation)]

/-- the fields of one class -/
def fieldsOf (c : Voc) : List String := (vocabularyOf.filter (·.2 == c)).map (·.1)

/-- every field of the regenerated struct table is classified, once, and nothing else is -/
theorem vocabulary_table_complete :
    vocabularyOf.map (·.1) = Generated.schemaFields.map (·.1) ∧ (Generated.schemaFields.map (·.1)).Nodup := by
  decide

/-- the 2020-12-only fields are the ten `Inv.eraseNon7` clears, the draft-07-only ones the four of `Inv.eraseNon2020` -/
theorem vocabulary_only2020 : fieldsOf .only2020 = Inv.non7Fields := by decide
theorem vocabulary_only7 : fieldsOf .only7 = Inv.non2020Fields := by decide

/-- `Inv.eraseNon7` resets exactly the fields classified "2020-12 only" (each to its zero value, field by field) … -/
theorem eraseNon7_clears_exactly (n : Node) : Inv.eraseNon7 n = (fieldsOf .only2020).foldr Inv.eraseField n := by
  rw [vocabulary_only2020]; exact Inv.eraseNon7_eq_foldr n

/-- … and `Inv.eraseNon2020` exactly those classified "draft-07 only" -/
theorem eraseNon2020_clears_exactly (n : Node) : Inv.eraseNon2020 n = (fieldsOf .only7).foldr Inv.eraseField n := by
  rw [vocabulary_only7]; exact Inv.eraseNon2020_eq_foldr n

/-- the classification agrees with the regenerated list of fields `(*state).validate` selects: it selects every keyword
    of both drafts and of draft-07 only, every keyword of 2020-12 only but `$anchor` / `$dynamicAnchor` (which Resolve
    alone reads), and no `annotation` nor `structural` field -/
theorem vocabulary_vs_validateReads :
    (Generated.validateReads.all ((fieldsOf .both ++ fieldsOf .only2020 ++ fieldsOf .only7).contains ·)) = true ∧
    ((fieldsOf .both ++ fieldsOf .only7).all (Generated.validateReads.contains ·)) = true ∧
    (fieldsOf .only2020).filter (!Generated.validateReads.contains ·) = ["Anchor", "DynamicAnchor"] ∧
    ((fieldsOf .annotation ++ fieldsOf .structural).all (!Generated.validateReads.contains ·)) = true := by
  decide

/-- the class the draft `d` does not see -/
def Voc.otherOnly : Draft → Voc
  | .d7 => .only2020
  | .d2020 => .only7

/-- **Each draft sees only its own vocabulary**, in one statement over the table: under either draft, resetting in every
    schema object every field the table classifies as a keyword of the OTHER draft only changes no outcome of the Spec
    nor of the evaluator. -/
theorem vocabulary_ignored (env : VEnv) :
    (∀ fuel scope s j,
      Spec.evalFuel (specEnvOf { env with st := env.st.map fun n => (fieldsOf (Voc.otherOnly env.draft)).foldr Inv.eraseField n })
        fuel scope s j = Spec.evalFuel (specEnvOf env) fuel scope s j) ∧
    (∀ fuel stack i s,
      Go.validateFuel { env with st := env.st.map fun n => (fieldsOf (Voc.otherOnly env.draft)).foldr Inv.eraseField n }
        fuel stack i s = Go.validateFuel env fuel stack i s) := by
  obtain ⟨d, hd⟩ : ∃ d, env.draft = d := ⟨_, rfl⟩
  rw [show Voc.otherOnly env.draft = Voc.otherOnly d from by rw [hd]]
  cases d with
  | d7 =>
    have e : (fun n => (fieldsOf (Voc.otherOnly .d7)).foldr Inv.eraseField n) = Inv.eraseNon7 :=
      funext fun n => (eraseNon7_clears_exactly n).symm
    rw [e]
    exact ⟨(draft7_vocabulary env hd).1, (draft7_vocabulary env hd).2.1⟩
  | d2020 =>
    have e : (fun n => (fieldsOf (Voc.otherOnly .d2020)).foldr Inv.eraseField n) = Inv.eraseNon2020 :=
      funext fun n => (eraseNon2020_clears_exactly n).symm
    rw [e]
    exact ⟨(draft2020_vocabulary env hd).1, (draft2020_vocabulary env hd).2.1⟩

/-! ## documents loaded through `$ref` -/

/-- the draft a document with root object `rn` is read under, `inherit` being the draft of the referring document:
    what its `$schema` selects, and `inherit` when it declares none (resolver.resolve) -/
theorem docDraft_spec (env : Go.Env) (rn : Node) (inherit : Draft) :
    (rn.schema = "" → RDraft.docDraft env rn inherit = inherit) ∧
    (rn.schema ≠ "" → RDraft.docDraft env rn inherit = Go.detectDraft env rn.schema) :=
  ⟨RDraft.docDraft_none env rn inherit, RDraft.docDraft_some env rn inherit⟩

/-- resolver.resolve, run on the top document `root` with inherited draft `inh` (Schema.Resolve: 2020-12): in the
    final state the Resolved of `root` has the draft `docDraft … inh`, and the Resolved of every other (Loader)
    document `r` has the draft `docDraft … dp.draft` of a Resolved `dp` of another document that referred to it (its
    map of infos contains `r`: resolveRef merges the maps of the documents it loads).
    Assumption: the Loader returns a fresh document for every URI (`LoaderFresh`); without it a document may be
    resolved twice, the second time replacing the first Resolved. -/
theorem resolveDoc_doc_draft (env : Go.Env) (fuel : Nat) (root : NodeId) (b : Uri.Url) (inh : Draft) (s : RState)
    (hfresh : RInv.LoaderFresh env root) (h : Go.resolveDoc env fuel root b inh {} = .ok s) :
    ∀ r d, s.doc? r = some d → ∃ rn, env.st.get? r = some rn ∧
      (r = root → d.draft = RDraft.docDraft env rn inh) ∧
      (r ≠ root → ∃ p dp, s.doc? p = some dp ∧ p ≠ r ∧ r ∈ dp.known ∧ d.draft = RDraft.docDraft env rn dp.draft) := by
  obtain ⟨_, _, ⟨rn, d0, hrn, hd0, hdr0, _⟩, hothers⟩ :=
    RDraft.resolveDoc_dr env root (RDraft.LoaderFresh.inj hfresh) fuel root b inh {} s h
      (RInv.logOk_init.weaken _) (by intro r hr; simp [RState.doc?] at hr) (Or.inl rfl) (by simp [RState.doc?])
  intro r d hd
  by_cases e : r = root
  · subst e
    rw [hd0] at hd
    simp only [Option.some.injEq] at hd
    subst hd
    exact ⟨rn, hrn, fun _ => hdr0, fun hne => absurd rfl hne⟩
  · obtain ⟨p, _, rn', dp, h1, h2, h3, h4, h5⟩ := hothers r d e (by simp [RState.doc?]) hd
    exact ⟨rn', h1, fun h => absurd h e, fun _ => ⟨p, dp, h2, h3, h4, h5⟩⟩

/-- C02 for one document: after a successful Resolve, a Loader document whose root declares no `$schema` has the
    draft of a document that referred to it -/
theorem loaded_doc_draft (env : Go.Env) (fuel : Nat) (root : NodeId) (base : String) (rs : Resolved)
    (hfresh : RInv.LoaderFresh env root) (h : Go.resolve env fuel root base = .ok rs) :
    ∃ s b, Go.resolveDoc env fuel root b .d2020 {} = .ok s ∧ rs.log = s.log ∧
      (∃ d, s.doc? root = some d ∧ rs.draft = d.draft) ∧
      ∀ r d rn, s.doc? r = some d → r ≠ root → env.st.get? r = some rn → rn.schema = "" →
        ∃ p dp, s.doc? p = some dp ∧ p ≠ r ∧ r ∈ dp.known ∧ d.draft = dp.draft := by
  obtain ⟨s, b, d0, _, hs, hd0, _, hdr, hlog, _⟩ := RInv.resolve_ok' env fuel root base rs h
  refine ⟨s, b, hs, hlog, ⟨d0, hd0, hdr⟩, ?_⟩
  intro r d rn hd hne hrn hschema
  obtain ⟨rn', hrn', _, hp⟩ := resolveDoc_doc_draft env fuel root b .d2020 s hfresh hs r d hd
  rw [hrn] at hrn'
  simp only [Option.some.injEq] at hrn'
  subst hrn'
  obtain ⟨p, dp, h1, h2, h3, h4⟩ := hp hne
  exact ⟨p, dp, h1, h2, h3, by rw [h4, RDraft.docDraft_none env rn dp.draft hschema]⟩

/-- no assumption on the Loader: if the top document is read under `D` and every Loader document declares no
    `$schema` or one that selects `D`, every Resolved of the final state has draft `D` -/
theorem loaded_chain_draft (env : Go.Env) (D : Draft) (fuel : Nat) (root : NodeId) (b : Uri.Url) (inh : Draft)
    (s : RState) (h : Go.resolveDoc env fuel root b inh {} = .ok s)
    (hroot : ∀ rn, env.st.get? root = some rn → RDraft.docDraft env rn inh = D)
    (hload : ∀ tbl k r rn, env.loader = some tbl → Json.lookup k tbl = some (.doc r) → env.st.get? r = some rn →
      rn.schema = "" ∨ Go.detectDraft env rn.schema = D) :
    ∀ d ∈ s.docs, d.draft = D := by
  refine RDraft.resolveDoc_all env D ?_ fuel root b inh {} s h hroot (RDraft.allDraft_init D)
  intro tbl k r htbl hk rn hrn
  unfold RDraft.docDraft
  rcases hload tbl k r rn htbl hk hrn with e | e
  · rw [e]; rfl
  · rw [e]; split <;> rfl

/-- C02: a draft-07 root, Loader documents without `$schema`: everything is read under draft-07 -/
theorem loaded_chain_draft7 (env : Go.Env) (hd : env.draft7URIs = Generated.detectDraft7) (fuel : Nat)
    (root : NodeId) (base : String) (rs : Resolved) (rn : Node) (h : Go.resolve env fuel root base = .ok rs)
    (hrn : env.st.get? root = some rn) (h7 : rn.schema ∈ Generated.detectDraft7)
    (hload : ∀ tbl k r n, env.loader = some tbl → Json.lookup k tbl = some (.doc r) → env.st.get? r = some n →
      n.schema = "") :
    rs.draft = .d7 ∧ ∃ s b, Go.resolveDoc env fuel root b .d2020 {} = .ok s ∧ rs.log = s.log ∧
      ∀ d ∈ s.docs, d.draft = .d7 := by
  obtain ⟨s, b, d0, _, hs, hd0, _, hdr, hlog, _⟩ := RInv.resolve_ok' env fuel root base rs h
  have hall : ∀ d ∈ s.docs, d.draft = .d7 := by
    refine loaded_chain_draft env .d7 fuel root b .d2020 s hs ?_
      (fun tbl k r n htbl hk hn => Or.inl (hload tbl k r n htbl hk hn))
    intro rn' hrn'
    rw [hrn] at hrn'
    simp only [Option.some.injEq] at hrn'
    subst hrn'
    have hne : rn.schema ≠ "" := by
      intro e; rw [e] at h7; revert h7; decide
    rw [RDraft.docDraft_some env rn _ hne]
    exact (detectDraft_spec env hd rn.schema).2 h7
  exact ⟨by rw [hdr]; exact hall d0 (RDraft.doc?_mem s root d0 hd0), s, b, hs, hlog, hall⟩

/-- … and symmetrically: a root that does not select draft-07 (no `$schema`, or the 2020-12 URI), Loader documents
    without `$schema`: everything is read under 2020-12 -/
theorem loaded_chain_draft2020 (env : Go.Env) (hd : env.draft7URIs = Generated.detectDraft7) (fuel : Nat)
    (root : NodeId) (base : String) (rs : Resolved) (rn : Node) (h : Go.resolve env fuel root base = .ok rs)
    (hrn : env.st.get? root = some rn) (h20 : rn.schema ∉ Generated.detectDraft7)
    (hload : ∀ tbl k r n, env.loader = some tbl → Json.lookup k tbl = some (.doc r) → env.st.get? r = some n →
      n.schema = "") :
    rs.draft = .d2020 ∧ ∃ s b, Go.resolveDoc env fuel root b .d2020 {} = .ok s ∧ rs.log = s.log ∧
      ∀ d ∈ s.docs, d.draft = .d2020 := by
  obtain ⟨s, b, d0, _, hs, hd0, _, hdr, hlog, _⟩ := RInv.resolve_ok' env fuel root base rs h
  have hall : ∀ d ∈ s.docs, d.draft = .d2020 := by
    refine loaded_chain_draft env .d2020 fuel root b .d2020 s hs ?_
      (fun tbl k r n htbl hk hn => Or.inl (hload tbl k r n htbl hk hn))
    intro rn' hrn'
    rw [hrn] at hrn'
    simp only [Option.some.injEq] at hrn'
    subst hrn'
    unfold RDraft.docDraft
    split
    · rfl
    · exact (detectDraft_2020 env hd rn.schema).2 h20
  exact ⟨by rw [hdr]; exact hall d0 (RDraft.doc?_mem s root d0 hd0), s, b, hs, hlog, hall⟩


/-! ## algebraic laws

The laws of `C01` (`true_accepts` … `adjacent_keywords_verdict`) are stated for an arbitrary environment, draft-07 included
(the side condition of the conjunction law is "no `$ref`" there).  What is specific to draft-07: a schema object WITH `$ref`
is its target, whatever else it contains, and reports nothing as evaluated. -/

/-- draft-07: a schema object with `$ref` has exactly the verdict of the schema the reference designates, whatever its
    other keywords are, and evaluates nothing (`ref_siblings_ignored7` at the level of `Spec.evalFuel`) -/
theorem ref_is_target7 (env : Spec.Env) (hd : env.draft = .d7) (fuel : Nat) (scope : List NodeId) (s : NodeId) (n : Node)
    (j : Json) (t : NodeId) (hn : env.st.get? s = some n) (hr : n.ref ≠ "") (ht : env.refTarget s = some t) :
    Spec.evalFuel env (fuel + 1) scope s j
      = (Spec.evalFuel env fuel (scope ++ [s]) t j).map fun r => r.map fun _ => {} := by
  show Spec.evalStep env (Spec.evalFuel env fuel) scope s j = _
  rw [ref_siblings_ignored7_target env _ scope s n j hd hn hr, ht]

/-- … in particular the verdict is the target's -/
theorem ref_is_target7_verdict (env : Spec.Env) (hd : env.draft = .d7) (fuel : Nat) (scope : List NodeId) (s : NodeId)
    (n : Node) (j : Json) (t : NodeId) (hn : env.st.get? s = some n) (hr : n.ref ≠ "") (ht : env.refTarget s = some t) :
    (Spec.evalFuel env (fuel + 1) scope s j).map (·.isSome)
      = (Spec.evalFuel env fuel (scope ++ [s]) t j).map (·.isSome) := by
  rw [ref_is_target7 env hd fuel scope s n j t hn hr ht]
  cases Spec.evalFuel env fuel (scope ++ [s]) t j with
  | none => rfl
  | some r => cases r <;> rfl

/-- … and two schema objects (of one schema resource) with `$ref` to the same target are interchangeable, whatever their
    other keywords -/
theorem ref_siblings_irrelevant7 (env : Spec.Env) (hd : env.draft = .d7) (fuel : Nat) (scope : List NodeId)
    (s s' : NodeId) (n n' : Node) (j : Json) (t : NodeId) (hn : env.st.get? s = some n) (hn' : env.st.get? s' = some n')
    (hr : n.ref ≠ "") (hr' : n'.ref ≠ "") (ht : env.refTarget s = some t) (ht' : env.refTarget s' = some t)
    (hres : env.resource s = env.resource s') :
    Spec.evalFuel env (fuel + 1) scope s j = Spec.evalFuel env (fuel + 1) scope s' j := by
  rw [ref_is_target7 env hd fuel scope s n j t hn hr ht, ref_is_target7 env hd fuel scope s' n' j t hn' hr' ht']
  congr 1
  apply Laws.evalFuel_scope
  exact (Laws.ScopeEqv_same_resource env (env.resource s') scope [s] [s'] (by simp) (by simp)
    (by intro x hx; simp at hx; subst hx; exact hres) (by intro x hx; simp at hx; subst hx; rfl)).append [t]

/-- evaluator (draft-07): a schema object with `$ref` returns nil exactly when its target does, whatever its other
    keywords are, and annotations that mark nothing as evaluated -/
theorem ref_is_target7_go (env : VEnv) (hwf : EnvWF env) (hst : StoreWF env.st) (hd : env.draft = .d7) (fuel : Nat)
    (stack : List NodeId) (hstack : ∀ x, x ∈ stack → (env.info? x).isSome = true) (s : NodeId) (n : Node) (j : Json)
    (hj : Json.WF j = true) (t : NodeId) (hn : env.st.get? s = some n) (hr : n.ref ≠ "") (i : Info)
    (hi : env.info? s = some i) (ht : i.resolvedRef = some t)
    (hdef : (Spec.evalFuel (specEnvOf env) fuel (stack ++ [s]) t j).isSome = true) :
    (Go.validateFuel env (fuel + 1) stack (GoVal.ofJson j) s).verdict
      = (Go.validateFuel env fuel (stack ++ [s]) (GoVal.ofJson j) t).verdict ∧
    ∀ a, Go.validateFuel env (fuel + 1) stack (GoVal.ofJson j) s = .ok a →
      (∀ k, k ∈ keysOf j → γprop a k = false) ∧ (∀ i, i < lenOf j → γitem a i = false) := by
  have hs' := Laws.stack_snoc env hwf stack hstack s n hn
  have ht' : (specEnvOf env).refTarget s = some t := by
    show (env.info? s).bind (·.resolvedRef) = some t
    rw [hi]; exact ht
  obtain ⟨r, hr0⟩ := Option.isSome_iff_exists.1 hdef
  have hl := ref_is_target7 (specEnvOf env) hd fuel stack s n j t hn hr ht'
  rw [hr0] at hl
  refine ⟨?_, ?_⟩
  · rw [Laws.go_verdict env hwf hst _ _ hstack s j hj _ hl, Laws.go_verdict env hwf hst _ _ hs' t j hj r hr0]
    cases r <;> rfl
  · intro a ha
    cases r with
    | none =>
      have := Laws.go_verdict env hwf hst _ _ hstack s j hj _ hl
      rw [ha] at this; cases this
    | some e =>
      obtain ⟨a', ha', hm⟩ := Laws.go_anns env hwf hst _ _ hstack s j hj {} hl
      rw [ha] at ha'; cases ha'
      exact (Laws.AnnsMatch_empty_iff j a).1 hm

/-! ## The statements are not vacuous -/

def exREnv : Go.Env := { st := #[], reOk := fun _ => true, loader := none }

example : Go.detectDraft exREnv "http://json-schema.org/draft-07/schema#" = .d7 :=
  (detectDraft_spec exREnv rfl _).2 (by decide)
example : Go.detectDraft exREnv "https://json-schema.org/draft-07/schema#" = .d7 := by decide
/-- without the trailing `#`, or any other URI: 2020-12 semantics (and, not being supported, refused at Validate) -/
example : Go.detectDraft exREnv "http://json-schema.org/draft-07/schema" = .d2020 :=
  (detectDraft_2020 exREnv rfl _).2 (by decide)
example : Go.detectDraft exREnv "" = .d2020 := by decide
example : "http://json-schema.org/draft-07/schema" ∉ Generated.supportedVersions := by decide
example : "http://json-schema.org/draft-04/schema#" ∉ Generated.supportedVersions := by decide

/-- `{"$ref":"#/definitions/s","maxLength":1,"definitions":{"s":{"type":"string"}}}`: under draft-07 `maxLength` is
    ignored, under 2020-12 it is applied -/
def exStore : Store := #[
  { ref := "#/definitions/s", maxLength := some 1, definitions := some [("s", 1)] },
  { type := "string" } ]
def exInfos : List (NodeId × Info) :=
  [(0, { path := "root", base := some 0, resolvedRef := some 1 }), (1, { base := some 0 })]
def exEnv7 : VEnv :=
  { st := exStore, draft := .d7, infos := exInfos, reMatch := fun _ _ => false, hash := fun _ => 0 }
def exEnv20 : VEnv := { exEnv7 with draft := .d2020 }

example : Spec.valid (specEnvOf exEnv7) 3 0 (.str "long") = some true := by decide
example : Spec.valid (specEnvOf exEnv20) 3 0 (.str "long") = some false := by decide
example : Go.validate exEnv7 Generated.supportedVersions 3 0 (GoVal.ofJson (.str "long")) = .ok () := by decide
example : Go.validate exEnv20 Generated.supportedVersions 3 0 (GoVal.ofJson (.str "long")) = .err := by decide
/-- `ref_siblings_ignored7_model` applied -/
example (rec : Go.Rec) (inst : GoVal) :
    Go.validateStep exEnv7 rec [] inst 0 = (rec [0] (GoVal.strip inst) 1).bind fun _ => .ok {} :=
  ref_siblings_ignored7_model exEnv7 rfl rec [] inst 0 _ _ 1 rfl (by decide) rfl rfl

/-- `ref_is_target7`: node 0 of `exStore` (`$ref` + `maxLength: 1`) is its target `{"type": "string"}` under draft-07 -/
example : Spec.evalFuel (specEnvOf exEnv7) 2 [] 0 (.str "long")
    = (Spec.evalFuel (specEnvOf exEnv7) 1 [0] 1 (.str "long")).map fun r => r.map fun _ => {} :=
  ref_is_target7 (specEnvOf exEnv7) rfl 1 [] 0 _ (.str "long") 1 rfl (by decide) rfl
example : (Go.validateFuel exEnv7 2 [] (GoVal.ofJson (.str "long")) 0).verdict
    = (Go.validateFuel exEnv7 1 [0] (GoVal.ofJson (.str "long")) 1).verdict :=
  (ref_is_target7_go exEnv7 (EnvWF_of_checks exEnv7 (by decide) (by decide) (fun _ _ _ => rfl))
    (StoreWF_of_check _ (by decide)) rfl 1 [] (fun _ h => nomatch h) 0 _ (.str "long") (by decide) 1 rfl (by decide) _ rfl
    rfl (by decide)).1
/-- under 2020-12 the same object is the conjunction of its `$ref` and its `maxLength` (`C01.adjacent_keywords_step`), and
    rejects `"long"`: the draft-07 law does not carry over -/
example : (Spec.evalFuel (specEnvOf exEnv20) 2 [] 0 (.str "long")).map (·.isSome) = some false
    ∧ (Spec.evalFuel (specEnvOf exEnv20) 1 [0] 1 (.str "long")).map (·.isSome) = some true := by decide

/-- refusal -/
def exEnvBad : VEnv := { exEnv7 with st := #[{ schema := "http://json-schema.org/draft-04/schema#" }] }
example (inst : GoVal) : Go.validate exEnvBad Generated.supportedVersions 5 0 inst = .err :=
  unsupported_refused exEnvBad _ 5 0 _ rfl (by decide) inst

/-- `{"items":[{"type":"string"}],"additionalItems":false,"prefixItems":[{"type":"number"}],"dependencies":{"a":["b"]}}`:
    draft-07 reads the array form and `dependencies` -/
def exStore2 : Store := #[
  { itemsArray := some [1], additionalItems := some 2, prefixItems := some [4],
    dependencyStrings := some [("a", some ["b"])] },
  { type := "string" }, { not := some 3 }, {}, { type := "number" } ]
def exInfos2 : List (NodeId × Info) :=
  [(0, { path := "root", base := some 0 }), (1, { base := some 0 }), (2, { base := some 0 }), (3, { base := some 0 }),
   (4, { base := some 0 })]
def exEnv2 : VEnv :=
  { st := exStore2, draft := .d7, infos := exInfos2, reMatch := fun _ _ => false, hash := fun _ => 0 }

/-- the laws of `C01` hold under draft-07 as well: `{}` (node 3 of `exStore2`) and `{"not": {}}` (node 2) -/
example : Spec.evalFuel (specEnvOf exEnv2) 1 [] 3 (.num 7) = some (some {}) :=
  C01.true_accepts (specEnvOf exEnv2) 0 [] 3 _ (.num 7) rfl rfl
example : Spec.evalFuel (specEnvOf exEnv2) 2 [] 2 (.num 7) = some none :=
  C01.false_rejects (specEnvOf exEnv2) 0 [] 2 _ (.num 7) 3 _ rfl rfl rfl rfl
example : Spec.valid (specEnvOf exEnv2) 4 0 (.arr [.str "x"]) = some true := by decide
example : Spec.valid (specEnvOf exEnv2) 4 0 (.arr [.str "x", .null]) = some false := by decide
example : Spec.valid (specEnvOf exEnv2) 4 0 (.arr [.num 1]) = some false := by decide
example : Spec.valid (specEnvOf exEnv2) 4 0 (.obj [("a", .null)]) = some false := by decide
example : Spec.valid (specEnvOf exEnv2) 4 0 (.obj [("a", .null), ("b", .null)]) = some true := by decide
/-- the same store read as 2020-12: `prefixItems` decides, the draft-07 forms are not read -/
example : Spec.valid (specEnvOf { exEnv2 with draft := .d2020 }) 4 0 (.arr [.num 1, .null]) = some true := by decide
example : Spec.valid (specEnvOf { exEnv2 with draft := .d2020 }) 4 0 (.obj [("a", .null)]) = some true := by decide
example : Go.validate exEnv2 [""] 4 0 (GoVal.ofJson (.arr [.str "x", .null])) = .err := by decide
example : Go.validate { exEnv2 with draft := .d2020 } [""] 4 0 (GoVal.ofJson (.arr [.num 1, .null])) = .ok () := by decide

/-- a chain root (draft-07) → `a.json` (no `$schema`) → `b.json` (no `$schema`, `{"$id":"#foo"}`: a fragment-only
    `$id`, an anchor under draft-07 and an error under 2020-12) -/
def chainStore (rootSchema : String) : Store := #[
  { schema := rootSchema, ref := "a.json" },
  { ref := "b.json" },
  { id := "#foo" } ]
def chainEnv (rootSchema : String) : Go.Env :=
  { st := chainStore rootSchema, reOk := fun _ => true,
    loader := some [("http://x/a.json", .doc 1), ("http://x/b.json", .doc 2)] }

/-- draft-07 root: `b.json` is read under draft-07, two hops away from the `$schema` -/
example : ((Go.resolve (chainEnv "http://json-schema.org/draft-07/schema#") 5 0 "http://x/root.json").bind fun rs =>
      .ok (rs.draft, rs.log)) = .ok (.d7, ["http://x/a.json", "http://x/b.json"]) := by
  decide +kernel
example : ((Go.resolveDoc (chainEnv "http://json-schema.org/draft-07/schema#") 5 0
      { scheme := "http", host := "x", path := "/root.json" } .d2020 {}).bind fun s =>
      .ok (s.docs.map fun d => (d.root, d.draft))) = .ok [(0, .d7), (1, .d7), (2, .d7)] := by
  decide +kernel
/-- the same chain under a 2020-12 root: `b.json` is read under 2020-12 and refused -/
example : ((Go.resolve (chainEnv "https://json-schema.org/draft/2020-12/schema") 5 0 "http://x/root.json").bind fun rs =>
      .ok rs.log) = .err := by
  decide +kernel
example : ((Go.resolve (chainEnv "") 5 0 "http://x/root.json").bind fun rs => .ok rs.log) = .err := by
  decide +kernel
/-- `loaded_chain_draft7` applied -/
example (rs : Resolved) (h : Go.resolve (chainEnv "http://json-schema.org/draft-07/schema#") 5 0 "http://x/root.json" = .ok rs) :
    rs.draft = .d7 :=
  (loaded_chain_draft7 _ rfl 5 0 _ rs _ h rfl (by decide) (by
    intro tbl k r n htbl hk hn
    have htbl' : tbl = [("http://x/a.json", .doc 1), ("http://x/b.json", .doc 2)] := by
      simp only [chainEnv, Option.some.injEq] at htbl; exact htbl.symm
    subst htbl'
    simp only [Json.lookup_cons, Json.lookup_nil] at hk
    split at hk
    · simp only [Option.some.injEq, LoaderResult.doc.injEq] at hk; subst hk
      have e : n = { ref := "b.json" } := Option.some.inj (hn.symm.trans rfl)
      subst e; rfl
    · split at hk
      · simp only [Option.some.injEq, LoaderResult.doc.injEq] at hk; subst hk
        have e : n = { id := "#foo" } := Option.some.inj (hn.symm.trans rfl)
        subst e; rfl
      · cases hk)).1

/-! ### finding D27: the witness documents -/

/-- `{"$schema":"http://json-schema.org/draft-07/schema#","contains":{"type":"number"},"minContains":2}` -/
def laterStore7 : Store := #[
  { schema := "http://json-schema.org/draft-07/schema#", contains := some 1, minContains := some 2 },
  { type := "number" } ]
/-- the same document declaring 2020-12 -/
def laterStore20 : Store := #[
  { schema := "https://json-schema.org/draft/2020-12/schema", contains := some 1, minContains := some 2 },
  { type := "number" } ]
def laterInfos : List (NodeId × Info) :=
  [(0, { path := "root", base := some 0 }), (1, { path := "/contains", base := some 0 })]
def laterEnv7 : VEnv :=
  { st := laterStore7, draft := .d7, infos := laterInfos, reMatch := fun _ _ => false, hash := fun _ => 0 }
def laterEnv20 : VEnv := { laterEnv7 with st := laterStore20, draft := .d2020 }

/-- draft-07: `[1]` is valid (`minContains` is not a keyword; one item matches `contains`) … -/
example : Spec.valid (specEnvOf laterEnv7) 3 0 (.arr [.num 1]) = some true := by decide
example : Go.validate laterEnv7 Generated.supportedVersions 3 0 (GoVal.ofJson (.arr [.num 1])) = .ok () := by decide
/-- … `["s"]` is not (`contains` is draft-07), and `maxContains` imposes nothing -/
example : Spec.valid (specEnvOf laterEnv7) 3 0 (.arr [.str "s"]) = some false := by decide
example : Go.validate laterEnv7 Generated.supportedVersions 3 0 (GoVal.ofJson (.arr [.str "s"])) = .err := by decide
example : Spec.valid (specEnvOf { laterEnv7 with st := #[{ contains := some 1, maxContains := some 1 }, { type := "number" }] })
    3 0 (.arr [.num 1, .num 2]) = some true := by decide
/-- `minContains: 0` does not make an array without a match valid under draft-07 -/
example : (Go.validateFuel { laterEnv7 with st := #[{ contains := some 1, minContains := some 0 }, { type := "number" }] }
    3 [] (GoVal.ofJson (.arr [])) 0).verdict = some false := by decide
/-- 2020-12: `[1]` is invalid (two matches are required), `[1, 2]` is valid -/
example : Spec.valid (specEnvOf laterEnv20) 3 0 (.arr [.num 1]) = some false := by decide
example : Go.validate laterEnv20 Generated.supportedVersions 3 0 (GoVal.ofJson (.arr [.num 1])) = .err := by decide
example : Go.validate laterEnv20 Generated.supportedVersions 3 0 (GoVal.ofJson (.arr [.num 1, .num 2])) = .ok () := by
  decide
/-- `{"$schema": draft-07, "unevaluatedProperties": false}` accepts `{"a": 1}`; under 2020-12 it does not -/
def unevalStore : Store := #[{ unevaluatedProperties := some 1 }, { not := some 2 }, {}]
def unevalInfos : List (NodeId × Info) := [(0, { base := some 0 }), (1, { base := some 0 }), (2, { base := some 0 })]
def unevalEnv7 : VEnv :=
  { st := unevalStore, draft := .d7, infos := unevalInfos, reMatch := fun _ _ => false, hash := fun _ => 0 }
example : (Spec.evalFuel (specEnvOf unevalEnv7) 4 [] 0 (.obj [("a", .num 1)])).map (·.isSome) = some true := by decide
example : (Go.validateFuel unevalEnv7 4 [] (GoVal.ofJson (.obj [("a", .num 1)])) 0).verdict = some true := by decide
example : (Spec.evalFuel (specEnvOf { unevalEnv7 with draft := .d2020 }) 4 [] 0 (.obj [("a", .num 1)])).map (·.isSome)
    = some false := by decide
example : (Go.validateFuel { unevalEnv7 with draft := .d2020 } 4 [] (GoVal.ofJson (.obj [("a", .num 1)])) 0).verdict
    = some false := by decide
/-- `draft7_ignores_later_keywords` applied: the document with the keyword erased -/
example : laterStore7.map Inv.eraseLater =
    #[{ schema := "http://json-schema.org/draft-07/schema#", contains := some 1 }, { type := "number" }] := by
  simp [laterStore7, Inv.eraseLater]
example (fuel : Nat) (i : GoVal) :
    Go.validateFuel { laterEnv7 with st := laterStore7.map Inv.eraseLater } fuel [] i 0
      = Go.validateFuel laterEnv7 fuel [] i 0 :=
  (draft7_ignores_later_keywords laterEnv7 rfl).2 fuel [] i 0
/-- the hypothesis `env.draft = .d7` cannot be dropped: under 2020-12 the erasure flips the verdict on `[1]` -/
example : (Go.validateFuel { laterEnv20 with st := #[{ contains := some 1 }, { type := "number" }] } 3 []
    (GoVal.ofJson (.arr [.num 1])) 0).verdict = some true := by decide

/-! ### finding D28: the witness documents -/

/-- `{"$schema": S, "$dynamicRef": "#/definitions/x", "definitions": {"x": {"type": "string"}}}` -/
def dynStore (schemaURI : String) : Store := #[
  { schema := schemaURI, dynamicRef := "#/definitions/x", definitions := some [("x", 1)] },
  { type := "string" } ]
/-- `{"$schema": S, "$dynamicRef": "#nosuch"}` -/
def dangStore (schemaURI : String) : Store := #[{ schema := schemaURI, dynamicRef := "#nosuch" }]
def d7URI : String := "http://json-schema.org/draft-07/schema#"
def d20URI : String := "https://json-schema.org/draft/2020-12/schema"
def renvOf (st : Store) : Go.Env := { st := st, reOk := fun _ => true, loader := none }
/-- Schema.Resolve, then Validate on the tables it returns -/
def resolveThenValidate (st : Store) (j : Json) : Res Unit :=
  Res.bind (Go.resolve (renvOf st) 3 0 "") fun rs =>
    Go.validate { st := st, draft := rs.draft, infos := rs.infos, reMatch := fun _ _ => false, hash := fun _ => 0 }
      Generated.supportedVersions 3 0 (GoVal.ofJson j)

/-- draft-07: the `$dynamicRef` is not resolved (no target is recorded) and `1` is valid … -/
example : ((Go.resolve (renvOf (dynStore d7URI)) 3 0 "").bind fun rs =>
    .ok (rs.draft, rs.infos.map fun e => (e.1, e.2.resolvedDynamicRef))) = .ok (.d7, [(0, none), (1, none)]) := by
  decide +kernel
example : resolveThenValidate (dynStore d7URI) (.num 1) = .ok () := by decide +kernel
example : resolveThenValidate (dynStore d7URI) (.str "a") = .ok () := by decide +kernel
/-- … 2020-12: it is resolved to `/definitions/x` and `1` is not a string -/
example : ((Go.resolve (renvOf (dynStore d20URI)) 3 0 "").bind fun rs =>
    .ok (rs.draft, rs.infos.map fun e => (e.1, e.2.resolvedDynamicRef))) = .ok (.d2020, [(0, some 1), (1, none)]) := by
  decide +kernel
example : resolveThenValidate (dynStore d20URI) (.num 1) = .err := by decide +kernel
example : resolveThenValidate (dynStore d20URI) (.str "a") = .ok () := by decide +kernel
/-- the dangling `$dynamicRef`: draft-07 resolves (and accepts everything), 2020-12 does not -/
example : resolveThenValidate (dangStore d7URI) (.num 1) = .ok () := by decide +kernel
example : (Go.resolve (renvOf (dangStore d20URI)) 3 0 "").isOk = false := by decide +kernel
/-- the hypotheses of `draft7_ignores_dynamicRef` hold on the draft-07 witnesses … -/
example : Spec.topDraft (renvOf (dynStore d7URI)) 0 = .d7 ∧ Spec.topDraft (renvOf (dangStore d7URI)) 0 = .d7 := by
  decide +kernel
example (fuel : Nat) (base : String) :
    Go.resolve { renvOf (dangStore d7URI) with st := (dangStore d7URI).map Inv.eraseDynRef } fuel 0 base
      = Go.resolve (renvOf (dangStore d7URI)) fuel 0 base :=
  draft7_ignores_dynamicRef_noloader (renvOf (dangStore d7URI)) rfl fuel 0 base (by decide +kernel)
/-- … the erased document being `{"$schema": draft-07}` -/
example : (dangStore d7URI).map Inv.eraseDynRef = #[{ schema := d7URI }] := by
  simp [dangStore, Inv.eraseDynRef]
/-- … and not on the 2020-12 ones, where the erasure changes the outcome of Resolve -/
example : Spec.topDraft (renvOf (dangStore d20URI)) 0 = .d2020 := by decide +kernel
example : (Go.resolve { renvOf (dangStore d20URI) with st := (dangStore d20URI).map Inv.eraseDynRef } 3 0 "").isOk = true := by
  decide +kernel
/-- a Loader document that declares 2020-12 under a draft-07 root keeps its `$dynamicRef`: `LoaderDeclares` fails, and
    Resolve does fail on the dangling reference of the loaded document -/
def mixedEnv : Go.Env :=
  { st := #[{ schema := d7URI, allOf := some [1] }, { ref := "http://x/a.json" }, { schema := d20URI, dynamicRef := "#nosuch" }],
    reOk := fun _ => true, loader := some [("http://x/a.json", .doc 2)] }
example : (Go.resolve mixedEnv 4 0 "http://x/root.json").isOk = false := by decide +kernel
example : (Go.resolve { mixedEnv with st := mixedEnv.st.map Inv.eraseDynRef } 4 0 "http://x/root.json").isOk = true := by
  decide +kernel
/-- the converse mix: a draft-07 document (dangling `$dynamicRef`) loaded by a 2020-12 root resolves; Validate (root
    draft: 2020-12) skips the unresolved reference instead of panicking -/
def mixedEnv' : Go.Env :=
  { st := #[{ schema := d20URI, ref := "http://x/a.json" }, { schema := d7URI, dynamicRef := "#nosuch", type := "integer" }],
    reOk := fun _ => true, loader := some [("http://x/a.json", .doc 1)] }
example : (Res.bind (Go.resolve mixedEnv' 4 0 "http://x/root.json") fun rs =>
    Go.validate { st := mixedEnv'.st, draft := rs.draft, infos := rs.infos, reMatch := fun _ _ => false, hash := fun _ => 0 }
      Generated.supportedVersions 4 0 (GoVal.ofJson (.num 1))) = .ok () := by decide +kernel
example : (Res.bind (Go.resolve mixedEnv' 4 0 "http://x/root.json") fun rs =>
    Go.validate { st := mixedEnv'.st, draft := rs.draft, infos := rs.infos, reMatch := fun _ _ => false, hash := fun _ => 0 }
      Generated.supportedVersions 4 0 (GoVal.ofJson (.str "a"))) = .err := by decide +kernel

/-! ### each draft sees only its own vocabulary: the witness documents -/

/-- `exStore2` (`items` array + `additionalItems` + `prefixItems` + `dependencies`) without the 2020-12-only keyword … -/
def exStore2Non7 : Store := #[
  { itemsArray := some [1], additionalItems := some 2, dependencyStrings := some [("a", some ["b"])] },
  { type := "string" }, { not := some 3 }, {}, { type := "number" } ]
/-- … and without the draft-07-only ones -/
def exStore2Non2020 : Store := #[
  { prefixItems := some [4] }, { type := "string" }, { not := some 3 }, {}, { type := "number" } ]
example : exStore2.map Inv.eraseNon7 = exStore2Non7 := by simp [exStore2, exStore2Non7, Inv.eraseNon7]
example : exStore2.map Inv.eraseNon2020 = exStore2Non2020 := by simp [exStore2, exStore2Non2020, Inv.eraseNon2020]
/-- `draft7_vocabulary` applied -/
example (fuel : Nat) (i : GoVal) :
    Go.validateFuel { exEnv2 with st := exStore2.map Inv.eraseNon7 } fuel [] i 0 = Go.validateFuel exEnv2 fuel [] i 0 :=
  (draft7_vocabulary exEnv2 rfl).2.1 fuel [] i 0
/-- its hypothesis `env.draft = .d7` cannot be dropped: under 2020-12 `prefixItems` rejects `["x"]` (not a number), and
    the erased document accepts it -/
example : Spec.valid (specEnvOf { exEnv2 with draft := .d2020 }) 4 0 (.arr [.str "x"]) = some false := by decide
example : Spec.valid (specEnvOf { exEnv2 with draft := .d2020, st := exStore2Non7 }) 4 0 (.arr [.str "x"]) = some true := by
  decide
example : Go.validate { exEnv2 with draft := .d2020 } [""] 4 0 (GoVal.ofJson (.arr [.str "x"])) = .err := by decide
example : Go.validate { exEnv2 with draft := .d2020, st := exStore2Non7 } [""] 4 0 (GoVal.ofJson (.arr [.str "x"])) = .ok () := by
  decide
/-- `draft2020_vocabulary` applied -/
example (fuel : Nat) (i : GoVal) :
    Go.validateFuel { exEnv2 with draft := .d2020, st := exStore2.map Inv.eraseNon2020 } fuel [] i 0
      = Go.validateFuel { exEnv2 with draft := .d2020 } fuel [] i 0 :=
  (draft2020_vocabulary { exEnv2 with draft := .d2020 } rfl).2.1 fuel [] i 0
/-- its hypothesis `env.draft = .d2020` cannot be dropped: under draft-07 array-form `items` rejects `[1]` (not a string)
    and `dependencies` rejects `{"a": null}`; the erased document accepts both -/
example : Spec.valid (specEnvOf exEnv2) 4 0 (.arr [.num 1]) = some false := by decide
example : Spec.valid (specEnvOf { exEnv2 with st := exStore2Non2020 }) 4 0 (.arr [.num 1]) = some true := by decide
example : Go.validate exEnv2 [""] 4 0 (GoVal.ofJson (.obj [("a", .null)])) = .err := by decide
example : Go.validate { exEnv2 with st := exStore2Non2020 } [""] 4 0 (GoVal.ofJson (.obj [("a", .null)])) = .ok () := by decide

/-- `{"dependentRequired": {"a": ["b"]}, "dependentSchemas": {"c": false}, "$anchor": "top"}`: nothing under draft-07,
    two assertions under 2020-12 -/
def depStore : Store := #[
  { dependentRequired := some [("a", some ["b"])], dependentSchemas := some [("c", 1)], anchor := "top" },
  { not := some 2 }, {} ]
def depInfos : List (NodeId × Info) :=
  [(0, { path := "root", base := some 0 }), (1, { base := some 0 }), (2, { base := some 0 })]
def depEnv7 : VEnv :=
  { st := depStore, draft := .d7, infos := depInfos, reMatch := fun _ _ => false, hash := fun _ => 0 }
example : depStore.map Inv.eraseNon7 = #[{}, { not := some 2 }, {}] := by simp [depStore, Inv.eraseNon7]
example : Spec.valid (specEnvOf depEnv7) 4 0 (.obj [("a", .null), ("c", .null)]) = some true := by decide
example : Go.validate depEnv7 [""] 4 0 (GoVal.ofJson (.obj [("a", .null), ("c", .null)])) = .ok () := by decide
example : Spec.valid (specEnvOf { depEnv7 with draft := .d2020 }) 4 0 (.obj [("a", .null)]) = some false := by decide
example : Spec.valid (specEnvOf { depEnv7 with draft := .d2020 }) 4 0 (.obj [("c", .null)]) = some false := by decide
example : Go.validate { depEnv7 with draft := .d2020 } [""] 4 0 (GoVal.ofJson (.obj [("a", .null)])) = .err := by decide
example : Go.validate { depEnv7 with draft := .d2020 } [""] 4 0 (GoVal.ofJson (.obj [("c", .null)])) = .err := by decide

/-! #### what is NOT ignored (Schema.Resolve) -/

/-- `resolve_sees_ignored_subschemas`, draft-07: `{"$schema": draft-07, "prefixItems": [{"$ref": "#/nosuch"}]}` does not
    resolve — the subschema under the unknown keyword `prefixItems` is walked and its dangling `$ref` is an error — while
    the document without the keyword resolves.  (An evaluation never applies that subschema.) -/
example : (Go.resolve (renvOf #[{ schema := d7URI, prefixItems := some [1] }, { ref := "#/nosuch" }]) 3 0 "").isOk = false := by
  decide +kernel
example : (Go.resolve (renvOf #[{ schema := d7URI }, { ref := "#/nosuch" }]) 3 0 "").isOk = true := by decide +kernel
/-- the same under 2020-12 with the draft-07 keywords `additionalItems` and `dependencies` -/
example : (Go.resolve (renvOf #[{ schema := d20URI, additionalItems := some 1 }, { ref := "#/nosuch" }]) 3 0 "").isOk = false := by
  decide +kernel
example : (Go.resolve (renvOf #[{ schema := d20URI, dependencySchemas := some [("a", 1)] }, { ref := "#/nosuch" }]) 3 0 "").isOk
    = false := by
  decide +kernel
example : (Go.resolve (renvOf #[{ schema := d20URI }, { ref := "#/nosuch" }]) 3 0 "").isOk = true := by decide +kernel
/-- … and a `$ref` may designate a schema under an ignored keyword, by JSON Pointer or through the `$id` resolveURIs
    registered for it: `{"$schema": draft-07, "$ref": "#/prefixItems/0", "prefixItems": [{"type": "string"}]}` resolves to
    it and rejects `1` -/
example : resolveThenValidate #[{ schema := d7URI, ref := "#/prefixItems/0", prefixItems := some [1] }, { type := "string" }]
    (.num 1) = .err := by decide +kernel
/-- `draft7_vocabulary_keyword_refused`: `$vocabulary` is not an ignored keyword under draft-07 — checkLocal refuses every
    schema object carrying it whose own `$schema` is not the 2020-12 URI -/
example : (Go.resolve (renvOf #[{ schema := d7URI, vocabulary := some [("https://json-schema.org/draft/2020-12/vocab/core", true)] }])
    3 0 "").isOk = false := by decide +kernel
example : (Go.resolve (renvOf #[{ schema := d7URI }]) 3 0 "").isOk = true := by decide +kernel
example : (Go.resolve (renvOf #[{ schema := d20URI, vocabulary := some [("https://json-schema.org/draft/2020-12/vocab/core", true)] }])
    3 0 "").isOk = true := by decide +kernel
/-- basicChecks reads the draft-07 forms whatever the draft (a Go-built schema only: one JSON `items` member yields one
    of the two fields): `Items` and `ItemsArray` both set is refused under 2020-12 too -/
example : (Go.resolve (renvOf #[{ schema := d20URI, items := some 1, itemsArray := some [2] }, {}, {}]) 3 0 "").isOk = false := by
  decide +kernel
example : (Go.resolve (renvOf #[{ schema := d20URI, items := some 1 }, {}, {}]) 3 0 "").isOk = true := by decide +kernel

/-! #### `$anchor` under draft-07 (Schema.Resolve) -/

/-- `{"$schema": S, "$ref": "#a", "definitions": {"x": {"$anchor": "a"}}}`: under 2020-12 the reference resolves to
    `/definitions/x`; under draft-07 `$anchor` registers nothing and the reference dangles … -/
def anchorStore (schemaURI : String) : Store := #[
  { schema := schemaURI, ref := "#a", definitions := some [("x", 1)] }, { anchor := "a" } ]
example : ((Go.resolve (renvOf (anchorStore d20URI)) 3 0 "").bind fun rs =>
    .ok (rs.infos.map fun e => (e.1, e.2.resolvedRef))) = .ok [(0, some 1), (1, none)] := by decide +kernel
example : (Go.resolve (renvOf (anchorStore d7URI)) 3 0 "").isOk = false := by decide +kernel
/-- … as it does in the document without `$anchor` (`draft7_resolve_ignores_anchors` applied), under both drafts: the
    hypothesis `topDraft = .d7` cannot be dropped -/
example : (anchorStore d7URI).map Inv.eraseAnchors = #[{ schema := d7URI, ref := "#a", definitions := some [("x", 1)] }, {}] := by
  simp [anchorStore, Inv.eraseAnchors]
example (fuel : Nat) (base : String) :
    Go.resolve { renvOf (anchorStore d7URI) with st := (anchorStore d7URI).map Inv.eraseAnchors } fuel 0 base
      = Go.resolve (renvOf (anchorStore d7URI)) fuel 0 base :=
  draft7_resolve_ignores_anchors_noloader (renvOf (anchorStore d7URI)) rfl fuel 0 base (by decide +kernel)
example : (Go.resolve (renvOf #[{ schema := d20URI, ref := "#a", definitions := some [("x", 1)] }, {}]) 3 0 "").isOk = false := by
  decide +kernel
/-- the draft-07 spelling: `{"$id": "#a"}` is the anchor there (and refused under 2020-12) -/
example : ((Go.resolve (renvOf #[{ schema := d7URI, ref := "#a", definitions := some [("x", 1)] }, { id := "#a" }]) 3 0 "").bind
    fun rs => .ok (rs.infos.map fun e => (e.1, e.2.resolvedRef))) = .ok [(0, some 1), (1, none)] := by decide +kernel
example : (Go.resolve (renvOf #[{ schema := d20URI, ref := "#a", definitions := some [("x", 1)] }, { id := "#a" }]) 3 0 "").isOk
    = false := by decide +kernel

end JSV.C02
