/-
  C11 — Equal is JSON value equality.  Property theorems only (helper lemmas: JSV/Proofs/Equal.lean).
-/
import JSV.Proofs.Equal
namespace JSV.C11
open JSV GoVal

/-- Equal on two representations = JSON equality of the values they carry. -/
theorem equal_iff (x y : GoVal) (jx jy : Json)
    (hx : GoVal.denote x = some jx) (hy : GoVal.denote y = some jy) :
    Go.equalValue x y = .ok (Json.eqv jx jy) :=
  Go.equalValue_eq x y jx jy hx hy

theorem eqv_refl (j : Json) (h : Json.WF j = true) : Json.eqv j j = true :=
  Json.eqv_refl_of_WF j h

theorem eqv_symm (a b : Json) (ha : Json.WF a = true) (hb : Json.WF b = true) :
    Json.eqv a b = Json.eqv b a :=
  Json.eqv_symm_of_WF a b ha hb

theorem eqv_trans (a b c : Json) (_ha : Json.WF a = true) (_hb : Json.WF b = true)
    (_hc : Json.WF c = true) :
    Json.eqv a b = true → Json.eqv b c = true → Json.eqv a c = true :=
  Json.eqv_trans_imp a b c

/-- consequences for the Go function on its domain (values that denote well-formed JSON) -/
theorem equal_refl (x : GoVal) (j : Json) (hx : GoVal.denote x = some j) (hw : Json.WF j = true) :
    Go.equalValue x x = .ok true := by
  rw [equal_iff x x j j hx hx, eqv_refl j hw]

theorem equal_symm (x y : GoVal) (jx jy : Json)
    (hx : GoVal.denote x = some jx) (hy : GoVal.denote y = some jy)
    (wx : Json.WF jx = true) (wy : Json.WF jy = true) :
    Go.equalValue x y = Go.equalValue y x := by
  rw [equal_iff x y jx jy hx hy, equal_iff y x jy jx hy hx, eqv_symm jx jy wx wy]

theorem equal_trans (x y z : GoVal) (jx jy jz : Json)
    (hx : GoVal.denote x = some jx) (hy : GoVal.denote y = some jy) (hz : GoVal.denote z = some jz)
    (wx : Json.WF jx = true) (wy : Json.WF jy = true) (wz : Json.WF jz = true) :
    Go.equalValue x y = .ok true → Go.equalValue y z = .ok true → Go.equalValue x z = .ok true := by
  rw [equal_iff x y jx jy hx hy, equal_iff y z jy jz hy hz, equal_iff x z jx jz hx hz]
  intro h1 h2
  rw [eqv_trans jx jy jz wx wy wz (Res.ok.inj h1) (Res.ok.inj h2)]

/-- null only equals null; a number never equals a string with the same digits; etc. -/
theorem eqv_null_iff (j : Json) : Json.eqv .null j = true ↔ j = .null := by
  cases j <;> simp [Json.eqv]

/-- a number never equals a string, whatever the digits -/
theorem eqv_num_str (q : Rat) (s : String) : Json.eqv (.num q) (.str s) = false := by
  simp [Json.eqv]

/-! ## The hypotheses are satisfiable on non-trivial values

Three representations of `{"a":[1,1.5,null],"b":"x","c":2}`: different key orders, different numeric
kinds, pointers and interfaces in different places. -/

def exX : GoVal :=
  .map [("a", .iface (.list [.int 1, .ptr (.float (mkRat 3 2)), .invalid])), ("b", .str "x"),
        ("c", .jnum (some 2) "2.0")]
def exY : GoVal :=
  .ptr (.map [("c", .uint 2), ("b", .iface (.str "x")),
              ("a", .list [.float 1, .jnum (some (mkRat 6 4)) "1.50", .ptr .invalid])])
def exZ : GoVal :=
  .iface (.map [("b", .str "x"), ("a", .iface (.list [.uint 1, .float (mkRat 3 2), .iface .invalid])),
                ("c", .int 2)])
def exJX : Json := .obj [("a", .arr [.num 1, .num (mkRat 3 2), .null]), ("b", .str "x"), ("c", .num 2)]
def exJY : Json := .obj [("c", .num 2), ("b", .str "x"), ("a", .arr [.num 1, .num (mkRat 6 4), .null])]
def exJZ : Json := .obj [("b", .str "x"), ("a", .arr [.num 1, .num (mkRat 3 2), .null]), ("c", .num 2)]

example : GoVal.denote exX = some exJX := by rfl
example : GoVal.denote exY = some exJY := by rfl
example : GoVal.denote exZ = some exJZ := by rfl
example : Json.WF exJX = true := by decide
example : Json.WF exJY = true := by decide
example : Json.WF exJZ = true := by decide
example : Json.eqv exJX exJY = true := by decide
example : Json.eqv exJY exJZ = true := by decide
example : Go.equalValue exX exY = .ok true := by decide
example : Go.equalValue exY exZ = .ok true := by decide
example : Go.equalValue exX exZ = .ok true := by decide

/-- `equal_iff` applied -/
example : Go.equalValue exX exY = .ok (Json.eqv exJX exJY) := equal_iff exX exY exJX exJY rfl rfl
/-- `eqv_refl`, `eqv_symm`, `eqv_trans` applied -/
example : Json.eqv exJX exJX = true := eqv_refl exJX (by decide)
example : Json.eqv exJX exJY = Json.eqv exJY exJX := eqv_symm exJX exJY (by decide) (by decide)
example : Json.eqv exJX exJZ = true :=
  eqv_trans exJX exJY exJZ (by decide) (by decide) (by decide) (by decide) (by decide)
/-- `equal_refl`, `equal_symm`, `equal_trans` applied -/
example : Go.equalValue exX exX = .ok true := equal_refl exX exJX rfl (by decide)
example : Go.equalValue exX exY = Go.equalValue exY exX :=
  equal_symm exX exY exJX exJY rfl rfl (by decide) (by decide)
example : Go.equalValue exX exZ = .ok true :=
  equal_trans exX exY exZ exJX exJY exJZ rfl rfl rfl (by decide) (by decide) (by decide)
    (by decide) (by decide)

/-- why `WF` is assumed for reflexivity and symmetry: with a duplicate key the lookup-based comparison is
    neither (objects of this shape cannot come out of a Go map, nor out of `encoding/json`). -/
example :
    Json.eqv (.obj [("a", .num 1), ("a", .num 1)]) (.obj [("a", .num 1), ("b", .num 2)]) = true ∧
    Json.eqv (.obj [("a", .num 1), ("b", .num 2)]) (.obj [("a", .num 1), ("a", .num 1)]) = false ∧
    Json.eqv (.obj [("a", .num 1), ("a", .num 2)]) (.obj [("a", .num 1), ("a", .num 2)]) = false := by
  decide

end JSV.C11
