/-
  C11 — Equal is JSON value equality.  Property theorems only.
-/
import JSV.Model.Equal
namespace JSV.C11
open JSV GoVal

/-- placeholder while the pipeline is brought up; replaced by `equal_iff` -/
theorem eqLeaf_invalid : Go.eqLeaf .invalid .invalid = .ok true := rfl

end JSV.C11
