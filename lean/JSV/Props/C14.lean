/-
  C14 — the verdict does not depend on map iteration order: neither on the order in which the schema's maps
  (properties, patternProperties, $defs, definitions, dependencies, dependentRequired, dependentSchemas) are listed, nor
  on the order of the members of the objects of the instance, at any depth.
  Property theorems only (helper lemmas: JSV/Proofs/InvPerm.lean … InvPerm5.lean, InvPermLoops.lean; for Resolve:
  ResPerm.lean, ResPerm2.lean).
-/
import JSV.Proofs.InvPermLoops
import JSV.Proofs.ResPerm2
import JSV.Props.C01
import JSV.Props.C08
namespace JSV.C14
open JSV Go GoVal Refine

/-! ## the key-permutation relations -/

/-- `b` is `a` with the entry lists of properties, patternProperties, defs, definitions, dependencySchemas,
    dependencyStrings, dependentRequired, dependentSchemas each replaced by a `List.Perm` of it (`none` stays `none`);
    all other fields equal -/
abbrev permNode (a b : Node) : Prop := Inv.permNode a b

/-- same size, and at every place two schema objects related by `permNode` -/
abbrev permStore (s1 s2 : Store) : Prop := Inv.permStore s1 s2

/-- the same JSON value up to the order of object members at every depth (a structurally recursive predicate;
    the three theorems below are its introduction/elimination rules as an inductive definition would state them) -/
abbrev permJson (a b : Json) : Prop := Inv.permJson a b

theorem permStore_iff (s1 s2 : Store) :
    permStore s1 s2 ↔ s1.size = s2.size ∧
      ∀ i, match s1.get? i, s2.get? i with
        | some a, some b => permNode a b
        | none, none => True
        | _, _ => False := Iff.rfl

theorem permNode_iff (a b : Node) :
    permNode a b ↔ ∃ p pp d df ds dst dr dsc,
      Inv.optPerm a.properties p ∧ Inv.optPerm a.patternProperties pp ∧ Inv.optPerm a.defs d ∧
      Inv.optPerm a.definitions df ∧ Inv.optPerm a.dependencySchemas ds ∧ Inv.optPerm a.dependencyStrings dst ∧
      Inv.optPerm a.dependentRequired dr ∧ Inv.optPerm a.dependentSchemas dsc ∧
      b = { a with properties := p, patternProperties := pp, defs := d, definitions := df, dependencySchemas := ds,
                   dependencyStrings := dst, dependentRequired := dr, dependentSchemas := dsc } := Iff.rfl

/-- scalars: only to themselves -/
theorem permJson_scalar (a b : Json) (ha : ∀ xs, a ≠ .arr xs) (ho : ∀ kvs, a ≠ .obj kvs) : permJson a b ↔ a = b := by
  cases a <;> cases b <;> simp_all [Inv.permJson]

/-- arrays: element-wise, same order -/
theorem permJson_arr (xs ys : List Json) : permJson (.arr xs) (.arr ys) ↔ Inv.All₂ permJson xs ys :=
  Inv.permJson_arr

/-- objects: the entry list of one is, entry by entry (same key, related values), a permutation of the other's -/
theorem permJson_obj (k1 k2 : List (String × Json)) :
    permJson (.obj k1) (.obj k2) ↔
      ∃ k', Inv.All₂ (fun p q => p.1 = q.1 ∧ permJson p.2 q.2) k1 k' ∧ k'.Perm k2 :=
  Inv.permJson_obj

theorem permJson_refl (j : Json) : permJson j j := Inv.permJson_refl j

/-- in particular any reordering of the members of an object -/
theorem permJson_of_perm (k1 k2 : List (String × Json)) (h : k1.Perm k2) : permJson (.obj k1) (.obj k2) :=
  Inv.permJson_of_perm h

theorem permJson_WF (a b : Json) (h : permJson a b) (ha : Json.WF a = true) : Json.WF b = true :=
  Inv.permJson_WF a b h ha

/-! ## first step: JSON equality does not see the order of members -/

theorem eqv_perm (a b : Json) (h : permJson a b) (ha : Json.WF a = true) (hb : Json.WF b = true) :
    Json.eqv a b = true :=
  Inv.eqv_perm a b h ha hb

/-- hence `Equal` of the package on the decoded values -/
theorem equal_perm (a b : Json) (h : permJson a b) (ha : Json.WF a = true) :
    Go.equalValue (GoVal.ofJson a) (GoVal.ofJson b) = .ok true := by
  rw [C11.equal_iff _ _ a b (denote_ofJson a) (denote_ofJson b),
      eqv_perm a b h ha (permJson_WF a b h ha)]

/-! ## loop level: the evaluator's loops over schema-side maps -/

/-- missingProperties: the order of the required names does not matter … -/
theorem allPresent_perm (kvs : List (String × GoVal)) (ps1 ps2 : List String) (h : ps1.Perm ps2) :
    Go.allPresent kvs ps1 = Go.allPresent kvs ps2 :=
  Inv.allPresent_perm_props kvs h

/-- … nor does the order of the instance's members -/
theorem allPresent_perm_instance (kvs1 kvs2 : List (String × GoVal)) (h : kvs1.Perm kvs2) (ps : List String) :
    Go.allPresent kvs1 ps = Go.allPresent kvs2 ps :=
  Inv.allPresent_perm_inst h ps

/-- dependentRequired / string-form dependencies: iteration order of the map is irrelevant -/
theorem depRequiredLoop_perm (kvs : List (String × GoVal)) (ds1 ds2 : List (String × Option (List String)))
    (h : ds1.Perm ds2) : Go.depRequiredLoop kvs ds1 = Go.depRequiredLoop kvs ds2 :=
  Inv.depRequiredLoop_perm kvs h

theorem depRequiredLoop_perm_instance (kvs1 kvs2 : List (String × GoVal)) (h : kvs1.Perm kvs2)
    (ds : List (String × Option (List String))) : Go.depRequiredLoop kvs1 ds = Go.depRequiredLoop kvs2 ds :=
  Inv.depRequiredLoop_perm_inst h ds

/-- `properties`: when every subschema application the loop can make returns a verdict (error or nil — no panic,
    enough fuel), iterating the map in another order gives the same verdict and the same evaluated keys up to order.
    (With a panicking application the FIRST failure met decides between error and panic: order-dependent, and
    outside the domain of the Spec.) -/
theorem propertiesLoop_perm (rec : Go.Rec) (stack : List NodeId) (kvs : List (String × GoVal))
    (props1 props2 : List (String × NodeId)) (h : props1.Perm props2)
    (hdec : ∀ e, e ∈ props1 → ∀ v, Json.lookup e.1 kvs = some v → rec stack v e.2 = .err ∨ ∃ a, rec stack v e.2 = .ok a)
    (ev : List String) :
    (match Go.propertiesLoop rec stack kvs props1 ev, Go.propertiesLoop rec stack kvs props2 ev with
     | .ok e1, .ok e2 => e1.Perm e2
     | .err, .err => True
     | _, _ => False) :=
  Inv.propertiesLoop_perm rec stack kvs h hdec ev

/-! ## the Spec -/

/-- **Spec level.**  Permuting the maps of every schema object and the members of every object of the instance
    changes neither definedness nor the verdict.  (`StoreWF`: the keys of every `properties` map are distinct, as in
    a Go map.) -/
theorem spec_perm_invariant (env : Spec.Env) (st1 st2 : Store) (hst : permStore st1 st2) (hwf : StoreWF st1)
    (j1 j2 : Json) (hj : permJson j1 j2) (hw : Json.WF j1 = true) (fuel : Nat) (scope : List NodeId) (s : NodeId) :
    (Spec.evalFuel { env with st := st1 } fuel scope s j1).map (·.isSome)
      = (Spec.evalFuel { env with st := st2 } fuel scope s j2).map (·.isSome) := by
  have h := Inv.evalFuel_sim env st1 st2 hst hwf fuel scope s j1 j2 hj hw
  generalize Spec.evalFuel { env with st := st1 } fuel scope s j1 = o1 at h ⊢
  generalize Spec.evalFuel { env with st := st2 } fuel scope s j2 = o2 at h ⊢
  cases o1 <;> cases o2
  · rfl
  · exact False.elim h
  · exact False.elim h
  · simp only [Option.map_some]; rw [Inv.RSim.isSome_eq h]

/-- … and the evaluated properties and items are the same sets -/
theorem spec_perm_invariant_evaluated (env : Spec.Env) (st1 st2 : Store) (hst : permStore st1 st2) (hwf : StoreWF st1)
    (j1 j2 : Json) (hj : permJson j1 j2) (hw : Json.WF j1 = true) (fuel : Nat) (scope : List NodeId) (s : NodeId)
    (e1 e2 : Spec.Ev) (h1 : Spec.evalFuel { env with st := st1 } fuel scope s j1 = some (some e1))
    (h2 : Spec.evalFuel { env with st := st2 } fuel scope s j2 = some (some e2)) :
    (∀ k, k ∈ e1.props ↔ k ∈ e2.props) ∧ (∀ i, i ∈ e1.items ↔ i ∈ e2.items) := by
  have h := Inv.evalFuel_sim env st1 st2 hst hwf fuel scope s j1 j2 hj hw
  rw [h1, h2] at h
  exact h

theorem spec_valid_perm_invariant (env : Spec.Env) (st1 st2 : Store) (hst : permStore st1 st2) (hwf : StoreWF st1)
    (j1 j2 : Json) (hj : permJson j1 j2) (hw : Json.WF j1 = true) (fuel : Nat) (root : NodeId) :
    Spec.valid { env with st := st1 } fuel root j1 = Spec.valid { env with st := st2 } fuel root j2 :=
  spec_perm_invariant env st1 st2 hst hwf j1 j2 hj hw fuel [] root

/-! ## the evaluator -/

/-- **C14.**  Whenever the Spec decides, `Validate` on the permuted store and the permuted instance returns the same
    verdict as on the original ones (through the refinement theorem C01 on both sides). -/
theorem validate_perm_invariant (env : VEnv) (hwf : EnvWF env) (hst : StoreWF env.st) (st2 : Store)
    (hperm : permStore env.st st2) (j1 j2 : Json) (hj : permJson j1 j2) (hw : Json.WF j1 = true)
    (fuel : Nat) (root : NodeId) (b : Bool) (hs : Spec.valid (specEnvOf env) fuel root j1 = some b)
    (supported : List String) (rn : Node) (hroot : env.st.get? root = some rn)
    (hsup : supported.contains rn.schema = true) :
    Go.validate { env with st := st2 } supported fuel root (GoVal.ofJson j2) = (if b then .ok () else .err) ∧
    Go.validate env supported fuel root (GoVal.ofJson j1) = (if b then .ok () else .err) := by
  refine ⟨?_, C01.C01_main env hwf hst fuel root j1 hw b hs supported rn hroot hsup⟩
  obtain ⟨rn2, hroot2, hrn⟩ := Inv.permStore_get' hperm hroot
  have hs2 : Spec.valid (specEnvOf { env with st := st2 }) fuel root j2 = some b := by
    rw [← hs]
    exact (spec_valid_perm_invariant (specEnvOf env) env.st st2 hperm hst j1 j2 hj hw fuel root).symm
  exact C01.C01_main { env with st := st2 } (Inv.EnvWF_perm env st2 hperm hwf) (Inv.StoreWF_perm hperm hst) fuel root j2
    (permJson_WF j1 j2 hj hw) b hs2 supported rn2 hroot2 (by rw [Inv.permNode_schema hrn]; exact hsup)

/-- with C08: the same for ANY Go representations of the two instances (typed maps, whose iteration order Go
    randomises, included) -/
theorem validate_perm_repr_invariant (env : VEnv) (hwf : EnvWF env) (hst : StoreWF env.st) (st2 : Store)
    (hperm : permStore env.st st2) (j1 j2 : Json) (hj : permJson j1 j2) (hw : Json.WF j1 = true)
    (fuel : Nat) (root : NodeId) (b : Bool) (hs : Spec.valid (specEnvOf env) fuel root j1 = some b)
    (supported : List String) (rn : Node) (hroot : env.st.get? root = some rn)
    (hsup : supported.contains rn.schema = true)
    (g1 g2 : GoVal) (h1 : GoVal.denote g1 = some j1) (h2 : GoVal.denote g2 = some j2) :
    Go.validate { env with st := st2 } supported fuel root g2 = Go.validate env supported fuel root g1 := by
  obtain ⟨ha, hb⟩ := validate_perm_invariant env hwf hst st2 hperm j1 j2 hj hw fuel root b hs supported rn hroot hsup
  rw [C08.validate_repr_entry { env with st := st2 } hwf.hash_respects supported fuel root g2 j2 h2
        (permJson_WF j1 j2 hj hw),
      C08.validate_repr_entry env hwf.hash_respects supported fuel root g1 j1 h1 hw, ha, hb]

/-! ## Resolve

schema.go's `everyChild` / `all` iterate maps by sorted key, and so do `Node.children` / `allNodes` in the model;
checkStructure ranges over the maps with reflect's MapRange (`childEntries`: list order).  In Go the info objects
live in a map; in the model the table `infos` is a list in registration order, so on a store whose maps are listed in
another order the table comes out in another order.  Everything else is the same. -/

/-- the keys of every schema-valued map (`$defs`, definitions, dependencies, dependentSchemas, patternProperties,
    properties) of every schema object are distinct, as in a Go map -/
abbrev StoreKeysNodup (st : Store) : Prop := Go.RPerm.StoreKeysNodup st

theorem storeKeysNodup_iff (st : Store) :
    StoreKeysNodup st ↔ ∀ i n, st.get? i = some n →
      ∀ j kvs, ChildField.keyed j (some kvs) ∈ n.childFields → (kvs.map (·.1)).Nodup := Iff.rfl

/-- `slices.Sorted(maps.Keys(m))`: the enumeration order of a map with distinct keys is irrelevant -/
theorem sortByKey_perm (l₁ l₂ : List (String × NodeId)) (hp : l₁.Perm l₂) (hn : (l₁.map (·.1)).Nodup) :
    sortByKey l₁ = sortByKey l₂ :=
  Go.RPerm.sortByKey_perm hp hn

/-- everyChild: the same children in the same order -/
theorem children_perm (a b : Node) (h : permNode a b)
    (hn : ∀ j kvs, ChildField.keyed j (some kvs) ∈ a.childFields → (kvs.map (·.1)).Nodup) :
    b.children = a.children :=
  Go.RPerm.children_perm h hn

/-- checkStructure's range over the fields: the same entries (child, path), in another order -/
theorem childEntries_perm (a b : Node) (h : permNode a b) (path : String) :
    (Go.childEntries a path).Perm (Go.childEntries b path) :=
  Go.RPerm.childEntries_perm h path

/-- checkLocal: `.all` over patternProperties, `.any` over the two forms of `dependencies` -/
theorem checkLocalOk_perm (env : Go.Env) (a b : Node) (h : permNode a b) :
    Go.checkLocalOk env b = Go.checkLocalOk env a :=
  Go.RPerm.checkLocalOk_perm env h

/-- checkStructure: the same refusal, or the same schemas registered under the same paths, in another order -/
theorem checkStructure_perm_invariant (st st' : Store) (hst : permStore st st') (root : NodeId) :
    match Go.checkStructure st (st.size + 2) [(root, "")] [], Go.checkStructure st' (st'.size + 2) [(root, "")] [] with
    | .ok a, .ok b => a.Perm b
    | .err, .err => True
    | _, _ => False :=
  Go.RPerm.checkStructure_perm_outcome st st' hst root

/-- Schema.all: the same schemas in the same order -/
theorem allNodes_perm (st st' : Store) (hst : permStore st st') (hn : StoreKeysNodup st) (fuel : Nat)
    (work : List NodeId) : Go.allNodes st' fuel work = Go.allNodes st fuel work :=
  Go.RPerm.allNodes_perm st st' hst hn fuel work

/-- dereferenceJSONPointer: map lookups by key -/
theorem dereference_perm (st st' : Store) (hst : permStore st st') (hn : StoreKeysNodup st) (strict nie : Bool)
    (root : NodeId) (ptr : String) :
    Pointer.dereference st' strict nie root ptr = Pointer.dereference st strict nie root ptr :=
  Go.RPerm.dereference_perm st st' hst hn strict nie root ptr

/-- **Resolve does not depend on map iteration order.**  On a store that differs only in the order in which the maps
    of the schema objects are listed (keys distinct), `Resolve` ends the same way — the same kind of failure, or
    success with the same root, draft, Loader log and, for every schema, the same info object (base, URI, anchors,
    resolved references).  The `infos` tables are compared as maps: their list order is checkStructure's
    registration order (see the example below). -/
theorem resolve_perm_invariant (env : Go.Env) (st' : Store) (hst : permStore env.st st') (hn : StoreKeysNodup env.st)
    (fuel : Nat) (root : NodeId) (base : String) :
    match Go.resolve env fuel root base, Go.resolve { env with st := st' } fuel root base with
    | .ok a, .ok b =>
      b.root = a.root ∧ b.draft = a.draft ∧ b.log = a.log ∧ ∀ id, Go.lookupNat id b.infos = Go.lookupNat id a.infos
    | .err, .err => True
    | .panic, .panic => True
    | .fuel, .fuel => True
    | _, _ => False := by
  have h := Go.RPerm.resolve_rel env st' hst hn fuel root base
  cases h1 : Go.resolve env fuel root base <;> cases h2 : Go.resolve { env with st := st' } fuel root base <;>
    rw [h1, h2] at h <;> exact h

/-- in particular: the same verdict on success / failure -/
theorem resolve_perm_isOk (env : Go.Env) (st' : Store) (hst : permStore env.st st') (hn : StoreKeysNodup env.st)
    (fuel : Nat) (root : NodeId) (base : String) :
    (Go.resolve { env with st := st' } fuel root base).isOk = (Go.resolve env fuel root base).isOk := by
  have h := resolve_perm_invariant env st' hst hn fuel root base
  cases h1 : Go.resolve env fuel root base <;> cases h2 : Go.resolve { env with st := st' } fuel root base <;>
    rw [h1, h2] at h <;> first | exact h.elim | rfl

/-! ## The hypotheses are satisfiable on non-trivial data

`{"properties":{"a":{"type":"object","required":["x"]},"b":{"enum":[{"p":1,"q":[2]}]}},"patternProperties":{"^c":{}},
  "dependentRequired":{"a":["b"],"b":["a"]},"unevaluatedProperties":false}`, once with the maps in this order and once
in the opposite order. -/

def exStore1 : Store := #[
  { properties := some [("a", 1), ("b", 2)], patternProperties := some [("^c", 3)],
    dependentRequired := some [("a", some ["b"]), ("b", some ["a"])], unevaluatedProperties := some 4 },
  { type := "object", required := some ["x"] },
  { enum := some [.obj [("p", .num 1), ("q", .arr [.num 2])]] },
  {},
  { not := some 5 },
  {} ]

def exStore2 : Store := #[
  { properties := some [("b", 2), ("a", 1)], patternProperties := some [("^c", 3)],
    dependentRequired := some [("b", some ["a"]), ("a", some ["b"])], unevaluatedProperties := some 4 },
  { type := "object", required := some ["x"] },
  { enum := some [.obj [("p", .num 1), ("q", .arr [.num 2])]] },
  {},
  { not := some 5 },
  {} ]

def exInfos : List (NodeId × Info) :=
  [(0, { path := "root", base := some 0 }), (1, { base := some 0 }), (2, { base := some 0 }), (3, { base := some 0 }),
   (4, { base := some 0 }), (5, { base := some 0 })]

def exEnv : VEnv :=
  { st := exStore1, draft := .d2020, infos := exInfos, reMatch := fun re k => re == "^c" && (k == "c" || k == "cc"),
    hash := fun _ => 0 }

theorem exEnv_wf : EnvWF exEnv := EnvWF_of_checks exEnv (by decide) (by decide) (fun _ _ _ => rfl)
theorem exEnv_store : StoreWF exEnv.st := StoreWF_of_check _ (by decide)

theorem exPermStore : permStore exStore1 exStore2 := by
  refine ⟨rfl, fun i => ?_⟩
  match i with
  | 0 =>
    exact ⟨some [("b", 2), ("a", 1)], some [("^c", 3)], none, none, none, none,
      some [("b", some ["a"]), ("a", some ["b"])], none,
      List.Perm.swap _ _ _, List.Perm.refl _, trivial, trivial, trivial, trivial, List.Perm.swap _ _ _, trivial, rfl⟩
  | 1 => exact Inv.permNode.refl _
  | 2 => exact Inv.permNode.refl _
  | 3 => exact Inv.permNode.refl _
  | 4 => exact Inv.permNode.refl _
  | 5 => exact Inv.permNode.refl _
  | n + 6 => trivial

/-- `{"a":{"x":1,"y":2},"b":{"p":1,"q":[2]},"cc":null}` and the same with members reordered at both depths -/
def exJ1 : Json :=
  .obj [("a", .obj [("x", .num 1), ("y", .num 2)]), ("b", .obj [("p", .num 1), ("q", .arr [.num 2])]), ("cc", .null)]
def exJ2 : Json :=
  .obj [("cc", .null), ("b", .obj [("q", .arr [.num 2]), ("p", .num 1)]), ("a", .obj [("y", .num 2), ("x", .num 1)])]

theorem exPermJson : permJson exJ1 exJ2 := by
  refine (permJson_obj _ _).2
    ⟨[("a", .obj [("y", .num 2), ("x", .num 1)]), ("b", .obj [("q", .arr [.num 2]), ("p", .num 1)]), ("cc", .null)],
     ⟨⟨rfl, ?_⟩, ⟨rfl, ?_⟩, ⟨rfl, permJson_refl _⟩, trivial⟩, ?_⟩
  · exact permJson_of_perm _ _ (List.Perm.swap _ _ _)
  · exact permJson_of_perm _ _ (List.Perm.swap _ _ _)
  · exact (List.Perm.swap _ _ _).trans ((List.Perm.cons _ (List.Perm.swap _ _ _)).trans (List.Perm.swap _ _ _))

example : Json.WF exJ1 = true := by decide
/-- `eqv_perm` applied; and by computation -/
example : Json.eqv exJ1 exJ2 = true := eqv_perm exJ1 exJ2 exPermJson (by decide) (by decide)
example : Json.eqv exJ1 exJ2 = true := by decide

/-- the Spec decides: valid (`cc` is covered by the pattern, `a`/`b` by properties, both dependencies hold,
    the enum member equals `b`'s value whatever the order) -/
example : Spec.valid (specEnvOf exEnv) 4 0 exJ1 = some true := by decide
/-- `validate_perm_invariant` applied: permuted store and permuted instance, same verdict … -/
example : Go.validate { exEnv with st := exStore2 } [""] 4 0 (GoVal.ofJson exJ2) = .ok () :=
  (validate_perm_invariant exEnv exEnv_wf exEnv_store exStore2 exPermStore exJ1 exJ2 exPermJson (by decide) 4 0 true
    (by decide) [""] _ rfl (by decide)).1
/-- … and by running the model on the four combinations -/
example : Go.validate exEnv [""] 4 0 (GoVal.ofJson exJ1) = .ok () := by decide
example : Go.validate exEnv [""] 4 0 (GoVal.ofJson exJ2) = .ok () := by decide
example : Go.validate { exEnv with st := exStore2 } [""] 4 0 (GoVal.ofJson exJ1) = .ok () := by decide
example : Go.validate { exEnv with st := exStore2 } [""] 4 0 (GoVal.ofJson exJ2) = .ok () := by decide

/-- an invalid instance (`a` lacks `x`; `d` is unevaluated) stays invalid -/
def exBad1 : Json := .obj [("a", .obj [("y", .num 2)]), ("d", .null)]
def exBad2 : Json := .obj [("d", .null), ("a", .obj [("y", .num 2)])]
example : Spec.valid (specEnvOf exEnv) 4 0 exBad1 = some false := by decide
example : Go.validate { exEnv with st := exStore2 } [""] 4 0 (GoVal.ofJson exBad2) = .err :=
  (validate_perm_invariant exEnv exEnv_wf exEnv_store exStore2 exPermStore exBad1 exBad2
    (permJson_of_perm _ _ (List.Perm.swap _ _ _)) (by decide) 4 0 false (by decide) [""] _ rfl (by decide)).1

/-- `depRequiredLoop_perm`, `allPresent_perm` applied -/
example (kvs : List (String × GoVal)) :
    Go.depRequiredLoop kvs [("a", some ["b"]), ("b", some ["a"])] = Go.depRequiredLoop kvs [("b", some ["a"]), ("a", some ["b"])] :=
  depRequiredLoop_perm kvs _ _ (List.Perm.swap _ _ _)
example (kvs : List (String × GoVal)) : Go.allPresent kvs ["x", "y"] = Go.allPresent kvs ["y", "x"] :=
  allPresent_perm kvs _ _ (List.Perm.swap _ _ _)

/-- Resolve on the two stores: the info tables come out in different orders (1 before 2, 2 before 1) … -/
def exREnv : Go.Env := { st := exStore1, reOk := fun _ => true, loader := none }
example : ((Go.resolve exREnv 3 0 "").bind fun rs => .ok (rs.infos.map (·.1))) = .ok [0, 3, 1, 2, 4, 5] := by
  decide +kernel
example : ((Go.resolve { exREnv with st := exStore2 } 3 0 "").bind fun rs => .ok (rs.infos.map (·.1))) =
    .ok [0, 3, 2, 1, 4, 5] := by
  decide +kernel
/-- … and `resolve_perm_invariant` applied: as maps they are the same -/
example (a b : Resolved) (ha : Go.resolve exREnv 3 0 "" = .ok a)
    (hb : Go.resolve { exREnv with st := exStore2 } 3 0 "" = .ok b) (id : NodeId) :
    Go.lookupNat id b.infos = Go.lookupNat id a.infos := by
  have h := resolve_perm_invariant exREnv exStore2 exPermStore
    (Go.RPerm.storeKeysNodup_of_check _ (by decide)) 3 0 ""
  rw [ha, hb] at h
  exact h.2.2.2 id

/-! ## why `propertiesLoop_perm` needs decided applications

With a subschema that panics (nil `*Schema` in the map: node 9 does not exist) and one that fails, the first one
met decides: the result depends on the iteration order.  `Resolve` rejects such schemas (checkStructure). -/

example :
    Go.propertiesLoop (Go.validateFuel exEnv 2) [] [("a", .str "s"), ("b", .str "s")] [("a", 1), ("b", 9)] [] = .err ∧
    Go.propertiesLoop (Go.validateFuel exEnv 2) [] [("a", .str "s"), ("b", .str "s")] [("b", 9), ("a", 1)] [] = .panic := by
  decide

end JSV.C14
