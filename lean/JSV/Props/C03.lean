/-
  C03 — loader discipline and resolution invariants (resolve.go).
  Property theorems only; helper lemmas: JSV/Proofs/ResInv.lean (invariants threaded through
  resolveDoc / resolveRefsLoop / resolveRef by open recursion + induction on fuel), ResRefs.lean,
  ResKnown.lean, ResMono.lean, ResUri.lean.
-/
import JSV.Proofs.ResInv
import JSV.Proofs.ResRefs
import JSV.Proofs.ResKnown
import JSV.Proofs.ResMono
import JSV.Proofs.ResUri
namespace JSV.C03
open JSV Go Go.RInv

/-! ## The Loader is asked at most once per URI -/

/-- the call log of a successful resolution has no duplicates -/
theorem loader_at_most_once (env : Env) (fuel : Nat) (root : NodeId) (base : String) (rs : Resolved)
    (h : Go.resolve env fuel root base = .ok rs) : rs.log.Nodup := by
  obtain ⟨s, b, d, hs, _, hlog, _⟩ := resolve_ok env fuel root base rs h
  rw [hlog]
  exact ((resolveDoc_spec env fuel _ _ _ _ _ hs).2.2 (logOk_init.weaken _)).1

/-- the same fact for resolver.resolve entered at any depth: from a state in which no URI was
    loaded twice and every URI handed to the Loader — except the one whose document is being resolved —
    is cached, a successful run ends in such a state, now without the exception -/
theorem loader_discipline (env : Env) (fuel : Nat) (root : NodeId) (base : Uri.Url) (draft : Draft)
    (s s' : RState) (h : resolveDoc env fuel root base draft s = .ok s')
    (hs : s.log.Nodup ∧ ∀ k ∈ s.log, k = Uri.toString base ∨ (Json.lookup k s.loaded).isSome = true) :
    s'.log.Nodup ∧ ∀ k ∈ s'.log, (Json.lookup k s'.loaded).isSome = true := by
  have := (resolveDoc_spec env fuel _ _ _ _ _ h).2.2
    ⟨hs.1, fun k hk => (hs.2 k hk).imp (fun e => by rw [e]) id⟩
  exact ⟨this.1, fun k hk => (this.2 k hk).resolve_left (by simp)⟩

/-- the log only grows (at its end) -/
theorem log_prefix (env : Env) (fuel : Nat) (root : NodeId) (base : Uri.Url) (draft : Draft)
    (s s' : RState) (h : resolveDoc env fuel root base draft s = .ok s') :
    ∃ l, s'.log = s.log ++ l :=
  (resolveDoc_spec env fuel _ _ _ _ _ h).1.1

/-- `loaded` only grows: a cached URI is never dropped -/
theorem loaded_monotone (env : Env) (fuel : Nat) (root : NodeId) (base : Uri.Url) (draft : Draft)
    (s s' : RState) (h : resolveDoc env fuel root base draft s = .ok s') (k : String)
    (hk : (Json.lookup k s.loaded).isSome = true) : (Json.lookup k s'.loaded).isSome = true :=
  (resolveDoc_spec env fuel _ _ _ _ _ h).1.2 k hk

/-- the document being resolved is cached under its base URI when resolver.resolve returns -/
theorem loaded_after_resolve (env : Env) (fuel : Nat) (root : NodeId) (base : Uri.Url) (draft : Draft)
    (s s' : RState) (h : resolveDoc env fuel root base draft s = .ok s') :
    (Json.lookup (Uri.toString base) s'.loaded).isSome = true := by
  cases fuel with
  | zero => simp [resolveDoc] at h
  | succ fuel => exact resolveDocStep_loaded env _ (resolveDoc_spec env fuel) _ _ _ _ _ h

/-! ## Fuel is only a bound

(The other half of `resolve_fuel_enough` — that the number of loader table entries + 1 suffices — is
`C10.resolve_no_fuel` in JSV/Props/C10.lean, with the termination arguments of checkStructure / resolveURIs
over a tree in JSV/Proofs/ResNoFuel.lean.) -/

/-- more fuel refines the outcome in the information order (`.fuel` below everything) -/
theorem resolve_fuel_mono (env : Env) (f f' : Nat) (h : f ≤ f') (root : NodeId) (base : String) :
    Go.resolve env f root base ⊑ Go.resolve env f' root base :=
  resolve_mono env f f' h root base

/-- an outcome other than `.fuel` (success, error, panic) is final: it is the outcome for every
    larger fuel -/
theorem resolve_fuel_stable (env : Env) (f f' : Nat) (h : f ≤ f') (root : NodeId) (base : String)
    (hne : Go.resolve env f root base ≠ .fuel) :
    Go.resolve env f' root base = Go.resolve env f root base :=
  ((resolve_mono env f f' h root base).resolve_left hne).symm

/-! ## Resolved references point into the store -/

/-- one call of resolveRef: the schema it returns exists (JSON Pointer fragments: because a nil
    `*Schema` at the end of the walk is an error; anchors: because only existing schemas are registered) -/
theorem resolveRef_target_exists (env : Env) (fuel : Nat) (root : NodeId) (s : RState) (id : NodeId)
    (ref : String) (o : RefOut) (s' : RState)
    (hs : InfosOk env.st s.infos)
    (h : resolveRef env (resolveDoc env fuel) root s id ref = .ok (o, s')) :
    (env.st.get? o.target).isSome = true :=
  ((resolveRef_spec env _ (resolveDoc_spec env fuel) _ _ _ _ _ _ h).2.1 hs).2

/-- a successful resolution only records targets that exist in the store: `$ref`, `$dynamicRef`
    and anchors -/
theorem resolved_refs_exist_partial (env : Env) (fuel : Nat) (root : NodeId) (base : String) (rs : Resolved)
    (h : Go.resolve env fuel root base = .ok rs) :
    ∀ e ∈ rs.infos,
      (∀ t, e.2.resolvedRef = some t → (env.st.get? t).isSome = true) ∧
      (∀ t, e.2.resolvedDynamicRef = some t → (env.st.get? t).isSome = true) ∧
      (∀ a ∈ e.2.anchors, (env.st.get? a.2.schema).isSome = true) := by
  obtain ⟨s, b, d, hs, _, _, hinfos⟩ := resolve_ok env fuel root base rs h
  have := (resolveDoc_spec env fuel _ _ _ _ _ hs).2.1 (infosOk_init env.st)
  intro e he
  rw [hinfos] at he
  have := this e (List.mem_filter.mp he).1
  exact ⟨this.2.1, this.2.2, this.1⟩

/-- completeness: every schema of `root.all()` that carries a `$ref` has, in the table of the
    successful resolution, an info object with a target, and the target exists.  (The table is searched
    with `lookupNat`, i.e. the first entry for the schema — see the counterexample below for why plain
    membership is not enough.) -/
theorem resolved_refs_complete (env : Env) (fuel : Nat) (root : NodeId) (base : String) (rs : Resolved)
    (h : Go.resolve env fuel root base = .ok rs) :
    ∀ id ∈ allNodes env.st (env.st.size + 2) [root], ∀ n, env.st.get? id = some n → n.ref ≠ "" →
      ∃ info t, lookupNat id rs.infos = some info ∧ info.resolvedRef = some t ∧
        (env.st.get? t).isSome = true := by
  obtain ⟨s, b, d, hs, hd, _, hinfos⟩ := resolve_ok env fuel root base rs h
  intro id hid n hn hne
  cases fuel with
  | zero => simp [resolveDoc] at hs
  | succ fuel =>
    obtain ⟨info, t, hl, ht⟩ :=
      (resolveDocStep_keeps env _ (resolveDoc_keeps env fuel) _ _ _ _ _ hs).2 id hid n hn hne
    have hok := (resolveDoc_spec env (fuel + 1) _ _ _ _ _ hs).2.1 (infosOk_init env.st)
    obtain ⟨hdocs, fresh, hfresh⟩ :=
      resolveDocStep_docs env _ (resolveDoc_docs env fuel) _ _ _ _ _ hs (docsOk_init env)
    have hknown : d.known.contains id = true :=
      hdocs root d hd fresh hfresh id (allNodes_sub_checkStructure env.st _ _ root fresh hfresh id hid)
    refine ⟨info, t, ?_, ht, (hok _ (lookupNat_mem _ _ _ hl)).2.1 t ht⟩
    rw [hinfos, lookupNat_filter_key id (fun x => d.known.contains x) s.infos hknown]
    exact hl

/-- the schemas met by `root.all()` are all in the table of the resolution -/
theorem all_nodes_known (env : Env) (fuel : Nat) (root : NodeId) (base : String) (rs : Resolved)
    (h : Go.resolve env fuel root base = .ok rs) :
    ∀ id ∈ allNodes env.st (env.st.size + 2) [root], (lookupNat id rs.infos).isSome = true := by
  obtain ⟨s, b, d, hs, hd, _, hinfos⟩ := resolve_ok env fuel root base rs h
  intro id hid
  cases fuel with
  | zero => simp [resolveDoc] at hs
  | succ fuel =>
    obtain ⟨hdocs, fresh, hfresh⟩ :=
      resolveDocStep_docs env _ (resolveDoc_docs env fuel) _ _ _ _ _ hs (docsOk_init env)
    have hmem := allNodes_sub_checkStructure env.st _ (env.st.size + 2) root fresh hfresh id hid
    have hknown : d.known.contains id = true := hdocs root d hd fresh hfresh id hmem
    rw [hinfos, lookupNat_filter_key id (fun x => d.known.contains x) s.infos hknown]
    exact resolveDocStep_table env _ (resolveDoc_keeps env fuel) _ _ _ _ _ hs fresh hfresh id hmem

/-! ## The hypotheses are satisfiable on non-trivial data

`{"$id":"http://a/root.json","allOf":[{"$ref":"other.json#/$defs/x"},{"$ref":"other.json"}]}` with a
Loader that serves `http://a/other.json` = `{"$defs":{"x":{"type":"string"}}}`: two references into
the same remote document, one Loader call. -/

def exStore : Store := #[
  { id := "http://a/root.json", allOf := some [1, 2] },
  { ref := "other.json#/$defs/x" },
  { ref := "other.json" },
  { defs := some [("x", 4)] },
  { type := "string" } ]

def exEnv : Env :=
  { st := exStore, reOk := fun _ => true, loader := some [("http://a/other.json", .doc 3)] }

example : ((Go.resolve exEnv 5 0 "").bind fun rs =>
      .ok (rs.log, rs.infos.map fun e => (e.1, e.2.resolvedRef))) =
    .ok (["http://a/other.json"], [(0, none), (1, some 4), (2, some 3), (3, none), (4, none)]) := by
  decide +kernel

/-- fuel = nesting depth of loader documents + 1: one unit is not enough here, two are -/
example : ((Go.resolve exEnv 1 0 "").bind fun rs => .ok rs.log) = .fuel := by decide +kernel
example : ((Go.resolve exEnv 2 0 "").bind fun rs => .ok rs.log) = .ok ["http://a/other.json"] := by
  decide +kernel

/-- without a Loader the same resolution fails (and so says nothing) -/
example : (Go.resolve { exEnv with loader := none } 5 0 "").isOk = false := by decide +kernel

/-! ## `resolved_refs_exist` as first stated is false in the model

Statement: every `$ref`-bearing schema in the table of a successful resolution has a recorded target.
Counterexample: a Loader that returns the *same* document object for two URIs (the model's
assumption "fresh nodes per loader document" is violated).  The second visit appends a second,
never updated, info entry for schema 3.  What holds without that assumption is
`resolved_refs_exist_partial` (every recorded target exists) and `resolved_refs_complete` (the first
table entry — the one Go's map lookup corresponds to — of every `$ref`-bearing schema of `root.all()`
has a target) above; what is missing for the statement with plain membership and for the schemas of
the other loaded documents is an Env well-formedness hypothesis (distinct, disjoint loader
documents). -/

def cxStore : Store := #[
  { id := "http://a/root.json", allOf := some [1, 2] },
  { ref := "x" },
  { ref := "y" },
  { ref := "#" } ]

def cxEnv : Env :=
  { st := cxStore, reOk := fun _ => true,
    loader := some [("http://a/x", .doc 3), ("http://a/y", .doc 3)] }

example : ((Go.resolve cxEnv 5 0 "").bind fun rs =>
      .ok (rs.log, rs.infos.map fun e => (e.1, e.2.resolvedRef))) =
    .ok (["http://a/x", "http://a/y"], [(0, none), (1, some 3), (2, some 3), (3, some 3), (3, none)]) := by
  decide +kernel

example : ¬ (∀ rs, Go.resolve cxEnv 5 0 "" = .ok rs →
    ∀ id info n, (id, info) ∈ rs.infos → cxEnv.st.get? id = some n → n.ref ≠ "" →
      ∃ t, info.resolvedRef = some t ∧ (cxEnv.st.get? t).isSome = true) := by
  intro H
  have hc : (match Go.resolve cxEnv 5 0 "" with
      | .ok rs => rs.infos.any fun e => e.1 == 3 && e.2.resolvedRef.isNone
      | _ => false) = true := by decide +kernel
  cases hr : Go.resolve cxEnv 5 0 "" with
  | ok rs =>
    rw [hr] at hc
    simp only [List.any_eq_true] at hc
    obtain ⟨⟨id, info⟩, hmem, hp⟩ := hc
    simp only [Bool.and_eq_true, beq_iff_eq, Option.isNone_iff_eq_none] at hp
    obtain ⟨hid, hnone⟩ := hp
    subst hid
    obtain ⟨t, ht, _⟩ := H rs hr 3 info { ref := "#" } hmem rfl (by decide)
    rw [hnone] at ht
    exact absurd ht (by simp)
  | fuel => rw [hr] at hc; exact absurd hc (by simp)
  | panic => rw [hr] at hc; exact absurd hc (by simp)
  | err => rw [hr] at hc; exact absurd hc (by simp)

/-! ## Tests of the URL model against RFC 3986 §5.4 (reference resolution examples) -/

section rfc3986_examples
open Uri

/-- §5.4.1 normal examples, base `http://a/b/c/d;p?q` -/
example : resolveStr "http://a/b/c/d;p?q" "g:h" = .ok "g:h" := by decide +kernel
example : resolveStr "http://a/b/c/d;p?q" "g" = .ok "http://a/b/c/g" := by decide +kernel
example : resolveStr "http://a/b/c/d;p?q" "./g" = .ok "http://a/b/c/g" := by decide +kernel
example : resolveStr "http://a/b/c/d;p?q" "g/" = .ok "http://a/b/c/g/" := by decide +kernel
example : resolveStr "http://a/b/c/d;p?q" "/g" = .ok "http://a/g" := by decide +kernel
example : resolveStr "http://a/b/c/d;p?q" "//g" = .ok "http://g" := by decide +kernel
example : resolveStr "http://a/b/c/d;p?q" "?y" = .ok "http://a/b/c/d;p?y" := by decide +kernel
example : resolveStr "http://a/b/c/d;p?q" "g?y" = .ok "http://a/b/c/g?y" := by decide +kernel
example : resolveStr "http://a/b/c/d;p?q" "#s" = .ok "http://a/b/c/d;p?q#s" := by decide +kernel
example : resolveStr "http://a/b/c/d;p?q" "g#s" = .ok "http://a/b/c/g#s" := by decide +kernel
example : resolveStr "http://a/b/c/d;p?q" "g?y#s" = .ok "http://a/b/c/g?y#s" := by decide +kernel
example : resolveStr "http://a/b/c/d;p?q" ";x" = .ok "http://a/b/c/;x" := by decide +kernel
example : resolveStr "http://a/b/c/d;p?q" "g;x" = .ok "http://a/b/c/g;x" := by decide +kernel
example : resolveStr "http://a/b/c/d;p?q" "g;x?y#s" = .ok "http://a/b/c/g;x?y#s" := by decide +kernel
example : resolveStr "http://a/b/c/d;p?q" "" = .ok "http://a/b/c/d;p?q" := by decide +kernel
example : resolveStr "http://a/b/c/d;p?q" "." = .ok "http://a/b/c/" := by decide +kernel
example : resolveStr "http://a/b/c/d;p?q" "./" = .ok "http://a/b/c/" := by decide +kernel
example : resolveStr "http://a/b/c/d;p?q" ".." = .ok "http://a/b/" := by decide +kernel
example : resolveStr "http://a/b/c/d;p?q" "../" = .ok "http://a/b/" := by decide +kernel
example : resolveStr "http://a/b/c/d;p?q" "../g" = .ok "http://a/b/g" := by decide +kernel
example : resolveStr "http://a/b/c/d;p?q" "../.." = .ok "http://a/" := by decide +kernel
example : resolveStr "http://a/b/c/d;p?q" "../../" = .ok "http://a/" := by decide +kernel
example : resolveStr "http://a/b/c/d;p?q" "../../g" = .ok "http://a/g" := by decide +kernel

/-- §5.4.2 abnormal examples -/
example : resolveStr "http://a/b/c/d;p?q" "../../../g" = .ok "http://a/g" := by decide +kernel
example : resolveStr "http://a/b/c/d;p?q" "../../../../g" = .ok "http://a/g" := by decide +kernel
example : resolveStr "http://a/b/c/d;p?q" "/./g" = .ok "http://a/g" := by decide +kernel
example : resolveStr "http://a/b/c/d;p?q" "/../g" = .ok "http://a/g" := by decide +kernel
example : resolveStr "http://a/b/c/d;p?q" "g." = .ok "http://a/b/c/g." := by decide +kernel
example : resolveStr "http://a/b/c/d;p?q" ".g" = .ok "http://a/b/c/.g" := by decide +kernel
example : resolveStr "http://a/b/c/d;p?q" "g.." = .ok "http://a/b/c/g.." := by decide +kernel
example : resolveStr "http://a/b/c/d;p?q" "..g" = .ok "http://a/b/c/..g" := by decide +kernel
example : resolveStr "http://a/b/c/d;p?q" "./../g" = .ok "http://a/b/g" := by decide +kernel
example : resolveStr "http://a/b/c/d;p?q" "./g/." = .ok "http://a/b/c/g/" := by decide +kernel
example : resolveStr "http://a/b/c/d;p?q" "g/./h" = .ok "http://a/b/c/g/h" := by decide +kernel
example : resolveStr "http://a/b/c/d;p?q" "g/../h" = .ok "http://a/b/c/h" := by decide +kernel
example : resolveStr "http://a/b/c/d;p?q" "g;x=1/./y" = .ok "http://a/b/c/g;x=1/y" := by decide +kernel
example : resolveStr "http://a/b/c/d;p?q" "g;x=1/../y" = .ok "http://a/b/c/y" := by decide +kernel
example : resolveStr "http://a/b/c/d;p?q" "g?y/./x" = .ok "http://a/b/c/g?y/./x" := by decide +kernel
example : resolveStr "http://a/b/c/d;p?q" "g?y/../x" = .ok "http://a/b/c/g?y/../x" := by decide +kernel
example : resolveStr "http://a/b/c/d;p?q" "g#s/./x" = .ok "http://a/b/c/g#s/./x" := by decide +kernel
example : resolveStr "http://a/b/c/d;p?q" "g#s/../x" = .ok "http://a/b/c/g#s/../x" := by decide +kernel
/-- strict parsers keep the scheme-only reference -/
example : resolveStr "http://a/b/c/d;p?q" "http:g" = .ok "http:g" := by decide +kernel

end rfc3986_examples

end JSV.C03
