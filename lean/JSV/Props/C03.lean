/-
  C03 — loader discipline and resolution invariants (resolve.go).
  Property theorems only; helper lemmas: JSV/Proofs/ResInv.lean (invariants threaded through
  resolveDoc / resolveRefsLoop / resolveRef by open recursion + induction on fuel), ResRefs.lean,
  ResKnown.lean, ResMono.lean, ResUri.lean; for the designation theorems (the
  declarative side is JSV/Spec/Designate.lean) ResTree.lean, ResDesig.lean, ResDesigRefs.lean; for the
  converse (a reference that designates nothing is an error, and nothing else is: hypotheses in
  JSV/Spec/WellFormed.lean) ResComplete.lean, ResCompleteUris.lean, ResCompleteRefs.lean, ResCompleteMulti.lean
  (with a Loader), ResCompleteWF.lean (checkers, certificates).
-/
import JSV.Proofs.ResInv
import JSV.Proofs.ResRefs
import JSV.Proofs.ResKnown
import JSV.Proofs.ResMono
import JSV.Proofs.ResUri
import JSV.Proofs.ResDesigRefs
import JSV.Proofs.ResDesigMulti
import JSV.Proofs.ResCompleteRefs
import JSV.Proofs.ResCompleteMulti
import JSV.Proofs.ResCompleteWF
namespace JSV.C03
open JSV Go Go.RInv

/-! ## The Loader is asked at most once per URI -/

/-- the call log of a successful resolution has no duplicates -/
theorem loader_at_most_once (env : Env) (fuel : Nat) (root : NodeId) (base : String) (rs : Resolved)
    (h : Go.resolve env fuel root base = .ok rs) : rs.log.Nodup := by
  obtain ⟨s, b, d, hs, _, hlog, _⟩ := resolve_ok env fuel root base rs h
  rw [hlog]
  exact ((resolveDoc_spec env fuel _ _ _ _ _ hs).2.2 (logOk_init.weaken _)).1

/-- the same fact for resolver.resolve entered at any depth: from a state in which no URI was
    loaded twice and every URI handed to the Loader — except the one whose document is being resolved —
    is cached, a successful run ends in such a state, now without the exception -/
theorem loader_discipline (env : Env) (fuel : Nat) (root : NodeId) (base : Uri.Url) (draft : Draft)
    (s s' : RState) (h : resolveDoc env fuel root base draft s = .ok s')
    (hs : s.log.Nodup ∧ ∀ k ∈ s.log, k = Uri.toString base ∨ (Json.lookup k s.loaded).isSome = true) :
    s'.log.Nodup ∧ ∀ k ∈ s'.log, (Json.lookup k s'.loaded).isSome = true := by
  have := (resolveDoc_spec env fuel _ _ _ _ _ h).2.2
    ⟨hs.1, fun k hk => (hs.2 k hk).imp (fun e => by rw [e]) id⟩
  exact ⟨this.1, fun k hk => (this.2 k hk).resolve_left (by simp)⟩

/-- the log only grows (at its end) -/
theorem log_prefix (env : Env) (fuel : Nat) (root : NodeId) (base : Uri.Url) (draft : Draft)
    (s s' : RState) (h : resolveDoc env fuel root base draft s = .ok s') :
    ∃ l, s'.log = s.log ++ l :=
  (resolveDoc_spec env fuel _ _ _ _ _ h).1.1

/-- `loaded` only grows: a cached URI is never dropped -/
theorem loaded_monotone (env : Env) (fuel : Nat) (root : NodeId) (base : Uri.Url) (draft : Draft)
    (s s' : RState) (h : resolveDoc env fuel root base draft s = .ok s') (k : String)
    (hk : (Json.lookup k s.loaded).isSome = true) : (Json.lookup k s'.loaded).isSome = true :=
  (resolveDoc_spec env fuel _ _ _ _ _ h).1.2 k hk

/-- the document being resolved is cached under its base URI when resolver.resolve returns -/
theorem loaded_after_resolve (env : Env) (fuel : Nat) (root : NodeId) (base : Uri.Url) (draft : Draft)
    (s s' : RState) (h : resolveDoc env fuel root base draft s = .ok s') :
    (Json.lookup (Uri.toString base) s'.loaded).isSome = true := by
  cases fuel with
  | zero => simp [resolveDoc] at h
  | succ fuel => exact resolveDocStep_loaded env _ (resolveDoc_spec env fuel) _ _ _ _ _ h

/-! ## Fuel is only a bound

(The other half of `resolve_fuel_enough` — that the number of loader table entries + 1 suffices — is
`C10.resolve_no_fuel` in JSV/Props/C10.lean, with the termination arguments of checkStructure / resolveURIs
over a tree in JSV/Proofs/ResNoFuel.lean.) -/

/-- more fuel refines the outcome in the information order (`.fuel` below everything) -/
theorem resolve_fuel_mono (env : Env) (f f' : Nat) (h : f ≤ f') (root : NodeId) (base : String) :
    Go.resolve env f root base ⊑ Go.resolve env f' root base :=
  resolve_mono env f f' h root base

/-- an outcome other than `.fuel` (success, error, panic) is final: it is the outcome for every
    larger fuel -/
theorem resolve_fuel_stable (env : Env) (f f' : Nat) (h : f ≤ f') (root : NodeId) (base : String)
    (hne : Go.resolve env f root base ≠ .fuel) :
    Go.resolve env f' root base = Go.resolve env f root base :=
  ((resolve_mono env f f' h root base).resolve_left hne).symm

/-! ## Resolved references point into the store -/

/-- one call of resolveRef: the schema it returns exists (JSON Pointer fragments: because a nil
    `*Schema` at the end of the walk is an error; anchors: because only existing schemas are registered) -/
theorem resolveRef_target_exists (env : Env) (fuel : Nat) (root : NodeId) (s : RState) (id : NodeId)
    (ref : String) (o : RefOut) (s' : RState)
    (hs : InfosOk env.st s.infos)
    (h : resolveRef env (resolveDoc env fuel) root s id ref = .ok (o, s')) :
    (env.st.get? o.target).isSome = true :=
  ((resolveRef_spec env _ (resolveDoc_spec env fuel) _ _ _ _ _ _ h).2.1 hs).2

/-- a successful resolution only records targets that exist in the store: `$ref`, `$dynamicRef`
    and anchors -/
theorem resolved_refs_exist_partial (env : Env) (fuel : Nat) (root : NodeId) (base : String) (rs : Resolved)
    (h : Go.resolve env fuel root base = .ok rs) :
    ∀ e ∈ rs.infos,
      (∀ t, e.2.resolvedRef = some t → (env.st.get? t).isSome = true) ∧
      (∀ t, e.2.resolvedDynamicRef = some t → (env.st.get? t).isSome = true) ∧
      (∀ a ∈ e.2.anchors, (env.st.get? a.2.schema).isSome = true) := by
  obtain ⟨s, b, d, hs, _, _, hinfos⟩ := resolve_ok env fuel root base rs h
  have := (resolveDoc_spec env fuel _ _ _ _ _ hs).2.1 (infosOk_init env.st)
  intro e he
  rw [hinfos] at he
  have := this e (List.mem_filter.mp he).1
  exact ⟨this.2.1, this.2.2, this.1⟩

/-- completeness: every schema of `root.all()` that carries a `$ref` has, in the table of the
    successful resolution, an info object with a target, and the target exists.  (The table is searched
    with `lookupNat`, i.e. the first entry for the schema — see the counterexample below for why plain
    membership is not enough.) -/
theorem resolved_refs_complete (env : Env) (fuel : Nat) (root : NodeId) (base : String) (rs : Resolved)
    (h : Go.resolve env fuel root base = .ok rs) :
    ∀ id ∈ allNodes env.st (env.st.size + 2) [root], ∀ n, env.st.get? id = some n → n.ref ≠ "" →
      ∃ info t, lookupNat id rs.infos = some info ∧ info.resolvedRef = some t ∧
        (env.st.get? t).isSome = true := by
  obtain ⟨s, b, d, hs, hd, _, hinfos⟩ := resolve_ok env fuel root base rs h
  intro id hid n hn hne
  cases fuel with
  | zero => simp [resolveDoc] at hs
  | succ fuel =>
    obtain ⟨info, t, hl, ht⟩ :=
      (resolveDocStep_keeps env _ (resolveDoc_keeps env fuel) _ _ _ _ _ hs).2 id hid n hn hne
    have hok := (resolveDoc_spec env (fuel + 1) _ _ _ _ _ hs).2.1 (infosOk_init env.st)
    obtain ⟨hdocs, fresh, hfresh⟩ :=
      resolveDocStep_docs env _ (resolveDoc_docs env fuel) _ _ _ _ _ hs (docsOk_init env)
    have hknown : d.known.contains id = true :=
      hdocs root d hd fresh hfresh id (allNodes_sub_checkStructure env.st _ _ root fresh hfresh id hid)
    refine ⟨info, t, ?_, ht, (hok _ (lookupNat_mem _ _ _ hl)).2.1 t ht⟩
    rw [hinfos, lookupNat_filter_key id (fun x => d.known.contains x) s.infos hknown]
    exact hl

/-- the schemas met by `root.all()` are all in the table of the resolution -/
theorem all_nodes_known (env : Env) (fuel : Nat) (root : NodeId) (base : String) (rs : Resolved)
    (h : Go.resolve env fuel root base = .ok rs) :
    ∀ id ∈ allNodes env.st (env.st.size + 2) [root], (lookupNat id rs.infos).isSome = true := by
  obtain ⟨s, b, d, hs, hd, _, hinfos⟩ := resolve_ok env fuel root base rs h
  intro id hid
  cases fuel with
  | zero => simp [resolveDoc] at hs
  | succ fuel =>
    obtain ⟨hdocs, fresh, hfresh⟩ :=
      resolveDocStep_docs env _ (resolveDoc_docs env fuel) _ _ _ _ _ hs (docsOk_init env)
    have hmem := allNodes_sub_checkStructure env.st _ (env.st.size + 2) root fresh hfresh id hid
    have hknown : d.known.contains id = true := hdocs root d hd fresh hfresh id hmem
    rw [hinfos, lookupNat_filter_key id (fun x => d.known.contains x) s.infos hknown]
    exact resolveDocStep_table env _ (resolveDoc_keeps env fuel) _ _ _ _ _ hs fresh hfresh id hmem

/-! ## The hypotheses are satisfiable on non-trivial data

`{"$id":"http://a/root.json","allOf":[{"$ref":"other.json#/$defs/x"},{"$ref":"other.json"}]}` with a
Loader that serves `http://a/other.json` = `{"$defs":{"x":{"type":"string"}}}`: two references into
the same remote document, one Loader call. -/

def exStore : Store := #[
  { id := "http://a/root.json", allOf := some [1, 2] },
  { ref := "other.json#/$defs/x" },
  { ref := "other.json" },
  { defs := some [("x", 4)] },
  { type := "string" } ]

def exEnv : Env :=
  { st := exStore, reOk := fun _ => true, loader := some [("http://a/other.json", .doc 3)] }

example : ((Go.resolve exEnv 5 0 "").bind fun rs =>
      .ok (rs.log, rs.infos.map fun e => (e.1, e.2.resolvedRef))) =
    .ok (["http://a/other.json"], [(0, none), (1, some 4), (2, some 3), (3, none), (4, none)]) := by
  decide +kernel

/-- fuel = nesting depth of loader documents + 1: one unit is not enough here, two are -/
example : ((Go.resolve exEnv 1 0 "").bind fun rs => .ok rs.log) = .fuel := by decide +kernel
example : ((Go.resolve exEnv 2 0 "").bind fun rs => .ok rs.log) = .ok ["http://a/other.json"] := by
  decide +kernel

/-- without a Loader the same resolution fails (and so says nothing) -/
example : (Go.resolve { exEnv with loader := none } 5 0 "").isOk = false := by decide +kernel

/-! ## `resolved_refs_exist` as first stated is false in the model

Statement: every `$ref`-bearing schema in the table of a successful resolution has a recorded target.
Counterexample: a Loader that returns the *same* document object for two URIs (the model's
assumption "fresh nodes per loader document" is violated).  The second visit appends a second,
never updated, info entry for schema 3.  What holds without that assumption is
`resolved_refs_exist_partial` (every recorded target exists) and `resolved_refs_complete` (the first
table entry — the one Go's map lookup corresponds to — of every `$ref`-bearing schema of `root.all()`
has a target) above; what is missing for the statement with plain membership and for the schemas of
the other loaded documents is an Env well-formedness hypothesis (distinct, disjoint loader
documents). -/

def cxStore : Store := #[
  { id := "http://a/root.json", allOf := some [1, 2] },
  { ref := "x" },
  { ref := "y" },
  { ref := "#" } ]

def cxEnv : Env :=
  { st := cxStore, reOk := fun _ => true,
    loader := some [("http://a/x", .doc 3), ("http://a/y", .doc 3)] }

example : ((Go.resolve cxEnv 5 0 "").bind fun rs =>
      .ok (rs.log, rs.infos.map fun e => (e.1, e.2.resolvedRef))) =
    .ok (["http://a/x", "http://a/y"], [(0, none), (1, some 3), (2, some 3), (3, some 3), (3, none)]) := by
  decide +kernel

example : ¬ (∀ rs, Go.resolve cxEnv 5 0 "" = .ok rs →
    ∀ id info n, (id, info) ∈ rs.infos → cxEnv.st.get? id = some n → n.ref ≠ "" →
      ∃ t, info.resolvedRef = some t ∧ (cxEnv.st.get? t).isSome = true) := by
  intro H
  have hc : (match Go.resolve cxEnv 5 0 "" with
      | .ok rs => rs.infos.any fun e => e.1 == 3 && e.2.resolvedRef.isNone
      | _ => false) = true := by decide +kernel
  cases hr : Go.resolve cxEnv 5 0 "" with
  | ok rs =>
    rw [hr] at hc
    simp only [List.any_eq_true] at hc
    obtain ⟨⟨id, info⟩, hmem, hp⟩ := hc
    simp only [Bool.and_eq_true, beq_iff_eq, Option.isNone_iff_eq_none] at hp
    obtain ⟨hid, hnone⟩ := hp
    subst hid
    obtain ⟨t, ht, _⟩ := H rs hr 3 info { ref := "#" } hmem rfl (by decide)
    rw [hnone] at ht
    exact absurd ht (by simp)
  | fuel => rw [hr] at hc; exact absurd hc (by simp)
  | panic => rw [hr] at hc; exact absurd hc (by simp)
  | err => rw [hr] at hc; exact absurd hc (by simp)

/-! ## Every `$ref` reaches the subschema the specification designates

The declarative side is JSV/Spec/Designate.lean: `Doc.ResourceRoot` (lexical scope of `$id`),
`Doc.BaseUri`, `Doc.AnchorTarget` (plain names), `Doc.FragTarget` (fragment dispatch),
`Doc.Identifies`, `Doc.Designates`.  `D = ⟨store, draft, root⟩` is the document. -/

section designation
open Spec

/-- A document accepted by checkStructure is a tree: every subschema has exactly one lineage from the
    root, hence exactly one schema resource it belongs to. -/
theorem resource_root_unique (st : Store) (draft : Draft) (root : NodeId) (cf : Nat)
    (fresh : List (NodeId × Info)) (hcs : checkStructure st cf [(root, "")] [] = .ok fresh)
    (s r r' : NodeId) (h : (⟨st, draft, root⟩ : Doc).ResourceRoot s r)
    (h' : (⟨st, draft, root⟩ : Doc).ResourceRoot s r') : r = r' :=
  resourceRoot_unique ⟨st, draft, root⟩
    (tree_uniqueLineage ⟨st, draft, root⟩ _ (checkStructure_tree st cf root fresh hcs)) s r r' h h'

/-- A. Lexical scope.  resolveURIs (run, as resolver.resolve does, on a document checkStructure accepted
    and with the root's info initialised with the retrieval URI `ret`) records for every subschema `p`
    of the document, as `Info.base`, the root of the schema resource `p` belongs to — and for that
    resource root, as `Info.uri`, the base URI of `p`. -/
theorem base_is_resource_root (env : Env) (draft : Draft) (root : NodeId) (ret : Uri.Url) (cf : Nat)
    (fresh : List (NodeId × Info)) (hcs : checkStructure env.st cf [(root, "")] [] = .ok fresh)
    (fuel : Nat) (s s' : RState)
    (hroot : ∃ i, lookupNat root s.infos = some i ∧ i.uri = some ret)
    (h : resolveURIsLoop env draft root fuel [(root, root)] s = .ok s') :
    (∀ p r, (⟨env.st, draft, root⟩ : Doc).ResourceRoot p r →
      ∃ i, lookupNat p s'.infos = some i ∧ i.base = some r) ∧
    (∀ p r u, (⟨env.st, draft, root⟩ : Doc).ResourceRoot p r → (⟨env.st, draft, root⟩ : Doc).BaseUri ret p u →
      ∃ i, lookupNat r s'.infos = some i ∧ i.uri = some u) := by
  have := resolveURIs_props env ⟨env.st, draft, root⟩ rfl ret
    (tree_uniqueLineage ⟨env.st, draft, root⟩ _ (checkStructure_tree env.st cf root fresh hcs)) fuel s s' hroot h
  exact ⟨this.1, this.2.1⟩

/-- B (soundness). If the infos of the document's schemas held no anchors before (fresh info objects),
    every entry `a ↦ t` of the anchors of a schema `r` of the document after resolveURIs is a declaration:
    `t` belongs to the resource rooted at `r` and declares the plain name `a` (with that dynamic flag). -/
theorem anchors_sound (env : Env) (draft : Draft) (root : NodeId) (ret : Uri.Url) (cf : Nat)
    (fresh : List (NodeId × Info)) (hcs : checkStructure env.st cf [(root, "")] [] = .ok fresh)
    (fuel : Nat) (s s' : RState)
    (hroot : ∃ i, lookupNat root s.infos = some i ∧ i.uri = some ret)
    (hempty : ∀ b i, lookupNat b s.infos = some i → (⟨env.st, draft, root⟩ : Doc).Has b → i.anchors = [])
    (h : resolveURIsLoop env draft root fuel [(root, root)] s = .ok s') :
    ∀ r i, lookupNat r s'.infos = some i → (⟨env.st, draft, root⟩ : Doc).Has r → ∀ e ∈ i.anchors,
      (⟨env.st, draft, root⟩ : Doc).AnchorTarget r e.1 e.2.schema ∧
      (⟨env.st, draft, root⟩ : Doc).Declares e.2.schema e.1 e.2.dynamic := by
  have := (resolveURIs_props env ⟨env.st, draft, root⟩ rfl ret
    (tree_uniqueLineage ⟨env.st, draft, root⟩ _ (checkStructure_tree env.st cf root fresh hcs)) fuel s s' hroot h).2.2.2
    (by intro b i hi hb e he; rw [hempty b i hi hb] at he; simp at he)
  intro r i hi hr e he
  obtain ⟨h1, h2⟩ := this r i hi hr e he
  exact ⟨⟨h1, _, h2⟩, h2⟩

/-- B (completeness). Every plain name declared by a schema `t` has an entry in the anchors of the
    root `r` of the resource `t` belongs to.  (The entry may belong to another schema of the resource
    that declares the same name: the resolver drops the "duplicate anchor" error.) -/
theorem anchors_complete (env : Env) (draft : Draft) (root : NodeId) (ret : Uri.Url) (cf : Nat)
    (fresh : List (NodeId × Info)) (hcs : checkStructure env.st cf [(root, "")] [] = .ok fresh)
    (fuel : Nat) (s s' : RState)
    (hroot : ∃ i, lookupNat root s.infos = some i ∧ i.uri = some ret)
    (h : resolveURIsLoop env draft root fuel [(root, root)] s = .ok s') :
    ∀ t r a dyn, (⟨env.st, draft, root⟩ : Doc).ResourceRoot t r → (⟨env.st, draft, root⟩ : Doc).Declares t a dyn →
      ∃ i, lookupNat r s'.infos = some i ∧ (Json.lookup a i.anchors).isSome = true :=
  (resolveURIs_props env ⟨env.st, draft, root⟩ rfl ret
    (tree_uniqueLineage ⟨env.st, draft, root⟩ _ (checkStructure_tree env.st cf root fresh hcs)) fuel s s' hroot h).2.2.1

/-- B (exactness). In a document that declares no plain name twice in one resource, the anchors of a
    resource root map `a` to `t` iff `t` is the schema of that resource declaring `a`. -/
theorem anchors_exact (env : Env) (draft : Draft) (root : NodeId) (ret : Uri.Url) (cf : Nat)
    (fresh : List (NodeId × Info)) (hcs : checkStructure env.st cf [(root, "")] [] = .ok fresh)
    (fuel : Nat) (s s' : RState)
    (hroot : ∃ i, lookupNat root s.infos = some i ∧ i.uri = some ret)
    (hempty : ∀ b i, lookupNat b s.infos = some i → (⟨env.st, draft, root⟩ : Doc).Has b → i.anchors = [])
    (h : resolveURIsLoop env draft root fuel [(root, root)] s = .ok s')
    (hnodup : (⟨env.st, draft, root⟩ : Doc).NoDupAnchors)
    (r : NodeId) (i : Info) (hi : lookupNat r s'.infos = some i) (hr : (⟨env.st, draft, root⟩ : Doc).ResourceRoot r r)
    (a : String) (t : NodeId) :
    (∃ ai, Json.lookup a i.anchors = some ai ∧ ai.schema = t) ↔ (⟨env.st, draft, root⟩ : Doc).AnchorTarget r a t := by
  constructor
  · rintro ⟨ai, hl, rfl⟩
    exact (anchors_sound env draft root ret cf fresh hcs fuel s s' hroot hempty h r i hi
      (ResourceRoot.has hr) _ (lookup_mem _ _ _ hl)).1
  · rintro ⟨htr, dyn, hd⟩
    obtain ⟨i', hi', hsome⟩ := anchors_complete env draft root ret cf fresh hcs fuel s s' hroot h t r a dyn htr hd
    rw [hi] at hi'
    simp only [Option.some.injEq] at hi'
    subst hi'
    cases hl : Json.lookup a i.anchors with
    | none => rw [hl] at hsome; simp at hsome
    | some ai =>
      refine ⟨ai, rfl, ?_⟩
      have := (anchors_sound env draft root ret cf fresh hcs fuel s s' hroot hempty h r i hi
        (ResourceRoot.has hr) _ (lookup_mem _ _ _ hl)).1
      exact hnodup r a _ _ this ⟨htr, dyn, hd⟩

/-- C. One call of resolveRef that loads no document (`s'.log = s.log`), in a state in which
    resolveURIs has run for the document (`StaticInv`: ResDesigRefs.lean; resolver.resolve establishes it,
    see `resolve_sound_selfcontained`): the schema returned is the one `ref` designates — the reference is
    resolved against the base URI of `id`, the fragment-less URI identifies a resource `r` of the
    document, and the fragment selects inside `r` (empty: `r`; `/…`: JSON Pointer from `r`; otherwise
    the schema of `r` declaring that plain name).  Never another target. -/
theorem resolveRef_designates (env : Env) (recDoc : ResolveDoc) (hrec : RecSpec env recDoc)
    (draft : Draft) (root : NodeId) (ret : Uri.Url) (s : RState) (id : NodeId) (ref : String)
    (o : RefOut) (s' : RState)
    (hinv : StaticInv ⟨env.st, draft, root⟩ ret s) (hid : (⟨env.st, draft, root⟩ : Doc).Has id)
    (h : resolveRef env recDoc root s id ref = .ok (o, s')) (hlog : s'.log = s.log) :
    (⟨env.st, draft, root⟩ : Doc).Designates ret id ref o.target :=
  (resolveRef_local env recDoc hrec ⟨env.st, draft, root⟩ rfl ret s id ref o s' hinv hid h hlog).2.2

/-- C, in general (documents may be loaded).  In a state satisfying the invariant of all documents
    (`GInv`: ResDesigMulti.lean; `rets r` = the retrieval URI of document `r`), with a Loader satisfying
    the freshness assumption and a recursive resolver satisfying its specification (`RecG`, which
    `resolveDoc env fuel` does: `resolveDoc_G`), the schema resolveRef returns is the designated one among
    the documents resolved when it returns. -/
theorem resolveRef_designates_among (env : Env) (top : NodeId) (recDoc : ResolveDoc)
    (hrec : RecG env top recDoc) (hfresh : LoaderFresh env top) (rets : NodeId → Uri.Url) (s : RState)
    (root id : NodeId) (ref : String) (o : RefOut) (s' : RState) (hg : GInv env top rets s)
    (hid : Reach env.st root id) (h : resolveRef env recDoc root s id ref = .ok (o, s')) :
    ∃ rets' d, s.doc? root = some d ∧ GInv env top rets' s' ∧
      DesignatesAmong (docsOf env rets' s') ⟨env.st, d.draft, root⟩ (rets root) id ref o.target := by
  obtain ⟨rets', d, hag, hg', _, _, _, hd, hdes⟩ :=
    resolveRef_G env top recDoc hrec hfresh rets s root id ref o s' hg hid h
  refine ⟨rets', d, hd, hg', ?_⟩
  have := gDesig_among env rets' s' _ id ref o.target hdes
  rw [show (⟨env.st, d.draft, root⟩ : Doc).root = root from rfl,
    hag root (by unfold Registered; rw [hd]; rfl)] at this
  exact this

/-- resolveRef unfolded into table lookups, without any hypothesis: which resource the fragment-less
    URI is looked up to (`Located`: the document's `uris`, else the `loaded` cache, else the Loader
    followed by the recursive resolution) and the fragment dispatch with the anchors read from the
    table (`TableFrag`). -/
theorem resolveRef_lookup (env : Env) (recDoc : ResolveDoc) (root : NodeId) (s : RState)
    (id : NodeId) (ref : String) (o : RefOut) (s' : RState)
    (h : resolveRef env recDoc root s id ref = .ok (o, s')) :
    ∃ refURI info base bInfo bu d r,
      Uri.parse ref = .ok refURI ∧ s.info? root id = some info ∧ info.base = some base ∧
      s.info? root base = some bInfo ∧ bInfo.uri = some bu ∧ s.doc? root = some d ∧
      Located env recDoc root s d (Uri.resolveReference bu refURI) r s' ∧
      TableFrag env s' root r (Uri.resolveReference bu refURI).fragment o :=
  resolveRef_unfold env recDoc root s id ref o s' h

/-- D, for resolutions that load no other document (`rs.log = []`; in particular every
    self-contained document), without any assumption on the Loader: every `$ref` of `root.all()` has a
    recorded target and it is the schema the reference designates, with `b` = the parsed base URI option
    (or the empty URL) as retrieval URI.  (`resolve_sound` below is the statement for resolutions
    that load documents.) -/
theorem resolve_sound_selfcontained (env : Env) (fuel : Nat) (root : NodeId) (base : String) (rs : Resolved)
    (h : Go.resolve env fuel root base = .ok rs) (hlog : rs.log = []) :
    ∃ b, retrievalOf base = .ok b ∧
      ∀ id ∈ allNodes env.st (env.st.size + 2) [root], ∀ n, env.st.get? id = some n → n.ref ≠ "" →
        ∃ info t, lookupNat id rs.infos = some info ∧ info.resolvedRef = some t ∧
          (⟨env.st, rs.draft, root⟩ : Doc).Designates b id n.ref t := by
  obtain ⟨s, b, d, hb, hd, hdr, hinfos, ⟨fresh, hfresh, hknown⟩, hinv, hok⟩ :=
    resolve_local env fuel root base rs h hlog
  refine ⟨b, hb, ?_⟩
  intro id hid n hn hne
  obtain ⟨info, t, hi, ht, hdes⟩ := hok id hid n hn hne
  refine ⟨info, t, ?_, ht, hdes⟩
  rw [hinfos, lookupNat_filter_key id (fun x => d.known.contains x) s.infos
    (hknown id (allNodes_sub_checkStructure env.st _ _ root fresh hfresh id hid))]
  exact hi

/-- D, in general.  Assumption (`LoaderFresh`, the model's "fresh nodes per document"): the Loader's
    documents share no schema object with the root document or with each other.  Then every `$ref` of
    `root.all()` (and, as its initial lexical target, every `$dynamicRef` — when the root document is read under
    2020-12, `rs.draft = .d2020`: under draft-07 `$dynamicRef` is an unknown keyword and is not resolved) has a recorded target, and it
    is the designated one among the documents the resolution
    touched (`docs`: the root document with the retrieval URI `b`, and Loader documents, each with the
    URI it was loaded from): the reference is resolved against the base URI of its schema; the
    fragment-less URI identifies a resource of the root document, or the root of one of `docs`; the
    fragment selects inside that document. -/
theorem resolve_sound (env : Env) (fuel : Nat) (root : NodeId) (base : String) (rs : Resolved)
    (hfresh : LoaderFresh env root) (h : Go.resolve env fuel root base = .ok rs) :
    ∃ b docs, retrievalOf base = .ok b ∧
      (∀ e ∈ docs, e.1.st = env.st ∧ ((e.1.root = root ∧ e.2 = b) ∨
        ∃ tbl, env.loader = some tbl ∧ Json.lookup (Uri.toString e.2) tbl = some (.doc e.1.root))) ∧
      ∀ id ∈ allNodes env.st (env.st.size + 2) [root], ∀ n, env.st.get? id = some n →
        (n.ref ≠ "" → ∃ info t, lookupNat id rs.infos = some info ∧ info.resolvedRef = some t ∧
          DesignatesAmong docs ⟨env.st, rs.draft, root⟩ b id n.ref t) ∧
        (rs.draft = .d2020 → n.dynamicRef ≠ "" →
          ∃ info t, lookupNat id rs.infos = some info ∧ info.resolvedDynamicRef = some t ∧
          DesignatesAmong docs ⟨env.st, rs.draft, root⟩ b id n.dynamicRef t) := by
  obtain ⟨s, b, d, rets, hb, hret, _, _, hg, hok⟩ := resolve_G env fuel root base rs hfresh h
  refine ⟨b, docsOf env rets s, hb, ?_, ?_⟩
  · have := docsOf_spec env root rets s hg
    rw [hret] at this
    exact this
  · intro id hid n hn
    obtain ⟨h1, h2⟩ := hok id hid n hn
    constructor
    · intro hne
      obtain ⟨info, t, hi, ht, hdes⟩ := h1 hne
      have := gDesig_among env rets s _ id n.ref t hdes
      rw [show (⟨env.st, rs.draft, root⟩ : Doc).root = root from rfl, hret] at this
      exact ⟨info, t, hi, ht, this⟩
    · intro h20 hne
      obtain ⟨info, t, hi, ht, hdes⟩ := h2 h20 hne
      have := gDesig_among env rets s _ id n.dynamicRef t hdes
      rw [show (⟨env.st, rs.draft, root⟩ : Doc).root = root from rfl, hret] at this
      exact ⟨info, t, hi, ht, this⟩

end designation

/-! ### The designation theorems on non-trivial data

`{"$id":"http://a/root.json","$defs":{"a":{"$anchor":"foo"},"b":{"$id":"sub.json","$defs":{"c":{"$anchor":"foo"}},
"items":{"$ref":"#foo"}}},"allOf":[{"$ref":"#foo"},{"$ref":"sub.json#foo"},{"$ref":"sub.json#/$defs/c"}]}`:
an embedded resource (`$id` in a subschema) with an anchor inside it and an anchor of the same name
outside it.  The Spec's designations, computed from the definitions, agree with what Go.resolve records. -/

section designation_examples
open Spec


def dsStore : Store := #[
  { id := "http://a/root.json", defs := some [("a", 1), ("b", 2)], allOf := some [3, 4, 5] },  -- 0
  { anchor := "foo" },                                                                          -- 1
  { id := "sub.json", defs := some [("c", 6)], items := some 7 },                              -- 2
  { ref := "#foo" },                                                                            -- 3
  { ref := "sub.json#foo" },                                                                    -- 4
  { ref := "sub.json#/$defs/c" },                                                               -- 5
  { anchor := "foo" },                                                                          -- 6
  { ref := "#foo" } ]                                                                           -- 7

def dsEnv : Env := { st := dsStore, reOk := fun _ => true, loader := none }
def dsDoc : Doc := ⟨dsStore, .d2020, 0⟩

example : ((Go.resolve dsEnv 1 0 "").bind fun rs =>
      .ok (rs.log, rs.infos.map fun e => (e.1, e.2.base, e.2.resolvedRef))) =
    .ok ([], [(0, some 0, none), (1, some 0, none), (2, some 2, none), (6, some 2, none), (7, some 2, some 6),
      (3, some 0, some 1), (4, some 0, some 6), (5, some 0, some 6)]) := by
  decide +kernel

example : dsDoc.ResourceRoot 6 2 := ⟨[2, 6], by decide +kernel, by decide +kernel⟩
example : dsDoc.ResourceRoot 1 0 := ⟨[1], by decide +kernel, by decide +kernel⟩
example : dsDoc.ResourceRoot 2 2 := ⟨[2], by decide +kernel, by decide +kernel⟩
example : dsDoc.ResourceRoot 7 2 := ⟨[2, 7], by decide +kernel, by decide +kernel⟩
example : dsDoc.AnchorTarget 2 "foo" 6 :=
  ⟨⟨[2, 6], by decide +kernel, by decide +kernel⟩, false, _, rfl, by decide +kernel⟩
example : dsDoc.AnchorTarget 0 "foo" 1 :=
  ⟨⟨[1], by decide +kernel, by decide +kernel⟩, false, _, rfl, by decide +kernel⟩
example : dsDoc.FragTarget 2 "foo" 6 := by
  unfold Doc.FragTarget
  rw [if_neg (by decide +kernel), if_neg (by decide +kernel)]
  exact ⟨⟨[2, 6], by decide +kernel, by decide +kernel⟩, false, _, rfl, by decide +kernel⟩
example : dsDoc.FragTarget 2 "/$defs/c" 6 := by
  unfold Doc.FragTarget
  rw [if_neg (by decide +kernel), if_pos (by decide +kernel)]
  decide +kernel
example : dsDoc.FragTarget 2 "" 2 := by
  unfold Doc.FragTarget
  rw [if_pos rfl]
example : Uri.toString (baseUriAlong dsDoc {} [2, 7]) = "http://a/sub.json" := by decide +kernel
example : Uri.toString (baseUriAlong dsDoc {} [3]) = "http://a/root.json" := by decide +kernel
/-- `resolve_sound_selfcontained` applies to the run above and yields, for the reference in schema 7 (inside the
    embedded resource), a designation whose target is the recorded one, 6 — not the `foo` of the root
    resource, 1 -/
example : dsDoc.Designates {} 7 "#foo" 6 := by
  have hc : (match Go.resolve dsEnv 1 0 "" with
      | .ok rs => rs.log == [] && rs.draft == .d2020 && ((lookupNat 7 rs.infos).bind (·.resolvedRef)) == some 6
      | _ => false) = true := by decide +kernel
  cases hr : Go.resolve dsEnv 1 0 "" with
  | ok rs =>
    rw [hr] at hc
    simp only [Bool.and_eq_true, beq_iff_eq] at hc
    obtain ⟨⟨hlog, hdraft⟩, h7⟩ := hc
    obtain ⟨b, hb, hall⟩ := resolve_sound_selfcontained dsEnv 1 0 "" rs hr hlog
    have hb' : b = {} := by
      have : retrievalOf "" = .ok ({} : Uri.Url) := rfl
      rw [this] at hb
      simp only [Res.ok.injEq] at hb
      exact hb.symm
    subst hb'
    obtain ⟨info, t, hi, ht, hd⟩ := hall 7 (by decide +kernel) { ref := "#foo" } rfl (by decide)
    rw [hi] at h7
    simp only [Option.bind_some, ht, Option.some.injEq] at h7
    subst h7
    rw [hdraft] at hd
    exact hd
  | fuel => rw [hr] at hc; exact absurd hc (by simp)
  | panic => rw [hr] at hc; exact absurd hc (by simp)
  | err => rw [hr] at hc; exact absurd hc (by simp)

/-! draft-07: `$id: "#foo"` declares the plain name `foo`; an `$id` beside `$ref` is ignored (schema 2
    stays in the root resource and its reference is resolved against the root's URI) -/

def d7Store : Store := #[
  { schema := "http://json-schema.org/draft-07/schema#", id := "http://a/r7.json",
    definitions := some [("a", 1), ("b", 2)], allOf := some [3] },   -- 0
  { id := "#foo" },                                                    -- 1
  { id := "other.json", ref := "#foo" },                               -- 2
  { ref := "#foo" } ]                                                  -- 3
def d7Env : Env := { st := d7Store, reOk := fun _ => true, loader := none }
def d7Doc : Doc := ⟨d7Store, .d7, 0⟩

example : ((Go.resolve d7Env 1 0 "").bind fun rs =>
      .ok (rs.log, rs.infos.map fun e => (e.1, e.2.base, e.2.resolvedRef))) =
    .ok ([], [(0, some 0, none), (3, some 0, some 1), (1, some 0, none), (2, some 0, some 1)]) := by
  decide +kernel
example : ((Go.resolve d7Env 1 0 "").bind fun rs => .ok (rs.draft == .d7)) = .ok true := by decide +kernel
example : d7Doc.ResourceRoot 2 0 := ⟨[2], by decide +kernel, by decide +kernel⟩
example : d7Doc.AnchorTarget 0 "foo" 1 :=
  ⟨⟨[1], by decide +kernel, by decide +kernel⟩, false, _, rfl, by decide +kernel⟩

/-- the universe `exEnv` (root document 0, Loader document 3) satisfies the freshness assumption -/
theorem exEnv_fresh : LoaderFresh exEnv 0 := by
  intro tbl htbl
  have ht : tbl = [("http://a/other.json", .doc 3)] := by
    have : exEnv.loader = some [("http://a/other.json", .doc 3)] := rfl
    rw [this] at htbl
    simp only [Option.some.injEq] at htbl
    exact htbl.symm
  subst ht
  have hkey : ∀ k r, Json.lookup k [("http://a/other.json", LoaderResult.doc 3)] = some (.doc r) →
      k = "http://a/other.json" ∧ r = 3 := by
    intro k r h
    rw [Json.lookup_cons] at h
    split at h
    · rename_i hk
      simp only [Option.some.injEq, LoaderResult.doc.injEq] at h
      exact ⟨hk.symm, h.symm⟩
    · simp at h
  constructor
  · intro k r hk b hb hb0
    obtain ⟨_, rfl⟩ := hkey k r hk
    have h1 := reach_sub_closed exStore [3, 4] 3 b (by simp) (by decide +kernel) hb
    have h2 := reach_sub_closed exStore [0, 1, 2] 0 b (by simp) (by decide +kernel) hb0
    simp only [List.mem_cons, List.mem_nil_iff, or_false] at h1 h2
    rcases h1 with rfl | rfl <;> simp at h2
  · intro k1 k2 r1 r2 hne h1 h2
    exact absurd ((hkey k1 r1 h1).1.trans (hkey k2 r2 h2).1.symm) hne

/-- so `resolve_sound` applies to the resolution of `exEnv`: the reference `other.json#/$defs/x` of schema 1
    designates, among the documents resolved, the recorded target 4 (in the Loader document) -/
example : ∃ b docs, DesignatesAmong docs ⟨exStore, .d2020, 0⟩ b 1 "other.json#/$defs/x" 4 := by
  have hc : (match Go.resolve exEnv 5 0 "" with
      | .ok rs => rs.draft == .d2020 && ((lookupNat 1 rs.infos).bind (·.resolvedRef)) == some 4
      | _ => false) = true := by decide +kernel
  cases hr : Go.resolve exEnv 5 0 "" with
  | ok rs =>
    rw [hr] at hc
    simp only [Bool.and_eq_true, beq_iff_eq] at hc
    obtain ⟨hdraft, h1⟩ := hc
    obtain ⟨b, docs, _, _, hall⟩ := resolve_sound exEnv 5 0 "" rs exEnv_fresh hr
    obtain ⟨info, t, hi, ht, hd⟩ := (hall 1 (by decide +kernel) { ref := "other.json#/$defs/x" } rfl).1 (by decide)
    rw [hi] at h1
    simp only [Option.bind_some, ht, Option.some.injEq] at h1
    subst h1
    rw [hdraft] at hd
    exact ⟨b, docs, hd⟩
  | fuel => rw [hr] at hc; exact absurd hc (by simp)
  | panic => rw [hr] at hc; exact absurd hc (by simp)
  | err => rw [hr] at hc; exact absurd hc (by simp)

/-- the universe of the counterexample above (`cxEnv`: one document object served under two URIs)
    violates the assumption -/
example : ¬ LoaderFresh cxEnv 0 := by
  intro h
  exact (h _ rfl).2 "http://a/x" "http://a/y" 3 3 (by decide) rfl rfl 3 (reach_root _ 3) (reach_root _ 3)

end designation_examples


/-! ## The converse: Resolve fails when a reference designates nothing — and, on a well-formed document, only then

Soundness above says: success ⇒ every reference has the designated target.  Here: a reference that designates
nothing ⇒ no success (`dangling_ref_is_error`), and on a self-contained document (no Loader) that satisfies the
well-formedness conditions W1–W6 of JSV/Spec/WellFormed.lean — one per other reason resolve.go has to return an
error — every reference designating something ⇒ success (`resolve_complete_selfcontained`); together
`resolve_ok_iff_selfcontained`.  `topDoc env root` is the document read under the draft its `$schema` selects. -/

section completeness
open Spec RComp

/-- Without a Loader: if some `$ref` or — the document being read under 2020-12, `topDraft env root = .d2020`; under
    draft-07 a `$dynamicRef` is an unknown keyword and may dangle — some `$dynamicRef` of `root.all()` designates no
    subschema of the document (`b` = the parsed BaseURI option), Schema.Resolve does not succeed; it returns an error for every positive
    fuel (never a panic, never another target). -/
theorem dangling_ref_is_error (env : Env) (hl : env.loader = none) (fuel : Nat) (root : NodeId) (base : String)
    (id : NodeId) (n : Node) (hid : id ∈ allNodes env.st (env.st.size + 2) [root]) (hn : env.st.get? id = some n)
    (hdang : ∀ b, retrievalOf base = .ok b →
      (n.ref ≠ "" ∧ ¬ ∃ t, (topDoc env root).Designates b id n.ref t) ∨
      (topDraft env root = .d2020 ∧ n.dynamicRef ≠ "" ∧ ¬ ∃ t, (topDoc env root).Designates b id n.dynamicRef t)) :
    (∀ rs, Go.resolve env fuel root base ≠ .ok rs) ∧ (1 ≤ fuel → Go.resolve env fuel root base = .err) := by
  have hno : ∀ rs, Go.resolve env fuel root base ≠ .ok rs := by
    intro rs h
    obtain ⟨b, hb, hall⟩ := resolve_designates_noloader env hl fuel root base rs h
    obtain ⟨h1, h2⟩ := hall id hid n hn
    rcases hdang b hb with ⟨hne, hnot⟩ | ⟨h20, hne, hnot⟩
    · exact hnot (h1 hne)
    · exact hnot (h2 h20 hne)
  refine ⟨hno, fun hfuel => ?_⟩
  cases hr : Go.resolve env fuel root base with
  | ok rs => exact absurd hr (hno rs)
  | err => rfl
  | panic => exact absurd hr (resolve_ne_panic_noloader env hl fuel root base)
  | fuel => exact absurd hr (RTot.resolve_ne_fuel env fuel root base (by rw [hl]; simpa using hfuel))

/-- With a Loader that satisfies the freshness assumption: if a `$ref` of `root.all()` designates nothing among
    any documents the resolution may touch (`docs`: the root document under the retrieval URI `b`, Loader
    documents under the URIs they are served for), Schema.Resolve does not succeed; when moreover the documents are
    disjoint (`docsDisjoint`, decidable) and the fuel exceeds the number of Loader entries, it returns an error. -/
theorem dangling_ref_is_error_among (env : Env) (fuel : Nat) (root : NodeId) (base : String)
    (hfresh : LoaderFresh env root)
    (id : NodeId) (n : Node) (hid : id ∈ allNodes env.st (env.st.size + 2) [root]) (hn : env.st.get? id = some n)
    (hne : n.ref ≠ "")
    (hdang : ∀ b docs draft, retrievalOf base = .ok b →
      (∀ e ∈ docs, e.1.st = env.st ∧ ((e.1.root = root ∧ e.2 = b) ∨
        ∃ tbl, env.loader = some tbl ∧ Json.lookup (Uri.toString e.2) tbl = some (.doc e.1.root))) →
      ¬ ∃ t, DesignatesAmong docs ⟨env.st, draft, root⟩ b id n.ref t) :
    (∀ rs, Go.resolve env fuel root base ≠ .ok rs) ∧
    (RTot.docsDisjoint env root = true → (env.loader.getD []).length + 1 ≤ fuel →
      Go.resolve env fuel root base = .err) := by
  have hno : ∀ rs, Go.resolve env fuel root base ≠ .ok rs := by
    intro rs h
    obtain ⟨b, docs, hb, hdocs, hall⟩ := resolve_sound env fuel root base rs hfresh h
    obtain ⟨info, t, _, _, hd⟩ := (hall id hid n hn).1 hne
    exact hdang b docs rs.draft hb hdocs ⟨t, hd⟩
  refine ⟨hno, fun hdis hfuel => ?_⟩
  cases hr : Go.resolve env fuel root base with
  | ok rs => exact absurd hr (hno rs)
  | err => rfl
  | panic => exact absurd hr (RTot.resolve_ne_panic env fuel root base hdis)
  | fuel => exact absurd hr (RTot.resolve_ne_fuel env fuel root base hfuel)

/-- COMPLETENESS, self-contained documents.  No Loader; then the following are ALL the reasons resolve.go has to
    fail, so a document that passes them is resolved, by every positive fuel:

    * W1 the BaseURI option is empty or parses, W2 and has no fragment;
    * W3 `structureOk`: the subschemas form a tree without nil pointers (checkStructure);
    * W4 `localOk`: checkLocal accepts every subschema;
    * W5 `IdsOk`: every `$id` that is read parses, has no fragment in 2020-12, and the URI of every resource it
      establishes is absolute;
    * W6 `UniqueIds`: no URI identifies two resources (NOT checked by resolve.go — see the counterexample
      `dupStore` below: without it the resolver may look in the wrong one of two homonymous resources);
    * D  every `$ref` and every `$dynamicRef` of `root.all()` designates a subschema of the document (in
      particular its fragment-less URI identifies a resource of the document: no reference leaves it). -/
theorem resolve_complete_selfcontained (env : Env) (hl : env.loader = none) (fuel : Nat) (hfuel : 1 ≤ fuel)
    (root : NodeId) (base : String) (b : Uri.Url)
    (W1 : retrievalOf base = .ok b) (W2 : b.fragment = "")
    (W3 : structureOk env.st root = true) (W4 : localOk env root = true)
    (W5 : (topDoc env root).IdsOk b) (W6 : (topDoc env root).UniqueIds b)
    (D : (topDoc env root).RefsDesignate b (allNodes env.st (env.st.size + 2) [root])) :
    ∃ rs, Go.resolve env fuel root base = .ok rs :=
  resolve_ok_of_wf env hl fuel hfuel root base b W1 W2 W3 W4 W5 W6 D

/-- the same with the Bool checkers for W5, W6 (sufficient, evaluable) -/
theorem resolve_complete_selfcontained_checked (env : Env) (hl : env.loader = none) (fuel : Nat) (hfuel : 1 ≤ fuel)
    (root : NodeId) (base : String) (b : Uri.Url)
    (W1 : retrievalOf base = .ok b) (W2 : b.fragment = "")
    (W3 : structureOk env.st root = true) (W4 : localOk env root = true)
    (W5 : (topDoc env root).idsOk b = true) (W6 : (topDoc env root).uniqueIds b = true)
    (D : (topDoc env root).RefsDesignate b (allNodes env.st (env.st.size + 2) [root])) :
    ∃ rs, Go.resolve env fuel root base = .ok rs :=
  resolve_ok_of_wf env hl fuel hfuel root base b W1 W2 W3 W4 (idsOk_sound _ _ W5) (uniqueIds_sound _ _ W6) D

/-- the conditions W1–W5 are necessary, whatever the Loader: a successful Resolve was given a well-formed document -/
theorem resolve_ok_wellformed (env : Env) (fuel : Nat) (root : NodeId) (base : String) (rs : Resolved)
    (h : Go.resolve env fuel root base = .ok rs) :
    ∃ b, retrievalOf base = .ok b ∧ b.fragment = "" ∧ structureOk env.st root = true ∧
      localOk env root = true ∧ (topDoc env root).IdsOk b :=
  resolve_wf_of_ok env fuel root base rs h

/-- Success exactly when well-formed and every reference designates something: for a document without Loader in
    which no URI identifies two resources (W6), and positive fuel. -/
theorem resolve_ok_iff_selfcontained (env : Env) (hl : env.loader = none) (fuel : Nat) (hfuel : 1 ≤ fuel)
    (root : NodeId) (base : String)
    (W6 : ∀ b, retrievalOf base = .ok b → (topDoc env root).UniqueIds b) :
    (∃ rs, Go.resolve env fuel root base = .ok rs) ↔
    ∃ b, retrievalOf base = .ok b ∧ b.fragment = "" ∧ structureOk env.st root = true ∧ localOk env root = true ∧
      (topDoc env root).IdsOk b ∧
      (topDoc env root).RefsDesignate b (allNodes env.st (env.st.size + 2) [root]) := by
  constructor
  · rintro ⟨rs, h⟩
    obtain ⟨b, hb, h2, h3, h4, h5⟩ := resolve_wf_of_ok env fuel root base rs h
    obtain ⟨b', hb', hD⟩ := resolve_designates_noloader env hl fuel root base rs h
    rw [hb] at hb'
    simp only [Res.ok.injEq] at hb'
    subst hb'
    exact ⟨b, hb, h2, h3, h4, h5, hD⟩
  · rintro ⟨b, hb, h2, h3, h4, h5, hD⟩
    exact resolve_ok_of_wf env hl fuel hfuel root base b hb h2 h3 h4 h5 (W6 b hb) hD

/-- otherwise (positive fuel, no Loader) the outcome is an error: never a panic, never out of fuel -/
theorem resolve_err_iff_selfcontained (env : Env) (hl : env.loader = none) (fuel : Nat) (hfuel : 1 ≤ fuel)
    (root : NodeId) (base : String) :
    Go.resolve env fuel root base = .err ↔ ¬ ∃ rs, Go.resolve env fuel root base = .ok rs := by
  cases hr : Go.resolve env fuel root base with
  | ok rs => simp
  | err => simp
  | panic => exact absurd hr (resolve_ne_panic_noloader env hl fuel root base)
  | fuel => exact absurd hr (RTot.resolve_ne_fuel env fuel root base (by rw [hl]; simpa using hfuel))

/-- COMPLETENESS with a Loader whose documents are all present (`UniverseOk`, JSV/Spec/WellFormed.lean):
    * every document — the top one under the retrieval URI `b`, every Loader document under every URL whose string
      is its key in the table — is well-formed (W2–W6), and all documents are read under one draft `dr`;
    * every reference of every document is good (`Doc.RefGood`): its fragment-less URI identifies a resource of
      its own document in which the fragment selects something, or it identifies nothing there and is a name of the
      top document or a key of the Loader table (with a `.doc` entry) in whose document the fragment selects something;
    * no URI names two documents (`Coherent`: retrieval URIs and root `$id`s — what resolver.loaded is keyed by);
    * the Loader's documents share no schema object (`LoaderFresh`, and its decidable form `docsDisjoint` which
      excludes the model's panic).
    Then Schema.Resolve succeeds, for every fuel above the number of Loader entries. -/
theorem resolve_complete (env : Env) (root : NodeId) (dr : Draft) (base : String) (b : Uri.Url) (fuel : Nat)
    (hfuel : (env.loader.getD []).length + 1 ≤ fuel) (W1 : retrievalOf base = .ok b)
    (hfresh : LoaderFresh env root) (hdis : RTot.docsDisjoint env root = true)
    (U : UniverseOk env root dr b) : ∃ rs, Go.resolve env fuel root base = .ok rs :=
  resolve_ok_of_universe env root dr b base fuel hfuel W1 hfresh hdis U

end completeness

/-! ### The completeness theorems on non-trivial data

`dsEnv` (above): an embedded resource, an anchor of the same name inside and outside it, four references.
All hypotheses of `resolve_complete_selfcontained` hold — W3–W6 by evaluation of the checkers, D by a table of
witnesses (`dsCert`: lineage of the referring schema, lineage of the identified resource root, lineage of the
target) checked by `checkRefs` — so the theorem yields a successful resolution. -/

section completeness_examples
open Spec RComp

/-- for `$ref` in schema `id`: ⟨lineage of `id`, lineage of the resource root, the root, lineage of the target, target⟩ -/
def dsCert : NodeId → Bool → DesigCert
  | 3, _ => ⟨[3], [], 0, [1], 1⟩         -- "#foo" in the root resource: the `foo` outside
  | 4, _ => ⟨[4], [2], 2, [2, 6], 6⟩     -- "sub.json#foo": the `foo` inside
  | 5, _ => ⟨[5], [2], 2, [], 6⟩         -- "sub.json#/$defs/c"
  | 7, _ => ⟨[2, 7], [2], 2, [2, 6], 6⟩  -- "#foo" inside the embedded resource
  | _, _ => ⟨[], [], 0, [], 0⟩

theorem ds_all : allNodes dsStore (dsStore.size + 2) [0] = [0, 1, 2, 6, 7, 3, 4, 5] := by decide +kernel
theorem ds_W3 : structureOk dsStore 0 = true := by decide +kernel
theorem ds_W4 : localOk dsEnv 0 = true := by decide +kernel
theorem ds_W5 : (topDoc dsEnv 0).idsOk {} = true := by decide +kernel
theorem ds_W6 : (topDoc dsEnv 0).uniqueIds {} = true := by decide +kernel
theorem ds_D : (topDoc dsEnv 0).RefsDesignate {} (allNodes dsEnv.st (dsEnv.st.size + 2) [0]) := by
  have h : allNodes dsEnv.st (dsEnv.st.size + 2) [0] = [0, 1, 2, 6, 7, 3, 4, 5] := ds_all
  rw [h]
  exact checkRefs_sound _ _ _ dsCert (by decide +kernel)

/-- every hypothesis of the completeness theorem holds for `dsEnv`, hence Resolve succeeds -/
example : ∃ rs, Go.resolve dsEnv 1 0 "" = .ok rs :=
  resolve_complete_selfcontained_checked dsEnv rfl 1 (by decide) 0 "" {} rfl rfl ds_W3 ds_W4 ds_W5 ds_W6 ds_D

/-- the same through the iff -/
example : ∃ rs, Go.resolve dsEnv 1 0 "" = .ok rs :=
  (resolve_ok_iff_selfcontained dsEnv rfl 1 (by decide) 0 "" (by
      intro b hb
      have : retrievalOf "" = .ok ({} : Uri.Url) := rfl
      rw [this] at hb
      simp only [Res.ok.injEq] at hb
      subst hb
      exact uniqueIds_sound _ _ ds_W6)).mpr
    ⟨{}, rfl, rfl, ds_W3, ds_W4, idsOk_sound _ _ ds_W5, ds_D⟩

/-! Dropping the designation hypothesis: `dgStore` = `dsStore` with the reference of schema 7 changed to `#bar` —
    no schema of the embedded resource declares `bar`.  W1–W6 still hold, every other reference still designates its
    target; Resolve returns an error; and by the completeness theorem, the reference of schema 7 designates nothing,
    which is the hypothesis of `dangling_ref_is_error`. -/

def dgStore : Store := #[
  { id := "http://a/root.json", defs := some [("a", 1), ("b", 2)], allOf := some [3, 4, 5] },
  { anchor := "foo" },
  { id := "sub.json", defs := some [("c", 6)], items := some 7 },
  { ref := "#foo" },
  { ref := "sub.json#foo" },
  { ref := "sub.json#/$defs/c" },
  { anchor := "foo" },
  { ref := "#bar" } ]
def dgEnv : Env := { st := dgStore, reOk := fun _ => true, loader := none }

example : (Go.resolve dgEnv 1 0 "").verdict = some false := by decide +kernel

theorem dg_dangling : ¬ ∃ t, (topDoc dgEnv 0).Designates {} 7 "#bar" t := by
  intro h7
  have hall : allNodes dgEnv.st (dgEnv.st.size + 2) [0] = [0, 1, 2, 6, 7, 3, 4, 5] := by decide +kernel
  have hrest : (topDoc dgEnv 0).RefsDesignate {} [0, 1, 2, 6, 3, 4, 5] :=
    checkRefs_sound _ _ _ dsCert (by decide +kernel)
  have hD : (topDoc dgEnv 0).RefsDesignate {} (allNodes dgEnv.st (dgEnv.st.size + 2) [0]) := by
    rw [hall]
    intro id hid n hn
    by_cases h : id = 7
    · subst h
      have hn7 : n = { ref := "#bar" } := by
        have : (topDoc dgEnv 0).st.get? 7 = some { ref := "#bar" } := rfl
        rw [this] at hn
        exact (Option.some.inj hn).symm
      subst hn7
      exact ⟨fun _ => h7, fun _ hne => absurd rfl hne⟩
    · apply hrest id _ n hn
      simp only [List.mem_cons, List.mem_nil_iff, or_false] at hid ⊢
      rcases hid with h0 | h0 | h0 | h0 | h0 | h0 | h0 | h0
      all_goals first | exact absurd h0 h | simp [h0]
  obtain ⟨rs, hrs⟩ := resolve_complete_selfcontained_checked dgEnv rfl 1 (by decide) 0 "" {} rfl rfl
    (by decide +kernel) (by decide +kernel) (by decide +kernel) (by decide +kernel) hD
  have hv : (Go.resolve dgEnv 1 0 "").verdict = some false := by decide +kernel
  rw [hrs] at hv
  simp [Res.verdict] at hv

/-- so `dangling_ref_is_error` applies: an error, for every positive fuel -/
example (fuel : Nat) (hfuel : 1 ≤ fuel) : Go.resolve dgEnv fuel 0 "" = .err :=
  (dangling_ref_is_error dgEnv rfl fuel 0 "" 7 { ref := "#bar" } (by decide +kernel) rfl (by
    intro b hb
    have : retrievalOf "" = .ok ({} : Uri.Url) := rfl
    rw [this] at hb
    simp only [Res.ok.injEq] at hb
    subst hb
    exact Or.inl ⟨by decide, dg_dangling⟩)).2 hfuel

/-- a reference that leaves the document (`other.json`, no Loader): an error as well -/
example : (Go.resolve { dsEnv with st := dsStore.set! 3 { ref := "other.json" } } 1 0 "").verdict = some false := by
  decide +kernel

/-! W6 cannot be dropped, and resolve.go does not check it: two subschemas with the same `$id`.  The second
    registration silently replaces the first in `resolvedURIs`; the reference `x.json#/$defs/t` designates schema 4
    (in the first resource, schema 1), all of W1–W5 and D hold, and Resolve fails with "no key t" because it looks in
    the second resource (schema 2).  With the names `a` and `b` exchanged it succeeds.  (Replayed on the Go package:
    same outcome.) -/

def dupStore : Store := #[
  { id := "http://a/root.json", defs := some [("a", 1), ("b", 2)], allOf := some [3] },
  { id := "x.json", defs := some [("t", 4)] },
  { id := "x.json" },
  { ref := "x.json#/$defs/t" },
  { } ]
def dupEnv : Env := { st := dupStore, reOk := fun _ => true, loader := none }

example : (Go.resolve dupEnv 1 0 "").verdict = some false := by decide +kernel
example : structureOk dupStore 0 = true ∧ localOk dupEnv 0 = true ∧ (topDoc dupEnv 0).idsOk {} = true := by
  decide +kernel
example : (topDoc dupEnv 0).RefsDesignate {} (allNodes dupEnv.st (dupEnv.st.size + 2) [0]) := by
  have h : allNodes dupEnv.st (dupEnv.st.size + 2) [0] = [0, 1, 4, 2, 3] := by decide +kernel
  rw [h]
  exact checkRefs_sound _ _ _ (fun _ _ => ⟨[3], [1], 1, [], 4⟩) (by decide +kernel)
/-- what fails is W6 -/
example : (topDoc dupEnv 0).uniqueIds {} = false := by decide +kernel
example : ¬ (topDoc dupEnv 0).UniqueIds {} := by
  intro h
  have h1 : (topDoc dupEnv 0).Identifies {} "http://a/x.json" 1 :=
    Or.inr ⟨⟨[1], by decide +kernel, by decide +kernel⟩, _, ⟨[1], by decide +kernel, rfl⟩, by decide +kernel⟩
  have h2 : (topDoc dupEnv 0).Identifies {} "http://a/x.json" 2 :=
    Or.inr ⟨⟨[2], by decide +kernel, by decide +kernel⟩, _, ⟨[2], by decide +kernel, rfl⟩, by decide +kernel⟩
  exact absurd (h _ _ _ h1 h2) (by decide)

/-! With a Loader: the universe `exEnv` (root document 0 with two references into `http://a/other.json`, served by
    the Loader as document 3) satisfies `UniverseOk`; the references leave the root document (`checkRefOut`: their
    URI is no key of the document and is a key of the table) and the fragment selects in the Loader's document. -/

theorem ex_tbl (tbl : List (String × LoaderResult)) (h : exEnv.loader = some tbl) :
    tbl = [("http://a/other.json", .doc 3)] := by
  have : exEnv.loader = some [("http://a/other.json", .doc 3)] := rfl
  rw [this] at h
  simp only [Option.some.injEq] at h
  exact h.symm

theorem ex_key (k : String) (r : NodeId)
    (h : Json.lookup k [("http://a/other.json", LoaderResult.doc 3)] = some (.doc r)) :
    k = "http://a/other.json" ∧ r = 3 := by
  rw [Json.lookup_cons] at h
  split at h
  · rename_i hk
    simp only [Option.some.injEq, LoaderResult.doc.injEq] at h
    exact ⟨hk.symm, h.symm⟩
  · simp at h

/-- the Loader document (schemas 3, 4) carries no `$id` -/
theorem ex_noIds (dr : Draft) : NoIds ⟨exStore, dr, 3⟩ := by
  intro x n hx hn
  have hmem := reach_sub_closed exStore [3, 4] 3 x (by simp) (by decide +kernel) hx
  simp only [List.mem_cons, List.mem_nil_iff, or_false] at hmem
  have hn' : exStore.get? x = some n := hn
  rcases hmem with rfl | rfl
  · have : exStore.get? 3 = some { defs := some [("x", 4)] } := rfl
    rw [this] at hn'
    rw [← Option.some.inj hn']
  · have : exStore.get? 4 = some { type := "string" } := rfl
    rw [this] at hn'
    rw [← Option.some.inj hn']

theorem ex_universe : UniverseOk exEnv 0 .d2020 {} where
  topDr := by decide +kernel
  loaderDraft := by
    intro tbl k r rn htbl hk hrn
    rw [ex_tbl tbl htbl] at hk
    obtain ⟨_, rfl⟩ := ex_key k r hk
    have : exEnv.st.get? 3 = some { defs := some [("x", 4)] } := rfl
    rw [this] at hrn
    rw [← Option.some.inj hrn]
    rfl
  topDoc :=
    { frag := rfl
      struct := by decide +kernel
      locals := by decide +kernel
      ids := idsOk_sound _ _ (by decide +kernel)
      uniq := uniqueIds_sound _ _ (by decide +kernel)
      refs := by
        have hall : allNodes exStore (exStore.size + 2) [0] = [0, 1, 2] := by decide +kernel
        intro id hid n hn
        have hid' : id ∈ [0, 1, 2] := by rw [← hall]; exact hid
        have hn' : exStore.get? id = some n := hn
        simp only [List.mem_cons, List.mem_nil_iff, or_false] at hid'
        rcases hid' with rfl | rfl | rfl
        · have : exStore.get? 0 = some { id := "http://a/root.json", allOf := some [1, 2] } := rfl
          rw [this] at hn'
          rw [← Option.some.inj hn']
          exact ⟨fun h => absurd rfl h, fun _ h => absurd rfl h⟩
        · have : exStore.get? 1 = some { ref := "other.json#/$defs/x" } := rfl
          rw [this] at hn'
          rw [← Option.some.inj hn']
          exact ⟨fun _ => checkRefOut_sound exEnv 0 {} _ {} 1 _ [1] 3 [] 4 (by decide +kernel), fun _ h => absurd rfl h⟩
        · have : exStore.get? 2 = some { ref := "other.json" } := rfl
          rw [this] at hn'
          rw [← Option.some.inj hn']
          exact ⟨fun _ => checkRefOut_sound exEnv 0 {} _ {} 2 _ [2] 3 [] 3 (by decide +kernel), fun _ h => absurd rfl h⟩ }
  docs := by
    intro tbl u r htbl hk hfr
    rw [ex_tbl tbl htbl] at hk
    obtain ⟨_, rfl⟩ := ex_key _ r hk
    exact
      { frag := hfr
        struct := by decide +kernel
        locals := by decide +kernel
        ids := noIds_idsOk _ (ex_noIds _) u
        uniq := noIds_uniqueIds _ (ex_noIds _) u
        refs := by
          have hall : allNodes exStore (exStore.size + 2) [3] = [3, 4] := by decide +kernel
          intro id hid n hn
          have hid' : id ∈ [3, 4] := by rw [← hall]; exact hid
          have hn' : exStore.get? id = some n := hn
          simp only [List.mem_cons, List.mem_nil_iff, or_false] at hid'
          rcases hid' with rfl | rfl
          · have : exStore.get? 3 = some { defs := some [("x", 4)] } := rfl
            rw [this] at hn'
            rw [← Option.some.inj hn']
            exact ⟨fun h => absurd rfl h, fun _ h => absurd rfl h⟩
          · have : exStore.get? 4 = some { type := "string" } := rfl
            rw [this] at hn'
            rw [← Option.some.inj hn']
            exact ⟨fun h => absurd rfl h, fun _ h => absurd rfl h⟩ }
  coherent := by
    have htop : ∀ key, (⟨exEnv.st, .d2020, 0⟩ : Doc).Identifies {} key 0 → key = "" ∨ key = "http://a/root.json" := by
      intro key h
      have hm := identifies_mem ⟨exEnv.st, .d2020, 0⟩ {} (by decide +kernel) key 0 h
      have hk : (⟨exEnv.st, .d2020, 0⟩ : Doc).identKeys {} = [("", 0), ("http://a/root.json", 0)] := by decide +kernel
      rw [hk] at hm
      simp only [List.mem_cons, Prod.mk.injEq, List.mem_nil_iff, or_false] at hm
      rcases hm with ⟨h, _⟩ | ⟨h, _⟩
      · exact Or.inl h
      · exact Or.inr h
    have hdoc : ∀ key x, (∃ tbl u, exEnv.loader = some tbl ∧ Json.lookup (Uri.toString u) tbl = some (.doc x) ∧
        (⟨exEnv.st, .d2020, x⟩ : Doc).Identifies u key x) → x = 3 ∧ key = "http://a/other.json" := by
      rintro key x ⟨tbl, u, htbl, hk, hI⟩
      rw [ex_tbl tbl htbl] at hk
      obtain ⟨hu, rfl⟩ := ex_key _ x hk
      exact ⟨rfl, by rw [(noIds_identifies _ (ex_noIds _) u key 3 hI).2, hu]⟩
    intro key x y hx hy
    rcases hx with ⟨rfl, hx⟩ | hx <;> rcases hy with ⟨rfl, hy⟩ | hy
    · rfl
    · obtain ⟨_, hk⟩ := hdoc key y hy
      rcases htop key hx with h | h <;> rw [h] at hk <;> exact absurd hk (by decide)
    · obtain ⟨_, hk⟩ := hdoc key x hx
      rcases htop key hy with h | h <;> rw [h] at hk <;> exact absurd hk (by decide)
    · rw [(hdoc key x hx).1, (hdoc key y hy).1]

/-- so `resolve_complete` applies: success, by every fuel ≥ 2 -/
example : ∃ rs, Go.resolve exEnv 2 0 "" = .ok rs :=
  resolve_complete exEnv 0 .d2020 "" {} 2 (by decide) rfl exEnv_fresh (by decide +kernel) ex_universe

/-! Why `Doc.RefGood` asks a reference that leaves its document for a KEY of the Loader table (or a name of the top
    document), not for any name of a Loader document: a Loader document can be reached under the URI its root `$id`
    gives it only once it has been loaded under its retrieval URI (resolver.loaded is filled as documents arrive), so
    with the same universe success depends on the order of the references.  (Replayed on the Go package: same outcomes.) -/

def alStore : Store := #[
  { id := "http://a/root.json", allOf := some [1, 2] },
  { ref := "http://a/x.json" },
  { ref := "http://canon/x" },
  { id := "http://canon/x" } ]
def alEnv : Env := { st := alStore, reOk := fun _ => true, loader := some [("http://a/x.json", .doc 3)] }
def alEnv' : Env := { alEnv with st := (alStore.set! 1 { ref := "http://canon/x" }).set! 2 { ref := "http://a/x.json" } }

example : ((Go.resolve alEnv 2 0 "").bind fun rs => .ok (rs.log, rs.infos.map fun e => (e.1, e.2.resolvedRef))) =
    .ok (["http://a/x.json"], [(0, none), (1, some 3), (2, some 3), (3, none)]) := by decide +kernel
example : (Go.resolve alEnv' 2 0 "").verdict = some false := by decide +kernel
end completeness_examples


/-! ## Tests of the URL model against RFC 3986 §5.4 (reference resolution examples) -/

section rfc3986_examples
open Uri

/-- §5.4.1 normal examples, base `http://a/b/c/d;p?q` -/
example : resolveStr "http://a/b/c/d;p?q" "g:h" = .ok "g:h" := by decide +kernel
example : resolveStr "http://a/b/c/d;p?q" "g" = .ok "http://a/b/c/g" := by decide +kernel
example : resolveStr "http://a/b/c/d;p?q" "./g" = .ok "http://a/b/c/g" := by decide +kernel
example : resolveStr "http://a/b/c/d;p?q" "g/" = .ok "http://a/b/c/g/" := by decide +kernel
example : resolveStr "http://a/b/c/d;p?q" "/g" = .ok "http://a/g" := by decide +kernel
example : resolveStr "http://a/b/c/d;p?q" "//g" = .ok "http://g" := by decide +kernel
example : resolveStr "http://a/b/c/d;p?q" "?y" = .ok "http://a/b/c/d;p?y" := by decide +kernel
example : resolveStr "http://a/b/c/d;p?q" "g?y" = .ok "http://a/b/c/g?y" := by decide +kernel
example : resolveStr "http://a/b/c/d;p?q" "#s" = .ok "http://a/b/c/d;p?q#s" := by decide +kernel
example : resolveStr "http://a/b/c/d;p?q" "g#s" = .ok "http://a/b/c/g#s" := by decide +kernel
example : resolveStr "http://a/b/c/d;p?q" "g?y#s" = .ok "http://a/b/c/g?y#s" := by decide +kernel
example : resolveStr "http://a/b/c/d;p?q" ";x" = .ok "http://a/b/c/;x" := by decide +kernel
example : resolveStr "http://a/b/c/d;p?q" "g;x" = .ok "http://a/b/c/g;x" := by decide +kernel
example : resolveStr "http://a/b/c/d;p?q" "g;x?y#s" = .ok "http://a/b/c/g;x?y#s" := by decide +kernel
example : resolveStr "http://a/b/c/d;p?q" "" = .ok "http://a/b/c/d;p?q" := by decide +kernel
example : resolveStr "http://a/b/c/d;p?q" "." = .ok "http://a/b/c/" := by decide +kernel
example : resolveStr "http://a/b/c/d;p?q" "./" = .ok "http://a/b/c/" := by decide +kernel
example : resolveStr "http://a/b/c/d;p?q" ".." = .ok "http://a/b/" := by decide +kernel
example : resolveStr "http://a/b/c/d;p?q" "../" = .ok "http://a/b/" := by decide +kernel
example : resolveStr "http://a/b/c/d;p?q" "../g" = .ok "http://a/b/g" := by decide +kernel
example : resolveStr "http://a/b/c/d;p?q" "../.." = .ok "http://a/" := by decide +kernel
example : resolveStr "http://a/b/c/d;p?q" "../../" = .ok "http://a/" := by decide +kernel
example : resolveStr "http://a/b/c/d;p?q" "../../g" = .ok "http://a/g" := by decide +kernel

/-- §5.4.2 abnormal examples -/
example : resolveStr "http://a/b/c/d;p?q" "../../../g" = .ok "http://a/g" := by decide +kernel
example : resolveStr "http://a/b/c/d;p?q" "../../../../g" = .ok "http://a/g" := by decide +kernel
example : resolveStr "http://a/b/c/d;p?q" "/./g" = .ok "http://a/g" := by decide +kernel
example : resolveStr "http://a/b/c/d;p?q" "/../g" = .ok "http://a/g" := by decide +kernel
example : resolveStr "http://a/b/c/d;p?q" "g." = .ok "http://a/b/c/g." := by decide +kernel
example : resolveStr "http://a/b/c/d;p?q" ".g" = .ok "http://a/b/c/.g" := by decide +kernel
example : resolveStr "http://a/b/c/d;p?q" "g.." = .ok "http://a/b/c/g.." := by decide +kernel
example : resolveStr "http://a/b/c/d;p?q" "..g" = .ok "http://a/b/c/..g" := by decide +kernel
example : resolveStr "http://a/b/c/d;p?q" "./../g" = .ok "http://a/b/g" := by decide +kernel
example : resolveStr "http://a/b/c/d;p?q" "./g/." = .ok "http://a/b/c/g/" := by decide +kernel
example : resolveStr "http://a/b/c/d;p?q" "g/./h" = .ok "http://a/b/c/g/h" := by decide +kernel
example : resolveStr "http://a/b/c/d;p?q" "g/../h" = .ok "http://a/b/c/h" := by decide +kernel
example : resolveStr "http://a/b/c/d;p?q" "g;x=1/./y" = .ok "http://a/b/c/g;x=1/y" := by decide +kernel
example : resolveStr "http://a/b/c/d;p?q" "g;x=1/../y" = .ok "http://a/b/c/y" := by decide +kernel
example : resolveStr "http://a/b/c/d;p?q" "g?y/./x" = .ok "http://a/b/c/g?y/./x" := by decide +kernel
example : resolveStr "http://a/b/c/d;p?q" "g?y/../x" = .ok "http://a/b/c/g?y/../x" := by decide +kernel
example : resolveStr "http://a/b/c/d;p?q" "g#s/./x" = .ok "http://a/b/c/g#s/./x" := by decide +kernel
example : resolveStr "http://a/b/c/d;p?q" "g#s/../x" = .ok "http://a/b/c/g#s/../x" := by decide +kernel
/-- strict parsers keep the scheme-only reference -/
example : resolveStr "http://a/b/c/d;p?q" "http:g" = .ok "http:g" := by decide +kernel

end rfc3986_examples

end JSV.C03
