/-
  C13 — concurrent use: the sharing protocol of the package (immutable store, private per-call state,
  Load → compute → Store memo cells whose value depends on the key only) gives, under EVERY schedule,
  exactly the sequential results; plus the source facts that tie the abstract machine to the Go package.

  Definitions used (JSV/Proofs/Conc.lean, JSV/Proofs/ConcFacts.lean):
    `Inv f m`            every memo cell of `m` is empty or holds `f key`
    `ThreadInv`          per-thread history invariant, split form  (calls = pre ++ [call in flight] ++ todo)
    `ThreadInvTD`        the same, in take / drop form (the form of the task statement)
    `MInv f g callss m`  `Inv f m` ∧ every thread i satisfies `ThreadInv` w.r.t. `callss[i]`
    `measure`            upper bound on the own steps a thread still needs
    `rootOf`, `allowedWrites`, `expectedPkgVars`
-/
import JSV.Proofs.Conc
import JSV.Proofs.ConcFacts
namespace JSV.C13
open JSV JSV.Conc

set_option linter.unusedSectionVars false
variable {K V A R : Type} [DecidableEq K]

/-! ## the memo invariant -/

/-- initially every memo cell is empty -/
theorem init_inv (f : K → V) (callss : List (List (K × A))) : Inv f (init callss : Machine K V A R) :=
  fun k v h => by simp [init] at h

/-- `Inv f m → Inv f (step f g m tid)` is FALSE for an arbitrary machine: a thread sitting in phase
    `.computed k a v` with a wrong `v` stores it.  Counterexample (f = id on Nat, thread 0 about to store 7 under key 0). -/
theorem step_inv_counterexample :
    let m : Machine Nat Nat Unit Nat := { memo := fun _ => none, threads := [{ todo := [], phase := .computed 0 () 7 }] }
    Inv id m ∧ ¬ Inv id (step id (fun v _ => v) m 0) := by
  refine ⟨fun k v h => by simp at h, ?_⟩
  intro h
  have := h 0 7 (by simp [step, stepThread, setAt])
  simp at this

/-- closest true statement: the step preserves `Inv` together with the per-thread invariants
    (`MInv` = `Inv` ∧ every thread satisfies `ThreadInv`; it holds initially, see `init_minv`). -/
theorem step_inv_partial (f : K → V) (g : V → A → R) (callss : List (List (K × A))) (m : Machine K V A R) (tid : Nat) :
    MInv f g callss m → Inv f (step f g m tid) :=
  fun h => (step_MInv f g callss m tid h).1

/-- and for one thread step: a thread that satisfies its history invariant keeps the memo invariant -/
theorem stepThread_inv (f : K → V) (g : V → A → R) (memo : K → Option V) (t : Thread K V A R) (calls : List (K × A)) :
    MemoInv f memo → ThreadInv f g calls t → MemoInv f (stepThread f g memo t).1 :=
  stepThread_memoInv f g memo t calls

/-- every reachable machine satisfies the memo invariant, for every schedule -/
theorem run_inv (f : K → V) (g : V → A → R) (callss : List (List (K × A))) (sched : List Nat) :
    Inv f (run f g (init callss) sched) :=
  (run_MInv f g callss _ sched (init_MInv f g callss)).1

/-! ## the per-thread history invariant -/

theorem init_minv (f : K → V) (g : V → A → R) (callss : List (List (K × A))) :
    MInv f g callss (init callss : Machine K V A R) := init_MInv f g callss

/-- per-thread history invariant (take/drop form): with `calls` the thread's original call list,
    `t.results = sequential f g (calls.take t.results.length)`,
    `t.todo = calls.drop (t.results.length + (if idle then 0 else 1))`, a non-idle phase works on
    `calls[t.results.length]`, with `hit = none ∨ hit = some (f k)` resp. computed value `= f k`.
    It is preserved by a step of the thread against any memo satisfying the memo invariant. -/
theorem thread_inv_step (f : K → V) (g : V → A → R) (memo : K → Option V) (t : Thread K V A R) (calls : List (K × A)) :
    MemoInv f memo → ThreadInvTD f g calls t → ThreadInvTD f g calls (stepThread f g memo t).2 :=
  fun hm ht => (stepThread_threadInv f g memo t calls hm ht.toSplit).toTD

/-- the two forms of the thread invariant are equivalent -/
theorem threadInv_iff (f : K → V) (g : V → A → R) (calls : List (K × A)) (t : Thread K V A R) :
    ThreadInv f g calls t ↔ ThreadInvTD f g calls t := ⟨ThreadInv.toTD, ThreadInvTD.toSplit⟩

/-- machine level: one step of any thread (or a bad id) preserves the invariant of all threads -/
theorem minv_step (f : K → V) (g : V → A → R) (callss : List (List (K × A))) (m : Machine K V A R) (tid : Nat) :
    MInv f g callss m → MInv f g callss (step f g m tid) := step_MInv f g callss m tid

/-- every thread of every reachable machine satisfies its history invariant -/
theorem thread_inv_run (f : K → V) (g : V → A → R) (callss : List (List (K × A))) (sched : List Nat) (i : Nat)
    (t : Thread K V A R) :
    (run f g (init callss) sched).threads[i]? = some t → ThreadInvTD f g (callss[i]?.getD []) t :=
  fun h => ((run_MInv f g callss _ sched (init_MInv f g callss)).2 i t h).toTD

/-! ## main theorems -/

/-- **main**: for EVERY schedule, a thread that has finished returns exactly what it returns when run alone -/
theorem interleaving_eq_sequential (f : K → V) (g : V → A → R) (callss : List (List (K × A))) (sched : List Nat)
    (i : Nat) (t : Thread K V A R) :
    (run f g (init callss) sched).threads[i]? = some t → t.done → t.results = sequential f g (callss[i]?.getD []) := by
  intro h hd
  obtain ⟨pre, hr, hp⟩ := (run_MInv f g callss _ sched (init_MInv f g callss)).2 i t h
  obtain ⟨htd, hph⟩ := hd
  cases hphase : t.phase with
  | idle =>
    rw [hphase] at hp
    simp only at hp
    rw [hp, htd, List.append_nil, hr]
  | loaded k a hit => rw [hphase] at hph; exact hph.elim
  | computed k a v => rw [hphase] at hph; exact hph.elim

/-- any thread's results so far are a prefix of its sequential results, finished or not -/
theorem results_prefix (f : K → V) (g : V → A → R) (callss : List (List (K × A))) (sched : List Nat)
    (i : Nat) (t : Thread K V A R) :
    (run f g (init callss) sched).threads[i]? = some t →
      t.results <+: sequential f g (callss[i]?.getD []) ∧
      t.results = sequential f g ((callss[i]?.getD []).take t.results.length) := by
  intro h
  have hinv := (run_MInv f g callss _ sched (init_MInv f g callss)).2 i t h
  refine ⟨?_, hinv.toTD.1⟩
  obtain ⟨pre, hr, hp⟩ := hinv
  cases hphase : t.phase with
  | idle =>
    rw [hphase] at hp
    simp only at hp
    rw [hp, sequential_append, hr]
    exact List.prefix_append _ _
  | loaded k a hit =>
    rw [hphase] at hp
    rw [hp.1, sequential_append, hr]
    exact List.prefix_append _ _
  | computed k a v =>
    rw [hphase] at hp
    rw [hp.1, sequential_append, hr]
    exact List.prefix_append _ _

/-- threads do not disturb each other (final-result form): a thread finished in the interleaved machine and finished in
    the machine where it runs alone (any schedule `sched'`, e.g. the sub-schedule of its own steps) has the same results.
    (Step-for-step equality of the two runs does NOT hold: a cache hit caused by another thread saves one step.) -/
theorem alone_eq (f : K → V) (g : V → A → R) (callss : List (List (K × A))) (sched sched' : List Nat)
    (i : Nat) (t t' : Thread K V A R) :
    (run f g (init callss) sched).threads[i]? = some t → t.done →
    (run f g (init [callss[i]?.getD []]) sched').threads[0]? = some t' → t'.done →
    t.results = t'.results := by
  intro h hd h' hd'
  rw [interleaving_eq_sequential f g callss sched i t h hd, interleaving_eq_sequential f g _ sched' 0 t' h' hd']
  simp

/-- a step of another thread does not touch thread `i` -/
theorem other_step_untouched (f : K → V) (g : V → A → R) (m : Machine K V A R) (tid i : Nat) (h : i ≠ tid) :
    (step f g m tid).threads[i]? = m.threads[i]? := by
  rw [step_threads_get, if_neg h]

/-- liveness of the statement: `3 * n` own steps (a fortiori `3 * n + 1`) finish a thread with `n` calls,
    whatever the other threads do in between — so `done` is attained under every fair schedule -/
theorem own_steps_finish (f : K → V) (g : V → A → R) (callss : List (List (K × A))) (sched : List Nat)
    (i : Nat) (calls : List (K × A)) :
    callss[i]? = some calls → 3 * calls.length ≤ sched.count i →
    ∃ t : Thread K V A R, (run f g (init callss) sched).threads[i]? = some t ∧ t.done := by
  intro hc hn
  have h0 : (init callss : Machine K V A R).threads[i]? = some { todo := calls } := by
    simp [init, hc]
  obtain ⟨t', h1, h2⟩ := run_measure f g (init callss) sched i _ h0
  refine ⟨t', h1, measure_zero_done t' ?_⟩
  simp only [measure] at h2 ⊢
  omega

/-- the form of the task statement -/
theorem own_steps_finish' (f : K → V) (g : V → A → R) (callss : List (List (K × A))) (sched : List Nat)
    (i : Nat) (calls : List (K × A)) :
    callss[i]? = some calls → 3 * calls.length + 1 ≤ sched.count i →
    ∃ t : Thread K V A R, (run f g (init callss) sched).threads[i]? = some t ∧ t.done :=
  fun hc hn => own_steps_finish f g callss sched i calls hc (by omega)

/-- liveness + safety: under a schedule with enough own steps the thread holds exactly its sequential results -/
theorem fair_schedule_sequential (f : K → V) (g : V → A → R) (callss : List (List (K × A))) (sched : List Nat)
    (i : Nat) (calls : List (K × A)) :
    callss[i]? = some calls → 3 * calls.length ≤ sched.count i →
    ∃ t : Thread K V A R, (run f g (init callss) sched).threads[i]? = some t ∧ t.results = sequential f g calls := by
  intro hc hn
  obtain ⟨t, h1, h2⟩ := own_steps_finish f g callss sched i calls hc hn
  refine ⟨t, h1, ?_⟩
  have := interleaving_eq_sequential f g callss sched i t h1 h2
  rw [hc] at this
  exact this

/-! ## examples: two threads racing on the same key -/

section Examples
/-- f k = k * k (the memoised computation), g v a = v + a -/
def exF : Nat → Nat := fun k => k * k
def exG : Nat → Nat → Nat := fun v a => v + a
def exCalls : List (List (Nat × Nat)) := [[(3, 1), (3, 2)], [(3, 10), (4, 0)]]

/-- both threads miss on key 3 and both store (the "recompute the same value" race) -/
example : (run exF exG (init exCalls) [0, 1, 0, 1, 0, 1, 0, 0, 1, 1, 1]).threads.map (·.results) = [[10, 11], [19, 16]] := by
  decide
example : (run exF exG (init exCalls) [0, 1, 0, 1, 0, 1, 0, 0, 1, 1, 1]).threads.map (·.todo) = [[], []] := by decide
/-- thread 1 alone first, then thread 0 hits the cache -/
example : (run exF exG (init exCalls) [1, 1, 1, 1, 1, 1, 0, 0, 0, 0]).threads.map (·.results) = [[10, 11], [19, 16]] := by
  decide
example : sequential exF exG [(3, 1), (3, 2)] = [10, 11] := by decide
example : sequential exF exG [(3, 10), (4, 0)] = [19, 16] := by decide
/-- an unfinished thread holds a proper prefix -/
example : (run exF exG (init exCalls) [0, 0, 0, 7, 1]).threads.map (·.results) = [[10], []] := by decide
/-- the hypotheses of `own_steps_finish` are satisfiable, and 3 * n is sharp: with 5 own steps (n = 2, both misses)
    thread 1 is not done -/
example : exCalls[1]? = some [(3, 10), (4, 0)] ∧ 3 * [(3, 10), (4, 0)].length ≤ [1, 0, 1, 1, 1, 1, 1].count 1 := by decide
example : (run exF exG (init exCalls) [1, 1, 1, 1, 1]).threads.map (·.results) = [[], [19]] := by decide
end Examples

/-! ## tie to the source (facts regenerated from the Go package on every run) -/

/-- the only package-level variables that are ever written outside init are the two sync.Map caches, and only
    through Store -/
theorem pkg_state_fact : ∀ w ∈ Generated.writes, (∃ v ∈ Generated.pkgVars, rootOf w.2 = v.1) →
    (w.1.startsWith "init") ∨ (w.2 = "jsonNamesMap.Store" ∨ w.2 = "structProperties.Store") := by
  decide +kernel

/-- the two caches are sync.Maps (a plain map would need the machine's Load/Store to be non-atomic) -/
theorem caches_are_sync_maps :
    (Generated.pkgVars.filter fun v => v.1 == "jsonNamesMap" || v.1 == "structProperties").all (·.2.1 == "sync.Map") = true := by
  decide +kernel

/-- both caches exist (the filter above is not vacuous) -/
theorem caches_exist :
    (Generated.pkgVars.filter fun v => v.1 == "jsonNamesMap" || v.1 == "structProperties").map (·.1) =
      ["jsonNamesMap", "structProperties"] := by
  decide +kernel

/-- the package has no other package-level variable than the expected ones (ten values fixed in `init` or by their initialiser
    and the two sync.Map caches): a new process-wide variable — a pool, a memo table, a counter — is new shared state and
    has to be looked at -/
theorem pkg_vars_expected_exact : Generated.pkgVars.map (·.1) = expectedPkgVars := by
  decide +kernel

/-- every write through a parameter / receiver / package variable in the package is one of the expected ones
    (see the annotated list `allowedWrites`) -/
theorem writes_expected : Generated.writes.all (allowedWrites.contains ·) = true := by
  decide +kernel

/-- and the expectation list contains nothing stale -/
theorem writes_expected_exact : Generated.writes = allowedWrites := by
  decide +kernel

example : rootOf "*s" = "s" ∧ rootOf "s.DependencySchemas[k]" = "s" ∧ rootOf "jsonNamesMap.Store" = "jsonNamesMap"
    ∧ rootOf "seen[t]" = "seen" := by decide +kernel

end JSV.C13
