/-
  C13 — property theorems only (placeholder until the proofs land).
-/
import JSV.Model.Validate
namespace JSV.C13
open JSV Go

theorem validateFuel_zero (env : VEnv) (stack : List NodeId) (i : GoVal) (s : NodeId) :
    validateFuel env 0 stack i s = .fuel := rfl

end JSV.C13
