/-
  C04 — the inferred schema accepts every encoded value.  Property theorems only
  (helper lemmas: JSV/Proofs/InfStore.lean, InfStruct.lean, InfEqns.lean, InfModels.lean, InfValid.lean,
  InfSound.lean; the model of encoding/json on the fragment is JSV/Spec/EncJson.lean).

  Vocabulary:
  * `EncJson.GoValue`, `EncJson.HasType T v`, `EncJson.encode T v` : values of the fragment and json.Marshal;
  * `EncJson.InDomain T` : basic kinds Bool / Int* / Uint* / Float* / String / Interface, pointers, slices,
    arrays, string-keyed maps, structs whose non-omitted fields have pairwise distinct JSON names (H_D14) and
    tag names encoding/json accepts (H_D15); no named types (these are covered by C16.typeTable_substituted);
  * `Spec.specEnvNoRefs st re` : the Spec environment over the store, draft 2020-12, no references, any
    regexp matcher;
  * `EncJson.depth T` : the nesting depth of the schema, the fuel the Spec needs.
-/
import JSV.Proofs.InfSound
import JSV.Proofs.InfEmbSound
import JSV.Proofs.EncEmbCons
namespace JSV.C04
open JSV Go EncJson Spec

/-! ## the kind table (regenerated from infer.go) against the value ranges of the Go kinds -/

/-- for every sized integer kind the schema's bounds contain the kind's value range -/
theorem int_bounds_contain :
    ∀ k, k ∈ sizedKinds → ∃ mn mx lo hi, kindEntry k = some ("integer", some mn, some mx) ∧
      minValue k = some lo ∧ maxValue k = some hi ∧ mn ≤ lo ∧ hi ≤ mx := by
  intro k hk
  simp only [sizedKinds, List.mem_cons, List.not_mem_nil, or_false] at hk
  rcases hk with rfl | rfl | rfl | rfl | rfl | rfl <;>
    exact ⟨_, _, _, _, rfl, rfl, rfl, by decide, by decide⟩

/-- … and for every integer kind at all, whatever bounds the table states contain the value range -/
theorem int_bounds_contain_all (k : String) (lo hi : Int) (h : intRange k = some (lo, hi)) :
    ∃ mn mx, kindEntry k = some ("integer", mn, mx) ∧ (∀ m, mn = some m → m ≤ lo) ∧ (∀ m, mx = some m → hi ≤ m) :=
  int_table h

/-- unsigned kinds have minimum 0 -/
theorem unsigned_minimum_zero :
    ∀ k, k ∈ unsignedKinds → (kindEntry k).map (fun e => (e.1, e.2.1)) = some ("integer", some 0) := by
  decide

/-- int and int64 have no bounds; uint, uint64 and uintptr have no maximum -/
theorem word_kinds_unbounded :
    kindEntry "Int" = some ("integer", none, none) ∧ kindEntry "Int64" = some ("integer", none, none) ∧
    kindEntry "Uint" = some ("integer", some 0, none) ∧ kindEntry "Uint64" = some ("integer", some 0, none) ∧
    kindEntry "Uintptr" = some ("integer", some 0, none) := by
  decide

/-- the type keyword of every basic kind of the fragment -/
theorem kind_types :
    (∀ k, k ∈ intKinds → (kindEntry k).map (·.1) = some "integer") ∧
    (∀ k, k ∈ floatKinds → kindEntry k = some ("number", none, none)) ∧
    kindEntry "Bool" = some ("boolean", none, none) ∧ kindEntry "String" = some ("string", none, none) ∧
    kindEntry "Interface" = some ("", none, none) := by
  decide

/-! ## the main statement -/

/-- **main (fragment)**: for a type of the domain, the schema `ForType` returns accepts the JSON encoding of
    every value of the type (with the default setting that slices may be `null`) -/
theorem infer_sound (opts : IOpts) (fuel : Nat) (T : GoType) (st : Store) (id : NodeId) (st' : Store)
    (re : String → String → Bool) (hnfs : opts.nullForSlices = true) (hdom : InDomain T = true)
    (h : forType opts fuel T st = .ok (some id, st')) (v : GoValue) (hv : HasType T v)
    (fuel' : Nat) (hf : depth T ≤ fuel') :
    Spec.valid (specEnvNoRefs st' re) fuel' id (encode T v) = some true := by
  obtain ⟨id', hid, hm⟩ := inferFuel_models opts fuel T [] st (some id) st' hdom h
  cases hid
  rw [hnfs] at hm
  exact valid_iff_isSome.1 ((Models.sound (re := re) T false id hm fuel' [] hf).2 v hv)

/-- on the domain `ForType` never drops the type (IgnoreInvalidTypes has nothing to ignore) -/
theorem infer_some (opts : IOpts) (fuel : Nat) (T : GoType) (st : Store) (r : Option NodeId) (st' : Store)
    (hdom : InDomain T = true) (h : forType opts fuel T st = .ok (r, st')) : ∃ id, r = some id := by
  obtain ⟨id, hid, _⟩ := inferFuel_models opts fuel T [] st r st' hdom h
  exact ⟨id, hid⟩

/-- a pointer to a type of the domain: `null` (the nil pointer) is accepted as well — an instance of
    `infer_sound`, spelled out -/
theorem infer_sound_nil_pointer (opts : IOpts) (fuel : Nat) (T : GoType) (st : Store) (id : NodeId) (st' : Store)
    (re : String → String → Bool) (hnfs : opts.nullForSlices = true) (hdom : InDomain T = true)
    (h : forType opts fuel (.ptr T) st = .ok (some id, st')) (fuel' : Nat) (hf : depth T ≤ fuel') :
    Spec.valid (specEnvNoRefs st' re) fuel' id .null = some true :=
  infer_sound opts fuel (.ptr T) st id st' re hnfs hdom h .nilPtr trivial fuel' hf


/-! ## embedded struct fields (`forTypeE`, JSV/Model/InferEmb.lean; json.Marshal: `EncJsonEmb.encodeE`) -/

open EncJsonEmb in
/-- **main, with embedded fields (partial)**: for a type of the domain `InDomainE` — `InDomain` plus embedded fields
    that are untagged exported declared struct types, by value or by pointer, such that within every tree of embedded
    structs the JSON name of a field is determined by its Go name and vice versa and no Go name occurs twice at one
    depth (`namesOk`) — the schema `ForType` returns accepts the JSON encoding of every value of the type.  A value
    of the type has non-nil embedded pointers (`HasTypeE`): through a nil embedded pointer json.Marshal leaves out the
    promoted fields, the required ones included.

    `hno` (`EmbNotInTable`): no embedded field, at any level of `T`, is of a type with a TypeSchemas entry (other
    entries, e.g. the initial ones for time.Time …, do not matter; `embNotInTable_of_empty` for the empty table).  With
    an override of an embedded type the statement is false in general: the override replaces the promoted properties
    by its own, and `additionalProperties: false` then rejects the promoted members.

    Partial, what is missing: types outside `InDomainE`: D14 (a JSON name shared by two Go names), D16 (tagged /
    non-struct embedded fields), named types in non-embedded positions (as in `infer_sound`). -/
theorem infer_soundE_partial (opts : IOpts) (fuel : Nat) (T : GoTypeE) (st : Store) (id : NodeId) (st' : Store)
    (re : String → String → Bool) (hnfs : opts.nullForSlices = true) (hno : EmbNotInTable opts T)
    (hdom : InDomainE T = true) (h : forTypeE opts fuel T st = .ok (some id, st')) (v : GoValue) (hv : HasTypeE T v)
    (fuel' : Nat) (hf : depthE T ≤ fuel') :
    Spec.valid (specEnvNoRefs st' re) fuel' id (encodeE T v) = some true := by
  obtain ⟨id', hid, hm⟩ := inferFuelE_models opts fuel T [] st (some id) st' hdom hno h
  cases hid
  rw [hnfs] at hm
  exact valid_iff_isSome.1 ((soundE (re := re) (wt T) T (Nat.le_refl _) hdom false id hm fuel' [] hf).2 v hv)

open EncJsonEmb in
/-- on the domain `ForType` never drops the type -/
theorem infer_someE (opts : IOpts) (fuel : Nat) (T : GoTypeE) (st : Store) (r : Option NodeId) (st' : Store)
    (hdom : InDomainE T = true) (h : forTypeE opts fuel T st = .ok (r, st')) : ∃ id, r = some id :=
  inferFuelE_some opts fuel T [] st r st' hdom h

open EncJsonEmb in
/-- the schema built for a type of the domain is the schema of the type with its embedded structs dissolved
    (`flatten`: the fields of a struct are its live visible fields), in the sense of `Go.Models` -/
theorem infer_models_flatten (opts : IOpts) (fuel : Nat) (T : GoTypeE) (st : Store) (id : NodeId) (st' : Store)
    (hno : EmbNotInTable opts T) (hdom : InDomainE T = true)
    (h : forTypeE opts fuel T st = .ok (some id, st')) : Models opts.nullForSlices st' (flatten T) false id := by
  obtain ⟨id', hid, hm⟩ := inferFuelE_models opts fuel T [] st (some id) st' hdom hno h
  cases hid
  exact hm

open EncJsonEmb in
/-- **the spec with embedded fields is conservative over the spec without**: on a type without embedded fields
    (`GoType.toE`) typing is the same; on `InDomain` (pairwise distinct JSON names, H_D14) `typeFields`, json.Marshal
    and the strict decoder are the same; and `InDomainE` contains `InDomain` (for structs with pairwise distinct Go
    field names) -/
theorem encJsonEmb_conservative (T : GoType) :
    (∀ v, HasTypeE T.toE v ↔ HasType T v) ∧
    (InDomain T = true → (∀ v, encodeE T.toE v = encode T v) ∧ (∀ j, decodableE T.toE j = decodable T j)) ∧
    (InDomain T = true → DistinctNames T = true → InDomainE T.toE = true) :=
  ⟨hasTypeE_toE T, fun h => ⟨fun v => encodeE_toE T v h, fun j => decodableE_toE T j h⟩, inDomainE_toE T⟩

open EncJsonEmb in
/-- … `typeFields` of a struct without embedded fields: the non-omitted fields in declaration order -/
theorem typeFields_conservative (fs : List (String × String × GoType)) (h : nodup (jsonNames fs) = true) :
    fieldNames (fieldsToE fs) = jsonNames fs ∧ alwaysFieldNames (fieldsToE fs) = alwaysNames fs :=
  ⟨fieldNames_toE fs h, alwaysFieldNames_toE fs h⟩

/-! ### the hypotheses of `infer_soundE_partial` are satisfiable (labelled tests)

  `tagLookup` splits the tag with `String.splitOn`, which the kernel does not evaluate; what the tag parser returns
  for each tag is a hypothesis here (the parser is specified in C16: `fieldJSONInfo_named`, `fieldJSONInfo_no_tag`). -/

/-- an exported, non-embedded field -/
def fld (g tag : String) (t : GoTypeE) : FieldE GoTypeE :=
  { goName := g, tag := tag, exported := true, embedded := false, type := t }
/-- an exported embedded field -/
def emb (g tag : String) (t : GoTypeE) : FieldE GoTypeE :=
  { goName := g, tag := tag, exported := true, embedded := true, type := t }

/-- `struct{ Inner; A int "json:\"a\"" }` with `type Inner struct { X int "json:\"x\""; Y string "json:\"y,omitempty\"" }` -/
def embedValT (tI tX tY tA : String) : GoTypeE :=
  .struct [emb "Inner" tI (.named "Inner" (.struct [fld "X" tX (.basic "Int"), fld "Y" tY (.basic "String")])),
           fld "A" tA (.basic "Int")]

section WitnessesE
open EncJsonEmb
variable (tI tX tY tA : String)
  (hI : tagLookup "json" tI = none)                                        -- the embedded field has no json tag
  (hX : fieldJSONInfo "X" tX = { name := "x" }) (hY : fieldJSONInfo "Y" tY = { name := "y", omitempty := true })
  (hA : fieldJSONInfo "A" tA = { name := "a" })
include hI hX hY hA

theorem embedVal_inDomain : InDomainE (embedValT tI tX tY tA) = true := by
  have v1 : validTagName "x" = true := by decide
  have v2 : validTagName "y" = true := by decide
  have v3 : validTagName "a" = true := by decide
  have d1 : "Int" ∈ domainKinds := by decide
  have d2 : "String" ∈ domainKinds := by decide
  simp [embedValT, fld, emb, InDomainE, inDomainFieldsE, inDomainEmbE, namesOk, pairOk, live, jsonNameOf, allFields, embFields,
    hI, hX, hY, hA, fieldTagOk, v1, v2, v3, d1, d2]

/-- the value `{Inner: {X: 1, Y: ""}, A: 2}` -/
theorem embedVal_hasType : HasTypeE (embedValT tI tX tY tA) (.struct [.struct [.int 1, .str ""], .int 2]) := by
  have hIo := (fieldJSONInfo_untagged (g := "Inner") (tag := tI) (by rw [hI]; rfl))
  simp [embedValT, fld, emb, HasTypeE, HasTypeFieldsE, HasTypeEmbE, classify, isStructE, derefE, hIo.1, hIo.2, hX, hY, hA,
    basicHasType, intRange]
  exact ⟨⟨_, _, ⟨rfl, rfl⟩, by decide, by decide⟩, ⟨_, _, ⟨rfl, rfl⟩, by decide, by decide⟩⟩

/-- `infer_soundE_partial` applied: the value marshals to `{"x":1,"a":2}` (`y` is empty and omitempty), which the
    inferred schema accepts -/
example (id : NodeId) (st' : Store) (h : forTypeE {} 3 (embedValT tI tX tY tA) #[] = .ok (some id, st')) :
    Spec.valid (specEnvNoRefs st') 4 id (.obj [("x", .num 1), ("a", .num 2)]) = some true := by
  have hIo := (fieldJSONInfo_untagged (g := "Inner") (tag := tI) (by rw [hI]; rfl))
  have := infer_soundE_partial {} 3 _ #[] id st' (fun _ _ => false) rfl
    ((embNotInTable_of_empty (opts := {}) (fun _ => rfl) _).1 _ (Nat.le_refl _))
    (embedVal_inDomain tI tX tY tA hI hX hY hA) h _ (embedVal_hasType tI tX tY tA hI hX hY hA) 4
    (by simp [embedValT, fld, emb, depthE, depthFieldsE])
  simpa [embedValT, fld, emb, encodeE, encodeFieldsE, encodeEmbE, candidates, embCandidates, classify, mkTField, isDominant,
    dominates, isStructE, derefE, hIo.1, hIo.2, hX, hY, hA, fieldSkipped, isEmptyValue] using this

end WitnessesE

/-- outside the domain (known finding D14): in `struct{ Y string "json:\"x\""; Inner }` the JSON name `x` belongs to
    two Go names -/
example (tI tX tY tY' : String)
    (hX : fieldJSONInfo "X" tX = { name := "x" }) (hY : fieldJSONInfo "Y" tY = { name := "y", omitempty := true })
    (hY' : fieldJSONInfo "Y" tY' = { name := "x" }) :
    EncJsonEmb.InDomainE (.struct [fld "Y" tY' (.basic "String"),
      emb "Inner" tI (.named "Inner" (.struct [fld "X" tX (.basic "Int"), fld "Y" tY (.basic "String")]))]) = false := by
  simp [fld, emb, EncJsonEmb.InDomainE, EncJsonEmb.namesOk, EncJsonEmb.pairOk, EncJsonEmb.live, EncJsonEmb.jsonNameOf,
    allFields, embFields, hX, hY, hY']

/-! ## what the hypotheses exclude (labelled tests) -/

/-- `opts.nullForSlices = true` is needed: with `JSONSCHEMAGODEBUG=typeschemasnull=1` the schema of `[]int8` is
    `{"type":"array",…}`, which rejects the encoding `null` of the nil slice -/
example : (match forType { nullForSlices := false } 2 (.slice (.basic "Int8")) #[] with
    | .ok (some id, st') => Spec.valid (specEnvNoRefs st') 3 id (encode (.slice (.basic "Int8")) .nilSlice)
    | _ => none) = some false := by decide

/-- nil maps are outside the fragment (`GoValue` has no nil map): json.Marshal writes `null` for them, which
    the schema of `map[string]int8` rejects -/
example : (match forType {} 2 (.map "String" (.basic "Int8")) #[] with
    | .ok (some id, st') => Spec.valid (specEnvNoRefs st') 3 id .null
    | _ => none) = some false := by decide

/-! ## the hypotheses are satisfiable on non-trivial data -/

example : InDomain (.slice (.ptr (.basic "Int8"))) = true := by decide

example : HasType (.slice (.ptr (.basic "Int8"))) (.slice [.ptr (.int 5), .nilPtr]) := by
  simp only [HasType, basicHasType, intRange, List.mem_cons, List.not_mem_nil, or_false]
  rintro w (rfl | rfl)
  · exact ⟨-128, 127, by simp, by decide, by decide⟩
  · trivial

/-- `infer_sound` applied: `[]*int8{&5, nil}` ↦ `[5,null]` is accepted -/
example (id : NodeId) (st' : Store) (h : forType {} 3 (.slice (.ptr (.basic "Int8"))) #[] = .ok (some id, st')) :
    Spec.valid (specEnvNoRefs st') 2 id (.arr [.num 5, .null]) = some true := by
  have hv : HasType (.slice (.ptr (.basic "Int8"))) (.slice [.ptr (.int 5), .nilPtr]) := by
    simp only [HasType, basicHasType, intRange, List.mem_cons, List.not_mem_nil, or_false]
    rintro w (rfl | rfl)
    · exact ⟨-128, 127, by simp, by decide, by decide⟩
    · trivial
  have := infer_sound {} 3 _ #[] id st' (fun _ _ => false) rfl (by decide) h _ hv 2 (by decide)
  simpa [encode] using this

/-- … and evaluated: the same verdict by running the model and the Spec -/
example : (match forType {} 3 (.slice (.ptr (.basic "Int8"))) #[] with
    | .ok (some id, st') => Spec.valid (specEnvNoRefs st') 2 id (.arr [.num 5, .null])
    | _ => none) = some true := by decide

/-- out of range: 128 is rejected by the schema of `[]*int8` -/
example : (match forType {} 3 (.slice (.ptr (.basic "Int8"))) #[] with
    | .ok (some id, st') => Spec.valid (specEnvNoRefs st') 2 id (.arr [.num 128])
    | _ => none) = some false := by decide

end JSV.C04
