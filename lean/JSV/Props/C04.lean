/-
  C04 — the inferred schema accepts every encoded value.  Property theorems only
  (helper lemmas: JSV/Proofs/InfStore.lean, InfStruct.lean, InfEqns.lean, InfModels.lean, InfValid.lean,
  InfSound.lean, InfNamed.lean, InfTable.lean, InfTableTree.lean, InfTableDeep.lean, InfEmb*.lean; the model of encoding/json on the fragment is
  JSV/Spec/EncJson.lean).

  Vocabulary:
  * `EncJson.GoValue`, `EncJson.HasType T v`, `EncJson.encode T v` : values of the fragment and json.Marshal;
  * `EncJson.InDomain T` : basic kinds Bool / Int* / Uint* / Float* / String / Interface, pointers, slices,
    arrays, string-keyed maps, structs whose non-omitted fields have pairwise distinct JSON names (H_D14) and
    tag names encoding/json accepts (H_D15); no named types;
  * `EncJson.InDomainN T` : the same with declared (named) types, which encoding/json treats like their underlying
    types (`EncJson.erase`); `EncJson.NamedOk opts strs [] T` : `forType` does so too (no type-table entry, no name
    twice along a path) — or the type is one of the marshaler types `strs` of the type table (`infer_sound_named`);
    `EncJson.EntriesAccept opts st false T` (JSV/Proofs/InfTable.lean): every entry of the type table that `forType`
    meets in `T` accepts the encodings of its type (`infer_sound_table_partial`: entries without subschemas);
    `EncJson.EntriesAcceptTree opts st false T` (JSV/Proofs/InfTableTree.lean): the same for entries that are arbitrary
    reference-free schema trees (`infer_sound_table`; `EntriesAcceptDeep … k`: … that may be `k` levels deeper than the
    schema of the type itself, `infer_sound_table_deep`);
  * `Spec.specEnvNoRefs st re` : the Spec environment over the store, draft 2020-12, no references, any
    regexp matcher;
  * `EncJson.depth T` : the nesting depth of the schema, the fuel the Spec needs.
-/
import JSV.Proofs.InfSound
import JSV.Proofs.InfNamed
import JSV.Proofs.InfTable
import JSV.Proofs.InfTableTree
import JSV.Proofs.InfTableDeep
import JSV.Proofs.ResIso4
import JSV.Props.C20
import JSV.Proofs.InfEmbSound
import JSV.Proofs.InfEmbNamed
import JSV.Proofs.EncEmbCons
namespace JSV.C04
open JSV Go EncJson Spec

/-! ## the kind table (regenerated from infer.go) against the value ranges of the Go kinds -/

/-- for every sized integer kind the schema's bounds contain the kind's value range -/
theorem int_bounds_contain :
    ∀ k, k ∈ sizedKinds → ∃ mn mx lo hi, kindEntry k = some ("integer", some mn, some mx) ∧
      minValue k = some lo ∧ maxValue k = some hi ∧ mn ≤ lo ∧ hi ≤ mx := by
  intro k hk
  simp only [sizedKinds, List.mem_cons, List.not_mem_nil, or_false] at hk
  rcases hk with rfl | rfl | rfl | rfl | rfl | rfl <;>
    exact ⟨_, _, _, _, rfl, rfl, rfl, by decide, by decide⟩

/-- … and for every integer kind at all, whatever bounds the table states contain the value range -/
theorem int_bounds_contain_all (k : String) (lo hi : Int) (h : intRange k = some (lo, hi)) :
    ∃ mn mx, kindEntry k = some ("integer", mn, mx) ∧ (∀ m, mn = some m → m ≤ lo) ∧ (∀ m, mx = some m → hi ≤ m) :=
  int_table h

/-- unsigned kinds have minimum 0 -/
theorem unsigned_minimum_zero :
    ∀ k, k ∈ unsignedKinds → (kindEntry k).map (fun e => (e.1, e.2.1)) = some ("integer", some 0) := by
  decide

/-- int and int64 have no bounds; uint, uint64 and uintptr have no maximum -/
theorem word_kinds_unbounded :
    kindEntry "Int" = some ("integer", none, none) ∧ kindEntry "Int64" = some ("integer", none, none) ∧
    kindEntry "Uint" = some ("integer", some 0, none) ∧ kindEntry "Uint64" = some ("integer", some 0, none) ∧
    kindEntry "Uintptr" = some ("integer", some 0, none) := by
  decide

/-- the type keyword of every basic kind of the fragment -/
theorem kind_types :
    (∀ k, k ∈ intKinds → (kindEntry k).map (·.1) = some "integer") ∧
    (∀ k, k ∈ floatKinds → kindEntry k = some ("number", none, none)) ∧
    kindEntry "Bool" = some ("boolean", none, none) ∧ kindEntry "String" = some ("string", none, none) ∧
    kindEntry "Interface" = some ("", none, none) := by
  decide

/-! ## the main statement -/

/-- **main (fragment)**: for a type of the domain, the schema `ForType` returns accepts the JSON encoding of
    every value of the type (with the default setting that slices may be `null`) -/
theorem infer_sound (opts : IOpts) (fuel : Nat) (T : GoType) (st : Store) (id : NodeId) (st' : Store)
    (re : String → String → Bool) (hnfs : opts.nullForSlices = true) (hdom : InDomain T = true)
    (h : forType opts fuel T st = .ok (some id, st')) (v : GoValue) (hv : HasType T v)
    (fuel' : Nat) (hf : depth T ≤ fuel') :
    Spec.valid (specEnvNoRefs st' re) fuel' id (encode T v) = some true := by
  obtain ⟨id', hid, hm⟩ := inferFuel_models opts fuel T [] st (some id) st' hdom h
  cases hid
  rw [hnfs] at hm
  exact valid_iff_isSome.1 ((Models.sound (re := re) T false id hm fuel' [] hf).2 v hv)

/-- on the domain `ForType` never drops the type (IgnoreInvalidTypes has nothing to ignore) -/
theorem infer_some (opts : IOpts) (fuel : Nat) (T : GoType) (st : Store) (r : Option NodeId) (st' : Store)
    (hdom : InDomain T = true) (h : forType opts fuel T st = .ok (r, st')) : ∃ id, r = some id := by
  obtain ⟨id, hid, _⟩ := inferFuel_models opts fuel T [] st r st' hdom h
  exact ⟨id, hid⟩

/-- a pointer to a type of the domain: `null` (the nil pointer) is accepted as well — an instance of
    `infer_sound`, spelled out -/
theorem infer_sound_nil_pointer (opts : IOpts) (fuel : Nat) (T : GoType) (st : Store) (id : NodeId) (st' : Store)
    (re : String → String → Bool) (hnfs : opts.nullForSlices = true) (hdom : InDomain T = true)
    (h : forType opts fuel (.ptr T) st = .ok (some id, st')) (fuel' : Nat) (hf : depth T ≤ fuel') :
    Spec.valid (specEnvNoRefs st' re) fuel' id .null = some true :=
  infer_sound opts fuel (.ptr T) st id st' re hnfs hdom h .nilPtr trivial fuel' hf


/-! ## declared (named) types, and the marshaler types of the initial type table -/

/-- **main, with declared types**: `type Point struct{…}`, `type Celsius float64`, `type IDs []int` … at any position of
    `T`.  For a type of the domain `InDomainN` (`InDomain` with declared types allowed) whose declared types are
    transparent for `forType` (`NamedOk`, decidable: a declared type that is not one of the marshaler types `strs` has no
    entry in the type table, its underlying type is a basic kind, slice, array, map or struct, and no name occurs twice
    along a root-to-leaf path — the cycle check of `forType` fires otherwise, `C16.recursive_*_errors`), the schema
    `ForType` returns accepts the JSON encoding of every value of the type; a value of a declared type is a value of its
    underlying type and is encoded like it (encoding/json for types without marshal methods).

    The marshaler types `strs` (`StrEntries`): declared types whose entry in the type table is the schema
    `{"type":"string"}` — `initial_entries_string`: time.Time, slog.Level, big.Rat, big.Float of the initial table — and
    whose `MarshalJSON` / `MarshalText` writes a JSON string.  Such a type is represented as `.named n (.basic "String")`,
    its values as `GoValue.str s` with `s` the marshaled text (nothing else about these types is modelled).  `ForType`
    returns a clone of the entry, with `null` added for a pointer; it accepts every string, and `null`.
    (big.Int is not one of them: it marshals as a JSON number, which its entry `{"type":"string"}` rejects — the known
    finding D13.  A marshaler type with pointer receiver held by value in a non-addressable position is outside the
    property's domain: encoding/json does not call the marshaler there.)

    The statement for types without declared types is `infer_sound` (there `NamedOk` holds trivially). -/
theorem infer_sound_named (opts : IOpts) (strs : List String) (fuel : Nat) (T : GoType) (st : Store) (id : NodeId)
    (st' : Store) (re : String → String → Bool) (hnfs : opts.nullForSlices = true) (hdom : InDomainN T = true)
    (hst : StrEntries opts.schemas strs st) (hok : NamedOk opts strs [] T = true)
    (h : forType opts fuel T st = .ok (some id, st')) (v : GoValue) (hv : HasType T v)
    (fuel' : Nat) (hf : depth T ≤ fuel') :
    Spec.valid (specEnvNoRefs st' re) fuel' id (encode T v) = some true := by
  rw [forType_erase opts strs fuel T st hst hok] at h
  rw [← encode_erase]
  exact infer_sound opts fuel (erase T) st id st' re hnfs (by rw [← inDomainN_eq_erase]; exact hdom) h v
    ((hasType_erase T v).2 hv) fuel' (Nat.le_trans (depth_erase_le T) hf)

/-- on the domain with declared types `ForType` never drops the type -/
theorem infer_some_named (opts : IOpts) (strs : List String) (fuel : Nat) (T : GoType) (st : Store) (r : Option NodeId)
    (st' : Store) (hdom : InDomainN T = true) (hst : StrEntries opts.schemas strs st)
    (hok : NamedOk opts strs [] T = true) (h : forType opts fuel T st = .ok (r, st')) : ∃ id, r = some id := by
  rw [forType_erase opts strs fuel T st hst hok] at h
  exact infer_some opts fuel (erase T) st r st' (by rw [← inDomainN_eq_erase]; exact hdom) h

/-- the schema built for a type with declared types is the schema of the type with the declared types replaced by their
    underlying types (`erase`), in the sense of `Go.Models` -/
theorem infer_models_erase (opts : IOpts) (strs : List String) (fuel : Nat) (T : GoType) (st : Store) (id : NodeId)
    (st' : Store) (hdom : InDomainN T = true) (hst : StrEntries opts.schemas strs st)
    (hok : NamedOk opts strs [] T = true) (h : forType opts fuel T st = .ok (some id, st')) :
    Models opts.nullForSlices st' (erase T) false id := by
  rw [forType_erase opts strs fuel T st hst hok] at h
  obtain ⟨id', hid, hm⟩ := inferFuel_models opts fuel (erase T) [] st (some id) st'
    (by rw [← inDomainN_eq_erase]; exact hdom) h
  cases hid
  exact hm

/-- the spec with declared types is conservative: typing, json.Marshal and the strict decoder on `T` are those on
    `erase T`; `InDomainN` is `InDomain` of `erase T`, and contains `InDomain` -/
theorem encJson_named_conservative (T : GoType) :
    (∀ v, HasType (erase T) v ↔ HasType T v) ∧ (∀ v, encode (erase T) v = encode T v) ∧
    (∀ j, decodable (erase T) j = decodable T j) ∧ InDomainN T = InDomain (erase T) ∧
    (InDomain T = true → InDomainN T = true) :=
  ⟨hasType_erase T, encode_erase T, decodable_erase T, inDomainN_eq_erase T, inDomainN_of_inDomain T⟩

/-! ### the initial type table (infer.go `init`), regenerated from the source -/

/-- the standard-library marshaler types of the initial table whose JSON form is a string -/
def marshalerTypes : List String := ["time.Time", "slog.Level", "big.Rat", "big.Float"]

/-- the initial type table as the driver builds it: ONE schema object (`ss`, node 0) shared by all entries -/
def initialTable : List (String × NodeId) :=
  ["time.Time", "slog.Level", "big.Int", "big.Rat", "big.Float"].map fun n => (n, 0)

/-- **the initial entries are `{"type":"string"}`** (regenerated facts `Generated.initialSchemaEntries`,
    `Generated.initialSchemaLocals`): `init` enters time.Time, slog.Level, big.Int, big.Rat and big.Float, each with the
    one schema `ss`, which is `&Schema{Type: "string"}` (for big.Int, under the GODEBUG setting, `["null","string"]`).
    A change of the table changes these lists and fails this obligation. -/
theorem initial_entries_string :
    Generated.initialSchemaLocals = ["ss := &Schema{Type: \"string\"}"] ∧
    Generated.initialSchemaEntries =
      ["reflect.TypeFor[time.Time]() := ss", "reflect.TypeFor[slog.Level]() := ss",
       "reflect.TypeFor[big.Int]() := &Schema{Types: []string{\"null\", \"string\"}}",
       "reflect.TypeFor[big.Int]() := ss", "reflect.TypeFor[big.Rat]() := ss", "reflect.TypeFor[big.Float]() := ss"] := by
  decide

/-- … so `StrEntries` holds of the initial table for the marshaler types, in every store that extends the one holding
    `ss` -/
theorem strEntries_initial (st : Store) (h : st.get? 0 = some strNode) : StrEntries initialTable marshalerTypes st := by
  intro n hn sid hs
  simp only [marshalerTypes, List.mem_cons, List.not_mem_nil, or_false] at hn
  rcases hn with rfl | rfl | rfl | rfl <;>
  · have : sid = 0 := by
      simp [initialTable, Json.lookup] at hs
      exact hs.symm
    rw [this]; exact h

/-- `infer_sound_named` for the initial type table (no `TypeSchemas`): declared types without marshal methods anywhere,
    time.Time / slog.Level / big.Rat / big.Float as `.named n (.basic "String")` -/
theorem infer_sound_initial_table (opts : IOpts) (fuel : Nat) (T : GoType) (st : Store) (id : NodeId)
    (st' : Store) (re : String → String → Bool) (hnfs : opts.nullForSlices = true) (htbl : opts.schemas = initialTable)
    (hss : st.get? 0 = some strNode) (hdom : InDomainN T = true) (hok : NamedOk opts marshalerTypes [] T = true)
    (h : forType opts fuel T st = .ok (some id, st')) (v : GoValue) (hv : HasType T v)
    (fuel' : Nat) (hf : depth T ≤ fuel') :
    Spec.valid (specEnvNoRefs st' re) fuel' id (encode T v) = some true :=
  infer_sound_named opts marshalerTypes fuel T st id st' re hnfs hdom (by rw [htbl]; exact strEntries_initial st hss) hok
    h v hv fuel' hf

/-! ### any entry of the type table (`ForOptions.TypeSchemas`) -/

/-- **main, with entries of the type table (partial)**.  A declared type with an entry in the type table gets a clone of
    the entry, with `null` added to its types for a pointer.  If every entry that `ForType` meets in `T` accepts the
    encodings of its type (`EntriesAccept`: for every declared type `.named n u` of `T` with an entry `sid` — outside
    `json:"-"` fields — `EntryAccepts st sid u an`: the entry is a schema without subschemas and references; it accepts
    `encode u v` for every value `v` of the type; where the type is used through a pointer, the entry has a type keyword
    and, with `null` added, accepts `null`), the schema `ForType` returns accepts the JSON encoding of every value of `T`.
    Declared types without an entry are expanded (`C16.named_pushes_seen`) and need no hypothesis: if a name recurs along
    a path, or the underlying type is not one the model knows, `ForType` does not return a schema.

    `entryAccepts_string`: the entry `{"type":"string"}` accepts every marshaler type whose JSON form is a string
    (`.named n (.basic "String")`), so this statement contains `infer_sound_named`'s marshaler types; with an empty
    table it is `infer_sound` for types with declared types (`entriesAccept_of_empty`).

    Partial, what is missing: entries WITH subschemas — now `infer_sound_table` / `infer_sound_table_deep` below, for
    reference-free schema trees of any shape and depth — or references (`infer_sound_table_root_refs` at the root of
    the inferred schema; below the root a `#`-rooted reference does not keep its meaning:
    `table_entry_with_ref_unresolvable`, `table_entry_with_ref_changes_meaning`); an entry without a type keyword
    reached through a pointer (known finding D17: its types become `["null"]`); an entry that rejects some encoding, of
    course (big.Int's, D13). -/
theorem infer_sound_table_partial (opts : IOpts) (fuel : Nat) (T : GoType) (st : Store) (id : NodeId) (st' : Store)
    (re : String → String → Bool) (hnfs : opts.nullForSlices = true) (hdom : InDomainN T = true)
    (hacc : EntriesAccept opts st false T) (h : forType opts fuel T st = .ok (some id, st')) (v : GoValue)
    (hv : HasType T v) (fuel' : Nat) (hf : depth T ≤ fuel') :
    Spec.valid (specEnvNoRefs st' re) fuel' id (encode T v) = some true := by
  obtain ⟨id', hid, hm⟩ := inferFuel_modelsT opts hnfs st fuel T [] st (some id) st' (Ext.refl st) hdom hacc h
  cases hid
  rw [hnfs] at hm
  exact valid_iff_isSome.1 ((Models.sound (re := re) T false id hm fuel' [] hf).2 v hv)

/-- … and `ForType` never drops such a type -/
theorem infer_some_table_partial (opts : IOpts) (fuel : Nat) (T : GoType) (st : Store) (r : Option NodeId) (st' : Store)
    (hnfs : opts.nullForSlices = true) (hdom : InDomainN T = true) (hacc : EntriesAccept opts st false T)
    (h : forType opts fuel T st = .ok (r, st')) : ∃ id, r = some id := by
  obtain ⟨id, hid, _⟩ := inferFuel_modelsT opts hnfs st fuel T [] st r st' (Ext.refl st) hdom hacc h
  exact ⟨id, hid⟩

/-- the entry `{"type":"string"}` accepts the encodings of every marshaler type whose JSON form is a string, by value and
    through a pointer -/
theorem string_entry_accepts (st : Store) (sid : NodeId) (h : st.get? sid = some strNode) (an : Bool) :
    EntryAccepts st sid (.basic "String") an :=
  entryAccepts_string h an

/-- without entries for the declared types there is nothing to assume: `infer_sound_table_partial` is then `infer_sound`
    for every type with declared types on which `ForType` returns a schema -/
theorem no_entries_nothing_assumed (opts : IOpts) (st : Store) (h : opts.schemas = []) (T : GoType) :
    EntriesAccept opts st false T :=
  (entriesAccept_of_empty opts st h).1 T false

/-! ### entries of the type table that are schema trees -/

/-- **main, with entries of the type table**.  A declared type with an entry in the type table (`ForOptions.TypeSchemas`,
    the initial entries) gets a clone of the entry (`CloneSchemas`), with `null` added to the types of the clone's ROOT
    where the type is reached through a pointer.  Let every entry that `ForType` meets in `T` be a reference-free schema
    tree that accepts the encodings of its type (`EntriesAcceptTree`: for every declared type `.named n u` of `T` with an
    entry `sid` — outside `json:"-"` fields — `EntryAcceptsTree st sid u an`:
    * the entry is a full, finite, reference-free schema tree in the store that holds the table (`Go.treeAll Iso.noRefs`:
      objects with `properties`, `items`, `prefixItems`, `allOf` / `anyOf` / `oneOf` / `not`, `if` / `then` / `else`,
      `additionalProperties`, `patternProperties`, `contains`, `dependentSchemas`, `propertyNames`, `unevaluated*` … to
      any depth; what `checkStructure` accepts, shared subschemas included; no `$ref` / `$dynamicRef`);
    * it accepts `encode u v` for every value `v` of the type — Spec validity, with the fuel `depth u + 1` the schema of
      `u` itself would need (deeper entries: `infer_sound_table_deep`);
    * where the type is used through a pointer: its root has a type keyword (D17) and, with `null` added to the types of
      its root, the entry accepts `null`).
    Then the schema `ForType` returns accepts the JSON encoding of every value of `T`.  E.g. a type with a custom
    `MarshalJSON` and the entry `{"type":"object","properties":{"lat":{"type":"number"},"lon":{"type":"number"}},
    "required":["lat","lon"]}` (`point_entryAcceptsTree` below).
    Declared types without an entry are expanded and need no hypothesis, as in `infer_sound_table_partial`, which is the
    special case of entries without subschemas (`leaf_entries_are_tree_entries`).

    Proof: the clone is a node-by-node copy of the entry (`Go.cloneFuel_sim`, C20) whose subschemas are allocated before
    its root; validity is invariant under the renaming of node ids and blind to descriptions (`Iso.evalFuel_sim` along
    `Iso.TSim`), so it survives the rewriting of the root (`null` added: only the `type` assertion changes,
    `Iso.specBody_tableNull`), the later growth of the store and the descriptions the struct loop writes
    (`Go.namedLeaf_table`).

    Not covered: entries WITH `$ref` / `$dynamicRef` — at the root of the inferred schema they are fine
    (`infer_sound_table_root_refs`, from C20), below the root they are not: after cloning into the inferred schema a
    `#`-rooted reference is relative to the root of the INFERRED schema, not of the entry, so `Resolve` fails
    (`table_entry_with_ref_unresolvable`) or the reference changes its meaning and an encoded value is rejected
    (`table_entry_with_ref_changes_meaning`); the real package behaves the same —; an entry without a type keyword
    reached through a pointer (D17); an entry that rejects some encoding (big.Int's, D13). -/
theorem infer_sound_table (opts : IOpts) (fuel : Nat) (T : GoType) (st : Store) (id : NodeId) (st' : Store)
    (re : String → String → Bool) (hnfs : opts.nullForSlices = true) (hdom : InDomainN T = true)
    (hacc : EntriesAcceptTree opts st false T) (h : forType opts fuel T st = .ok (some id, st')) (v : GoValue)
    (hv : HasType T v) (fuel' : Nat) (hf : depth T ≤ fuel') :
    Spec.valid (specEnvNoRefs st' re) fuel' id (encode T v) = some true := by
  obtain ⟨id', hid, hm⟩ := inferFuel_modelsTT opts hnfs st fuel T [] st (some id) st' (Ext.refl st) hdom hacc h
  cases hid
  rw [hnfs] at hm
  exact valid_iff_isSome.1 ((Models.sound (re := re) T false id hm fuel' [] hf).2 v hv)

/-- … and `ForType` never drops such a type -/
theorem infer_some_table (opts : IOpts) (fuel : Nat) (T : GoType) (st : Store) (r : Option NodeId) (st' : Store)
    (hnfs : opts.nullForSlices = true) (hdom : InDomainN T = true) (hacc : EntriesAcceptTree opts st false T)
    (h : forType opts fuel T st = .ok (r, st')) : ∃ id, r = some id := by
  obtain ⟨id, hid, _⟩ := inferFuel_modelsTT opts hnfs st fuel T [] st r st' (Ext.refl st) hdom hacc h
  exact ⟨id, hid⟩

/-- **main, with entries of the type table of any depth**: `infer_sound_table` asks the entries to accept the encodings
    with the fuel `depth u + 1` that the schema of the type itself would need, i.e. not to be deeper than that schema.
    In general (`EntriesAcceptDeep opts st k false T`: every entry met accepts the encodings of its type with fuel
    `depth u + 1 + k`, otherwise as `EntryAcceptsTree`; `k = 0` is `EntriesAcceptTree`) the inferred schema accepts
    every encoded value with fuel `depth T + k`: the entries may be `k` levels deeper.
    Proof: `forType` never looks at the underlying type of a declared type that has an entry, so the type may be padded
    with `k` transparent declarations there (`Go.inferFuel_pad`), which changes neither typing nor json.Marshal and adds
    `k` to the depth; then `infer_sound_table`. -/
theorem infer_sound_table_deep (opts : IOpts) (fuel : Nat) (T : GoType) (st : Store) (id : NodeId) (st' : Store)
    (re : String → String → Bool) (hnfs : opts.nullForSlices = true) (hdom : InDomainN T = true) (k : Nat)
    (hacc : EntriesAcceptDeep opts st k false T) (h : forType opts fuel T st = .ok (some id, st')) (v : GoValue)
    (hv : HasType T v) (fuel' : Nat) (hf : depth T + k ≤ fuel') :
    Spec.valid (specEnvNoRefs st' re) fuel' id (encode T v) = some true := by
  have h' : forType opts fuel (padT opts k T) st = .ok (some id, st') := by
    show inferFuel opts fuel (padT opts k T) [] st = _
    rw [inferFuel_pad opts k fuel T [] st]
    exact h
  have := infer_sound_table opts fuel (padT opts k T) st id st' re hnfs (by rw [inDomainN_pad]; exact hdom)
    ((entriesAcceptTree_pad opts st k).1 T false hacc) h' v ((hasType_pad opts k T v).2 hv) fuel'
    (Nat.le_trans (depth_pad_le opts k T) hf)
  rwa [encode_pad] at this

/-- entries without subschemas and references — the hypothesis of `infer_sound_table_partial` — are tree entries -/
theorem leaf_entries_are_tree_entries (opts : IOpts) (st : Store) (T : GoType) (an : Bool)
    (h : EntriesAccept opts st an T) : EntriesAcceptTree opts st an T :=
  (entriesAcceptTree_of_leaves opts st).1 T an h

/-- … so `infer_sound_table_partial` is the special case of `infer_sound_table` for such entries -/
example (opts : IOpts) (fuel : Nat) (T : GoType) (st : Store) (id : NodeId) (st' : Store)
    (re : String → String → Bool) (hnfs : opts.nullForSlices = true) (hdom : InDomainN T = true)
    (hacc : EntriesAccept opts st false T) (h : forType opts fuel T st = .ok (some id, st')) (v : GoValue)
    (hv : HasType T v) (fuel' : Nat) (hf : depth T ≤ fuel') :
    Spec.valid (specEnvNoRefs st' re) fuel' id (encode T v) = some true :=
  infer_sound_table opts fuel T st id st' re hnfs hdom (leaf_entries_are_tree_entries opts st T false hacc) h v hv fuel' hf

/-! ### an entry WITH references at the root of the inferred schema -/

/-- **a declared type with an entry, at the ROOT** (`For[Point]()` where `TypeSchemas[Point]` is set; by value): the
    inferred schema is `CloneSchemas` of the entry, so — C20 `clone_validates_same` — if `Resolve` of the entry returns
    normally (self-contained: no Loader document), `Resolve` of the inferred schema, same options and base URI, returns
    normally too, with the same draft, and every instance gets from it exactly the Spec result it gets from the entry:
    whatever `$ref`, `$dynamicRef`, `$id`, `$anchor`, `$defs` the entry contains.  This is the one position where a
    `#`-rooted reference of an entry keeps its meaning (`table_entry_with_ref_unresolvable`,
    `table_entry_with_ref_changes_meaning` for the others). -/
theorem infer_table_root_refs (opts : IOpts) (fuel : Nat) (n : String) (u : GoType) (sid : NodeId) (st : Store)
    (r : Option NodeId) (st' : Store) (hl : Json.lookup n opts.schemas = some sid)
    (env : Go.Env) (hnd : Go.RIso.NoDocs env)
    (hroom : st.size + Go.cloneCount st (st.size + 1) sid ≤ 1000000000)
    (rfuel : Nat) (base : String) (rs : Go.Resolved)
    (hres : Go.resolve { env with st := st } rfuel sid base = .ok rs)
    (h : forType opts (fuel + 1) (.named n u) st = .ok (r, st')) :
    ∃ id rs', r = some id ∧ Go.resolve { env with st := st' } rfuel id base = .ok rs' ∧
      rs.draft = rs'.draft ∧ rs.log = rs'.log ∧
      ∀ (reMatch : String → String → Bool) (vfuel : Nat) (j : Json),
        Spec.evalFuel (Go.RIso.specOf st' rs' reMatch) vfuel [] id j =
          Spec.evalFuel (Go.RIso.specOf st rs reMatch) vfuel [] sid j := by
  obtain ⟨c, st1, rs', hc, hr', e1, e2, e3⟩ := C20.clone_validates_same st sid env hnd hroom rfuel base rs hres
  change inferStep opts (inferFuel opts fuel) (.named n u) [] st = _ at h
  rw [inferStep_table (t := .named n u) rfl rfl rfl hl, hc, Res.bind_ok] at h
  simp only at h
  cases hcn : st1.get? c with
  | none => rw [hcn] at h; cases h
  | some cn =>
    rw [hcn, Bool.and_false] at h
    simp only at h
    have : tableNull false cn = cn := rfl
    rw [this, set!_get?_self hcn] at h
    cases h
    exact ⟨c, rs', rfl, hr', e1, e2, e3⟩

/-- … hence soundness there: if the entry, resolved, accepts the encodings of the type, so does the inferred schema -/
theorem infer_sound_table_root_refs (opts : IOpts) (fuel : Nat) (n : String) (u : GoType) (sid : NodeId) (st : Store)
    (id : NodeId) (st' : Store) (hl : Json.lookup n opts.schemas = some sid)
    (env : Go.Env) (hnd : Go.RIso.NoDocs env)
    (hroom : st.size + Go.cloneCount st (st.size + 1) sid ≤ 1000000000)
    (rfuel : Nat) (base : String) (rs : Go.Resolved)
    (hres : Go.resolve { env with st := st } rfuel sid base = .ok rs)
    (h : forType opts (fuel + 1) (.named n u) st = .ok (some id, st'))
    (re : String → String → Bool) (vfuel : Nat)
    (hacc : ∀ v, HasType u v → Spec.valid (Go.RIso.specOf st rs re) vfuel sid (encode u v) = some true) :
    ∃ rs', Go.resolve { env with st := st' } rfuel id base = .ok rs' ∧
      ∀ v, HasType (.named n u) v → Spec.valid (Go.RIso.specOf st' rs' re) vfuel id (encode (.named n u) v) = some true := by
  obtain ⟨id', rs', hid, hr', -, -, e⟩ :=
    infer_table_root_refs opts fuel n u sid st (some id) st' hl env hnd hroom rfuel base rs hres h
  cases hid
  refine ⟨rs', hr', fun v hv => ?_⟩
  simp only [HasType] at hv
  simp only [encode]
  unfold Spec.valid
  rw [e re vfuel (encode u v)]
  exact hacc v hv

/-! ### the hypotheses of `infer_sound_named` are satisfiable, and needed (labelled tests)

  `tagLookup` splits the tag with `String.splitOn`, which the kernel does not evaluate; what the tag parser returns for
  each tag is a hypothesis here (the parser is specified in C16: `fieldJSONInfo_named`, `fieldJSONInfo_no_tag`). -/

/-- `type Point struct { X int "json:\"x\""; Y int "json:\"y,omitempty\"" }` -/
def pointT (tX tY : String) : GoType := .named "Point" (.struct [("X", tX, .basic "Int"), ("Y", tY, .basic "Int")])

/-- `type Celsius float64` and
    `type Reading struct { Temp Celsius "json:\"temp\""; Origin Point "json:\"origin\""; Path []Point "json:\"path\"";
                           At time.Time "json:\"at\"" }`:
    a declared struct type with a declared scalar type, a declared struct type at two sibling positions (once in a
    slice) and a marshaler type of the initial table -/
def readingT (tT tO tP tA tX tY : String) : GoType :=
  .named "Reading" (.struct [
    ("Temp", tT, .named "Celsius" (.basic "Float64")),
    ("Origin", tO, pointT tX tY),
    ("Path", tP, .slice (pointT tX tY)),
    ("At", tA, .named "time.Time" (.basic "String"))])

/-- the options of a call without `TypeSchemas`: the initial table -/
def initialOpts : IOpts := { schemas := initialTable }

/-- the declared types of `Reading` are transparent, time.Time is a marshaler type of the table (no tag is read) -/
theorem reading_namedOk (tT tO tP tA tX tY : String) :
    NamedOk initialOpts marshalerTypes [] (readingT tT tO tP tA tX tY) = true := by
  simp [readingT, pointT, NamedOk, namedOkFields, initialOpts, initialTable, marshalerTypes, namedShape, isStringKind,
    Json.lookup]

section WitnessesN
variable (tT tO tP tA tX tY : String)
  (hT : fieldJSONInfo "Temp" tT = { name := "temp" }) (hO : fieldJSONInfo "Origin" tO = { name := "origin" })
  (hP : fieldJSONInfo "Path" tP = { name := "path" }) (hA : fieldJSONInfo "At" tA = { name := "at" })
  (hX : fieldJSONInfo "X" tX = { name := "x" }) (hY : fieldJSONInfo "Y" tY = { name := "y", omitempty := true })
include hT hO hP hA hX hY

theorem reading_inDomainN : InDomainN (readingT tT tO tP tA tX tY) = true := by
  have v1 : validTagName "temp" = true := by decide
  have v2 : validTagName "path" = true := by decide
  have v3 : validTagName "at" = true := by decide
  have v4 : validTagName "x" = true := by decide
  have v5 : validTagName "y" = true := by decide
  have v6 : validTagName "origin" = true := by decide
  have d1 : "Int" ∈ domainKinds := by decide
  have d2 : "String" ∈ domainKinds := by decide
  have d3 : "Float64" ∈ domainKinds := by decide
  simp [readingT, pointT, InDomainN, inDomainFieldsN, jsonNames, nodup, fieldTagOk, hT, hO, hP, hA, hX, hY, v1, v2, v3, v4,
    v5, v6, d1, d2, d3]

/-- the value `Reading{Temp: 20, Origin: Point{0, 0}, Path: []Point{{X: 1, Y: 0}}, At: t}` where `t.MarshalJSON()` is
    `"2026-09-30T00:00:00Z"` -/
theorem reading_hasType : HasType (readingT tT tO tP tA tX tY)
    (.struct [.float 20, .struct [.int 0, .int 0], .slice [.struct [.int 1, .int 0]], .str "2026-09-30T00:00:00Z"]) := by
  simp [readingT, pointT, HasType, HasTypeFields, hT, hO, hP, hA, hX, hY, basicHasType, intRange, floatKinds]
  exact ⟨⟨_, _, ⟨rfl, rfl⟩, by decide, by decide⟩, ⟨_, _, ⟨rfl, rfl⟩, by decide, by decide⟩,
    ⟨_, _, ⟨rfl, rfl⟩, by decide, by decide⟩⟩

/-- `ForType` succeeds on the type (the initial table, the store that holds `ss`): `h` below is satisfiable -/
theorem reading_infers (dT : tagLookup "jsonschema" tT = none) (dO : tagLookup "jsonschema" tO = none)
    (dP : tagLookup "jsonschema" tP = none) (dA : tagLookup "jsonschema" tA = none)
    (dX : tagLookup "jsonschema" tX = none) (dY : tagLookup "jsonschema" tY = none) :
    ∃ id st', forType initialOpts 5 (readingT tT tO tP tA tX tY) #[strNode] = .ok (some id, st') := by
  rw [forType_erase initialOpts marshalerTypes 5 _ _ (strEntries_initial _ rfl) (reading_namedOk tT tO tP tA tX tY)]
  have kF : kindEntry "Float64" = some ("number", none, none) := by decide
  have kI : kindEntry "Int" = some ("integer", none, none) := by decide
  have kS : kindEntry "String" = some ("string", none, none) := by decide
  simp [readingT, pointT, erase, eraseFields, forType, inferFuel, inferStep, stripPtrs, typeName, structLoop, hT, hO, hP, hA,
    hX, hY, dT, dO, dP, dA, dX, dY, Res.bind_ok, Store.alloc, addNull, dedupKeepLast, kF, kI, kS]

/-- `infer_sound_initial_table` applied: the value marshals to
    `{"temp":20,"origin":{"x":0},"path":[{"x":1}],"at":"2026-09-30T00:00:00Z"}` (`y` is 0 and omitempty), which the
    inferred schema accepts -/
example (id : NodeId) (st' : Store)
    (h : forType initialOpts 5 (readingT tT tO tP tA tX tY) #[strNode] = .ok (some id, st')) :
    Spec.valid (specEnvNoRefs st') 6 id
      (.obj [("temp", .num 20), ("origin", .obj [("x", .num 0)]), ("path", .arr [.obj [("x", .num 1)]]),
             ("at", .str "2026-09-30T00:00:00Z")]) = some true := by
  have := infer_sound_initial_table initialOpts 5 _ #[strNode] id st' (fun _ _ => false) rfl rfl rfl
    (reading_inDomainN tT tO tP tA tX tY hT hO hP hA hX hY) (reading_namedOk tT tO tP tA tX tY) h _
    (reading_hasType tT tO tP tA tX tY hT hO hP hA hX hY) 6 (by simp [readingT, pointT, depth, depthFields])
  simpa [readingT, pointT, encode, encodeFields, hT, hO, hP, hA, hX, hY, fieldSkipped, isEmptyValue] using this

end WitnessesN

/-! ### the hypotheses of `infer_sound_table_partial` are satisfiable (labelled tests) -/

/-- an entry `{"type": ty}` accepts the encodings of a type all of whose encodings have the JSON type `ty` -/
theorem type_entry_accepts (st : Store) (sid : NodeId) (ty : String) (u : GoType) (hty : ty ≠ "")
    (h : st.get? sid = some { type := ty }) (hu : ∀ v, HasType u v → typeMatches ty (encode u v) = true) (an : Bool) :
    EntryAccepts st sid u an :=
  entryAccepts_typeOnly hty h hu an

/-- `Reading` and the initial table: the one entry met is time.Time's -/
theorem reading_entriesAccept (tT tO tP tA tX tY : String) :
    EntriesAccept initialOpts #[strNode] false (readingT tT tO tP tA tX tY) := by
  simp [readingT, pointT, EntriesAccept, EntriesAcceptFields, initialOpts, initialTable, Json.lookup]
  exact Or.inr (string_entry_accepts _ _ rfl false)

/-- `infer_sound_table_partial` applied to `Reading` (no `NamedOk` is asked for) -/
example (tT tO tP tA tX tY : String)
    (hT : fieldJSONInfo "Temp" tT = { name := "temp" }) (hO : fieldJSONInfo "Origin" tO = { name := "origin" })
    (hP : fieldJSONInfo "Path" tP = { name := "path" }) (hA : fieldJSONInfo "At" tA = { name := "at" })
    (hX : fieldJSONInfo "X" tX = { name := "x" }) (hY : fieldJSONInfo "Y" tY = { name := "y", omitempty := true })
    (id : NodeId) (st' : Store) (h : forType initialOpts 5 (readingT tT tO tP tA tX tY) #[strNode] = .ok (some id, st')) :
    Spec.valid (specEnvNoRefs st') 6 id
      (.obj [("temp", .num 20), ("origin", .obj [("x", .num 0)]), ("path", .arr [.obj [("x", .num 1)]]),
             ("at", .str "2026-09-30T00:00:00Z")]) = some true := by
  have := infer_sound_table_partial initialOpts 5 _ #[strNode] id st' (fun _ _ => false) rfl
    (reading_inDomainN tT tO tP tA tX tY hT hO hP hA hX hY) (reading_entriesAccept tT tO tP tA tX tY) h _
    (reading_hasType tT tO tP tA tX tY hT hO hP hA hX hY) 6 (by simp [readingT, pointT, depth, depthFields])
  simpa [readingT, pointT, encode, encodeFields, hT, hO, hP, hA, hX, hY, fieldSkipped, isEmptyValue] using this

/-- `type Celsius float64` with `TypeSchemas[Celsius] = {"type":"number"}`, used through a pointer:
    `struct { T *Celsius "json:\"t\"" }` -/
def celsiusOpts : IOpts := { schemas := [("Celsius", 0)] }

theorem celsius_entriesAccept (tT : String) :
    EntriesAccept celsiusOpts #[{ type := "number" }] false (.struct [("T", tT, .ptr (.named "Celsius" (.basic "Float64")))]) := by
  simp [EntriesAccept, EntriesAcceptFields, celsiusOpts]
  refine Or.inr (entryAccepts_typeOnly (by decide) rfl (fun v hv => ?_) true)
  cases v with
  | float q => by_cases hq : q.den = 1 <;> simp [encode, typeMatches, Json.typeName, hq]
  | int i => obtain ⟨lo, hi, hr, _⟩ := (show ∃ lo hi, intRange "Float64" = some (lo, hi) ∧ lo ≤ i ∧ i ≤ hi from hv); simp [intRange] at hr
  | _ => simp [HasType, basicHasType] at hv


/-- `infer_sound_table_partial` applied: `{"t":null}` (the nil pointer) and `{"t":20}` are accepted by the schema inferred
    with `TypeSchemas[Celsius] = {"type":"number"}` -/
example (tT : String) (hT : fieldJSONInfo "T" tT = { name := "t" }) (id : NodeId) (st' : Store)
    (h : forType celsiusOpts 3 (.struct [("T", tT, .ptr (.named "Celsius" (.basic "Float64")))]) #[{ type := "number" }]
      = .ok (some id, st')) :
    Spec.valid (specEnvNoRefs st') 3 id (.obj [("t", .null)]) = some true ∧
    Spec.valid (specEnvNoRefs st') 3 id (.obj [("t", .num 20)]) = some true := by
  have hd : InDomainN (.struct [("T", tT, .ptr (.named "Celsius" (.basic "Float64")))]) = true := by
    have v1 : validTagName "t" = true := by decide
    have d1 : "Float64" ∈ domainKinds := by decide
    simp [InDomainN, inDomainFieldsN, jsonNames, nodup, fieldTagOk, hT, v1, d1]
  have key := fun v hv => infer_sound_table_partial celsiusOpts 3 _ #[{ type := "number" }] id st' (fun _ _ => false) rfl hd
    (celsius_entriesAccept tT) h v hv 3 (by simp [depth, depthFields])
  constructor
  · have := key (.struct [.nilPtr]) (by simp [HasType, HasTypeFields, hT])
    simpa [encode, encodeFields, hT, fieldSkipped] using this
  · have := key (.struct [.ptr (.float 20)]) (by simp [HasType, HasTypeFields, hT, basicHasType, floatKinds])
    simpa [encode, encodeFields, hT, fieldSkipped] using this

/-- … and evaluated (no tag: the field name is `T`), with a non-number rejected -/
example : (match forType celsiusOpts 3 (.ptr (.named "Celsius" (.basic "Float64"))) #[{ type := "number" }] with
    | .ok (some id, st') => [Spec.valid (specEnvNoRefs st') 1 id .null, Spec.valid (specEnvNoRefs st') 1 id (.num 20),
        Spec.valid (specEnvNoRefs st') 1 id (.str "x")]
    | _ => []) = [some true, some true, some false] := by decide

/-- the hypothesis on the type keyword is needed (known finding D17): `TypeSchemas[Celsius] = {}` ("anything") reached
    through a pointer becomes `{"type":["null"]}`, which rejects every number -/
example : (match forType celsiusOpts 3 (.ptr (.named "Celsius" (.basic "Float64"))) #[{}] with
    | .ok (some id, st') => [Spec.valid (specEnvNoRefs st') 1 id .null, Spec.valid (specEnvNoRefs st') 1 id (.num 20)]
    | _ => []) = [some true, some false] := by decide

/-! ### the hypotheses of `infer_sound_table` are satisfiable, and needed (labelled tests) -/

/-- the store of the caller: `TypeSchemas[Point]` is node 2,
    `{"type":"object","properties":{"lat":{"type":"number"},"lon":{"type":"number"}},"required":["lat","lon"]}` -/
def geoStore : Store := #[
  { type := "number" },
  { type := "number" },
  { type := "object", properties := some [("lat", 0), ("lon", 1)], required := some ["lat", "lon"] }]

/-- the root of the entry, and of its clones -/
def geoNode (a b : NodeId) : Node :=
  { type := "object", properties := some [("lat", a), ("lon", b)], required := some ["lat", "lon"] }

/-- `CloneSchemas` of the entry, in any store that holds it -/
theorem clone_geo {S : Store} (h0 : S.get? 0 = some { type := "number" }) (h1 : S.get? 1 = some { type := "number" })
    (h2 : S.get? 2 = some (geoNode 0 1)) :
    clone S 2 = .ok (S.size + 2, ((S.push { type := "number" }).push { type := "number" }).push (geoNode S.size (S.size + 1))) := by
  have h1' : Store.get? (S.push { type := "number" }) 1 = some { type := "number" } := (Ext.push S _).get? h1
  have e0 : cloneFuel (S.size + 1) 0 S = .ok (S.size, S.push { type := "number" }) :=
    cloneStep_leaf h0 (leafSchema_typeOnly "number")
  have e1 : cloneFuel (S.size + 1) 1 (S.push { type := "number" }) =
      .ok ((S.push { type := "number" }).size, (S.push { type := "number" }).push { type := "number" }) :=
    cloneStep_leaf h1' (leafSchema_typeOnly "number")
  show cloneStep (cloneFuel (S.size + 1)) 2 S = _
  unfold cloneStep
  rw [h2]
  simp only [geoNode, cloneMap, cloneEntries, cloneOpt, cloneList, e0, e1, Res.bind_ok, Store.alloc, Array.size_push]

/-- `ForOptions{TypeSchemas: {Point: …}}` -/
def geoOpts : IOpts := { schemas := [("Point", 2)] }
/-- `type Point struct { Lat float64 "json:\"lat\""; Lon float64 "json:\"lon\"" }` — e.g. with a `MarshalJSON` of its own
    that writes `{"lat":…,"lon":…}` — and
    `type Trip struct { At Point "json:\"at\""; Track []Point "json:\"track\""; Home *Point "json:\"home\"" }` -/
def geoU (tLat tLon : String) : GoType := .struct [("Lat", tLat, .basic "Float64"), ("Lon", tLon, .basic "Float64")]
def geoT (tLat tLon : String) : GoType := .named "Point" (geoU tLat tLon)
def tripT (tA tT tH tLat tLon : String) : GoType :=
  .struct [("At", tA, geoT tLat tLon), ("Track", tT, .slice (geoT tLat tLon)), ("Home", tH, .ptr (geoT tLat tLon))]

/-- `forType` on `Point` / `*Point`: the clone of the entry, `null` added for the pointer -/
theorem inferFuel_geo (tLat tLon : String) (f : Nat) {T : GoType} {an : Bool} (hs : stripPtrs T = (geoT tLat tLon, an))
    {seen : List String} (hseen : seen.contains "Point" = false) {S : Store} (hS : Ext geoStore S) :
    ∃ fid S', inferFuel geoOpts (f + 1) T seen S = .ok (some fid, S') ∧ Ext geoStore S' := by
  have h0 : S.get? 0 = some { type := "number" } := hS.get? (i := 0) rfl
  have h1 : S.get? 1 = some { type := "number" } := hS.get? (i := 1) rfl
  have h2 : S.get? 2 = some (geoNode 0 1) := hS.get? (i := 2) rfl
  refine ⟨S.size + 2, ((S.push { type := "number" }).push { type := "number" }).push
    (tableNull an (geoNode S.size (S.size + 1))), ?_,
    hS.trans ((Ext.push _ _).trans ((Ext.push _ _).trans (Ext.push _ _)))⟩
  show inferStep geoOpts (inferFuel geoOpts f) T seen S = _
  rw [inferStep_table (t := geoT tLat tLon) hs rfl hseen rfl, clone_geo h0 h1 h2, Res.bind_ok]
  have hsz : ((S.push { type := "number" }).push { type := "number" }).size = S.size + 2 := by
    simp only [Array.size_push]
  have hg := get?_push_size ((S.push { type := "number" }).push { type := "number" }) (geoNode S.size (S.size + 1))
  have hset := set!_push_size ((S.push { type := "number" }).push { type := "number" }) (geoNode S.size (S.size + 1))
      (tableNull an (geoNode S.size (S.size + 1)))
  rw [hsz] at hg hset
  simp only [hg]
  rw [show (geoOpts.nullForSlices && an) = an from rfl, hset]

/-- … on `[]Point` -/
theorem inferFuel_geo_slice (tLat tLon : String) (f : Nat) {S : Store} (hS : Ext geoStore S) :
    ∃ fid S', inferFuel geoOpts (f + 2) (.slice (geoT tLat tLon)) [] S = .ok (some fid, S') ∧ Ext geoStore S' := by
  obtain ⟨fid, S', h, hS'⟩ := inferFuel_geo tLat tLon f (T := geoT tLat tLon) rfl (seen := []) rfl hS
  refine ⟨S'.size, S'.push (addNull false (sliceNode geoOpts.nullForSlices fid)), ?_, hS'.trans (Ext.push _ _)⟩
  show inferStep geoOpts (inferFuel geoOpts (f + 1)) (.slice (geoT tLat tLon)) [] S = _
  rw [inferStep_slice rfl, h, Res.bind_ok]

def geoRoot : Node := geoNode 0 1

theorem plain_geoRoot (b : Bool) : Plain (tableNull b geoRoot) := by
  cases b <;> exact ⟨rfl, rfl, rfl, rfl, rfl, rfl, rfl, rfl, rfl, rfl, rfl⟩

theorem number_leaf_valid {st : Store} {re : String → String → Bool} {id : NodeId} (h : st.get? id = some { type := "number" })
    (f : Nat) (sc : List NodeId) (q : Rat) : Valid (evalFuel (specEnvNoRefs st re) (f + 1) sc id (.num q)) := by
  refine (leaf_valid_iff (HasNode.of_get h) (leafSchema_typeOnly "number") f sc _).2 ?_
  by_cases hq : q.den = 1 <;>
    simp [asserts, typeOk, typeMatches, Json.typeName, hq, enumOk, constOk, numericOk, stringOk, arrayLimitsOk, objectLimitsOk]

theorem float64_value {v : GoValue} (h : basicHasType "Float64" v) : ∃ q, v = .float q := by
  cases v with
  | float q => exact ⟨q, rfl⟩
  | int i => obtain ⟨lo, hi, hr, _⟩ := h; simp [intRange] at hr
  | _ => simp [basicHasType] at h

/-- **the entry accepts the encodings of `Point`**, by value and through a pointer: `EntryAcceptsTree` holds -/
theorem geo_entryAcceptsTree (tLat tLon : String) (hLat : fieldJSONInfo "Lat" tLat = { name := "lat" })
    (hLon : fieldJSONInfo "Lon" tLon = { name := "lon" }) (an : Bool) :
    EntryAcceptsTree geoStore 2 (geoU tLat tLon) an := by
  refine ⟨geoRoot, 2, rfl, by decide, fun re v hv => ?_, fun _ => ⟨Or.inl (by decide), fun re => ?_⟩⟩
  · obtain ⟨q1, q2, rfl⟩ : ∃ q1 q2, v = .struct [.float q1, .float q2] := by
      cases v with
      | struct vs =>
        simp only [geoU, HasType, HasTypeFields, hLat, hLon] at hv
        rcases vs with _ | ⟨a, _ | ⟨b, vs⟩⟩
        · exact hv.elim
        · exact hv.2.elim
        · simp only [Bool.false_eq_true, false_or] at hv
          obtain ⟨q1, rfl⟩ := float64_value hv.1
          obtain ⟨q2, rfl⟩ := float64_value hv.2.1
          rw [hv.2.2]
          exact ⟨q1, q2, rfl⟩
      | _ => simp [geoU, HasType] at hv
    have henc : encode (geoU tLat tLon) (.struct [.float q1, .float q2]) = .obj [("lat", .num q1), ("lon", .num q2)] := by
      simp [geoU, encode, encodeFields, hLat, hLon, fieldSkipped]
    rw [henc]
    refine valid_iff_isSome.1 ((evalFuel_frag (HasNode.of_get (m := geoRoot) rfl) (plain_geoRoot false) _ [] _).2
      ⟨⟨_, kwNot_none rfl _⟩, kwItems_none rfl rfl rfl _, ?_, ?_⟩)
    · refine kwProps_obj_valid rfl fun p hp => ⟨fun t ht => ?_, fun hl t ht => ?_⟩
      · simp only [List.mem_cons, List.not_mem_nil, or_false] at hp
        rcases hp with rfl | rfl
        · obtain rfl : t = 0 := by simpa [geoRoot, geoNode, Json.lookup] using ht.symm
          exact number_leaf_valid rfl _ _ q1
        · obtain rfl : t = 1 := by simpa [geoRoot, geoNode, Json.lookup] using ht.symm
          exact number_leaf_valid rfl _ _ q2
      · cases ht
    · simp [asserts, typeOk, geoRoot, geoNode, typeMatches, Json.typeName, enumOk, constOk, numericOk, stringOk, arrayLimitsOk,
        objectLimitsOk, specEnvNoRefs, Json.lookup]
  · refine valid_iff_isSome.1 ((evalFuel_frag (st := geoStore.push (tableNull true geoRoot)) (HasNode.of_get (m := tableNull true geoRoot) rfl)
      (plain_geoRoot true) _ [] _).2 ⟨⟨_, kwNot_none rfl _⟩, kwItems_none rfl rfl rfl _, ⟨_, kwProps_nonobj rfl⟩, ?_⟩)
    simp [asserts, typeOk, geoRoot, geoNode, tableNull, typeMatches, Json.typeName, enumOk, constOk, numericOk, stringOk, arrayLimitsOk,
        objectLimitsOk]

/-- `ForType` succeeds on `Trip` (computed: three clones of the entry): `h` of `infer_sound_table` is satisfiable -/
theorem trip_infers (tA tT tH tLat tLon : String)
    (hA : fieldJSONInfo "At" tA = { name := "at" }) (hT : fieldJSONInfo "Track" tT = { name := "track" })
    (hH : fieldJSONInfo "Home" tH = { name := "home" })
    (dA : tagLookup "jsonschema" tA = none) (dT : tagLookup "jsonschema" tT = none)
    (dH : tagLookup "jsonschema" tH = none) :
    ∃ id st', forType geoOpts 3 (tripT tA tT tH tLat tLon) geoStore = .ok (some id, st') := by
  show ∃ id st', inferStep geoOpts (inferFuel geoOpts 2) (tripT tA tT tH tLat tLon) [] geoStore = _
  rw [inferStep_struct (fields := [("At", tA, geoT tLat tLon), ("Track", tT, .slice (geoT tLat tLon)), ("Home", tH, .ptr (geoT tLat tLon))]) (an := false) rfl]
  obtain ⟨f1, S2, e1, i2⟩ := inferFuel_geo tLat tLon 1 (T := geoT tLat tLon) rfl (seen := []) rfl
    (S := (geoStore.push emptyNode).push (falseNode geoStore.size)) ((Ext.push _ _).trans (Ext.push _ _))
  rw [structLoop_step (by rw [hA]) dA e1]
  obtain ⟨f2, S3, e2, i3⟩ := inferFuel_geo_slice tLat tLon 0 i2
  rw [structLoop_step (by rw [hT]) dT e2]
  obtain ⟨f3, S4, e3, i4⟩ := inferFuel_geo tLat tLon 1 (T := .ptr (geoT tLat tLon)) rfl (seen := []) rfl i3
  rw [structLoop_step (by rw [hH]) dH e3]
  simp only [structLoop, Res.bind_ok]
  exact ⟨_, _, rfl⟩

/-- the three uses of `Point` in `Trip`: by value, in a slice, through a pointer -/
theorem trip_entriesAcceptTree (tA tT tH tLat tLon : String) (hLat : fieldJSONInfo "Lat" tLat = { name := "lat" })
    (hLon : fieldJSONInfo "Lon" tLon = { name := "lon" }) :
    EntriesAcceptTree geoOpts geoStore false (tripT tA tT tH tLat tLon) := by
  simp only [tripT, geoT, EntriesAcceptTree, EntriesAcceptTreeFields, geoOpts, Json.lookup]
  exact ⟨Or.inr (geo_entryAcceptsTree tLat tLon hLat hLon false), Or.inr (geo_entryAcceptsTree tLat tLon hLat hLon false),
    Or.inr (geo_entryAcceptsTree tLat tLon hLat hLon true), trivial⟩

section WitnessesT
variable (tA tT tH tLat tLon : String)
  (hA : fieldJSONInfo "At" tA = { name := "at" }) (hT : fieldJSONInfo "Track" tT = { name := "track" })
  (hH : fieldJSONInfo "Home" tH = { name := "home" })
  (hLat : fieldJSONInfo "Lat" tLat = { name := "lat" }) (hLon : fieldJSONInfo "Lon" tLon = { name := "lon" })
include hA hT hH hLat hLon

theorem trip_inDomainN : InDomainN (tripT tA tT tH tLat tLon) = true := by
  have v1 : validTagName "at" = true := by decide
  have v2 : validTagName "track" = true := by decide
  have v3 : validTagName "home" = true := by decide
  have v4 : validTagName "lat" = true := by decide
  have v5 : validTagName "lon" = true := by decide
  have d1 : "Float64" ∈ domainKinds := by decide
  simp [tripT, geoT, geoU, InDomainN, inDomainFieldsN, jsonNames, nodup, fieldTagOk, hA, hT, hH, hLat, hLon, v1, v2, v3, v4,
    v5, d1]

/-- the value `Trip{At: Point{1.5, 2}, Track: []Point{{3, 4}}, Home: nil}` -/
theorem trip_hasType : HasType (tripT tA tT tH tLat tLon)
    (.struct [.struct [.float (3/2), .float 2], .slice [.struct [.float 3, .float 4]], .nilPtr]) := by
  simp [tripT, geoT, geoU, HasType, HasTypeFields, hA, hT, hH, hLat, hLon, basicHasType, floatKinds]

/-- `infer_sound_table` applied: the value marshals to
    `{"at":{"lat":1.5,"lon":2},"track":[{"lat":3,"lon":4}],"home":null}`, which the inferred schema accepts -/
example (id : NodeId) (st' : Store) (h : forType geoOpts 3 (tripT tA tT tH tLat tLon) geoStore = .ok (some id, st')) :
    Spec.valid (specEnvNoRefs st') 5 id
      (.obj [("at", .obj [("lat", .num (3/2)), ("lon", .num 2)]), ("track", .arr [.obj [("lat", .num 3), ("lon", .num 4)]]),
             ("home", .null)]) = some true := by
  have := infer_sound_table geoOpts 3 _ geoStore id st' (fun _ _ => false) rfl
    (trip_inDomainN tA tT tH tLat tLon hA hT hH hLat hLon) (trip_entriesAcceptTree tA tT tH tLat tLon hLat hLon) h _
    (trip_hasType tA tT tH tLat tLon hA hT hH hLat hLon) 5 (by simp [tripT, geoT, geoU, depth, depthFields])
  simpa [tripT, geoT, geoU, encode, encodeFields, hA, hT, hH, hLat, hLon, fieldSkipped] using this
end WitnessesT

/-- … evaluated, on `Point` and `*Point` alone (no tag is read): the clone accepts `{"lat":1.5,"lon":2}`, rejects
    `{"lat":1.5}` (required) and `{"lat":"x","lon":2}` (the subschema of `lat`), and accepts `null` through the pointer only -/
example : (match forType geoOpts 2 (.named "Point" (.basic "Bool")) geoStore,
                 forType geoOpts 2 (.ptr (.named "Point" (.basic "Bool"))) geoStore with
    | .ok (some id, st'), .ok (some idp, stp) =>
      [Spec.valid (specEnvNoRefs st') 2 id (.obj [("lat", .num (3/2)), ("lon", .num 2)]),
       Spec.valid (specEnvNoRefs st') 2 id (.obj [("lat", .num (3/2))]),
       Spec.valid (specEnvNoRefs st') 2 id (.obj [("lat", .str "x"), ("lon", .num 2)]),
       Spec.valid (specEnvNoRefs st') 2 id .null,
       Spec.valid (specEnvNoRefs stp) 2 idp .null,
       Spec.valid (specEnvNoRefs stp) 2 idp (.obj [("lat", .num (3/2)), ("lon", .num 2)])]
    | _, _ => []) = [some true, some false, some false, some false, some true, some true] := by decide +kernel

/-- the hypothesis on the entry is needed: with `"lat": {"type":"integer"}` in the entry (`TypeSchemas[Point]` written for
    another `Point`), the inferred schema rejects the encoding `{"lat":1.5,"lon":2}` of `Point{1.5, 2}` -/
example : (match forType geoOpts 2 (.named "Point" (.basic "Bool"))
      #[{ type := "integer" }, { type := "number" }, geoNode 0 1] with
    | .ok (some id, st') => Spec.valid (specEnvNoRefs st') 2 id (.obj [("lat", .num (3/2)), ("lon", .num 2)])
    | _ => none) = some false := by decide +kernel

/-- … and so is the clause on `null` for pointers, beyond the type keyword at the root (D17): the entry
    `{"type":"object","allOf":[{"type":"object"}]}` has a type keyword, but with `null` added to the types of its root
    it still rejects `null` — the `allOf` branch does — so the schema inferred for `*Point` rejects the nil pointer -/
example : (match forType { schemas := [("Point", 1)] } 2 (.ptr (.named "Point" (.basic "Bool")))
      #[{ type := "object" }, { type := "object", allOf := some [0] }] with
    | .ok (some id, st') => [Spec.valid (specEnvNoRefs st') 2 id .null, Spec.valid (specEnvNoRefs st') 2 id (.obj [])]
    | _ => []) = [some false, some true] := by decide +kernel

/-! ### … of `infer_sound_table_deep` (labelled tests) -/

/-- `TypeSchemas[Celsius] = {"type":"number","allOf":[{"anyOf":[{"type":"number"},{"type":"string"}]}]}` (node 3): three
    levels, one more than the schema `{"type":"number"}` of `float64` under a declared type -/
def deepStore : Store := #[
  { type := "number" },
  { type := "string" },
  { anyOf := some [0, 1] },
  { type := "number", allOf := some [2] }]

def deepOpts : IOpts := { schemas := [("Celsius", 3)] }

theorem deep_num_valid (re : String → String → Bool) (q : Rat) :
    Spec.valid (specEnvNoRefs deepStore re) 3 3 (.num q) = some true := by
  by_cases hq : q.den = 1 <;>
  simp [Spec.valid, evalFuel, evalStep, specEnvNoRefs, Store.get?, deepStore, kwRef, inPlace, kwDynamicRef, kwAllOf, kwAnyOf,
    kwOneOf, kwNot, kwIf, kwItems, kwContains, kwProps, kwPropertyNames, kwDependentSchemas,
    kwUnevaluatedItems, kwUnevaluatedProps, sequence, conj, typeOk, typeMatches, Json.typeName, hq, enumOk, constOk,
    numericOk, stringOk, arrayLimitsOk, objectLimitsOk, validCount, validUnion, Ev.unions, Ev.union]

/-- the entry accepts the encodings of `Celsius` with one level of extra depth (by value) … -/
theorem deep_entryAccepts : EntryAcceptsDeep deepStore 3 (.basic "Float64") false 1 := by
  refine ⟨_, 3, rfl, by decide, fun re v hv => ?_, fun h => nomatch h⟩
  obtain ⟨q, rfl⟩ := float64_value hv
  exact deep_num_valid re q

/-- … but not with the fuel of `infer_sound_table`: two levels of fuel do not reach the leaves -/
example : Spec.valid (specEnvNoRefs deepStore) 2 3 (.num 20) = none := by decide

/-- `infer_sound_table_deep` applied to `[]Celsius`: `[20, 21.5]` is accepted, with fuel `depth T + 1` -/
example (id : NodeId) (st' : Store)
    (h : forType deepOpts 3 (.slice (.named "Celsius" (.basic "Float64"))) deepStore = .ok (some id, st')) :
    Spec.valid (specEnvNoRefs st') 4 id (.arr [.num 20, .num (43/2)]) = some true := by
  have := infer_sound_table_deep deepOpts 3 (.slice (.named "Celsius" (.basic "Float64"))) deepStore id st' (fun _ _ => false)
    rfl (by decide) 1 (by simpa [EntriesAcceptDeep, deepOpts, Json.lookup] using deep_entryAccepts) h
    (.slice [.float 20, .float (43/2)]) (by simp [HasType, basicHasType, floatKinds]) 4 (by decide)
  simpa [encode] using this

/-- … and evaluated -/
example : (match forType deepOpts 3 (.slice (.named "Celsius" (.basic "Float64"))) deepStore with
    | .ok (some id, st') => [Spec.valid (specEnvNoRefs st') 4 id (.arr [.num 20, .num (43/2)]),
        Spec.valid (specEnvNoRefs st') 3 id (.arr [.num 20]), Spec.valid (specEnvNoRefs st') 4 id (.arr [.bool true])]
    | _ => []) = [some true, none, some false] := by decide +kernel

/-! ### entries WITH references (labelled tests): after cloning, a `#`-rooted reference is relative to the inferred root -/

/-- `TypeSchemas[Point] = {"$defs":{"coord":{"type":"number"}},"type":"object","properties":{"lat":{"$ref":"#/$defs/coord"},
    "lon":{"$ref":"#/$defs/coord"}},"required":["lat","lon"]}` (node 3) -/
def refStore : Store := #[
  { type := "number" },
  { ref := "#/$defs/coord" },
  { ref := "#/$defs/coord" },
  { type := "object", defs := some [("coord", 0)], properties := some [("lat", 1), ("lon", 2)], required := some ["lat", "lon"] }]

/-- `Resolve` (no Loader, empty base URI) and then validate: the verdict of the Spec over the tables `Resolve` computes -/
def resolvedValid (st : Store) (root : NodeId) (j : Json) : Res (Option Bool) :=
  (Go.resolve { st := st, reOk := fun _ => true, loader := none } 4 root "").bind fun rs =>
    .ok (Spec.valid (Go.RIso.specOf st rs fun _ _ => false) 6 root j)

/-- the entry on its own resolves and accepts `{"lat":1.5,"lon":2}` -/
example : resolvedValid refStore 3 (.obj [("lat", .num (3/2)), ("lon", .num 2)]) = .ok (some true) := by decide +kernel

/-- at the ROOT of the inferred schema (`For[Point]`) the clone resolves like the entry (`infer_table_root_refs`) -/
example : (match forType { schemas := [("Point", 3)] } 2 (.named "Point" (.basic "Bool")) refStore with
    | .ok (some id, st') => resolvedValid st' id (.obj [("lat", .num (3/2)), ("lon", .num 2)])
    | _ => .panic) = .ok (some true) := by decide +kernel

/-- **`table_entry_with_ref_unresolvable`**: below the root (`For[[]Point]`; the same for a struct field of type `Point`)
    the pointer `#/$defs/coord` is evaluated from the root of the INFERRED schema, `{"type":["null","array"],"items":…}`,
    which has no `$defs`: `Resolve` of the schema `ForType` returned fails (the real package: `JSON Pointer
    "/$defs/coord": no key "coord" in map`), so no instance is accepted -/
theorem table_entry_with_ref_unresolvable : (match forType { schemas := [("Point", 3)] } 3 (.slice (.named "Point" (.basic "Bool"))) refStore with
    | .ok (some id, st') => resolvedValid st' id (.arr [.obj [("lat", .num (3/2)), ("lon", .num 2)]])
    | _ => .panic) = .err := by decide +kernel

/-- `type Tree struct { Children []Tree "json:\"children\"" }` with the recursive entry
    `TypeSchemas[Tree] = {"type":"object","properties":{"children":{"type":["null","array"],"items":{"$ref":"#"}}},
    "required":["children"]}` (node 2) -/
def hashStore : Store := #[
  { ref := "#" },
  { types := some ["null", "array"], items := some 0 },
  { type := "object", properties := some [("children", 1)], required := some ["children"] }]

/-- the entry on its own accepts the encoding `{"children":[{"children":null}]}` of `Tree{Children: []Tree{{}}}` -/
example : resolvedValid hashStore 2 (.obj [("children", .arr [.obj [("children", .null)]])]) = .ok (some true) := by decide +kernel

/-- **`table_entry_with_ref_changes_meaning`**: in the schema inferred for `[]Tree`, `{"type":["null","array"],"items":
    <clone>}`, the reference `#` of the clone designates the ARRAY schema, not the clone: the encoding
    `[{"children":[{"children":null}]}]` of `[]Tree{{Children: []Tree{{}}}}` is rejected (the inner tree is not an
    array), while `[{"children":[[]]}]`, which no value of the type encodes to, is accepted.  The real package does the
    same (also for `struct{ Root Tree }`: `unexpected additional properties ["children"]`).  So the hypothesis
    "reference-free" of `infer_sound_table` is needed for entries below the root. -/
theorem table_entry_with_ref_changes_meaning : (match forType { schemas := [("Tree", 2)] } 3 (.slice (.named "Tree" (.basic "Bool"))) hashStore with
    | .ok (some id, st') =>
      [resolvedValid st' id (.arr [.obj [("children", .null)]]),
       resolvedValid st' id (.arr [.obj [("children", .arr [.obj [("children", .null)]])]]),
       resolvedValid st' id (.arr [.obj [("children", .arr [.arr []])]])]
    | _ => []) = [.ok (some true), .ok (some false), .ok (some true)] := by decide +kernel

/-- `NamedOk` is needed, (1): a name that occurs twice along ONE path — how a recursive declaration looks in the type
    language — makes `forType` fail (the cycle check, `C16.recursive_*_errors`), although the erased type has a schema -/
example : NamedOk {} [] [] (.named "L" (.slice (.named "L" (.slice (.basic "Int"))))) = false ∧
    forType {} 5 (.named "L" (.slice (.named "L" (.slice (.basic "Int"))))) #[] = .err ∧
    (forType {} 5 (erase (.named "L" (.slice (.named "L" (.slice (.basic "Int")))))) #[]).isOk = true :=
  ⟨by decide, by rfl, by decide⟩

/-- … (2): a declared type with a `TypeSchemas` entry that is not its own schema: `type Celsius float64` with the entry
    `{"type":"string"}` — the clone of the entry rejects the encoding `20` of `Celsius(20)` -/
example : NamedOk { schemas := [("Celsius", 0)] } [] [] (.named "Celsius" (.basic "Float64")) = false ∧
    (match forType { schemas := [("Celsius", 0)] } 2 (.named "Celsius" (.basic "Float64")) #[strNode] with
     | .ok (some id, st') => Spec.valid (specEnvNoRefs st') 2 id (encode (.named "Celsius" (.basic "Float64")) (.float 20))
     | _ => none) = some false := by decide

/-- … and the known finding D13 in these terms: big.Int is not among `marshalerTypes`, and cannot be: its entry is
    `{"type":"string"}`, its JSON form a number (`.named "big.Int" (.basic "Int")`) -/
example : NamedOk initialOpts marshalerTypes [] (.named "big.Int" (.basic "Int")) = false ∧
    (match forType initialOpts 2 (.named "big.Int" (.basic "Int")) #[strNode] with
     | .ok (some id, st') => Spec.valid (specEnvNoRefs st') 2 id (encode (.named "big.Int" (.basic "Int")) (.int 7))
     | _ => none) = some false := by decide

/-! ## embedded struct fields (`forTypeE`, JSV/Model/InferEmb.lean; json.Marshal: `EncJsonEmb.encodeE`) -/

open EncJsonEmb in
/-- **main, with embedded fields (partial)**: for a type of the domain `InDomainE` — `InDomain` plus embedded fields
    that are untagged exported declared struct types, by value or by pointer, such that within every tree of embedded
    structs the JSON name of a field is determined by its Go name and vice versa and no Go name occurs twice at one
    depth (`namesOk`) — the schema `ForType` returns accepts the JSON encoding of every value of the type.  A value
    of the type has non-nil embedded pointers (`HasTypeE`): through a nil embedded pointer json.Marshal leaves out the
    promoted fields, the required ones included.

    `hno` (`EmbNotInTable`): no embedded field, at any level of `T`, is of a type with a TypeSchemas entry (other
    entries, e.g. the initial ones for time.Time …, do not matter; `embNotInTable_of_empty` for the empty table).  With
    an override of an embedded type the statement is false in general: the override replaces the promoted properties
    by its own, and `additionalProperties: false` then rejects the promoted members.

    Partial, what is missing: types outside `InDomainE`: D14 (a JSON name shared by two Go names), D16 (tagged /
    non-struct embedded fields); declared types in non-embedded positions are in `infer_soundE_named_partial`. -/
theorem infer_soundE_partial (opts : IOpts) (fuel : Nat) (T : GoTypeE) (st : Store) (id : NodeId) (st' : Store)
    (re : String → String → Bool) (hnfs : opts.nullForSlices = true) (hno : EmbNotInTable opts T)
    (hdom : InDomainE T = true) (h : forTypeE opts fuel T st = .ok (some id, st')) (v : GoValue) (hv : HasTypeE T v)
    (fuel' : Nat) (hf : depthE T ≤ fuel') :
    Spec.valid (specEnvNoRefs st' re) fuel' id (encodeE T v) = some true := by
  obtain ⟨id', hid, hm⟩ := inferFuelE_models opts fuel T [] st (some id) st' hdom hno h
  cases hid
  rw [hnfs] at hm
  exact valid_iff_isSome.1 ((soundE (re := re) (wt T) T (Nat.le_refl _) hdom false id hm fuel' [] hf).2 v hv)

open EncJsonEmb in
/-- **main, with embedded fields and declared types (partial)**: as `infer_soundE_partial`, with declared types
    (`type Celsius float64`, `type Point struct{…}` …) in NON-embedded positions anywhere in `T`: field types, element
    types, the types of the fields of embedded structs.  `InDomainEN T`: the type with these declared types replaced by
    their underlying types (`eraseE`; the declared types of embedded fields stay) is in `InDomainE`; `NamedOkE opts [] T`
    (decidable): none of them has an entry in the type table, the underlying types are basic kinds, slices, arrays, maps or
    structs, no name occurs twice along a root-to-leaf path.  A value of a declared type is a value of its underlying type
    and is encoded like it.

    Partial, what is missing: as `infer_soundE_partial` (D14, D16, overrides of embedded types), and declared types WITH
    a type-table entry in non-embedded positions (`infer_sound_table_partial` has them for types without embedded
    fields). -/
theorem infer_soundE_named_partial (opts : IOpts) (fuel : Nat) (T : GoTypeE) (st : Store) (id : NodeId) (st' : Store)
    (re : String → String → Bool) (hnfs : opts.nullForSlices = true) (hno : EmbNotInTable opts T)
    (hdom : InDomainEN T = true) (hok : NamedOkE opts [] T = true)
    (h : forTypeE opts fuel T st = .ok (some id, st')) (v : GoValue) (hv : HasTypeE T v)
    (fuel' : Nat) (hf : depthE T ≤ fuel') :
    Spec.valid (specEnvNoRefs st' re) fuel' id (encodeE T v) = some true := by
  rw [forTypeE_erase opts fuel T st hok] at h
  rw [← encodeE_erase]
  exact infer_soundE_partial opts fuel (eraseE T) st id st' re hnfs (embNotInTable_erase opts T hno) hdom h v
    ((hasTypeE_erase T v).2 hv) fuel' (Nat.le_trans (depthE_erase_le T) hf)

open EncJsonEmb in
/-- … and `ForType` never drops such a type -/
theorem infer_someE_named (opts : IOpts) (fuel : Nat) (T : GoTypeE) (st : Store) (r : Option NodeId) (st' : Store)
    (hdom : InDomainEN T = true) (hok : NamedOkE opts [] T = true) (h : forTypeE opts fuel T st = .ok (r, st')) :
    ∃ id, r = some id := by
  rw [forTypeE_erase opts fuel T st hok] at h
  exact inferFuelE_some opts fuel (eraseE T) [] st r st' hdom h

open EncJsonEmb in
/-- the spec with embedded fields does not see declared types in non-embedded positions either -/
theorem encJsonEmb_named_conservative (T : GoTypeE) :
    (∀ v, HasTypeE (eraseE T) v ↔ HasTypeE T v) ∧ (∀ v, encodeE (eraseE T) v = encodeE T v) ∧
    depthE (eraseE T) ≤ depthE T :=
  ⟨hasTypeE_erase T, encodeE_erase T, depthE_erase_le T⟩

open EncJsonEmb in
/-- on the domain `ForType` never drops the type -/
theorem infer_someE (opts : IOpts) (fuel : Nat) (T : GoTypeE) (st : Store) (r : Option NodeId) (st' : Store)
    (hdom : InDomainE T = true) (h : forTypeE opts fuel T st = .ok (r, st')) : ∃ id, r = some id :=
  inferFuelE_some opts fuel T [] st r st' hdom h

open EncJsonEmb in
/-- the schema built for a type of the domain is the schema of the type with its embedded structs dissolved
    (`flatten`: the fields of a struct are its live visible fields), in the sense of `Go.Models` -/
theorem infer_models_flatten (opts : IOpts) (fuel : Nat) (T : GoTypeE) (st : Store) (id : NodeId) (st' : Store)
    (hno : EmbNotInTable opts T) (hdom : InDomainE T = true)
    (h : forTypeE opts fuel T st = .ok (some id, st')) : Models opts.nullForSlices st' (flatten T) false id := by
  obtain ⟨id', hid, hm⟩ := inferFuelE_models opts fuel T [] st (some id) st' hdom hno h
  cases hid
  exact hm

open EncJsonEmb in
/-- **the spec with embedded fields is conservative over the spec without**: on a type without embedded fields
    (`GoType.toE`) typing is the same; on `InDomain` (pairwise distinct JSON names, H_D14) `typeFields`, json.Marshal
    and the strict decoder are the same; and `InDomainE` contains `InDomain` (for structs with pairwise distinct Go
    field names) -/
theorem encJsonEmb_conservative (T : GoType) :
    (∀ v, HasTypeE T.toE v ↔ HasType T v) ∧
    (InDomain T = true → (∀ v, encodeE T.toE v = encode T v) ∧ (∀ j, decodableE T.toE j = decodable T j)) ∧
    (InDomain T = true → DistinctNames T = true → InDomainE T.toE = true) :=
  ⟨hasTypeE_toE T, fun h => ⟨fun v => encodeE_toE T v h, fun j => decodableE_toE T j h⟩, inDomainE_toE T⟩

open EncJsonEmb in
/-- … `typeFields` of a struct without embedded fields: the non-omitted fields in declaration order -/
theorem typeFields_conservative (fs : List (String × String × GoType)) (h : nodup (jsonNames fs) = true) :
    fieldNames (fieldsToE fs) = jsonNames fs ∧ alwaysFieldNames (fieldsToE fs) = alwaysNames fs :=
  ⟨fieldNames_toE fs h, alwaysFieldNames_toE fs h⟩

/-! ### the hypotheses of `infer_soundE_partial` are satisfiable (labelled tests)

  `tagLookup` splits the tag with `String.splitOn`, which the kernel does not evaluate; what the tag parser returns
  for each tag is a hypothesis here (the parser is specified in C16: `fieldJSONInfo_named`, `fieldJSONInfo_no_tag`). -/

/-- an exported, non-embedded field -/
def fld (g tag : String) (t : GoTypeE) : FieldE GoTypeE :=
  { goName := g, tag := tag, exported := true, embedded := false, type := t }
/-- an exported embedded field -/
def emb (g tag : String) (t : GoTypeE) : FieldE GoTypeE :=
  { goName := g, tag := tag, exported := true, embedded := true, type := t }

/-- `struct{ Inner; A int "json:\"a\"" }` with `type Inner struct { X int "json:\"x\""; Y string "json:\"y,omitempty\"" }` -/
def embedValT (tI tX tY tA : String) : GoTypeE :=
  .struct [emb "Inner" tI (.named "Inner" (.struct [fld "X" tX (.basic "Int"), fld "Y" tY (.basic "String")])),
           fld "A" tA (.basic "Int")]

section WitnessesE
open EncJsonEmb
variable (tI tX tY tA : String)
  (hI : tagLookup "json" tI = none)                                        -- the embedded field has no json tag
  (hX : fieldJSONInfo "X" tX = { name := "x" }) (hY : fieldJSONInfo "Y" tY = { name := "y", omitempty := true })
  (hA : fieldJSONInfo "A" tA = { name := "a" })
include hI hX hY hA

theorem embedVal_inDomain : InDomainE (embedValT tI tX tY tA) = true := by
  have v1 : validTagName "x" = true := by decide
  have v2 : validTagName "y" = true := by decide
  have v3 : validTagName "a" = true := by decide
  have d1 : "Int" ∈ domainKinds := by decide
  have d2 : "String" ∈ domainKinds := by decide
  simp [embedValT, fld, emb, InDomainE, inDomainFieldsE, inDomainEmbE, namesOk, pairOk, live, jsonNameOf, allFields, embFields,
    hI, hX, hY, hA, fieldTagOk, v1, v2, v3, d1, d2]

/-- the value `{Inner: {X: 1, Y: ""}, A: 2}` -/
theorem embedVal_hasType : HasTypeE (embedValT tI tX tY tA) (.struct [.struct [.int 1, .str ""], .int 2]) := by
  have hIo := (fieldJSONInfo_untagged (g := "Inner") (tag := tI) (by rw [hI]; rfl))
  simp [embedValT, fld, emb, HasTypeE, HasTypeFieldsE, HasTypeEmbE, classify, isStructE, derefE, hIo.1, hIo.2, hX, hY, hA,
    basicHasType, intRange]
  exact ⟨⟨_, _, ⟨rfl, rfl⟩, by decide, by decide⟩, ⟨_, _, ⟨rfl, rfl⟩, by decide, by decide⟩⟩

/-- `infer_soundE_partial` applied: the value marshals to `{"x":1,"a":2}` (`y` is empty and omitempty), which the
    inferred schema accepts -/
example (id : NodeId) (st' : Store) (h : forTypeE {} 3 (embedValT tI tX tY tA) #[] = .ok (some id, st')) :
    Spec.valid (specEnvNoRefs st') 4 id (.obj [("x", .num 1), ("a", .num 2)]) = some true := by
  have hIo := (fieldJSONInfo_untagged (g := "Inner") (tag := tI) (by rw [hI]; rfl))
  have := infer_soundE_partial {} 3 _ #[] id st' (fun _ _ => false) rfl
    ((embNotInTable_of_empty (opts := {}) (fun _ => rfl) _).1 _ (Nat.le_refl _))
    (embedVal_inDomain tI tX tY tA hI hX hY hA) h _ (embedVal_hasType tI tX tY tA hI hX hY hA) 4
    (by simp [embedValT, fld, emb, depthE, depthFieldsE])
  simpa [embedValT, fld, emb, encodeE, encodeFieldsE, encodeEmbE, candidates, embCandidates, classify, mkTField, isDominant,
    dominates, isStructE, derefE, hIo.1, hIo.2, hX, hY, hA, fieldSkipped, isEmptyValue] using this

end WitnessesE

/-! ### … with declared types in non-embedded positions -/

/-- `struct{ Inner; A Celsius "json:\"a\"" }` with `type Inner struct { X Count "json:\"x\""; Y string "json:\"y,omitempty\"" }`,
    `type Count int`, `type Celsius float64` -/
def embedNamedT (tI tX tY tA : String) : GoTypeE :=
  .struct [emb "Inner" tI (.named "Inner" (.struct [fld "X" tX (.named "Count" (.basic "Int")), fld "Y" tY (.basic "String")])),
           fld "A" tA (.named "Celsius" (.basic "Float64"))]

open EncJsonEmb in
theorem embedNamed_erase (tI tX tY tA : String) :
    eraseE (embedNamedT tI tX tY tA) =
      .struct [emb "Inner" tI (.named "Inner" (.struct [fld "X" tX (.basic "Int"), fld "Y" tY (.basic "String")])),
               fld "A" tA (.basic "Float64")] := by
  simp [embedNamedT, eraseE, eraseFieldsE, eraseEmbE, emb, fld]

open EncJsonEmb in
theorem embedNamed_namedOk (tI tX tY tA : String) : NamedOkE {} [] (embedNamedT tI tX tY tA) = true := by
  simp [embedNamedT, NamedOkE, namedOkFieldsE, namedOkEmbE, emb, fld, namedShapeE, Json.lookup]

section WitnessesEN
open EncJsonEmb
variable (tI tX tY tA : String)
  (hI : tagLookup "json" tI = none)
  (hX : fieldJSONInfo "X" tX = { name := "x" }) (hY : fieldJSONInfo "Y" tY = { name := "y", omitempty := true })
  (hA : fieldJSONInfo "A" tA = { name := "a" })
include hI hX hY hA

theorem embedNamed_inDomain : InDomainEN (embedNamedT tI tX tY tA) = true := by
  have v1 : validTagName "x" = true := by decide
  have v2 : validTagName "y" = true := by decide
  have v3 : validTagName "a" = true := by decide
  have d1 : "Int" ∈ domainKinds := by decide
  have d2 : "String" ∈ domainKinds := by decide
  have d3 : "Float64" ∈ domainKinds := by decide
  unfold InDomainEN
  rw [embedNamed_erase]
  simp [fld, emb, InDomainE, inDomainFieldsE, inDomainEmbE, namesOk, pairOk, live, jsonNameOf, allFields, embFields,
    hI, hX, hY, hA, fieldTagOk, v1, v2, v3, d1, d2, d3]

theorem embedNamed_hasType : HasTypeE (embedNamedT tI tX tY tA) (.struct [.struct [.int 1, .str ""], .float 20]) := by
  have hIo := (fieldJSONInfo_untagged (g := "Inner") (tag := tI) (by rw [hI]; rfl))
  simp [embedNamedT, fld, emb, HasTypeE, HasTypeFieldsE, HasTypeEmbE, classify, isStructE, derefE, hIo.1, hIo.2, hX, hY, hA,
    basicHasType, intRange, floatKinds]
  exact ⟨_, _, ⟨rfl, rfl⟩, by decide, by decide⟩

/-- `infer_soundE_named_partial` applied: `{Inner: {X: 1, Y: ""}, A: 20}` marshals to `{"x":1,"a":20}`, which the inferred
    schema accepts -/
example (id : NodeId) (st' : Store) (h : forTypeE {} 4 (embedNamedT tI tX tY tA) #[] = .ok (some id, st')) :
    Spec.valid (specEnvNoRefs st') 5 id (.obj [("x", .num 1), ("a", .num 20)]) = some true := by
  have hIo := (fieldJSONInfo_untagged (g := "Inner") (tag := tI) (by rw [hI]; rfl))
  have := infer_soundE_named_partial {} 4 _ #[] id st' (fun _ _ => false) rfl
    ((embNotInTable_of_empty (opts := {}) (fun _ => rfl) _).1 _ (Nat.le_refl _))
    (embedNamed_inDomain tI tX tY tA hI hX hY hA) (embedNamed_namedOk tI tX tY tA) h _
    (embedNamed_hasType tI tX tY tA hI hX hY hA) 5
    (by simp [embedNamedT, fld, emb, depthE, depthFieldsE])
  simpa [embedNamedT, fld, emb, encodeE, encodeFieldsE, encodeEmbE, candidates, embCandidates, classify, mkTField, isDominant,
    dominates, isStructE, derefE, hIo.1, hIo.2, hX, hY, hA, fieldSkipped, isEmptyValue] using this
end WitnessesEN

/-- outside the domain (known finding D14): in `struct{ Y string "json:\"x\""; Inner }` the JSON name `x` belongs to
    two Go names -/
example (tI tX tY tY' : String)
    (hX : fieldJSONInfo "X" tX = { name := "x" }) (hY : fieldJSONInfo "Y" tY = { name := "y", omitempty := true })
    (hY' : fieldJSONInfo "Y" tY' = { name := "x" }) :
    EncJsonEmb.InDomainE (.struct [fld "Y" tY' (.basic "String"),
      emb "Inner" tI (.named "Inner" (.struct [fld "X" tX (.basic "Int"), fld "Y" tY (.basic "String")]))]) = false := by
  simp [fld, emb, EncJsonEmb.InDomainE, EncJsonEmb.namesOk, EncJsonEmb.pairOk, EncJsonEmb.live, EncJsonEmb.jsonNameOf,
    allFields, embFields, hX, hY, hY']

/-! ## what the hypotheses exclude (labelled tests) -/

/-- `opts.nullForSlices = true` is needed: with `JSONSCHEMAGODEBUG=typeschemasnull=1` the schema of `[]int8` is
    `{"type":"array",…}`, which rejects the encoding `null` of the nil slice -/
example : (match forType { nullForSlices := false } 2 (.slice (.basic "Int8")) #[] with
    | .ok (some id, st') => Spec.valid (specEnvNoRefs st') 3 id (encode (.slice (.basic "Int8")) .nilSlice)
    | _ => none) = some false := by decide

/-- nil maps are outside the fragment (`GoValue` has no nil map): json.Marshal writes `null` for them, which
    the schema of `map[string]int8` rejects -/
example : (match forType {} 2 (.map "String" (.basic "Int8")) #[] with
    | .ok (some id, st') => Spec.valid (specEnvNoRefs st') 3 id .null
    | _ => none) = some false := by decide

/-! ## the hypotheses are satisfiable on non-trivial data -/

example : InDomain (.slice (.ptr (.basic "Int8"))) = true := by decide

example : HasType (.slice (.ptr (.basic "Int8"))) (.slice [.ptr (.int 5), .nilPtr]) := by
  simp only [HasType, basicHasType, intRange, List.mem_cons, List.not_mem_nil, or_false]
  rintro w (rfl | rfl)
  · exact ⟨-128, 127, by simp, by decide, by decide⟩
  · trivial

/-- `infer_sound` applied: `[]*int8{&5, nil}` ↦ `[5,null]` is accepted -/
example (id : NodeId) (st' : Store) (h : forType {} 3 (.slice (.ptr (.basic "Int8"))) #[] = .ok (some id, st')) :
    Spec.valid (specEnvNoRefs st') 2 id (.arr [.num 5, .null]) = some true := by
  have hv : HasType (.slice (.ptr (.basic "Int8"))) (.slice [.ptr (.int 5), .nilPtr]) := by
    simp only [HasType, basicHasType, intRange, List.mem_cons, List.not_mem_nil, or_false]
    rintro w (rfl | rfl)
    · exact ⟨-128, 127, by simp, by decide, by decide⟩
    · trivial
  have := infer_sound {} 3 _ #[] id st' (fun _ _ => false) rfl (by decide) h _ hv 2 (by decide)
  simpa [encode] using this

/-- … and evaluated: the same verdict by running the model and the Spec -/
example : (match forType {} 3 (.slice (.ptr (.basic "Int8"))) #[] with
    | .ok (some id, st') => Spec.valid (specEnvNoRefs st') 2 id (.arr [.num 5, .null])
    | _ => none) = some true := by decide

/-- out of range: 128 is rejected by the schema of `[]*int8` -/
example : (match forType {} 3 (.slice (.ptr (.basic "Int8"))) #[] with
    | .ok (some id, st') => Spec.valid (specEnvNoRefs st') 2 id (.arr [.num 128])
    | _ => none) = some false := by decide

end JSV.C04
