/-
  C18 — non-asserting keywords are never read by the evaluator; unknown keywords never make Unmarshal fail.
  Property theorems only (helper lemmas: JSV/Proofs/InvMeta.lean, JSV/Proofs/InvUnmarshal.lean).
-/
import JSV.Proofs.InvMeta
import JSV.Proofs.InvUnmarshal
namespace JSV.C18
open JSV Go GoVal

/-- clear every field the package documents as non-asserting, and Extra / PropertyOrder / unreferenced definitions -/
def eraseMeta (n : Node) : Node :=
  { n with title := "", description := "", comment := "", default := none, examples := none, deprecated := false,
           readOnly := false, writeOnly := false, format := "", contentEncoding := "", contentMediaType := "",
           contentSchema := none, extra := none, propertyOrder := none, defs := none, definitions := none,
           vocabulary := none }

def eraseStore (st : Store) : Store := st.map eraseMeta

/-- **C18.**  Clearing title, description, $comment, default, examples, deprecated, readOnly, writeOnly, format,
    contentEncoding, contentMediaType, contentSchema, Extra, PropertyOrder, $defs, definitions and $vocabulary in
    every schema object changes no result of the evaluator: same verdict, same annotations, same panics, same fuel. -/
theorem validate_eraseMeta (env : Go.VEnv) : ∀ fuel stack i s,
    Go.validateFuel { env with st := eraseStore env.st } fuel stack i s = Go.validateFuel env fuel stack i s :=
  Inv.validateFuel_map env eraseMeta (fun _ => rfl)

/-- … and at the entry point `(*Resolved).Validate` (which also reads the root's `$schema`) -/
theorem validate_eraseMeta_entry (env : Go.VEnv) (supported : List String) (fuel : Nat) (root : NodeId) (inst : GoVal) :
    Go.validate { env with st := eraseStore env.st } supported fuel root inst = Go.validate env supported fuel root inst :=
  Inv.validate_map env eraseMeta (fun _ => rfl) (fun _ => rfl) supported fuel root inst

/-- **generalisation**: any per-node decoration `f` that agrees with the identity on the fields the blocks read
    (`Inv.readsOf` keeps exactly the 44 fields of `Generated.validateReads` and `id`, and zeroes the 20 others)
    is invisible to the evaluator. -/
theorem validate_decoration (env : Go.VEnv) (f : Node → Node) (hf : ∀ n, Inv.readsOf (f n) = Inv.readsOf n) :
    ∀ fuel stack i s,
    Go.validateFuel { env with st := env.st.map f } fuel stack i s = Go.validateFuel env fuel stack i s :=
  Inv.validateFuel_map env f hf

/-- `$id`, `$schema`, `$anchor`, `$dynamicAnchor` are consumed by Resolve; `(*state).validate` never selects
    `Schema`, `Anchor`, `DynamicAnchor` (it reads `ID` only through `schemaString` in the deferred `wrapf`):
    clearing these three as well is invisible to `validateFuel` -/
theorem validate_eraseMeta_anchors (env : Go.VEnv) : ∀ fuel stack i s,
    Go.validateFuel { env with st := env.st.map fun n =>
        { eraseMeta n with schema := "", anchor := "", dynamicAnchor := "" } } fuel stack i s
      = Go.validateFuel env fuel stack i s :=
  Inv.validateFuel_map env _ (fun _ => rfl)

/-- the regenerated list of fields read by `(*state).validate` contains none of the non-asserting ones -/
theorem validateReads_disjoint :
    ∀ f ∈ ["Title","Description","Comment","Default","Examples","Deprecated","ReadOnly","WriteOnly","Format",
           "ContentEncoding","ContentMediaType","ContentSchema","Extra","PropertyOrder","Defs","Definitions",
           "Vocabulary","ID","Schema","Anchor","DynamicAnchor"],
      f ∉ Generated.validateReads := by
  decide

/-- the Node fields the model's keyword blocks read, by Go field name (`Inv.readsOf` keeps exactly these and `id`) -/
def modelReads : List String := [
  "Ref", "DynamicRef", "Type", "Types", "Enum", "Const", "MultipleOf", "Minimum", "Maximum", "ExclusiveMinimum",
  "ExclusiveMaximum", "MinLength", "MaxLength", "Pattern", "PrefixItems", "Items", "ItemsArray", "MinItems",
  "MaxItems", "AdditionalItems", "UniqueItems", "Contains", "MinContains", "MaxContains", "UnevaluatedItems",
  "MinProperties", "MaxProperties", "Required", "DependentRequired", "Properties", "PatternProperties",
  "AdditionalProperties", "PropertyNames", "UnevaluatedProperties", "AllOf", "AnyOf", "OneOf", "Not", "If", "Then",
  "Else", "DependentSchemas", "DependencySchemas", "DependencyStrings"]

/-- the documented list of fields the model reads = the list regenerated from the Go source -/
theorem modelReads_eq_generated :
    (modelReads.all (Generated.validateReads.contains ·) && Generated.validateReads.all (modelReads.contains ·)) = true := by
  decide

/-- every name of `modelReads` is a field of the Go struct -/
theorem modelReads_are_fields : modelReads.all ((Generated.schemaFields.map (·.1)).contains ·) = true := by
  decide

/-- the formal half of `modelReads_eq_generated`: resetting ANY field of the Go struct that is not in the regenerated
    list (and is not `ID`) to its zero value, in every schema object, is invisible to the evaluator — so the model
    reads no field outside `Generated.validateReads ∪ {ID}`. -/
theorem model_reads_within_generated (env : Go.VEnv) (name : String)
    (h : name ∉ Generated.validateReads) (hid : name ≠ "ID") : ∀ fuel stack i s,
    Go.validateFuel { env with st := env.st.map (Inv.eraseField name) } fuel stack i s
      = Go.validateFuel env fuel stack i s :=
  Inv.validateFuel_map env _ (Inv.eraseField_preserves name h hid)

/-- the 20 fields of the struct this covers -/
theorem unread_fields :
    (Generated.schemaFields.map (·.1)).filter (fun f => !("ID" :: Generated.validateReads).contains f) =
      ["Schema", "Comment", "Defs", "Definitions", "Anchor", "DynamicAnchor", "Vocabulary", "Title", "Description",
       "Default", "Deprecated", "ReadOnly", "WriteOnly", "Examples", "ContentEncoding", "ContentMediaType",
       "ContentSchema", "Format", "Extra", "PropertyOrder"] := by
  decide

/-! ### … and conversely every field of the regenerated list matters to the model

For each of the 44 names a one-object schema (plus a `true` schema at 1 and a `false` schema at 2) and an instance on
which the model answers "invalid", and answers "valid" once the field is reset to its zero value: the model really
reads every field `(*state).validate` selects. -/

def witnessEnv (d : Draft) (n : Node) : VEnv :=
  { st := #[n, {}, { not := some 3 }, {}], draft := d,
    infos := [(0, { base := some 0, resolvedRef := some 2, resolvedDynamicRef := some 2 }), (1, { base := some 0 }),
              (2, { base := some 0 }), (3, { base := some 0 })],
    reMatch := fun re _ => re == "p", hash := fun _ => 0 }

def readWitnesses : List (String × Draft × Node × Json) := [
  ("Ref", .d2020, { ref := "x" }, .null),
  ("DynamicRef", .d2020, { dynamicRef := "x" }, .null),
  ("Type", .d2020, { type := "string" }, .null),
  ("Types", .d2020, { types := some ["string"] }, .null),
  ("Enum", .d2020, { enum := some [] }, .null),
  ("Const", .d2020, { const := some (.num 1) }, .null),
  ("MultipleOf", .d2020, { multipleOf := some 2 }, .num 3),
  ("Minimum", .d2020, { minimum := some 5 }, .num 3),
  ("Maximum", .d2020, { maximum := some 1 }, .num 3),
  ("ExclusiveMinimum", .d2020, { exclusiveMinimum := some 3 }, .num 3),
  ("ExclusiveMaximum", .d2020, { exclusiveMaximum := some 3 }, .num 3),
  ("MinLength", .d2020, { minLength := some 2 }, .str "a"),
  ("MaxLength", .d2020, { maxLength := some 0 }, .str "a"),
  ("Pattern", .d2020, { pattern := "q" }, .str "a"),
  ("PrefixItems", .d2020, { prefixItems := some [2] }, .arr [.null]),
  ("Items", .d2020, { items := some 2 }, .arr [.null]),
  ("ItemsArray", .d7, { itemsArray := some [2] }, .arr [.null]),
  ("MinItems", .d2020, { minItems := some 1 }, .arr []),
  ("MaxItems", .d2020, { maxItems := some 0 }, .arr [.null]),
  ("AdditionalItems", .d7, { itemsArray := some [], additionalItems := some 2 }, .arr [.null]),
  ("UniqueItems", .d2020, { uniqueItems := true }, .arr [.null, .null]),
  ("Contains", .d2020, { contains := some 2 }, .arr [.null]),
  ("MinContains", .d2020, { contains := some 1, minContains := some 2 }, .arr [.null]),
  ("MaxContains", .d2020, { contains := some 1, maxContains := some 0 }, .arr [.null]),
  ("UnevaluatedItems", .d2020, { unevaluatedItems := some 2 }, .arr [.null]),
  ("MinProperties", .d2020, { minProperties := some 1 }, .obj []),
  ("MaxProperties", .d2020, { maxProperties := some 0 }, .obj [("a", .null)]),
  ("Required", .d2020, { required := some ["b"] }, .obj [("a", .null)]),
  ("DependentRequired", .d2020, { dependentRequired := some [("a", some ["b"])] }, .obj [("a", .null)]),
  ("Properties", .d2020, { properties := some [("a", 2)] }, .obj [("a", .null)]),
  ("PatternProperties", .d2020, { patternProperties := some [("p", 2)] }, .obj [("a", .null)]),
  ("AdditionalProperties", .d2020, { additionalProperties := some 2 }, .obj [("a", .null)]),
  ("PropertyNames", .d2020, { propertyNames := some 2 }, .obj [("a", .null)]),
  ("UnevaluatedProperties", .d2020, { unevaluatedProperties := some 2 }, .obj [("a", .null)]),
  ("AllOf", .d2020, { allOf := some [2] }, .null),
  ("AnyOf", .d2020, { anyOf := some [2] }, .null),
  ("OneOf", .d2020, { oneOf := some [2] }, .null),
  ("Not", .d2020, { not := some 1 }, .null),
  ("If", .d2020, { if_ := some 2, else_ := some 2 }, .null),
  ("Then", .d2020, { if_ := some 1, then_ := some 2 }, .null),
  ("Else", .d2020, { if_ := some 2, else_ := some 2 }, .null),
  ("DependentSchemas", .d2020, { dependentSchemas := some [("a", 2)] }, .obj [("a", .null)]),
  ("DependencySchemas", .d7, { dependencySchemas := some [("a", 2)] }, .obj [("a", .null)]),
  ("DependencyStrings", .d7, { dependencyStrings := some [("a", some ["b"])] }, .obj [("a", .null)])]

/-- the witnesses cover exactly `modelReads` -/
theorem readWitnesses_cover : readWitnesses.map (·.1) = modelReads := by decide

/-- every field of `modelReads` (= `Generated.validateReads`) is read: resetting it flips a verdict -/
theorem every_read_field_matters :
    readWitnesses.all (fun w =>
      (Go.validateFuel (witnessEnv w.2.1 w.2.2.1) 3 [] (GoVal.ofJson w.2.2.2) 0).verdict == some false &&
      (Go.validateFuel (witnessEnv w.2.1 (Inv.eraseField w.1 w.2.2.1)) 3 [] (GoVal.ofJson w.2.2.2) 0).verdict
        == some true) = true := by
  with_unfolding_all decide

/-! ## unknown keywords -/

/-- unknown keywords never make Unmarshal fail: one more member with a key outside `Go.knownKeys`.
    H_D4 (`hf`): the key is not a case variant of a keyword either — encoding/json matches struct fields
    case-insensitively, so `{"Type":5}` fails like `{"type":5}` (known finding D4, `unmarshal_folded_is_keyword` below). -/
theorem unmarshal_unknown_ok (rec : URec) (kvs : List (String × Json)) (k : String) (v : Json) (st : Store)
    (hk : Go.knownKeys.contains k = false) (hf : Go.isFoldedKey k = false) :
    (∃ r, Go.setFields rec (kvs ++ [(k, v)]) Go.emptyNode st = .ok r) ↔
    (∃ r, Go.setFields rec kvs Go.emptyNode st = .ok r) := by
  rw [Inv.setFields_append]
  cases Go.setFields rec kvs Go.emptyNode st with
  | ok p =>
    simp only [Res.bind_ok, Go.setFields, Inv.setMember_unknown rec p.1 p.2 k v hk hf]
    exact ⟨fun _ => ⟨p, rfl⟩, fun _ => ⟨_, rfl⟩⟩
  | fuel => simp
  | panic => simp
  | err => simp

/-- … and the resulting schema object differs from the original only in `extra`, the store not at all.
    H_D4 (`hf`): the key is not a case variant of a keyword (such a member also sets the keyword's field). -/
theorem unmarshal_unknown_extra_only (rec : URec) (kvs : List (String × Json)) (k : String) (v : Json) (st st' : Store)
    (n : Node) (hk : Go.knownKeys.contains k = false) (hf : Go.isFoldedKey k = false)
    (h : Go.setFields rec kvs Go.emptyNode st = .ok (n, st')) :
    Go.setFields rec (kvs ++ [(k, v)]) Go.emptyNode st
      = .ok ({ n with extra := some ((n.extra.getD []) ++ [(k, v)]) }, st') := by
  rw [Inv.setFields_append, h]
  simp only [Res.bind_ok, Go.setFields, Inv.setMember_unknown rec n st' k v hk hf]

/-- an outcome other than success is unchanged too (error, panic, out of fuel) — whatever the extra member is -/
theorem unmarshal_unknown_fail (rec : URec) (kvs : List (String × Json)) (k : String) (v : Json) (st : Store)
    (h : ∀ r, Go.setFields rec kvs Go.emptyNode st ≠ .ok r) :
    Go.setFields rec (kvs ++ [(k, v)]) Go.emptyNode st = (Go.setFields rec kvs Go.emptyNode st).bind fun _ => .err := by
  rw [Inv.setFields_append]
  cases he : Go.setFields rec kvs Go.emptyNode st with
  | ok p => exact absurd he (h p)
  | _ => rfl

/-- the unknown member at ANY position of the object: with it and without it, Unmarshal fails the same way, or succeeds
    on both with the same store and schema objects that differ at most in `Extra` (later unknown members are appended
    to a different `Extra`, later keyword members — and case variants of keywords — never read it).
    H_D4 (`hf`): the key itself is not a case variant of a keyword; the other members `l1`, `l2` are arbitrary. -/
theorem unmarshal_unknown_anywhere (rec : URec) (l1 l2 : List (String × Json)) (k : String) (v : Json) (st : Store)
    (hk : Go.knownKeys.contains k = false) (hf : Go.isFoldedKey k = false) :
    (match Go.setFields rec (l1 ++ (k, v) :: l2) Go.emptyNode st, Go.setFields rec (l1 ++ l2) Go.emptyNode st with
     | .ok (a, s), .ok (b, t) => (∃ e, a = { b with extra := e }) ∧ s = t
     | .fuel, .fuel => True
     | .panic, .panic => True
     | .err, .err => True
     | _, _ => False) := by
  have h := Inv.setFields_unknown_anywhere rec l1 l2 k v Go.emptyNode st hk hf
  generalize Go.setFields rec (l1 ++ (k, v) :: l2) Go.emptyNode st = r1 at h ⊢
  generalize Go.setFields rec (l1 ++ l2) Go.emptyNode st = r2 at h ⊢
  cases r1 <;> cases r2 <;> first | exact h | exact False.elim h

/-- **known finding D4 as the model (= the code) behaves.**  A key with `canonKey k ≠ k` — no keyword, but equal to one up
    to letter case, e.g. "MINIMUM" or "Type" — is decoded by `json.Unmarshal` into that keyword's field exactly as if it had
    been spelled like the keyword (same value, same failures), and `unmarshalStructWithMap` additionally keeps the member in
    `Extra` because the key is not *exactly* a JSON name of the struct. -/
theorem unmarshal_folded_is_keyword (rec : URec) (n : Node) (st : Store) (k : String) (v : Json)
    (h : Go.canonKey k ≠ k) :
    Go.setMember rec n st k v = (Go.setField rec n st (Go.canonKey k) v).bind fun p =>
      .ok ({ p.1 with extra := some ((p.1.extra.getD []) ++ [(k, v)]) }, p.2) :=
  Go.setMember_of_folded rec n st v h

/-- the keys this concerns are exactly the class `Go.isFoldedKey` (hypothesis H_D4 is its complement), and the field they
    are routed to is a keyword's -/
theorem folded_iff (k : String) :
    (Go.canonKey k ≠ k ↔ Go.isFoldedKey k = true) ∧ (Go.canonKey k ≠ k → Go.knownKeys.contains (Go.canonKey k) = true) := by
  refine ⟨⟨Go.isFoldedKey_of_canonKey_ne, fun hf hc => ?_⟩, Go.canonKey_known_of_ne⟩
  -- canonKey k = k and isFoldedKey k: k is no keyword, so `find?` returned none, so no keyword folds to k
  unfold Go.isFoldedKey at hf
  cases hk : Go.knownKeys.contains k with
  | true => rw [hk] at hf; cases hf
  | false =>
    rw [hk] at hf
    obtain ⟨x, hx, hp⟩ := List.any_eq_true.1 hf
    unfold Go.canonKey at hc
    rw [if_neg (by rw [hk]; decide)] at hc
    cases hfind : Go.knownKeys.find? (Go.foldEq k) with
    | none => exact absurd hp (List.find?_eq_none.1 hfind x hx)
    | some c =>
      rw [hfind] at hc
      have hc' : c = k := hc
      have := List.contains_iff_mem.2 (List.mem_of_find?_eq_some hfind)
      rw [hc', hk] at this
      cases this

/-- a keyword or a key outside the class is matched exactly: `setMember` is `setField` -/
theorem unmarshal_unfolded_is_exact (rec : URec) (n : Node) (st : Store) (k : String) (v : Json)
    (h : Go.isFoldedKey k = false) : Go.setMember rec n st k v = Go.setField rec n st k v := by
  apply Go.setMember_eq_setField
  cases hk : Go.knownKeys.contains k with
  | true => exact Go.canonKey_of_known hk
  | false => exact Go.canonKey_of_unfolded hk h

/-- hence the evaluator cannot tell the two schema objects apart -/
theorem unknown_keyword_not_read (n : Node) (k : String) (v : Json) :
    Inv.readsOf { n with extra := some ((n.extra.getD []) ++ [(k, v)]) } = Inv.readsOf n := rfl

/-! ## The statements are not vacuous: a store full of metadata

`{"title":"T","description":"d","$defs":{"unused":{}},"x-foo":1,"allOf":[{"properties":{"a":{"default":"x","readOnly":true}},
"format":"email"}],"unevaluatedProperties":false}` -/

def exStore : Store := #[
  { title := "T", description := "d", defs := some [("unused", 4)], extra := some [("x-foo", .num 1)],
    allOf := some [1], unevaluatedProperties := some 3 },
  { properties := some [("a", 2)], format := "email" },
  { default := some (.str "x"), readOnly := true },
  { not := some 4, comment := "false" },
  {} ]

def exInfos : List (NodeId × Info) :=
  [(0, { path := "root", base := some 0 }), (1, { path := "/allOf/0", base := some 0 }),
   (2, { path := "/allOf/0/properties/a", base := some 0 }), (3, { path := "/unevaluatedProperties", base := some 0 }),
   (4, { path := "/unevaluatedProperties/not", base := some 0 })]

def exEnv : VEnv :=
  { st := exStore, draft := .d2020, infos := exInfos, reMatch := fun _ _ => false, hash := fun _ => 0 }

def exGood : Json := .obj [("a", .str "x")]
def exBad : Json := .obj [("a", .str "x"), ("b", .null)]

/-- the erased store, written out -/
def exErased : Store := #[
  { allOf := some [1], unevaluatedProperties := some 3 },
  { properties := some [("a", 2)] },
  {},
  { not := some 4 },
  {} ]

/-- the erased store really is different: title, description, $defs, Extra, format, default, readOnly, $comment are gone,
    the asserting keywords are still there -/
theorem exErased_eq : eraseStore exStore = exErased := by
  simp only [eraseStore, exStore, List.map_toArray, List.map]
  rfl
example : (exStore[0]?.map (·.title), exErased[0]?.map (·.title)) = (some "T", some "") := by decide
example : (exStore[1]?.map (·.format), exErased[1]?.map (·.format)) = (some "email", some "") := by decide
example : (exStore[2]?.map (·.readOnly), exErased[2]?.map (·.readOnly)) = (some true, some false) := by decide

/-- `validate_eraseMeta` applied -/
example : Go.validateFuel { exEnv with st := exErased } 3 [] (GoVal.ofJson exBad) 0
    = Go.validateFuel exEnv 3 [] (GoVal.ofJson exBad) 0 := by
  rw [← exErased_eq]; exact validate_eraseMeta exEnv 3 [] _ 0
/-- both sides by running the model -/
example : (Go.validateFuel exEnv 3 [] (GoVal.ofJson exBad) 0).verdict = some false := by decide
example : (Go.validateFuel { exEnv with st := exErased } 3 [] (GoVal.ofJson exBad) 0).verdict = some false := by decide
example : (Go.validateFuel exEnv 3 [] (GoVal.ofJson exGood) 0).verdict = some true := by decide
example : (Go.validateFuel { exEnv with st := exErased } 3 [] (GoVal.ofJson exGood) 0).verdict = some true := by decide
/-- `validate_eraseMeta_entry` applied -/
example : Go.validate { exEnv with st := exErased } [""] 3 0 (GoVal.ofJson exGood)
    = Go.validate exEnv [""] 3 0 (GoVal.ofJson exGood) := by
  rw [← exErased_eq]; exact validate_eraseMeta_entry exEnv [""] 3 0 _
/-- `model_reads_within_generated` applied to a field name -/
example : ∀ fuel stack i s,
    Go.validateFuel { exEnv with st := exEnv.st.map (Inv.eraseField "Format") } fuel stack i s
      = Go.validateFuel exEnv fuel stack i s :=
  model_reads_within_generated exEnv "Format" (by decide) (by decide)
/-- a field that IS read: clearing `unevaluatedProperties` at the root flips the verdict, so the hypothesis
    `name ∉ Generated.validateReads` of `model_reads_within_generated` cannot be dropped -/
example : Inv.eraseField "UnevaluatedProperties" { allOf := some [1], unevaluatedProperties := some 3 } = { allOf := some [1] } :=
  rfl
example : (Go.validateFuel { exEnv with st := #[{ allOf := some [1] }, { properties := some [("a", 2)] }, {},
    { not := some 4 }, {}] } 3 [] (GoVal.ofJson exBad) 0).verdict = some true := by decide

/-- unknown keyword: `{"type":"string","minLength":2}` then `"x-vendor":{"a":[1]}` -/
example : Go.knownKeys.contains "x-vendor" = false := by decide
/-- H_D4 holds of it -/
example : Go.isFoldedKey "x-vendor" = false := by decide
example :
    Go.setFields (Go.unmarshalFuel 3) [("type", .str "string"), ("minLength", .num 2)] Go.emptyNode #[]
      = .ok ({ type := "string", minLength := some 2 }, #[]) := by rfl
/-- `unmarshal_unknown_extra_only` applied -/
example :
    Go.setFields (Go.unmarshalFuel 3) ([("type", .str "string"), ("minLength", .num 2)] ++
        [("x-vendor", .obj [("a", .arr [.num 1])])]) Go.emptyNode #[]
      = .ok ({ type := "string", minLength := some 2, extra := some [("x-vendor", .obj [("a", .arr [.num 1])])] }, #[]) :=
  unmarshal_unknown_extra_only (Go.unmarshalFuel 3) [("type", .str "string"), ("minLength", .num 2)] "x-vendor"
    (.obj [("a", .arr [.num 1])]) #[] #[] { type := "string", minLength := some 2 } (by decide) (by decide) (by rfl)
/-- `unmarshal_unknown_ok` applied -/
example : ∃ r, Go.setFields (Go.unmarshalFuel 3) ([("type", .str "string"), ("minLength", .num 2)] ++
    [("x-vendor", .null)]) Go.emptyNode #[] = .ok r :=
  (unmarshal_unknown_ok (Go.unmarshalFuel 3) _ "x-vendor" .null #[] (by decide) (by decide)).mpr ⟨_, by rfl⟩
/-- the unknown member in the middle: `{"type":"string","x-vendor":1,"minLength":2}` -/
example :
    Go.setFields (Go.unmarshalFuel 3) ([("type", .str "string")] ++ ("x-vendor", .num 1) :: [("minLength", .num 2)])
      Go.emptyNode #[] = .ok ({ type := "string", minLength := some 2, extra := some [("x-vendor", .num 1)] }, #[]) := by rfl
/-- a failing document keeps failing with the same outcome -/
example : Go.setFields (Go.unmarshalFuel 3) ([("type", .num 1)] ++ [("x-vendor", .null)]) Go.emptyNode #[] = .err := by
  rfl

/-- **witness of D4**: `{"MINIMUM": 5}` sets `minimum` AND keeps the member in `Extra` … -/
example : Go.canonKey "MINIMUM" = "minimum" ∧ Go.isFoldedKey "MINIMUM" = true := by decide
example :
    Go.setFields (Go.unmarshalFuel 3) [("MINIMUM", .num 5)] Go.emptyNode #[]
      = .ok ({ minimum := some 5, extra := some [("MINIMUM", .num 5)] }, #[]) := by rfl
/-- … and `{"Type": 5}` makes Unmarshal fail like `{"type": 5}` does, so `hf` cannot be dropped from `unmarshal_unknown_ok`:
    "Type" is outside `knownKeys`, `{}` unmarshals, `{"Type": 5}` does not -/
example : Go.knownKeys.contains "Type" = false ∧ Go.isFoldedKey "Type" = true := by decide
example : Go.setFields (Go.unmarshalFuel 3) [("Type", .num 5)] Go.emptyNode #[] = .err := by rfl
example : Go.setFields (Go.unmarshalFuel 3) [("type", .num 5)] Go.emptyNode #[] = .err := by rfl
example : ¬ ((∃ r, Go.setFields (Go.unmarshalFuel 3) ([] ++ [("Type", .num 5)]) Go.emptyNode #[] = .ok r) ↔
             (∃ r, Go.setFields (Go.unmarshalFuel 3) [] Go.emptyNode #[] = .ok r)) := by
  intro h
  obtain ⟨r, hr⟩ := h.2 ⟨_, rfl⟩
  exact absurd hr (by intro h; cases h)
/-- `unmarshal_folded_is_keyword` applied -/
example (rec : URec) (n : Node) (st : Store) :
    Go.setMember rec n st "MINIMUM" (.num 5)
      = .ok ({ n with minimum := some 5, extra := some ((n.extra.getD []) ++ [("MINIMUM", .num 5)]) }, st) :=
  (unmarshal_folded_is_keyword rec n st "MINIMUM" (.num 5) (by decide)).trans (by rfl)

/-! ### The per-node checks of Resolve (`checkLocal`, `basicChecks`) under a decoration

`Resolve` refuses a schema object that sets both `$defs` and `definitions` ("both Defs and Definitions are set; at most one
should be" — pinned by resolve_test.go).  So a decoration is invisible to `checkLocal` only under the hypothesis **H_D22**: it
does not change whether the object holds both spellings.  Known finding D22; the full statement (without `hD22`) is false,
see the witness below. -/

/-- **partial** (missing: decorations that add `definitions` next to `$defs` or vice versa).  A decorated node `n'` that agrees
    with `n` on every field `checkLocal` reads other than `$defs` / `definitions` passes `checkLocal` iff `n` does. -/
theorem checkLocal_decoration_partial (env : Go.Env) (n n' : Node)
    (h1 : n'.type = n.type) (h2 : n'.types = n.types) (h3 : n'.items = n.items) (h4 : n'.itemsArray = n.itemsArray)
    (h5 : n'.propertyOrder = n.propertyOrder) (h6 : n'.dependencySchemas = n.dependencySchemas)
    (h7 : n'.dependencyStrings = n.dependencyStrings) (h8 : n'.vocabulary = n.vocabulary) (h9 : n'.schema = n.schema)
    (h10 : n'.pattern = n.pattern) (h11 : n'.patternProperties = n.patternProperties)
    (hD22 : (n'.defs.isSome && n'.definitions.isSome) = (n.defs.isSome && n.definitions.isSome)) :
    Go.checkLocalOk env n' = Go.checkLocalOk env n := by
  simp only [Go.checkLocalOk, Go.basicChecksOk, h1, h2, h3, h4, h5, h6, h7, h8, h9, h10, h11, hD22]

/-- in particular: adding or removing an (unreferenced) `$defs` map on an object without `definitions`, and the other way round -/
theorem checkLocal_defs_only (env : Go.Env) (n : Node) (d : Option (List (String × NodeId))) (h : n.definitions = none) :
    Go.checkLocalOk env { n with defs := d } = Go.checkLocalOk env n := by
  apply checkLocal_decoration_partial <;> simp [h]

theorem checkLocal_definitions_only (env : Go.Env) (n : Node) (d : Option (List (String × NodeId))) (h : n.defs = none) :
    Go.checkLocalOk env { n with definitions := d } = Go.checkLocalOk env n := by
  apply checkLocal_decoration_partial <;> simp [h]

/-- the hypothesis is met by a concrete non-trivial pair -/
example : (({ type := "string", defs := some [("a", 1)], title := "t" } : Node).defs.isSome &&
           ({ type := "string", defs := some [("a", 1)], title := "t" } : Node).definitions.isSome)
        = (({ type := "string" } : Node).defs.isSome && ({ type := "string" } : Node).definitions.isSome) := by decide

/-- **witness of D22** (the statement without `hD22` is false): `{"$defs":{"a":…}}` passes the checks, the same object with an
    unreferenced `"definitions":{"unused":…}` added does not — every verdict becomes a Resolve error. -/
example : Go.checkLocalOk { st := #[], reOk := fun _ => true, loader := none } { defs := some [("a", 1)] } = true ∧
          Go.checkLocalOk { st := #[], reOk := fun _ => true, loader := none }
            { defs := some [("a", 1)], definitions := some [("unused", 2)] } = false := by decide

end JSV.C18
