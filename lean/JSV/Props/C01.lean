/-
  C01 — Validate decides exactly the validity relation of the Spec (draft 2020-12 and draft-07 are
  both covered: the draft is a field of the environment).  Property theorems only; the proofs are in
  JSV/Proofs/Refine*.lean.  Section "algebraic laws": what the validity relation — and, through the refinement, the
  evaluator — satisfies for every schema and instance (helper lemmas: JSV/Proofs/SpecLaws*.lean).
-/
import JSV.Proofs.Refine
import JSV.Proofs.RefineMono
import JSV.Proofs.RefineSpecMono
import JSV.Proofs.RefineCheck
import JSV.Proofs.Defined
import JSV.Proofs.DefinedGuarded
import JSV.Proofs.FloatMult
import JSV.Generated.Facts
import JSV.Proofs.SpecLaws
import JSV.Proofs.SpecLawsCongr
import JSV.Proofs.SpecLawsScope
import JSV.Proofs.SpecLawsSplit
namespace JSV.C01
open JSV Go GoVal Refine

/-- with no fuel the evaluator makes no statement -/
theorem validateFuel_zero (env : VEnv) (stack : List NodeId) (i : GoVal) (s : NodeId) :
    validateFuel env 0 stack i s = .fuel := rfl

/-! ## fuel -/

/-- more fuel never changes a defined answer of the evaluator -/
theorem validate_mono (env : VEnv) (n : Nat) (stack : List NodeId) (i : GoVal) (s : NodeId) :
    validateFuel env n stack i s ⊑ validateFuel env (n + 1) stack i s :=
  Refine.validateFuel_mono env n stack i s

/-- an answer other than "out of fuel" is the answer for every larger fuel -/
theorem validate_stable (env : VEnv) (stack : List NodeId) (i : GoVal) (s : NodeId) (n : Nat) (r : Res Anns)
    (hr : validateFuel env n stack i s = r) (hne : r ≠ .fuel) :
    ∀ m, n ≤ m → validateFuel env m stack i s = r := by
  intro m hm
  induction m with
  | zero => have : n = 0 := by omega
            subst this; exact hr
  | succ m ih =>
    by_cases h : n = m + 1
    · subst h; exact hr
    · have hm' : n ≤ m := by omega
      have := ih hm'
      rcases validate_mono env m stack i s with hf | he
      · rw [this] at hf; exact absurd hf hne
      · rw [← he, this]

/-- the same for the Spec: defined answers are stable under more fuel -/
theorem spec_mono (env : Spec.Env) (n : Nat) (stack : List NodeId) (s : NodeId) (j : Json) (r : Spec.R)
    (h : Spec.evalFuel env n stack s j = some r) : Spec.evalFuel env (n + 1) stack s j = some r :=
  Refine.evalFuel_mono env n stack s j r h

theorem spec_stable (env : Spec.Env) (stack : List NodeId) (s : NodeId) (j : Json) (n : Nat) (r : Spec.R)
    (h : Spec.evalFuel env n stack s j = some r) : ∀ m, n ≤ m → Spec.evalFuel env m stack s j = some r := by
  intro m hm
  induction m with
  | zero => have : n = 0 := by omega
            subst this; exact h
  | succ m ih =>
    by_cases hn : n = m + 1
    · subst hn; exact h
    · exact spec_mono env m stack s j r (ih (by omega))

/-- the validity verdict of the Spec is stable under more fuel -/
theorem valid_stable (env : Spec.Env) (root : NodeId) (j : Json) (n : Nat) (b : Bool)
    (h : Spec.valid env n root j = some b) : ∀ m, n ≤ m → Spec.valid env m root j = some b := by
  intro m hm
  unfold Spec.valid at h ⊢
  cases he : Spec.evalFuel env n [] root j with
  | none => rw [he] at h; simp at h
  | some r => rw [he] at h; rw [spec_stable env [] root j n r he m hm]; exact h

/-! ## the refinement -/

/-- **Refinement** (both drafts).  Whenever the Spec decides with some fuel, the evaluator, run with the same fuel
    on the Go value `encoding/json` produces for the instance, returns an error iff the Spec says invalid, and
    otherwise returns annotations that denote exactly the Spec's evaluated properties and items.
    `hstack`: the schemas on the caller's stack have resolution records (true of every stack `Validate` builds;
    needed because `$dynamicRef` dereferences the records of the stack entries). -/
theorem validate_refines_spec (env : VEnv) (hwf : EnvWF env) (hst : StoreWF env.st) :
    ∀ (fuel : Nat) (stack : List NodeId), (∀ x, x ∈ stack → (env.info? x).isSome = true) →
      ∀ (s : NodeId) (j : Json), Json.WF j = true →
      Rel j (Spec.evalFuel (specEnvOf env) fuel stack s j)
            (Go.validateFuel env fuel stack (GoVal.ofJson j) s) :=
  Refine.validate_refines_spec env hwf hst

/-- at the entry point: the empty stack -/
theorem validate_refines_spec_root (env : VEnv) (hwf : EnvWF env) (hst : StoreWF env.st)
    (fuel : Nat) (s : NodeId) (j : Json) (hj : Json.WF j = true) :
    Rel j (Spec.evalFuel (specEnvOf env) fuel [] s j) (Go.validateFuel env fuel [] (GoVal.ofJson j) s) :=
  Refine.validate_refines_spec_root env hwf hst fuel s j hj

/-- the instance may arrive wrapped in interfaces / pointers: only the stripped value matters -/
theorem validate_refines_spec_wrapped (env : VEnv) (hwf : EnvWF env) (hst : StoreWF env.st)
    (fuel : Nat) (s : NodeId) (j : Json) (hj : Json.WF j = true) (g : GoVal) (hg : GoVal.strip g = GoVal.ofJson j) :
    Rel j (Spec.evalFuel (specEnvOf env) fuel [] s j) (Go.validateFuel env fuel [] g s) :=
  Refine.validateFuel_refines env hwf hst fuel [] (fun _ h => nomatch h) s j g hj hg

/-- **C01.**  Whenever the Spec decides, `Validate` returns nil exactly when the instance is valid. -/
theorem C01_main (env : VEnv) (hwf : EnvWF env) (hst : StoreWF env.st) (fuel : Nat) (root : NodeId) (j : Json)
    (hj : Json.WF j = true) (b : Bool)
    (hs : Spec.valid (specEnvOf env) fuel root j = some b)
    (supported : List String) (rn : Node) (hroot : env.st.get? root = some rn)
    (hsup : supported.contains rn.schema = true) :
    Go.validate env supported fuel root (GoVal.ofJson j) = if b then .ok () else .err := by
  unfold Go.validate
  rw [hroot]
  simp only [hsup, Bool.not_true, Bool.false_eq_true, if_false]
  have hrel := validate_refines_spec_root env hwf hst fuel root j hj
  unfold Spec.valid at hs
  cases he : Spec.evalFuel (specEnvOf env) fuel [] root j with
  | none => rw [he] at hs; simp at hs
  | some r =>
    rw [he] at hs hrel
    simp only [Option.map_some, Option.some.injEq] at hs
    cases r with
    | none => simp only [Rel] at hrel; rw [hrel]; subst hs; rfl
    | some ev => obtain ⟨a, ha, _⟩ := hrel; rw [ha]; subst hs; rfl

/-- … and for every larger fuel -/
theorem C01_main_stable (env : VEnv) (hwf : EnvWF env) (hst : StoreWF env.st) (fuel : Nat) (root : NodeId) (j : Json)
    (hj : Json.WF j = true) (b : Bool)
    (hs : Spec.valid (specEnvOf env) fuel root j = some b)
    (supported : List String) (rn : Node) (hroot : env.st.get? root = some rn)
    (hsup : supported.contains rn.schema = true) (m : Nat) (hm : fuel ≤ m) :
    Go.validate env supported m root (GoVal.ofJson j) = if b then .ok () else .err :=
  C01_main env hwf hst m root j hj b (valid_stable _ root j fuel b hs m hm) supported rn hroot hsup

/-- an unsupported `$schema` is refused before any evaluation -/
theorem unsupported_schema (env : VEnv) (supported : List String) (fuel : Nat) (root : NodeId) (inst : GoVal)
    (rn : Node) (hroot : env.st.get? root = some rn) (hsup : supported.contains rn.schema = false) :
    Go.validate env supported fuel root inst = .err := by
  unfold Go.validate; rw [hroot]; simp only [hsup, Bool.not_false, if_true]

/-! ## definedness: no hang on guarded schemas

The proviso of the property ("schema recursion passes through an instance-descending keyword") as a decidable
certificate: `Go.ranked env` — the executable function `Go.rankOf env` strictly decreases along every in-place edge
(`$ref`, `$dynamicRef` and every schema it can designate dynamically, `allOf`, `anyOf`, `oneOf`, `not`, `if`/`then`/`else`,
`dependentSchemas` / schema-form `dependencies`).  `Go.closed env`: every `$ref` / `$dynamicRef` has a recorded
target and every subschema a keyword applies is a node of the store (what `Resolve` leaves behind).
Under these two, the Spec — hence the evaluator — DECIDES, with fuel linear in the nesting depth of the instance. -/

/-- what `ranked` says -/
theorem ranked_iff (env : VEnv) :
    ranked env = true ↔ ∀ s, s < env.st.size → ∀ t, t ∈ inPlaceEdges env s → rankOf env t < rankOf env s := by
  constructor
  · intro h s hs t ht
    exact Refine.ranked_spec env h s t hs ht
  · intro h
    unfold ranked rankedBy
    apply List.all_eq_true.2
    intro s hs
    apply List.all_eq_true.2
    intro t ht
    exact decide_eq_true (h s (List.mem_range.1 hs) t ht)

/-- a rank certificate excludes in-place cycles: `ranked` is at least as strict as the cycle search `guarded` -/
theorem ranked_guarded (env : VEnv) (hr : ranked env = true) : guarded env = true :=
  Refine.ranked_guarded env hr

/-- … and it is a COMPLETE certificate: when the edge targets are nodes of the store (`closed`), the cycle search finds no
    in-place cycle iff the rank table decreases along every edge.  (⇐ above; ⇒: the search with `size + 1` rounds is
    exhaustive, and without cycles `size + 1` rounds of longest-path relaxation reach a fixed point.) -/
theorem guarded_iff_ranked (env : VEnv) (hc : closed env = true) : guarded env = true ↔ ranked env = true :=
  ⟨Refine.guarded_ranked env hc, Refine.ranked_guarded env⟩

/-- the ranks are bounded by the size of the store -/
theorem maxRank_le_size (env : VEnv) : maxRank env ≤ env.st.size + 1 := Refine.maxRank_le_size env

/-- **Definedness of the Spec** (both drafts, every scope): for a ranked, closed environment, every schema `s` of the
    store and EVERY instance `j`, the Spec decides with fuel `depth j * (maxRank env + 1) + rankOf env s + 1`.
    (Lexicographic induction on (depth of the instance, rank of the schema): an in-place application keeps the instance
    and lowers the rank, an application to an item / member value / property name lowers the depth.) -/
theorem spec_defined_sharp (env : VEnv) (hr : ranked env = true) (hc : closed env = true)
    (fuel : Nat) (scope : List NodeId) (s : NodeId) (j : Json) (hs : s < env.st.size)
    (hf : Json.depth j * (maxRank env + 1) + rankOf env s + 1 ≤ fuel) :
    (Spec.evalFuel (specEnvOf env) fuel scope s j).isSome = true :=
  Refine.evalFuel_isSome env hr hc fuel scope s j hs hf

/-- … with a bound that does not mention the schema -/
theorem spec_defined (env : VEnv) (hr : ranked env = true) (hc : closed env = true)
    (fuel : Nat) (scope : List NodeId) (s : NodeId) (j : Json) (hs : s < env.st.size)
    (hf : (Json.depth j + 1) * (maxRank env + 1) ≤ fuel) :
    (Spec.evalFuel (specEnvOf env) fuel scope s j).isSome = true :=
  Refine.evalFuel_isSome_uniform env hr hc fuel scope s j hs hf

/-- … and with one that does not mention the rank table: `(depth j + 1) * (number of schemas + 2)` -/
theorem spec_defined_size (env : VEnv) (hr : ranked env = true) (hc : closed env = true)
    (fuel : Nat) (scope : List NodeId) (s : NodeId) (j : Json) (hs : s < env.st.size)
    (hf : (Json.depth j + 1) * (env.st.size + 2) ≤ fuel) :
    (Spec.evalFuel (specEnvOf env) fuel scope s j).isSome = true :=
  Refine.evalFuel_isSome_size env hr hc fuel scope s j hs hf

/-- the validity verdict exists -/
theorem valid_defined (env : VEnv) (hr : ranked env = true) (hc : closed env = true)
    (fuel : Nat) (root : NodeId) (j : Json) (hs : root < env.st.size)
    (hf : (Json.depth j + 1) * (maxRank env + 1) ≤ fuel) :
    ∃ b, Spec.valid (specEnvOf env) fuel root j = some b := by
  have h := spec_defined env hr hc fuel [] root j hs hf
  unfold Spec.valid
  cases he : Spec.evalFuel (specEnvOf env) fuel [] root j with
  | none => rw [he] at h; cases h
  | some r => exact ⟨r.isSome, rfl⟩

/-- **C01 on guarded schemas**, no definedness hypothesis left: with fuel `(depth j + 1) * (maxRank env + 1)`,
    `Validate` returns nil iff the Spec says valid and an error iff the Spec says invalid (and one of the two happens). -/
theorem C01_main_guarded (env : VEnv) (hwf : EnvWF env) (hst : StoreWF env.st)
    (hr : ranked env = true) (hc : closed env = true) (fuel : Nat) (root : NodeId) (j : Json)
    (hj : Json.WF j = true) (supported : List String) (rn : Node) (hroot : env.st.get? root = some rn)
    (hsup : supported.contains rn.schema = true) (hf : (Json.depth j + 1) * (maxRank env + 1) ≤ fuel) :
    (Go.validate env supported fuel root (GoVal.ofJson j) = .ok () ↔ Spec.valid (specEnvOf env) fuel root j = some true) ∧
    (Go.validate env supported fuel root (GoVal.ofJson j) = .err ↔ Spec.valid (specEnvOf env) fuel root j = some false) ∧
    (Go.validate env supported fuel root (GoVal.ofJson j) = .ok () ∨
      Go.validate env supported fuel root (GoVal.ofJson j) = .err) := by
  have hs : root < env.st.size := (Array.getElem?_eq_some_iff.1 hroot).1
  obtain ⟨b, hb⟩ := valid_defined env hr hc fuel root j hs hf
  have hm := C01_main env hwf hst fuel root j hj b hb supported rn hroot hsup
  rw [hm, hb]
  cases b with
  | true =>
    refine ⟨⟨fun _ => rfl, fun _ => rfl⟩, ⟨fun h => ?_, fun h => ?_⟩, Or.inl rfl⟩
    · cases h
    · cases h
  | false =>
    refine ⟨⟨fun h => ?_, fun h => ?_⟩, ⟨fun _ => rfl, fun _ => rfl⟩, Or.inr rfl⟩
    · cases h
    · cases h

/-- the same with the cycle search `guarded` as the hypothesis (the prefilter of the correspondence runs) -/
theorem C01_main_of_guarded (env : VEnv) (hwf : EnvWF env) (hst : StoreWF env.st)
    (hg : guarded env = true) (hc : closed env = true) (fuel : Nat) (root : NodeId) (j : Json)
    (hj : Json.WF j = true) (supported : List String) (rn : Node) (hroot : env.st.get? root = some rn)
    (hsup : supported.contains rn.schema = true) (hf : (Json.depth j + 1) * (maxRank env + 1) ≤ fuel) :
    (Go.validate env supported fuel root (GoVal.ofJson j) = .ok () ↔ Spec.valid (specEnvOf env) fuel root j = some true) ∧
    (Go.validate env supported fuel root (GoVal.ofJson j) = .err ↔ Spec.valid (specEnvOf env) fuel root j = some false) ∧
    (Go.validate env supported fuel root (GoVal.ofJson j) = .ok () ∨
      Go.validate env supported fuel root (GoVal.ofJson j) = .err) :=
  C01_main_guarded env hwf hst ((guarded_iff_ranked env hc).1 hg) hc fuel root j hj supported rn hroot hsup hf

/-- the same against the fuel-free reading of the Spec ("valid with SOME fuel"): the fuel of the Spec side is
    immaterial once the evaluator has `(depth j + 1) * (maxRank env + 1)` -/
theorem C01_main_guarded_any_fuel (env : VEnv) (hwf : EnvWF env) (hst : StoreWF env.st)
    (hr : ranked env = true) (hc : closed env = true) (fuel : Nat) (root : NodeId) (j : Json)
    (hj : Json.WF j = true) (supported : List String) (rn : Node) (hroot : env.st.get? root = some rn)
    (hsup : supported.contains rn.schema = true) (hf : (Json.depth j + 1) * (maxRank env + 1) ≤ fuel) :
    (Go.validate env supported fuel root (GoVal.ofJson j) = .ok () ↔ ∃ n, Spec.valid (specEnvOf env) n root j = some true) ∧
    (Go.validate env supported fuel root (GoVal.ofJson j) = .err ↔ ∃ n, Spec.valid (specEnvOf env) n root j = some false) := by
  obtain ⟨h1, h2, _⟩ := C01_main_guarded env hwf hst hr hc fuel root j hj supported rn hroot hsup hf
  have hs : root < env.st.size := (Array.getElem?_eq_some_iff.1 hroot).1
  have key : ∀ b n, Spec.valid (specEnvOf env) n root j = some b → Spec.valid (specEnvOf env) fuel root j = some b := by
    intro b n hn
    obtain ⟨b', hb'⟩ := valid_defined env hr hc fuel root j hs hf
    have e1 := valid_stable _ root j n b hn (max n fuel) (Nat.le_max_left _ _)
    have e2 := valid_stable _ root j fuel b' hb' (max n fuel) (Nat.le_max_right _ _)
    rw [e1] at e2
    rw [hb', ← Option.some.inj e2]
  exact ⟨⟨fun h => ⟨fuel, h1.1 h⟩, fun ⟨n, hn⟩ => h1.2 (key true n hn)⟩,
    ⟨fun h => ⟨fuel, h2.1 h⟩, fun ⟨n, hn⟩ => h2.2 (key false n hn)⟩⟩

/-! ## The hypotheses are satisfiable on a non-trivial environment

`{"allOf":[{"properties":{"a":{}}}],"unevaluatedProperties":false}` as a five-node store
(`false` is unmarshalled to `{"not":{}}`). -/

def exStore : Store := #[
  { allOf := some [1], unevaluatedProperties := some 3 },
  { properties := some [("a", 2)] },
  {},
  { not := some 4 },
  {} ]

def exInfos : List (NodeId × Info) :=
  [(0, { path := "root", base := some 0 }), (1, { path := "/allOf/0", base := some 0 }),
   (2, { path := "/allOf/0/properties/a", base := some 0 }), (3, { path := "/unevaluatedProperties", base := some 0 }),
   (4, { path := "/unevaluatedProperties/not", base := some 0 })]

def exEnv : VEnv :=
  { st := exStore, draft := .d2020, infos := exInfos, reMatch := fun _ _ => false, hash := fun _ => 0 }

theorem exEnv_wf : EnvWF exEnv := EnvWF_of_checks exEnv (by decide) (by decide) (fun _ _ _ => rfl)
theorem exEnv_store : StoreWF exEnv.st := StoreWF_of_check _ (by decide)

def exGood : Json := .obj [("a", .str "x")]
def exBad : Json := .obj [("a", .str "x"), ("b", .null)]

example : Json.WF exGood = true := by decide
example : Json.WF exBad = true := by decide
example : Spec.valid (specEnvOf exEnv) 3 0 exGood = some true := by decide
example : Spec.valid (specEnvOf exEnv) 3 0 exBad = some false := by decide
/-- with too little fuel the Spec makes no statement (and the theorem none either) -/
example : Spec.valid (specEnvOf exEnv) 2 0 exGood = none := by decide

/-- `C01_main` applied: the valid instance -/
example : Go.validate exEnv [""] 3 0 (GoVal.ofJson exGood) = .ok () :=
  C01_main exEnv exEnv_wf exEnv_store 3 0 exGood (by decide) true (by decide) [""] _ rfl (by decide)
/-- `C01_main` applied: `b` is not evaluated by the allOf branch, so `unevaluatedProperties: false` rejects -/
example : Go.validate exEnv [""] 3 0 (GoVal.ofJson exBad) = .err :=
  C01_main exEnv exEnv_wf exEnv_store 3 0 exBad (by decide) false (by decide) [""] _ rfl (by decide)
/-- the same by running the model -/
example : Go.validate exEnv [""] 3 0 (GoVal.ofJson exGood) = .ok () := by decide
example : Go.validate exEnv [""] 3 0 (GoVal.ofJson exBad) = .err := by decide
/-- `C01_main_stable`, `validate_stable` applied -/
example : Go.validate exEnv [""] 10 0 (GoVal.ofJson exBad) = .err :=
  C01_main_stable exEnv exEnv_wf exEnv_store 3 0 exBad (by decide) false (by decide) [""] _ rfl (by decide) 10
    (by decide)
example : Spec.valid (specEnvOf exEnv) 7 0 exGood = some true :=
  valid_stable _ 0 exGood 3 true (by decide) 7 (by decide)

/-! ## why the stack hypothesis of `validate_refines_spec` is needed

A caller's stack naming a schema without resolution record makes `$dynamicRef` panic (nil dereference
in the stack walk), while the Spec's scope walk skips such an entry.  `Validate` never builds such a stack. -/

def cexEnv : VEnv :=
  { st := #[{ dynamicRef := "#a" }, {}], draft := .d2020,
    infos := [(0, { base := some 0, resolvedDynamicRef := some 1, dynamicRefAnchor := "a" }), (1, { base := some 0 })],
    reMatch := fun _ _ => false, hash := fun _ => 0 }

example : EnvWF cexEnv := EnvWF_of_checks cexEnv (by decide) (by decide) (fun _ _ _ => rfl)
example : StoreWF cexEnv.st := StoreWF_of_check _ (by decide)
example : (Spec.evalFuel (specEnvOf cexEnv) 2 [7] 0 .null).map Option.isSome = some true := by decide
example : (Go.validateFuel cexEnv 2 [7] (GoVal.ofJson .null) 0).verdict = none := by decide
example : (Go.validateFuel cexEnv 2 [7] (GoVal.ofJson .null) 0).isOk = false := by decide
/-- with a well-formed stack the two agree, as the theorem says -/
example : (Go.validateFuel cexEnv 2 [0] (GoVal.ofJson .null) 0).isOk = true := by decide


/-! ## definedness: the certificates on concrete environments -/

example : ranked exEnv = true := by decide
example : closed exEnv = true := by decide
example : guarded exEnv = true := by decide
example : ranked exEnv = true := (guarded_iff_ranked exEnv (by decide)).1 (by decide)
example : maxRank exEnv = 1 := by decide
example : Json.depth exBad = 1 := by decide
/-- `C01_main_guarded` applied: fuel (1 + 1) * (1 + 1) = 4 decides, nothing about the Spec is assumed -/
example : Go.validate exEnv [""] 4 0 (GoVal.ofJson exBad) = .ok () ∨ Go.validate exEnv [""] 4 0 (GoVal.ofJson exBad) = .err :=
  (C01_main_guarded exEnv exEnv_wf exEnv_store (by decide) (by decide) 4 0 exBad (by decide) [""] _ rfl (by decide)
    (by decide)).2.2

/-- a linked list: `{"properties":{"next":{"$ref":"#"}},"required":["v"]}` — recursion through `properties`, which
    descends into the instance: ranked (the only in-place edge is 1 → 0) -/
def listEnv : VEnv :=
  { st := #[{ properties := some [("next", 1)], required := some ["v"] }, { ref := "#" }], draft := .d2020,
    infos := [(0, { base := some 0 }), (1, { path := "/properties/next", base := some 0, resolvedRef := some 0 })],
    reMatch := fun _ _ => false, hash := fun _ => 0 }

theorem listEnv_wf : EnvWF listEnv := EnvWF_of_checks listEnv (by decide) (by decide) (fun _ _ _ => rfl)
theorem listEnv_store : StoreWF listEnv.st := StoreWF_of_check _ (by decide)

def listGood : Json := .obj [("v", .null), ("next", .obj [("v", .null), ("next", .obj [("v", .null)])])]
def listBad : Json := .obj [("v", .null), ("next", .obj [("v", .null), ("next", .obj [])])]
/-- the chain ends in a scalar (`required` says nothing about a non-object) -/
def listTight : Json := .obj [("v", .null), ("next", .obj [("v", .null), ("next", .obj [("next", .null), ("v", .null)])])]

example : ranked listEnv = true := by decide
example : closed listEnv = true := by decide
example : rankOf listEnv 0 = 0 ∧ rankOf listEnv 1 = 1 ∧ maxRank listEnv = 1 := by decide
example : Json.depth listGood = 3 ∧ Json.depth listTight = 3 := by decide
/-- `spec_defined` instantiated: (3 + 1) * (1 + 1) = 8 -/
example : (Spec.evalFuel (specEnvOf listEnv) 8 [] 0 listGood).isSome = true :=
  spec_defined listEnv (by decide) (by decide) 8 [] 0 listGood (by decide) (by decide)
/-- the sharp bound 3 * 2 + 0 + 1 = 7 is attained: each level of the instance costs two units (the schema and the
    `$ref`), and 6 units do not decide `listTight` -/
example : (Spec.evalFuel (specEnvOf listEnv) 7 [] 0 listTight).isSome = true :=
  spec_defined_sharp listEnv (by decide) (by decide) 7 [] 0 listTight (by decide) (by decide)
example : Spec.valid (specEnvOf listEnv) 7 0 listTight = some true := by decide
example : Spec.valid (specEnvOf listEnv) 6 0 listTight = none := by decide
/-- `C01_main_guarded` decides both ways -/
example : Go.validate listEnv [""] 8 0 (GoVal.ofJson listGood) = .ok () :=
  (C01_main_guarded listEnv listEnv_wf listEnv_store (by decide) (by decide) 8 0 listGood (by decide) [""] _ rfl
    (by decide) (by decide)).1.2 (by decide)
example : Go.validate listEnv [""] 8 0 (GoVal.ofJson listBad) = .err :=
  (C01_main_guarded listEnv listEnv_wf listEnv_store (by decide) (by decide) 8 0 listBad (by decide) [""] _ rfl
    (by decide) (by decide)).2.1.2 (by decide)

/-- an in-place loop: `{"$ref":"#"}`.  Not ranked (nor guarded), and indeed the Spec never decides: the proviso is needed. -/
def loopEnv : VEnv :=
  { st := #[{ ref := "#" }], draft := .d2020, infos := [(0, { base := some 0, resolvedRef := some 0 })],
    reMatch := fun _ _ => false, hash := fun _ => 0 }

example : ranked loopEnv = false := by decide
example : guarded loopEnv = false := by decide
example : closed loopEnv = true := by decide
example : Spec.evalFuel (specEnvOf loopEnv) 20 [] 0 .null = none := by decide
example : (Go.validateFuel loopEnv 20 [] (GoVal.ofJson .null) 0).verdict = none := by decide
/-- … with every fuel -/
theorem loopEnv_undefined : ∀ fuel scope, Spec.evalFuel (specEnvOf loopEnv) fuel scope 0 .null = none
  | 0, _ => rfl
  | fuel + 1, scope => by
    show Spec.evalStep (specEnvOf loopEnv) (Spec.evalFuel (specEnvOf loopEnv) fuel) scope 0 .null = none
    apply Refine.evalStep_undefined (specEnvOf loopEnv) _ scope 0 .null { ref := "#" } rfl rfl
    have h : Spec.kwRef (specEnvOf loopEnv) (Spec.evalFuel (specEnvOf loopEnv) fuel (scope ++ [0])) 0
        { ref := "#" } .null = none := by
      unfold Spec.kwRef Spec.inPlace
      rw [if_pos (by decide)]
      exact loopEnv_undefined fuel (scope ++ [0])
    rw [h]
    rfl

/-- a missing `$ref` record: ranked but not closed, and the Spec is undefined whatever the fuel allows -/
def danglingEnv : VEnv :=
  { st := #[{ ref := "#/nowhere" }], draft := .d2020, infos := [(0, { base := some 0 })],
    reMatch := fun _ _ => false, hash := fun _ => 0 }
example : ranked danglingEnv = true := by decide
example : closed danglingEnv = false := by decide
example : Spec.evalFuel (specEnvOf danglingEnv) 20 [] 0 .null = none := by decide

/-! ## `multipleOf`: the float64 quotient of the code against the exact division of the model

The code computes `math.Modf(nf / m)` in float64 and asks for a zero fractional part; the model and the Spec ask whether the
exact quotient is an integer.  Over an abstract rounding `fl` with (R1) `|fl x − x| ≤ |x| / 2^53` and (R2) `fl z = z` for
integers `|z| ≤ 2^53` the two agree whenever the numerator of the exact quotient is below 2^53 — in particular on the
generators' domain.  Proofs in `JSV/Proofs/FloatMult.lean`. -/

open FloatMult in
/-- **`multipleOf_float_exact`.**  `|n/m| < 2^k`, `den (n/m) ≤ 2^d`, `k + d ≤ 53` (the design document's `≤ 52` included):
    the rounded quotient is an integer exactly when the exact quotient is. -/
theorem multipleOf_float_exact (fl : Rat → Rat)
    (R1 : ∀ x : Rat, (fl x - x).abs ≤ x.abs / 2 ^ 53)
    (R2 : ∀ z : Int, z.natAbs ≤ 2 ^ 53 → fl z = z)
    (n m : Rat) (k d : Nat) (hk : (n / m).abs < 2 ^ k) (hd : (n / m).den ≤ 2 ^ d) (hkd : k + d ≤ 53) :
    (∃ z : Int, fl (n / m) = z) ↔ (∃ z : Int, n / m = z) :=
  FloatMult.multipleOf_float_exact fl R1 R2 n m k d hk hd hkd

open FloatMult in
/-- the same with the one hypothesis that matters: the numerator of the quotient in lowest terms is below 2^53 -/
theorem multipleOf_float_exact_num (fl : Rat → Rat) (h1 : R1 fl) (h2 : R2 fl)
    (n m : Rat) (hq : (n / m).num.natAbs < 2 ^ 53) :
    (∃ z : Int, fl (n / m) = z) ↔ (∃ z : Int, n / m = z) :=
  float_int_iff fl h1 h2 (n / m) hq

/-- the Spec and the model state `multipleOf` by the same exact division -/
theorem multipleOk_eq_spec (q m : Rat) : Go.multipleOk q m = (m != 0 && (q / m).den == 1) := rfl

open FloatMult in
/-- **In the model's terms**: for a divisor `m ≠ 0` and a quotient with numerator below 2^53, the model's verdict
    `multipleOk n m` is the verdict of the code, "`math.Modf (fl (n / m))` has fractional part 0". -/
theorem multipleOk_float (fl : Rat → Rat) (h1 : R1 fl) (h2 : R2 fl)
    (n m : Rat) (hm : m ≠ 0) (hq : (n / m).num.natAbs < 2 ^ 53) :
    Go.multipleOk n m = decide (modfFrac (fl (n / m)) = 0) := by
  have h := modf_verdict_exact fl h1 h2 (n / m) hq
  have hm' : (m != 0) = true := by simpa using hm
  unfold Go.multipleOk
  rw [hm', Bool.true_and]
  by_cases hd : (n / m).den = 1
  · rw [decide_eq_true (h.2 hd)]; simpa using hd
  · rw [decide_eq_false (fun h0 => hd (h.1 h0))]; simpa using hd

open FloatMult in
/-- … also when the code first converts the operands (`nf, _ := n.Float64()`): representable operands are unchanged -/
theorem multipleOk_float_operands (fl : Rat → Rat) (h1 : R1 fl) (h2 : R2 fl)
    (n m : Rat) (hn : fl n = n) (hmr : fl m = m) (hm : m ≠ 0) (hq : (n / m).num.natAbs < 2 ^ 53) :
    Go.multipleOk n m = decide (modfFrac (fl (fl n / fl m)) = 0) := by
  rw [hn, hmr]; exact multipleOk_float fl h1 h2 n m hm hq

open FloatMult in
/-- **On the generators' domain `D_mult`** (instance `a · 2^(e − e')`, divisor `b · 2^(f − f')`, `|a| < 2^20`, exponents
    at most 10): the quotient's numerator is below 2^40, so the model's verdict is the float verdict. -/
theorem multipleOk_float_dmult (fl : Rat → Rat) (h1 : R1 fl) (h2 : R2 fl)
    (a b : Int) (e e' f f' : Nat) (ha : a.natAbs < 2 ^ 20) (he : e ≤ 10) (hf' : f' ≤ 10) (hb : dy b f f' ≠ 0) :
    Go.multipleOk (dy a e e') (dy b f f') = decide (modfFrac (fl (dy a e e' / dy b f f')) = 0) :=
  multipleOk_float fl h1 h2 _ _ hb (Nat.lt_trans (dmult_num_lt a b e e' f f' ha he hf') (by decide))

/-- the bound cannot be relaxed: with numerator exactly 2^53 a rounding that satisfies (R1) and (R2) can turn a
    non-integer quotient into an integer -/
theorem multipleOf_float_exact_sharp :
    ∃ fl : Rat → Rat, FloatMult.R1 fl ∧ FloatMult.R2 fl ∧
      ∃ q : Rat, q.num.natAbs = 2 ^ 53 ∧ (∃ z : Int, fl q = z) ∧ ¬ (∃ z : Int, q = z) :=
  FloatMult.float_int_iff_sharp

/-! ### the hypotheses are satisfiable on the generators' pools; outside the domain the verdicts differ -/

section
open FloatMult
variable (fl : Rat → Rat) (h1 : R1 fl) (h2 : R2 fl)
include h1 h2

/-- `7.5` is a multiple of `0.25` (`k = 5`, `d = 0`): whatever the rounding, the float quotient is an integer -/
example : ∃ z : Int, fl ((15 / 2) / (1 / 4)) = z :=
  (multipleOf_float_exact fl h1 h2 (15 / 2) (1 / 4) 5 0 (by decide +kernel) (by decide +kernel) (by decide)).2
    ⟨30, by decide +kernel⟩
/-- `1` is not a multiple of `3` (`k = 0`, `d = 2`: the denominator 3 is not a power of two, `3 ≤ 2^2`): whatever the
    rounding, the float quotient is not an integer -/
example : ¬ ∃ z : Int, fl (1 / 3) = z := fun h =>
  absurd ((isInt_iff_den _).1 ((multipleOf_float_exact fl h1 h2 1 3 0 2 (by decide +kernel) (by decide +kernel)
    (by decide)).1 h)) (by decide +kernel)
/-- the same in the model's terms -/
example : Go.multipleOk (15 / 2) (1 / 4) = true ∧ modfFrac (fl ((15 / 2) / (1 / 4))) = 0 := by
  have h := multipleOk_float fl h1 h2 (15 / 2) (1 / 4) (by decide +kernel) (by decide +kernel)
  have e : Go.multipleOk (15 / 2) (1 / 4) = true := by decide +kernel
  rw [e] at h
  exact ⟨e, of_decide_eq_true h.symm⟩
example : Go.multipleOk 1 3 = false ∧ modfFrac (fl (1 / 3)) ≠ 0 := by
  have h := multipleOk_float fl h1 h2 1 3 (by decide) (by decide +kernel)
  have e : Go.multipleOk 1 3 = false := by decide +kernel
  rw [e] at h
  exact ⟨e, of_decide_eq_false h.symm⟩
/-- as members of `D_mult`: `7.5 = 15 · 2^0 / 2^1`, `0.25 = 1 · 2^0 / 2^2` -/
example : Go.multipleOk (dy 15 0 1) (dy 1 0 2) = decide (modfFrac (fl (dy 15 0 1 / dy 1 0 2)) = 0) :=
  multipleOk_float_dmult fl h1 h2 15 1 0 1 0 2 (by decide) (by decide) (by decide) (by decide +kernel)
end

/-- **Outside the domain** (`2^55` is in the pool of large instance numbers, and a float64): float64 division, written out
    as round-to-nearest-even on rationals (`FloatMult.rne53`), makes `2^55 / 3` the integer `12009599006321322` — the code
    accepts `{"multipleOf": 3}` for `36028797018963968`, the model (exact division) rejects it.  This is why operations that
    combine `multipleOf` with operands of magnitude ≥ 2^50 are outside the property. -/
example : Go.multipleOk (2 ^ 55) 3 = false ∧ FloatMult.modfFrac (FloatMult.rne53 (2 ^ 55 / 3)) = 0 := by decide +kernel

/-! ## tie to the source: the order of the keyword blocks (regenerated from validate.go on every run) -/

/-- The Schema fields in the order in which the model's `Go.step` chain reads them: `bRef`; `bType`; `bEnum`; `bConst`;
    `bNumeric`; `bString`; `bDynamicRef`; the in-place applicators `bAllOf` `bAnyOf` `bOneOf` `bNot` `bIf`; the array group
    (`bItems`, `bContains`, `bArrayLimits`, `bUnique`, then `unevaluatedItems`); the object group (`bProps`, `propertyNames`,
    `bObjectLimits`, `required`, `bDependencies`, then `unevaluatedProperties`).  In-place applicators come before both
    `unevaluated*` keywords, and each `unevaluated*` keyword closes its group. -/
def blockReadOrder : List String := [
  "Ref", "Type", "Types", "Enum", "Const", "MultipleOf", "Minimum", "Maximum", "ExclusiveMinimum", "ExclusiveMaximum",
  "MinLength", "MaxLength", "Pattern", "DynamicRef", "AllOf", "AnyOf", "OneOf", "Not", "If", "Then", "Else",
  "ItemsArray", "AdditionalItems", "Items", "PrefixItems", "Contains", "MinContains", "MaxContains", "MinItems", "MaxItems",
  "UniqueItems", "UnevaluatedItems", "Properties", "PatternProperties", "AdditionalProperties", "PropertyNames",
  "MinProperties", "MaxProperties", "Required", "DependencyStrings", "DependencySchemas", "DependentRequired",
  "DependentSchemas", "UnevaluatedProperties"]

/-- the keyword blocks of `(*state).validate` occur in the source in the order of the model's blocks (first occurrence of each
    `schema.X` selector, regenerated by factgen): a block moved in front of / behind another one breaks this obligation -/
theorem block_order_eq_generated : Generated.validateReadOrder = blockReadOrder := by
  decide

/-- in particular every in-place applicator and every adjacent keyword is read before `unevaluatedItems` /
    `unevaluatedProperties` (the order the specification requires) -/
theorem unevaluated_after_in_place :
    (["Ref", "DynamicRef", "AllOf", "AnyOf", "OneOf", "Not", "If", "Then", "Else", "DependentSchemas", "DependencySchemas",
      "Properties", "PatternProperties", "AdditionalProperties"].all fun k =>
        Generated.validateReadOrder.idxOf k < Generated.validateReadOrder.idxOf "UnevaluatedProperties") = true ∧
    (["Ref", "DynamicRef", "AllOf", "AnyOf", "OneOf", "Not", "If", "Then", "Else", "PrefixItems", "Items", "ItemsArray",
      "AdditionalItems", "Contains"].all fun k =>
        Generated.validateReadOrder.idxOf k < Generated.validateReadOrder.idxOf "UnevaluatedItems") = true := by
  decide

/-! ## algebraic laws

Laws of JSON-Schema validity that every reader of the specification expects, proved of the Spec for EVERY environment,
fuel, dynamic scope and instance, and transferred to the evaluator through `validate_refines_spec`.  A law speaks of the
content of schema objects of the store: `Laws.keywords n = { allOf := some [t] }` says that the only keyword of `n` that
validation reads is `allOf: [t]` (`$id`, `$defs`, `title`, `default`, `format` … may be present).  An application at the
object `s` with scope `scope` applies the subschemas of `s` with scope `scope ++ [s]` and one unit of fuel less; the laws are
equalities of the three-valued outcomes (`none`: undefined with this fuel, `some none`: invalid, `some (some ev)`: valid
with evaluated sets `ev`), so they hold "whenever defined" and also preserve undefinedness.  The evaluator corollaries
(`…_go`) assume that the Spec decides the subschema application (`C01.spec_defined` gives that for guarded schemas). -/

section laws
variable (env : Spec.Env) (fuel : Nat) (scope : List NodeId) (s : NodeId) (n : Node) (j : Json)

/-! ### 1. `true` and `false` -/

/-- `true` / `{}`: a schema object without validation keywords accepts every instance and evaluates nothing -/
theorem true_accepts (hn : env.st.get? s = some n) (hk : Laws.keywords n = {}) :
    Spec.evalFuel env (fuel + 1) scope s j = some (some {}) := by
  rw [Laws.evalFuel_succ_of env fuel scope s j n {} hn hk, Laws.specBody_empty]

/-- `false` / `{"not": {}}` (what `false` is unmarshalled to) rejects every instance -/
theorem false_rejects (t : NodeId) (m : Node) (hn : env.st.get? s = some n) (hk : Laws.keywords n = { not := some t })
    (hm : env.st.get? t = some m) (hkm : Laws.keywords m = {}) :
    Spec.evalFuel env (fuel + 2) scope s j = some none := by
  rw [Laws.evalFuel_succ_of env (fuel + 1) scope s j n _ hn hk, Laws.specBody_not,
    Laws.kwNot_eq _ _ _ t rfl, true_accepts env fuel _ t m j hm hkm]
  rfl

/-! ### 2. `allOf`, `anyOf`, `oneOf` with one branch or none -/

/-- `allOf [t]` is `t`: same verdict, same evaluated sets (`t` applied with `s` on the dynamic scope) -/
theorem allOf_singleton (t : NodeId) (hn : env.st.get? s = some n) (hk : Laws.keywords n = { allOf := some [t] }) :
    Spec.evalFuel env (fuel + 1) scope s j = Spec.evalFuel env fuel (scope ++ [s]) t j := by
  rw [Laws.evalFuel_succ_of env fuel scope s j n _ hn hk, Laws.specBody_allOf, Laws.kwAllOf_single _ _ _ t rfl]

/-- `anyOf [t]` is `t` -/
theorem anyOf_singleton (t : NodeId) (hn : env.st.get? s = some n) (hk : Laws.keywords n = { anyOf := some [t] }) :
    Spec.evalFuel env (fuel + 1) scope s j = Spec.evalFuel env fuel (scope ++ [s]) t j := by
  rw [Laws.evalFuel_succ_of env fuel scope s j n _ hn hk, Laws.specBody_anyOf, Laws.kwAnyOf_single _ _ _ t rfl]

/-- `oneOf [t]` is `t` -/
theorem oneOf_singleton (t : NodeId) (hn : env.st.get? s = some n) (hk : Laws.keywords n = { oneOf := some [t] }) :
    Spec.evalFuel env (fuel + 1) scope s j = Spec.evalFuel env fuel (scope ++ [s]) t j := by
  rw [Laws.evalFuel_succ_of env fuel scope s j n _ hn hk, Laws.specBody_oneOf, Laws.kwOneOf_single _ _ _ t rfl]

/-- `allOf []` accepts every instance (and evaluates nothing) -/
theorem allOf_empty (hn : env.st.get? s = some n) (hk : Laws.keywords n = { allOf := some [] }) :
    Spec.evalFuel env (fuel + 1) scope s j = some (some {}) := by
  rw [Laws.evalFuel_succ_of env fuel scope s j n _ hn hk, Laws.specBody_allOf, Laws.kwAllOf_nil _ _ _ rfl]

/-- `anyOf []` rejects every instance -/
theorem anyOf_empty (hn : env.st.get? s = some n) (hk : Laws.keywords n = { anyOf := some [] }) :
    Spec.evalFuel env (fuel + 1) scope s j = some none := by
  rw [Laws.evalFuel_succ_of env fuel scope s j n _ hn hk, Laws.specBody_anyOf, Laws.kwAnyOf_nil _ _ _ rfl]

/-- `oneOf []` rejects every instance -/
theorem oneOf_empty (hn : env.st.get? s = some n) (hk : Laws.keywords n = { oneOf := some [] }) :
    Spec.evalFuel env (fuel + 1) scope s j = some none := by
  rw [Laws.evalFuel_succ_of env fuel scope s j n _ hn hk, Laws.specBody_oneOf, Laws.kwOneOf_nil _ _ _ rfl]

/-! ### 3. double negation -/

/-- `not (not t)`: the verdict of `t`, and NOTHING evaluated (annotations do not survive `not`; `C07.not_not_drops_annotations`
    states the evaluator half) -/
theorem not_not (m : NodeId) (nm : Node) (t : NodeId) (hn : env.st.get? s = some n)
    (hk : Laws.keywords n = { not := some m }) (hm : env.st.get? m = some nm) (hkm : Laws.keywords nm = { not := some t }) :
    Spec.evalFuel env (fuel + 2) scope s j
      = (Spec.evalFuel env fuel (scope ++ [s] ++ [m]) t j).map fun r => r.map fun _ => {} := by
  rw [Laws.evalFuel_succ_of env (fuel + 1) scope s j n _ hn hk, Laws.specBody_not, Laws.kwNot_eq _ _ _ m rfl,
    Laws.evalFuel_succ_of env fuel _ m j nm _ hm hkm, Laws.specBody_not, Laws.kwNot_eq _ _ _ t rfl]
  cases Spec.evalFuel env fuel (scope ++ [s] ++ [m]) t j with
  | none => rfl
  | some r => cases r <;> rfl

/-- in particular `not (not t)` and `t` have the same verdict -/
theorem not_not_verdict (m : NodeId) (nm : Node) (t : NodeId) (hn : env.st.get? s = some n)
    (hk : Laws.keywords n = { not := some m }) (hm : env.st.get? m = some nm) (hkm : Laws.keywords nm = { not := some t }) :
    (Spec.evalFuel env (fuel + 2) scope s j).map (·.isSome)
      = (Spec.evalFuel env fuel (scope ++ [s] ++ [m]) t j).map (·.isSome) := by
  rw [not_not env fuel scope s n j m nm t hn hk hm hkm]
  cases Spec.evalFuel env fuel (scope ++ [s] ++ [m]) t j with
  | none => rfl
  | some r => cases r <;> rfl

/-! ### 4. `anyOf` / `allOf` read their branches as a set, `oneOf` counts

Stated for a branch list ANYWHERE in a schema: the store with the object at `s` overwritten
(`env.st.setIfInBounds s { n with anyOf := … }`) against the original store, for every schema `root` of the store. -/

/-- reordering, repeating or deduplicating the branches of an `anyOf` anywhere in a schema changes neither the definedness
    nor the verdict of any schema of the store, on any instance -/
theorem anyOf_set_invariant (hwf : StoreWF env.st) (ss ss' : List NodeId) (hn : env.st.get? s = some n)
    (h : n.anyOf = some ss) (hset : ∀ t, t ∈ ss ↔ t ∈ ss') (root : NodeId) (hj : Json.WF j = true) :
    (Spec.evalFuel { env with st := env.st.setIfInBounds s { n with anyOf := some ss' } } fuel scope root j).map (·.isSome)
      = (Spec.evalFuel env fuel scope root j).map (·.isSome) :=
  Laws.evalFuel_set_verdict env s n _ hn (Laws.NodeEqv_anyOf env s n ss ss' h hset) hwf fuel scope root j hj

/-- … and the evaluated properties / items are the same sets -/
theorem anyOf_set_invariant_evaluated (hwf : StoreWF env.st) (ss ss' : List NodeId) (hn : env.st.get? s = some n)
    (h : n.anyOf = some ss) (hset : ∀ t, t ∈ ss ↔ t ∈ ss') (root : NodeId) (hj : Json.WF j = true) (e e' : Spec.Ev)
    (h1 : Spec.evalFuel env fuel scope root j = some (some e))
    (h2 : Spec.evalFuel { env with st := env.st.setIfInBounds s { n with anyOf := some ss' } } fuel scope root j
      = some (some e')) :
    (∀ k, k ∈ e.props ↔ k ∈ e'.props) ∧ (∀ i, i ∈ e.items ↔ i ∈ e'.items) :=
  Laws.evalFuel_set_evaluated env s n _ hn (Laws.NodeEqv_anyOf env s n ss ss' h hset) hwf fuel scope root j hj e e' h1 h2

/-- the same for `allOf` -/
theorem allOf_set_invariant (hwf : StoreWF env.st) (ss ss' : List NodeId) (hn : env.st.get? s = some n)
    (h : n.allOf = some ss) (hset : ∀ t, t ∈ ss ↔ t ∈ ss') (root : NodeId) (hj : Json.WF j = true) :
    (Spec.evalFuel { env with st := env.st.setIfInBounds s { n with allOf := some ss' } } fuel scope root j).map (·.isSome)
      = (Spec.evalFuel env fuel scope root j).map (·.isSome) :=
  Laws.evalFuel_set_verdict env s n _ hn (Laws.NodeEqv_allOf env s n ss ss' h hset) hwf fuel scope root j hj

/-- `oneOf` is invariant under reordering its branches (not under repetition: `oneOf_double_rejects`) -/
theorem oneOf_perm_invariant (hwf : StoreWF env.st) (ss ss' : List NodeId) (hn : env.st.get? s = some n)
    (h : n.oneOf = some ss) (hp : ss.Perm ss') (root : NodeId) (hj : Json.WF j = true) :
    (Spec.evalFuel { env with st := env.st.setIfInBounds s { n with oneOf := some ss' } } fuel scope root j).map (·.isSome)
      = (Spec.evalFuel env fuel scope root j).map (·.isSome) :=
  Laws.evalFuel_set_verdict env s n _ hn (Laws.NodeEqv_oneOf env s n ss ss' h hp) hwf fuel scope root j hj

/-- `oneOf [t, t]` rejects every instance on which `t` is defined — in particular whatever `t` accepts -/
theorem oneOf_double_rejects (t : NodeId) (hn : env.st.get? s = some n) (hk : Laws.keywords n = { oneOf := some [t, t] }) :
    Spec.evalFuel env (fuel + 1) scope s j = (Spec.evalFuel env fuel (scope ++ [s]) t j).map fun _ => none := by
  rw [Laws.evalFuel_succ_of env fuel scope s j n _ hn hk, Laws.specBody_oneOf, Laws.kwOneOf_double _ _ _ t rfl]

/-! ### 5. `if` / `then` / `else` -/

/-- `if c then t else e` where `c` holds: the conjunction of `c` and `t` (verdict of `t`, evaluated sets united) -/
theorem if_true_then (c t : NodeId) (e : Option NodeId) (evc : Spec.Ev) (hn : env.st.get? s = some n)
    (hk : Laws.keywords n = { if_ := some c, then_ := some t, else_ := e })
    (hc : Spec.evalFuel env fuel (scope ++ [s]) c j = some (some evc)) :
    Spec.evalFuel env (fuel + 1) scope s j
      = (Spec.evalFuel env fuel (scope ++ [s]) t j).map fun rt => rt.map fun evt => evc.union evt := by
  rw [Laws.evalFuel_succ_of env fuel scope s j n _ hn hk, Laws.specBody_if, Laws.kwIf_true _ _ _ c t evc rfl rfl hc]

/-- `if c then t else e` where `c` fails: `e` -/
theorem if_false_else (c e : NodeId) (t : Option NodeId) (hn : env.st.get? s = some n)
    (hk : Laws.keywords n = { if_ := some c, then_ := t, else_ := some e })
    (hc : Spec.evalFuel env fuel (scope ++ [s]) c j = some none) :
    Spec.evalFuel env (fuel + 1) scope s j = Spec.evalFuel env fuel (scope ++ [s]) e j := by
  rw [Laws.evalFuel_succ_of env fuel scope s j n _ hn hk, Laws.specBody_if, Laws.kwIf_false _ _ _ c e rfl rfl hc]

/-- the verdict of `if c then t else e` is that of `(c ∧ t) ∨ (¬c ∧ e)` -/
theorem if_then_else_verdict (c t e : NodeId) (rc rt re : Spec.R) (hn : env.st.get? s = some n)
    (hk : Laws.keywords n = { if_ := some c, then_ := some t, else_ := some e })
    (hc : Spec.evalFuel env fuel (scope ++ [s]) c j = some rc) (ht : Spec.evalFuel env fuel (scope ++ [s]) t j = some rt)
    (he : Spec.evalFuel env fuel (scope ++ [s]) e j = some re) :
    (Spec.evalFuel env (fuel + 1) scope s j).map (·.isSome)
      = some ((rc.isSome && rt.isSome) || (!rc.isSome && re.isSome)) := by
  rw [Laws.evalFuel_succ_of env fuel scope s j n _ hn hk, Laws.specBody_if,
    Laws.kwIf_verdict _ _ _ c t e rc rt re rfl rfl rfl hc ht he]

/-- `if` without `then` and `else` never rejects; when the condition holds, what it evaluated counts
    (`C07.if_alone_annotations`) -/
theorem if_alone (c : NodeId) (hn : env.st.get? s = some n) (hk : Laws.keywords n = { if_ := some c }) :
    Spec.evalFuel env (fuel + 1) scope s j
      = (Spec.evalFuel env fuel (scope ++ [s]) c j).map fun rc => some (rc.getD {}) := by
  rw [Laws.evalFuel_succ_of env fuel scope s j n _ hn hk, Laws.specBody_if, Laws.kwIf_alone _ _ _ c rfl rfl rfl]

/-- … in particular its verdict, whenever defined, is "valid" -/
theorem if_alone_never_rejects (c : NodeId) (hn : env.st.get? s = some n) (hk : Laws.keywords n = { if_ := some c }) :
    Spec.evalFuel env (fuel + 1) scope s j ≠ some none := by
  rw [if_alone env fuel scope s n j c hn hk]
  cases Spec.evalFuel env fuel (scope ++ [s]) c j <;> simp

/-! ### 6. `const`, `enum`, `type` -/

/-- `const v` ≡ `enum [v]`, as the only keyword of two schema objects: the same outcome (no fuel beyond one unit, any scopes) -/
theorem const_enum_singleton (v : Json) (s' : NodeId) (n' : Node) (scope' : List NodeId) (hn : env.st.get? s = some n)
    (hk : Laws.keywords n = { const := some v }) (hn' : env.st.get? s' = some n')
    (hk' : Laws.keywords n' = { enum := some [v] }) :
    Spec.evalFuel env (fuel + 1) scope s j = Spec.evalFuel env (fuel + 1) scope' s' j := by
  rw [Laws.evalFuel_succ_of env fuel scope s j n _ hn hk, Laws.evalFuel_succ_of env fuel scope' s' j n' _ hn' hk',
    Laws.specBody_assertion_node _ _ _ _ _ _ (by constructor <;> rfl) (by constructor <;> rfl),
    Laws.specBody_assertion_node _ _ _ _ _ _ (by constructor <;> rfl) (by constructor <;> rfl),
    Laws.asserts_const_enum env _ j v rfl rfl]

/-- `const v` ≡ `enum [v]` next to ANY other keywords, anywhere in a schema: rewriting the object changes no outcome of
    the Spec (evaluated sets included), for any schema of the store -/
theorem const_enum_singleton_in_context (v : Json) (hn : env.st.get? s = some n) (hc : n.const = some v)
    (he : n.enum = none) (root : NodeId) :
    Spec.evalFuel { env with st := env.st.setIfInBounds s { n with const := none, enum := some [v] } } fuel scope root j
      = Spec.evalFuel env fuel scope root j := by
  rw [Laws.evalFuel_set_eq env s n _ hn (fun rec sc j' => Laws.specBody_const_enum env rec sc s j' n v hc he)]

/-- `enum` reads its list as a set: reordering / repeating / deduplicating the values changes no outcome -/
theorem enum_set_invariant (es es' : List Json) (hn : env.st.get? s = some n) (he : n.enum = some es)
    (hset : ∀ v, v ∈ es ↔ v ∈ es') (root : NodeId) :
    Spec.evalFuel { env with st := env.st.setIfInBounds s { n with enum := some es' } } fuel scope root j
      = Spec.evalFuel env fuel scope root j := by
  rw [Laws.evalFuel_set_eq env s n _ hn (fun rec sc j' => Laws.specBody_enum_set env rec sc s j' n es es' he hset)]

/-- `type: [t]` ≡ `type: t` (the two Go fields `Types` / `Type`; `t ≠ ""` because the empty `Type` means "absent") -/
theorem type_singleton (t : String) (ht : t ≠ "") (hn : env.st.get? s = some n) (h1 : n.type = "")
    (h2 : n.types = some [t]) (root : NodeId) :
    Spec.evalFuel { env with st := env.st.setIfInBounds s { n with type := t, types := none } } fuel scope root j
      = Spec.evalFuel env fuel scope root j := by
  rw [Laws.evalFuel_set_eq env s n _ hn (fun rec sc j' => Laws.specBody_type_singleton env rec sc s j' n t ht h1 h2)]

/-- `type: "number"` accepts whatever `type: "integer"` accepts -/
theorem type_integer_number (s' : NodeId) (n' : Node) (scope' : List NodeId) (hn : env.st.get? s = some n)
    (hk : Laws.keywords n = { type := "integer" }) (hn' : env.st.get? s' = some n')
    (hk' : Laws.keywords n' = { type := "number" })
    (h : Spec.evalFuel env (fuel + 1) scope s j = some (some {})) :
    Spec.evalFuel env (fuel + 1) scope' s' j = some (some {}) := by
  rw [Laws.evalFuel_succ_of env fuel scope s j n _ hn hk,
    Laws.specBody_assertion_node _ _ _ _ _ _ (by constructor <;> rfl) (by constructor <;> rfl)] at h
  rw [Laws.evalFuel_succ_of env fuel scope' s' j n' _ hn' hk',
    Laws.specBody_assertion_node _ _ _ _ _ _ (by constructor <;> rfl) (by constructor <;> rfl)]
  rw [Laws.assertsOf_type_only env j "integer" (by decide)] at h
  rw [Laws.assertsOf_type_only env j "number" (by decide)]
  have hi : Spec.typeMatches "integer" j = true := by
    cases hm : Spec.typeMatches "integer" j with
    | true => rfl
    | false => rw [hm] at h; simp at h
  rw [Laws.typeMatches_integer_number j hi]; rfl

/-! ### the dynamic scope in these laws

`allOf [t]` applies `t` with the wrapper on the dynamic scope.  That is immaterial when no `$dynamicAnchor` is declared, and
when the wrapper belongs to the schema resource of `t`: then "`allOf [t]` is `t`" holds with the same scope. -/

/-- without `$dynamicAnchor` anywhere, the dynamic scope is immaterial -/
theorem scope_irrelevant (h : ∀ r name, env.dynDecl r name = none) (scope' : List NodeId) :
    Spec.evalFuel env fuel scope s j = Spec.evalFuel env fuel scope' s j :=
  Laws.evalFuel_scope_eqv env fuel scope scope' s j (Laws.ScopeEqv_of_no_dynamic env h scope scope')

/-- entering a wrapper of the same schema resource first changes nothing -/
theorem scope_wrapper (a : NodeId) (h : env.resource a = env.resource s) :
    Spec.evalFuel env fuel (scope ++ [a]) s j = Spec.evalFuel env fuel scope s j :=
  Laws.evalFuel_wrapper env fuel scope a s j h

/-- `allOf [t]`, wrapper and `t` in one schema resource: exactly the outcome of `t` under the same scope -/
theorem allOf_singleton_same_resource (t : NodeId) (hn : env.st.get? s = some n)
    (hk : Laws.keywords n = { allOf := some [t] }) (hres : env.resource s = env.resource t) :
    Spec.evalFuel env (fuel + 1) scope s j = Spec.evalFuel env fuel scope t j := by
  rw [allOf_singleton env fuel scope s n j t hn hk, Laws.evalFuel_wrapper env fuel scope s t j hres]

/-- `not (not t)` in one schema resource: the verdict of `t` under the same scope, nothing evaluated -/
theorem not_not_same_resource (m : NodeId) (nm : Node) (t : NodeId) (hn : env.st.get? s = some n)
    (hk : Laws.keywords n = { not := some m }) (hm : env.st.get? m = some nm) (hkm : Laws.keywords nm = { not := some t })
    (hs : env.resource s = env.resource t) (hmr : env.resource m = env.resource t) :
    Spec.evalFuel env (fuel + 2) scope s j = (Spec.evalFuel env fuel scope t j).map fun r => r.map fun _ => {} := by
  rw [not_not env fuel scope s n j m nm t hn hk hm hkm, Laws.evalFuel_wrapper2 env fuel scope s m t j hs hmr]

/-! ### 7. adjacent keywords are a conjunction

`Laws.Group` lists the groups of keywords that the Spec evaluates independently (`properties` + `patternProperties` +
`additionalProperties` is ONE group, so are `prefixItems` + `items`, `contains` + `minContains` + `maxContains`,
`if` + `then` + `else`); `Laws.pick sel n` is the schema object with the selected groups of `n` only.  The side condition is
`unevaluatedItems` / `unevaluatedProperties` (they read what ALL the other keywords evaluated) and, under draft-07, `$ref`
(which silences its siblings). -/

/-- `allOf [t1, t2]` is the conjunction of `t1` and `t2`: defined iff both are, valid iff both are, evaluated sets united -/
theorem allOf_pair (t1 t2 : NodeId) (hn : env.st.get? s = some n) (hk : Laws.keywords n = { allOf := some [t1, t2] }) :
    Spec.evalFuel env (fuel + 1) scope s j
      = Laws.oconj2 (Spec.evalFuel env fuel (scope ++ [s]) t1 j) (Spec.evalFuel env fuel (scope ++ [s]) t2 j) := by
  rw [Laws.evalFuel_succ_of env fuel scope s j n _ hn hk, Laws.specBody_allOf, Laws.kwAllOf_pair _ _ _ t1 t2 rfl]

/-- one step of the Spec at a schema object without `unevaluated*`: the conjunction of the steps at its two parts,
    whatever the selection of keyword groups and whatever the subschema applications return (the three stores differ at
    `s` only: the object, its selected groups, the others) -/
theorem adjacent_keywords_step (rec : Spec.Rec) (sel : Laws.Group → Bool) (hn : env.st.get? s = some n)
    (hu : Laws.NoUneval n) (h7 : env.draft = .d2020 ∨ n.ref = "") :
    Inv.OutSim (Spec.evalStep env rec scope s j)
      (Laws.oconj2 (Spec.evalStep { env with st := env.st.setIfInBounds s (Laws.pick sel n) } rec scope s j)
        (Spec.evalStep { env with st := env.st.setIfInBounds s (Laws.pick (fun g => !sel g) n) } rec scope s j)) := by
  have hlt : s < env.st.size := (Array.getElem?_eq_some_iff.1 hn).1
  have hget : ∀ m : Node, Store.get? (env.st.setIfInBounds s m) s = some m := by
    intro m
    show (env.st.setIfInBounds s m)[s]? = some m
    rw [Array.getElem?_setIfInBounds_self, if_pos hlt]
  rw [Inv.evalStep_unfold, Inv.evalStep_unfold, Inv.evalStep_unfold, hn]
  show Inv.OutSim _ (Laws.oconj2
    (match Store.get? (env.st.setIfInBounds s (Laws.pick sel n)) s with
      | none => none
      | some m => Inv.specBody { env with st := _ } rec scope s j m)
    (match Store.get? (env.st.setIfInBounds s (Laws.pick (fun g => !sel g) n)) s with
      | none => none
      | some m => Inv.specBody { env with st := _ } rec scope s j m))
  rw [hget, hget]
  show Inv.OutSim _ (Laws.oconj2 (Inv.specBody { env with st := _ } rec scope s j _)
    (Inv.specBody { env with st := _ } rec scope s j _))
  rw [Inv.specBody_store, Inv.specBody_store]
  apply Laws.specBody_split env rec scope s j n sel hu
  rcases h7 with h | h
  · simp [h]
  · simp [h]

/-- in one store: `s` (no `unevaluated*`, `$ref`, `$dynamicRef`) against `s1` with the selected keyword groups of `s` and
    `s2` with the others, under scopes that designate alike (`Laws.ScopeEqv_same_resource`, `Laws.ScopeEqv_of_no_dynamic`):
    `s` is defined iff `s1` and `s2` are, and valid iff both are (`Laws.verdict2 (some r1) (some r2) = some (r1.isSome &&
    r2.isSome)`, undefined otherwise) -/
theorem adjacent_keywords_verdict (s1 s2 : NodeId) (n1 n2 : Node) (sel : Laws.Group → Bool)
    (hn : env.st.get? s = some n) (hn1 : env.st.get? s1 = some n1) (hn2 : env.st.get? s2 = some n2)
    (hk1 : Laws.keywords n1 = Laws.pick sel n) (hk2 : Laws.keywords n2 = Laws.pick (fun g => !sel g) n)
    (hu : Laws.NoUneval n) (hr : n.ref = "") (hd : n.dynamicRef = "")
    (hs1 : Laws.ScopeEqv env (scope ++ [s1]) (scope ++ [s])) (hs2 : Laws.ScopeEqv env (scope ++ [s2]) (scope ++ [s])) :
    (Spec.evalFuel env (fuel + 1) scope s j).map (·.isSome)
      = Laws.verdict2 (Spec.evalFuel env (fuel + 1) scope s1 j) (Spec.evalFuel env (fuel + 1) scope s2 j) := by
  rw [← Laws.oconj2_verdict]
  exact Laws.OutSim.verdict_eq
    (Laws.evalFuel_split env fuel scope s s1 s2 n n1 n2 j sel hn hn1 hn2 hk1 hk2 hu hr hd hs1 hs2)

/-- … and then the evaluated sets of `s` are the unions of those of `s1` and `s2` -/
theorem adjacent_keywords_evaluated (s1 s2 : NodeId) (n1 n2 : Node) (sel : Laws.Group → Bool)
    (hn : env.st.get? s = some n) (hn1 : env.st.get? s1 = some n1) (hn2 : env.st.get? s2 = some n2)
    (hk1 : Laws.keywords n1 = Laws.pick sel n) (hk2 : Laws.keywords n2 = Laws.pick (fun g => !sel g) n)
    (hu : Laws.NoUneval n) (hr : n.ref = "") (hd : n.dynamicRef = "")
    (hs1 : Laws.ScopeEqv env (scope ++ [s1]) (scope ++ [s])) (hs2 : Laws.ScopeEqv env (scope ++ [s2]) (scope ++ [s]))
    (e e1 e2 : Spec.Ev) (h : Spec.evalFuel env (fuel + 1) scope s j = some (some e))
    (h1 : Spec.evalFuel env (fuel + 1) scope s1 j = some (some e1))
    (h2 : Spec.evalFuel env (fuel + 1) scope s2 j = some (some e2)) :
    (∀ k, k ∈ e.props ↔ k ∈ e1.props ∨ k ∈ e2.props) ∧ (∀ i, i ∈ e.items ↔ i ∈ e1.items ∨ i ∈ e2.items) := by
  have := Laws.evalFuel_split env fuel scope s s1 s2 n n1 n2 j sel hn hn1 hn2 hk1 hk2 hu hr hd hs1 hs2
  rw [h, h1, h2] at this
  have h' : Inv.EvEqv e (e1.union e2) := this
  exact ⟨fun k => by rw [h'.1 k]; simp [Spec.Ev.union], fun i => by rw [h'.2 i]; simp [Spec.Ev.union]⟩

/-! ### 9. `$ref` -/

/-- draft 2020-12: a schema object whose only keyword is `$ref` has the outcome of the schema the reference designates —
    the same verdict, the same evaluated sets (draft-07: `C02.ref_is_target7`, where nothing evaluated comes back and the
    other keywords of the object are ignored) -/
theorem ref_is_target (r : String) (t : NodeId) (hd : env.draft = .d2020) (hn : env.st.get? s = some n)
    (hk : Laws.keywords n = { ref := r }) (hr : r ≠ "") (ht : env.refTarget s = some t) :
    Spec.evalFuel env (fuel + 1) scope s j = Spec.evalFuel env fuel (scope ++ [s]) t j := by
  have hb : (r != "") = true := by simpa using hr
  rw [Laws.evalFuel_succ_of env fuel scope s j n _ hn hk, Laws.specBody_ref env _ scope s j r hd]
  simp only [Spec.kwRef, Spec.inPlace, hb, if_true, ht]

/-- … under the same scope when the reference stays within one schema resource -/
theorem ref_is_target_same_resource (r : String) (t : NodeId) (hd : env.draft = .d2020) (hn : env.st.get? s = some n)
    (hk : Laws.keywords n = { ref := r }) (hr : r ≠ "") (ht : env.refTarget s = some t)
    (hres : env.resource s = env.resource t) :
    Spec.evalFuel env (fuel + 1) scope s j = Spec.evalFuel env fuel scope t j := by
  rw [ref_is_target env fuel scope s n j r t hd hn hk hr ht, Laws.evalFuel_wrapper env fuel scope s t j hres]

/-- draft 2020-12: `$ref` next to other keywords is one more conjunct (`adjacent_keywords_step` with the group `ref`
    selected); stated for the `$ref` half: it is the target -/
theorem ref_half_is_target (rec : Spec.Rec) (t : NodeId) (hd : env.draft = .d2020) (hr : n.ref ≠ "")
    (ht : env.refTarget s = some t) :
    Inv.specBody env rec scope s j (Laws.pick (fun g => g == .ref) n) = rec (scope ++ [s]) t j := by
  have hb : (n.ref != "") = true := by simpa using hr
  have e : Laws.pick (fun g => g == .ref) n = { ref := n.ref } := rfl
  rw [e, Laws.specBody_ref env rec scope s j n.ref hd]
  simp only [Spec.kwRef, Spec.inPlace, hb, if_true, ht]

end laws

/-! ### the same laws for the evaluator -/

section laws_go
variable (env : VEnv) (hwf : EnvWF env) (hst : StoreWF env.st) (fuel : Nat) (stack : List NodeId)
  (hstack : ∀ x, x ∈ stack → (env.info? x).isSome = true) (s : NodeId) (n : Node) (j : Json) (hj : Json.WF j = true)
include hwf hst hstack hj

/-- evaluator: `{}` returns nil on every instance, with annotations that mark nothing as evaluated -/
theorem true_accepts_go (hn : env.st.get? s = some n) (hk : Laws.keywords n = {}) :
    ∃ a, Go.validateFuel env (fuel + 1) stack (GoVal.ofJson j) s = .ok a ∧
      (∀ k, k ∈ keysOf j → γprop a k = false) ∧ (∀ i, i < lenOf j → γitem a i = false) := by
  obtain ⟨a, ha, hm⟩ := Laws.go_anns env hwf hst (fuel + 1) stack hstack s j hj {}
    (true_accepts (specEnvOf env) fuel stack s n j hn hk)
  exact ⟨a, ha, (Laws.AnnsMatch_empty_iff j a).1 hm⟩

/-- evaluator: `{"not": {}}` returns an error on every instance -/
theorem false_rejects_go (t : NodeId) (m : Node) (hn : env.st.get? s = some n) (hk : Laws.keywords n = { not := some t })
    (hm : env.st.get? t = some m) (hkm : Laws.keywords m = {}) :
    Go.validateFuel env (fuel + 2) stack (GoVal.ofJson j) s = .err := by
  have hrel := validate_refines_spec env hwf hst (fuel + 2) stack hstack s j hj
  rw [false_rejects (specEnvOf env) fuel stack s n j t m hn hk hm hkm] at hrel
  exact hrel

/-- evaluator: `allOf [t]` returns what `t` returns — the same verdict, annotations for the same sets -/
theorem allOf_singleton_go (t : NodeId) (hn : env.st.get? s = some n) (hk : Laws.keywords n = { allOf := some [t] })
    (hdef : (Spec.evalFuel (specEnvOf env) fuel (stack ++ [s]) t j).isSome = true) :
    (Go.validateFuel env (fuel + 1) stack (GoVal.ofJson j) s).verdict
      = (Go.validateFuel env fuel (stack ++ [s]) (GoVal.ofJson j) t).verdict ∧
    ∀ a1 a2, Go.validateFuel env (fuel + 1) stack (GoVal.ofJson j) s = .ok a1 →
      Go.validateFuel env fuel (stack ++ [s]) (GoVal.ofJson j) t = .ok a2 →
      (∀ k, k ∈ keysOf j → γprop a1 k = γprop a2 k) ∧ (∀ i, i < lenOf j → γitem a1 i = γitem a2 i) :=
  Laws.go_same env hwf hst _ _ _ _ hstack (Laws.stack_snoc env hwf stack hstack s n hn) s t j hj
    (allOf_singleton (specEnvOf env) fuel stack s n j t hn hk) hdef

/-- evaluator: `anyOf [t]` returns what `t` returns -/
theorem anyOf_singleton_go (t : NodeId) (hn : env.st.get? s = some n) (hk : Laws.keywords n = { anyOf := some [t] })
    (hdef : (Spec.evalFuel (specEnvOf env) fuel (stack ++ [s]) t j).isSome = true) :
    (Go.validateFuel env (fuel + 1) stack (GoVal.ofJson j) s).verdict
      = (Go.validateFuel env fuel (stack ++ [s]) (GoVal.ofJson j) t).verdict ∧
    ∀ a1 a2, Go.validateFuel env (fuel + 1) stack (GoVal.ofJson j) s = .ok a1 →
      Go.validateFuel env fuel (stack ++ [s]) (GoVal.ofJson j) t = .ok a2 →
      (∀ k, k ∈ keysOf j → γprop a1 k = γprop a2 k) ∧ (∀ i, i < lenOf j → γitem a1 i = γitem a2 i) :=
  Laws.go_same env hwf hst _ _ _ _ hstack (Laws.stack_snoc env hwf stack hstack s n hn) s t j hj
    (anyOf_singleton (specEnvOf env) fuel stack s n j t hn hk) hdef

/-- evaluator: `oneOf [t]` returns what `t` returns -/
theorem oneOf_singleton_go (t : NodeId) (hn : env.st.get? s = some n) (hk : Laws.keywords n = { oneOf := some [t] })
    (hdef : (Spec.evalFuel (specEnvOf env) fuel (stack ++ [s]) t j).isSome = true) :
    (Go.validateFuel env (fuel + 1) stack (GoVal.ofJson j) s).verdict
      = (Go.validateFuel env fuel (stack ++ [s]) (GoVal.ofJson j) t).verdict ∧
    ∀ a1 a2, Go.validateFuel env (fuel + 1) stack (GoVal.ofJson j) s = .ok a1 →
      Go.validateFuel env fuel (stack ++ [s]) (GoVal.ofJson j) t = .ok a2 →
      (∀ k, k ∈ keysOf j → γprop a1 k = γprop a2 k) ∧ (∀ i, i < lenOf j → γitem a1 i = γitem a2 i) :=
  Laws.go_same env hwf hst _ _ _ _ hstack (Laws.stack_snoc env hwf stack hstack s n hn) s t j hj
    (oneOf_singleton (specEnvOf env) fuel stack s n j t hn hk) hdef

/-- evaluator: `allOf []` returns nil on every instance -/
theorem allOf_empty_go (hn : env.st.get? s = some n) (hk : Laws.keywords n = { allOf := some [] }) :
    (Go.validateFuel env (fuel + 1) stack (GoVal.ofJson j) s).verdict = some true :=
  Laws.go_verdict env hwf hst _ stack hstack s j hj _ (allOf_empty (specEnvOf env) fuel stack s n j hn hk)

/-- evaluator: `anyOf []` returns an error on every instance -/
theorem anyOf_empty_go (hn : env.st.get? s = some n) (hk : Laws.keywords n = { anyOf := some [] }) :
    (Go.validateFuel env (fuel + 1) stack (GoVal.ofJson j) s).verdict = some false :=
  Laws.go_verdict env hwf hst _ stack hstack s j hj _ (anyOf_empty (specEnvOf env) fuel stack s n j hn hk)

/-- evaluator: `oneOf []` returns an error on every instance -/
theorem oneOf_empty_go (hn : env.st.get? s = some n) (hk : Laws.keywords n = { oneOf := some [] }) :
    (Go.validateFuel env (fuel + 1) stack (GoVal.ofJson j) s).verdict = some false :=
  Laws.go_verdict env hwf hst _ stack hstack s j hj _ (oneOf_empty (specEnvOf env) fuel stack s n j hn hk)

/-- evaluator: `not (not t)` returns nil exactly when `t` does -/
theorem not_not_go (m : NodeId) (nm : Node) (t : NodeId) (hn : env.st.get? s = some n)
    (hk : Laws.keywords n = { not := some m }) (hm : env.st.get? m = some nm) (hkm : Laws.keywords nm = { not := some t })
    (hdef : (Spec.evalFuel (specEnvOf env) fuel (stack ++ [s] ++ [m]) t j).isSome = true) :
    (Go.validateFuel env (fuel + 2) stack (GoVal.ofJson j) s).verdict
      = (Go.validateFuel env fuel (stack ++ [s] ++ [m]) (GoVal.ofJson j) t).verdict := by
  have hs2 := Laws.stack_snoc env hwf _ (Laws.stack_snoc env hwf stack hstack s n hn) m nm hm
  have hl := not_not (specEnvOf env) fuel stack s n j m nm t hn hk hm hkm
  cases hr : Spec.evalFuel (specEnvOf env) fuel (stack ++ [s] ++ [m]) t j with
  | none => rw [hr] at hdef; cases hdef
  | some r =>
    rw [hr] at hl
    rw [Laws.go_verdict env hwf hst _ _ hs2 t j hj r hr, Laws.go_verdict env hwf hst _ _ hstack s j hj _ hl]
    cases r <;> rfl

/-- evaluator: reordering / repeating / deduplicating the branches of an `anyOf` anywhere in a schema does not change
    what `Validate` returns for any schema of the store -/
theorem anyOf_set_invariant_go (ss ss' : List NodeId) (hn : env.st.get? s = some n) (h : n.anyOf = some ss)
    (hset : ∀ t, t ∈ ss ↔ t ∈ ss') (root : NodeId)
    (hdef : (Spec.evalFuel (specEnvOf env) fuel stack root j).isSome = true) :
    (Go.validateFuel { env with st := env.st.setIfInBounds s { n with anyOf := some ss' } } fuel stack (GoVal.ofJson j)
      root).verdict = (Go.validateFuel env fuel stack (GoVal.ofJson j) root).verdict :=
  Laws.go_set_verdict env hwf hst s n _ hn (Laws.NodeEqv_anyOf _ s n ss ss' h hset) rfl fuel stack hstack root j hj hdef

/-- evaluator: the same for `allOf` -/
theorem allOf_set_invariant_go (ss ss' : List NodeId) (hn : env.st.get? s = some n) (h : n.allOf = some ss)
    (hset : ∀ t, t ∈ ss ↔ t ∈ ss') (root : NodeId)
    (hdef : (Spec.evalFuel (specEnvOf env) fuel stack root j).isSome = true) :
    (Go.validateFuel { env with st := env.st.setIfInBounds s { n with allOf := some ss' } } fuel stack (GoVal.ofJson j)
      root).verdict = (Go.validateFuel env fuel stack (GoVal.ofJson j) root).verdict :=
  Laws.go_set_verdict env hwf hst s n _ hn (Laws.NodeEqv_allOf _ s n ss ss' h hset) rfl fuel stack hstack root j hj hdef

/-- evaluator: reordering the branches of a `oneOf` -/
theorem oneOf_perm_invariant_go (ss ss' : List NodeId) (hn : env.st.get? s = some n) (h : n.oneOf = some ss)
    (hp : ss.Perm ss') (root : NodeId) (hdef : (Spec.evalFuel (specEnvOf env) fuel stack root j).isSome = true) :
    (Go.validateFuel { env with st := env.st.setIfInBounds s { n with oneOf := some ss' } } fuel stack (GoVal.ofJson j)
      root).verdict = (Go.validateFuel env fuel stack (GoVal.ofJson j) root).verdict :=
  Laws.go_set_verdict env hwf hst s n _ hn (Laws.NodeEqv_oneOf _ s n ss ss' h hp) rfl fuel stack hstack root j hj hdef

/-- evaluator: `oneOf [t, t]` returns an error whenever `t` is decided -/
theorem oneOf_double_rejects_go (t : NodeId) (hn : env.st.get? s = some n)
    (hk : Laws.keywords n = { oneOf := some [t, t] })
    (hdef : (Spec.evalFuel (specEnvOf env) fuel (stack ++ [s]) t j).isSome = true) :
    Go.validateFuel env (fuel + 1) stack (GoVal.ofJson j) s = .err := by
  have hrel := validate_refines_spec env hwf hst (fuel + 1) stack hstack s j hj
  rw [oneOf_double_rejects (specEnvOf env) fuel stack s n j t hn hk] at hrel
  cases hr : Spec.evalFuel (specEnvOf env) fuel (stack ++ [s]) t j with
  | none => rw [hr] at hdef; cases hdef
  | some r => rw [hr] at hrel; exact hrel

/-- evaluator: `if c then t else e` returns nil exactly when `(c ∧ t) ∨ (¬c ∧ e)` -/
theorem if_then_else_verdict_go (c t e : NodeId) (hn : env.st.get? s = some n)
    (hk : Laws.keywords n = { if_ := some c, then_ := some t, else_ := some e })
    (hc : (Spec.evalFuel (specEnvOf env) fuel (stack ++ [s]) c j).isSome = true)
    (ht : (Spec.evalFuel (specEnvOf env) fuel (stack ++ [s]) t j).isSome = true)
    (he : (Spec.evalFuel (specEnvOf env) fuel (stack ++ [s]) e j).isSome = true) :
    ∃ vc vt ve, (Go.validateFuel env fuel (stack ++ [s]) (GoVal.ofJson j) c).verdict = some vc ∧
      (Go.validateFuel env fuel (stack ++ [s]) (GoVal.ofJson j) t).verdict = some vt ∧
      (Go.validateFuel env fuel (stack ++ [s]) (GoVal.ofJson j) e).verdict = some ve ∧
      (Go.validateFuel env (fuel + 1) stack (GoVal.ofJson j) s).verdict = some ((vc && vt) || (!vc && ve)) := by
  have hs' := Laws.stack_snoc env hwf stack hstack s n hn
  obtain ⟨rc, hrc⟩ := Option.isSome_iff_exists.1 hc
  obtain ⟨rt, hrt⟩ := Option.isSome_iff_exists.1 ht
  obtain ⟨re, hre⟩ := Option.isSome_iff_exists.1 he
  refine ⟨rc.isSome, rt.isSome, re.isSome, Laws.go_verdict env hwf hst _ _ hs' c j hj rc hrc,
    Laws.go_verdict env hwf hst _ _ hs' t j hj rt hrt, Laws.go_verdict env hwf hst _ _ hs' e j hj re hre, ?_⟩
  have hv := if_then_else_verdict (specEnvOf env) fuel stack s n j c t e rc rt re hn hk hrc hrt hre
  cases hr : Spec.evalFuel (specEnvOf env) (fuel + 1) stack s j with
  | none => rw [hr] at hv; cases hv
  | some r =>
    rw [hr] at hv
    simp only [Option.map_some, Option.some.injEq] at hv
    rw [Laws.go_verdict env hwf hst _ _ hstack s j hj r hr, hv]

/-- evaluator: `if` alone never returns an error -/
theorem if_alone_go (c : NodeId) (hn : env.st.get? s = some n) (hk : Laws.keywords n = { if_ := some c })
    (hdef : (Spec.evalFuel (specEnvOf env) fuel (stack ++ [s]) c j).isSome = true) :
    (Go.validateFuel env (fuel + 1) stack (GoVal.ofJson j) s).verdict = some true := by
  obtain ⟨rc, hrc⟩ := Option.isSome_iff_exists.1 hdef
  have hl := if_alone (specEnvOf env) fuel stack s n j c hn hk
  rw [hrc] at hl
  exact Laws.go_verdict env hwf hst _ _ hstack s j hj _ hl

/-- evaluator: `{"const": v}` and `{"enum": [v]}` return the same verdict on every instance (no hypothesis on the Spec:
    a schema object with assertion keywords only is decided with one unit of fuel) -/
theorem const_enum_singleton_go (v : Json) (s' : NodeId) (n' : Node) (stack' : List NodeId)
    (hstack' : ∀ x, x ∈ stack' → (env.info? x).isSome = true) (hn : env.st.get? s = some n)
    (hk : Laws.keywords n = { const := some v }) (hn' : env.st.get? s' = some n')
    (hk' : Laws.keywords n' = { enum := some [v] }) :
    (Go.validateFuel env (fuel + 1) stack (GoVal.ofJson j) s).verdict
      = (Go.validateFuel env (fuel + 1) stack' (GoVal.ofJson j) s').verdict := by
  refine (Laws.go_same env hwf hst _ _ _ _ hstack hstack' s s' j hj
    (const_enum_singleton (specEnvOf env) fuel stack s n j v s' n' stack' hn hk hn' hk') ?_).1
  rw [Laws.evalFuel_succ_of (specEnvOf env) fuel stack' s' j n' _ hn' hk',
    Laws.specBody_assertion_node _ _ _ _ _ _ (by constructor <;> rfl) (by constructor <;> rfl)]
  rfl

/-- evaluator: rewriting `const v` into `enum [v]` next to any other keywords, anywhere in a schema -/
theorem const_enum_singleton_in_context_go (v : Json) (hn : env.st.get? s = some n) (hc : n.const = some v)
    (he : n.enum = none) (root : NodeId) (hdef : (Spec.evalFuel (specEnvOf env) fuel stack root j).isSome = true) :
    (Go.validateFuel { env with st := env.st.setIfInBounds s { n with const := none, enum := some [v] } } fuel stack
      (GoVal.ofJson j) root).verdict = (Go.validateFuel env fuel stack (GoVal.ofJson j) root).verdict :=
  Laws.go_set_verdict env hwf hst s n _ hn (Laws.NodeEqv_const_enum _ s n v hc he) rfl fuel stack hstack root j hj hdef

/-- evaluator: reordering / repeating / deduplicating the values of an `enum` -/
theorem enum_set_invariant_go (es es' : List Json) (hn : env.st.get? s = some n) (he : n.enum = some es)
    (hset : ∀ v, v ∈ es ↔ v ∈ es') (root : NodeId)
    (hdef : (Spec.evalFuel (specEnvOf env) fuel stack root j).isSome = true) :
    (Go.validateFuel { env with st := env.st.setIfInBounds s { n with enum := some es' } } fuel stack
      (GoVal.ofJson j) root).verdict = (Go.validateFuel env fuel stack (GoVal.ofJson j) root).verdict :=
  Laws.go_set_verdict env hwf hst s n _ hn (Laws.NodeEqv_enum_set _ s n es es' he hset) rfl fuel stack hstack root j hj hdef

/-- evaluator: `Types: [t]` against `Type: t` -/
theorem type_singleton_go (t : String) (ht : t ≠ "") (hn : env.st.get? s = some n) (h1 : n.type = "")
    (h2 : n.types = some [t]) (root : NodeId) (hdef : (Spec.evalFuel (specEnvOf env) fuel stack root j).isSome = true) :
    (Go.validateFuel { env with st := env.st.setIfInBounds s { n with type := t, types := none } } fuel stack
      (GoVal.ofJson j) root).verdict = (Go.validateFuel env fuel stack (GoVal.ofJson j) root).verdict :=
  Laws.go_set_verdict env hwf hst s n _ hn (Laws.NodeEqv_type_singleton _ s n t ht h1 h2) rfl fuel stack hstack root j hj
    hdef

/-- evaluator: what `{"type": "integer"}` accepts, `{"type": "number"}` accepts -/
theorem type_integer_number_go (s' : NodeId) (n' : Node) (stack' : List NodeId)
    (hstack' : ∀ x, x ∈ stack' → (env.info? x).isSome = true) (hn : env.st.get? s = some n)
    (hk : Laws.keywords n = { type := "integer" }) (hn' : env.st.get? s' = some n')
    (hk' : Laws.keywords n' = { type := "number" })
    (h : (Go.validateFuel env (fuel + 1) stack (GoVal.ofJson j) s).verdict = some true) :
    (Go.validateFuel env (fuel + 1) stack' (GoVal.ofJson j) s').verdict = some true := by
  have hs : Spec.evalFuel (specEnvOf env) (fuel + 1) stack s j = some (some {}) := by
    have e := Laws.evalFuel_succ_of (specEnvOf env) fuel stack s j n _ hn hk
    rw [Laws.specBody_assertion_node _ _ _ _ _ _ (by constructor <;> rfl) (by constructor <;> rfl)] at e
    split at e
    · exact e
    · rw [Laws.go_verdict env hwf hst _ _ hstack s j hj none e] at h; cases h
  exact Laws.go_verdict env hwf hst _ _ hstack' s' j hj _
    (type_integer_number (specEnvOf env) fuel stack s n j s' n' stack' hn hk hn' hk' hs)

/-- evaluator: `allOf [t1, t2]` returns nil exactly when `t1` and `t2` do -/
theorem allOf_pair_go (t1 t2 : NodeId) (hn : env.st.get? s = some n) (hk : Laws.keywords n = { allOf := some [t1, t2] })
    (h1 : (Spec.evalFuel (specEnvOf env) fuel (stack ++ [s]) t1 j).isSome = true)
    (h2 : (Spec.evalFuel (specEnvOf env) fuel (stack ++ [s]) t2 j).isSome = true) :
    ∃ b1 b2, (Go.validateFuel env fuel (stack ++ [s]) (GoVal.ofJson j) t1).verdict = some b1 ∧
      (Go.validateFuel env fuel (stack ++ [s]) (GoVal.ofJson j) t2).verdict = some b2 ∧
      (Go.validateFuel env (fuel + 1) stack (GoVal.ofJson j) s).verdict = some (b1 && b2) := by
  have hs' := Laws.stack_snoc env hwf stack hstack s n hn
  obtain ⟨r1, hr1⟩ := Option.isSome_iff_exists.1 h1
  obtain ⟨r2, hr2⟩ := Option.isSome_iff_exists.1 h2
  have hl := allOf_pair (specEnvOf env) fuel stack s n j t1 t2 hn hk
  rw [hr1, hr2] at hl
  refine ⟨r1.isSome, r2.isSome, Laws.go_verdict env hwf hst _ _ hs' t1 j hj r1 hr1,
    Laws.go_verdict env hwf hst _ _ hs' t2 j hj r2 hr2, ?_⟩
  rw [Laws.go_verdict env hwf hst _ _ hstack s j hj _ hl]
  cases r1 <;> cases r2 <;> rfl

/-- evaluator: a schema object (no `unevaluated*`, `$ref`, `$dynamicRef`) returns nil exactly when the object with a
    selection of its keyword groups and the object with the remaining ones both do -/
theorem adjacent_keywords_go (s1 s2 : NodeId) (n1 n2 : Node) (sel : Laws.Group → Bool)
    (hn : env.st.get? s = some n) (hn1 : env.st.get? s1 = some n1) (hn2 : env.st.get? s2 = some n2)
    (hk1 : Laws.keywords n1 = Laws.pick sel n) (hk2 : Laws.keywords n2 = Laws.pick (fun g => !sel g) n)
    (hu : Laws.NoUneval n) (hr : n.ref = "") (hd : n.dynamicRef = "")
    (hs1 : Laws.ScopeEqv (specEnvOf env) (stack ++ [s1]) (stack ++ [s]))
    (hs2 : Laws.ScopeEqv (specEnvOf env) (stack ++ [s2]) (stack ++ [s]))
    (h1 : (Spec.evalFuel (specEnvOf env) (fuel + 1) stack s1 j).isSome = true)
    (h2 : (Spec.evalFuel (specEnvOf env) (fuel + 1) stack s2 j).isSome = true) :
    ∃ b1 b2, (Go.validateFuel env (fuel + 1) stack (GoVal.ofJson j) s1).verdict = some b1 ∧
      (Go.validateFuel env (fuel + 1) stack (GoVal.ofJson j) s2).verdict = some b2 ∧
      (Go.validateFuel env (fuel + 1) stack (GoVal.ofJson j) s).verdict = some (b1 && b2) := by
  obtain ⟨r1, hr1⟩ := Option.isSome_iff_exists.1 h1
  obtain ⟨r2, hr2⟩ := Option.isSome_iff_exists.1 h2
  have hv := adjacent_keywords_verdict (specEnvOf env) fuel stack s n j s1 s2 n1 n2 sel hn hn1 hn2 hk1 hk2 hu hr hd hs1 hs2
  rw [hr1, hr2, Laws.verdict2_some] at hv
  refine ⟨r1.isSome, r2.isSome, Laws.go_verdict env hwf hst _ _ hstack s1 j hj r1 hr1,
    Laws.go_verdict env hwf hst _ _ hstack s2 j hj r2 hr2, ?_⟩
  cases hr : Spec.evalFuel (specEnvOf env) (fuel + 1) stack s j with
  | none => rw [hr] at hv; cases hv
  | some r =>
    rw [hr] at hv
    simp only [Option.map_some, Option.some.injEq] at hv
    rw [Laws.go_verdict env hwf hst _ _ hstack s j hj r hr, hv]

/-- evaluator (draft 2020-12): `{"$ref": …}` returns what the designated schema returns — the same verdict, annotations for
    the same sets -/
theorem ref_is_target_go (r : String) (t : NodeId) (hd : env.draft = .d2020) (hn : env.st.get? s = some n)
    (hk : Laws.keywords n = { ref := r }) (hr : r ≠ "") (i : Info) (hi : env.info? s = some i)
    (ht : i.resolvedRef = some t)
    (hdef : (Spec.evalFuel (specEnvOf env) fuel (stack ++ [s]) t j).isSome = true) :
    (Go.validateFuel env (fuel + 1) stack (GoVal.ofJson j) s).verdict
      = (Go.validateFuel env fuel (stack ++ [s]) (GoVal.ofJson j) t).verdict ∧
    ∀ a1 a2, Go.validateFuel env (fuel + 1) stack (GoVal.ofJson j) s = .ok a1 →
      Go.validateFuel env fuel (stack ++ [s]) (GoVal.ofJson j) t = .ok a2 →
      (∀ k, k ∈ keysOf j → γprop a1 k = γprop a2 k) ∧ (∀ i, i < lenOf j → γitem a1 i = γitem a2 i) :=
  Laws.go_same env hwf hst _ _ _ _ hstack (Laws.stack_snoc env hwf stack hstack s n hn) s t j hj
    (ref_is_target (specEnvOf env) fuel stack s n j r t hd hn hk hr (by
      show (env.info? s).bind (·.resolvedRef) = some t
      rw [hi]; exact ht)) hdef

/-- the definedness hypothesis of the evaluator corollaries discharged for guarded schemas (`spec_defined`): with fuel
    `(depth j + 1) * (maxRank env + 1)` for the subschema, `allOf [t]` returns the verdict of `t` — no mention of the Spec -/
theorem allOf_singleton_go_guarded (hr : ranked env = true) (hc : closed env = true) (t : NodeId)
    (hn : env.st.get? s = some n) (hk : Laws.keywords n = { allOf := some [t] }) (ht : t < env.st.size)
    (hf : (Json.depth j + 1) * (maxRank env + 1) ≤ fuel) :
    (Go.validateFuel env (fuel + 1) stack (GoVal.ofJson j) s).verdict
      = (Go.validateFuel env fuel (stack ++ [s]) (GoVal.ofJson j) t).verdict :=
  (allOf_singleton_go env hwf hst fuel stack hstack s n j hj t hn hk
    (spec_defined env hr hc fuel (stack ++ [s]) t j ht hf)).1

end laws_go

/-! ### the laws instantiated

One store with the schema objects the laws speak of; node 2 is `{"title": "s", "properties": {"a": {"type": "string"}}}`,
which accepts `{"a": "x"}` evaluating `a`, and rejects `{"a": 1}`. -/

def lawStore : Store := #[
  /- 0 -/ {},
  /- 1 -/ { not := some 0 },
  /- 2 -/ { title := "s", properties := some [("a", 3)] },
  /- 3 -/ { type := "string" },
  /- 4 -/ { allOf := some [2], defs := some [("x", 3)] },
  /- 5 -/ { anyOf := some [2], description := "one branch" },
  /- 6 -/ { oneOf := some [2] },
  /- 7 -/ { allOf := some [] },
  /- 8 -/ { anyOf := some [] },
  /- 9 -/ { oneOf := some [] },
  /- 10 -/ { not := some 11 },
  /- 11 -/ { not := some 2 },
  /- 12 -/ { oneOf := some [2, 2] },
  /- 13 -/ { anyOf := some [2, 3], minProperties := some 1 },
  /- 14 -/ { if_ := some 3, then_ := some 15, else_ := some 2 },
  /- 15 -/ { maxLength := some 1 },
  /- 16 -/ { if_ := some 2 },
  /- 17 -/ { const := some (.num 1) },
  /- 18 -/ { enum := some [.num 1] },
  /- 19 -/ { type := "integer" },
  /- 20 -/ { type := "number" },
  /- 21 -/ { types := some ["string"], enum := some [.str "x", .str "y", .str "x"], title := "t" },
  /- 22 -/ { allOf := some [13], unevaluatedProperties := some 1 },
  /- 23 -/ { const := some (.str "x"), maxLength := some 3 },
  /- 24 -/ { allOf := some [23, 21] },
  /- 25 -/ { type := "object", properties := some [("a", 3)], required := some ["a"], anyOf := some [2, 3] },
  /- 26 -/ { properties := some [("a", 3)], anyOf := some [2, 3] },
  /- 27 -/ { type := "object", required := some ["a"], comment := "the rest of 25" },
  /- 28 -/ { allOf := some [26, 27] },
  /- 29 -/ { properties := some [("a", 0)], additionalProperties := some 1 },
  /- 30 -/ { properties := some [("a", 0)] },
  /- 31 -/ { additionalProperties := some 1 },
  /- 32 -/ { prefixItems := some [3], items := some 1 },
  /- 33 -/ { prefixItems := some [3] },
  /- 34 -/ { items := some 1 },
  /- 35 -/ { properties := some [("a", 0)], unevaluatedProperties := some 1 },
  /- 36 -/ { unevaluatedProperties := some 1 },
  /- 37 -/ { ref := "#/$defs/s", defs := some [("s", 2)] },
  /- 38 -/ { oneOf := some [3, 2] } ]

def lawEnv : VEnv :=
  { st := lawStore, draft := .d2020,
    infos := (List.range lawStore.size).map fun i =>
      (i, { base := some 0, resolvedRef := if i = 37 then some 2 else none }),
    reMatch := fun _ _ => false, hash := fun _ => 0 }

theorem lawEnv_wf : EnvWF lawEnv := EnvWF_of_checks lawEnv (by decide) (by decide) (fun _ _ _ => rfl)
theorem lawEnv_store : StoreWF lawEnv.st := StoreWF_of_check _ (by decide)

def lawGood : Json := .obj [("a", .str "x")]
def lawBad : Json := .obj [("a", .num 1)]

/-- 1: `{}` (node 0) and `{"not": {}}` (node 1) -/
example : Spec.evalFuel (specEnvOf lawEnv) 1 [] 0 lawBad = some (some {}) := true_accepts _ 0 [] 0 _ lawBad rfl rfl
example : Spec.evalFuel (specEnvOf lawEnv) 2 [] 1 lawGood = some none := false_rejects _ 0 [] 1 _ lawGood 0 _ rfl rfl rfl rfl
example : Go.validateFuel lawEnv 2 [] (GoVal.ofJson lawGood) 1 = .err :=
  false_rejects_go lawEnv lawEnv_wf lawEnv_store 0 [] (fun _ h => nomatch h) 1 _ lawGood (by decide) 0 _ rfl rfl rfl rfl
example : (Go.validateFuel lawEnv 1 [] (GoVal.ofJson lawBad) 0).verdict = some true := by decide

/-- 2: `allOf [s]` (node 4, which also carries `$defs`), `anyOf [s]` (node 5), `oneOf [s]` (node 6) against `s` (node 2) -/
example : Spec.evalFuel (specEnvOf lawEnv) 3 [] 4 lawGood = Spec.evalFuel (specEnvOf lawEnv) 2 [4] 2 lawGood :=
  allOf_singleton _ 2 [] 4 _ lawGood 2 rfl rfl
example : Spec.evalFuel (specEnvOf lawEnv) 3 [] 4 lawGood = some (some { props := ["a"] }) := by rfl
example : Spec.evalFuel (specEnvOf lawEnv) 3 [] 5 lawBad = Spec.evalFuel (specEnvOf lawEnv) 2 [5] 2 lawBad :=
  anyOf_singleton _ 2 [] 5 _ lawBad 2 rfl rfl
example : Spec.evalFuel (specEnvOf lawEnv) 3 [] 5 lawBad = some none := by rfl
example : Spec.evalFuel (specEnvOf lawEnv) 3 [] 6 lawGood = Spec.evalFuel (specEnvOf lawEnv) 2 [6] 2 lawGood :=
  oneOf_singleton _ 2 [] 6 _ lawGood 2 rfl rfl
example : (Go.validateFuel lawEnv 3 [] (GoVal.ofJson lawGood) 4).verdict
    = (Go.validateFuel lawEnv 2 [4] (GoVal.ofJson lawGood) 2).verdict :=
  (allOf_singleton_go lawEnv lawEnv_wf lawEnv_store 2 [] (fun _ h => nomatch h) 4 _ lawGood (by decide) 2 rfl rfl
    (by decide)).1
example : (Go.validateFuel lawEnv 3 [] (GoVal.ofJson lawGood) 4).verdict = some true := by decide
example : (Go.validateFuel lawEnv 3 [] (GoVal.ofJson lawBad) 5).verdict
    = (Go.validateFuel lawEnv 2 [5] (GoVal.ofJson lawBad) 2).verdict :=
  (anyOf_singleton_go lawEnv lawEnv_wf lawEnv_store 2 [] (fun _ h => nomatch h) 5 _ lawBad (by decide) 2 rfl rfl
    (by decide)).1
example : (Go.validateFuel lawEnv 3 [] (GoVal.ofJson lawBad) 6).verdict
    = (Go.validateFuel lawEnv 2 [6] (GoVal.ofJson lawBad) 2).verdict :=
  (oneOf_singleton_go lawEnv lawEnv_wf lawEnv_store 2 [] (fun _ h => nomatch h) 6 _ lawBad (by decide) 2 rfl rfl
    (by decide)).1
example : Spec.evalFuel (specEnvOf lawEnv) 1 [] 7 lawBad = some (some {}) := allOf_empty _ 0 [] 7 _ lawBad rfl rfl
example : Spec.evalFuel (specEnvOf lawEnv) 1 [] 8 lawGood = some none := anyOf_empty _ 0 [] 8 _ lawGood rfl rfl
example : Spec.evalFuel (specEnvOf lawEnv) 1 [] 9 lawGood = some none := oneOf_empty _ 0 [] 9 _ lawGood rfl rfl
example : (Go.validateFuel lawEnv 1 [] (GoVal.ofJson lawGood) 8).verdict = some false :=
  anyOf_empty_go lawEnv lawEnv_wf lawEnv_store 0 [] (fun _ h => nomatch h) 8 _ lawGood (by decide) rfl rfl

/-- 3: `not (not s)` (node 10 → 11 → 2): valid with NOTHING evaluated where `s` is valid evaluating `a` -/
example : Spec.evalFuel (specEnvOf lawEnv) 4 [] 10 lawGood
    = (Spec.evalFuel (specEnvOf lawEnv) 2 [10, 11] 2 lawGood).map fun r => r.map fun _ => {} :=
  not_not _ 2 [] 10 _ lawGood 11 _ 2 rfl rfl rfl rfl
example : Spec.evalFuel (specEnvOf lawEnv) 4 [] 10 lawGood = some (some {}) := by rfl
example : Spec.evalFuel (specEnvOf lawEnv) 2 [10, 11] 2 lawGood = some (some { props := ["a"] }) := by rfl
example : (Go.validateFuel lawEnv 4 [] (GoVal.ofJson lawBad) 10).verdict
    = (Go.validateFuel lawEnv 2 [10, 11] (GoVal.ofJson lawBad) 2).verdict :=
  not_not_go lawEnv lawEnv_wf lawEnv_store 2 [] (fun _ h => nomatch h) 10 _ lawBad (by decide) 11 _ 2 rfl rfl rfl rfl
    (by decide)
example : (Go.validateFuel lawEnv 4 [] (GoVal.ofJson lawBad) 10).verdict = some false := by decide

/-- 4: node 22 is `{"allOf": [13], "unevaluatedProperties": false}` with 13 = `{"anyOf": [s, {"type": "string"}], "minProperties": 1}`;
    rewriting the `anyOf` of node 13 into `[3, 2, 3]` changes nothing for the root 22 -/
example : (Spec.evalFuel { specEnvOf lawEnv with st := (lawStore.setIfInBounds 13
      { anyOf := some [3, 2, 3], minProperties := some 1 }) } 5 [] 22 lawGood).map (·.isSome)
    = (Spec.evalFuel (specEnvOf lawEnv) 5 [] 22 lawGood).map (·.isSome) :=
  anyOf_set_invariant (specEnvOf lawEnv) 5 [] 13 _ lawGood lawEnv_store [2, 3] [3, 2, 3] rfl rfl
    (by intro t; simp only [List.mem_cons, List.mem_nil_iff, or_false]; grind) 22 (by decide)
example : (Spec.evalFuel (specEnvOf lawEnv) 5 [] 22 lawGood).map (·.isSome) = some true := by decide
example : (Spec.evalFuel (specEnvOf lawEnv) 5 [] 22 (.obj [("a", .str "x"), ("b", .null)])).map (·.isSome) = some false := by
  decide
example : (Go.validateFuel { lawEnv with st := lawStore.setIfInBounds 13 { anyOf := some [3, 2, 3], minProperties := some 1 } }
      5 [] (GoVal.ofJson lawGood) 22).verdict = (Go.validateFuel lawEnv 5 [] (GoVal.ofJson lawGood) 22).verdict :=
  anyOf_set_invariant_go lawEnv lawEnv_wf lawEnv_store 5 [] (fun _ h => nomatch h) 13 _ lawGood (by decide) [2, 3] [3, 2, 3]
    rfl rfl (by intro t; simp only [List.mem_cons, List.mem_nil_iff, or_false]; grind) 22 (by decide)
/-- `oneOf [s, s]` (node 12) rejects what `s` accepts, while `oneOf [s]` (node 6) accepts it: `oneOf` is NOT invariant
    under repetition -/
example : Spec.evalFuel (specEnvOf lawEnv) 3 [] 12 lawGood = (Spec.evalFuel (specEnvOf lawEnv) 2 [12] 2 lawGood).map fun _ => none :=
  oneOf_double_rejects _ 2 [] 12 _ lawGood 2 rfl rfl
example : Spec.evalFuel (specEnvOf lawEnv) 3 [] 12 lawGood = some none := by rfl
example : (Spec.evalFuel (specEnvOf lawEnv) 3 [] 6 lawGood).map (·.isSome) = some true := by decide
example : Go.validateFuel lawEnv 3 [] (GoVal.ofJson lawGood) 12 = .err :=
  oneOf_double_rejects_go lawEnv lawEnv_wf lawEnv_store 2 [] (fun _ h => nomatch h) 12 _ lawGood (by decide) 2 rfl rfl
    (by decide)

/-- 5: node 14 is `{"if": {"type": "string"}, "then": {"maxLength": 1}, "else": s}` -/
example : (Spec.evalFuel (specEnvOf lawEnv) 3 [] 14 (.str "xy")).map (·.isSome) = some ((true && false) || (!true && true)) :=
  if_then_else_verdict _ 2 [] 14 _ (.str "xy") 3 15 2 (some {}) none (some {}) rfl rfl (by rfl) (by rfl) (by rfl)
example : Spec.evalFuel (specEnvOf lawEnv) 3 [] 14 lawGood = Spec.evalFuel (specEnvOf lawEnv) 2 [14] 2 lawGood :=
  if_false_else _ 2 [] 14 _ lawGood 3 2 _ rfl rfl (by rfl)
example : Spec.evalFuel (specEnvOf lawEnv) 3 [] 14 (.str "x")
    = (Spec.evalFuel (specEnvOf lawEnv) 2 [14] 15 (.str "x")).map fun rt => rt.map fun evt => Spec.Ev.union {} evt :=
  if_true_then _ 2 [] 14 _ (.str "x") 3 15 _ {} rfl rfl (by rfl)
/-- node 16 is `{"if": s}`: accepts the instance `s` rejects, and keeps what `s` evaluated on the one it accepts -/
example : Spec.evalFuel (specEnvOf lawEnv) 3 [] 16 lawBad
    = (Spec.evalFuel (specEnvOf lawEnv) 2 [16] 2 lawBad).map fun rc => some (rc.getD {}) :=
  if_alone _ 2 [] 16 _ lawBad 2 rfl rfl
example : Spec.evalFuel (specEnvOf lawEnv) 3 [] 16 lawBad = some (some {}) := by rfl
example : Spec.evalFuel (specEnvOf lawEnv) 3 [] 16 lawGood = some (some { props := ["a"] }) := by rfl
example : (Go.validateFuel lawEnv 3 [] (GoVal.ofJson lawBad) 16).verdict = some true :=
  if_alone_go lawEnv lawEnv_wf lawEnv_store 2 [] (fun _ h => nomatch h) 16 _ lawBad (by decide) 2 rfl rfl (by decide)

/-- 6: `{"const": 1}` (17) against `{"enum": [1]}` (18), on `1.0` and on `"1"` -/
example : Spec.evalFuel (specEnvOf lawEnv) 1 [] 17 (.num 1) = Spec.evalFuel (specEnvOf lawEnv) 1 [5] 18 (.num 1) :=
  const_enum_singleton _ 0 [] 17 _ (.num 1) (.num 1) 18 _ [5] rfl rfl rfl rfl
example : (Go.validateFuel lawEnv 1 [] (GoVal.ofJson (.str "1")) 17).verdict
    = (Go.validateFuel lawEnv 1 [] (GoVal.ofJson (.str "1")) 18).verdict :=
  const_enum_singleton_go lawEnv lawEnv_wf lawEnv_store 0 [] (fun _ h => nomatch h) 17 _ (.str "1") (by decide) (.num 1) 18 _ []
    (fun _ h => nomatch h) rfl rfl rfl rfl
/-- in context: node 23 is `{"const": "x", "maxLength": 3}` under the root 24 = `{"allOf": [23, 21]}` -/
example : Spec.evalFuel { specEnvOf lawEnv with st := lawStore.setIfInBounds 23 { enum := some [.str "x"], maxLength := some 3 } }
      4 [] 24 (.str "x") = Spec.evalFuel (specEnvOf lawEnv) 4 [] 24 (.str "x") :=
  const_enum_singleton_in_context (specEnvOf lawEnv) 4 [] 23 _ (.str "x") (.str "x") rfl rfl rfl 24
example : (Spec.evalFuel (specEnvOf lawEnv) 4 [] 24 (.str "x")).map (·.isSome) = some true := by decide
/-- node 21 is `{"type": ["string"], "enum": ["x", "y", "x"]}`: the `enum` deduplicated and reordered, the `type` unwrapped -/
example : Spec.evalFuel { specEnvOf lawEnv with st := (lawStore.setIfInBounds 21
      { types := some ["string"], enum := some [.str "y", .str "x"], title := "t" }) } 4 [] 24 (.str "y")
    = Spec.evalFuel (specEnvOf lawEnv) 4 [] 24 (.str "y") :=
  enum_set_invariant (specEnvOf lawEnv) 4 [] 21 _ (.str "y") [.str "x", .str "y", .str "x"] [.str "y", .str "x"] rfl rfl
    (by intro v; simp only [List.mem_cons, List.mem_nil_iff, or_false]; grind) 24
example : Spec.evalFuel { specEnvOf lawEnv with st := (lawStore.setIfInBounds 21
      { type := "string", enum := some [.str "x", .str "y", .str "x"], title := "t" }) } 4 [] 24 (.str "y")
    = Spec.evalFuel (specEnvOf lawEnv) 4 [] 24 (.str "y") :=
  type_singleton (specEnvOf lawEnv) 4 [] 21 _ (.str "y") "string" (by decide) rfl rfl rfl 24
/-- `2` is an integer (19), hence a number (20); `2.5` is a number only -/
example : Spec.evalFuel (specEnvOf lawEnv) 1 [] 20 (.num 2) = some (some {}) :=
  type_integer_number _ 0 [] 19 _ (.num 2) 20 _ [] rfl rfl rfl rfl (by rfl)
example : (Spec.evalFuel (specEnvOf lawEnv) 1 [] 19 (.num (5 / 2))).map (·.isSome) = some false
    ∧ (Spec.evalFuel (specEnvOf lawEnv) 1 [] 20 (.num (5 / 2))).map (·.isSome) = some true := by decide +kernel
example : (Go.validateFuel lawEnv 1 [] (GoVal.ofJson (.num 2)) 20).verdict = some true :=
  type_integer_number_go lawEnv lawEnv_wf lawEnv_store 0 [] (fun _ h => nomatch h) 19 _ (.num 2) (by decide) 20 _ []
    (fun _ h => nomatch h) rfl rfl rfl rfl (by decide)

/-- 7: node 25 = `{"type": "object", "properties": {"a": …}, "required": ["a"], "anyOf": […]}` against node 26 (its
    `properties` and `anyOf`) and node 27 (its `type` and `required`), all of one schema resource -/
def lawSel : Laws.Group → Bool := fun g => g == .props || g == .anyOf

theorem lawScope (a b : NodeId) (ha : a < lawStore.size) (hb : b < lawStore.size) :
    Laws.ScopeEqv (specEnvOf lawEnv) ([] ++ [a]) ([] ++ [b]) := by
  have hres : ∀ x, x < lawStore.size → (specEnvOf lawEnv).resource x = some 0 := by decide
  exact Laws.ScopeEqv_same_resource (specEnvOf lawEnv) (some 0) [] [a] [b] (by simp) (by simp)
    (by intro x hx; simp at hx; subst hx; exact hres x ha) (by intro x hx; simp at hx; subst hx; exact hres x hb)

example : (Spec.evalFuel (specEnvOf lawEnv) 3 [] 25 lawGood).map (·.isSome)
    = Laws.verdict2 (Spec.evalFuel (specEnvOf lawEnv) 3 [] 26 lawGood) (Spec.evalFuel (specEnvOf lawEnv) 3 [] 27 lawGood) :=
  adjacent_keywords_verdict (specEnvOf lawEnv) 2 [] 25 _ lawGood 26 27 _ _ lawSel rfl rfl rfl rfl rfl ⟨rfl, rfl⟩ rfl rfl
    (lawScope 26 25 (by decide) (by decide)) (lawScope 27 25 (by decide) (by decide))
example : (Spec.evalFuel (specEnvOf lawEnv) 3 [] 25 lawGood).map (·.isSome) = some true := by decide
/-- `{"a": 1}`: the `properties` half rejects, the `type`/`required` half accepts, the whole rejects -/
example : ∃ b1 b2, (Go.validateFuel lawEnv 3 [] (GoVal.ofJson lawBad) 26).verdict = some b1 ∧
    (Go.validateFuel lawEnv 3 [] (GoVal.ofJson lawBad) 27).verdict = some b2 ∧
    (Go.validateFuel lawEnv 3 [] (GoVal.ofJson lawBad) 25).verdict = some (b1 && b2) :=
  adjacent_keywords_go lawEnv lawEnv_wf lawEnv_store 2 [] (fun _ h => nomatch h) 25 _ lawBad (by decide) 26 27 _ _ lawSel
    rfl rfl rfl rfl rfl ⟨rfl, rfl⟩ rfl rfl (lawScope 26 25 (by decide) (by decide)) (lawScope 27 25 (by decide) (by decide))
    (by decide) (by decide)
example : (Go.validateFuel lawEnv 3 [] (GoVal.ofJson lawBad) 26).verdict = some false
    ∧ (Go.validateFuel lawEnv 3 [] (GoVal.ofJson lawBad) 27).verdict = some true
    ∧ (Go.validateFuel lawEnv 3 [] (GoVal.ofJson lawBad) 25).verdict = some false := by decide
/-- equivalently `allOf [26, 27]` (node 28) -/
example : Spec.evalFuel (specEnvOf lawEnv) 4 [] 28 lawGood
    = Laws.oconj2 (Spec.evalFuel (specEnvOf lawEnv) 3 [28] 26 lawGood) (Spec.evalFuel (specEnvOf lawEnv) 3 [28] 27 lawGood) :=
  allOf_pair _ 3 [] 28 _ lawGood 26 27 rfl rfl
/-- one step, any recursive calls: the store with node 25 reduced to the selected groups / to the others -/
example (rec : Spec.Rec) : Inv.OutSim (Spec.evalStep (specEnvOf lawEnv) rec [] 25 lawGood)
    (Laws.oconj2
      (Spec.evalStep { specEnvOf lawEnv with st := lawStore.setIfInBounds 25 (Laws.pick lawSel (lawStore.getD 25 {})) }
        rec [] 25 lawGood)
      (Spec.evalStep { specEnvOf lawEnv with
          st := lawStore.setIfInBounds 25 (Laws.pick (fun g => !lawSel g) (lawStore.getD 25 {})) } rec [] 25 lawGood)) :=
  adjacent_keywords_step (specEnvOf lawEnv) [] 25 _ lawGood rec lawSel rfl ⟨rfl, rfl⟩ (Or.inl rfl)

/-- **Where the law does NOT hold** — keywords of one group split apart.  `additionalProperties` reads the adjacent
    `properties`: `{"properties": {"a": {}}, "additionalProperties": false}` (29) accepts `{"a": "x"}`, while
    `{"additionalProperties": false}` alone (31) rejects it — the whole is not the conjunction of 30 and 31 -/
example : (Spec.evalFuel (specEnvOf lawEnv) 4 [] 29 lawGood).map (·.isSome) = some true
    ∧ (Spec.evalFuel (specEnvOf lawEnv) 4 [] 30 lawGood).map (·.isSome) = some true
    ∧ (Spec.evalFuel (specEnvOf lawEnv) 4 [] 31 lawGood).map (·.isSome) = some false := by decide
example : (Go.validateFuel lawEnv 4 [] (GoVal.ofJson lawGood) 29).verdict = some true
    ∧ (Go.validateFuel lawEnv 4 [] (GoVal.ofJson lawGood) 31).verdict = some false := by decide
/-- `items` reads the adjacent `prefixItems`: `{"prefixItems": [{"type": "string"}], "items": false}` (32) accepts `["x"]`,
    `{"items": false}` alone (34) rejects it -/
example : (Spec.evalFuel (specEnvOf lawEnv) 4 [] 32 (.arr [.str "x"])).map (·.isSome) = some true
    ∧ (Spec.evalFuel (specEnvOf lawEnv) 4 [] 33 (.arr [.str "x"])).map (·.isSome) = some true
    ∧ (Spec.evalFuel (specEnvOf lawEnv) 4 [] 34 (.arr [.str "x"])).map (·.isSome) = some false := by decide
/-- `unevaluatedProperties` reads everything: `{"properties": {"a": {}}, "unevaluatedProperties": false}` (35) accepts
    `{"a": "x"}`, `{"unevaluatedProperties": false}` alone (36) rejects it -/
example : (Spec.evalFuel (specEnvOf lawEnv) 4 [] 35 lawGood).map (·.isSome) = some true
    ∧ (Spec.evalFuel (specEnvOf lawEnv) 4 [] 36 lawGood).map (·.isSome) = some false := by decide
/-- the scope laws: the wrapper 4 = `allOf [2]` is of the schema resource of node 2 -/
example : Spec.evalFuel (specEnvOf lawEnv) 3 [] 4 lawGood = Spec.evalFuel (specEnvOf lawEnv) 2 [] 2 lawGood :=
  allOf_singleton_same_resource _ 2 [] 4 _ lawGood 2 rfl rfl rfl
example : Spec.evalFuel (specEnvOf lawEnv) 4 [] 10 lawGood
    = (Spec.evalFuel (specEnvOf lawEnv) 2 [] 2 lawGood).map fun r => r.map fun _ => {} :=
  not_not_same_resource _ 2 [] 10 _ lawGood 11 _ 2 rfl rfl rfl rfl rfl rfl

/-- 9: node 37 is `{"$ref": "#/$defs/s", "$defs": {"s": …}}`, resolved to node 2 -/
example : Spec.evalFuel (specEnvOf lawEnv) 3 [] 37 lawGood = Spec.evalFuel (specEnvOf lawEnv) 2 [37] 2 lawGood :=
  ref_is_target _ 2 [] 37 _ lawGood "#/$defs/s" 2 rfl rfl rfl (by decide) rfl
example : Spec.evalFuel (specEnvOf lawEnv) 3 [] 37 lawGood = Spec.evalFuel (specEnvOf lawEnv) 2 [] 2 lawGood :=
  ref_is_target_same_resource _ 2 [] 37 _ lawGood "#/$defs/s" 2 rfl rfl rfl (by decide) rfl rfl
example : Spec.evalFuel (specEnvOf lawEnv) 3 [] 37 lawGood = some (some { props := ["a"] }) := by rfl
example : (Go.validateFuel lawEnv 3 [] (GoVal.ofJson lawBad) 37).verdict
    = (Go.validateFuel lawEnv 2 [37] (GoVal.ofJson lawBad) 2).verdict :=
  (ref_is_target_go lawEnv lawEnv_wf lawEnv_store 2 [] (fun _ h => nomatch h) 37 _ lawBad (by decide) "#/$defs/s" 2 rfl rfl
    rfl (by decide) _ rfl rfl (by decide)).1
example : (Go.validateFuel lawEnv 3 [] (GoVal.ofJson lawBad) 37).verdict = some false := by decide

/-- `allOf_singleton_go_guarded`: `lawEnv` is ranked and closed; fuel `(1 + 1) * (maxRank + 1)` for node 2 -/
example : ranked lawEnv = true ∧ closed lawEnv = true := by decide
example : (Go.validateFuel lawEnv ((1 + 1) * (maxRank lawEnv + 1) + 1) [] (GoVal.ofJson lawGood) 4).verdict
    = (Go.validateFuel lawEnv ((1 + 1) * (maxRank lawEnv + 1)) [4] (GoVal.ofJson lawGood) 2).verdict :=
  allOf_singleton_go_guarded lawEnv lawEnv_wf lawEnv_store _ [] (fun _ h => nomatch h) 4 _ lawGood (by decide) (by decide)
    (by decide) 2 rfl rfl (by decide) (by decide)

/-! ### the remaining laws instantiated -/

example : (Spec.evalFuel (specEnvOf lawEnv) 4 [] 10 lawBad).map (·.isSome)
    = (Spec.evalFuel (specEnvOf lawEnv) 2 [10, 11] 2 lawBad).map (·.isSome) :=
  not_not_verdict _ 2 [] 10 _ lawBad 11 _ 2 rfl rfl rfl rfl
example : ∃ a, Go.validateFuel lawEnv 1 [] (GoVal.ofJson lawBad) 0 = .ok a ∧
    (∀ k, k ∈ keysOf lawBad → γprop a k = false) ∧ (∀ i, i < lenOf lawBad → γitem a i = false) :=
  true_accepts_go lawEnv lawEnv_wf lawEnv_store 0 [] (fun _ h => nomatch h) 0 _ lawBad (by decide) rfl rfl
example : (Go.validateFuel lawEnv 1 [] (GoVal.ofJson lawBad) 7).verdict = some true :=
  allOf_empty_go lawEnv lawEnv_wf lawEnv_store 0 [] (fun _ h => nomatch h) 7 _ lawBad (by decide) rfl rfl
example : (Go.validateFuel lawEnv 1 [] (GoVal.ofJson lawGood) 9).verdict = some false :=
  oneOf_empty_go lawEnv lawEnv_wf lawEnv_store 0 [] (fun _ h => nomatch h) 9 _ lawGood (by decide) rfl rfl

/-- 4: the evaluated sets under the rewritten `anyOf` of node 13 are the same sets; `allOf [13]` of node 22 doubled;
    `oneOf [2, 2]` of node 12 is its own permutation -/
example (e e' : Spec.Ev) (h1 : Spec.evalFuel (specEnvOf lawEnv) 5 [] 22 lawGood = some (some e))
    (h2 : Spec.evalFuel { specEnvOf lawEnv with st := (lawStore.setIfInBounds 13
      { anyOf := some [3, 2, 3], minProperties := some 1 }) } 5 [] 22 lawGood = some (some e')) :
    (∀ k, k ∈ e.props ↔ k ∈ e'.props) ∧ (∀ i, i ∈ e.items ↔ i ∈ e'.items) :=
  anyOf_set_invariant_evaluated (specEnvOf lawEnv) 5 [] 13 _ lawGood lawEnv_store [2, 3] [3, 2, 3] rfl rfl
    (by intro t; simp only [List.mem_cons, List.mem_nil_iff, or_false]; grind) 22 (by decide) e e' h1 h2
example : (Spec.evalFuel { specEnvOf lawEnv with st := (lawStore.setIfInBounds 22
      { allOf := some [13, 13], unevaluatedProperties := some 1 }) } 5 [] 22 lawGood).map (·.isSome)
    = (Spec.evalFuel (specEnvOf lawEnv) 5 [] 22 lawGood).map (·.isSome) :=
  allOf_set_invariant (specEnvOf lawEnv) 5 [] 22 _ lawGood lawEnv_store [13] [13, 13] rfl rfl
    (by intro t; simp only [List.mem_cons, List.mem_nil_iff, or_false]; grind) 22 (by decide)
example : (Go.validateFuel { lawEnv with st := (lawStore.setIfInBounds 22
      { allOf := some [13, 13], unevaluatedProperties := some 1 }) } 5 [] (GoVal.ofJson lawGood) 22).verdict
    = (Go.validateFuel lawEnv 5 [] (GoVal.ofJson lawGood) 22).verdict :=
  allOf_set_invariant_go lawEnv lawEnv_wf lawEnv_store 5 [] (fun _ h => nomatch h) 22 _ lawGood (by decide) [13] [13, 13]
    rfl rfl (by intro t; simp only [List.mem_cons, List.mem_nil_iff, or_false]; grind) 22 (by decide)
/-- node 38 is `{"oneOf": [{"type": "string"}, s]}`, reversed -/
example : (Spec.evalFuel { specEnvOf lawEnv with st := (lawStore.setIfInBounds 38 { oneOf := some [2, 3] }) } 4 [] 38
      lawGood).map (·.isSome) = (Spec.evalFuel (specEnvOf lawEnv) 4 [] 38 lawGood).map (·.isSome) :=
  oneOf_perm_invariant (specEnvOf lawEnv) 4 [] 38 _ lawGood lawEnv_store [3, 2] [2, 3] rfl rfl
    (List.Perm.swap 2 3 []) 38 (by decide)
example : (Go.validateFuel { lawEnv with st := lawStore.setIfInBounds 38 { oneOf := some [2, 3] } } 4 []
      (GoVal.ofJson lawGood) 38).verdict = (Go.validateFuel lawEnv 4 [] (GoVal.ofJson lawGood) 38).verdict :=
  oneOf_perm_invariant_go lawEnv lawEnv_wf lawEnv_store 4 [] (fun _ h => nomatch h) 38 _ lawGood (by decide) [3, 2] [2, 3]
    rfl rfl (List.Perm.swap 2 3 []) 38 (by decide)

/-- 5 -/
example : Spec.evalFuel (specEnvOf lawEnv) 3 [] 16 lawBad ≠ some none :=
  if_alone_never_rejects _ 2 [] 16 _ lawBad 2 rfl rfl
example : ∃ vc vt ve, (Go.validateFuel lawEnv 2 [14] (GoVal.ofJson (.str "xy")) 3).verdict = some vc ∧
    (Go.validateFuel lawEnv 2 [14] (GoVal.ofJson (.str "xy")) 15).verdict = some vt ∧
    (Go.validateFuel lawEnv 2 [14] (GoVal.ofJson (.str "xy")) 2).verdict = some ve ∧
    (Go.validateFuel lawEnv 3 [] (GoVal.ofJson (.str "xy")) 14).verdict = some ((vc && vt) || (!vc && ve)) :=
  if_then_else_verdict_go lawEnv lawEnv_wf lawEnv_store 2 [] (fun _ h => nomatch h) 14 _ (.str "xy") (by decide) 3 15 2
    rfl rfl (by decide) (by decide) (by decide)

/-- 6 -/
example : (Go.validateFuel { lawEnv with st := lawStore.setIfInBounds 23 { enum := some [.str "x"], maxLength := some 3 } }
      4 [] (GoVal.ofJson (.str "x")) 24).verdict = (Go.validateFuel lawEnv 4 [] (GoVal.ofJson (.str "x")) 24).verdict :=
  const_enum_singleton_in_context_go lawEnv lawEnv_wf lawEnv_store 4 [] (fun _ h => nomatch h) 23 _ (.str "x") (by decide)
    (.str "x") rfl rfl rfl 24 (by decide)
example : (Go.validateFuel { lawEnv with st := (lawStore.setIfInBounds 21
      { types := some ["string"], enum := some [.str "y", .str "x"], title := "t" }) } 4 [] (GoVal.ofJson (.str "y")) 24).verdict
    = (Go.validateFuel lawEnv 4 [] (GoVal.ofJson (.str "y")) 24).verdict :=
  enum_set_invariant_go lawEnv lawEnv_wf lawEnv_store 4 [] (fun _ h => nomatch h) 21 _ (.str "y") (by decide)
    [.str "x", .str "y", .str "x"] [.str "y", .str "x"] rfl rfl
    (by intro v; simp only [List.mem_cons, List.mem_nil_iff, or_false]; grind) 24 (by decide)
example : (Go.validateFuel { lawEnv with st := (lawStore.setIfInBounds 21
      { type := "string", enum := some [.str "x", .str "y", .str "x"], title := "t" }) } 4 [] (GoVal.ofJson (.str "y")) 24).verdict
    = (Go.validateFuel lawEnv 4 [] (GoVal.ofJson (.str "y")) 24).verdict :=
  type_singleton_go lawEnv lawEnv_wf lawEnv_store 4 [] (fun _ h => nomatch h) 21 _ (.str "y") (by decide) "string"
    (by decide) rfl rfl rfl 24 (by decide)

/-- 7 -/
example (e e1 e2 : Spec.Ev) (h : Spec.evalFuel (specEnvOf lawEnv) 3 [] 25 lawGood = some (some e))
    (h1 : Spec.evalFuel (specEnvOf lawEnv) 3 [] 26 lawGood = some (some e1))
    (h2 : Spec.evalFuel (specEnvOf lawEnv) 3 [] 27 lawGood = some (some e2)) :
    (∀ k, k ∈ e.props ↔ k ∈ e1.props ∨ k ∈ e2.props) ∧ (∀ i, i ∈ e.items ↔ i ∈ e1.items ∨ i ∈ e2.items) :=
  adjacent_keywords_evaluated (specEnvOf lawEnv) 2 [] 25 _ lawGood 26 27 _ _ lawSel rfl rfl rfl rfl rfl ⟨rfl, rfl⟩ rfl rfl
    (lawScope 26 25 (by decide) (by decide)) (lawScope 27 25 (by decide) (by decide)) e e1 e2 h h1 h2
example : ∃ b1 b2, (Go.validateFuel lawEnv 3 [28] (GoVal.ofJson lawBad) 26).verdict = some b1 ∧
    (Go.validateFuel lawEnv 3 [28] (GoVal.ofJson lawBad) 27).verdict = some b2 ∧
    (Go.validateFuel lawEnv 4 [] (GoVal.ofJson lawBad) 28).verdict = some (b1 && b2) :=
  allOf_pair_go lawEnv lawEnv_wf lawEnv_store 3 [] (fun _ h => nomatch h) 28 _ lawBad (by decide) 26 27 rfl rfl (by decide)
    (by decide)

/-- the scope: `lawEnv` declares no dynamic anchor -/
theorem lawEnv_no_dynamic : ∀ r name, (specEnvOf lawEnv).dynDecl r name = none := by
  intro r name
  show (lawEnv.info? r).bind _ = none
  cases h : lawEnv.info? r with
  | none => rfl
  | some i =>
    have hm : (r, i) ∈ lawEnv.infos := lookupNat_mem h
    have ha : i.anchors = [] := by
      simp only [lawEnv, List.mem_map] at hm
      obtain ⟨x, _, hx⟩ := hm
      cases hx; rfl
    simp [ha]

example : Spec.evalFuel (specEnvOf lawEnv) 3 [7, 1] 2 lawGood = Spec.evalFuel (specEnvOf lawEnv) 3 [] 2 lawGood :=
  scope_irrelevant (specEnvOf lawEnv) 3 [7, 1] 2 lawGood lawEnv_no_dynamic []
example : Spec.evalFuel (specEnvOf lawEnv) 3 ([7] ++ [4]) 2 lawGood = Spec.evalFuel (specEnvOf lawEnv) 3 [7] 2 lawGood :=
  scope_wrapper (specEnvOf lawEnv) 3 [7] 2 lawGood 4 rfl

/-- 9: the `$ref` half of node 37 (`Laws.pick` of the group `ref`) is the target, whatever the recursive calls -/
example (rec : Spec.Rec) :
    Inv.specBody (specEnvOf lawEnv) rec [] 37 lawGood (Laws.pick (fun g => g == .ref) (lawStore.getD 37 {})) = rec [37] 2 lawGood :=
  ref_half_is_target (specEnvOf lawEnv) [] 37 _ lawGood rec 2 rfl (by decide) rfl

end JSV.C01
