/-
  C01 — Validate decides exactly the validity relation of the Spec (draft 2020-12 and draft-07 are
  both covered: the draft is a field of the environment).  Property theorems only; the proofs are in
  JSV/Proofs/Refine*.lean.
-/
import JSV.Proofs.Refine
import JSV.Proofs.RefineMono
import JSV.Proofs.RefineSpecMono
import JSV.Proofs.RefineCheck
namespace JSV.C01
open JSV Go GoVal Refine

/-- with no fuel the evaluator makes no statement -/
theorem validateFuel_zero (env : VEnv) (stack : List NodeId) (i : GoVal) (s : NodeId) :
    validateFuel env 0 stack i s = .fuel := rfl

/-! ## fuel -/

/-- more fuel never changes a defined answer of the evaluator -/
theorem validate_mono (env : VEnv) (n : Nat) (stack : List NodeId) (i : GoVal) (s : NodeId) :
    validateFuel env n stack i s ⊑ validateFuel env (n + 1) stack i s :=
  Refine.validateFuel_mono env n stack i s

/-- an answer other than "out of fuel" is the answer for every larger fuel -/
theorem validate_stable (env : VEnv) (stack : List NodeId) (i : GoVal) (s : NodeId) (n : Nat) (r : Res Anns)
    (hr : validateFuel env n stack i s = r) (hne : r ≠ .fuel) :
    ∀ m, n ≤ m → validateFuel env m stack i s = r := by
  intro m hm
  induction m with
  | zero => have : n = 0 := by omega
            subst this; exact hr
  | succ m ih =>
    by_cases h : n = m + 1
    · subst h; exact hr
    · have hm' : n ≤ m := by omega
      have := ih hm'
      rcases validate_mono env m stack i s with hf | he
      · rw [this] at hf; exact absurd hf hne
      · rw [← he, this]

/-- the same for the Spec: defined answers are stable under more fuel -/
theorem spec_mono (env : Spec.Env) (n : Nat) (stack : List NodeId) (s : NodeId) (j : Json) (r : Spec.R)
    (h : Spec.evalFuel env n stack s j = some r) : Spec.evalFuel env (n + 1) stack s j = some r :=
  Refine.evalFuel_mono env n stack s j r h

theorem spec_stable (env : Spec.Env) (stack : List NodeId) (s : NodeId) (j : Json) (n : Nat) (r : Spec.R)
    (h : Spec.evalFuel env n stack s j = some r) : ∀ m, n ≤ m → Spec.evalFuel env m stack s j = some r := by
  intro m hm
  induction m with
  | zero => have : n = 0 := by omega
            subst this; exact h
  | succ m ih =>
    by_cases hn : n = m + 1
    · subst hn; exact h
    · exact spec_mono env m stack s j r (ih (by omega))

/-- the validity verdict of the Spec is stable under more fuel -/
theorem valid_stable (env : Spec.Env) (root : NodeId) (j : Json) (n : Nat) (b : Bool)
    (h : Spec.valid env n root j = some b) : ∀ m, n ≤ m → Spec.valid env m root j = some b := by
  intro m hm
  unfold Spec.valid at h ⊢
  cases he : Spec.evalFuel env n [] root j with
  | none => rw [he] at h; simp at h
  | some r => rw [he] at h; rw [spec_stable env [] root j n r he m hm]; exact h

/-! ## the refinement -/

/-- **Refinement** (both drafts).  Whenever the Spec decides with some fuel, the evaluator, run with the same fuel
    on the Go value `encoding/json` produces for the instance, returns an error iff the Spec says invalid, and
    otherwise returns annotations that denote exactly the Spec's evaluated properties and items.
    `hstack`: the schemas on the caller's stack have resolution records (true of every stack `Validate` builds;
    needed because `$dynamicRef` dereferences the records of the stack entries). -/
theorem validate_refines_spec (env : VEnv) (hwf : EnvWF env) (hst : StoreWF env.st) :
    ∀ (fuel : Nat) (stack : List NodeId), (∀ x, x ∈ stack → (env.info? x).isSome = true) →
      ∀ (s : NodeId) (j : Json), Json.WF j = true →
      Rel j (Spec.evalFuel (specEnvOf env) fuel stack s j)
            (Go.validateFuel env fuel stack (GoVal.ofJson j) s) :=
  Refine.validate_refines_spec env hwf hst

/-- at the entry point: the empty stack -/
theorem validate_refines_spec_root (env : VEnv) (hwf : EnvWF env) (hst : StoreWF env.st)
    (fuel : Nat) (s : NodeId) (j : Json) (hj : Json.WF j = true) :
    Rel j (Spec.evalFuel (specEnvOf env) fuel [] s j) (Go.validateFuel env fuel [] (GoVal.ofJson j) s) :=
  Refine.validate_refines_spec_root env hwf hst fuel s j hj

/-- the instance may arrive wrapped in interfaces / pointers: only the stripped value matters -/
theorem validate_refines_spec_wrapped (env : VEnv) (hwf : EnvWF env) (hst : StoreWF env.st)
    (fuel : Nat) (s : NodeId) (j : Json) (hj : Json.WF j = true) (g : GoVal) (hg : GoVal.strip g = GoVal.ofJson j) :
    Rel j (Spec.evalFuel (specEnvOf env) fuel [] s j) (Go.validateFuel env fuel [] g s) :=
  Refine.validateFuel_refines env hwf hst fuel [] (fun _ h => nomatch h) s j g hj hg

/-- **C01.**  Whenever the Spec decides, `Validate` returns nil exactly when the instance is valid. -/
theorem C01_main (env : VEnv) (hwf : EnvWF env) (hst : StoreWF env.st) (fuel : Nat) (root : NodeId) (j : Json)
    (hj : Json.WF j = true) (b : Bool)
    (hs : Spec.valid (specEnvOf env) fuel root j = some b)
    (supported : List String) (rn : Node) (hroot : env.st.get? root = some rn)
    (hsup : supported.contains rn.schema = true) :
    Go.validate env supported fuel root (GoVal.ofJson j) = if b then .ok () else .err := by
  unfold Go.validate
  rw [hroot]
  simp only [hsup, Bool.not_true, Bool.false_eq_true, if_false]
  have hrel := validate_refines_spec_root env hwf hst fuel root j hj
  unfold Spec.valid at hs
  cases he : Spec.evalFuel (specEnvOf env) fuel [] root j with
  | none => rw [he] at hs; simp at hs
  | some r =>
    rw [he] at hs hrel
    simp only [Option.map_some, Option.some.injEq] at hs
    cases r with
    | none => simp only [Rel] at hrel; rw [hrel]; subst hs; rfl
    | some ev => obtain ⟨a, ha, _⟩ := hrel; rw [ha]; subst hs; rfl

/-- … and for every larger fuel -/
theorem C01_main_stable (env : VEnv) (hwf : EnvWF env) (hst : StoreWF env.st) (fuel : Nat) (root : NodeId) (j : Json)
    (hj : Json.WF j = true) (b : Bool)
    (hs : Spec.valid (specEnvOf env) fuel root j = some b)
    (supported : List String) (rn : Node) (hroot : env.st.get? root = some rn)
    (hsup : supported.contains rn.schema = true) (m : Nat) (hm : fuel ≤ m) :
    Go.validate env supported m root (GoVal.ofJson j) = if b then .ok () else .err :=
  C01_main env hwf hst m root j hj b (valid_stable _ root j fuel b hs m hm) supported rn hroot hsup

/-- an unsupported `$schema` is refused before any evaluation -/
theorem unsupported_schema (env : VEnv) (supported : List String) (fuel : Nat) (root : NodeId) (inst : GoVal)
    (rn : Node) (hroot : env.st.get? root = some rn) (hsup : supported.contains rn.schema = false) :
    Go.validate env supported fuel root inst = .err := by
  unfold Go.validate; rw [hroot]; simp only [hsup, Bool.not_false, if_true]

/-! ## The hypotheses are satisfiable on a non-trivial environment

`{"allOf":[{"properties":{"a":{}}}],"unevaluatedProperties":false}` as a five-node store
(`false` is unmarshalled to `{"not":{}}`). -/

def exStore : Store := #[
  { allOf := some [1], unevaluatedProperties := some 3 },
  { properties := some [("a", 2)] },
  {},
  { not := some 4 },
  {} ]

def exInfos : List (NodeId × Info) :=
  [(0, { path := "root", base := some 0 }), (1, { path := "/allOf/0", base := some 0 }),
   (2, { path := "/allOf/0/properties/a", base := some 0 }), (3, { path := "/unevaluatedProperties", base := some 0 }),
   (4, { path := "/unevaluatedProperties/not", base := some 0 })]

def exEnv : VEnv :=
  { st := exStore, draft := .d2020, infos := exInfos, reMatch := fun _ _ => false, hash := fun _ => 0 }

theorem exEnv_wf : EnvWF exEnv := EnvWF_of_checks exEnv (by decide) (by decide) (fun _ _ _ => rfl)
theorem exEnv_store : StoreWF exEnv.st := StoreWF_of_check _ (by decide)

def exGood : Json := .obj [("a", .str "x")]
def exBad : Json := .obj [("a", .str "x"), ("b", .null)]

example : Json.WF exGood = true := by decide
example : Json.WF exBad = true := by decide
example : Spec.valid (specEnvOf exEnv) 3 0 exGood = some true := by decide
example : Spec.valid (specEnvOf exEnv) 3 0 exBad = some false := by decide
/-- with too little fuel the Spec makes no statement (and the theorem none either) -/
example : Spec.valid (specEnvOf exEnv) 2 0 exGood = none := by decide

/-- `C01_main` applied: the valid instance -/
example : Go.validate exEnv [""] 3 0 (GoVal.ofJson exGood) = .ok () :=
  C01_main exEnv exEnv_wf exEnv_store 3 0 exGood (by decide) true (by decide) [""] _ rfl (by decide)
/-- `C01_main` applied: `b` is not evaluated by the allOf branch, so `unevaluatedProperties: false` rejects -/
example : Go.validate exEnv [""] 3 0 (GoVal.ofJson exBad) = .err :=
  C01_main exEnv exEnv_wf exEnv_store 3 0 exBad (by decide) false (by decide) [""] _ rfl (by decide)
/-- the same by running the model -/
example : Go.validate exEnv [""] 3 0 (GoVal.ofJson exGood) = .ok () := by decide
example : Go.validate exEnv [""] 3 0 (GoVal.ofJson exBad) = .err := by decide
/-- `C01_main_stable`, `validate_stable` applied -/
example : Go.validate exEnv [""] 10 0 (GoVal.ofJson exBad) = .err :=
  C01_main_stable exEnv exEnv_wf exEnv_store 3 0 exBad (by decide) false (by decide) [""] _ rfl (by decide) 10
    (by decide)
example : Spec.valid (specEnvOf exEnv) 7 0 exGood = some true :=
  valid_stable _ 0 exGood 3 true (by decide) 7 (by decide)

/-! ## why the stack hypothesis of `validate_refines_spec` is needed

A caller's stack naming a schema without resolution record makes `$dynamicRef` panic (nil dereference
in the stack walk), while the Spec's scope walk skips such an entry.  `Validate` never builds such a stack. -/

def cexEnv : VEnv :=
  { st := #[{ dynamicRef := "#a" }, {}], draft := .d2020,
    infos := [(0, { base := some 0, resolvedDynamicRef := some 1, dynamicRefAnchor := "a" }), (1, { base := some 0 })],
    reMatch := fun _ _ => false, hash := fun _ => 0 }

example : EnvWF cexEnv := EnvWF_of_checks cexEnv (by decide) (by decide) (fun _ _ _ => rfl)
example : StoreWF cexEnv.st := StoreWF_of_check _ (by decide)
example : (Spec.evalFuel (specEnvOf cexEnv) 2 [7] 0 .null).map Option.isSome = some true := by decide
example : (Go.validateFuel cexEnv 2 [7] (GoVal.ofJson .null) 0).verdict = none := by decide
example : (Go.validateFuel cexEnv 2 [7] (GoVal.ofJson .null) 0).isOk = false := by decide
/-- with a well-formed stack the two agree, as the theorem says -/
example : (Go.validateFuel cexEnv 2 [0] (GoVal.ofJson .null) 0).isOk = true := by decide

end JSV.C01
