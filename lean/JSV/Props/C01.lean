/-
  C01 — Validate decides exactly the 2020-12 validity relation.  Property theorems only.
-/
import JSV.Model.Validate
namespace JSV.C01
open JSV Go

/-- with no fuel the evaluator makes no statement -/
theorem validateFuel_zero (env : VEnv) (stack : List NodeId) (i : GoVal) (s : NodeId) :
    validateFuel env 0 stack i s = .fuel := rfl

end JSV.C01
