/-
  C09 — JSON accepted by an inferred schema decodes.  Property theorems only
  (helper lemmas: JSV/Proofs/Inf*.lean; the model of encoding/json on the fragment — `decodable`, the
  decoder with DisallowUnknownFields — is JSV/Spec/EncJson.lean).

  Vocabulary: as in C04; `EncJson.decodable T j`: json.Decoder with DisallowUnknownFields accepts `j` for `T`
  (null everywhere, integers integral and within the kind's range, arrays of any length, objects with known
  keys only — exact or case-insensitive match); `EncJson.PlainInts j`: every integer-valued number of `j`
  lies within int64 (the schema states no bound for int / int64 and no maximum for uint / uint64 / uintptr).

  With embedded struct fields (last section; helper lemmas: JSV/Proofs/InfEmbTight.lean): `Go.forTypeE` is the model
  of `ForType` (JSV/Model/InferEmb.lean), `EncJsonEmb.decodableE` the decoder with DisallowUnknownFields over
  encoding/json's `typeFields` (JSV/Spec/EncJsonEmb.lean).
-/
import JSV.Proofs.InfTight
import JSV.Proofs.InfNamed
import JSV.Proofs.InfEmbTight
import JSV.Proofs.InfEmbNamed
import JSV.Props.C04
import JSV.Props.C16
namespace JSV.C09
open JSV Go EncJson Spec

/-! ## the kind table against the value ranges of the Go kinds -/

/-- for every sized integer kind the schema's minimum / maximum are exactly the ends of the value range -/
theorem int_bounds_tight :
    ∀ k, k ∈ sizedKinds → ∃ lo hi, kindEntry k = some ("integer", some lo, some hi) ∧
      minValue k = some lo ∧ maxValue k = some hi := by
  intro k hk
  simp only [sizedKinds, List.mem_cons, List.not_mem_nil, or_false] at hk
  rcases hk with rfl | rfl | rfl | rfl | rfl | rfl <;> exact ⟨_, _, rfl, rfl, rfl⟩

/-- for every integer kind: a stated bound is the exact end of the range; an unstated one is an end of
    int64 / at least the end of int64 (which is where `PlainInts` takes over) -/
theorem int_bounds_tight_all (k : String) (lo hi : Int) (h : intRange k = some (lo, hi)) :
    ∃ mn mx, kindEntry k = some ("integer", mn, mx) ∧ (mn = some lo ∨ (mn = none ∧ lo = -9223372036854775808)) ∧
      (mx = some hi ∨ (mx = none ∧ 9223372036854775807 ≤ hi)) :=
  int_table_tight h

/-! ## the main statement -/

/-- **main (fragment)**: a document that the schema returned by `ForType` accepts is one the decoder accepts
    for the type (`Json.WF j`, distinct keys, is not needed) -/
theorem infer_tight (opts : IOpts) (fuel : Nat) (T : GoType) (st : Store) (id : NodeId) (st' : Store)
    (re : String → String → Bool) (hdom : InDomain T = true)
    (h : forType opts fuel T st = .ok (some id, st')) (j : Json) (hp : PlainInts j = true)
    (fuel' : Nat) (hv : Spec.valid (specEnvNoRefs st' re) fuel' id j = some true) :
    decodable T j = true := by
  obtain ⟨id', hid, hm⟩ := inferFuel_models opts fuel T [] st (some id) st' hdom h
  cases hid
  exact Models.tight (re := re) T false id hm hdom fuel' [] j hp (valid_iff_isSome.2 hv)

/-- contrapositive: what does not decode is not accepted -/
theorem not_decodable_rejected (opts : IOpts) (fuel : Nat) (T : GoType) (st : Store) (id : NodeId) (st' : Store)
    (re : String → String → Bool) (hdom : InDomain T = true)
    (h : forType opts fuel T st = .ok (some id, st')) (j : Json) (hp : PlainInts j = true)
    (hnd : decodable T j = false) (fuel' : Nat) :
    Spec.valid (specEnvNoRefs st' re) fuel' id j ≠ some true := by
  intro hv
  rw [infer_tight opts fuel T st id st' re hdom h j hp fuel' hv] at hnd
  cases hnd

/-! ## the five mutation classes -/

/-- (1) a missing always-written field is rejected (the decoder would accept: this one is the schema's own) -/
theorem missing_required_rejected (opts : IOpts) (fuel : Nat) (fields : List (String × String × GoType)) (st : Store)
    (id : NodeId) (st' : Store) (re : String → String → Bool) (hdom : InDomain (.struct fields) = true)
    (h : forType opts fuel (.struct fields) st = .ok (some id, st'))
    (kvs : List (String × Json)) (k : String) (hk : k ∈ alwaysNames fields) (hmiss : Json.lookup k kvs = none)
    (fuel' : Nat) :
    Spec.valid (specEnvNoRefs st' re) fuel' id (.obj kvs) ≠ some true := by
  intro hv
  obtain ⟨id', hid, hm⟩ := inferFuel_models opts fuel _ [] st (some id) st' hdom h
  cases hid
  have := Models.required (re := re) hm (valid_iff_isSome.2 hv) k hk
  rw [hmiss] at this
  cases this

/-- (2) an undeclared property is rejected: a key that is no field's JSON name, exactly or case-insensitively -/
theorem undeclared_property_rejected (opts : IOpts) (fuel : Nat) (fields : List (String × String × GoType)) (st : Store)
    (id : NodeId) (st' : Store) (re : String → String → Bool) (hdom : InDomain (.struct fields) = true)
    (h : forType opts fuel (.struct fields) st = .ok (some id, st'))
    (kvs : List (String × Json)) (hp : PlainInts (.obj kvs) = true) (k : String) (v : Json) (hkv : (k, v) ∈ kvs)
    (hexact : decodableExact fields k v = none) (hfold : decodableFold fields k v = none) (fuel' : Nat) :
    Spec.valid (specEnvNoRefs st' re) fuel' id (.obj kvs) ≠ some true := by
  refine not_decodable_rejected opts fuel _ st id st' re hdom h _ hp ?_ fuel'
  simp only [decodable]
  cases hall : kvs.all fun p =>
      match decodableExact fields p.1 p.2 with
      | some b => b
      | none => (decodableFold fields p.1 p.2).getD false with
  | false => rfl
  | true =>
    have := List.all_eq_true.1 hall (k, v) hkv
    simp [hexact, hfold] at this

/-- (3) a wrong JSON type is rejected: e.g. anything but `null` or an array for a slice or array type,
    anything but `null` or an object for a map or struct type, and for the basic kinds whatever
    `decodableBasic` refuses (a string for a bool, a fraction for an integer, …) -/
theorem wrong_type_rejected (opts : IOpts) (fuel : Nat) (T : GoType) (st : Store) (id : NodeId) (st' : Store)
    (re : String → String → Bool) (hdom : InDomain T = true)
    (h : forType opts fuel T st = .ok (some id, st')) (fuel' : Nat) :
    (∀ e b, T = .slice e → Spec.valid (specEnvNoRefs st' re) fuel' id (.bool b) ≠ some true) ∧
    (∀ e s, T = .slice e → Spec.valid (specEnvNoRefs st' re) fuel' id (.str s) ≠ some true) ∧
    (∀ e kvs, T = .slice e → PlainInts (.obj kvs) = true → Spec.valid (specEnvNoRefs st' re) fuel' id (.obj kvs) ≠ some true) ∧
    (∀ fs xs, T = .struct fs → PlainInts (.arr xs) = true → Spec.valid (specEnvNoRefs st' re) fuel' id (.arr xs) ≠ some true) ∧
    (∀ fs s, T = .struct fs → Spec.valid (specEnvNoRefs st' re) fuel' id (.str s) ≠ some true) ∧
    (∀ s, T = .basic "Bool" → Spec.valid (specEnvNoRefs st' re) fuel' id (.str s) ≠ some true) ∧
    (∀ b, T = .basic "String" → Spec.valid (specEnvNoRefs st' re) fuel' id (.bool b) ≠ some true) := by
  refine ⟨?_, ?_, ?_, ?_, ?_, ?_, ?_⟩
  · rintro e b rfl
    exact not_decodable_rejected opts fuel _ st id st' re hdom h _ rfl (by simp [decodable]) fuel'
  · rintro e s rfl
    exact not_decodable_rejected opts fuel _ st id st' re hdom h _ rfl (by simp [decodable]) fuel'
  · rintro e kvs rfl hp
    exact not_decodable_rejected opts fuel _ st id st' re hdom h _ hp (by simp [decodable]) fuel'
  · rintro fs xs rfl hp
    exact not_decodable_rejected opts fuel _ st id st' re hdom h _ hp (by simp [decodable]) fuel'
  · rintro fs s rfl
    exact not_decodable_rejected opts fuel _ st id st' re hdom h _ rfl (by simp [decodable]) fuel'
  · rintro s rfl
    exact not_decodable_rejected opts fuel _ st id st' re hdom h _ rfl (by simp [decodable, decodableBasic]) fuel'
  · rintro b rfl
    exact not_decodable_rejected opts fuel _ st id st' re hdom h _ rfl (by simp [decodable, decodableBasic]) fuel'

/-- (4) an integer outside the range of its kind is rejected (within int64: beyond it int / int64 / uint* have
    no schema bound, see `PlainInts`) -/
theorem out_of_range_rejected (opts : IOpts) (fuel : Nat) (kind : String) (lo hi : Int) (st : Store) (id : NodeId)
    (st' : Store) (re : String → String → Bool) (hdom : InDomain (.basic kind) = true)
    (hr : intRange kind = some (lo, hi)) (h : forType opts fuel (.basic kind) st = .ok (some id, st'))
    (i : Int) (hi64 : -9223372036854775808 ≤ i ∧ i ≤ 9223372036854775807) (hout : i < lo ∨ hi < i) (fuel' : Nat) :
    Spec.valid (specEnvNoRefs st' re) fuel' id (.num (i : Rat)) ≠ some true := by
  have hkind : kind ∈ intKinds := by
    have hd : domainKinds.contains kind = true := hdom
    rcases domainKinds_cases hd with rfl | rfl | rfl | hfl | hint
    · simp [intRange] at hr
    · simp [intRange] at hr
    · simp [intRange] at hr
    · simp only [floatKinds, List.mem_cons, List.not_mem_nil, or_false] at hfl
      rcases hfl with rfl | rfl <;> simp [intRange] at hr
    · exact hint
  obtain ⟨h1, h2⟩ := not_float_of_int hkind
  refine not_decodable_rejected opts fuel _ st id st' re hdom h _ ?_ ?_ fuel'
  · simp only [PlainInts, Rat.den_intCast, bne_self_eq_false, Bool.false_or, Bool.and_eq_true, decide_eq_true_eq]
    exact ⟨Rat.intCast_le_intCast.2 hi64.1, Rat.intCast_le_intCast.2 hi64.2⟩
  · simp only [decodable, decodableBasic, h1, h2, hr, Bool.false_or, Rat.den_intCast, beq_self_eq_true, Bool.true_and]
    rcases hout with hlt | hlt
    · have : ¬ ((lo : Rat) ≤ (i : Rat)) := fun hle => by
        have := Rat.intCast_le_intCast.1 hle
        omega
      simp [this]
    · have : ¬ ((i : Rat) ≤ (hi : Rat)) := fun hle => by
        have := Rat.intCast_le_intCast.1 hle
        omega
      simp [this]

/-- (5) a Go array `[n]T` only accepts arrays of length `n` (the decoder would accept any length: this one is
    the schema's own) -/
theorem wrong_array_length_rejected (opts : IOpts) (fuel : Nat) (len : Nat) (e : GoType) (st : Store)
    (id : NodeId) (st' : Store) (re : String → String → Bool) (hdom : InDomain (.array len e) = true)
    (h : forType opts fuel (.array len e) st = .ok (some id, st')) (xs : List Json) (hlen : xs.length ≠ len)
    (fuel' : Nat) :
    Spec.valid (specEnvNoRefs st' re) fuel' id (.arr xs) ≠ some true := by
  intro hv
  obtain ⟨id', hid, hm⟩ := inferFuel_models opts fuel _ [] st (some id) st' hdom h
  cases hid
  exact hlen (Models.arrayLen (re := re) hm (valid_iff_isSome.2 hv))


/-! ## declared (named) types

  `EncJson.InDomainN`: `InDomain` with declared types; `EncJson.NamedOk opts [] [] T`: the declared types of `T` are
  transparent for `forType` (none has an entry in the type table, no name occurs twice along a path; C09's domain has no
  marshaler types, hence the empty list); the strict decoder treats a declared type like its underlying type
  (`C04.encJson_named_conservative`).  Helper lemmas: JSV/Proofs/InfNamed.lean (`forType_erase`). -/

theorem strEntries_nil (schemas : List (String × NodeId)) (st : Store) : StrEntries schemas [] st :=
  fun _ hn => nomatch hn

/-- **main, with declared types**: a document that the schema returned by `ForType` accepts is one the decoder accepts
    for the type -/
theorem infer_tight_named (opts : IOpts) (fuel : Nat) (T : GoType) (st : Store) (id : NodeId) (st' : Store)
    (re : String → String → Bool) (hdom : InDomainN T = true) (hok : NamedOk opts [] [] T = true)
    (h : forType opts fuel T st = .ok (some id, st')) (j : Json) (hp : PlainInts j = true)
    (fuel' : Nat) (hv : Spec.valid (specEnvNoRefs st' re) fuel' id j = some true) :
    decodable T j = true := by
  rw [forType_erase opts [] fuel T st (strEntries_nil _ _) hok] at h
  rw [← decodable_erase]
  exact infer_tight opts fuel (erase T) st id st' re (by rw [← inDomainN_eq_erase]; exact hdom) h j hp fuel' hv

/-- contrapositive: what does not decode is not accepted -/
theorem not_decodable_rejected_named (opts : IOpts) (fuel : Nat) (T : GoType) (st : Store) (id : NodeId) (st' : Store)
    (re : String → String → Bool) (hdom : InDomainN T = true) (hok : NamedOk opts [] [] T = true)
    (h : forType opts fuel T st = .ok (some id, st')) (j : Json) (hp : PlainInts j = true)
    (hnd : decodable T j = false) (fuel' : Nat) :
    Spec.valid (specEnvNoRefs st' re) fuel' id j ≠ some true := by
  intro hv
  rw [infer_tight_named opts fuel T st id st' re hdom hok h j hp fuel' hv] at hnd
  cases hnd

/-- (1) a missing always-written field of a declared struct type `type N struct {…}` is rejected -/
theorem missing_required_rejected_named (opts : IOpts) (fuel : Nat) (nm : String)
    (fields : List (String × String × GoType)) (st : Store) (id : NodeId) (st' : Store) (re : String → String → Bool)
    (hdom : InDomainN (.named nm (.struct fields)) = true) (hok : NamedOk opts [] [] (.named nm (.struct fields)) = true)
    (h : forType opts fuel (.named nm (.struct fields)) st = .ok (some id, st'))
    (kvs : List (String × Json)) (k : String) (hk : k ∈ alwaysNames fields) (hmiss : Json.lookup k kvs = none)
    (fuel' : Nat) :
    Spec.valid (specEnvNoRefs st' re) fuel' id (.obj kvs) ≠ some true := by
  rw [forType_erase opts [] fuel _ st (strEntries_nil _ _) hok] at h
  rw [inDomainN_eq_erase] at hdom
  simp only [erase] at h hdom
  exact missing_required_rejected opts fuel (eraseFields fields) st id st' re hdom h kvs k
    (by rw [alwaysNames_erase]; exact hk) hmiss fuel'

/-- (2) an undeclared property is rejected: a key that is no field's JSON name, exactly or case-insensitively -/
theorem undeclared_property_rejected_named (opts : IOpts) (fuel : Nat) (nm : String)
    (fields : List (String × String × GoType)) (st : Store) (id : NodeId) (st' : Store) (re : String → String → Bool)
    (hdom : InDomainN (.named nm (.struct fields)) = true) (hok : NamedOk opts [] [] (.named nm (.struct fields)) = true)
    (h : forType opts fuel (.named nm (.struct fields)) st = .ok (some id, st'))
    (kvs : List (String × Json)) (hp : PlainInts (.obj kvs) = true) (k : String) (v : Json) (hkv : (k, v) ∈ kvs)
    (hexact : decodableExact fields k v = none) (hfold : decodableFold fields k v = none) (fuel' : Nat) :
    Spec.valid (specEnvNoRefs st' re) fuel' id (.obj kvs) ≠ some true := by
  rw [forType_erase opts [] fuel _ st (strEntries_nil _ _) hok] at h
  rw [inDomainN_eq_erase] at hdom
  simp only [erase] at h hdom
  exact undeclared_property_rejected opts fuel (eraseFields fields) st id st' re hdom h kvs hp k v hkv
    (by rw [decodableExact_erase]; exact hexact) (by rw [decodableFold_erase]; exact hfold) fuel'

/-- (3) a wrong JSON type is rejected, for declared slice, struct and scalar types -/
theorem wrong_type_rejected_named (opts : IOpts) (fuel : Nat) (T : GoType) (st : Store) (id : NodeId) (st' : Store)
    (re : String → String → Bool) (hdom : InDomainN T = true) (hok : NamedOk opts [] [] T = true)
    (h : forType opts fuel T st = .ok (some id, st')) (fuel' : Nat) :
    (∀ nm e b, T = .named nm (.slice e) → Spec.valid (specEnvNoRefs st' re) fuel' id (.bool b) ≠ some true) ∧
    (∀ nm e s, T = .named nm (.slice e) → Spec.valid (specEnvNoRefs st' re) fuel' id (.str s) ≠ some true) ∧
    (∀ nm fs xs, T = .named nm (.struct fs) → PlainInts (.arr xs) = true →
      Spec.valid (specEnvNoRefs st' re) fuel' id (.arr xs) ≠ some true) ∧
    (∀ nm fs s, T = .named nm (.struct fs) → Spec.valid (specEnvNoRefs st' re) fuel' id (.str s) ≠ some true) ∧
    (∀ nm s, T = .named nm (.basic "Bool") → Spec.valid (specEnvNoRefs st' re) fuel' id (.str s) ≠ some true) ∧
    (∀ nm b, T = .named nm (.basic "String") → Spec.valid (specEnvNoRefs st' re) fuel' id (.bool b) ≠ some true) := by
  refine ⟨?_, ?_, ?_, ?_, ?_, ?_⟩
  · rintro nm e b rfl
    exact not_decodable_rejected_named opts fuel _ st id st' re hdom hok h _ rfl (by simp [decodable]) fuel'
  · rintro nm e s rfl
    exact not_decodable_rejected_named opts fuel _ st id st' re hdom hok h _ rfl (by simp [decodable]) fuel'
  · rintro nm fs xs rfl hp
    exact not_decodable_rejected_named opts fuel _ st id st' re hdom hok h _ hp (by simp [decodable]) fuel'
  · rintro nm fs s rfl
    exact not_decodable_rejected_named opts fuel _ st id st' re hdom hok h _ rfl (by simp [decodable]) fuel'
  · rintro nm s rfl
    exact not_decodable_rejected_named opts fuel _ st id st' re hdom hok h _ rfl (by simp [decodable, decodableBasic]) fuel'
  · rintro nm b rfl
    exact not_decodable_rejected_named opts fuel _ st id st' re hdom hok h _ rfl (by simp [decodable, decodableBasic]) fuel'

/-- (4) an integer outside the range of the kind of a declared integer type (`type Level int8`) is rejected -/
theorem out_of_range_rejected_named (opts : IOpts) (fuel : Nat) (nm kind : String) (lo hi : Int) (st : Store) (id : NodeId)
    (st' : Store) (re : String → String → Bool) (hdom : InDomainN (.named nm (.basic kind)) = true)
    (hok : NamedOk opts [] [] (.named nm (.basic kind)) = true)
    (hr : intRange kind = some (lo, hi)) (h : forType opts fuel (.named nm (.basic kind)) st = .ok (some id, st'))
    (i : Int) (hi64 : -9223372036854775808 ≤ i ∧ i ≤ 9223372036854775807) (hout : i < lo ∨ hi < i) (fuel' : Nat) :
    Spec.valid (specEnvNoRefs st' re) fuel' id (.num (i : Rat)) ≠ some true := by
  rw [forType_erase opts [] fuel _ st (strEntries_nil _ _) hok] at h
  rw [inDomainN_eq_erase] at hdom
  simp only [erase] at h hdom
  exact out_of_range_rejected opts fuel kind lo hi st id st' re hdom hr h i hi64 hout fuel'

/-- (5) a declared array type `type V [n]T` only accepts arrays of length `n` -/
theorem wrong_array_length_rejected_named (opts : IOpts) (fuel : Nat) (nm : String) (len : Nat) (e : GoType) (st : Store)
    (id : NodeId) (st' : Store) (re : String → String → Bool) (hdom : InDomainN (.named nm (.array len e)) = true)
    (hok : NamedOk opts [] [] (.named nm (.array len e)) = true)
    (h : forType opts fuel (.named nm (.array len e)) st = .ok (some id, st')) (xs : List Json) (hlen : xs.length ≠ len)
    (fuel' : Nat) :
    Spec.valid (specEnvNoRefs st' re) fuel' id (.arr xs) ≠ some true := by
  rw [forType_erase opts [] fuel _ st (strEntries_nil _ _) hok] at h
  rw [inDomainN_eq_erase] at hdom
  simp only [erase] at h hdom
  exact wrong_array_length_rejected opts fuel len (erase e) st id st' re hdom h xs hlen fuel'

/-! ## labelled tests: the statements evaluated on concrete data -/

/-- `[2]bool`: length 1 and 3 rejected, length 2 accepted, `null` rejected (no pointer) -/
example : (match forType {} 3 (.array 2 (.basic "Bool")) #[] with
    | .ok (some id, st') =>
      [Spec.valid (specEnvNoRefs st') 2 id (.arr [.bool true]),
       Spec.valid (specEnvNoRefs st') 2 id (.arr [.bool true, .bool false]),
       Spec.valid (specEnvNoRefs st') 2 id (.arr [.bool true, .bool false, .bool true]),
       Spec.valid (specEnvNoRefs st') 2 id .null]
    | _ => []) = [some false, some true, some false, some false] := by decide

/-- `map[string]*uint8`: -1 and 256 rejected, 255 and null accepted -/
example : (match forType {} 3 (.map "String" (.ptr (.basic "Uint8"))) #[] with
    | .ok (some id, st') =>
      [Spec.valid (specEnvNoRefs st') 2 id (.obj [("a", .num (-1))]),
       Spec.valid (specEnvNoRefs st') 2 id (.obj [("a", .num 256)]),
       Spec.valid (specEnvNoRefs st') 2 id (.obj [("a", .num 255), ("b", .null)]),
       Spec.valid (specEnvNoRefs st') 2 id (.obj [("a", .str "x")])]
    | _ => []) = [some false, some false, some true, some false] := by decide

example : decodable (.map "String" (.ptr (.basic "Uint8"))) (.obj [("a", .num 255), ("b", .null)]) = true := by decide
example : decodable (.map "String" (.ptr (.basic "Uint8"))) (.obj [("a", .num 256)]) = false := by decide
example : PlainInts (.obj [("a", .num 255), ("b", .null)]) = true := by decide

/-! ### declared types: the hypotheses are satisfiable, the statements discriminate -/

/-- `type Level int8`, `type IDs []Level` -/
def idsT : GoType := .named "IDs" (.slice (.named "Level" (.basic "Int8")))

example : InDomainN idsT = true ∧ NamedOk {} [] [] idsT = true := by decide

/-- `[127]` and `null` accepted, `[128]` and `"x"` rejected -/
example : (match forType {} 3 idsT #[] with
    | .ok (some id, st') =>
      [Spec.valid (specEnvNoRefs st') 2 id (.arr [.num 127]), Spec.valid (specEnvNoRefs st') 2 id (.arr [.num 128]),
       Spec.valid (specEnvNoRefs st') 2 id .null, Spec.valid (specEnvNoRefs st') 2 id (.str "x")]
    | _ => []) = [some true, some false, some true, some false] := by decide

/-- … which is what the decoder says -/
example : [decodable idsT (.arr [.num 127]), decodable idsT (.arr [.num 128]), decodable idsT .null,
    decodable idsT (.str "x")] = [true, false, true, false] := by decide

/-- `infer_tight_named` / `not_decodable_rejected_named` applied -/
example (id : NodeId) (st' : Store) (h : forType {} 3 idsT #[] = .ok (some id, st')) :
    (Spec.valid (specEnvNoRefs st') 2 id (.arr [.num 127]) = some true → decodable idsT (.arr [.num 127]) = true) ∧
    Spec.valid (specEnvNoRefs st') 2 id (.arr [.num 128]) ≠ some true :=
  ⟨infer_tight_named {} 3 idsT #[] id st' (fun _ _ => false) (by decide) (by decide) h _ (by decide) 2,
   not_decodable_rejected_named {} 3 idsT #[] id st' (fun _ _ => false) (by decide) (by decide) h _ (by decide) (by decide) 2⟩

/-- `type Level int8` itself: 128 is out of range (`out_of_range_rejected_named`) -/
example (id : NodeId) (st' : Store) (h : forType {} 2 (.named "Level" (.basic "Int8")) #[] = .ok (some id, st')) :
    Spec.valid (specEnvNoRefs st') 1 id (.num ((128 : Int) : Rat)) ≠ some true :=
  out_of_range_rejected_named {} 2 "Level" "Int8" (-128) 127 #[] id st' (fun _ _ => false) (by decide) (by decide) rfl h 128
    (by decide) (Or.inr (by decide)) 1

/-! ## embedded struct fields (`forTypeE`; the strict decoder: `EncJsonEmb.decodableE`) -/

open EncJsonEmb in
/-- **main, with embedded fields (partial)**: for a type of the domain `InDomainE` — `InDomain` plus embedded fields
    that are untagged exported declared struct types, by value or by pointer, such that within every tree of embedded
    structs the JSON name of a field is determined by its Go name and vice versa and no Go name occurs twice at one
    depth (`namesOk`) — a document that the schema returned by `ForType` accepts is one that json.Decoder with
    DisallowUnknownFields accepts for the type: its keys are JSON names of `typeFields` (the promoted fields included)
    and every member decodes into the dominant field of that name.

    `hno` (`EmbNotInTable`): no embedded field, at any level of `T`, is of a type with a TypeSchemas entry (as in
    `C04.infer_soundE_partial`; with an override the properties of the override replace the promoted ones, and the
    decoder knows nothing of them).

    Partial, what is missing: types outside `InDomainE`: D14 (a JSON name shared by two Go names), D16 (tagged /
    non-struct / unexported embedded fields); declared types in non-embedded positions are in
    `infer_tightE_named_partial`. -/
theorem infer_tightE_partial (opts : IOpts) (fuel : Nat) (T : GoTypeE) (st : Store) (id : NodeId) (st' : Store)
    (re : String → String → Bool) (hno : EmbNotInTable opts T) (hdom : InDomainE T = true)
    (h : forTypeE opts fuel T st = .ok (some id, st')) (j : Json) (hp : PlainInts j = true)
    (fuel' : Nat) (hv : Spec.valid (specEnvNoRefs st' re) fuel' id j = some true) :
    decodableE T j = true := by
  obtain ⟨id', hid, hm⟩ := inferFuelE_models opts fuel T [] st (some id) st' hdom hno h
  cases hid
  exact tightE (re := re) (wt T) T (Nat.le_refl _) hdom false id hm fuel' [] j hp (valid_iff_isSome.2 hv)

open EncJsonEmb in
/-- contrapositive: what does not decode is not accepted (same domain, partial in the same sense) -/
theorem not_decodable_rejectedE_partial (opts : IOpts) (fuel : Nat) (T : GoTypeE) (st : Store) (id : NodeId) (st' : Store)
    (re : String → String → Bool) (hno : EmbNotInTable opts T) (hdom : InDomainE T = true)
    (h : forTypeE opts fuel T st = .ok (some id, st')) (j : Json) (hp : PlainInts j = true)
    (hnd : decodableE T j = false) (fuel' : Nat) :
    Spec.valid (specEnvNoRefs st' re) fuel' id j ≠ some true := by
  intro hv
  rw [infer_tightE_partial opts fuel T st id st' re hno hdom h j hp fuel' hv] at hnd
  cases hnd

open EncJsonEmb in
/-- **main, with embedded fields and declared types (partial)**: as `infer_tightE_partial`, with declared types in
    NON-embedded positions anywhere in `T` (`InDomainEN`: the type with these replaced by their underlying types is in
    `InDomainE`; `NamedOkE opts [] T`: none has an entry in the type table, no name twice along a path; see
    `C04.infer_soundE_named_partial`); the strict decoder treats a declared type like its underlying type.
    Partial in the same sense as `infer_tightE_partial`. -/
theorem infer_tightE_named_partial (opts : IOpts) (fuel : Nat) (T : GoTypeE) (st : Store) (id : NodeId) (st' : Store)
    (re : String → String → Bool) (hno : EmbNotInTable opts T) (hdom : InDomainEN T = true)
    (hok : NamedOkE opts [] T = true)
    (h : forTypeE opts fuel T st = .ok (some id, st')) (j : Json) (hp : PlainInts j = true)
    (fuel' : Nat) (hv : Spec.valid (specEnvNoRefs st' re) fuel' id j = some true) :
    decodableE T j = true := by
  rw [forTypeE_erase opts fuel T st hok] at h
  rw [← decodableE_erase]
  exact infer_tightE_partial opts fuel (eraseE T) st id st' re (embNotInTable_erase opts T hno) hdom h j hp fuel' hv

open EncJsonEmb in
/-- contrapositive: what does not decode is not accepted (same domain, partial in the same sense) -/
theorem not_decodable_rejectedE_named_partial (opts : IOpts) (fuel : Nat) (T : GoTypeE) (st : Store) (id : NodeId)
    (st' : Store) (re : String → String → Bool) (hno : EmbNotInTable opts T) (hdom : InDomainEN T = true)
    (hok : NamedOkE opts [] T = true)
    (h : forTypeE opts fuel T st = .ok (some id, st')) (j : Json) (hp : PlainInts j = true)
    (hnd : decodableE T j = false) (fuel' : Nat) :
    Spec.valid (specEnvNoRefs st' re) fuel' id j ≠ some true := by
  intro hv
  rw [infer_tightE_named_partial opts fuel T st id st' re hno hdom hok h j hp fuel' hv] at hnd
  cases hnd

open EncJsonEmb in
/-- (1) an object that lacks an always-written field of `typeFields` — a promoted one included — is rejected (the
    decoder would accept: this one is the schema's own).  Same domain as `infer_tightE_partial`. -/
theorem missing_required_rejectedE (opts : IOpts) (fuel : Nat) (fields : List (FieldE GoTypeE)) (st : Store)
    (id : NodeId) (st' : Store) (re : String → String → Bool) (hno : EmbNotInTable opts (.struct fields))
    (hdom : InDomainE (.struct fields) = true)
    (h : forTypeE opts fuel (.struct fields) st = .ok (some id, st'))
    (kvs : List (String × Json)) (k : String) (hk : k ∈ alwaysFieldNames fields) (hmiss : Json.lookup k kvs = none)
    (fuel' : Nat) :
    Spec.valid (specEnvNoRefs st' re) fuel' id (.obj kvs) ≠ some true := by
  intro hv
  obtain ⟨id', hid, hm⟩ := inferFuelE_models opts fuel _ [] st (some id) st' hdom hno h
  cases hid
  have := requiredE (re := re) hdom hm (valid_iff_isSome.2 hv) k hk
  rw [hmiss] at this
  cases this

open EncJsonEmb in
/-- (2) an undeclared property is rejected: a key that is the JSON name of no dominant field of the tree of embedded
    structs, exactly or case-insensitively.  Same domain as `infer_tightE_partial`. -/
theorem undeclared_property_rejectedE (opts : IOpts) (fuel : Nat) (fields : List (FieldE GoTypeE)) (st : Store)
    (id : NodeId) (st' : Store) (re : String → String → Bool) (hno : EmbNotInTable opts (.struct fields))
    (hdom : InDomainE (.struct fields) = true)
    (h : forTypeE opts fuel (.struct fields) st = .ok (some id, st'))
    (kvs : List (String × Json)) (hp : PlainInts (.obj kvs) = true) (k : String) (v : Json) (hkv : (k, v) ∈ kvs)
    (hexact : decodableFindE (candidates [] 0 fields) (fun n k => n == k) [] 0 fields k v = none)
    (hfold : decodableFindE (candidates [] 0 fields) foldEq [] 0 fields k v = none) (fuel' : Nat) :
    Spec.valid (specEnvNoRefs st' re) fuel' id (.obj kvs) ≠ some true := by
  refine not_decodable_rejectedE_partial opts fuel _ st id st' re hno hdom h _ hp ?_ fuel'
  simp only [decodableE]
  cases hall : kvs.all fun p =>
      match decodableFindE (candidates [] 0 fields) (fun n k => n == k) [] 0 fields p.1 p.2 with
      | some b => b
      | none => (decodableFindE (candidates [] 0 fields) foldEq [] 0 fields p.1 p.2).getD false with
  | false => rfl
  | true =>
    have := List.all_eq_true.1 hall (k, v) hkv
    simp [hexact, hfold] at this

/-! ### the hypotheses are satisfiable, the statements discriminate (labelled tests)

  `struct{ Inner; A int "json:\"a\"" }` with `type Inner struct { X int "json:\"x\""; Y string "json:\"y,omitempty\"" }`
  (`C04.embedValT`).  `tagLookup` splits the tag with `String.splitOn`, which the kernel does not evaluate: what the tag
  parser returns for each tag is a hypothesis (the parser is specified in C16: `fieldJSONInfo_named`, …). -/

section WitnessesE
open EncJsonEmb
variable (tI tX tY tA : String)
  (hI : tagLookup "json" tI = none)                                        -- the embedded field has no json tag
  (hX : fieldJSONInfo "X" tX = { name := "x" }) (hY : fieldJSONInfo "Y" tY = { name := "y", omitempty := true })
  (hA : fieldJSONInfo "A" tA = { name := "a" })
  (dX : tagLookup "jsonschema" tX = none) (dY : tagLookup "jsonschema" tY = none) (dA : tagLookup "jsonschema" tA = none)

include hX hY hA dX dY dA in
/-- `ForType` succeeds on the type: the hypothesis `h` of the theorems is satisfiable -/
theorem embedVal_infers : ∃ id st', forTypeE {} 3 (C04.embedValT tI tX tY tA) #[] = .ok (some id, st') := by
  simp [C04.embedValT, C04.fld, C04.emb, forTypeE, inferFuelE, inferStepE, stripPtrsE, typeNameE, visibleFields, allFields,
    embFields, isVisible, structLoopE, fieldStepE, fieldJSONInfoE, underSkip, overrideOf, addFieldE, hX, hY, hA, dX, dY, dA,
    Res.bind_ok, C16.kindEntry_Int, C16.kindEntry_String, Store.alloc, Store.get?, addNull, dedupKeepLast]

include hI hX hY hA in
/-- the always-written names of the type: the promoted `x` and the outer `a` -/
theorem embedVal_always : alwaysFieldNames [C04.emb "Inner" tI (.named "Inner" (.struct [C04.fld "X" tX (.basic "Int"),
      C04.fld "Y" tY (.basic "String")])), C04.fld "A" tA (.basic "Int")] = ["x", "a"] := by
  have hIo := (fieldJSONInfo_untagged (g := "Inner") (tag := tI) (by rw [hI]; rfl))
  simp [C04.fld, C04.emb, alwaysFieldNames, typeFields, candidates, embCandidates, classify, mkTField, isDominant,
    dominates, isStructE, derefE, hIo.1, hIo.2, hX, hY, hA]

include hI hX hY hA in
/-- accepted, hence decodes: `{"x":1,"a":2}` (accepted by `C04.infer_soundE_partial`: it is the encoding of
    `{Inner: {X: 1, Y: ""}, A: 2}`); `infer_tightE_partial` applied -/
theorem embedVal_accepted_decodes (id : NodeId) (st' : Store) (h : forTypeE {} 3 (C04.embedValT tI tX tY tA) #[] = .ok (some id, st')) :
    Spec.valid (specEnvNoRefs st') 4 id (.obj [("x", .num 1), ("a", .num 2)]) = some true ∧
    decodableE (C04.embedValT tI tX tY tA) (.obj [("x", .num 1), ("a", .num 2)]) = true := by
  have hIo := (fieldJSONInfo_untagged (g := "Inner") (tag := tI) (by rw [hI]; rfl))
  have hnt := (embNotInTable_of_empty (opts := {}) (fun _ => rfl) _).1 (C04.embedValT tI tX tY tA) (Nat.le_refl _)
  have hd := C04.embedVal_inDomain tI tX tY tA hI hX hY hA
  have hs := C04.infer_soundE_partial {} 3 _ #[] id st' (fun _ _ => false) rfl hnt hd h _
    (C04.embedVal_hasType tI tX tY tA hI hX hY hA) 4 (by simp [C04.embedValT, C04.fld, C04.emb, depthE, depthFieldsE])
  have hv : Spec.valid (specEnvNoRefs st') 4 id (.obj [("x", .num 1), ("a", .num 2)]) = some true := by
    simpa [C04.embedValT, C04.fld, C04.emb, encodeE, encodeFieldsE, encodeEmbE, candidates, embCandidates, classify, mkTField,
      isDominant, dominates, isStructE, derefE, hIo.1, hIo.2, hX, hY, hA, fieldSkipped, isEmptyValue] using hs
  exact ⟨hv, infer_tightE_partial {} 3 _ #[] id st' (fun _ _ => false) hnt hd h _ (by decide) 4 hv⟩

include hI hX hY hA in
/-- … the same verdict of the decoder, evaluated: `x` is found through the embedded struct -/
example : decodableE (C04.embedValT tI tX tY tA) (.obj [("x", .num 1), ("a", .num 2)]) = true := by
  have hIo := (fieldJSONInfo_untagged (g := "Inner") (tag := tI) (by rw [hI]; rfl))
  simp [C04.embedValT, C04.fld, C04.emb, decodableE, decodableFindE, decodableEmbFindE, candidates, embCandidates, classify,
    mkTField, isDominant, dominates, isStructE, derefE, hIo.1, hIo.2, hX, hY, hA, decodableBasic, intRange]
  exact ⟨Or.inr ⟨by decide, by decide⟩, Or.inr ⟨by decide, by decide⟩⟩

include hI hX hY hA in
/-- rejected, an unknown key: `{"x":1,"a":2,"z":3}` (`undeclared_property_rejectedE`), at every fuel -/
theorem embedVal_unknown_key_rejected (id : NodeId) (st' : Store) (h : forTypeE {} 3 (C04.embedValT tI tX tY tA) #[] = .ok (some id, st')) (fuel' : Nat) :
    Spec.valid (specEnvNoRefs st') fuel' id (.obj [("x", .num 1), ("a", .num 2), ("z", .num 3)]) ≠ some true := by
  have hIo := (fieldJSONInfo_untagged (g := "Inner") (tag := tI) (by rw [hI]; rfl))
  have hnt := (embNotInTable_of_empty (opts := {}) (fun _ => rfl) _).1 (C04.embedValT tI tX tY tA) (Nat.le_refl _)
  have hd := C04.embedVal_inDomain tI tX tY tA hI hX hY hA
  have fx : foldEq "x" "z" = false := by decide
  have fy : foldEq "y" "z" = false := by decide
  have fa : foldEq "a" "z" = false := by decide
  refine undeclared_property_rejectedE {} 3 _ #[] id st' (fun _ _ => false) hnt hd h _ (by decide) "z" (.num 3)
    (by simp) ?_ ?_ fuel'
  · simp [C04.fld, C04.emb, decodableFindE, decodableEmbFindE, classify, isStructE, derefE, hIo.1, hIo.2, hX, hY, hA]
  · simp [C04.fld, C04.emb, decodableFindE, decodableEmbFindE, classify, isStructE, derefE, hIo.1, hIo.2, hX, hY, hA,
      fx, fy, fa]

include hI hX hY hA in
/-- rejected, a missing required promoted field: `{"a":2}` lacks `x` of the embedded `Inner`
    (`missing_required_rejectedE`) — although the decoder accepts it -/
theorem embedVal_missing_promoted_rejected (id : NodeId) (st' : Store) (h : forTypeE {} 3 (C04.embedValT tI tX tY tA) #[] = .ok (some id, st')) (fuel' : Nat) :
    Spec.valid (specEnvNoRefs st') fuel' id (.obj [("a", .num 2)]) ≠ some true ∧
    decodableE (C04.embedValT tI tX tY tA) (.obj [("a", .num 2)]) = true := by
  have hIo := (fieldJSONInfo_untagged (g := "Inner") (tag := tI) (by rw [hI]; rfl))
  have hnt := (embNotInTable_of_empty (opts := {}) (fun _ => rfl) _).1 (C04.embedValT tI tX tY tA) (Nat.le_refl _)
  have hd := C04.embedVal_inDomain tI tX tY tA hI hX hY hA
  refine ⟨missing_required_rejectedE {} 3 _ #[] id st' (fun _ _ => false) hnt hd h _ "x" ?_ (by simp [Json.lookup]) fuel', ?_⟩
  · rw [embedVal_always tI tX tY tA hI hX hY hA]
    simp
  · simp [C04.embedValT, C04.fld, C04.emb, decodableE, decodableFindE, decodableEmbFindE, candidates, embCandidates, classify,
      mkTField, isDominant, dominates, isStructE, derefE, hIo.1, hIo.2, hX, hY, hA, decodableBasic, intRange]
    exact Or.inr ⟨by decide, by decide⟩

include hI hX hY hA dX dY dA in
/-- all of it about the schema `ForType` actually returns for the type -/
example : ∃ id st', forTypeE {} 3 (C04.embedValT tI tX tY tA) #[] = .ok (some id, st') ∧
    Spec.valid (specEnvNoRefs st') 4 id (.obj [("x", .num 1), ("a", .num 2)]) = some true ∧
    (∀ fuel', Spec.valid (specEnvNoRefs st') fuel' id (.obj [("x", .num 1), ("a", .num 2), ("z", .num 3)]) ≠ some true) ∧
    (∀ fuel', Spec.valid (specEnvNoRefs st') fuel' id (.obj [("a", .num 2)]) ≠ some true) := by
  obtain ⟨id, st', h⟩ := embedVal_infers tI tX tY tA hX hY hA dX dY dA
  exact ⟨id, st', h, (embedVal_accepted_decodes tI tX tY tA hI hX hY hA id st' h).1,
    fun fuel' => embedVal_unknown_key_rejected tI tX tY tA hI hX hY hA id st' h fuel',
    fun fuel' => (embedVal_missing_promoted_rejected tI tX tY tA hI hX hY hA id st' h fuel').1⟩

end WitnessesE

/-- `infer_tightE_named_partial` applied to `C04.embedNamedT` (`struct{ Inner; A Celsius }`, `Inner{ X Count; Y string }`):
    the document `{"x":1,"a":20}`, accepted by the schema (`C04.infer_soundE_named_partial`), decodes -/
example (tI tX tY tA : String) (hI : tagLookup "json" tI = none)
    (hX : fieldJSONInfo "X" tX = { name := "x" }) (hY : fieldJSONInfo "Y" tY = { name := "y", omitempty := true })
    (hA : fieldJSONInfo "A" tA = { name := "a" }) (id : NodeId) (st' : Store)
    (h : forTypeE {} 4 (C04.embedNamedT tI tX tY tA) #[] = .ok (some id, st'))
    (hv : Spec.valid (specEnvNoRefs st') 5 id (.obj [("x", .num 1), ("a", .num 20)]) = some true) :
    EncJsonEmb.decodableE (C04.embedNamedT tI tX tY tA) (.obj [("x", .num 1), ("a", .num 20)]) = true :=
  infer_tightE_named_partial {} 4 _ #[] id st' (fun _ _ => false)
    ((Go.embNotInTable_of_empty (opts := {}) (fun _ => rfl) _).1 _ (Nat.le_refl _))
    (C04.embedNamed_inDomain tI tX tY tA hI hX hY hA) (C04.embedNamed_namedOk tI tX tY tA) h _ (by decide) 5 hv

end JSV.C09
