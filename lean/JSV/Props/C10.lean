/-
  C10 — totality and "no panic".  (Lean functions are total, so termination of the model is free; the content is
  that the modelled computations end in a value or an error — never in `.panic`, and never in `.fuel` when the fuel
  the entry points supply is used.)

  `NoPF r` (JSV/Proofs/Tot.lean) := r ≠ .panic ∧ r ≠ .fuel.
-/
import JSV.Proofs.Tot
import JSV.Proofs.TotUnmarshal
import JSV.Proofs.TotFacts
import JSV.Proofs.TotInfer
import JSV.Props.C01
import JSV.Props.C08
import JSV.Props.C11
import JSV.Props.C12
namespace JSV.C10
open JSV Go Refine

/-! ## UnmarshalJSON -/

/-- every parsed JSON value: UnmarshalJSON returns a schema or an error; the fuel `j.size + 1` of the entry point suffices -/
theorem unmarshal_no_panic (j : Json) (st : Store) : Go.unmarshal j st ≠ .panic ∧ Go.unmarshal j st ≠ .fuel :=
  unmarshalFuel_NoPF (j.size + 1) j st (Nat.le_succ _)

/-- any fuel ≥ the size of the document suffices -/
theorem unmarshalFuel_no_panic (fuel : Nat) (j : Json) (st : Store) (h : j.size ≤ fuel) :
    Go.unmarshalFuel fuel j st ≠ .panic ∧ Go.unmarshalFuel fuel j st ≠ .fuel :=
  unmarshalFuel_NoPF fuel j st h

/-! ## checkStructure -/

/-- also on shared / cyclic graphs: each step either errs or records a NEW id, so `st.size + 1` steps suffice
    (a fortiori the `st.size + 2` of the task statement) -/
theorem checkStructure_no_fuel (st : Store) (fuel : Nat) (root : NodeId) (h : fuel ≥ st.size + 1) :
    checkStructure st fuel [(root, "")] [] ≠ .fuel :=
  checkStructure_no_fuel_gen st fuel _ [] ⟨List.nodup_nil, fun _ h => nomatch h⟩ (by simpa using h)

theorem checkStructure_no_fuel' (st : Store) (fuel : Nat) (root : NodeId) (h : fuel ≥ st.size + 2) :
    checkStructure st fuel [(root, "")] [] ≠ .fuel :=
  checkStructure_no_fuel st fuel root (by omega)

/-- it has no panic outcome -/
theorem checkStructure_no_panic (st : Store) (fuel : Nat) (work : List (NodeId × String)) (acc : List (NodeId × Info)) :
    checkStructure st fuel work acc ≠ .panic :=
  checkStructure_no_panic_gen st fuel work acc

/-- on success the recorded ids are pairwise distinct and all exist in the store -/
theorem checkStructure_tree (st : Store) (fuel : Nat) (root : NodeId) (infos : List (NodeId × Info)) :
    checkStructure st fuel [(root, "")] [] = .ok infos →
      (infos.map (·.1)).Nodup ∧ ∀ id ∈ infos.map (·.1), (st.get? id).isSome = true :=
  fun h => checkStructure_accOK st fuel _ [] infos h ⟨List.nodup_nil, fun _ h => nomatch h⟩

/-! ## equalValue, hashValue -/

theorem equalValue_no_panic (x y : GoVal) (jx jy : Json) (hx : GoVal.denote x = some jx) (hy : GoVal.denote y = some jy) :
    Go.equalValue x y ≠ .panic ∧ Go.equalValue x y ≠ .fuel := by
  rw [C11.equal_iff x y jx jy hx hy]; exact NoPF_ok _

theorem hashEnc_no_panic (x : GoVal) (j : Json) (hx : GoVal.denote x = some j) :
    Go.hashEnc x ≠ .panic ∧ Go.hashEnc x ≠ .fuel := by
  obtain ⟨bs, h⟩ := C12.hashEnc_ok x j hx
  rw [h]; exact NoPF_ok _

/-! ## validate -/

/-- under a well-formed environment, with a stack whose schemas have resolution records, on ANY Go representation of a
    well-formed JSON instance: whenever the Spec decides (with this fuel), the evaluator neither panics nor runs out of fuel.
    Partial: says nothing when the Spec does not decide (unguarded recursion). -/
theorem validate_no_panic_partial (env : VEnv) (hwf : EnvWF env) (hst : StoreWF env.st) (fuel : Nat) (stack : List NodeId)
    (hstack : ∀ x, x ∈ stack → (env.info? x).isSome = true) (s : NodeId) (g : GoVal) (j : Json)
    (hg : GoVal.denote g = some j) (hj : Json.WF j = true)
    (hs : (Spec.evalFuel (specEnvOf env) fuel stack s j).isSome = true) :
    Go.validateFuel env fuel stack g s ≠ .panic ∧ Go.validateFuel env fuel stack g s ≠ .fuel := by
  rw [C08.validate_repr env hwf.hash_respects fuel stack s g j hg hj]
  have hrel := C01.validate_refines_spec env hwf hst fuel stack hstack s j hj
  cases he : Spec.evalFuel (specEnvOf env) fuel stack s j with
  | none => rw [he] at hs; cases hs
  | some r =>
    rw [he] at hrel
    cases r with
    | none => simp only [Rel] at hrel; rw [hrel]; exact NoPF_err
    | some ev => obtain ⟨a, ha, _⟩ := hrel; rw [ha]; exact NoPF_ok _

/-- at the entry point -/
theorem validate_entry_no_panic_partial (env : VEnv) (hwf : EnvWF env) (hst : StoreWF env.st) (supported : List String)
    (fuel : Nat) (root : NodeId) (rn : Node) (hroot : env.st.get? root = some rn) (g : GoVal) (j : Json)
    (hg : GoVal.denote g = some j) (hj : Json.WF j = true)
    (hs : (Spec.valid (specEnvOf env) fuel root j).isSome = true) :
    Go.validate env supported fuel root g ≠ .panic ∧ Go.validate env supported fuel root g ≠ .fuel := by
  unfold Go.validate
  rw [hroot]
  simp only []
  split
  · exact NoPF_err
  · refine NoPF_bind (validate_no_panic_partial env hwf hst fuel [] (fun _ h => nomatch h) root g j hg hj ?_) fun _ _ => NoPF_ok _
    unfold Spec.valid at hs
    cases he : Spec.evalFuel (specEnvOf env) fuel [] root j with
    | none => rw [he] at hs; cases hs
    | some r => rfl

/-- **no panic, no hang on guarded schemas**: for a ranked, closed environment (`Go.ranked`: the rank certificate of
    "recursion only through instance-descending keywords"; `Go.closed`: complete resolution tables), every schema of the
    store, ANY Go representation `g` of a well-formed instance `j`, and fuel `(depth j + 1) * (maxRank env + 1)`, the
    evaluator neither panics nor runs out of fuel.  No hypothesis on the Spec is left (`C01.spec_defined` discharges it). -/
theorem validate_no_panic_ranked (env : VEnv) (hwf : EnvWF env) (hst : StoreWF env.st)
    (hr : ranked env = true) (hc : closed env = true) (fuel : Nat) (stack : List NodeId)
    (hstack : ∀ x, x ∈ stack → (env.info? x).isSome = true) (s : NodeId) (hs : s < env.st.size) (g : GoVal) (j : Json)
    (hg : GoVal.denote g = some j) (hj : Json.WF j = true)
    (hf : (Json.depth j + 1) * (maxRank env + 1) ≤ fuel) :
    Go.validateFuel env fuel stack g s ≠ .panic ∧ Go.validateFuel env fuel stack g s ≠ .fuel :=
  validate_no_panic_partial env hwf hst fuel stack hstack s g j hg hj (C01.spec_defined env hr hc fuel stack s j hs hf)

/-- the same with the cycle search `guarded` as the hypothesis, and the bound that only mentions the size of the store -/
theorem validate_no_panic_of_guarded (env : VEnv) (hwf : EnvWF env) (hst : StoreWF env.st)
    (hg : guarded env = true) (hc : closed env = true) (fuel : Nat) (stack : List NodeId)
    (hstack : ∀ x, x ∈ stack → (env.info? x).isSome = true) (s : NodeId) (hs : s < env.st.size) (g : GoVal) (j : Json)
    (hg' : GoVal.denote g = some j) (hj : Json.WF j = true)
    (hf : (Json.depth j + 1) * (env.st.size + 2) ≤ fuel) :
    Go.validateFuel env fuel stack g s ≠ .panic ∧ Go.validateFuel env fuel stack g s ≠ .fuel :=
  validate_no_panic_partial env hwf hst fuel stack hstack s g j hg' hj
    (C01.spec_defined_size env ((C01.guarded_iff_ranked env hc).1 hg) hc fuel stack s j hs hf)

/-- with the bound that only mentions the size of the store -/
theorem validate_no_panic_ranked_size (env : VEnv) (hwf : EnvWF env) (hst : StoreWF env.st)
    (hr : ranked env = true) (hc : closed env = true) (fuel : Nat) (stack : List NodeId)
    (hstack : ∀ x, x ∈ stack → (env.info? x).isSome = true) (s : NodeId) (hs : s < env.st.size) (g : GoVal) (j : Json)
    (hg : GoVal.denote g = some j) (hj : Json.WF j = true)
    (hf : (Json.depth j + 1) * (env.st.size + 2) ≤ fuel) :
    Go.validateFuel env fuel stack g s ≠ .panic ∧ Go.validateFuel env fuel stack g s ≠ .fuel :=
  validate_no_panic_partial env hwf hst fuel stack hstack s g j hg hj
    (C01.spec_defined_size env hr hc fuel stack s j hs hf)

/-- at the entry point -/
theorem validate_entry_no_panic_ranked (env : VEnv) (hwf : EnvWF env) (hst : StoreWF env.st)
    (hr : ranked env = true) (hc : closed env = true) (supported : List String)
    (fuel : Nat) (root : NodeId) (rn : Node) (hroot : env.st.get? root = some rn) (g : GoVal) (j : Json)
    (hg : GoVal.denote g = some j) (hj : Json.WF j = true)
    (hf : (Json.depth j + 1) * (maxRank env + 1) ≤ fuel) :
    Go.validate env supported fuel root g ≠ .panic ∧ Go.validate env supported fuel root g ≠ .fuel := by
  apply validate_entry_no_panic_partial env hwf hst supported fuel root rn hroot g j hg hj
  obtain ⟨b, hb⟩ := C01.valid_defined env hr hc fuel root j (Array.getElem?_eq_some_iff.1 hroot).1 hf
  rw [hb]
  rfl

/-! ## applyDefaults -/

/-- every schema object has an info record (`EnvWF.info_total`) and the `properties` children exist ⇒ no panic -/
theorem applyDefaults_no_panic (env : VEnv) (hwf : EnvWF env)
    (hprops : ∀ s n, env.st.get? s = some n → ∀ p c, (p, c) ∈ n.properties.getD [] → (env.st.get? c).isSome = true)
    (fuel : Nat) (id : NodeId) (inst : Json) (hid : (env.st.get? id).isSome = true) :
    Go.applyDefaultsFuel env fuel id inst ≠ .panic :=
  applyDefaultsFuel_NoP env hwf.info_total hprops fuel id inst hid

/-- and when `properties` edges decrease some rank (a tree: its height), fuel above the rank of the root suffices,
    whatever the instance and the defaults -/
theorem applyDefaults_no_fuel (env : VEnv) (rank : NodeId → Nat)
    (hrank : ∀ s n, env.st.get? s = some n → ∀ p c, (p, c) ∈ n.properties.getD [] → rank c < rank s)
    (fuel : Nat) (id : NodeId) (inst : Json) (h : rank id < fuel) :
    Go.applyDefaultsFuel env fuel id inst ≠ .fuel :=
  applyDefaultsFuel_NoFuel env rank hrank fuel id inst h

/-! ## forType -/

/-- the cycle check: one step of forType on (pointers to) a named type — or a back reference `.ref name` to one — whose name
    is already in `seen` returns an error; it makes no recursive call (the result does not depend on `rec`) -/
theorem forType_cycle_detected (opts : IOpts) (rec : IRec) (t0 : GoType) (seen : List String) (st : Store) (nm : String) :
    typeName (stripPtrs t0).1 = some nm → seen.contains nm = true → inferStep opts rec t0 seen st = .err :=
  inferStep_cycle opts rec t0 seen st nm

theorem forType_cycle_detected_ref (opts : IOpts) (rec : IRec) (name : String) (seen : List String) (st : Store) :
    seen.contains name = true → inferStep opts rec (.ref name) seen st = .err :=
  inferStep_cycle opts rec (.ref name) seen st name rfl

theorem forType_cycle_detected_named (opts : IOpts) (rec : IRec) (name : String) (u : GoType) (seen : List String) (st : Store) :
    seen.contains name = true → inferStep opts rec (.named name u) seen st = .err :=
  inferStep_cycle opts rec (.named name u) seen st name rfl

/-- (stretch) fuel: a type whose nesting depth (`depth`: slices, arrays, maps, struct fields count; pointers and the step
    named → underlying do not) is at most the fuel never runs out of fuel, provided cloning the type-table entries does not
    (`hs`; vacuous for an empty table) -/
theorem forType_no_fuel (opts : IOpts)
    (hs : ∀ nm sid st, Json.lookup nm opts.schemas = some sid → clone st sid ≠ .fuel)
    (fuel : Nat) (t : GoType) (st : Store) (h : depth t ≤ fuel) : Go.forType opts fuel t st ≠ .fuel :=
  inferFuel_NoFuel opts hs fuel t [] st h

theorem forType_no_fuel_empty_table (opts : IOpts) (hs : opts.schemas = [])
    (fuel : Nat) (t : GoType) (st : Store) (h : depth t ≤ fuel) : Go.forType opts fuel t st ≠ .fuel :=
  forType_no_fuel opts (fun nm sid st hl => by rw [hs] at hl; cases hl) fuel t st h

/-! ## JSON Pointer -/

/-- dereferenceJSONPointer has no panic / fuel outcome -/
theorem pointer_no_panic (st : Store) (strict nilIsError : Bool) (root : NodeId) (sptr : String) :
    Pointer.dereference st strict nilIsError root sptr ≠ .panic ∧ Pointer.dereference st strict nilIsError root sptr ≠ .fuel :=
  dereference_NoPF st strict nilIsError root sptr

/-! ## the explicit panic sites of the source -/

/-- a new panic(...) / assert(...) in the package breaks this obligation -/
theorem panic_sites_fact : Generated.panicSites = expectedPanicSites := by decide +kernel

/-! ## examples -/

example : (Go.unmarshal (.obj [("type", .num 3)]) #[]).verdict = some false := by decide +kernel
example : (Go.unmarshal (.obj [("items", .arr [.bool true, .null]), ("x", .null)]) #[]).isOk = true := by decide +kernel
/-- a cyclic store: node 0 is its own `not` child; checkStructure stops with an error after 2 steps -/
example : (checkStructure #[{ not := some 0 }] 2 [(0, "")] []).verdict = some false := by decide +kernel
example : (checkStructure #[{ not := some 1 }, {}] 3 [(0, "")] []).isOk = true := by decide +kernel
/-- `type T []*T`: the back reference is refused (an error, not unbounded recursion), with any fuel ≥ 2 -/
example : (Go.forType {} 2 (.named "T" (.slice (.ptr (.ref "T")))) #[]).verdict = some false := by decide +kernel
example : (Go.forType {} 50 (.named "T" (.slice (.ptr (.ref "T")))) #[]).verdict = some false := by decide +kernel
example : depth (.named "P" (.map "String" (.slice (.ptr (.basic "Int"))))) = 3 := by decide +kernel
example : (Go.forType {} 3 (.named "P" (.map "String" (.slice (.ptr (.basic "Int"))))) #[]).isOk = true := by
  decide +kernel
example : (Go.forType {} 2 (.named "P" (.map "String" (.slice (.ptr (.basic "Int"))))) #[]).verdict = none := by
  decide +kernel
/-- hypotheses of `validate_no_panic_partial` / `applyDefaults_no_panic` on the environment of C01 -/
example : Go.validateFuel C01.exEnv 3 [] (GoVal.ofJson C01.exGood) 0 ≠ .panic ∧
    Go.validateFuel C01.exEnv 3 [] (GoVal.ofJson C01.exGood) 0 ≠ .fuel :=
  validate_no_panic_partial C01.exEnv C01.exEnv_wf C01.exEnv_store 3 [] (fun _ h => nomatch h) 0 _ C01.exGood
    (denote_ofJson _) (by decide) (by decide)

/-- `validate_no_panic_ranked` on the recursive list schema of C01: nothing about the Spec is assumed -/
example : Go.validateFuel C01.listEnv 8 [] (GoVal.ofJson C01.listBad) 0 ≠ .panic ∧
    Go.validateFuel C01.listEnv 8 [] (GoVal.ofJson C01.listBad) 0 ≠ .fuel :=
  validate_no_panic_ranked C01.listEnv C01.listEnv_wf C01.listEnv_store (by decide) (by decide) 8 []
    (fun _ h => nomatch h) 0 (by decide) _ C01.listBad (denote_ofJson _) (by decide) (by decide)

end JSV.C10
