/-
  C10 — totality and "no panic".  (Lean functions are total, so termination of the model is free; the content is
  that the modelled computations end in a value or an error — never in `.panic`, and never in `.fuel` when the fuel
  the entry points supply is used.)

  `NoPF r` (JSV/Proofs/Tot.lean) := r ≠ .panic ∧ r ≠ .fuel.
-/
import JSV.Proofs.Tot
import JSV.Proofs.TotUnmarshal
import JSV.Proofs.TotFacts
import JSV.Proofs.TotInfer
import JSV.Proofs.ResNoPanic
import JSV.Proofs.ResNoFuel
import JSV.Props.C01
import JSV.Props.C08
import JSV.Props.C11
import JSV.Props.C12
namespace JSV.C10
open JSV Go Refine

/-! ## UnmarshalJSON -/

/-- every parsed JSON value: UnmarshalJSON returns a schema or an error; the fuel `j.size + 1` of the entry point suffices -/
theorem unmarshal_no_panic (j : Json) (st : Store) : Go.unmarshal j st ≠ .panic ∧ Go.unmarshal j st ≠ .fuel :=
  unmarshalFuel_NoPF (j.size + 1) j st (Nat.le_succ _)

/-- any fuel ≥ the size of the document suffices -/
theorem unmarshalFuel_no_panic (fuel : Nat) (j : Json) (st : Store) (h : j.size ≤ fuel) :
    Go.unmarshalFuel fuel j st ≠ .panic ∧ Go.unmarshalFuel fuel j st ≠ .fuel :=
  unmarshalFuel_NoPF fuel j st h

/-! ## checkStructure -/

/-- also on shared / cyclic graphs: each step either errs or records a NEW id, so `st.size + 1` steps suffice
    (a fortiori the `st.size + 2` of the task statement) -/
theorem checkStructure_no_fuel (st : Store) (fuel : Nat) (root : NodeId) (h : fuel ≥ st.size + 1) :
    checkStructure st fuel [(root, "")] [] ≠ .fuel :=
  checkStructure_no_fuel_gen st fuel _ [] ⟨List.nodup_nil, fun _ h => nomatch h⟩ (by simpa using h)

theorem checkStructure_no_fuel' (st : Store) (fuel : Nat) (root : NodeId) (h : fuel ≥ st.size + 2) :
    checkStructure st fuel [(root, "")] [] ≠ .fuel :=
  checkStructure_no_fuel st fuel root (by omega)

/-- it has no panic outcome -/
theorem checkStructure_no_panic (st : Store) (fuel : Nat) (work : List (NodeId × String)) (acc : List (NodeId × Info)) :
    checkStructure st fuel work acc ≠ .panic :=
  checkStructure_no_panic_gen st fuel work acc

/-- on success the recorded ids are pairwise distinct and all exist in the store -/
theorem checkStructure_tree (st : Store) (fuel : Nat) (root : NodeId) (infos : List (NodeId × Info)) :
    checkStructure st fuel [(root, "")] [] = .ok infos →
      (infos.map (·.1)).Nodup ∧ ∀ id ∈ infos.map (·.1), (st.get? id).isSome = true :=
  fun h => checkStructure_accOK st fuel _ [] infos h ⟨List.nodup_nil, fun _ h => nomatch h⟩

/-! ## Schema.Resolve

`Go.resolve` is the whole of `(*Schema).Resolve` (without ValidateDefaults): checkStructure, checkLocal, resolveURIs,
resolveRefs with the Loader and the `loaded` cache.  The `.panic` outcomes of the model are the nil map entries / nil
pointers of the Go code (`rs.resolvedInfos[s]` for a schema the Resolved does not know, `info.base == nil`,
`baseInfo.uri == nil`, a nil child met by `Schema.all`).

Helper files: JSV/Proofs/ResTot.lean, ResBase.lean, ResNoPanic.lean (invariant `Inv`), ResNoFuel.lean (measure). -/

/-- `Resolve` returns a Resolved or an error — never a panic — for every store (shared / cyclic / dangling child
    pointers, malformed `$id` / `$ref`), every loader table (errors, nil documents, ill-formed documents, documents
    that refer back, one document under several URIs), every base URI and every fuel, PROVIDED that documents with
    different roots share no schema object (`docsDisjoint`: the model's stated assumption "fresh nodes per loader
    document"; decidable, and trivially true without loader documents).

    The hypothesis cannot be dropped: see `resolve_panic_reachable` below. -/
theorem resolve_no_panic_partial (env : Go.Env) (fuel : Nat) (root : NodeId) (base : String)
    (h : Go.RTot.docsDisjoint env root = true) : Go.resolve env fuel root base ≠ .panic :=
  Go.RTot.resolve_ne_panic env fuel root base h

/-- no hypothesis is needed without a Loader -/
theorem resolve_no_panic_no_loader (env : Go.Env) (fuel : Nat) (root : NodeId) (base : String)
    (h : env.loader = none) : Go.resolve env fuel root base ≠ .panic := by
  apply resolve_no_panic_partial
  unfold Go.RTot.docsDisjoint Go.RTot.docRoots
  rw [h]
  simp

/-- `Resolve` terminates: fuel above the number of entries of the loader table is never exhausted — whatever the store
    and the table (no hypothesis).  Reference cycles between documents end because every document is entered in the
    `loaded` cache before its references are followed, so every recursive call caches a new URI of the table; inside
    one document, checkStructure and resolveURIs meet every schema once. -/
theorem resolve_no_fuel (env : Go.Env) (fuel : Nat) (root : NodeId) (base : String)
    (h : fuel ≥ (env.loader.getD []).length + 1) : Go.resolve env fuel root base ≠ .fuel :=
  Go.RTot.resolve_ne_fuel env fuel root base h

/-- both together -/
theorem resolve_total_partial (env : Go.Env) (fuel : Nat) (root : NodeId) (base : String)
    (hd : Go.RTot.docsDisjoint env root = true) (hf : fuel ≥ (env.loader.getD []).length + 1) :
    Go.resolve env fuel root base = .err ∨ ∃ rs, Go.resolve env fuel root base = .ok rs :=
  (NoPF_iff _).1 ⟨resolve_no_panic_partial env fuel root base hd, resolve_no_fuel env fuel root base hf⟩

/-! ### a reachable `.panic` of the model

The model keeps ONE info record per schema object (`RState.infos`), Go one per (Resolved, schema).  When a loader
document shares a schema object with the root, resolveURIs of the loader document overwrites the `base` of the shared
schema; if moreover the Resolved that merged the loader document's records is replaced (its root is loaded a second
time under another URI), the root's Resolved never learns the new base, and `resolveRef` on the shared schema reads
`rs.resolvedInfos[base]` = nil.  In Go the root's Resolved has its own record for the shared schema (the merge does not
overwrite), so this is a defect of the model's "one table" simplification outside its stated assumption, not of resolve.go.

  root 0 = {allOf: [1, 2]},  1 = {$ref: "http://a/y"},  2 = {$ref: "#"}            (resolved under http://a/r)
  y    3 = {allOf: [4, 5]},  4 = {$ref: "x"},           5 = {$ref: "http://b/y"}   (served for http://a/y AND http://b/y)
  x    6 = {not: 2}          — shares schema 2 with the root                      (served for http://a/x)
  w    7 = {}                                                                     (served for http://b/x)
-/

def pxStore : Store := #[
  { allOf := some [1, 2] },
  { ref := "http://a/y" },
  { ref := "#" },
  { allOf := some [4, 5] },
  { ref := "x" },
  { ref := "http://b/y" },
  { not := some 2 },
  { } ]

def pxEnv : Go.Env :=
  { st := pxStore, reOk := fun _ => true,
    loader := some [("http://a/y", .doc 3), ("http://a/x", .doc 6), ("http://b/y", .doc 3), ("http://b/x", .doc 7)] }

theorem resolve_panic_reachable : Go.resolve pxEnv 5 0 "http://a/r" = .panic := by
  have h : (match Go.resolve pxEnv 5 0 "http://a/r" with
      | .panic => true
      | _ => false) = true := by decide +kernel
  cases hr : Go.resolve pxEnv 5 0 "http://a/r" with
  | panic => rfl
  | ok _ => rw [hr] at h; cases h
  | err => rw [hr] at h; cases h
  | fuel => rw [hr] at h; cases h

/-- so the unconditional statement is false in the model -/
theorem resolve_no_panic_false :
    ¬ ∀ (env : Go.Env) (fuel : Nat) (root : NodeId) (base : String), Go.resolve env fuel root base ≠ .panic :=
  fun H => H pxEnv 5 0 "http://a/r" resolve_panic_reachable

/-- the hypothesis of `resolve_no_panic_partial` is what fails: documents 0 and 6 share schema 2 -/
example : Go.RTot.docsDisjoint pxEnv 0 = false := by decide +kernel
example : Go.RTot.docNodes pxEnv 0 = [0, 1, 2] ∧ Go.RTot.docNodes pxEnv 6 = [6, 2] := by decide +kernel

/-! ### non-vacuity: cyclic documents, nil documents

A = `{"$ref": "http://x/b.json"}`, B = `{"$ref": "http://x/a.json"}`; the Loader serves both. -/

def cyStore : Store := #[{ ref := "http://x/b.json" }, { ref := "http://x/a.json" }]

def cyEnv : Go.Env :=
  { st := cyStore, reOk := fun _ => true,
    loader := some [("http://x/a.json", .doc 0), ("http://x/b.json", .doc 1)] }

example : Go.RTot.docsDisjoint cyEnv 0 = true := by decide +kernel
/-- A resolved under its own URI: A → B → (A: cached); the stated fuel (2 table entries + 1) gives a value -/
example : ((Go.resolve cyEnv 3 0 "http://x/a.json").bind fun rs =>
      .ok (rs.log, rs.infos.map fun e => (e.1, e.2.resolvedRef))) =
    .ok (["http://x/b.json"], [(0, some 1), (1, some 0)]) := by decide +kernel
example : ((Go.resolve cyEnv 1 0 "http://x/a.json").bind fun rs => .ok rs.log) = .fuel := by decide +kernel
/-- A resolved under no URI: A → B → A (now as http://x/a.json) → (B: cached): three nested calls, so the bound
    "table entries + 1" of `resolve_no_fuel` is attained — fuel 2 is not enough -/
example : ((Go.resolve cyEnv 3 0 "").bind fun rs => .ok rs.log) = .ok ["http://x/b.json", "http://x/a.json"] := by
  decide +kernel
example : ((Go.resolve cyEnv 2 0 "").bind fun rs => .ok rs.log) = .fuel := by decide +kernel
/-- the theorems on this universe -/
example : Go.resolve cyEnv 3 0 "" = .err ∨ ∃ rs, Go.resolve cyEnv 3 0 "" = .ok rs :=
  resolve_total_partial cyEnv 3 0 "" (by decide +kernel) (by decide)

/-- a Loader that returns (nil, nil): an error, not a nil dereference -/
def nilEnv : Go.Env :=
  { st := cyStore, reOk := fun _ => true, loader := some [("http://x/b.json", .nilDoc)] }

example : (Go.resolve nilEnv 2 0 "").verdict = some false := by decide +kernel
example : Go.RTot.docsDisjoint nilEnv 0 = true := by decide +kernel
/-- a Loader that fails, a missing Loader, a dangling child pointer (nil subschema), a malformed `$ref`: errors -/
example : (Go.resolve { nilEnv with loader := some [("http://x/b.json", .fail)] } 2 0 "").verdict = some false := by
  decide +kernel
example : (Go.resolve { nilEnv with loader := none } 1 0 "").verdict = some false := by decide +kernel
example : (Go.resolve { nilEnv with st := #[{ not := some 7 }] } 1 0 "").verdict = some false := by decide +kernel
example : (Go.resolve { nilEnv with st := #[{ ref := "http://[::1" }] } 1 0 "").verdict = some false := by
  decide +kernel

/-! ## equalValue, hashValue -/

theorem equalValue_no_panic (x y : GoVal) (jx jy : Json) (hx : GoVal.denote x = some jx) (hy : GoVal.denote y = some jy) :
    Go.equalValue x y ≠ .panic ∧ Go.equalValue x y ≠ .fuel := by
  rw [C11.equal_iff x y jx jy hx hy]; exact NoPF_ok _

theorem hashEnc_no_panic (x : GoVal) (j : Json) (hx : GoVal.denote x = some j) :
    Go.hashEnc x ≠ .panic ∧ Go.hashEnc x ≠ .fuel := by
  obtain ⟨bs, h⟩ := C12.hashEnc_ok x j hx
  rw [h]; exact NoPF_ok _

/-! ## validate -/

/-- under a well-formed environment, with a stack whose schemas have resolution records, on ANY Go representation of a
    well-formed JSON instance: whenever the Spec decides (with this fuel), the evaluator neither panics nor runs out of fuel.
    Partial: says nothing when the Spec does not decide (unguarded recursion). -/
theorem validate_no_panic_partial (env : VEnv) (hwf : EnvWF env) (hst : StoreWF env.st) (fuel : Nat) (stack : List NodeId)
    (hstack : ∀ x, x ∈ stack → (env.info? x).isSome = true) (s : NodeId) (g : GoVal) (j : Json)
    (hg : GoVal.denote g = some j) (hj : Json.WF j = true)
    (hs : (Spec.evalFuel (specEnvOf env) fuel stack s j).isSome = true) :
    Go.validateFuel env fuel stack g s ≠ .panic ∧ Go.validateFuel env fuel stack g s ≠ .fuel := by
  rw [C08.validate_repr env hwf.hash_respects fuel stack s g j hg hj]
  have hrel := C01.validate_refines_spec env hwf hst fuel stack hstack s j hj
  cases he : Spec.evalFuel (specEnvOf env) fuel stack s j with
  | none => rw [he] at hs; cases hs
  | some r =>
    rw [he] at hrel
    cases r with
    | none => simp only [Rel] at hrel; rw [hrel]; exact NoPF_err
    | some ev => obtain ⟨a, ha, _⟩ := hrel; rw [ha]; exact NoPF_ok _

/-- at the entry point -/
theorem validate_entry_no_panic_partial (env : VEnv) (hwf : EnvWF env) (hst : StoreWF env.st) (supported : List String)
    (fuel : Nat) (root : NodeId) (rn : Node) (hroot : env.st.get? root = some rn) (g : GoVal) (j : Json)
    (hg : GoVal.denote g = some j) (hj : Json.WF j = true)
    (hs : (Spec.valid (specEnvOf env) fuel root j).isSome = true) :
    Go.validate env supported fuel root g ≠ .panic ∧ Go.validate env supported fuel root g ≠ .fuel := by
  unfold Go.validate
  rw [hroot]
  simp only []
  split
  · exact NoPF_err
  · refine NoPF_bind (validate_no_panic_partial env hwf hst fuel [] (fun _ h => nomatch h) root g j hg hj ?_) fun _ _ => NoPF_ok _
    unfold Spec.valid at hs
    cases he : Spec.evalFuel (specEnvOf env) fuel [] root j with
    | none => rw [he] at hs; cases hs
    | some r => rfl

/-- **no panic, no hang on guarded schemas**: for a ranked, closed environment (`Go.ranked`: the rank certificate of
    "recursion only through instance-descending keywords"; `Go.closed`: complete resolution tables), every schema of the
    store, ANY Go representation `g` of a well-formed instance `j`, and fuel `(depth j + 1) * (maxRank env + 1)`, the
    evaluator neither panics nor runs out of fuel.  No hypothesis on the Spec is left (`C01.spec_defined` discharges it). -/
theorem validate_no_panic_ranked (env : VEnv) (hwf : EnvWF env) (hst : StoreWF env.st)
    (hr : ranked env = true) (hc : closed env = true) (fuel : Nat) (stack : List NodeId)
    (hstack : ∀ x, x ∈ stack → (env.info? x).isSome = true) (s : NodeId) (hs : s < env.st.size) (g : GoVal) (j : Json)
    (hg : GoVal.denote g = some j) (hj : Json.WF j = true)
    (hf : (Json.depth j + 1) * (maxRank env + 1) ≤ fuel) :
    Go.validateFuel env fuel stack g s ≠ .panic ∧ Go.validateFuel env fuel stack g s ≠ .fuel :=
  validate_no_panic_partial env hwf hst fuel stack hstack s g j hg hj (C01.spec_defined env hr hc fuel stack s j hs hf)

/-- the same with the cycle search `guarded` as the hypothesis, and the bound that only mentions the size of the store -/
theorem validate_no_panic_of_guarded (env : VEnv) (hwf : EnvWF env) (hst : StoreWF env.st)
    (hg : guarded env = true) (hc : closed env = true) (fuel : Nat) (stack : List NodeId)
    (hstack : ∀ x, x ∈ stack → (env.info? x).isSome = true) (s : NodeId) (hs : s < env.st.size) (g : GoVal) (j : Json)
    (hg' : GoVal.denote g = some j) (hj : Json.WF j = true)
    (hf : (Json.depth j + 1) * (env.st.size + 2) ≤ fuel) :
    Go.validateFuel env fuel stack g s ≠ .panic ∧ Go.validateFuel env fuel stack g s ≠ .fuel :=
  validate_no_panic_partial env hwf hst fuel stack hstack s g j hg' hj
    (C01.spec_defined_size env ((C01.guarded_iff_ranked env hc).1 hg) hc fuel stack s j hs hf)

/-- with the bound that only mentions the size of the store -/
theorem validate_no_panic_ranked_size (env : VEnv) (hwf : EnvWF env) (hst : StoreWF env.st)
    (hr : ranked env = true) (hc : closed env = true) (fuel : Nat) (stack : List NodeId)
    (hstack : ∀ x, x ∈ stack → (env.info? x).isSome = true) (s : NodeId) (hs : s < env.st.size) (g : GoVal) (j : Json)
    (hg : GoVal.denote g = some j) (hj : Json.WF j = true)
    (hf : (Json.depth j + 1) * (env.st.size + 2) ≤ fuel) :
    Go.validateFuel env fuel stack g s ≠ .panic ∧ Go.validateFuel env fuel stack g s ≠ .fuel :=
  validate_no_panic_partial env hwf hst fuel stack hstack s g j hg hj
    (C01.spec_defined_size env hr hc fuel stack s j hs hf)

/-- at the entry point -/
theorem validate_entry_no_panic_ranked (env : VEnv) (hwf : EnvWF env) (hst : StoreWF env.st)
    (hr : ranked env = true) (hc : closed env = true) (supported : List String)
    (fuel : Nat) (root : NodeId) (rn : Node) (hroot : env.st.get? root = some rn) (g : GoVal) (j : Json)
    (hg : GoVal.denote g = some j) (hj : Json.WF j = true)
    (hf : (Json.depth j + 1) * (maxRank env + 1) ≤ fuel) :
    Go.validate env supported fuel root g ≠ .panic ∧ Go.validate env supported fuel root g ≠ .fuel := by
  apply validate_entry_no_panic_partial env hwf hst supported fuel root rn hroot g j hg hj
  obtain ⟨b, hb⟩ := C01.valid_defined env hr hc fuel root j (Array.getElem?_eq_some_iff.1 hroot).1 hf
  rw [hb]
  rfl

/-! ## applyDefaults -/

/-- every schema object has an info record (`EnvWF.info_total`) and the `properties` children exist ⇒ no panic -/
theorem applyDefaults_no_panic (env : VEnv) (hwf : EnvWF env)
    (hprops : ∀ s n, env.st.get? s = some n → ∀ p c, (p, c) ∈ n.properties.getD [] → (env.st.get? c).isSome = true)
    (fuel : Nat) (id : NodeId) (inst : Json) (hid : (env.st.get? id).isSome = true) :
    Go.applyDefaultsFuel env fuel id inst ≠ .panic :=
  applyDefaultsFuel_NoP env hwf.info_total hprops fuel id inst hid

/-- and when `properties` edges decrease some rank (a tree: its height), fuel above the rank of the root suffices,
    whatever the instance and the defaults -/
theorem applyDefaults_no_fuel (env : VEnv) (rank : NodeId → Nat)
    (hrank : ∀ s n, env.st.get? s = some n → ∀ p c, (p, c) ∈ n.properties.getD [] → rank c < rank s)
    (fuel : Nat) (id : NodeId) (inst : Json) (h : rank id < fuel) :
    Go.applyDefaultsFuel env fuel id inst ≠ .fuel :=
  applyDefaultsFuel_NoFuel env rank hrank fuel id inst h

/-! ## forType -/

/-- the cycle check: one step of forType on (pointers to) a named type — or a back reference `.ref name` to one — whose name
    is already in `seen` returns an error; it makes no recursive call (the result does not depend on `rec`) -/
theorem forType_cycle_detected (opts : IOpts) (rec : IRec) (t0 : GoType) (seen : List String) (st : Store) (nm : String) :
    typeName (stripPtrs t0).1 = some nm → seen.contains nm = true → inferStep opts rec t0 seen st = .err :=
  inferStep_cycle opts rec t0 seen st nm

theorem forType_cycle_detected_ref (opts : IOpts) (rec : IRec) (name : String) (seen : List String) (st : Store) :
    seen.contains name = true → inferStep opts rec (.ref name) seen st = .err :=
  inferStep_cycle opts rec (.ref name) seen st name rfl

theorem forType_cycle_detected_named (opts : IOpts) (rec : IRec) (name : String) (u : GoType) (seen : List String) (st : Store) :
    seen.contains name = true → inferStep opts rec (.named name u) seen st = .err :=
  inferStep_cycle opts rec (.named name u) seen st name rfl

/-- (stretch) fuel: a type whose nesting depth (`depth`: slices, arrays, maps, struct fields count; pointers and the step
    named → underlying do not) is at most the fuel never runs out of fuel, provided cloning the type-table entries does not
    (`hs`; vacuous for an empty table) -/
theorem forType_no_fuel (opts : IOpts)
    (hs : ∀ nm sid st, Json.lookup nm opts.schemas = some sid → clone st sid ≠ .fuel)
    (fuel : Nat) (t : GoType) (st : Store) (h : depth t ≤ fuel) : Go.forType opts fuel t st ≠ .fuel :=
  inferFuel_NoFuel opts hs fuel t [] st h

theorem forType_no_fuel_empty_table (opts : IOpts) (hs : opts.schemas = [])
    (fuel : Nat) (t : GoType) (st : Store) (h : depth t ≤ fuel) : Go.forType opts fuel t st ≠ .fuel :=
  forType_no_fuel opts (fun nm sid st hl => by rw [hs] at hl; cases hl) fuel t st h

/-! ## JSON Pointer -/

/-- dereferenceJSONPointer has no panic / fuel outcome -/
theorem pointer_no_panic (st : Store) (strict nilIsError : Bool) (root : NodeId) (sptr : String) :
    Pointer.dereference st strict nilIsError root sptr ≠ .panic ∧ Pointer.dereference st strict nilIsError root sptr ≠ .fuel :=
  dereference_NoPF st strict nilIsError root sptr

/-! ## the explicit panic sites of the source -/

/-- a new panic(...) / assert(...) in the package breaks this obligation -/
theorem panic_sites_fact : Generated.panicSites = expectedPanicSites := by decide +kernel

/-! ## examples -/

example : (Go.unmarshal (.obj [("type", .num 3)]) #[]).verdict = some false := by decide +kernel
example : (Go.unmarshal (.obj [("items", .arr [.bool true, .null]), ("x", .null)]) #[]).isOk = true := by decide +kernel
/-- a cyclic store: node 0 is its own `not` child; checkStructure stops with an error after 2 steps -/
example : (checkStructure #[{ not := some 0 }] 2 [(0, "")] []).verdict = some false := by decide +kernel
example : (checkStructure #[{ not := some 1 }, {}] 3 [(0, "")] []).isOk = true := by decide +kernel
/-- `type T []*T`: the back reference is refused (an error, not unbounded recursion), with any fuel ≥ 2 -/
example : (Go.forType {} 2 (.named "T" (.slice (.ptr (.ref "T")))) #[]).verdict = some false := by decide +kernel
example : (Go.forType {} 50 (.named "T" (.slice (.ptr (.ref "T")))) #[]).verdict = some false := by decide +kernel
example : depth (.named "P" (.map "String" (.slice (.ptr (.basic "Int"))))) = 3 := by decide +kernel
example : (Go.forType {} 3 (.named "P" (.map "String" (.slice (.ptr (.basic "Int"))))) #[]).isOk = true := by
  decide +kernel
example : (Go.forType {} 2 (.named "P" (.map "String" (.slice (.ptr (.basic "Int"))))) #[]).verdict = none := by
  decide +kernel
/-- hypotheses of `validate_no_panic_partial` / `applyDefaults_no_panic` on the environment of C01 -/
example : Go.validateFuel C01.exEnv 3 [] (GoVal.ofJson C01.exGood) 0 ≠ .panic ∧
    Go.validateFuel C01.exEnv 3 [] (GoVal.ofJson C01.exGood) 0 ≠ .fuel :=
  validate_no_panic_partial C01.exEnv C01.exEnv_wf C01.exEnv_store 3 [] (fun _ h => nomatch h) 0 _ C01.exGood
    (denote_ofJson _) (by decide) (by decide)

/-- `validate_no_panic_ranked` on the recursive list schema of C01: nothing about the Spec is assumed -/
example : Go.validateFuel C01.listEnv 8 [] (GoVal.ofJson C01.listBad) 0 ≠ .panic ∧
    Go.validateFuel C01.listEnv 8 [] (GoVal.ofJson C01.listBad) 0 ≠ .fuel :=
  validate_no_panic_ranked C01.listEnv C01.listEnv_wf C01.listEnv_store (by decide) (by decide) 8 []
    (fun _ h => nomatch h) 0 (by decide) _ C01.listBad (denote_ofJson _) (by decide) (by decide)

end JSV.C10
