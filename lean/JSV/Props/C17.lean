/-
  C17 — every subschema is addressable by its JSON Pointer (json_pointer.go).
  Property theorems only; helper lemmas: JSV/Proofs/PtrEscape.lean, PtrIndex.lean, PtrWalk.lean,
  PtrCover.lean, PtrPaths.lean, UriEscape.lean.
-/
import JSV.Proofs.UriEscape
import JSV.Proofs.PtrWalk
import JSV.Proofs.PtrCover
import JSV.Proofs.PtrPaths
namespace JSV.C17
open JSV Pointer

/-! ## The replacer tables are the ones of the Go source (regenerated facts) -/

theorem escapePairs_table : escapePairs = [(['~'],['~','0']), (['/'],['~','1'])] := by decide
theorem unescapePairs_table : unescapePairs = [(['~','0'],['~']), (['~','1'],['/'])] := by decide

/-! ## escape / unescape -/

/-- the escaper acts character by character: `~` ↦ `~0`, `/` ↦ `~1` -/
theorem escape_chars (s : List Char) :
    replaceAll escapePairs s =
      s.flatMap (fun c => if c = '~' then ['~','0'] else if c = '/' then ['~','1'] else [c]) :=
  replaceAll_escape s

theorem unescape_escape (s : String) : unescapeSegment (escapeSegment s) = s :=
  unescapeSegment_escapeSegment s

theorem escape_no_slash (s : String) : '/' ∉ (escapeSegment s).toList := by
  rw [toList_escapeSegment]
  exact slash_not_mem_escChars _

/-- parseJSONPointer inverts the rendering of any list of reference tokens (including tokens that
    contain `~` and `/`, and the `contains '~'` shortcut of the parser) -/
theorem parse_render (segs : List String) : Pointer.parse (Pointer.render segs) = .ok segs :=
  Pointer.parse_render segs

/-! ## pointers inside URI fragments

A `$ref` carries a JSON Pointer in the fragment of a URI reference: `#` followed by the percent-encoding of the
pointer (net/url's escaping in fragment mode); url.Parse decodes it into the `Fragment` field, which is what
dereferenceJSONPointer receives. -/

/-- net/url: unescaping the escaping of any string gives the string back, in fragment, path and host mode
    (every Lean `String` is valid Unicode: its UTF-8 bytes decode to itself) -/
theorem pct_roundtrip (s : String) (m : Uri.Mode) : Uri.unescape (Uri.escape s m).toList = some s :=
  Uri.unescape_escape s m

theorem pct_roundtrip_fragment (s : String) : Uri.unescape (Uri.escape s .fragment).toList = some s :=
  pct_roundtrip s .fragment

theorem pct_roundtrip_path (s : String) : Uri.unescape (Uri.escape s .path).toList = some s :=
  pct_roundtrip s .path

/-- (*URL).setFragment: a fragment written as the escaping of `s` is read back as `s`, and no raw form is kept
    (the escaping is the default one) -/
theorem setFragment_escape (u : Uri.Url) (s : String) :
    Uri.setFragment u (Uri.escape s .fragment).toList = some { u with fragment := s, rawFragment := "" } :=
  Uri.setFragment_escape u s

/-- the same for (*URL).setPath -/
theorem setPath_escape (u : Uri.Url) (s : String) :
    Uri.setPath u (Uri.escape s .path).toList = some { u with path := s, rawPath := "" } :=
  Uri.setPath_escape u s

/-- url.Parse of a fragment-only reference -/
theorem parse_hash_escape (p : String) :
    Uri.parse ("#" ++ Uri.escape p .fragment) = .ok { fragment := p } :=
  Uri.parse_hash_escape p

/-- the pointer of any list of reference tokens, percent-encoded into a fragment-only reference, is parsed by
    url.Parse into a URL whose `Fragment` is the pointer, which parseJSONPointer splits into the tokens again -/
theorem pointer_fragment_roundtrip (segs : List String) :
    ∃ u, Uri.parse ("#" ++ Uri.escape (Pointer.render segs) .fragment) = .ok u ∧
      u.fragment = Pointer.render segs ∧ Pointer.parse u.fragment = .ok segs :=
  ⟨_, parse_hash_escape _, rfl, parse_render segs⟩

/-- … and (*URL).String writes that reference back -/
theorem pointer_fragment_toString (segs : List String) (h : segs ≠ []) :
    ∃ u, Uri.parse ("#" ++ Uri.escape (Pointer.render segs) .fragment) = .ok u ∧
      Uri.toString u = "#" ++ Uri.escape (Pointer.render segs) .fragment := by
  refine ⟨_, parse_hash_escape _, ?_⟩
  have hne : Pointer.render segs ≠ "" := by
    intro e
    have := parse_render segs
    rw [e] at this
    have h0 : Pointer.parse "" = .ok [] := by decide
    rw [h0] at this
    simp only [Res.ok.injEq] at this
    exact h this.symm
  have hb : ((Pointer.render segs) != "") = true := by simpa using hne
  unfold Uri.toString Uri.escapedFragment Uri.escapedPath
  simp only [hb, if_true]
  rfl

/-! ## the walk -/

theorem walk_append (st : Store) (strict : Bool) (cur : Cursor) (a b : List String) :
    walk st strict cur (a ++ b) = (walk st strict cur a).bind fun c => walk st strict c b :=
  Pointer.walk_append st strict cur a b

/-- one step reaches the designated child of a `*Schema` field (no side condition: when the single
    form of `items` is set, `items` means that schema) -/
theorem step_one (st : Store) (strict : Bool) (id : NodeId) (n : Node) (j : String) (c : NodeId)
    (hn : st.get? id = some n) (hf : ChildField.one j (some c) ∈ n.childFields) :
    step st strict (.node id) j = .ok (.node c) :=
  step_node st strict id n j _ hn (lookupField_one n j c hf)

/-- the canonical decimal numeral of an index in range selects that index (both index rules) -/
theorem arrayIndex_toString (strict : Bool) (i len : Nat) (h : i < len) :
    arrayIndex strict (toString i) len = some i :=
  Pointer.arrayIndex_toString strict i len h

/-- two steps reach element `i` of a `[]*Schema` field.  Side condition for the union field
    `items`: the array form is consulted only when the single form is nil. -/
theorem step_many (st : Store) (strict : Bool) (id : NodeId) (n : Node) (j : String)
    (cs : List NodeId) (i : Nat)
    (hn : st.get? id = some n) (hf : ChildField.many j (some cs) ∈ n.childFields)
    (hitems : j = "items" → n.items = none) (hi : i < cs.length) :
    walk st strict (.node id) [j, toString i] = .ok (.node cs[i]) := by
  rw [walk_cons, step_node st strict id n j _ hn (lookupField_many n j cs hf hitems), Res.bind_ok,
    walk_cons, step_nodes st strict cs i hi, Res.bind_ok, walk_nil]

/-- two steps reach the value under key `k` of a `map[string]*Schema` field (any key string) -/
theorem step_keyed (st : Store) (strict : Bool) (id : NodeId) (n : Node) (j : String)
    (kvs : List (String × NodeId)) (k : String) (c : NodeId)
    (hn : st.get? id = some n) (hf : ChildField.keyed j (some kvs) ∈ n.childFields)
    (hk : Json.lookup k kvs = some c) :
    walk st strict (.node id) [j, k] = .ok (.node c) := by
  rw [walk_cons, step_node st strict id n j _ hn (lookupField_keyed n j kvs hf), Res.bind_ok,
    walk_cons, step_nodeMap st strict kvs k c hk, Res.bind_ok, walk_nil]

/-- Composition: a chain of schema-bearing fields (`Pointer.Path`: constructors `one`, `many`,
    `keyed` with exactly the hypotheses of the three step theorems) from `root` to an existing
    schema `target` is located by the rendered pointer. -/
theorem deref_locates (st : Store) (strict : Bool) (root target : NodeId) (path : List String)
    (hp : Path st root path target) (hex : (st.get? target).isSome = true) :
    dereference st strict true root (render path) = .ok target := by
  rw [dereference_of_walk st strict true root _ path _ (Pointer.parse_render path) (walk_path st strict hp)]
  cases hg : st.get? target <;> simp_all [finish]

/-- what `dereference` returns (repaired behaviour) is a schema that exists -/
theorem deref_ok_exists (st : Store) (strict : Bool) (root t : NodeId) (ptr : String)
    (h : dereference st strict true root ptr = .ok t) : (st.get? t).isSome = true :=
  dereference_ok_exists st strict root t ptr h

/-- a pointer whose walk ends at a nil `*Schema` is an error (`nilIsError = true`: the repaired
    behaviour) … -/
theorem deref_nil_is_error (st : Store) (strict : Bool) (root id : NodeId) (ptr : String)
    (segs : List String) (hp : Pointer.parse ptr = .ok segs)
    (hw : walk st strict (.node root) segs = .ok (.node id)) (hnil : st.get? id = none) :
    dereference st strict true root ptr = .err := by
  rw [dereference_of_walk st strict true root ptr segs _ hp hw]
  simp [finish, hnil]

/-- … whereas the code before the repair returned the nil pointer as a success -/
theorem deref_nil_unrepaired (st : Store) (strict : Bool) (root id : NodeId) (ptr : String)
    (segs : List String) (hp : Pointer.parse ptr = .ok segs)
    (hw : walk st strict (.node root) segs = .ok (.node id)) :
    dereference st strict false root ptr = .ok id := by
  rw [dereference_of_walk st strict false root ptr segs _ hp hw]
  simp [finish]

/-- in particular: the pointer `/<keyword>` of an absent single-schema keyword is an error.
    (`1000000000` is the model's nil pointer: it must not be a node of the store.) -/
theorem deref_absent_keyword_is_error (st : Store) (strict : Bool) (id : NodeId) (n : Node) (j : String)
    (hn : st.get? id = some n) (hf : ChildField.one j none ∈ n.childFields)
    (hnil : st.get? 1000000000 = none) :
    dereference st strict true id (render [j]) = .err := by
  by_cases hj : j = "items"
  · subst hj
    have hitems : n.items = none := items_none_of_mem n hf
    rw [dereference_of_walk st strict true id _ ["items"] (.nodes (n.itemsArray.getD []))
      (Pointer.parse_render _)
      (by rw [walk_cons, step_node st strict id n _ _ hn (lookupField_items_nil n hitems)]; rfl)]
    rfl
  · exact deref_nil_is_error st strict id 1000000000 _ [j] (Pointer.parse_render _)
      (by rw [walk_cons, step_node st strict id n _ _ hn (lookupField_one_nil n j hf hj)]; rfl) hnil

/-- strict (RFC 6901, repaired) index rule: the only token that selects element `i` is its
    canonical decimal numeral — no sign, no leading zero, not "-" -/
theorem arrayIndex_strict_digits (seg : String) (len i : Nat)
    (h : arrayIndex true seg len = some i) : seg = toString i ∧ i < len :=
  Pointer.arrayIndex_strict_digits seg len i h

/-- a walk that reaches a non-schema field never succeeds, whatever follows -/
theorem deref_dead (st : Store) (strict nie : Bool) (root : NodeId) (ptr : String) (a b : List String)
    (hp : Pointer.parse ptr = .ok (a ++ b)) (hw : walk st strict (.node root) a = .ok .dead) :
    dereference st strict nie root ptr = .err := by
  rw [dereference_eq, hp, Res.bind_ok, Pointer.walk_append, hw, Res.bind_ok]
  rcases walk_dead st strict b with h | h <;> rw [h] <;> rfl

/-- `type` is such a field -/
theorem step_type_dead (st : Store) (strict : Bool) (id : NodeId) (n : Node)
    (hn : st.get? id = some n) : step st strict (.node id) "type" = .ok .dead :=
  step_node st strict id n "type" .dead hn (by simp [lookupField])

/-! ## every registered subschema is addressable by its recorded path -/

/-- checkStructure (resolve.go) records a path string for every schema reachable from the root.
    That string is "root" for the root itself and otherwise a JSON Pointer that
    dereferenceJSONPointer resolves, from the root, to exactly that schema.
    Hypotheses on the visited schemas: basicChecks passed (only its `items` / `itemsArray` clause is
    used) and the association lists standing for Go maps have distinct keys. -/
theorem registered_schemas_addressable (st : Store) (fuel : Nat) (root : NodeId)
    (res : List (NodeId × Go.Info))
    (h : Go.checkStructure st fuel [(root, "")] [] = .ok res)
    (hbasic : ∀ e ∈ res, ∀ n, st.get? e.1 = some n → Go.basicChecksOk n = true)
    (hmaps : ∀ e ∈ res, ∀ n, st.get? e.1 = some n →
      ∀ j kvs, ChildField.keyed j (some kvs) ∈ n.childFields → (kvs.map (·.1)).Nodup) :
    ∀ e ∈ res, (e.1 = root ∧ e.2.path = "root") ∨
      dereference st true true root e.2.path = .ok e.1 :=
  checkStructure_addressable st fuel root res h
    (fun e he n hn => ⟨basicChecksOk_items n (hbasic e he n hn), hmaps e he n hn⟩)

/-- the path strings of checkStructure are renderings of reference-token lists: one level -/
theorem childEntries_are_pointers (st : Store) (a : NodeId) (n : Node) (p : List String)
    (hn : st.get? a = some n) (hitems : n.items = none ∨ n.itemsArray = none)
    (hmaps : ∀ j kvs, ChildField.keyed j (some kvs) ∈ n.childFields → (kvs.map (·.1)).Nodup)
    (c : NodeId) (q : String) (h : (c, q) ∈ Go.childEntries n (render p)) :
    ∃ p', Path st a p' c ∧ q = render (p ++ p') :=
  childEntries_spec st a n p hn ⟨hitems, hmaps⟩ c q h

/-! ## coverage of the Go struct (regenerated field table) -/

/-- every field of the Go struct whose type mentions `Schema` has one of the three shapes
    `*Schema`, `[]*Schema`, `map[string]*Schema`, and is a schema-bearing field of the model under its
    JSON name (`items` / `dependencies` for the `json:"-"` union fields), with the same shape.
    A new `map[string][]*Schema` field in schema.go would break this theorem. -/
theorem childFields_cover_generated :
    ∀ f ∈ Generated.schemaFields, mentionsSchema f.2.1 = true →
      (shapeOfGoType f.2.1).isSome = true ∧
      (shapeOfGoType f.2.1, pointerName f) ∈ modelChildShapes := by
  decide

/-- conversely the model has no schema-bearing field that the Go struct lacks -/
theorem childFields_only_generated : ∀ e ∈ modelChildShapes, e ∈ generatedChildShapes := by
  decide

/-! ## The hypotheses are satisfiable on non-trivial data

Store for
`{"properties": {"a/b": {"items": [{}, {"not": {}}]}, "m~n": {}}, "type": "object"}`. -/

def exStore : Store := #[
  { properties := some [("a/b", 1), ("m~n", 2)], type := "object" },   -- 0
  { itemsArray := some [3, 4] },                                         -- 1
  {},                                                                    -- 2
  {},                                                                    -- 3
  { not := some 5 },                                                     -- 4
  {} ]                                                                   -- 5

example : Path exStore 0 ["properties", "a/b", "items", toString 1, "not"] 5 :=
  .keyed (n := exStore[0]) (kvs := [("a/b", 1), ("m~n", 2)]) (c := 1) rfl (by simp [Node.childFields, exStore]) rfl
    (.many (n := exStore[1]) (cs := [3, 4]) (i := 1) rfl (by simp [Node.childFields, exStore]) (fun _ => rfl) (by decide)
      (.one (n := exStore[4]) (c := 5) rfl (by simp [Node.childFields, exStore]) (.nil 5)))

example : render ["properties", "a/b", "items", "1", "not"] = "/properties/a~1b/items/1/not" := by decide
example : render ["properties", "m~n"] = "/properties/m~0n" := by decide
example : dereference exStore true true 0 "/properties/a~1b/items/1/not" = .ok 5 := by decide
example : dereference exStore true true 0 "/properties/m~0n" = .ok 2 := by decide
/-- absent keyword: error after the repair, nil "success" before -/
example : dereference exStore true true 0 "/properties/m~0n/not" = .err := by decide
example : dereference exStore true false 0 "/properties/m~0n/not" = .ok 1000000000 := by decide
/-- non-schema fields -/
example : dereference exStore true true 0 "/type" = .err := by decide
example : dereference exStore true true 0 "/type/0" = .err := by decide
/-- checkStructure on the example: five paths, each dereferences to its schema -/
example : (Go.checkStructure exStore 8 [(0, "")] []).bind (fun res => .ok (res.map fun e => (e.1, e.2.path))) =
    .ok [(0, "root"), (1, "/properties/a~1b"), (3, "/properties/a~1b/items/0"),
         (4, "/properties/a~1b/items/1"), (5, "/properties/a~1b/items/1/not"), (2, "/properties/m~0n")] := by
  decide +kernel
/-- the `items` side condition is needed: with both forms set (basicChecks rejects this schema) the path
    recorded for the array element does not lead to it -/
example :
    let st : Store := #[{ items := some 1, itemsArray := some [2] }, {}, {}]
    (Go.checkStructure st 5 [(0, "")] []).bind (fun res => .ok (res.map fun e => (e.1, e.2.path))) =
        .ok [(0, "root"), (1, "/items"), (2, "/items/0")] ∧
      dereference st true true 0 "/items/0" = .err ∧ Go.basicChecksOk st[0] = false := by
  decide +kernel
/-- pointers in fragments: `~`, `/` inside a token, characters net/url escapes, non-ASCII -/
example : Uri.escape (render ["$defs", "a b", "ü/%"]) .fragment = "/$defs/a%20b/%C3%BC~1%25" := by decide +kernel
example : (Uri.parse "#/$defs/a%20b/%C3%BC~1%25").bind (fun u => Pointer.parse u.fragment) = .ok ["$defs", "a b", "ü/%"] := by
  decide +kernel
/-- index rules: the unrepaired rule accepted a sign -/
example : arrayIndex true "+1" 2 = none := by decide
example : arrayIndex false "+1" 2 = some 1 := by decide
example : arrayIndex true "01" 2 = none := by decide
example : arrayIndex true "-" 2 = none := by decide
example : arrayIndex true "1" 2 = some 1 := by decide

end JSV.C17
