/-
  C12 — the hash law for hashValue and the correctness of the uniqueItems block.
  Property theorems only (helper lemmas: JSV/Proofs/Equal.lean).
-/
import JSV.Proofs.Equal
namespace JSV.C12
open JSV GoVal

/-- hash law: equal values write the same byte stream (so any seeded hash of the stream agrees) -/
theorem hash_law (x y : GoVal) (jx jy : Json)
    (hx : GoVal.denote x = some jx) (hy : GoVal.denote y = some jy)
    (wx : Json.WF jx = true) (wy : Json.WF jy = true) :
    Json.eqv jx jy = true → Go.hashEnc x = Go.hashEnc y := by
  intro h
  rw [Go.hashEnc_eq x jx hx, Go.hashEnc_eq y jy hy, Json.enc_eq_of_eqv jx jy wx wy h]

/-- hashEnc never panics on JSON values -/
theorem hashEnc_ok (x : GoVal) (j : Json) (hx : GoVal.denote x = some j) :
    ∃ bs, Go.hashEnc x = .ok bs :=
  ⟨Json.enc j, Go.hashEnc_eq x j hx⟩

/-- uniqueItems = pairwise distinctness, for EVERY hash function that respects equality.
    (`hw`: the items are well-formed JSON values — needed because the Go loop evaluates
    `equalValue x_j x_i` for `i < j` while `Spec.distinct` evaluates `eqv x_i x_j`, and `eqv` is
    symmetric only on objects without duplicate keys.) -/
theorem unique_correct (hash : GoVal → UInt64) (items : List GoVal) (js : List Json)
    (hd : GoVal.denoteList items = some js) (hw : Json.wfList js = true)
    (hh : ∀ x y, x ∈ items → y ∈ items → Go.equalValue x y = .ok true → hash x = hash y) :
    Go.uniqueItems hash items = if Spec.distinct js then .ok () else .err :=
  Go.uniqueItems_eq hash items js hd hw hh

/-- in particular for hash = H ∘ hashEnc for an arbitrary H (every maphash seed) -/
theorem unique_correct_seeded (H : List UInt8 → UInt64) (items : List GoVal) (js : List Json)
    (hd : GoVal.denoteList items = some js) (hw : Json.wfList js = true) :
    Go.uniqueItems (fun v => match Go.hashEnc v with | .ok bs => H bs | _ => 0) items
      = if Spec.distinct js then .ok () else .err := by
  apply unique_correct _ items js hd hw
  intro x y hx hy he
  obtain ⟨jx, hjx, dx⟩ := GoVal.denote_of_mem_list hd x hx
  obtain ⟨jy, hjy, dy⟩ := GoVal.denote_of_mem_list hd y hy
  have wx := Json.WF_of_mem_list hw jx hjx
  have wy := Json.WF_of_mem_list hw jy hjy
  rw [Go.equalValue_eq x y jx jy dx dy] at he
  have hl := hash_law x y jx jy dx dy wx wy (Res.ok.inj he)
  simp only [hl]

/-! ## The hypotheses are satisfiable on non-trivial values -/

def exX : GoVal :=
  .map [("a", .iface (.list [.int 1, .ptr (.float (mkRat 3 2)), .invalid])), ("b", .str "x"),
        ("c", .jnum (some 2) "2.0")]
def exY : GoVal :=
  .ptr (.map [("c", .uint 2), ("b", .iface (.str "x")),
              ("a", .list [.float 1, .jnum (some (mkRat 6 4)) "1.50", .ptr .invalid])])
def exW : GoVal := .list [.str "1", .int 1, .bool true]
def exJX : Json := .obj [("a", .arr [.num 1, .num (mkRat 3 2), .null]), ("b", .str "x"), ("c", .num 2)]
def exJY : Json := .obj [("c", .num 2), ("b", .str "x"), ("a", .arr [.num 1, .num (mkRat 6 4), .null])]
def exJW : Json := .arr [.str "1", .num 1, .bool true]

example : GoVal.denote exX = some exJX := by rfl
example : GoVal.denote exY = some exJY := by rfl
example : Json.WF exJX = true := by decide
example : Json.WF exJY = true := by decide
example : Json.eqv exJX exJY = true := by decide
/-- `hash_law` applied: two representations with different key order, numeric kinds and wrapping -/
example : Go.hashEnc exX = Go.hashEnc exY :=
  hash_law exX exY exJX exJY rfl rfl (by decide) (by decide) (by decide)

example : GoVal.denoteList [exX, exW, exY] = some [exJX, exJW, exJY] := by rfl
example : Json.wfList [exJX, exJW, exJY] = true := by decide
example : Spec.distinct [exJX, exJW, exJY] = false := by decide
example : Spec.distinct [exJX, exJW] = true := by decide
/-- `unique_correct_seeded` applied, duplicate case: for every seed the loop reports the duplicate -/
example (H : List UInt8 → UInt64) :
    Go.uniqueItems (fun v => match Go.hashEnc v with | .ok bs => H bs | _ => 0) [exX, exW, exY] = .err :=
  unique_correct_seeded H [exX, exW, exY] [exJX, exJW, exJY] rfl (by decide)
/-- `unique_correct_seeded` applied, distinct case -/
example (H : List UInt8 → UInt64) :
    Go.uniqueItems (fun v => match Go.hashEnc v with | .ok bs => H bs | _ => 0) [exX, exW] = .ok () :=
  unique_correct_seeded H [exX, exW] [exJX, exJW] rfl (by decide)
/-- the hypothesis `hh` of `unique_correct` holds e.g. for a constant hash (all items in one bucket) -/
example : Go.uniqueItems (fun _ => 7) [exX, exW, exY] = .err :=
  unique_correct (fun _ => 7) [exX, exW, exY] [exJX, exJW, exJY] rfl (by decide) (fun _ _ _ _ _ => rfl)

/-- why `hw` is assumed in `unique_correct`: on (unrealisable) objects with a duplicate key `eqv` is not
    symmetric, the specification compares `eqv x₀ x₁`, the loop `equalValue x₁ x₀`. -/
example :
    GoVal.denoteList [.map [("a", .int 1), ("a", .int 1)], .map [("a", .int 1), ("b", .int 2)]]
      = some [.obj [("a", .num 1), ("a", .num 1)], .obj [("a", .num 1), ("b", .num 2)]] ∧
    Spec.distinct [.obj [("a", .num 1), ("a", .num 1)], .obj [("a", .num 1), ("b", .num 2)]] = false ∧
    Go.uniqueItems (fun _ => 0)
      [.map [("a", .int 1), ("a", .int 1)], .map [("a", .int 1), ("b", .int 2)]] = .ok () :=
  ⟨by rfl, by decide, by decide⟩

end JSV.C12
