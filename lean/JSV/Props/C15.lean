/-
  C15 — ApplyDefaults only extends the instance; validateDefaults.

  Definitions used (JSV/Proofs/Dfl.lean, Dfl2.lean):
    `Extends a b`  the Spec relation "b extends a": scalars and arrays equal; every member of an object of `a` is found in `b`
                   under the same key with an extended value (structurally recursive Prop on Json)
    `ExtP a b`     the positional, stronger form (meaningful without well-formedness): members stay in place, in order, with
                   extended values; new members are appended
    `PropsNodup st`  the property names of every schema object are pairwise distinct (keys of a Go map)
-/
import JSV.Proofs.Dfl
import JSV.Proofs.Dfl2
import JSV.Proofs.DflVal
import JSV.Props.C01
namespace JSV.C15
open JSV Go Json Refine

/-! ## present values untouched, objects only gain keys -/

/-- positional form, no hypothesis on the instance: the members of every object keep their place, order and key and
    are extended themselves; everything else is unchanged; new members are appended -/
theorem applyDefaults_extends_pos (env : VEnv) (fuel : Nat) (id : NodeId) (inst out : Json) :
    Go.applyDefaultsFuel env fuel id inst = .ok out → ExtP inst out :=
  applyDefaultsFuel_ext env fuel id inst out

/-- **extends**: present values untouched, objects only gain keys -/
theorem applyDefaults_extends (env : VEnv) (fuel : Nat) (id : NodeId) (inst out : Json) :
    Go.applyDefaultsFuel env fuel id inst = .ok out → Json.WF inst = true → Extends inst out :=
  fun h hw => Extends_of_ExtP inst out hw (applyDefaultsFuel_ext env fuel id inst out h)

/-- at the entry point (*Resolved).ApplyDefaults -/
theorem applyDefaults_extends_root (env : VEnv) (root : NodeId) (inst out : Json) :
    Go.applyDefaults env root inst = .ok out → Json.WF inst = true → Extends inst out :=
  applyDefaults_extends env _ root inst out

/-- the key order of an object is kept; new keys come last -/
theorem applyDefaults_keys (env : VEnv) (fuel : Nat) (id : NodeId) (kvs : List (String × Json)) (out : Json) :
    Go.applyDefaultsFuel env fuel id (.obj kvs) = .ok out →
    ∃ kvs' added, out = .obj kvs' ∧ keys kvs' = keys kvs ++ added := by
  intro h
  obtain ⟨kvs', rfl, h'⟩ := ExtP_obj.1 (applyDefaultsFuel_ext env fuel id _ _ h)
  obtain ⟨added, ha⟩ := ExtPObj_keys h'
  exact ⟨kvs', added, rfl, ha⟩

/-- reading the relation: a member present before is present after, under the same key, extended -/
theorem extends_lookup (kx ky : List (String × Json)) (k : String) (v : Json) :
    Extends (.obj kx) (.obj ky) → (k, v) ∈ kx → ∃ v', Json.lookup k ky = some v' ∧ Extends v v' := by
  intro h hm
  obtain ⟨ky', he, h'⟩ := Extends_obj.1 h
  cases he
  exact ExtendsObj_iff.1 h' k v hm

/-- reading the relation: anything that is not an object is unchanged -/
theorem extends_nonobject (a b : Json) (h : a.isObj = false) : Extends a b ↔ b = a := Extends_nonobj h

/-! ## required properties are never filled -/

theorem never_fills_required (env : VEnv) (fuel : Nat) (id : NodeId) (n : Node) (p : String)
    (kvs kvs' : List (String × Json)) :
    env.st.get? id = some n → p ∈ n.required.getD [] → (Json.lookup p kvs).isNone = true →
    Go.applyDefaultsFuel env fuel id (.obj kvs) = .ok (.obj kvs') → (Json.lookup p kvs').isNone = true := by
  intro hn hp hl h
  cases fuel with
  | zero => simp [applyDefaultsFuel] at h
  | succ fuel =>
    simp only [applyDefaultsFuel, applyDefaultsStep, hn] at h
    split at h
    · cases h
    · obtain ⟨kvs'', hloop, h⟩ := bind_eq_ok.1 h
      cases h
      have := defaultsLoop_required env.st _ _ p hp _ _ _ hloop (by simpa using hl)
      simp [this]

/-! ## non-objects are returned unchanged -/

theorem applyDefaults_nonobject (env : VEnv) (fuel : Nat) (id : NodeId) (n : Node) (i : Info) (inst : Json) :
    env.st.get? id = some n → env.info? id = some i → inst.isObj = false →
    Go.applyDefaultsFuel env (fuel + 1) id inst = .ok inst := by
  intro hn hi ho
  simp only [applyDefaultsFuel, applyDefaultsStep, hn, hi]
  cases inst <;> simp_all [isObj]

/-- and whenever the call returns at all on a non-object, it returns the instance -/
theorem applyDefaults_nonobject' (env : VEnv) (fuel : Nat) (id : NodeId) (inst out : Json) :
    inst.isObj = false → Go.applyDefaultsFuel env fuel id inst = .ok out → out = inst :=
  fun ho h => (ExtP_nonobj ho).1 (applyDefaultsFuel_ext env fuel id inst out h)

/-! ## validateDefaults -/

/-- definition level: validateDefaults succeeds iff the root exists with a supported `$schema`, no schema of the tree uses
    `$dynamicRef` — under 2020-12 (`env.draft = .d2020`): under draft-07 it is an unknown keyword and is not refused —
    and every default validates against its own schema -/
theorem validateDefaults_iff (env : VEnv) (supported : List String) (fuel : Nat) (root : NodeId) :
    Go.validateDefaults env supported fuel root = .ok () ↔
      (∃ rn, env.st.get? root = some rn ∧ supported.contains rn.schema = true) ∧
      (∀ id ∈ allNodes env.st (env.st.size + 2) [root], ∀ n, env.st.get? id = some n →
        env.draft = .d2020 → n.dynamicRef = "") ∧
      (∀ id ∈ allNodes env.st (env.st.size + 2) [root], ∀ n d, env.st.get? id = some n → n.default = some d →
        (validateFuel env fuel [] (GoVal.ofJson d) id).isOk = true) := by
  unfold Go.validateDefaults
  cases hr : env.st.get? root with
  | none => simp
  | some rn =>
    simp only [Option.some.injEq, exists_eq_left']
    by_cases hs : supported.contains rn.schema = true
    · simp only [hs, Bool.not_true, Bool.false_eq_true, if_false, true_and]
      rw [validateDefaultsLoop_iff]
      constructor
      · intro h
        refine ⟨fun id hid n hn => ?_, fun id hid n d hn hd => ?_⟩
        · obtain ⟨n', hn', h1, _⟩ := h id hid
          rw [hn] at hn'; cases hn'; exact h1
        · obtain ⟨n', hn', _, h2⟩ := h id hid
          rw [hn] at hn'; cases hn'; exact h2 d hd
      · rintro ⟨h1, h2⟩ id hid
        have hex := allNodes_exist env.st _ _ id hid
        cases hn : env.st.get? id with
        | none => rw [hn] at hex; cases hex
        | some n => exact ⟨n, rfl, h1 id hid n hn, fun d hd => h2 id hid n d hn hd⟩
    · have : supported.contains rn.schema = false := by simpa using hs
      simp only [this, Bool.not_false, if_true]
      constructor
      · intro h; cases h
      · rintro ⟨h, _⟩; cases h

/-- a default validates (evaluator) iff the Spec says it is valid, whenever the Spec decides -/
theorem default_ok_iff_valid (env : VEnv) (hwf : EnvWF env) (hst : StoreWF env.st) (fuel : Nat) (id : NodeId) (d : Json)
    (hd : Json.WF d = true) (b : Bool) (hs : Spec.valid (specEnvOf env) fuel id d = some b) :
    (validateFuel env fuel [] (GoVal.ofJson d) id).isOk = b := by
  have hrel := C01.validate_refines_spec_root env hwf hst fuel id d hd
  unfold Spec.valid at hs
  cases he : Spec.evalFuel (specEnvOf env) fuel [] id d with
  | none => rw [he] at hs; simp at hs
  | some r =>
    rw [he] at hs hrel
    simp only [Option.map_some, Option.some.injEq] at hs
    cases r with
    | none => simp only [Rel] at hrel; rw [hrel]; subst hs; rfl
    | some ev => obtain ⟨a, ha, _⟩ := hrel; rw [ha]; subst hs; rfl

/-- Spec level: under a well-formed environment, when the defaults are well-formed JSON and the Spec decides each of them,
    validateDefaults succeeds iff there is no `$dynamicRef` (2020-12 only; draft-07 ignores the keyword) and every default
    is valid against its schema -/
theorem validateDefaults_spec (env : VEnv) (hwf : EnvWF env) (hst : StoreWF env.st) (supported : List String) (fuel : Nat)
    (root : NodeId) (rn : Node) (hroot : env.st.get? root = some rn) (hsup : supported.contains rn.schema = true)
    (hdec : ∀ id ∈ allNodes env.st (env.st.size + 2) [root], ∀ n d, env.st.get? id = some n → n.default = some d →
      Json.WF d = true ∧ (Spec.valid (specEnvOf env) fuel id d).isSome = true) :
    Go.validateDefaults env supported fuel root = .ok () ↔
      (∀ id ∈ allNodes env.st (env.st.size + 2) [root], ∀ n, env.st.get? id = some n →
        env.draft = .d2020 → n.dynamicRef = "") ∧
      (∀ id ∈ allNodes env.st (env.st.size + 2) [root], ∀ n d, env.st.get? id = some n → n.default = some d →
        Spec.valid (specEnvOf env) fuel id d = some true) := by
  rw [validateDefaults_iff]
  constructor
  · rintro ⟨_, h1, h2⟩
    refine ⟨h1, fun id hid n d hn hd => ?_⟩
    obtain ⟨hw, hs⟩ := hdec id hid n d hn hd
    cases hv : Spec.valid (specEnvOf env) fuel id d with
    | none => rw [hv] at hs; cases hs
    | some b =>
      have := default_ok_iff_valid env hwf hst fuel id d hw b hv
      rw [h2 id hid n d hn hd] at this
      rw [← this]
  · rintro ⟨h1, h2⟩
    refine ⟨⟨rn, hroot, hsup⟩, h1, fun id hid n d hn hd => ?_⟩
    obtain ⟨hw, _⟩ := hdec id hid n d hn hd
    exact default_ok_iff_valid env hwf hst fuel id d hw true (h2 id hid n d hn hd)

/-! ## hasDefaults (the repaired predicate, D12: defaults on required properties do not count) -/

/-- the predicate unfolds to: a default here, or a NON-REQUIRED property whose schema has defaults -/
theorem hasDefaults_unfold (st : Store) (id : NodeId) :
    hasDefaults st id = true →
    ∃ n, st.get? id = some n ∧ (n.default.isSome = true ∨
      ∃ p c, (p, c) ∈ n.properties.getD [] ∧ (n.required.getD []).contains p = false ∧ hasDefaults st c = true) :=
  hasDefaults_cases st id

/-- **sound**: when `hasDefaults sub` holds and `sub` has no default of its own (the situation in which applyDefaults
    creates `{}` for a missing property and recurses), the recursion returns a NON-EMPTY object: no empty object is ever
    materialised -/
theorem hasDefaults_sound (env : VEnv) (fuel : Nat) (sub : NodeId) (sn : Node) (out : Json) :
    hasDefaults env.st sub = true → env.st.get? sub = some sn → sn.default = none →
    Go.applyDefaultsFuel env fuel sub (.obj []) = .ok out → ∃ kvs, out = .obj kvs ∧ kvs ≠ [] :=
  fun hh hsn hd h => applyDefaultsFuel_sound env fuel sub sn out hh hsn hd h

/-! ## what is inserted is declared -/

/-- every key that one applyDefaults call adds to an object is a declared, non-required property of the schema, and its
    value is either an extension (`ExtP`) of the default declared by that property's schema, or — when that schema has no
    default but `hasDefaults` — a non-empty object -/
theorem inserted_is_declared (env : VEnv) (fuel : Nat) (id : NodeId) (n : Node) (kvs : List (String × Json)) (out : Json) :
    Go.applyDefaultsFuel env fuel id (.obj kvs) = .ok out → env.st.get? id = some n →
    ∃ kvs', out = .obj kvs' ∧ ∀ k v', Json.lookup k kvs = none → Json.lookup k kvs' = some v' →
      ∃ sub sn, (k, sub) ∈ n.properties.getD [] ∧ (n.required.getD []).contains k = false ∧ env.st.get? sub = some sn ∧
        ((∃ d, sn.default = some d ∧ ExtP d v') ∨
         (sn.default = none ∧ hasDefaults env.st sub = true ∧ ∃ o, v' = .obj o ∧ o ≠ [])) := by
  intro h hn
  cases fuel with
  | zero => simp [applyDefaultsFuel] at h
  | succ fuel =>
    simp only [applyDefaultsFuel, applyDefaultsStep, hn] at h
    split at h
    · cases h
    · obtain ⟨kvs', hloop, h⟩ := bind_eq_ok.1 h
      cases h
      exact ⟨kvs', rfl, defaultsLoop_inserted env.st _ _ (applyDefaultsFuel_ext env fuel)
        (applyDefaultsFuel_sound env fuel) _ _ _ hloop⟩

/-! ## idempotence -/

/-- applying twice = applying once: whenever the first application returns (with any fuel: so in particular for
    tree-shaped / guarded property schemas with enough fuel), the second, with the same fuel, returns its input.
    `PropsNodup`: property names are distinct within each schema object. -/
theorem applyDefaults_idem (env : VEnv) (hst : PropsNodup env.st) (fuel : Nat) (id : NodeId) (inst out : Json) :
    Go.applyDefaultsFuel env fuel id inst = .ok out → Go.applyDefaultsFuel env fuel id out = .ok out :=
  applyDefaultsFuel_idem env hst fuel id inst out

/-- the same at the entry point (whose fuel depends on the size of the instance) -/
theorem applyDefaults_idem_root (env : VEnv) (hst : PropsNodup env.st) (root : NodeId) (inst out : Json) :
    Go.applyDefaults env root inst = .ok out → Go.applyDefaults env root out = .ok out := by
  intro h
  unfold Go.applyDefaults at h ⊢
  have hsz := size_le_of_ExtP _ _ (applyDefaultsFuel_ext env _ root inst out h)
  exact applyDefaultsFuel_mono_le env _ _ (by omega) root out out (applyDefaultsFuel_idem env hst _ root inst out h)

/-- more fuel never changes a returned result -/
theorem applyDefaults_fuel_stable (env : VEnv) (f f' : Nat) (hle : f ≤ f') (id : NodeId) (inst out : Json) :
    Go.applyDefaultsFuel env f id inst = .ok out → Go.applyDefaultsFuel env f' id inst = .ok out :=
  applyDefaultsFuel_mono_le env f f' hle id inst out

/-! ## the hypotheses are satisfiable: a concrete schema

`{"properties":{"a":{"default":1,"type":"integer"},"b":{"properties":{"c":{"default":"x"}}},"r":{"default":5},
                "e":{"properties":{"q":{"default":0}},"required":["q"]}},"required":["r"]}` -/

def exStore : Store := #[
  { properties := some [("a", 1), ("b", 2), ("r", 4), ("e", 5)], required := some ["r"] },
  { default := some (.num 1), type := "integer" },
  { properties := some [("c", 3)] },
  { default := some (.str "x") },
  { default := some (.num 5) },
  { properties := some [("q", 6)], required := some ["q"] },
  { default := some (.num 0) } ]

def exInfos : List (NodeId × Info) :=
  [(0, { path := "root", base := some 0 }), (1, { path := "/properties/a", base := some 0 }),
   (2, { path := "/properties/b", base := some 0 }), (3, { path := "/properties/b/properties/c", base := some 0 }),
   (4, { path := "/properties/r", base := some 0 }), (5, { path := "/properties/e", base := some 0 }),
   (6, { path := "/properties/e/properties/q", base := some 0 })]

def exEnv : VEnv :=
  { st := exStore, draft := .d2020, infos := exInfos, reMatch := fun _ _ => false, hash := fun _ => 0 }

theorem exEnv_wf : EnvWF exEnv := EnvWF_of_checks exEnv (by decide) (by decide) (fun _ _ _ => rfl)
theorem exEnv_store : StoreWF exEnv.st := StoreWF_of_check _ (by decide)

/-- the result check used by the examples (Json has no decidable equality; `eqv` is value equality) -/
def okEqv (r : Res Json) (expected : Json) : Bool :=
  match r with
  | .ok j => Json.eqv j expected && Json.eqv expected j
  | _ => false

/-- `{}` ↦ `{"a":1,"b":{"c":"x"}}`: the required `r` is not filled, `e` (whose only default sits on a required property)
    is not materialised as `{}` -/
example : okEqv (Go.applyDefaults exEnv 0 (.obj [])) (.obj [("a", .num 1), ("b", .obj [("c", .str "x")])]) = true := by
  decide +kernel
/-- present values are untouched, new keys come last -/
example : okEqv (Go.applyDefaults exEnv 0 (.obj [("z", .arr []), ("a", .str "no")]))
    (.obj [("z", .arr []), ("a", .str "no"), ("b", .obj [("c", .str "x")])]) = true := by decide +kernel
/-- applying again changes nothing -/
example : okEqv (Go.applyDefaults exEnv 0 (.obj [("a", .num 1), ("b", .obj [("c", .str "x")])]))
    (.obj [("a", .num 1), ("b", .obj [("c", .str "x")])]) = true := by decide +kernel
example : Go.hasDefaults exStore 2 = true ∧ Go.hasDefaults exStore 5 = false ∧ Go.hasDefaults exStore 0 = true := by
  decide +kernel
example : Go.validateDefaults exEnv [""] 3 0 = .ok () := by decide +kernel
example : (Go.applyDefaults exEnv 0 (.num 3)).isOk = true := by decide +kernel

/-- the hypotheses of `validateDefaults_spec` hold on the example: every default is well-formed and decided by the Spec -/
theorem exEnv_defaults_decided :
    ∀ id ∈ allNodes exEnv.st (exEnv.st.size + 2) [0], ∀ n d, exEnv.st.get? id = some n → n.default = some d →
      Json.WF d = true ∧ (Spec.valid (specEnvOf exEnv) 3 id d).isSome = true := by
  intro id hid n d hn hd
  have hc : ((allNodes exEnv.st (exEnv.st.size + 2) [0]).all fun id =>
      match exEnv.st.get? id with
      | some n => (match n.default with
        | some d => Json.WF d && (Spec.valid (specEnvOf exEnv) 3 id d).isSome
        | none => true)
      | none => true) = true := by decide +kernel
  have := List.all_eq_true.1 hc id hid
  rw [hn] at this
  simp only [hd, Bool.and_eq_true] at this
  exact this

example : Go.validateDefaults exEnv [""] 3 0 = .ok () ↔
    (∀ id ∈ allNodes exEnv.st (exEnv.st.size + 2) [0], ∀ n, exEnv.st.get? id = some n →
      exEnv.draft = .d2020 → n.dynamicRef = "") ∧
    (∀ id ∈ allNodes exEnv.st (exEnv.st.size + 2) [0], ∀ n d, exEnv.st.get? id = some n → n.default = some d →
      Spec.valid (specEnvOf exEnv) 3 id d = some true) :=
  validateDefaults_spec exEnv exEnv_wf exEnv_store [""] 3 0 _ rfl (by decide) exEnv_defaults_decided

/-- property names are distinct in the example store (hypothesis of `applyDefaults_idem`) -/
example : PropsNodup exStore := by
  intro id n hn
  have hc : (exStore.toList.all fun n => Json.nodupKeys ((n.properties.getD []).map (·.1))) = true := by decide +kernel
  have hmem : n ∈ exStore.toList := Array.mem_toList_iff.2 (Array.mem_of_getElem? hn)
  exact Json.nodupKeys_iff.1 (List.all_eq_true.1 hc n hmem)

end JSV.C15
