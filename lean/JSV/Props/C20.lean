/-
  C20 — (*Schema).CloneSchemas: the clone is a fresh, structurally identical copy and the original is
  untouched.  Property theorems only (helper lemmas: JSV/Proofs/MshClone.lean, MshNode.lean, MshFacts.lean).

  Vocabulary (defined in JSV/Proofs/MshClone.lean):
  * `Go.Reach st a b`   : `b` is reachable from `a` through `Node.children` (the model's everyChild).
  * `Go.Good B st d a`  : the unfolding of `a` in `st` ends within depth `d` (hence it is acyclic — every
    tree accepted by checkStructure is), where the nil pointers stored inside slices / maps are ids `≥ B`.
    `B` is any bound on the size of the stores involved (the model's nil id is 10^9), so that a nil
    pointer stays nil while the clone allocates.  `Go.goodB` is a checker for it.
  * `Iso.refFree st d a` (JSV/Proofs/IsoValid.lean): the unfolding of `a` ends within depth `d` and no schema object of
    it has a `$ref` or a `$dynamicRef` (decidable).
  * `Go.RIso.*` (JSV/Proofs/ResIso*.lean): Resolve commutes with a renaming of schema node ids (`resolve_rel`);
    `NoDocs env`: the resolution is self-contained (no Loader, or a Loader that hands out no document);
    `specOf st rs reMatch`: the Spec environment read off a store and the tables of a `Resolved`.
  Validation behaviour of the clone: `clone_validates_same` (trees with references, both sides resolved),
  `clone_validate_same` (the evaluator), `clone_resolves_iff`; the older `*_partial` statements are for reference-free
  trees under ARBITRARY tables.
-/
import JSV.Proofs.MshNode
import JSV.Proofs.MshFacts
import JSV.Proofs.MshCloneOk
import JSV.Model.Unmarshal
import JSV.Proofs.IsoValid
import JSV.Proofs.ResIsoClone
import JSV.Proofs.ResIsoDocs
namespace JSV.C20
open JSV Go

/-- frame: every node of the original store is still there, unchanged (CloneSchemas writes to no
    existing Schema) -/
theorem clone_store_extends (st : Store) (root c : NodeId) (st' : Store)
    (h : Go.clone st root = .ok (c, st')) :
    st.size ≤ st'.size ∧ ∀ i, i < st.size → st'.get? i = st.get? i :=
  Go.cloneFuel_ext _ h

/-- freshness: the clone's root is a new id and every id reachable from it in the new store is new:
    no Schema object is shared with the original (ids `≥ st.size` are no nodes of `st`) -/
theorem clone_fresh (st : Store) (root c : NodeId) (st' : Store)
    (h : Go.clone st root = .ok (c, st')) :
    st.size ≤ c ∧ ∀ b, Go.Reach st' c b → st.size ≤ b ∧ st.get? b = none := by
  have hf : Go.FreshAbove st.size st := by
    intro i n hi hn
    exact absurd (Go.lt_size_of_get? hn) (Nat.not_lt_of_le hi)
  have r := Go.cloneFuel_fresh st.size _ (Nat.le_refl _) h
  refine ⟨r.1, fun b hb => ?_⟩
  have hb' := Go.Reach.fresh (r.2 hf) hb r.1
  exact ⟨hb', Go.get?_eq_none_iff.2 hb'⟩

/-- the same, for the model's own traversal `Go.reachable` -/
theorem clone_fresh_reachable (st : Store) (root c : NodeId) (st' : Store)
    (h : Go.clone st root = .ok (c, st')) (fuel : Nat) :
    ∀ b, b ∈ Go.reachable st' fuel [c] → st.size ≤ b ∧ st.get? b = none := by
  intro b hb
  obtain ⟨a, ha, hr⟩ := Go.reachable_sound st' fuel [c] b hb
  cases List.mem_singleton.1 ha
  exact (clone_fresh st root c st' h).2 b hr

/-- nil.CloneSchemas() = nil, nothing is allocated -/
theorem clone_nil (st : Store) (root : NodeId) (h : st.get? root = none) :
    Go.clone st root = .ok (root, st) :=
  Go.cloneStep_none h

/-- the cloned root is a shallow copy: it equals the original node on every non-schema field
    (title, enum, required, extra, propertyOrder, …) -/
theorem clone_shallow_fields (st : Store) (root c : NodeId) (st' : Store) (n : Node)
    (hn : st.get? root = some n) (h : Go.clone st root = .ok (c, st')) :
    ∃ n', st'.get? c = some n' ∧
      { n' with
        defs := n.defs, additionalItems := n.additionalItems, additionalProperties := n.additionalProperties,
        allOf := n.allOf, anyOf := n.anyOf, contains := n.contains, contentSchema := n.contentSchema,
        definitions := n.definitions, dependencySchemas := n.dependencySchemas,
        dependentSchemas := n.dependentSchemas, else_ := n.else_, if_ := n.if_, items := n.items,
        itemsArray := n.itemsArray, not := n.not, oneOf := n.oneOf, patternProperties := n.patternProperties,
        prefixItems := n.prefixItems, properties := n.properties, propertyNames := n.propertyNames,
        then_ := n.then_, unevaluatedItems := n.unevaluatedItems,
        unevaluatedProperties := n.unevaluatedProperties } = n := by
  obtain ⟨fs', s', _, rfl, rfl⟩ := Go.cloneStep_some hn h
  exact ⟨_, Go.get?_push_size _ _, rfl⟩

/-- … and its schema-bearing fields have the same shape (nil / length / keys) as the original's -/
theorem clone_same_shape (st : Store) (root c : NodeId) (st' : Store) (n : Node)
    (hn : st.get? root = some n) (h : Go.clone st root = .ok (c, st')) :
    ∃ n', st'.get? c = some n' ∧
      Go.ListRel (Go.FieldRel fun _ _ => True) n.childFields n'.childFields := by
  obtain ⟨fs', s', h1, rfl, rfl⟩ := Go.cloneStep_some hn h
  have r := Go.cloneFields_inv
    (Go.cloneInv_ext (fun _ _ _ _ h' => Go.cloneFuel_ext _ h')) trivial (fun _ _ _ _ => trivial) h1
  refine ⟨_, Go.get?_push_size _ _, ?_⟩
  rw [Go.childFields_set r.2]
  exact r.2

/-- the clone marshals identically, with every amount of fuel.  Hypotheses: the original is acyclic
    (`Good … d root`, any depth `d`) and nil pointers inside slices / maps stay nil (`st'.size ≤ B`). -/
theorem clone_marshal_eq (B d : Nat) (st : Store) (root c : NodeId) (st' : Store)
    (hg : Go.Good B st d root) (h : Go.clone st root = .ok (c, st')) (hB : st'.size ≤ B) (f : Nat) :
    Go.marshalFuel st' f c = Go.marshalFuel st f root := by
  have hs := Go.cloneFuel_sim B st _ d (Go.Ext.refl st) hg h hB
  have hext := Go.cloneFuel_ext _ h
  exact (Go.Sim.marshal_eq (Nat.le_trans hext.1 hB) hB f d root c hs).symm

/-- … and the original still marshals as before in the new store (consequence of the frame) -/
theorem clone_original_marshal_unchanged (B d : Nat) (st : Store) (root c : NodeId) (st' : Store)
    (hg : Go.Good B st d root) (h : Go.clone st root = .ok (c, st')) (hB : st'.size ≤ B) (f : Nat) :
    Go.marshalFuel st' f root = Go.marshalFuel st f root := by
  rw [← clone_marshal_eq B d st root c st' hg h hB f]
  have hs := Go.cloneFuel_sim B st _ d (Go.Ext.refl st) hg h hB
  have hext := Go.cloneFuel_ext _ h
  -- both `root` and `c` are copies of `root` in `st`; compare through `st`
  have h1 := Go.Sim.marshal_eq (Nat.le_trans hext.1 hB) hB f d root c hs
  have h2 := Go.Sim.marshal_eq (Nat.le_trans hext.1 hB) hB f d root root (Go.Sim.of_good hext d root hg)
  rw [← h2, h1]

/-- fuel: on an acyclic subtree of depth ≤ k, fuel k+1 suffices — the clone does not run out of fuel,
    succeeds, and allocates exactly one node per visited node (`Go.cloneCount`, the size of the unfolding;
    for a tree: its number of nodes).  `B`: room for these allocations below the nil ids. -/
theorem clone_fuel_enough (B k : Nat) (st : Store) (root : NodeId)
    (hg : Go.Good B st k root) (hB : st.size + Go.cloneCount st k root ≤ B) :
    ∃ c st', Go.cloneFuel (k + 1) root st = .ok (c, st') ∧ st'.size = st.size + Go.cloneCount st k root := by
  obtain ⟨c, st', h, _, hs⟩ := Go.cloneFuel_ok B st k root st (Go.Ext.refl st) hg hB
  exact ⟨c, st', h, hs⟩

/-- the depth bound may always be raised (so any fuel above the depth works) -/
theorem good_mono (B d k : Nat) (st : Store) (root : NodeId) (hg : Go.Good B st d root) (hk : d ≤ k) :
    Go.Good B st k root := Go.Good.mono_le hg hk

/-- total correctness of `s.CloneSchemas()` with the model's default fuel, for an acyclic `root` whose
    depth is at most the number of nodes + 1 (every tree): the call succeeds, the original is untouched,
    and the clone marshals (json.Marshal, default fuel) to exactly what the original marshals to -/
theorem clone_total (B d : Nat) (st : Store) (root : NodeId)
    (hg : Go.Good B st d root) (hd : d ≤ st.size + 1)
    (hB : st.size + Go.cloneCount st (st.size + 1) root ≤ B) :
    ∃ c st', Go.clone st root = .ok (c, st') ∧ st'.size = st.size + Go.cloneCount st (st.size + 1) root ∧
      Go.marshal st' c = Go.marshal st root := by
  obtain ⟨c, st', h, hs⟩ := clone_fuel_enough B (st.size + 1) st root (Go.Good.mono_le hg hd) hB
  refine ⟨c, st', h, hs, ?_⟩
  have hB' : st'.size ≤ B := by rw [hs]; exact hB
  have hle : st.size ≤ B := Nat.le_trans (Nat.le_add_right _ _) hB
  show Go.marshalFuel st' (st'.size + 2) c = Go.marshalFuel st (st.size + 2) root
  rw [clone_marshal_eq B d st root c st' hg h hB' (st'.size + 2)]
  exact Go.marshalFuel_stable hle d root hg _ _ (by omega) (by omega)

/-- the tree hypothesis in the code's own terms: if checkStructure accepts `root` (every reachable pointer
    non-nil and met once — what Resolve checks), then `root` is `Good` for every `B`, so no size
    hypothesis is left: the clone marshals identically with every amount of fuel -/
theorem clone_marshal_eq_of_checkStructure (st : Store) (root c : NodeId) (st' : Store) (cfuel : Nat)
    (infos : List (NodeId × Go.Info)) (hc : Go.checkStructure st cfuel [(root, "")] [] = .ok infos)
    (h : Go.clone st root = .ok (c, st')) (f : Nat) :
    Go.marshalFuel st' f c = Go.marshalFuel st f root :=
  clone_marshal_eq st'.size st.size st root c st' (Go.good_of_checkStructure _ st cfuel root infos hc) h
    (Nat.le_refl _) f

/-- total correctness for trees: if checkStructure accepts `root`, CloneSchemas succeeds (default fuel),
    leaves the original untouched and returns a fresh tree with the same JSON text -/
theorem clone_total_of_checkStructure (st : Store) (root : NodeId) (cfuel : Nat)
    (infos : List (NodeId × Go.Info)) (hc : Go.checkStructure st cfuel [(root, "")] [] = .ok infos) :
    ∃ c st', Go.clone st root = .ok (c, st') ∧
      (∀ i, i < st.size → st'.get? i = st.get? i) ∧
      (∀ b, Go.Reach st' c b → st.size ≤ b) ∧
      Go.marshal st' c = Go.marshal st root := by
  obtain ⟨c, st', h, _, hm⟩ := clone_total (st.size + Go.cloneCount st (st.size + 1) root) st.size st root
    (Go.good_of_checkStructure _ st cfuel root infos hc) (Nat.le_succ _) (Nat.le_refl _)
  exact ⟨c, st', h, (clone_store_extends st root c st' h).2,
    fun b hb => ((clone_fresh st root c st' h).2 b hb).1, hm⟩

/-! ## the clone keeps the validation behaviour (reference-free trees) -/

/-- `clone_validates_same_partial`.  For a REFERENCE-FREE acyclic `root` (`Iso.refFree st d root`: within depth `d` —
    nil pointers inside slices / maps allowed — no schema object below `root` has a `$ref` or a `$dynamicRef`; decidable)
    the clone means exactly what the original means: with ANY resolution tables on either side (`refTarget`, `dyn*`,
    `resource` of `env` and `env'` are arbitrary and may differ — they are never consulted, which is also why nothing
    is asked about `$id` / `$anchor` / `$dynamicAnchor`), the same draft and regexp matcher, every instance gets, with
    every amount of fuel, the same Spec result (undefined / invalid / valid with the same evaluated properties and items)
    * from the clone `c` in the new store as from `root` in the old store, and
    * from `root` in the new store as from `root` in the old store (the original is untouched).
    Proof: `Go.cloneFuel_sim` gives the simulation `Go.Sim` between the two subtrees (node by node `Go.NodeRel`: a
    shallow copy whose schema-valued fields have the same shape and related members); it is an `Iso.EnvSim`, and
    validity is invariant under a renaming of node ids (`Iso.evalFuel_sim`).
    PARTIAL: trees that contain `$ref` / `$dynamicRef` are not covered by THIS statement (arbitrary, unrelated tables).
    Their meaning depends on the resolution tables, which `Resolve` computes separately for the clone (by URI, from
    `$id` / `$anchor` / paths); for them see `clone_validates_same` below: `Resolve` of the clone yields tables related
    to those of the original (`Go.RIso.resolve_rel`), and then `Iso.evalFuel_sim` applies. -/
theorem clone_validates_same_partial (B d : Nat) (st : Store) (root c : NodeId) (st' : Store)
    (hg : Go.Good B st d root) (hfree : Iso.refFree st d root = true)
    (h : Go.clone st root = .ok (c, st')) (hB : st'.size ≤ B)
    (env env' : Spec.Env) (hd : env.draft = env'.draft) (hre : env.reMatch = env'.reMatch) (fuel : Nat) (j : Json) :
    Spec.evalFuel { env' with st := st' } fuel [] c j = Spec.evalFuel { env with st := st } fuel [] root j ∧
    Spec.evalFuel { env' with st := st' } fuel [] root j = Spec.evalFuel { env with st := st } fuel [] root j := by
  have hext := Go.cloneFuel_ext _ h
  have hs : st.size ≤ B := Nat.le_trans hext.1 hB
  have hE := Iso.cloneR_envSim hs hB env env' hd hre
  have h1 : Go.Sim B st st' d root c := Go.cloneFuel_sim B st _ d (Go.Ext.refl st) hg h hB
  have h2 : Go.Sim B st st' d root root := Go.Sim.of_good hext d root hg
  exact ⟨(Iso.evalFuel_sim hE fuel .nil ⟨d, hfree, h1⟩ j).symm, (Iso.evalFuel_sim hE fuel .nil ⟨d, hfree, h2⟩ j).symm⟩

/-- the same in the code's own terms: a reference-free tree that checkStructure accepts is cloned successfully, and the
    clone validates exactly like the original (PARTIAL as above: no `$ref` / `$dynamicRef` in the tree) -/
theorem clone_validates_same_of_checkStructure_partial (st : Store) (root : NodeId) (cfuel : Nat)
    (infos : List (NodeId × Go.Info)) (hc : Go.checkStructure st cfuel [(root, "")] [] = .ok infos)
    (hfree : Iso.refFree st st.size root = true)
    (env env' : Spec.Env) (hd : env.draft = env'.draft) (hre : env.reMatch = env'.reMatch) :
    ∃ c st', Go.clone st root = .ok (c, st') ∧ ∀ fuel j,
      Spec.evalFuel { env' with st := st' } fuel [] c j = Spec.evalFuel { env with st := st } fuel [] root j := by
  obtain ⟨c, st', h, -, -, -⟩ := clone_total_of_checkStructure st root cfuel infos hc
  exact ⟨c, st', h, fun fuel j => (clone_validates_same_partial st'.size st.size st root c st'
    (Go.good_of_checkStructure _ st cfuel root infos hc) hfree h (Nat.le_refl _) env env' hd hre fuel j).1⟩

/-- … and for the evaluator itself (`Go.validateFuel`, through `C01.validate_refines_spec`): on two resolved
    environments — `env₁` over the original store, `env₂` over the store after cloning, well formed as `Resolve` leaves
    them (`EnvWF`, `StoreWF`), same draft and regexp matcher, otherwise unrelated — ONE Spec result governs the run on
    `root` and the run on the clone `c`: wherever the Spec decides, both return an error or both succeed with
    annotations denoting the same evaluated sets.  PARTIAL: reference-free trees only, as above. -/
theorem clone_validate_same_partial (B d : Nat) (root c : NodeId) (env₁ env₂ : Go.VEnv)
    (hg : Go.Good B env₁.st d root) (hfree : Iso.refFree env₁.st d root = true)
    (h : Go.clone env₁.st root = .ok (c, env₂.st)) (hB : env₂.st.size ≤ B)
    (hwf₁ : Refine.EnvWF env₁) (hwf₂ : Refine.EnvWF env₂) (hst₁ : Refine.StoreWF env₁.st)
    (hst₂ : Refine.StoreWF env₂.st) (hd : env₁.draft = env₂.draft) (hre : env₁.reMatch = env₂.reMatch)
    (fuel : Nat) (j : Json) (hj : Json.WF j = true) :
    Refine.Rel j (Spec.evalFuel (Refine.specEnvOf env₁) fuel [] root j)
        (Go.validateFuel env₁ fuel [] (GoVal.ofJson j) root) ∧
      Refine.Rel j (Spec.evalFuel (Refine.specEnvOf env₁) fuel [] root j)
        (Go.validateFuel env₂ fuel [] (GoVal.ofJson j) c) := by
  have hext := Go.cloneFuel_ext _ h
  have hs : env₁.st.size ≤ B := Nat.le_trans hext.1 hB
  have hE : Iso.EnvSim (Iso.CloneR B env₁.st env₂.st) (Refine.specEnvOf env₁) (Refine.specEnvOf env₂) :=
    Iso.cloneR_envSim hs hB (Refine.specEnvOf env₁) (Refine.specEnvOf env₂) hd hre
  have h1 : Go.Sim B env₁.st env₂.st d root c := Go.cloneFuel_sim B env₁.st _ d (Go.Ext.refl _) hg h hB
  exact Iso.validate_iso env₁ env₂ hwf₁ hwf₂ hst₁ hst₂ hE fuel .nil (fun _ hx => nomatch hx) (fun _ hx => nomatch hx)
    ⟨d, hfree, h1⟩ j hj

/-! ## the clone keeps the validation behaviour (trees WITH references: both sides resolved) -/

/-- `clone_resolves_same`: **Resolve commutes with CloneSchemas** (self-contained resolution: no Loader, or a Loader
    that hands out no document — `Go.RIso.NoDocs`).  If `Resolve` of the original `root` (in the store before cloning,
    `st`) returns normally, and the clone `c` is accepted by checkStructure in the store after cloning, then `Resolve` of
    the clone — same options, same base URI, same fuel — returns normally too, with the same draft and Loader log, and
    there is a one-to-one relation `R` between the schemas of the two trees such that `R root c`, `R`-related schemas are
    shallow copies of each other with `R`-related members (`Go.NodeRel`), and the two `Resolved` are `R`-related
    (`Go.RIso.ResolvedRel`: related `$ref` / `$dynamicRef` targets, the same dynamic anchor names, related base
    resources, related anchor tables with the same names and kinds, the same base URIs and paths).
    Proof: `Go.RIso.resolve_rel` (JSV/Proofs/ResIso*.lean), a simulation of the whole resolver — checkStructure,
    checkLocal, resolveURIs, Schema.all, resolveRef with its JSON-pointer walk, resolveRefs — along a renaming of schema
    node ids; `R` pairs the schemas checkStructure registers at the same position (`Go.RIso.PairR`).
    `B ≤ 10^9`: the model's nil `*Schema` inside a field is the id 10^9, which must not be a node. -/
theorem clone_resolves_same (B d : Nat) (st : Store) (root c : NodeId) (st' : Store)
    (hg : Go.Good B st d root) (h : Go.clone st root = .ok (c, st')) (hB : st'.size ≤ B) (hBn : B ≤ 1000000000)
    (env : Go.Env) (hnd : Go.RIso.NoDocs env) (fuel : Nat) (base : String) (rs : Go.Resolved)
    (h₁ : Go.resolve { env with st := st } fuel root base = .ok rs)
    (f₂ : Nat) (fresh₂ : List (NodeId × Go.Info)) (hcs₂ : Go.checkStructure st' f₂ [(c, "")] [] = .ok fresh₂) :
    ∃ (R : NodeId → NodeId → Prop) (rs' : Go.Resolved),
      Go.resolve { env with st := st' } fuel c base = .ok rs' ∧ Go.RIso.BiU R ∧ R root c ∧
      (∀ a b, R a b → Go.OptRel (Go.NodeRel R) (st.get? a) (st'.get? b)) ∧ Go.RIso.ResolvedRel R rs rs' := by
  have hext := Go.cloneFuel_ext _ h
  have hs : st.size ≤ B := Nat.le_trans hext.1 hB
  have hsim : Go.Sim B st st' d root c := Go.cloneFuel_sim B st _ d (Go.Ext.refl st) hg h hB
  obtain ⟨R, rs', h₂, hbiu, hroot, -, hnode, hres⟩ :=
    Go.RIso.resolve_trees (env₁ := { env with st := st }) (env₂ := { env with st := st' })
      (Go.RIso.cloneS_treeSim hs hB) rfl rfl rfl hnd
      (Go.get?_eq_none_iff.2 (Nat.le_trans hs hBn)) (Go.get?_eq_none_iff.2 (Nat.le_trans hB hBn))
      (r₁ := root) (r₂ := c) ⟨d, hsim⟩ fuel base h₁ hcs₂
  exact ⟨R, rs', h₂, hbiu, hroot, hnode, hres⟩

/-- `clone_validates_same_resolved`: the original and the clone, EACH RESOLVED ON ITS OWN — the original in the store
    before cloning, the clone in the store after, same options (self-contained: `NoDocs`), same base URI —, have the same
    draft and Loader log and give every instance, with every amount of fuel, the same Spec result (undefined / invalid /
    valid with the same evaluated properties and items), whatever `$ref` / `$dynamicRef` / `$id` / `$anchor` /
    `$dynamicAnchor` the tree contains.  (`Go.RIso.specOf st rs reMatch` is the Spec environment read off the store and
    the tables of the `Resolved`, `Refine.specEnvOf` of the evaluator's environment.)
    Also for the original resolved again in the store after cloning (`root` in `st'`): the original is untouched. -/
theorem clone_validates_same_resolved (B d : Nat) (st : Store) (root c : NodeId) (st' : Store)
    (hg : Go.Good B st d root) (h : Go.clone st root = .ok (c, st')) (hB : st'.size ≤ B) (hBn : B ≤ 1000000000)
    (env : Go.Env) (hnd : Go.RIso.NoDocs env) (fuel : Nat) (base : String) (rs rs' : Go.Resolved)
    (h₁ : Go.resolve { env with st := st } fuel root base = .ok rs)
    (h₂ : Go.resolve { env with st := st' } fuel c base = .ok rs') :
    rs.draft = rs'.draft ∧ rs.log = rs'.log ∧
      ∀ (reMatch : String → String → Bool) (vfuel : Nat) (j : Json),
        Spec.evalFuel (Go.RIso.specOf st' rs' reMatch) vfuel [] c j =
          Spec.evalFuel (Go.RIso.specOf st rs reMatch) vfuel [] root j := by
  have hext := Go.cloneFuel_ext _ h
  have hs : st.size ≤ B := Nat.le_trans hext.1 hB
  have hsim : Go.Sim B st st' d root c := Go.cloneFuel_sim B st _ d (Go.Ext.refl st) hg h hB
  obtain ⟨e1, e2, e3⟩ := Go.RIso.trees_validate_same (env₁ := { env with st := st }) (env₂ := { env with st := st' })
    (Go.RIso.cloneS_treeSim hs hB) rfl rfl rfl hnd
    (Go.get?_eq_none_iff.2 (Nat.le_trans hs hBn)) (Go.get?_eq_none_iff.2 (Nat.le_trans hB hBn))
    (r₁ := root) (r₂ := c) ⟨d, hsim⟩ fuel base h₁ h₂
  exact ⟨e1, e2, fun reMatch vfuel j => (e3 reMatch vfuel j).symm⟩

/-- the frame: the original resolved in the store AFTER cloning means what it meant before -/
theorem clone_original_resolves_same (B d : Nat) (st : Store) (root c : NodeId) (st' : Store)
    (hg : Go.Good B st d root) (h : Go.clone st root = .ok (c, st')) (hB : st'.size ≤ B) (hBn : B ≤ 1000000000)
    (env : Go.Env) (hnd : Go.RIso.NoDocs env) (fuel : Nat) (base : String) (rs rs' : Go.Resolved)
    (h₁ : Go.resolve { env with st := st } fuel root base = .ok rs)
    (h₂ : Go.resolve { env with st := st' } fuel root base = .ok rs') :
    rs.draft = rs'.draft ∧ rs.log = rs'.log ∧
      ∀ (reMatch : String → String → Bool) (vfuel : Nat) (j : Json),
        Spec.evalFuel (Go.RIso.specOf st' rs' reMatch) vfuel [] root j =
          Spec.evalFuel (Go.RIso.specOf st rs reMatch) vfuel [] root j := by
  have hext := Go.cloneFuel_ext _ h
  have hs : st.size ≤ B := Nat.le_trans hext.1 hB
  have hsim : Go.Sim B st st' d root root := Go.Sim.of_good hext d root hg
  obtain ⟨e1, e2, e3⟩ := Go.RIso.trees_validate_same (env₁ := { env with st := st }) (env₂ := { env with st := st' })
    (Go.RIso.cloneS_treeSim hs hB) rfl rfl rfl hnd
    (Go.get?_eq_none_iff.2 (Nat.le_trans hs hBn)) (Go.get?_eq_none_iff.2 (Nat.le_trans hB hBn))
    (r₁ := root) (r₂ := root) ⟨d, hsim⟩ fuel base h₁ h₂
  exact ⟨e1, e2, fun reMatch vfuel j => (e3 reMatch vfuel j).symm⟩

/-- the clone of a tree is a tree: if checkStructure accepts `root`, it accepts the clone of `root` (with some amount
    of fuel), and every schema it registers for the clone is a new node.  (`CloneSchemas` allocates one fresh node per
    visit, so the clone of a DAG is a tree too; the converse fails — see `clone_of_dag_resolves` below.) -/
theorem clone_is_tree (st : Store) (root c : NodeId) (st' : Store) (f : Nat) (fresh : List (NodeId × Go.Info))
    (hcs : Go.checkStructure st f [(root, "")] [] = .ok fresh) (h : Go.clone st root = .ok (c, st')) :
    ∃ f' fresh', Go.checkStructure st' f' [(c, "")] [] = .ok fresh' ∧
      ∀ k, k ∈ fresh'.map (·.1) → st.size ≤ k ∧ k < st'.size :=
  Go.RIso.clone_checkStructure st root c st' "" f fresh hcs h

/-- **`clone_validates_same`** (C20, validation behaviour, no carve-out on references).  Let `Resolve` of `root` return
    normally (self-contained resolution — no Loader, or a Loader that hands out no document, `Go.RIso.NoDocs`; the store
    leaves room for the copies below the model's nil id 10^9).  Then `root.CloneSchemas()` succeeds, `Resolve` of the clone
    — same options, same base URI — returns normally as well, with the same draft and the same Loader log, and every
    instance gets from the clone, with every amount of fuel, exactly the Spec result it gets from the original
    (undefined / invalid / valid with the same evaluated properties and items): whatever `$ref`, `$dynamicRef`, `$id`,
    `$anchor`, `$dynamicAnchor`, `$defs` the tree contains.
    Proof: the clone is a tree (`clone_is_tree`), it is a copy of the original node by node (`Go.cloneFuel_sim`),
    Resolve commutes with the renaming of node ids between two such trees (`Go.RIso.resolve_rel`, `resolve_trees`), and
    validity is invariant under a renaming of node ids along related tables (`Iso.evalFuel_sim`). -/
theorem clone_validates_same (st : Store) (root : NodeId) (env : Go.Env) (hnd : Go.RIso.NoDocs env)
    (hroom : st.size + Go.cloneCount st (st.size + 1) root ≤ 1000000000)
    (fuel : Nat) (base : String) (rs : Go.Resolved)
    (h₁ : Go.resolve { env with st := st } fuel root base = .ok rs) :
    ∃ c st' rs', Go.clone st root = .ok (c, st') ∧
      Go.resolve { env with st := st' } fuel c base = .ok rs' ∧ rs.draft = rs'.draft ∧ rs.log = rs'.log ∧
      ∀ (reMatch : String → String → Bool) (vfuel : Nat) (j : Json),
        Spec.evalFuel (Go.RIso.specOf st' rs' reMatch) vfuel [] c j =
          Spec.evalFuel (Go.RIso.specOf st rs reMatch) vfuel [] root j := by
  obtain ⟨fresh, hcs⟩ := Go.RIso.resolve_ok_cs { env with st := st } fuel root base rs h₁
  have hg : ∀ B, Go.Good B st st.size root := fun B => Go.good_of_checkStructure B st _ root fresh hcs
  obtain ⟨c, st', h, hsz, -⟩ := clone_total (st.size + Go.cloneCount st (st.size + 1) root) st.size st root
    (hg _) (Nat.le_succ _) (Nat.le_refl _)
  obtain ⟨f', fresh', hcs', -⟩ := clone_is_tree st root c st' _ fresh hcs h
  have hB : st'.size ≤ st'.size := Nat.le_refl _
  have hBn : st'.size ≤ 1000000000 := by rw [hsz]; exact hroom
  obtain ⟨R, rs', h₂, -, -, -, -⟩ := clone_resolves_same st'.size st.size st root c st' (hg _) h hB hBn env hnd fuel base
    rs h₁ f' fresh' hcs'
  obtain ⟨e1, e2, e3⟩ := clone_validates_same_resolved st'.size st.size st root c st' (hg _) h hB hBn env hnd fuel base
    rs rs' h₁ h₂
  exact ⟨c, st', rs', h, h₂, e1, e2, e3⟩

/-- `clone_validates_same_docs`: the same WITH documents fetched through the Loader.  The Loader universe is shared:
    `L` is a set of schemas (ids, nil ones included) that contains the root of every document the Loader hands out, is
    closed under the schema-valued fields, lies in the store before cloning (or is nil: `≥ 10^9`), and is disjoint from
    the tree of `root`.  If `Resolve` of `root` returns normally — references into Loader documents, and from Loader
    documents back into the root document, included — then `root.CloneSchemas()` succeeds, `Resolve` of the clone against
    the same Loader returns normally with the same draft and the same Loader log (the same URIs fetched in the same
    order), and every instance gets the same Spec result from the clone as from the original. -/
theorem clone_validates_same_docs (st : Store) (root : NodeId) (env : Go.Env) (L : NodeId → Prop)
    (hLst : ∀ a, L a → a < st.size ∨ 1000000000 ≤ a)
    (hLcl : ∀ a n, L a → st.get? a = some n → ∀ f, f ∈ n.childFields → ∀ x, x ∈ f.ids → L x)
    (hLroots : ∀ t key l, env.loader = some t → Json.lookup key t = some (.doc l) → L l)
    (hLdis : ∀ fresh, Go.checkStructure st (st.size + 2) [(root, "")] [] = .ok fresh → ∀ a, L a → a ∉ fresh.map (·.1))
    (hroom : st.size + Go.cloneCount st (st.size + 1) root ≤ 1000000000)
    (fuel : Nat) (base : String) (rs : Go.Resolved)
    (h₁ : Go.resolve { env with st := st } fuel root base = .ok rs) :
    ∃ c st' rs', Go.clone st root = .ok (c, st') ∧
      Go.resolve { env with st := st' } fuel c base = .ok rs' ∧ rs.draft = rs'.draft ∧ rs.log = rs'.log ∧
      ∀ (reMatch : String → String → Bool) (vfuel : Nat) (j : Json),
        Spec.evalFuel (Go.RIso.specOf st' rs' reMatch) vfuel [] c j =
          Spec.evalFuel (Go.RIso.specOf st rs reMatch) vfuel [] root j := by
  obtain ⟨fresh, hcs⟩ := Go.RIso.resolve_ok_cs { env with st := st } fuel root base rs h₁
  have hg : ∀ B, Go.Good B st st.size root := fun B => Go.good_of_checkStructure B st _ root fresh hcs
  obtain ⟨c, st', h, hsz, -⟩ := clone_total (st.size + Go.cloneCount st (st.size + 1) root) st.size st root
    (hg _) (Nat.le_succ _) (Nat.le_refl _)
  obtain ⟨f', fresh', hcs', hiv⟩ := clone_is_tree st root c st' _ fresh hcs h
  have hBn : st'.size ≤ 1000000000 := by rw [hsz]; exact hroom
  have hext := Go.cloneFuel_ext _ h
  have hs : st.size ≤ st'.size := hext.1
  have hsim : Go.Sim st'.size st st' st.size root c :=
    Go.cloneFuel_sim st'.size st _ st.size (Go.Ext.refl st) (hg _) h (Nat.le_refl _)
  have hL : Go.RIso.DocsOK { env with st := st } { env with st := st' } L := by
    refine ⟨?_, hLcl, hLroots⟩
    intro a ha
    show st.get? a = st'.get? a
    rcases hLst a ha with hlt | hge
    · exact (hext.2 a hlt).symm
    · rw [Go.get?_eq_none_iff.2 (Nat.le_trans (Nat.le_trans hs hBn) hge),
        Go.get?_eq_none_iff.2 (Nat.le_trans hBn hge)]
  obtain ⟨rs', h₂, e1, e2, e3⟩ := Go.RIso.resolve_trees_docs (env₁ := { env with st := st })
    (env₂ := { env with st := st' }) (Go.RIso.cloneS_treeSim (B := st'.size) hs (Nat.le_refl _)) rfl rfl rfl
    (Go.get?_eq_none_iff.2 (Nat.le_trans hs hBn)) (Go.get?_eq_none_iff.2 hBn) (r₁ := root) (r₂ := c) ⟨_, hsim⟩ hL
    fuel base h₁ hcs' hLdis
    (fun a ha hm => by
      have := hiv a hm
      rcases hLst a ha with hlt | hge
      · exact absurd hlt (Nat.not_lt.2 this.1)
      · exact absurd (Nat.lt_of_lt_of_le this.2 hBn) (Nat.not_lt.2 hge))
  exact ⟨c, st', rs', h, h₂, e1, e2, fun reMatch vfuel j => (e3 reMatch vfuel j).symm⟩

/-- `clone_validate_same`: … and for the evaluator itself (`Go.validateFuel`, through `C01.validate_refines_spec`), trees
    with references included.  The original is resolved in the store before cloning (`rs`), the clone in the store after
    (`rs'`).  `v₁`, `v₂`: the environments `Validate` runs on — the drafts of `rs` / `rs'`; info tables and stores that
    agree with those of `rs` / `rs'` and with `st` / `st'` on the schemas `rs` / `rs'` know (elsewhere arbitrary: the
    evaluation never gets there — so `v₂` may also carry records for the original, which lives in `st'` too); the same
    regexp matcher; well formed as `Resolve` leaves them (`EnvWF`, `StoreWF`).  ONE Spec result governs the run on `root`
    and the run on the clone `c`: wherever the Spec decides, both return an error or both succeed with annotations
    denoting the same evaluated sets. -/
theorem clone_validate_same (B d : Nat) (st : Store) (root c : NodeId) (st' : Store)
    (hg : Go.Good B st d root) (h : Go.clone st root = .ok (c, st')) (hB : st'.size ≤ B) (hBn : B ≤ 1000000000)
    (env : Go.Env) (hnd : Go.RIso.NoDocs env) (fuel : Nat) (base : String) (rs rs' : Go.Resolved)
    (h₁ : Go.resolve { env with st := st } fuel root base = .ok rs)
    (h₂ : Go.resolve { env with st := st' } fuel c base = .ok rs') (v₁ v₂ : Go.VEnv)
    (hi₁ : ∀ a, (Go.lookupNat a rs.infos).isSome = true → v₁.info? a = Go.lookupNat a rs.infos)
    (hi₂ : ∀ b, (Go.lookupNat b rs'.infos).isSome = true → v₂.info? b = Go.lookupNat b rs'.infos)
    (hd₁ : v₁.draft = rs.draft) (hd₂ : v₂.draft = rs'.draft)
    (hs₁ : ∀ a, (Go.lookupNat a rs.infos).isSome = true → v₁.st.get? a = st.get? a)
    (hs₂ : ∀ b, (Go.lookupNat b rs'.infos).isSome = true → v₂.st.get? b = st'.get? b)
    (hrm : v₁.reMatch = v₂.reMatch) (hwf₁ : Refine.EnvWF v₁) (hwf₂ : Refine.EnvWF v₂)
    (hst₁ : Refine.StoreWF v₁.st) (hst₂ : Refine.StoreWF v₂.st) (vfuel : Nat) (j : Json) (hj : Json.WF j = true) :
    Refine.Rel j (Spec.evalFuel (Refine.specEnvOf v₁) vfuel [] root j)
        (Go.validateFuel v₁ vfuel [] (GoVal.ofJson j) root) ∧
      Refine.Rel j (Spec.evalFuel (Refine.specEnvOf v₁) vfuel [] root j)
        (Go.validateFuel v₂ vfuel [] (GoVal.ofJson j) c) := by
  have hext := Go.cloneFuel_ext _ h
  have hs : st.size ≤ B := Nat.le_trans hext.1 hB
  have hsim : Go.Sim B st st' d root c := Go.cloneFuel_sim B st _ d (Go.Ext.refl st) hg h hB
  exact Go.RIso.trees_validate_iso (env₁ := { env with st := st }) (env₂ := { env with st := st' })
    (Go.RIso.cloneS_treeSim hs hB) rfl rfl rfl hnd
    (Go.get?_eq_none_iff.2 (Nat.le_trans hs hBn)) (Go.get?_eq_none_iff.2 (Nat.le_trans hB hBn))
    (r₁ := root) (r₂ := c) ⟨d, hsim⟩ fuel base h₁ h₂ v₁ v₂ hi₁ hi₂ hd₁ hd₂ hs₁ hs₂ hrm hwf₁ hwf₂ hst₁ hst₂ vfuel j hj

/-- `clone_resolves_iff`: for a TREE (checkStructure accepts `root`) `Resolve` of the original and `Resolve` of the clone
    — same options, base URI, fuel; self-contained resolution — fail together or succeed together.  (For a DAG they do
    not: the original is refused, the clone resolves; example `clone_of_dag_resolves` below.) -/
theorem clone_resolves_iff (st : Store) (root : NodeId) (env : Go.Env) (hnd : Go.RIso.NoDocs env)
    (hroom : st.size + Go.cloneCount st (st.size + 1) root ≤ 1000000000) (fuel : Nat) (base : String)
    (f : Nat) (fresh : List (NodeId × Go.Info)) (hcs : Go.checkStructure st f [(root, "")] [] = .ok fresh) :
    ∃ c st', Go.clone st root = .ok (c, st') ∧
      (Go.resolve { env with st := st } fuel root base).isOk = (Go.resolve { env with st := st' } fuel c base).isOk := by
  have hg : ∀ B, Go.Good B st st.size root := fun B => Go.good_of_checkStructure B st _ root fresh hcs
  obtain ⟨c, st', h, hsz, -⟩ := clone_total (st.size + Go.cloneCount st (st.size + 1) root) st.size st root
    (hg _) (Nat.le_succ _) (Nat.le_refl _)
  obtain ⟨f', fresh', hcs', -⟩ := clone_is_tree st root c st' _ fresh hcs h
  have hBn : st'.size ≤ 1000000000 := by rw [hsz]; exact hroom
  have hext := Go.cloneFuel_ext _ h
  have hs : st.size ≤ st'.size := hext.1
  have hsim : Go.Sim st'.size st st' st.size root c :=
    Go.cloneFuel_sim st'.size st _ st.size (Go.Ext.refl st) (hg _) h (Nat.le_refl _)
  have hTS := Go.RIso.cloneS_treeSim (B := st'.size) hs (Nat.le_refl _)
  have hn₁ : Store.get? st 1000000000 = none := Go.get?_eq_none_iff.2 (Nat.le_trans hs hBn)
  have hn₂ : Store.get? st' 1000000000 = none := Go.get?_eq_none_iff.2 hBn
  refine ⟨c, st', h, ?_⟩
  cases h₁ : Go.resolve { env with st := st } fuel root base with
  | ok rs =>
    obtain ⟨R, rs', h₂, -⟩ := Go.RIso.resolve_trees (env₁ := { env with st := st }) (env₂ := { env with st := st' })
      hTS rfl rfl rfl hnd hn₁ hn₂ (r₁ := root) (r₂ := c) ⟨_, hsim⟩ fuel base h₁ hcs'
    rw [h₂]
    rfl
  | fuel | panic | err =>
    cases h₂ : Go.resolve { env with st := st' } fuel c base with
    | ok rs' =>
      obtain ⟨R, rs, h₁', -⟩ := Go.RIso.resolve_trees (env₁ := { env with st := st' }) (env₂ := { env with st := st })
        hTS.flip rfl rfl rfl hnd hn₂ hn₁ (r₁ := c) (r₂ := root) ⟨_, hsim⟩ fuel base h₂ hcs
      rw [h₁] at h₁'
      cases h₁'
    | fuel | panic | err => rfl

/-- the 23 fields cloneStep rewrites are exactly the Schema-typed fields of the Go struct: every field
    whose Go type mentions `Schema` has type `*Schema`, `[]*Schema` or `map[string]*Schema`; there are 23
    of them, as many as `Node.childFields` (13 + 5 + 5 by kind); and the JSON names agree -/
theorem childFields_cover_generated :
    ((Generated.schemaFields.filter fun f => Go.mentionsSchema f.2.1).all fun f =>
        f.2.1 == "*Schema" || f.2.1 == "[]*Schema" || f.2.1 == "map[string]*Schema") = true ∧
    (Generated.schemaFields.filter fun f => Go.mentionsSchema f.2.1).length = 23 ∧
    (Node.childFields {}).length = 23 ∧
    (Generated.schemaFields.filter fun f => f.2.1 == "*Schema").length
      = ((Node.childFields {}).filter fun f => match f with | .one _ _ => true | _ => false).length ∧
    (Generated.schemaFields.filter fun f => f.2.1 == "[]*Schema").length
      = ((Node.childFields {}).filter fun f => match f with | .many _ _ => true | _ => false).length ∧
    (Generated.schemaFields.filter fun f => f.2.1 == "map[string]*Schema").length
      = ((Node.childFields {}).filter fun f => match f with | .keyed _ _ => true | _ => false).length ∧
    -- tagged Schema-typed fields: the JSON name and the kind are those of `childFields`
    ((Generated.schemaFields.filter fun f => Go.mentionsSchema f.2.1 && f.2.2.1 != "-").all fun f =>
        (Node.childFields {}).any fun cf => match cf with
          | .one k _ => k == f.2.2.1 && f.2.1 == "*Schema"
          | .many k _ => k == f.2.2.1 && f.2.1 == "[]*Schema"
          | .keyed k _ => k == f.2.2.1 && f.2.1 == "map[string]*Schema") = true ∧
    -- the three `-`-tagged ones are written through the wrapper struct
    ((Generated.schemaFields.filter fun f => Go.mentionsSchema f.2.1 && f.2.2.1 == "-").map (·.1))
      = ["DependencySchemas", "Items", "ItemsArray"] := by
  decide

/-! ## The hypotheses are satisfiable on non-trivial data -/

/-- root 0: allOf [1, 2], properties {b ↦ 3, a ↦ 1 (shared with allOf: a DAG)}, $defs with a nil entry -/
def exStore : Store := #[
  { title := "root", allOf := some [1, 2], properties := some [("b", 3), ("a", 1)],
    defs := some [("z", Go.nilId)], required := some ["a"], propertyOrder := some ["b"] },
  { type := "string", minLength := some 1 },
  { not := some 3, extra := some [("x-note", .str "hi")] },
  { enum := some [.num 1, .null] }]

example : Go.Good Go.nilId exStore 3 0 := Go.goodB_sound _ _ _ _ (by decide)

/-- the clone of `exStore` from 0: 6 new nodes (node 1 and node 3 are reached twice, so they are copied
    twice), the clone's root is the last one allocated -/
example : (match Go.clone exStore 0 with | .ok (c, st') => (c, st'.size) | _ => (0, 0)) = (9, 10) := by decide

/-- `clone_marshal_eq` applied -/
example (st' : Store) (c : NodeId) (h : Go.clone exStore 0 = .ok (c, st')) (hB : st'.size ≤ Go.nilId) (f : Nat) :
    Go.marshalFuel st' f c = Go.marshalFuel exStore f 0 :=
  clone_marshal_eq Go.nilId 3 exStore 0 c st' (Go.goodB_sound _ _ _ _ (by decide)) h hB f

/-- … and with the hypothesis `h` discharged by evaluation: the whole statement on `exStore` -/
example (f : Nat) :
    ∃ c st', Go.clone exStore 0 = .ok (c, st') ∧ Go.marshalFuel st' f c = Go.marshalFuel exStore f 0 := by
  have hd : (match Go.clone exStore 0 with | .ok (c, st') => (c, st'.size) | _ => (0, 0)) = (9, 10) := by
    decide
  cases h : Go.clone exStore 0 with
  | ok r =>
    obtain ⟨c, st'⟩ := r
    rw [h] at hd
    have hsz : st'.size = 10 := by simpa using (Prod.mk.inj hd).2
    exact ⟨c, st', rfl, clone_marshal_eq Go.nilId 3 exStore 0 c st' (Go.goodB_sound _ _ _ _ (by decide)) h
      (by rw [hsz]; decide) f⟩
  | fuel => rw [h] at hd; cases hd
  | panic => rw [h] at hd; cases hd
  | err => rw [h] at hd; cases hd


/-- `clone_total` applied to `exStore` (depth 3, 6 visited nodes) -/
example : ∃ c st', Go.clone exStore 0 = .ok (c, st') ∧ st'.size = 4 + 6 ∧ Go.marshal st' c = Go.marshal exStore 0 :=
  clone_total Go.nilId 3 exStore 0 (Go.goodB_sound _ _ _ _ (by decide)) (by decide) (by decide)


/-- `clone_total_of_checkStructure` applied: a tree (no sharing, no nil) accepted by checkStructure -/
def exTree : Store := #[
  { title := "root", allOf := some [1, 2], properties := some [("b", 3)], required := some ["b"] },
  { type := "string", minLength := some 1 },
  { not := some 4, extra := some [("x-note", .str "hi")] },
  { enum := some [.num 1, .null] },
  {}]
example : (Go.checkStructure exTree 7 [(0, "")] []).isOk = true := by decide
example : ∃ c st', Go.clone exTree 0 = .ok (c, st') ∧ (∀ i, i < exTree.size → st'.get? i = exTree.get? i) ∧
      (∀ b, Go.Reach st' c b → exTree.size ≤ b) ∧ Go.marshal st' c = Go.marshal exTree 0 := by
  cases hc : Go.checkStructure exTree 7 [(0, "")] [] with
  | ok infos => exact clone_total_of_checkStructure exTree 0 7 infos hc
  | fuel => exact absurd (show (Go.checkStructure exTree 7 [(0, "")] []).isOk = true by decide) (by rw [hc]; decide)
  | panic => exact absurd (show (Go.checkStructure exTree 7 [(0, "")] []).isOk = true by decide) (by rw [hc]; decide)
  | err => exact absurd (show (Go.checkStructure exTree 7 [(0, "")] []).isOk = true by decide) (by rw [hc]; decide)

/-! ### `clone_validates_same_partial` is not vacuous -/

/-- `exTree` and `exStore` (a DAG with a nil `$defs` entry) are reference-free -/
example : Iso.refFree exTree exTree.size 0 = true := by decide
example : Iso.refFree exStore 3 0 = true := by decide
/-- … a `$ref` anywhere below the root is seen -/
example : Iso.refFree #[{ allOf := some [1] }, { not := some 2 }, { ref := "#" }] 3 0 = false := by decide

/-- `clone_validates_same_of_checkStructure_partial` applied to `exTree`: whatever the tables, the clone gives every
    instance the result the original gives -/
example (env : Spec.Env) : ∃ c st', Go.clone exTree 0 = .ok (c, st') ∧ ∀ fuel j,
      Spec.evalFuel { env with st := st' } fuel [] c j = Spec.evalFuel { env with st := exTree } fuel [] 0 j := by
  cases hc : Go.checkStructure exTree 7 [(0, "")] [] with
  | ok infos => exact clone_validates_same_of_checkStructure_partial exTree 0 7 infos hc (by decide) env env rfl rfl
  | fuel => exact absurd (show (Go.checkStructure exTree 7 [(0, "")] []).isOk = true by decide) (by rw [hc]; decide)
  | panic => exact absurd (show (Go.checkStructure exTree 7 [(0, "")] []).isOk = true by decide) (by rw [hc]; decide)
  | err => exact absurd (show (Go.checkStructure exTree 7 [(0, "")] []).isOk = true by decide) (by rw [hc]; decide)

/-- `clone_validates_same_partial` applied to the DAG `exStore` (nil entry in `$defs`, nodes 1 and 3 shared) -/
example (env : Spec.Env) (st' : Store) (c : NodeId) (h : Go.clone exStore 0 = .ok (c, st')) (hB : st'.size ≤ Go.nilId)
    (fuel : Nat) (j : Json) :
    Spec.evalFuel { env with st := st' } fuel [] c j = Spec.evalFuel { env with st := exStore } fuel [] 0 j :=
  (clone_validates_same_partial Go.nilId 3 exStore 0 c st' (Go.goodB_sound _ _ _ _ (by decide)) (by decide) h hB
    env env rfl rfl fuel j).1

/-- … and these results are defined and not all the same -/
def exSpecEnv (st : Store) : Spec.Env :=
  { st := st, draft := .d2020, refTarget := fun _ => none, dynInitial := fun _ => none, dynName := fun _ => "",
    resource := fun _ => none, dynDecl := fun _ _ => none, reMatch := fun _ _ => false }
example : Spec.valid (exSpecEnv exStore) 3 0 (.str "x") = some true := by decide
example : Spec.valid (exSpecEnv exStore) 3 0 (.str "") = some false := by decide
example : Spec.valid (exSpecEnv exStore) 3 0 (.obj []) = some false := by decide

/-! ### `clone_validates_same` is not vacuous: a tree WITH `$ref` (by pointer and by `$anchor`), `$dynamicRef`,
  `$dynamicAnchor`, `$id` -/

def exRefTree : Store := #[
  { id := "http://a/root.json", type := "object", ref := "#/$defs/len", dynamicRef := "#d", allOf := some [4],
    properties := some [("a", 1)], defs := some [("len", 2), ("pos", 3)], required := some ["a"] },   -- 0
  { type := "string" },                                                                              -- 1
  { minProperties := some 1, dynamicAnchor := "d" },                                                  -- 2
  { anchor := "pos", maxProperties := some 2 },                                                       -- 3
  { ref := "#pos" }]                                                                                  -- 4
def exRefEnv : Go.Env := { st := exRefTree, reOk := fun _ => true, loader := none }

theorem exRefEnv_noDocs : Go.RIso.NoDocs exRefEnv := fun _ _ _ h => nomatch h

/-- what Resolve records for the original: (schema, `$ref` target, `$dynamicRef` target), and the anchors of the root
    resource -/
example : ((Go.resolve exRefEnv 1 0 "").bind fun rs => .ok (rs.infos.map fun (e : NodeId × Go.Info) =>
      (e.1, e.2.resolvedRef, e.2.resolvedDynamicRef))) =
    .ok [(0, some 2, some 2), (2, none, none), (3, none, none), (4, some 3, none), (1, none, none)] := by
  decide +kernel
example : ((Go.resolve exRefEnv 1 0 "").bind fun rs => .ok (((Go.lookupNat 0 rs.infos).map Go.Info.anchors).getD [] |>.map
      fun (a : String × Go.AnchorInfo) => (a.1, a.2.schema, a.2.dynamic))) =
    .ok [("d", 2, true), ("pos", 3, false)] := by
  decide +kernel

/-- … and for the clone (root 9, copies 5 … 8), resolved on its own: the same tables up to the renaming -/
example : (match Go.clone exRefTree 0 with
    | .ok (c, st') => (Go.resolve { exRefEnv with st := st' } 1 c "").bind fun rs =>
        .ok (rs.infos.map fun (e : NodeId × Go.Info) => (e.1, e.2.resolvedRef, e.2.resolvedDynamicRef))
    | _ => .err) =
    .ok [(9, some 5, some 5), (5, none, none), (6, none, none), (7, some 6, none), (8, none, none)] := by
  decide +kernel
example : (match Go.clone exRefTree 0 with
    | .ok (c, st') => (Go.resolve { exRefEnv with st := st' } 1 c "").bind fun rs =>
        .ok (((Go.lookupNat c rs.infos).map Go.Info.anchors).getD [] |>.map
          fun (a : String × Go.AnchorInfo) => (a.1, a.2.schema, a.2.dynamic))
    | _ => .err) =
    .ok [("d", 5, true), ("pos", 6, false)] := by
  decide +kernel

/-- `clone_validates_same` applied: the clone resolves, and validates every instance like the original -/
example : ∃ c st' rs rs', Go.clone exRefTree 0 = .ok (c, st') ∧ Go.resolve exRefEnv 1 0 "" = .ok rs ∧
    Go.resolve { exRefEnv with st := st' } 1 c "" = .ok rs' ∧
    ∀ (reMatch : String → String → Bool) (vfuel : Nat) (j : Json),
      Spec.evalFuel (Go.RIso.specOf st' rs' reMatch) vfuel [] c j =
        Spec.evalFuel (Go.RIso.specOf exRefTree rs reMatch) vfuel [] 0 j := by
  have hok : (Go.resolve exRefEnv 1 0 "").isOk = true := by decide +kernel
  cases hr : Go.resolve exRefEnv 1 0 "" with
  | ok rs =>
    obtain ⟨c, st', rs', h, h₂, -, -, e⟩ :=
      clone_validates_same exRefTree 0 exRefEnv exRefEnv_noDocs (by decide) 1 "" rs hr
    exact ⟨c, st', rs, rs', h, rfl, h₂, e⟩
  | fuel => rw [hr] at hok; cases hok
  | panic => rw [hr] at hok; cases hok
  | err => rw [hr] at hok; cases hok

/-- … and these results are defined, use the references, and are not all the same: `{"a":"x"}` is valid; three
    properties violate `maxProperties` behind `allOf → $ref: "#pos"`; a number under "a" violates `properties` -/
example : (match Go.resolve exRefEnv 1 0 "" with
    | .ok rs =>
      [Spec.valid (Go.RIso.specOf exRefTree rs fun _ _ => false) 4 0 (.obj [("a", .str "x")]),
       Spec.valid (Go.RIso.specOf exRefTree rs fun _ _ => false) 4 0 (.obj [("a", .str "x"), ("b", .null), ("c", .null)]),
       Spec.valid (Go.RIso.specOf exRefTree rs fun _ _ => false) 4 0 (.obj [("a", .num 1)])]
    | _ => []) = [some true, some false, some false] := by
  decide +kernel

/-- `clone_validate_same` applied: `v₁` = what `Resolve` of the original leaves; `v₂` = the store after cloning with the
    tables of the clone's `Resolved` followed by those of the original's (so that every object of the store has a
    record, `EnvWF`).  The well-formedness checks are evaluated. -/
def exV₁ (rs : Go.Resolved) : Go.VEnv := Go.RIso.venvOf exRefTree rs (fun _ _ => false) (fun _ => 0)
def exV₂ (st' : Store) (rs rs' : Go.Resolved) : Go.VEnv :=
  { st := st', draft := rs'.draft, infos := rs'.infos ++ rs.infos, reMatch := fun _ _ => false, hash := fun _ => 0 }

def exRefChecks : Bool :=
  match Go.clone exRefTree 0 with
  | .ok (c, st') =>
    match Go.resolve exRefEnv 1 0 "", Go.resolve { exRefEnv with st := st' } 1 c "" with
    | .ok rs, .ok rs' =>
      Refine.infoTotalB (exV₁ rs) && Refine.baseTotalB (exV₁ rs) && Refine.infoTotalB (exV₂ st' rs rs') &&
        Refine.baseTotalB (exV₂ st' rs rs') && Refine.storeWFB exRefTree && Refine.storeWFB st' &&
        decide (st'.size ≤ 1000000000)
    | _, _ => false
  | _ => false

theorem exRefChecks_ok : exRefChecks = true := by decide +kernel

example (vfuel : Nat) (j : Json) (hj : Json.WF j = true) :
    ∃ c st' rs rs', Go.clone exRefTree 0 = .ok (c, st') ∧ Go.resolve exRefEnv 1 0 "" = .ok rs ∧
      Go.resolve { exRefEnv with st := st' } 1 c "" = .ok rs' ∧
      Refine.Rel j (Spec.evalFuel (Refine.specEnvOf (exV₁ rs)) vfuel [] 0 j)
        (Go.validateFuel (exV₁ rs) vfuel [] (GoVal.ofJson j) 0) ∧
      Refine.Rel j (Spec.evalFuel (Refine.specEnvOf (exV₁ rs)) vfuel [] 0 j)
        (Go.validateFuel (exV₂ st' rs rs') vfuel [] (GoVal.ofJson j) c) := by
  have hck := exRefChecks_ok
  unfold exRefChecks at hck
  cases hc : Go.clone exRefTree 0 with
  | ok r =>
    obtain ⟨c, st'⟩ := r
    rw [hc] at hck
    dsimp only at hck
    cases hr : Go.resolve exRefEnv 1 0 "" with
    | ok rs =>
      cases hr' : Go.resolve { exRefEnv with st := st' } 1 c "" with
      | ok rs' =>
        rw [hr, hr'] at hck
        simp only [Bool.and_eq_true, decide_eq_true_eq] at hck
        obtain ⟨⟨⟨⟨⟨⟨k1, k2⟩, k3⟩, k4⟩, k5⟩, k6⟩, k7⟩ := hck
        have hg : Go.Good st'.size exRefTree exRefTree.size 0 := by
          have hcs : (Go.checkStructure exRefTree 7 [(0, "")] []).isOk = true := by decide
          cases hcs' : Go.checkStructure exRefTree 7 [(0, "")] [] with
          | ok fresh => exact Go.good_of_checkStructure _ exRefTree 7 0 fresh hcs'
          | fuel => rw [hcs'] at hcs; cases hcs
          | panic => rw [hcs'] at hcs; cases hcs
          | err => rw [hcs'] at hcs; cases hcs
        refine ⟨c, st', rs, rs', rfl, rfl, hr', ?_⟩
        exact clone_validate_same st'.size exRefTree.size exRefTree 0 c st' hg hc (Nat.le_refl _) k7 exRefEnv
          exRefEnv_noDocs 1 "" rs rs' hr hr' (exV₁ rs) (exV₂ st' rs rs') (fun _ _ => rfl)
          (fun b hb => by
            show Go.lookupNat b (rs'.infos ++ rs.infos) = Go.lookupNat b rs'.infos
            rw [Go.RPerm.lookupNat_append]
            cases e : Go.lookupNat b rs'.infos with
            | none => rw [e] at hb; cases hb
            | some i => rfl)
          rfl rfl (fun _ _ => rfl) (fun _ _ => rfl) rfl
          (Refine.EnvWF_of_checks _ k1 k2 (fun _ _ _ => rfl)) (Refine.EnvWF_of_checks _ k3 k4 (fun _ _ _ => rfl))
          (Refine.StoreWF_of_check _ k5) (Refine.StoreWF_of_check _ k6) vfuel j hj
      | fuel => rw [hr, hr'] at hck; cases hck
      | panic => rw [hr, hr'] at hck; cases hck
      | err => rw [hr, hr'] at hck; cases hck
    | fuel => rw [hr] at hck; cases hck
    | panic => rw [hr] at hck; cases hck
    | err => rw [hr] at hck; cases hck
  | fuel => rw [hc] at hck; cases hck
  | panic => rw [hc] at hck; cases hck
  | err => rw [hc] at hck; cases hck

/-! ### `clone_validates_same_docs` is not vacuous: a root document with two references INTO a Loader document (by
  pointer and by `$anchor`); the Loader is called once on either side -/

def exDocStore : Store := #[
  { id := "http://a/root.json", allOf := some [1], properties := some [("p", 2)] },   -- 0
  { ref := "other.json#/$defs/x" },                                                    -- 1
  { ref := "other.json#tag" },                                                         -- 2
  { defs := some [("x", 4), ("y", 5)] },                                               -- 3: http://a/other.json
  { type := "string" },                                                                -- 4
  { anchor := "tag", minLength := some 2 }]                                            -- 5
def exDocEnv : Go.Env :=
  { st := exDocStore, reOk := fun _ => true, loader := some [("http://a/other.json", .doc 3)] }
/-- the schemas of the Loader universe -/
def exDocL (a : NodeId) : Prop := a ∈ [3, 4, 5]

example : ((Go.resolve exDocEnv 2 0 "").bind fun rs => .ok (rs.log, rs.infos.map fun (e : NodeId × Go.Info) =>
      (e.1, e.2.resolvedRef))) =
    .ok (["http://a/other.json"], [(0, none), (1, some 4), (2, some 5), (3, none), (4, none), (5, none)]) := by
  decide +kernel

example : ∃ c st' rs rs', Go.clone exDocStore 0 = .ok (c, st') ∧ Go.resolve exDocEnv 2 0 "" = .ok rs ∧
    Go.resolve { exDocEnv with st := st' } 2 c "" = .ok rs' ∧ rs.log = rs'.log ∧
    ∀ (reMatch : String → String → Bool) (vfuel : Nat) (j : Json),
      Spec.evalFuel (Go.RIso.specOf st' rs' reMatch) vfuel [] c j =
        Spec.evalFuel (Go.RIso.specOf exDocStore rs reMatch) vfuel [] 0 j := by
  have hok : (Go.resolve exDocEnv 2 0 "").isOk = true := by decide +kernel
  have hfresh : (match Go.checkStructure exDocStore (exDocStore.size + 2) [(0, "")] [] with
      | .ok fresh => fresh.map (·.1) == [0, 1, 2]
      | _ => false) = true := by decide
  cases hr : Go.resolve exDocEnv 2 0 "" with
  | ok rs =>
    obtain ⟨c, st', rs', h, h₂, -, e2, e⟩ := clone_validates_same_docs exDocStore 0 exDocEnv exDocL
      (fun a ha => Or.inl (by
        have : ∀ x ∈ [3, 4, 5], x < exDocStore.size := by decide
        exact this a ha))
      (fun a n ha hn f hf x hx => by
        have hcl : ∀ a ∈ [3, 4, 5], ∀ n, exDocStore.get? a = some n → ∀ f ∈ n.childFields, ∀ x ∈ f.ids, x ∈ [3, 4, 5] := by
          intro a ha
          simp only [List.mem_cons, List.not_mem_nil, or_false] at ha
          rcases ha with rfl | rfl | rfl <;> intro n hn <;> cases hn <;> decide
        exact hcl a ha n hn f hf x hx)
      (fun t key l ht hk => by
        cases ht
        simp only [Json.lookup_cons, Json.lookup_nil] at hk
        split at hk
        · cases hk; show 3 ∈ [3, 4, 5]; decide
        · cases hk)
      (fun fresh hf a ha hm => by
        rw [hf] at hfresh
        have he : fresh.map (·.1) = [0, 1, 2] := by simpa using hfresh
        rw [he] at hm
        have : ∀ x ∈ [3, 4, 5], x ∉ [0, 1, 2] := by decide
        exact this a ha hm)
      (by decide) 2 "" rs hr
    exact ⟨c, st', rs, rs', h, rfl, h₂, e2, e⟩
  | fuel => rw [hr] at hok; cases hok
  | panic => rw [hr] at hok; cases hok
  | err => rw [hr] at hok; cases hok

/-- … and the verdicts go through the Loader document: a string of length 2 is valid, a number is not -/
example : (match Go.resolve exDocEnv 2 0 "" with
    | .ok rs =>
      [Spec.valid (Go.RIso.specOf exDocStore rs fun _ _ => false) 4 0 (.str "xy"),
       Spec.valid (Go.RIso.specOf exDocStore rs fun _ _ => false) 4 0 (.num 1)]
    | _ => []) = [some true, some false] := by
  decide +kernel

/-- `clone_of_dag_resolves`: the converse direction fails, and must: a DAG (schema 1 is shared) is refused by Resolve
    ("do not form a tree"), its clone is a tree and resolves -/
example : (Go.resolve { exRefEnv with st := #[{ allOf := some [1, 1] }, { type := "string" }] } 1 0 "").verdict =
      some false ∧
    (match Go.clone #[{ allOf := some [1, 1] }, { type := "string" }] 0 with
      | .ok (c, st') => (Go.resolve { exRefEnv with st := st' } 1 c "").isOk
      | _ => false) = true := by
  constructor <;> decide +kernel

/-- why `st'.size ≤ B` is assumed: a "nil" id that the clone's own allocations reach stops being nil.
    Here node 0 has `not := some 1` with 1 dangling (nil); the clone is allocated at id 1 and its `not`
    field is still `some 1`: the clone is cyclic, the original marshals to {"not":null}.
    (Unrealisable in Go: the model's nil inside fields is `none`, inside slices / maps `nilId = 10^9`.) -/
example :
    Go.clone #[{ not := some 1 }] 0 = .ok (1, #[{ not := some 1 }, { not := some 1 }]) ∧
    Go.marshal #[{ not := some 1 }] 0 = .ok (.obj [("not", .null)]) ∧
    Go.marshal #[{ not := some 1 }, { not := some 1 }] 1 = .fuel :=
  ⟨by rfl, by rfl, by rfl⟩

end JSV.C20
