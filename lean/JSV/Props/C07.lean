/-
  C07 — annotations: what the evaluator's compressed annotation record stands for, that a failed
  subschema and `not` contribute nothing, and that `unevaluatedProperties` / `unevaluatedItems` are applied
  to exactly the complement of the evaluated set.  Property theorems only (proofs: JSV/Proofs/Refine*.lean).
-/
import JSV.Props.C01
namespace JSV.C07
open JSV Go GoVal Refine

/-- with no fuel the evaluator makes no statement -/
theorem validateFuel_zero (env : VEnv) (stack : List NodeId) (i : GoVal) (s : NodeId) :
    validateFuel env 0 stack i s = .fuel := rfl

/-! ## representation lemmas of the compressed record -/

theorem γ_merge_prop (a b : Anns) (k : String) : γprop (a.merge b) k = (γprop a k || γprop b k) :=
  γprop_merge a b k

theorem γ_merge_item (a b : Anns) (i : Nat) : γitem (a.merge b) i = (γitem a i || γitem b i) :=
  γitem_merge a b i

theorem γ_noteEndIndex (a : Anns) (e i : Nat) : γitem (a.noteEndIndex e) i = (γitem a i || decide (i < e)) :=
  γitem_noteEndIndex a e i

theorem γ_noteEndIndex_prop (a : Anns) (e : Nat) (k : String) : γprop (a.noteEndIndex e) k = γprop a k :=
  γprop_noteEndIndex a e k

theorem γ_noteIndex (a : Anns) (i' i : Nat) : γitem (a.noteIndex i') i = (γitem a i || decide (i = i')) :=
  γitem_noteIndex a i' i

theorem γ_noteIndex_prop (a : Anns) (i' : Nat) (k : String) : γprop (a.noteIndex i') k = γprop a k := rfl

theorem γ_noteProperties (a : Anns) (ps : List String) (k : String) :
    γprop (a.noteProperties ps) k = (γprop a k || ps.contains k) :=
  γprop_noteProperties a ps k

theorem γ_noteProperties_item (a : Anns) (ps : List String) (i : Nat) :
    γitem (a.noteProperties ps) i = γitem a i := rfl

theorem γ_empty (k : String) (i : Nat) : γprop {} k = false ∧ γitem {} i = false :=
  ⟨γprop_empty k, γitem_empty i⟩

/-! ## the annotations are exact -/

/-- whenever the Spec says valid with evaluated sets `ev`, the evaluator returns annotations standing for
    exactly `ev` on the properties / items of the instance -/
theorem annotations_exact (env : VEnv) (hwf : EnvWF env) (hst : StoreWF env.st) (fuel : Nat) (s : NodeId) (j : Json)
    (hj : Json.WF j = true) (ev : Spec.Ev)
    (h : Spec.evalFuel (specEnvOf env) fuel [] s j = some (some ev)) :
    ∃ a, Go.validateFuel env fuel [] (GoVal.ofJson j) s = .ok a ∧
      (∀ k, k ∈ keysOf j → γprop a k = ev.props.contains k) ∧
      (∀ i, i < lenOf j → γitem a i = ev.items.contains i) := by
  have := C01.validate_refines_spec_root env hwf hst fuel s j hj
  rw [h] at this
  exact this

/-- and an invalid schema yields an error: no annotations at all -/
theorem invalid_no_annotations (env : VEnv) (hwf : EnvWF env) (hst : StoreWF env.st) (fuel : Nat) (s : NodeId)
    (j : Json) (hj : Json.WF j = true) (h : Spec.evalFuel (specEnvOf env) fuel [] s j = some none) :
    Go.validateFuel env fuel [] (GoVal.ofJson j) s = .err := by
  have := C01.validate_refines_spec_root env hwf hst fuel s j hj
  rw [h] at this
  exact this

/-! ## `not` and failed subschemas contribute nothing -/

/-- Spec: `not` evaluates nothing -/
theorem not_contributes_nothing (sub : NodeId → Json → Spec.Out) (n : Node) (j : Json) (ev : Spec.Ev)
    (h : Spec.kwNot sub n j = some (some ev)) : ev.props = [] ∧ ev.items = [] := by
  unfold Spec.kwNot at h
  cases hn : n.not with
  | none => rw [hn] at h; simp only [Option.some.injEq] at h; subst h; exact ⟨rfl, rfl⟩
  | some t =>
    rw [hn] at h
    simp only [Option.map_eq_some_iff] at h
    obtain ⟨r, _, hr⟩ := h
    split at hr
    · cases hr
    · simp only [Option.some.injEq] at hr; subst hr; exact ⟨rfl, rfl⟩

/-- model: the `not` block never changes the annotations -/
theorem not_block_keeps_annotations (rec : Go.Rec) (stack : List NodeId) (n : Node) (inst : GoVal) (anns a : Anns)
    (h : bNot rec stack n inst anns = .ok a) : a = anns := by
  unfold bNot at h
  cases hn : n.not with
  | none => rw [hn] at h; exact (Res.ok.inj h).symm
  | some s =>
    rw [hn] at h
    simp only [tryValid] at h
    cases hr : rec stack inst s with
    | fuel => rw [hr] at h; simp at h
    | panic => rw [hr] at h; simp at h
    | err => rw [hr] at h; simp only [Res.bind_ok, Bool.false_eq_true, if_false] at h; exact (Res.ok.inj h).symm
    | ok a' => rw [hr] at h; simp at h

/-- Spec: an invalid branch adds nothing to the union over the valid branches (anyOf / oneOf) -/
theorem failed_subschema_contributes_nothing (rs1 rs2 : List Spec.R) :
    Spec.validUnion (rs1 ++ none :: rs2) = Spec.validUnion (rs1 ++ rs2) := by
  simp [Spec.validUnion]

/-- Spec: in a conjunction (allOf, the keywords of one schema object) an invalid member makes the whole
    invalid, so nothing is collected at all -/
theorem failed_conjunct_no_result (rs1 rs2 : List Spec.R) : Spec.conj (rs1 ++ none :: rs2) = none := by
  simp [Spec.conj]

/-- model: `valid(s, anns)` on a failing subschema leaves the annotations untouched -/
theorem failed_tryValid_keeps_annotations (rec : Go.Rec) (stack : List NodeId) (inst : GoVal) (s : NodeId)
    (anns : Anns) (c : Bool) (h : rec stack inst s = .err) :
    tryValid rec stack inst s anns c = .ok (false, anns) := by
  unfold tryValid; rw [h]

/-- model: an anyOf branch that fails is skipped without touching the annotations -/
theorem anyOf_failed_branch (rec : Go.Rec) (stack : List NodeId) (inst : GoVal) (s : NodeId) (ss : List NodeId)
    (anns : Anns) (nerr : Nat) (h : rec stack inst s = .err) :
    anyOfLoop rec stack inst (s :: ss) anns nerr = anyOfLoop rec stack inst ss anns (nerr + 1) := by
  simp [anyOfLoop, tryValid, h]

/-- through the refinement: a branch the Spec calls invalid is such a failing branch of the model -/
theorem spec_invalid_branch_keeps_annotations (env : VEnv) (hwf : EnvWF env) (hst : StoreWF env.st) (fuel : Nat)
    (stack : List NodeId) (hstack : ∀ x, x ∈ stack → (env.info? x).isSome = true) (s : NodeId) (j : Json)
    (hj : Json.WF j = true) (h : Spec.evalFuel (specEnvOf env) fuel stack s j = some none) (anns : Anns) (c : Bool) :
    tryValid (validateFuel env fuel) stack (GoVal.ofJson j) s anns c = .ok (false, anns) := by
  apply failed_tryValid_keeps_annotations
  have := C01.validate_refines_spec env hwf hst fuel stack hstack s j hj
  rw [h] at this
  exact this

/-! ## unevaluatedProperties / unevaluatedItems see exactly the complement -/

/-- Spec: the subschema is applied to the values of exactly the keys outside `ev.props` -/
theorem unevaluatedProps_spec (sub : NodeId → Json → Spec.Out) (n : Node) (kvs : List (String × Json)) (ev : Spec.Ev)
    (t : NodeId) (ht : n.unevaluatedProperties = some t) :
    Spec.kwUnevaluatedProps sub n (.obj kvs) ev =
      (Spec.sequence ((kvs.filter fun p => !ev.props.contains p.1).map fun p => sub t p.2)).map fun rs =>
        if Spec.allHold rs then some { props := kvs.map (·.1) } else none := by
  unfold Spec.kwUnevaluatedProps
  simp only [ht]

/-- model, given annotations that stand for `ev`: the loop calls the subschema on exactly those values, in order -/
theorem unevaluatedProps_exact (rec : Go.Rec) (stack : List NodeId) (u : NodeId) (anns : Anns)
    (kvs : List (String × Json)) (ev : Spec.Ev) (hm : AnnsMatch (.obj kvs) anns ev)
    (hall : anns.allProperties = false) :
    unevalPropsLoop rec stack u anns (GoVal.ofJsonObj kvs) =
      callLoop rec stack ((kvs.filter fun p => !ev.props.contains p.1).map fun p => (u, wrap p.2)) := by
  rw [unevalPropsLoop_eq, List.map_map]
  have : (kvs.filter fun p => !anns.evaluatedProperties.contains p.1)
      = kvs.filter fun p => !ev.props.contains p.1 := by
    apply List.filter_congr
    intro p hp
    have := hm.1 p.1 (List.mem_map.2 ⟨p, hp, rfl⟩)
    rw [← this]
    simp [γprop, hall]
  rw [this]
  rfl

/-- when `allProperties` is already set nothing is left: every property of the instance is evaluated -/
theorem unevaluatedProps_none_left (anns : Anns) (kvs : List (String × Json)) (ev : Spec.Ev)
    (hm : AnnsMatch (.obj kvs) anns ev) (hall : anns.allProperties = true) :
    (kvs.filter fun p => !ev.props.contains p.1) = [] := by
  rw [List.filter_eq_nil_iff]
  intro p hp
  have := hm.1 p.1 (List.mem_map.2 ⟨p, hp, rfl⟩)
  rw [← this]
  simp [γprop, hall]

/-- the same for unevaluatedItems -/
theorem unevaluatedItems_exact (rec : Go.Rec) (stack : List NodeId) (u : NodeId) (anns : Anns)
    (xs : List Json) (ev : Spec.Ev) (hm : AnnsMatch (.arr xs) anns ev) (hall : anns.allItems = false) :
    unevalItemsLoop rec stack u anns (GoVal.ofJsonList xs) 0 =
      callLoop rec stack (((xs.zip (List.range' 0 xs.length)).filter fun p => !ev.items.contains p.2).map
        fun p => (u, wrap p.1)) := by
  rw [ofJsonList_eq_wrap, unevalItemsLoop_eq, List.map_map]
  have : ((xs.zip (List.range' 0 xs.length)).filter fun p =>
        !(decide (p.2 < anns.endIndex) || anns.evaluatedIndexes.contains p.2))
      = (xs.zip (List.range' 0 xs.length)).filter fun p => !ev.items.contains p.2 := by
    apply List.filter_congr
    intro p hp
    have := hm.2 p.2 (mem_zip_range'_lt hp).2
    rw [← this]
    simp [γitem, hall]
  rw [this]
  rfl

/-- a valid `unevaluatedProperties` marks every property of the instance as evaluated -/
theorem unevaluatedProps_marks_all (sub : NodeId → Json → Spec.Out) (n : Node) (kvs : List (String × Json))
    (ev e : Spec.Ev) (t : NodeId) (ht : n.unevaluatedProperties = some t)
    (h : Spec.kwUnevaluatedProps sub n (.obj kvs) ev = some (some e)) :
    ∀ k, k ∈ kvs.map (·.1) → e.props.contains k = true := by
  rw [unevaluatedProps_spec sub n kvs ev t ht] at h
  simp only [Option.map_eq_some_iff] at h
  obtain ⟨rs, _, hr⟩ := h
  split at hr
  · simp only [Option.some.injEq] at hr
    subst hr
    intro k hk
    simpa using hk
  · cases hr

/-! ## The hypotheses are satisfiable (environment of C01: allOf + properties + unevaluatedProperties:false) -/

open C01 in
/-- the Spec's answer on the valid instance: `a` is evaluated (by the allOf branch, and by unevaluatedProperties) -/
example : Spec.evalFuel (specEnvOf exEnv) 3 [] 0 exGood = some (some { props := ["a", "a"], items := [] }) := by rfl

open C01 in
/-- `annotations_exact` applied -/
example : ∃ a, Go.validateFuel exEnv 3 [] (GoVal.ofJson exGood) 0 = .ok a ∧
    (∀ k, k ∈ keysOf exGood → γprop a k = ["a", "a"].contains k) ∧
    (∀ i, i < lenOf exGood → γitem a i = ([] : List Nat).contains i) :=
  annotations_exact exEnv exEnv_wf exEnv_store 3 0 exGood (by decide) _ (by rfl)

open C01 in
/-- `invalid_no_annotations` applied -/
example : Go.validateFuel exEnv 3 [] (GoVal.ofJson exBad) 0 = .err :=
  invalid_no_annotations exEnv exEnv_wf exEnv_store 3 0 exBad (by decide) (by rfl)

open C01 in
/-- the `false` subschema (`{"not":{}}`) on the value of `b`: `not` fails, the Spec says invalid, and
    `spec_invalid_branch_keeps_annotations` applies (stack = the root, which has a record) -/
example (anns : Anns) :
    tryValid (validateFuel exEnv 2) [0] (GoVal.ofJson .null) 3 anns true = .ok (false, anns) :=
  spec_invalid_branch_keeps_annotations exEnv exEnv_wf exEnv_store 2 [0] (by decide) 3 .null (by decide)
    (by rfl) anns true

open C01 in
/-- `not_contributes_nothing`: node 3 is `{"not":{}}`; on any instance the inner `{}` is valid so `not` fails;
    node 4 (`{}`) has no `not`, the keyword evaluates to the empty set -/
example : Spec.kwNot (Spec.evalFuel (specEnvOf exEnv) 1 [4]) {} .null = some (some {}) := by rfl
example : ({} : Spec.Ev).props = [] ∧ ({} : Spec.Ev).items = [] :=
  not_contributes_nothing (fun _ _ => none) {} .null {} (by rfl)

/-- `not_block_keeps_annotations`: a `not` whose subschema fails -/
example : bNot (fun _ _ _ => .err) [] { not := some 7 } .invalid { allItems := true } = .ok { allItems := true } := by
  rfl
example : ({ allItems := true } : Anns) = { allItems := true } :=
  not_block_keeps_annotations (fun _ _ _ => .err) [] { not := some 7 } .invalid { allItems := true } _ (by rfl)

/-- `failed_subschema_contributes_nothing` on three branches, the middle one invalid -/
example : Spec.validUnion [some { props := ["a"] }, none, some { props := ["b"] }]
    = Spec.validUnion [some { props := ["a"] }, some { props := ["b"] }] :=
  failed_subschema_contributes_nothing [some { props := ["a"] }] [some { props := ["b"] }]

/-- `unevaluatedProps_exact`: with `a` evaluated, the subschema is applied to the value of `b` only -/
example (rec : Go.Rec) :
    unevalPropsLoop rec [0] 3 { evaluatedProperties := ["a"] } (GoVal.ofJsonObj [("a", .str "x"), ("b", .null)])
      = callLoop rec [0] [(3, wrap .null)] :=
  unevaluatedProps_exact rec [0] 3 { evaluatedProperties := ["a"] } [("a", .str "x"), ("b", .null)]
    { props := ["a"] } (by constructor <;> intros <;> simp [γprop, γitem]) rfl

/-- `unevaluatedItems_exact`: prefix of length 1 evaluated, index 2 noted by `contains` -/
example (rec : Go.Rec) :
    unevalItemsLoop rec [0] 3 { endIndex := 1, evaluatedIndexes := [2] }
        (GoVal.ofJsonList [.null, .bool true, .str "x"]) 0
      = callLoop rec [0] [(3, wrap (.bool true))] :=
  unevaluatedItems_exact rec [0] 3 { endIndex := 1, evaluatedIndexes := [2] } [.null, .bool true, .str "x"]
    { items := [0, 2] }
    (by
      constructor
      · intros; simp [γprop]
      · intro i hi
        have : i < 3 := hi
        match i, this with
        | 0, _ => decide
        | 1, _ => decide
        | 2, _ => decide) rfl

/-- `γ_merge`, `γ_noteEndIndex`, `γ_noteIndex`, `γ_noteProperties` on concrete records -/
example : γitem (({ endIndex := 2 } : Anns).merge { evaluatedIndexes := [5] }) 5 = true := by decide
example : γitem (({} : Anns).noteEndIndex 3) 2 = true ∧ γitem (({} : Anns).noteEndIndex 3) 3 = false := by decide
example : γprop (({} : Anns).noteProperties ["a"]) "a" = true ∧ γprop (({} : Anns).noteProperties ["a"]) "b" = false := by
  decide

end JSV.C07
