/-
  C07 — annotations: what the evaluator's compressed annotation record stands for, that a failed
  subschema and `not` contribute nothing, and that `unevaluatedProperties` / `unevaluatedItems` are applied
  to exactly the complement of the evaluated set.  Property theorems only (proofs: JSV/Proofs/Refine*.lean; for the
  section "algebraic laws" — `child_locations_invisible`, `cousins_invisible` — JSV/Proofs/SpecLawsLoc.lean).
-/
import JSV.Props.C01
import JSV.Proofs.SpecLawsLoc
namespace JSV.C07
open JSV Go GoVal Refine

/-- with no fuel the evaluator makes no statement -/
theorem validateFuel_zero (env : VEnv) (stack : List NodeId) (i : GoVal) (s : NodeId) :
    validateFuel env 0 stack i s = .fuel := rfl

/-! ## representation lemmas of the compressed record -/

theorem γ_merge_prop (a b : Anns) (k : String) : γprop (a.merge b) k = (γprop a k || γprop b k) :=
  γprop_merge a b k

theorem γ_merge_item (a b : Anns) (i : Nat) : γitem (a.merge b) i = (γitem a i || γitem b i) :=
  γitem_merge a b i

theorem γ_noteEndIndex (a : Anns) (e i : Nat) : γitem (a.noteEndIndex e) i = (γitem a i || decide (i < e)) :=
  γitem_noteEndIndex a e i

theorem γ_noteEndIndex_prop (a : Anns) (e : Nat) (k : String) : γprop (a.noteEndIndex e) k = γprop a k :=
  γprop_noteEndIndex a e k

theorem γ_noteIndex (a : Anns) (i' i : Nat) : γitem (a.noteIndex i') i = (γitem a i || decide (i = i')) :=
  γitem_noteIndex a i' i

theorem γ_noteIndex_prop (a : Anns) (i' : Nat) (k : String) : γprop (a.noteIndex i') k = γprop a k := rfl

theorem γ_noteProperties (a : Anns) (ps : List String) (k : String) :
    γprop (a.noteProperties ps) k = (γprop a k || ps.contains k) :=
  γprop_noteProperties a ps k

theorem γ_noteProperties_item (a : Anns) (ps : List String) (i : Nat) :
    γitem (a.noteProperties ps) i = γitem a i := rfl

theorem γ_empty (k : String) (i : Nat) : γprop {} k = false ∧ γitem {} i = false :=
  ⟨γprop_empty k, γitem_empty i⟩

/-! ## the annotations are exact -/

/-- whenever the Spec says valid with evaluated sets `ev`, the evaluator returns annotations standing for
    exactly `ev` on the properties / items of the instance -/
theorem annotations_exact (env : VEnv) (hwf : EnvWF env) (hst : StoreWF env.st) (fuel : Nat) (s : NodeId) (j : Json)
    (hj : Json.WF j = true) (ev : Spec.Ev)
    (h : Spec.evalFuel (specEnvOf env) fuel [] s j = some (some ev)) :
    ∃ a, Go.validateFuel env fuel [] (GoVal.ofJson j) s = .ok a ∧
      (∀ k, k ∈ keysOf j → γprop a k = ev.props.contains k) ∧
      (∀ i, i < lenOf j → γitem a i = ev.items.contains i) := by
  have := C01.validate_refines_spec_root env hwf hst fuel s j hj
  rw [h] at this
  exact this

/-- and an invalid schema yields an error: no annotations at all -/
theorem invalid_no_annotations (env : VEnv) (hwf : EnvWF env) (hst : StoreWF env.st) (fuel : Nat) (s : NodeId)
    (j : Json) (hj : Json.WF j = true) (h : Spec.evalFuel (specEnvOf env) fuel [] s j = some none) :
    Go.validateFuel env fuel [] (GoVal.ofJson j) s = .err := by
  have := C01.validate_refines_spec_root env hwf hst fuel s j hj
  rw [h] at this
  exact this

/-! ## `not` and failed subschemas contribute nothing -/

/-- Spec: `not` evaluates nothing -/
theorem not_contributes_nothing (sub : NodeId → Json → Spec.Out) (n : Node) (j : Json) (ev : Spec.Ev)
    (h : Spec.kwNot sub n j = some (some ev)) : ev.props = [] ∧ ev.items = [] := by
  unfold Spec.kwNot at h
  cases hn : n.not with
  | none => rw [hn] at h; simp only [Option.some.injEq] at h; subst h; exact ⟨rfl, rfl⟩
  | some t =>
    rw [hn] at h
    simp only [Option.map_eq_some_iff] at h
    obtain ⟨r, _, hr⟩ := h
    split at hr
    · cases hr
    · simp only [Option.some.injEq] at hr; subst hr; exact ⟨rfl, rfl⟩

/-- model: the `not` block never changes the annotations -/
theorem not_block_keeps_annotations (rec : Go.Rec) (stack : List NodeId) (n : Node) (inst : GoVal) (anns a : Anns)
    (h : bNot rec stack n inst anns = .ok a) : a = anns := by
  unfold bNot at h
  cases hn : n.not with
  | none => rw [hn] at h; exact (Res.ok.inj h).symm
  | some s =>
    rw [hn] at h
    simp only [tryValid] at h
    cases hr : rec stack inst s with
    | fuel => rw [hr] at h; simp at h
    | panic => rw [hr] at h; simp at h
    | err => rw [hr] at h; simp only [Res.bind_ok, Bool.false_eq_true, if_false] at h; exact (Res.ok.inj h).symm
    | ok a' => rw [hr] at h; simp at h

/-- Spec: an invalid branch adds nothing to the union over the valid branches (anyOf / oneOf) -/
theorem failed_subschema_contributes_nothing (rs1 rs2 : List Spec.R) :
    Spec.validUnion (rs1 ++ none :: rs2) = Spec.validUnion (rs1 ++ rs2) := by
  simp [Spec.validUnion]

/-- Spec: in a conjunction (allOf, the keywords of one schema object) an invalid member makes the whole
    invalid, so nothing is collected at all -/
theorem failed_conjunct_no_result (rs1 rs2 : List Spec.R) : Spec.conj (rs1 ++ none :: rs2) = none := by
  simp [Spec.conj]

/-- model: `valid(s, anns)` on a failing subschema leaves the annotations untouched -/
theorem failed_tryValid_keeps_annotations (rec : Go.Rec) (stack : List NodeId) (inst : GoVal) (s : NodeId)
    (anns : Anns) (c : Bool) (h : rec stack inst s = .err) :
    tryValid rec stack inst s anns c = .ok (false, anns) := by
  unfold tryValid; rw [h]

/-- model: an anyOf branch that fails is skipped without touching the annotations -/
theorem anyOf_failed_branch (rec : Go.Rec) (stack : List NodeId) (inst : GoVal) (s : NodeId) (ss : List NodeId)
    (anns : Anns) (nerr : Nat) (h : rec stack inst s = .err) :
    anyOfLoop rec stack inst (s :: ss) anns nerr = anyOfLoop rec stack inst ss anns (nerr + 1) := by
  simp [anyOfLoop, tryValid, h]

/-- through the refinement: a branch the Spec calls invalid is such a failing branch of the model -/
theorem spec_invalid_branch_keeps_annotations (env : VEnv) (hwf : EnvWF env) (hst : StoreWF env.st) (fuel : Nat)
    (stack : List NodeId) (hstack : ∀ x, x ∈ stack → (env.info? x).isSome = true) (s : NodeId) (j : Json)
    (hj : Json.WF j = true) (h : Spec.evalFuel (specEnvOf env) fuel stack s j = some none) (anns : Anns) (c : Bool) :
    tryValid (validateFuel env fuel) stack (GoVal.ofJson j) s anns c = .ok (false, anns) := by
  apply failed_tryValid_keeps_annotations
  have := C01.validate_refines_spec env hwf hst fuel stack hstack s j hj
  rw [h] at this
  exact this

/-! ## unevaluatedProperties / unevaluatedItems see exactly the complement

The statements below are about the keyword functions and the evaluator's loops, for an arbitrary schema object.  One step of
the Spec applies the keyword functions to `Spec.vocab env.draft n`: under 2020-12 that is `n` itself (`C02.draft2020_vocab`),
under draft-07 the two keywords are unknown and absent (`C02.draft7_unevaluated`, finding D27) — so, read as statements about
validation, they are statements about 2020-12. -/

/-- Spec: the subschema is applied to the values of exactly the keys outside `ev.props` -/
theorem unevaluatedProps_spec (sub : NodeId → Json → Spec.Out) (n : Node) (kvs : List (String × Json)) (ev : Spec.Ev)
    (t : NodeId) (ht : n.unevaluatedProperties = some t) :
    Spec.kwUnevaluatedProps sub n (.obj kvs) ev =
      (Spec.sequence ((kvs.filter fun p => !ev.props.contains p.1).map fun p => sub t p.2)).map fun rs =>
        if Spec.allHold rs then some { props := kvs.map (·.1) } else none := by
  unfold Spec.kwUnevaluatedProps
  simp only [ht]

/-- model, given annotations that stand for `ev`: the loop calls the subschema on exactly those values, in order -/
theorem unevaluatedProps_exact (rec : Go.Rec) (stack : List NodeId) (u : NodeId) (anns : Anns)
    (kvs : List (String × Json)) (ev : Spec.Ev) (hm : AnnsMatch (.obj kvs) anns ev)
    (hall : anns.allProperties = false) :
    unevalPropsLoop rec stack u anns (GoVal.ofJsonObj kvs) =
      callLoop rec stack ((kvs.filter fun p => !ev.props.contains p.1).map fun p => (u, wrap p.2)) := by
  rw [unevalPropsLoop_eq, List.map_map]
  have : (kvs.filter fun p => !anns.evaluatedProperties.contains p.1)
      = kvs.filter fun p => !ev.props.contains p.1 := by
    apply List.filter_congr
    intro p hp
    have := hm.1 p.1 (List.mem_map.2 ⟨p, hp, rfl⟩)
    rw [← this]
    simp [γprop, hall]
  rw [this]
  rfl

/-- when `allProperties` is already set nothing is left: every property of the instance is evaluated -/
theorem unevaluatedProps_none_left (anns : Anns) (kvs : List (String × Json)) (ev : Spec.Ev)
    (hm : AnnsMatch (.obj kvs) anns ev) (hall : anns.allProperties = true) :
    (kvs.filter fun p => !ev.props.contains p.1) = [] := by
  rw [List.filter_eq_nil_iff]
  intro p hp
  have := hm.1 p.1 (List.mem_map.2 ⟨p, hp, rfl⟩)
  rw [← this]
  simp [γprop, hall]

/-- the same for unevaluatedItems -/
theorem unevaluatedItems_exact (rec : Go.Rec) (stack : List NodeId) (u : NodeId) (anns : Anns)
    (xs : List Json) (ev : Spec.Ev) (hm : AnnsMatch (.arr xs) anns ev) (hall : anns.allItems = false) :
    unevalItemsLoop rec stack u anns (GoVal.ofJsonList xs) 0 =
      callLoop rec stack (((xs.zip (List.range' 0 xs.length)).filter fun p => !ev.items.contains p.2).map
        fun p => (u, wrap p.1)) := by
  rw [ofJsonList_eq_wrap, unevalItemsLoop_eq, List.map_map]
  have : ((xs.zip (List.range' 0 xs.length)).filter fun p =>
        !(decide (p.2 < anns.endIndex) || anns.evaluatedIndexes.contains p.2))
      = (xs.zip (List.range' 0 xs.length)).filter fun p => !ev.items.contains p.2 := by
    apply List.filter_congr
    intro p hp
    have := hm.2 p.2 (mem_zip_range'_lt hp).2
    rw [← this]
    simp [γitem, hall]
  rw [this]
  rfl

/-- a valid `unevaluatedProperties` marks every property of the instance as evaluated -/
theorem unevaluatedProps_marks_all (sub : NodeId → Json → Spec.Out) (n : Node) (kvs : List (String × Json))
    (ev e : Spec.Ev) (t : NodeId) (ht : n.unevaluatedProperties = some t)
    (h : Spec.kwUnevaluatedProps sub n (.obj kvs) ev = some (some e)) :
    ∀ k, k ∈ kvs.map (·.1) → e.props.contains k = true := by
  rw [unevaluatedProps_spec sub n kvs ev t ht] at h
  simp only [Option.map_eq_some_iff] at h
  obtain ⟨rs, _, hr⟩ := h
  split at hr
  · simp only [Option.some.injEq] at hr
    subst hr
    intro k hk
    simpa using hk
  · cases hr

/-! ## The hypotheses are satisfiable (environment of C01: allOf + properties + unevaluatedProperties:false) -/

open C01 in
/-- the Spec's answer on the valid instance: `a` is evaluated (by the allOf branch, and by unevaluatedProperties) -/
example : Spec.evalFuel (specEnvOf exEnv) 3 [] 0 exGood = some (some { props := ["a", "a"], items := [] }) := by rfl

open C01 in
/-- `annotations_exact` applied -/
example : ∃ a, Go.validateFuel exEnv 3 [] (GoVal.ofJson exGood) 0 = .ok a ∧
    (∀ k, k ∈ keysOf exGood → γprop a k = ["a", "a"].contains k) ∧
    (∀ i, i < lenOf exGood → γitem a i = ([] : List Nat).contains i) :=
  annotations_exact exEnv exEnv_wf exEnv_store 3 0 exGood (by decide) _ (by rfl)

open C01 in
/-- `invalid_no_annotations` applied -/
example : Go.validateFuel exEnv 3 [] (GoVal.ofJson exBad) 0 = .err :=
  invalid_no_annotations exEnv exEnv_wf exEnv_store 3 0 exBad (by decide) (by rfl)

open C01 in
/-- the `false` subschema (`{"not":{}}`) on the value of `b`: `not` fails, the Spec says invalid, and
    `spec_invalid_branch_keeps_annotations` applies (stack = the root, which has a record) -/
example (anns : Anns) :
    tryValid (validateFuel exEnv 2) [0] (GoVal.ofJson .null) 3 anns true = .ok (false, anns) :=
  spec_invalid_branch_keeps_annotations exEnv exEnv_wf exEnv_store 2 [0] (by decide) 3 .null (by decide)
    (by rfl) anns true

open C01 in
/-- `not_contributes_nothing`: node 3 is `{"not":{}}`; on any instance the inner `{}` is valid so `not` fails;
    node 4 (`{}`) has no `not`, the keyword evaluates to the empty set -/
example : Spec.kwNot (Spec.evalFuel (specEnvOf exEnv) 1 [4]) {} .null = some (some {}) := by rfl
example : ({} : Spec.Ev).props = [] ∧ ({} : Spec.Ev).items = [] :=
  not_contributes_nothing (fun _ _ => none) {} .null {} (by rfl)

/-- `not_block_keeps_annotations`: a `not` whose subschema fails -/
example : bNot (fun _ _ _ => .err) [] { not := some 7 } .invalid { allItems := true } = .ok { allItems := true } := by
  rfl
example : ({ allItems := true } : Anns) = { allItems := true } :=
  not_block_keeps_annotations (fun _ _ _ => .err) [] { not := some 7 } .invalid { allItems := true } _ (by rfl)

/-- `failed_subschema_contributes_nothing` on three branches, the middle one invalid -/
example : Spec.validUnion [some { props := ["a"] }, none, some { props := ["b"] }]
    = Spec.validUnion [some { props := ["a"] }, some { props := ["b"] }] :=
  failed_subschema_contributes_nothing [some { props := ["a"] }] [some { props := ["b"] }]

/-- `unevaluatedProps_exact`: with `a` evaluated, the subschema is applied to the value of `b` only -/
example (rec : Go.Rec) :
    unevalPropsLoop rec [0] 3 { evaluatedProperties := ["a"] } (GoVal.ofJsonObj [("a", .str "x"), ("b", .null)])
      = callLoop rec [0] [(3, wrap .null)] :=
  unevaluatedProps_exact rec [0] 3 { evaluatedProperties := ["a"] } [("a", .str "x"), ("b", .null)]
    { props := ["a"] } (by constructor <;> intros <;> simp [γprop, γitem]) rfl

/-- `unevaluatedItems_exact`: prefix of length 1 evaluated, index 2 noted by `contains` -/
example (rec : Go.Rec) :
    unevalItemsLoop rec [0] 3 { endIndex := 1, evaluatedIndexes := [2] }
        (GoVal.ofJsonList [.null, .bool true, .str "x"]) 0
      = callLoop rec [0] [(3, wrap (.bool true))] :=
  unevaluatedItems_exact rec [0] 3 { endIndex := 1, evaluatedIndexes := [2] } [.null, .bool true, .str "x"]
    { items := [0, 2] }
    (by
      constructor
      · intros; simp [γprop]
      · intro i hi
        have : i < 3 := hi
        match i, this with
        | 0, _ => decide
        | 1, _ => decide
        | 2, _ => decide) rfl

/-- `γ_merge`, `γ_noteEndIndex`, `γ_noteIndex`, `γ_noteProperties` on concrete records -/
example : γitem (({ endIndex := 2 } : Anns).merge { evaluatedIndexes := [5] }) 5 = true := by decide
example : γitem (({} : Anns).noteEndIndex 3) 2 = true ∧ γitem (({} : Anns).noteEndIndex 3) 3 = false := by decide
example : γprop (({} : Anns).noteProperties ["a"]) "a" = true ∧ γprop (({} : Anns).noteProperties ["a"]) "b" = false := by
  decide

/-! ## algebraic laws

The annotation halves of the laws of `C01` (double negation, `if` alone), and the two locality statements: evaluations at
child instance locations, and in subschemas applied there by a sibling branch ("cousins"), are invisible at this location. -/

section laws
variable (env : Spec.Env) (fuel : Nat) (scope : List NodeId) (s : NodeId) (n : Node) (j : Json)

/-- Spec: `not (not t)`, where valid, evaluates NOTHING — whatever `t` evaluated -/
theorem not_not_evaluates_nothing (m : NodeId) (nm : Node) (t : NodeId) (hn : env.st.get? s = some n)
    (hk : Laws.keywords n = { not := some m }) (hm : env.st.get? m = some nm) (hkm : Laws.keywords nm = { not := some t })
    (ev : Spec.Ev) (h : Spec.evalFuel env (fuel + 2) scope s j = some (some ev)) : ev.props = [] ∧ ev.items = [] := by
  rw [C01.not_not env fuel scope s n j m nm t hn hk hm hkm] at h
  cases hr : Spec.evalFuel env fuel (scope ++ [s] ++ [m]) t j with
  | none => rw [hr] at h; cases h
  | some r =>
    rw [hr] at h
    cases r with
    | none => cases h
    | some e =>
      simp only [Option.map_some, Option.some.injEq] at h
      subst h; exact ⟨rfl, rfl⟩

/-- Spec: `if` alone with a condition that holds evaluates what the condition evaluated -/
theorem if_alone_annotations (c : NodeId) (evc : Spec.Ev) (hn : env.st.get? s = some n)
    (hk : Laws.keywords n = { if_ := some c }) (hc : Spec.evalFuel env fuel (scope ++ [s]) c j = some (some evc)) :
    Spec.evalFuel env (fuel + 1) scope s j = some (some evc) := by
  rw [C01.if_alone env fuel scope s n j c hn hk, hc]; rfl

/-- Spec: `if` alone with a condition that fails is valid and evaluates nothing -/
theorem if_alone_failed_condition (c : NodeId) (hn : env.st.get? s = some n) (hk : Laws.keywords n = { if_ := some c })
    (hc : Spec.evalFuel env fuel (scope ++ [s]) c j = some none) :
    Spec.evalFuel env (fuel + 1) scope s j = some (some {}) := by
  rw [C01.if_alone env fuel scope s n j c hn hk, hc]; rfl

/-- **`child_locations_invisible`.**  The keywords that apply subschemas at child instance locations use of these
    applications the verdict only: erasing what they evaluated (`Laws.forget`) changes nothing — neither the verdict of
    the keyword nor what it reports as evaluated at this location -/
theorem child_locations_invisible (sub : NodeId → Json → Spec.Out) (ev : Spec.Ev) :
    Spec.kwProps env (fun t v => Laws.forget (sub t v)) n j = Spec.kwProps env sub n j ∧
    Spec.kwPropertyNames (fun t v => Laws.forget (sub t v)) n j = Spec.kwPropertyNames sub n j ∧
    Spec.kwItems env (fun t v => Laws.forget (sub t v)) n j = Spec.kwItems env sub n j ∧
    Spec.kwContains (fun t v => Laws.forget (sub t v)) n j = Spec.kwContains sub n j ∧
    Spec.kwUnevaluatedItems (fun t v => Laws.forget (sub t v)) n j ev = Spec.kwUnevaluatedItems sub n j ev ∧
    Spec.kwUnevaluatedProps (fun t v => Laws.forget (sub t v)) n j ev = Spec.kwUnevaluatedProps sub n j ev :=
  ⟨Laws.kwProps_forget env sub n j, Laws.kwPropertyNames_forget sub n j, Laws.kwItems_forget env sub n j,
    Laws.kwContains_forget sub n j, Laws.kwUnevaluatedItems_forget sub n j ev, Laws.kwUnevaluatedProps_forget sub n j ev⟩

/-- … concretely: a schema object whose only keyword is `properties`, valid on an object, evaluates exactly the members it
    names and no item, whatever its subschemas evaluated inside the member values -/
theorem properties_evaluates_names_only (ps : List (String × NodeId)) (kvs : List (String × Json)) (ev : Spec.Ev)
    (hn : env.st.get? s = some n) (hk : Laws.keywords n = { properties := some ps })
    (h : Spec.evalFuel env (fuel + 1) scope s (.obj kvs) = some (some ev)) :
    ev = { props := (kvs.filter fun p => (Json.lookup p.1 ps).isSome).map (·.1), items := [] } := by
  rw [Laws.evalFuel_succ_of env fuel scope s _ n _ hn hk] at h
  have h' := Laws.specBody_props env (Spec.evalFuel env fuel) scope s (.obj kvs) (some ps) none none
  rw [h'] at h
  exact Laws.kwProps_properties_only env _ ps kvs ev h

/-- one step of the Spec at the instance `j` under two families of recursive calls that agree at `j` itself and, at every
    other instance, on definedness and verdict: the same outcome, evaluated sets included -/
theorem step_sees_verdicts_elsewhere (rec rec' : Spec.Rec) (h : Laws.AgreeAt j rec rec') :
    Spec.evalStep env rec' scope s j = Spec.evalStep env rec scope s j :=
  Laws.evalStep_agree env rec rec' scope s j h

/-- **`cousins_invisible`.**  Every application of the Spec at `(s, j)` is one step over the recursive calls with the
    evaluated sets ERASED at every instance other than `j` (`Laws.eraseOff`).  The law holds for every schema object and
    every fuel, hence at every level of the in-place nesting (`allOf` / `anyOf` / `oneOf` / `if` / `$ref` …, applied to `j`
    itself and therefore not erased): whatever a subschema, a sibling branch or a subschema of a sibling branch evaluated
    at a child location is not visible to the `unevaluated*` of this schema object, nor in what it reports itself. -/
theorem cousins_invisible :
    Spec.evalFuel env (fuel + 1) scope s j = Spec.evalStep env (Laws.eraseOff j (Spec.evalFuel env fuel)) scope s j :=
  Laws.evalFuel_eraseOff env fuel scope s j

end laws

section laws_go
variable (env : VEnv) (hwf : EnvWF env) (hst : StoreWF env.st) (fuel : Nat) (stack : List NodeId)
  (hstack : ∀ x, x ∈ stack → (env.info? x).isSome = true) (s : NodeId) (n : Node) (j : Json) (hj : Json.WF j = true)
include hwf hst hstack hj

/-- evaluator: `not (not t)` returns annotations that mark nothing as evaluated -/
theorem not_not_drops_annotations (m : NodeId) (nm : Node) (t : NodeId) (hn : env.st.get? s = some n)
    (hk : Laws.keywords n = { not := some m }) (hm : env.st.get? m = some nm) (hkm : Laws.keywords nm = { not := some t })
    (hdef : (Spec.evalFuel (specEnvOf env) fuel (stack ++ [s] ++ [m]) t j).isSome = true) (a : Anns)
    (ha : Go.validateFuel env (fuel + 2) stack (GoVal.ofJson j) s = .ok a) :
    (∀ k, k ∈ keysOf j → γprop a k = false) ∧ (∀ i, i < lenOf j → γitem a i = false) := by
  obtain ⟨r, hr⟩ := Option.isSome_iff_exists.1 hdef
  have hl := C01.not_not (specEnvOf env) fuel stack s n j m nm t hn hk hm hkm
  rw [hr] at hl
  cases r with
  | none =>
    have := Laws.go_verdict env hwf hst _ _ hstack s j hj _ hl
    rw [ha] at this; cases this
  | some e =>
    obtain ⟨a', ha', hm'⟩ := Laws.go_anns env hwf hst _ _ hstack s j hj {} hl
    rw [ha] at ha'; cases ha'
    exact (Laws.AnnsMatch_empty_iff j a).1 hm'

/-- evaluator: `if` alone whose condition holds returns annotations for the sets the condition's annotations stand for -/
theorem if_alone_annotations_go (c : NodeId) (evc : Spec.Ev) (hn : env.st.get? s = some n)
    (hk : Laws.keywords n = { if_ := some c })
    (hc : Spec.evalFuel (specEnvOf env) fuel (stack ++ [s]) c j = some (some evc)) :
    ∃ a ac, Go.validateFuel env (fuel + 1) stack (GoVal.ofJson j) s = .ok a ∧
      Go.validateFuel env fuel (stack ++ [s]) (GoVal.ofJson j) c = .ok ac ∧
      (∀ k, k ∈ keysOf j → γprop a k = γprop ac k) ∧ (∀ i, i < lenOf j → γitem a i = γitem ac i) := by
  have hs' := Laws.stack_snoc env hwf stack hstack s n hn
  obtain ⟨a, ha, hm⟩ := Laws.go_anns env hwf hst _ _ hstack s j hj evc
    (if_alone_annotations (specEnvOf env) fuel stack s n j c evc hn hk hc)
  obtain ⟨ac, hac, hmc⟩ := Laws.go_anns env hwf hst _ _ hs' c j hj evc hc
  exact ⟨a, ac, ha, hac, fun k hk' => by rw [hm.1 k hk', hmc.1 k hk'], fun i hi => by rw [hm.2 i hi, hmc.2 i hi]⟩

/-- evaluator (`child_locations_invisible` through `annotations_exact`): a schema object whose only keyword is
    `properties` returns, on an object it accepts, annotations that mark as evaluated exactly the members named in
    `properties` — whatever the subschemas noted while validating the member values -/
theorem child_locations_invisible_go (ps : List (String × NodeId)) (kvs : List (String × Json))
    (hjo : j = .obj kvs) (hn : env.st.get? s = some n) (hk : Laws.keywords n = { properties := some ps })
    (hdef : (Spec.evalFuel (specEnvOf env) (fuel + 1) stack s j).isSome = true) (a : Anns)
    (ha : Go.validateFuel env (fuel + 1) stack (GoVal.ofJson j) s = .ok a) :
    ∀ k, k ∈ keysOf j → γprop a k = (Json.lookup k ps).isSome := by
  subst hjo
  obtain ⟨r, hr⟩ := Option.isSome_iff_exists.1 hdef
  cases r with
  | none =>
    have := Laws.go_verdict env hwf hst _ _ hstack s _ hj _ hr
    rw [ha] at this; cases this
  | some ev =>
    obtain ⟨a', ha', hm⟩ := Laws.go_anns env hwf hst _ _ hstack s _ hj ev hr
    rw [ha] at ha'; cases ha'
    have he := properties_evaluates_names_only (specEnvOf env) fuel stack s n ps kvs ev hn hk hr
    intro k hk'
    rw [hm.1 k hk', he]
    rw [Bool.eq_iff_iff]
    simp only [List.contains_iff_mem, List.mem_map, List.mem_filter]
    constructor
    · rintro ⟨p, ⟨_, hp⟩, rfl⟩; exact hp
    · intro hl
      obtain ⟨p, hp, rfl⟩ := List.mem_map.1 hk'
      exact ⟨p, ⟨hp, hl⟩, rfl⟩

/-- evaluator (`cousins_invisible` through `annotations_exact`): the annotations returned for `(s, j)` stand for the sets
    that one step of the Spec computes from recursive calls ERASED at every instance other than `j` -/
theorem cousins_invisible_go (ev : Spec.Ev)
    (h : Spec.evalStep (specEnvOf env) (Laws.eraseOff j (Spec.evalFuel (specEnvOf env) fuel)) stack s j = some (some ev)) :
    ∃ a, Go.validateFuel env (fuel + 1) stack (GoVal.ofJson j) s = .ok a ∧
      (∀ k, k ∈ keysOf j → γprop a k = ev.props.contains k) ∧ (∀ i, i < lenOf j → γitem a i = ev.items.contains i) := by
  rw [← cousins_invisible] at h
  exact Laws.go_anns env hwf hst _ _ hstack s j hj ev h

end laws_go

/-! ### the laws instantiated

`{"allOf": [{"properties": {"a": {"properties": {"b": {}}}}}], "unevaluatedProperties": false}`: the branch of the `allOf`
evaluates `a` at this location; the subschema it applies to the value of `a` evaluates `b` THERE.  On
`{"a": {"b": 1}, "b": 2}` the member `b` of the root is therefore unevaluated, and rejected. -/

def cousinStore : Store := #[
  { allOf := some [1], unevaluatedProperties := some 4 },
  { properties := some [("a", 2)] },
  { properties := some [("b", 3)] },
  {},
  { not := some 3 } ]

def cousinEnv : VEnv :=
  { st := cousinStore, draft := .d2020, infos := (List.range cousinStore.size).map fun i => (i, { base := some 0 }),
    reMatch := fun _ _ => false, hash := fun _ => 0 }

theorem cousinEnv_wf : EnvWF cousinEnv := EnvWF_of_checks cousinEnv (by decide) (by decide) (fun _ _ _ => rfl)
theorem cousinEnv_store : StoreWF cousinEnv.st := StoreWF_of_check _ (by decide)

def cousinBad : Json := .obj [("a", .obj [("b", .num 1)]), ("b", .num 2)]
def cousinGood : Json := .obj [("a", .obj [("b", .num 1)])]

/-- the branch (node 1) evaluates `a` only, although the subschema under `a` evaluated `b` -/
example : Spec.evalFuel (specEnvOf cousinEnv) 3 [0] 1 cousinBad = some (some { props := ["a"] }) := by rfl
example : Spec.evalFuel (specEnvOf cousinEnv) 2 [0, 1] 2 (.obj [("b", .num 1)]) = some (some { props := ["b"] }) := by rfl
example : Spec.evalFuel (specEnvOf cousinEnv) 3 [0] 1 cousinBad
    = some (some { props := (([("a", Json.obj [("b", .num 1)]), ("b", .num 2)] : List (String × Json)).filter
        fun p => (Json.lookup p.1 [("a", 2)]).isSome).map (·.1), items := [] }) :=
  congrArg (fun e => some (some e))
    (properties_evaluates_names_only (specEnvOf cousinEnv) 2 [0] 1 _ [("a", 2)] _ _ rfl rfl (by rfl))
/-- hence the root rejects `{"a": {"b": 1}, "b": 2}` and accepts `{"a": {"b": 1}}` -/
example : (Spec.evalFuel (specEnvOf cousinEnv) 4 [] 0 cousinBad).map (·.isSome) = some false := by decide
example : (Spec.evalFuel (specEnvOf cousinEnv) 4 [] 0 cousinGood).map (·.isSome) = some true := by decide
example : (Go.validateFuel cousinEnv 4 [] (GoVal.ofJson cousinBad) 0).verdict = some false := by decide
example : (Go.validateFuel cousinEnv 4 [] (GoVal.ofJson cousinGood) 0).verdict = some true := by decide
/-- `cousins_invisible` at the root -/
example : Spec.evalFuel (specEnvOf cousinEnv) 4 [] 0 cousinBad
    = Spec.evalStep (specEnvOf cousinEnv) (Laws.eraseOff cousinBad (Spec.evalFuel (specEnvOf cousinEnv) 3)) [] 0 cousinBad :=
  cousins_invisible _ 3 [] 0 cousinBad
/-- `child_locations_invisible_go`: the annotations of the branch mark `a`, not `b` -/
example (a : Anns) (ha : Go.validateFuel cousinEnv 3 [0] (GoVal.ofJson cousinBad) 1 = .ok a) :
    γprop a "a" = true ∧ γprop a "b" = false :=
  have h := child_locations_invisible_go cousinEnv cousinEnv_wf cousinEnv_store 2 [0] (by decide) 1 _ cousinBad (by decide)
    [("a", 2)] _ rfl rfl rfl (by decide) a ha
  ⟨h "a" (by decide), h "b" (by decide)⟩
example : (Go.validateFuel cousinEnv 3 [0] (GoVal.ofJson cousinBad) 1).isOk = true := by decide

/-- `not (not s)` and `if s` on the nodes of `C01.lawStore` -/
example : ({} : Spec.Ev).props = [] ∧ ({} : Spec.Ev).items = [] :=
  not_not_evaluates_nothing (specEnvOf C01.lawEnv) 2 [] 10 _ C01.lawGood 11 _ 2 rfl rfl rfl rfl {} (by rfl)
example (a : Anns) (ha : Go.validateFuel C01.lawEnv 4 [] (GoVal.ofJson C01.lawGood) 10 = .ok a) : γprop a "a" = false :=
  (not_not_drops_annotations C01.lawEnv C01.lawEnv_wf C01.lawEnv_store 2 [] (fun _ h => nomatch h) 10 _ C01.lawGood
    (by decide) 11 _ 2 rfl rfl rfl rfl (by decide) a ha).1 "a" (by decide)
example : Spec.evalFuel (specEnvOf C01.lawEnv) 3 [] 16 C01.lawGood = some (some { props := ["a"] }) :=
  if_alone_annotations (specEnvOf C01.lawEnv) 2 [] 16 _ C01.lawGood 2 _ rfl rfl (by rfl)
example : Spec.evalFuel (specEnvOf C01.lawEnv) 3 [] 16 C01.lawBad = some (some {}) :=
  if_alone_failed_condition (specEnvOf C01.lawEnv) 2 [] 16 _ C01.lawBad 2 rfl rfl (by rfl)
example : ∃ a ac, Go.validateFuel C01.lawEnv 3 [] (GoVal.ofJson C01.lawGood) 16 = .ok a ∧
    Go.validateFuel C01.lawEnv 2 [16] (GoVal.ofJson C01.lawGood) 2 = .ok ac ∧
    (∀ k, k ∈ keysOf C01.lawGood → γprop a k = γprop ac k) ∧ (∀ i, i < lenOf C01.lawGood → γitem a i = γitem ac i) :=
  if_alone_annotations_go C01.lawEnv C01.lawEnv_wf C01.lawEnv_store 2 [] (fun _ h => nomatch h) 16 _ C01.lawGood
    (by decide) 2 _ rfl rfl (by rfl)

end JSV.C07
