/-
  C08 — the verdict (and the annotations, and panics) do not depend on the Go representation of the instance:
  named numeric kinds, json.Number, pointers and interfaces at any depth, typed slices and maps.
  Property theorems only (helper lemmas: JSV/Proofs/InvRepr.lean, JSV/Proofs/InvRepr2.lean).
-/
import JSV.Proofs.InvRepr2
import JSV.Props.C01
namespace JSV.C08
open JSV Go GoVal Refine

/-! ## what the blocks observe of an instance -/

theorem jsonType_repr (g : GoVal) (j : Json) (h : GoVal.denote g = some j) :
    GoVal.jsonType (GoVal.strip g) = some j.typeName :=
  Inv.jsonType_repr g j h

theorem jsonNumber_repr (g : GoVal) (j : Json) (h : GoVal.denote g = some j) :
    GoVal.jsonNumber (GoVal.strip g) = (match j with | .num q => some q | _ => none) := by
  rw [Inv.jsonNumber_repr g j h]; cases j <;> rfl

theorem stringOf_repr (g : GoVal) (j : Json) (h : GoVal.denote g = some j) :
    Go.stringOf (GoVal.strip g) = (match j with | .str s => some s | _ => none) := by
  rw [Inv.stringOf_repr g j h]; cases j <;> rfl

/-- equalValue gives the same answer on any two pairs of representations (from `C11.equal_iff`) -/
theorem equalValue_repr (x1 x2 y1 y2 : GoVal) (jx jy : Json)
    (hx1 : GoVal.denote x1 = some jx) (hx2 : GoVal.denote x2 = some jx)
    (hy1 : GoVal.denote y1 = some jy) (hy2 : GoVal.denote y2 = some jy) :
    Go.equalValue x1 y1 = Go.equalValue x2 y2 := by
  rw [C11.equal_iff x1 y1 jx jy hx1 hy1, C11.equal_iff x2 y2 jx jy hx2 hy2]

/-- the uniqueItems block gives the same answer on any two representations of the same items, for every
    hash function that respects equality (from `C12.unique_correct`); no statement about the hash values of
    different representations is needed beyond that -/
theorem uniqueItems_repr (hash : GoVal → UInt64) (hh : ∀ x y, Go.equalValue x y = .ok true → hash x = hash y)
    (items1 items2 : List GoVal) (js : List Json)
    (h1 : GoVal.denoteList items1 = some js) (h2 : GoVal.denoteList items2 = some js) (hw : Json.wfList js = true) :
    Go.uniqueItems hash items1 = Go.uniqueItems hash items2 := by
  rw [C12.unique_correct hash items1 js h1 hw (fun x y _ _ he => hh x y he),
      C12.unique_correct hash items2 js h2 hw (fun x y _ _ he => hh x y he)]

/-! ## the evaluator -/

/-- **main**: every representation of a JSON value gets the verdict and annotations of the canonical decoding -/
theorem validate_repr (env : Go.VEnv) (hh : ∀ x y, Go.equalValue x y = .ok true → env.hash x = env.hash y) :
    ∀ fuel stack s (g : GoVal) (j : Json), GoVal.denote g = some j → Json.WF j = true →
      Go.validateFuel env fuel stack g s = Go.validateFuel env fuel stack (GoVal.ofJson j) s :=
  fun fuel stack s g j hg hw => Inv.validateFuel_repr env hh fuel stack s g j hg hw

/-- any two representations of one JSON value are indistinguishable -/
theorem validate_repr_two (env : Go.VEnv) (hh : ∀ x y, Go.equalValue x y = .ok true → env.hash x = env.hash y)
    (fuel : Nat) (stack : List NodeId) (s : NodeId) (g1 g2 : GoVal) (j : Json)
    (h1 : GoVal.denote g1 = some j) (h2 : GoVal.denote g2 = some j) (hw : Json.WF j = true) :
    Go.validateFuel env fuel stack g1 s = Go.validateFuel env fuel stack g2 s := by
  rw [validate_repr env hh fuel stack s g1 j h1 hw, validate_repr env hh fuel stack s g2 j h2 hw]

/-- at the entry point `(*Resolved).Validate` -/
theorem validate_repr_entry (env : Go.VEnv) (hh : ∀ x y, Go.equalValue x y = .ok true → env.hash x = env.hash y)
    (supported : List String) (fuel : Nat) (root : NodeId) (g : GoVal) (j : Json)
    (hg : GoVal.denote g = some j) (hw : Json.WF j = true) :
    Go.validate env supported fuel root g = Go.validate env supported fuel root (GoVal.ofJson j) := by
  unfold Go.validate
  rw [validate_repr env hh fuel [] root g j hg hw]

/-- with `C01.C01_main`: whenever the Spec decides, `Validate` on ANY representation of the instance returns nil
    exactly when the instance is valid -/
theorem validate_repr_decides (env : VEnv) (hwf : EnvWF env) (hst : StoreWF env.st) (fuel : Nat) (root : NodeId)
    (j : Json) (hj : Json.WF j = true) (b : Bool) (hs : Spec.valid (specEnvOf env) fuel root j = some b)
    (supported : List String) (rn : Node) (hroot : env.st.get? root = some rn)
    (hsup : supported.contains rn.schema = true) (g : GoVal) (hg : GoVal.denote g = some j) :
    Go.validate env supported fuel root g = if b then .ok () else .err := by
  rw [validate_repr_entry env hwf.hash_respects supported fuel root g j hg hj]
  exact C01.C01_main env hwf hst fuel root j hj b hs supported rn hroot hsup

/-! ## The hypotheses are satisfiable on non-trivial data

`{"a":[1,1.5,null],"b":"x","c":2}` decoded by encoding/json, and the same value held in typed Go data:
named ints, a json.Number, pointers, interfaces. -/

def exJ : Json := .obj [("a", .arr [.num 1, .num (mkRat 3 2), .null]), ("b", .str "x"), ("c", .num 2)]
def exG : GoVal :=
  .ptr (.map [("a", .iface (.list [.int 1, .ptr (.float (mkRat 3 2)), .ptr .invalid])), ("b", .iface (.str "x")),
              ("c", .jnum (some 2) "2.0")])
def exG2 : GoVal :=
  .iface (.map [("a", .list [.uint 1, .jnum (some (mkRat 3 2)) "1.5", .invalid]), ("b", .str "x"), ("c", .int 2)])

example : GoVal.denote exG = some exJ := by rfl
example : GoVal.denote exG2 = some exJ := by rfl
example : GoVal.denote (GoVal.ofJson exJ) = some exJ := by rfl
example : Json.WF exJ = true := by decide

/-- `{"properties":{"a":{"items":{"type":["number","null"]},"uniqueItems":true,"contains":{"const":1.5}},"c":{"type":"integer","enum":[2]}},
     "required":["b"],"unevaluatedProperties":{"type":"string"}}` -/
def exStore : Store := #[
  { properties := some [("a", 1), ("c", 4)], required := some ["b"], unevaluatedProperties := some 5 },
  { items := some 2, uniqueItems := true, contains := some 3 },
  { types := some ["number", "null"] },
  { const := some (.num (mkRat 3 2)) },
  { type := "integer", enum := some [.num 2] },
  { type := "string" } ]

def exInfos : List (NodeId × Info) :=
  [(0, { path := "root", base := some 0 }), (1, { base := some 0 }), (2, { base := some 0 }), (3, { base := some 0 }),
   (4, { base := some 0 }), (5, { base := some 0 })]

def exEnv : VEnv :=
  { st := exStore, draft := .d2020, infos := exInfos, reMatch := fun _ _ => false, hash := fun _ => 0 }

/-- `validate_repr_two` applied: the typed data and the decoded data get the same result … -/
example : Go.validateFuel exEnv 4 [] exG 0 = Go.validateFuel exEnv 4 [] exG2 0 :=
  validate_repr_two exEnv (fun _ _ _ => rfl) 4 [] 0 exG exG2 exJ rfl rfl (by decide)
example : Go.validateFuel exEnv 4 [] exG 0 = Go.validateFuel exEnv 4 [] (GoVal.ofJson exJ) 0 :=
  validate_repr exEnv (fun _ _ _ => rfl) 4 [] 0 exG exJ rfl (by decide)
/-- … which is "valid" with every property evaluated; by running the model on the three representations -/
example : (Go.validateFuel exEnv 4 [] exG 0).verdict = some true := by decide
example : (Go.validateFuel exEnv 4 [] exG2 0).verdict = some true := by decide
example : (Go.validateFuel exEnv 4 [] (GoVal.ofJson exJ) 0).verdict = some true := by decide

/-! ## why the hash hypothesis is needed

A hash that tells an `int` from a `float64` puts `1` and `1.0` in different buckets: `uniqueItems` then accepts
`[]any{1, 1.0}` but rejects the decoded `[1, 1.0]`.  (The package's `hashValue` respects equality: `C12.hash_law`.) -/

def badHash : GoVal → UInt64
  | .int _ => 0
  | _ => 1

def cexEnv : VEnv :=
  { st := #[{ uniqueItems := true }], draft := .d2020, infos := [(0, { base := some 0 })],
    reMatch := fun _ _ => false, hash := badHash }

example : GoVal.denote (.list [.int 1, .float 1]) = some (.arr [.num 1, .num 1]) := by rfl
example : (Go.validateFuel cexEnv 1 [] (.list [.int 1, .float 1]) 0).verdict = some true := by decide
example : (Go.validateFuel cexEnv 1 [] (GoVal.ofJson (.arr [.num 1, .num 1])) 0).verdict = some false := by decide
example : Go.equalValue (.int 1) (.float 1) = .ok true ∧ badHash (.int 1) ≠ badHash (.float 1) := by decide

/-! ## values outside the domain: not a JSON value

`denote g = none` for structs, maps with non-string keys, funcs, and an unparsable json.Number; the theorem says
nothing about them (the evaluator refuses structs explicitly). -/

example : GoVal.denote (.other .struct) = none := by rfl
example : (Go.validateFuel cexEnv 1 [] (.other .struct) 0).verdict = some false := by decide

end JSV.C08
