/-
  JSON values as the properties speak of them.
  numbers are exact rationals; strings are sequences of Unicode scalars;
  objects are association lists (the order is what a parser saw / a printer emits).
-/
import JSV.Basic.Res
namespace JSV

inductive Json where
  | null
  | bool (b : Bool)
  | num (q : Rat)
  | str (s : String)
  | arr (xs : List Json)
  | obj (kvs : List (String × Json))
  deriving Repr, Inhabited

namespace Json

/-- association-list lookup, first hit (keys are distinct in well-formed values) -/
def lookup {α : Type} (k : String) : List (String × α) → Option α
  | [] => none
  | (k', v) :: rest => if k' = k then some v else lookup k rest

@[simp] theorem lookup_nil {α} (k : String) : lookup k ([] : List (String × α)) = none := rfl
@[simp] theorem lookup_cons {α} (k k' : String) (v : α) (rest) :
    lookup k ((k', v) :: rest) = if k' = k then some v else lookup k rest := rfl

def keys {α : Type} (kvs : List (String × α)) : List String := kvs.map (·.1)

mutual
  /-- JSON value equality: the Spec of C11.  Numbers by mathematical value, strings by code
      points, arrays element-wise in order, objects as finite maps. -/
  def eqv : Json → Json → Bool
    | .null, .null => true
    | .bool a, .bool b => a == b
    | .num a, .num b => a == b
    | .str a, .str b => a == b
    | .arr xs, .arr ys => eqvList xs ys
    | .obj kx, .obj ky => kx.length == ky.length && eqvObj kx ky
    | _, _ => false
  def eqvList : List Json → List Json → Bool
    | [], [] => true
    | x :: xs, y :: ys => eqv x y && eqvList xs ys
    | _, _ => false
  /-- every entry of the first object has an equal entry under the same key in the second -/
  def eqvObj : List (String × Json) → List (String × Json) → Bool
    | [], _ => true
    | (k, v) :: rest, ky =>
      (match lookup k ky with
       | some v' => eqv v v'
       | none => false) && eqvObj rest ky
end

mutual
  /-- keys of every object are pairwise distinct, at every depth -/
  def WF : Json → Bool
    | .arr xs => wfList xs
    | .obj kvs => nodupKeys (keys kvs) && wfObj kvs
    | _ => true
  def wfList : List Json → Bool
    | [] => true
    | x :: xs => WF x && wfList xs
  def wfObj : List (String × Json) → Bool
    | [] => true
    | (_, v) :: rest => WF v && wfObj rest
  def nodupKeys : List String → Bool
    | [] => true
    | k :: ks => !ks.contains k && nodupKeys ks
end

mutual
  def size : Json → Nat
    | .arr xs => 1 + sizeList xs
    | .obj kvs => 1 + sizeObj kvs
    | _ => 1
  def sizeList : List Json → Nat
    | [] => 0
    | x :: xs => size x + sizeList xs
  def sizeObj : List (String × Json) → Nat
    | [] => 0
    | (_, v) :: rest => size v + sizeObj rest
end

def typeName : Json → String
  | .null => "null"
  | .bool _ => "boolean"
  | .num q => if q.den = 1 then "integer" else "number"
  | .str _ => "string"
  | .arr _ => "array"
  | .obj _ => "object"

def isObj : Json → Bool
  | .obj _ => true
  | _ => false

def isArr : Json → Bool
  | .arr _ => true
  | _ => false

end Json
end JSV
