/-
  Decimal literals as exact rationals (JSON number grammar; also what big.Rat.SetString accepts
  on such literals).
-/
namespace JSV
namespace Num

def digitVal (c : Char) : Option Nat :=
  if '0' ≤ c ∧ c ≤ '9' then some (c.toNat - '0'.toNat) else none

def parseDigits (cs : List Char) : Option Nat :=
  if cs.isEmpty then none else
  cs.foldl (fun acc c => match acc, digitVal c with
    | some a, some d => some (a * 10 + d)
    | _, _ => none) (some 0)

/-- sign, integer part, optional fraction, optional exponent -/
def parseDecimal (s : String) : Option Rat :=
  let cs := s.toList
  let (neg, cs) := match cs with
    | '-' :: r => (true, r)
    | '+' :: r => (false, r)
    | r => (false, r)
  let (mant, ex) := (cs.takeWhile (fun c => c != 'e' && c != 'E'), (cs.dropWhile (fun c => c != 'e' && c != 'E')).drop 1)
  let hasExp := cs.any (fun c => c == 'e' || c == 'E')
  let (ip, fp) := (mant.takeWhile (· != '.'), (mant.dropWhile (· != '.')).drop 1)
  let hasDot := mant.any (· == '.')
  match parseDigits ip with
  | none => none
  | some i =>
    let fr : Option (Nat × Nat) :=
      if hasDot then (parseDigits fp).map (fun f => (f, fp.length)) else some (0, 0)
    match fr with
    | none => none
    | some (f, flen) =>
      let e : Option Int :=
        if hasExp then
          match ex with
          | '-' :: r => (parseDigits r).map (fun n => - (n : Int))
          | '+' :: r => (parseDigits r).map (fun n => (n : Int))
          | r => (parseDigits r).map (fun n => (n : Int))
        else some 0
      match e with
      | none => none
      | some e =>
        let m : Rat := mkRat ((i * 10 ^ flen + f : Nat) : Int) (10 ^ flen)
        let m := if neg then -m else m
        some (if e ≥ 0 then m * ((10 ^ e.toNat : Nat) : Rat) else m / ((10 ^ (-e).toNat : Nat) : Rat))

/-- is the rational an integer -/
def isInt (q : Rat) : Bool := q.den == 1

end Num
end JSV
