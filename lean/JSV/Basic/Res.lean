/-
  Res: the outcome of a modelled Go computation.
  `fuel`  : the model ran out of fuel (no statement is made)
  `panic` : the Go code would panic (nil dereference, failed assertion, explicit panic)
  `err`   : the Go code returns a non-nil error
  `ok a`  : the Go code returns normally with value `a`
-/
namespace JSV

inductive Res (α : Type) where
  | fuel : Res α
  | panic : Res α
  | err : Res α
  | ok (a : α) : Res α
  deriving Repr, DecidableEq, Inhabited

namespace Res

@[inline] def bind {α β : Type} (x : Res α) (f : α → Res β) : Res β :=
  match x with
  | .fuel => .fuel
  | .panic => .panic
  | .err => .err
  | .ok a => f a

instance : Monad Res where
  pure := .ok
  bind := Res.bind

@[simp] theorem bind_fuel {α β} (f : α → Res β) : bind .fuel f = .fuel := rfl
@[simp] theorem bind_panic {α β} (f : α → Res β) : bind .panic f = .panic := rfl
@[simp] theorem bind_err {α β} (f : α → Res β) : bind .err f = .err := rfl
@[simp] theorem bind_ok {α β} (a : α) (f : α → Res β) : bind (.ok a) f = f a := rfl

/-- `isOk` : the computation returned normally. -/
def isOk {α} : Res α → Bool
  | .ok _ => true
  | _ => false

/-- The boolean view used by `valid := validate(...) == nil` in the Go code.
    `none` when the sub-computation did not produce a verdict (fuel / panic). -/
def verdict {α} : Res α → Option Bool
  | .ok _ => some true
  | .err => some false
  | _ => none

/-- Information order: `fuel` is below everything. -/
def le {α} (x y : Res α) : Prop := x = .fuel ∨ x = y
infix:50 " ⊑ " => le

theorem le_refl {α} (x : Res α) : x ⊑ x := Or.inr rfl
theorem fuel_le {α} (x : Res α) : (.fuel : Res α) ⊑ x := Or.inl rfl

theorem bind_mono {α β} {x y : Res α} {f g : α → Res β}
    (hxy : x ⊑ y) (hfg : ∀ a, f a ⊑ g a) : bind x f ⊑ bind y g := by
  rcases hxy with h | h
  · subst h; exact fuel_le _
  · subst h; cases x <;> simp [le_refl]; exact hfg _

def toString {α} (f : α → String) : Res α → String
  | .fuel => "fuel"
  | .panic => "panic"
  | .err => "err"
  | .ok a => f a

end Res
end JSV
